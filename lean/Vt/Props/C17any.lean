/-
  C17any — RIS (`ESC c`) from EVERY reachable parser state, end to end, and "every later input
  behaves exactly as it would on a fresh parser".

  Closes the gaps of Vt/Props/C17.lean (which has the action-level `ris_fresh_screen`, the
  Ground-only `ris_process_ground`, and `esc_from_any` with an unproved hypothesis).

  A. `Inc0`, `inc0_tail`, `inc0_len`, `inc0_esc` : facts about truncated UTF-8 characters.
  B/C. `VteClean` : the invariant of the vte automaton
         - OSC buffer empty outside OscString,
         - parameters / intermediates / ignoring reset in Escape,
         - pending partial UTF-8 bytes only in Ground, and they are a truncated character;
       `vteClean_new`, `clean_advance` (preserved by `Vte.advance` on arbitrary bytes),
       `clean_process`.
  D. `esc_any` (ESC from each of the 13 non-Ground states), `esc_ground`, `escaped_c`,
     `advance_ris` : `v.advance (ESC c ++ suffix) = risPre v ++ [esc_dispatch 'c'] ++ actions of
     `Vte.new.advance suffix`, final automaton state that of `Vte.new.advance suffix`.
  E. `frame_perform`, `process_frame` : `perform` / `process` never read the callback log.
  F. `ris_process_general` / `ris_process_any` (any callback policy), `risEvents` (the events, by
     pre-state), `ris_process_quiet` (`= .ok (afterRis p)`), `ris_process_cbInv`,
     `ris_then_fresh` (`p'.vte = Vte.new` literally; same future), `ris_suffix`.
  G. `reachable_clean`, `ris_end_to_end`, `ris_end_to_end_ok` : the property for every reachable parser.
  H. non-vacuity tests (alternate screen, mid-CSI, mid-OSC, pending UTF-8, mid-DCS, mid-ESC, resized +
     scrolled view) and three counterexamples showing each clause of `VteClean` is needed.

  What turned out false as literally asked, and the hypothesis that fixes it:
  * "`p'.ws.screen = Screen.new <size read from p.ws.screen>`" is false for callback policies that
    resize the screen inside `set_window_title` &c. (the pending OSC's callback runs BEFORE the
    RIS): `ris_process_general` / `ris_process_cbInv` say what is true for those; `CbQuiet`
    (callbacks act at most on `resize`; holds for `cbNone` and `cbResize`) gives the literal form.
  * without `VteClean` the statement is false: `needs_esc_clause`, `needs_osc_clause`,
    `needs_carry_clause`.
-/
import Vt.Props.C17
import Vt.Props.C04b
import Vt.Props.InvPerform
import Vt.Lemmas.VteOk
namespace Vt.C17any
open Vt
set_option linter.unusedSimpArgs false
set_option linter.unusedVariables false
set_option maxRecDepth 4096

/-! ### A. facts about truncated UTF-8 sequences -/

/-- `c` is a proper, non-empty prefix of one multi-byte character: `from_utf8(c)` reports
"unexpected end of input" (`error_len() == None`) at offset 0 -/
def Inc0 (c : List Nat) : Prop :=
  (Utf8.fromUtf8 c).err = some none ∧ (Utf8.fromUtf8 c).validUpTo = 0

open Utf8 in
/-- what `advance_ground` stores in `partial_utf8` is a truncated character -/
theorem inc0_tail (a : List Nat) (h : (fromUtf8 a).err = some none) :
    Inc0 (a.drop (fromUtf8 a).validUpTo) := by
  fun_induction fromUtf8 a
  all_goals first
    | (simp [Res.stop] at h; done)
    | (simp only [Res.stop, List.drop_zero, Inc0]
       rw [fromUtf8.eq_def]
       simp [*, Res.stop]
       done)
    | skip
  all_goals
    rename_i ih
    have := ih (by simpa [Res.cons] using h)
    simp only [Res.cons]
    rw [Nat.add_comm]
    exact this

open Utf8 in
/-- a truncated character has 1..3 bytes -/
theorem inc0_len (c : List Nat) (h : Inc0 c) : 1 ≤ c.length ∧ c.length ≤ 3 := by
  obtain ⟨h1, h2⟩ := h
  fun_induction fromUtf8 c
  all_goals first
    | (simp [Res.stop] at h1; done)
    | (simp [Res.cons] at h2; done)
    | (simp; done)

theorem isCont_esc : Utf8.isCont 27 = false := by decide
theorem ok3_esc (b : Nat) : Utf8.ok3 b 27 = false := by
  simp [Utf8.ok3]
theorem ok4_esc (b : Nat) : Utf8.ok4 b 27 = false := by
  simp [Utf8.ok4]

open Utf8 in
/-- a truncated character followed by ESC is an invalid sequence no longer than the truncated
character itself -/
theorem inc0_esc (c rest : List Nat) (h : Inc0 c) :
    ∃ len, (fromUtf8 (c ++ 0x1B :: rest)).err = some (some len) ∧ len ≤ c.length ∧
      (fromUtf8 (c ++ 0x1B :: rest)).validUpTo = 0 := by
  obtain ⟨h1, h2⟩ := h
  fun_induction fromUtf8 c
  all_goals first
    | (simp [Res.stop] at h1; done)
    | (simp [Res.cons] at h2; done)
    | (simp only [List.cons_append, List.nil_append]
       rw [fromUtf8.eq_def]
       simp [*, Res.stop, isCont_esc, ok3_esc, ok4_esc]
       done)


/-! ### B. the invariant of the vte automaton -/

/-- the fields `reset_params` sets, at their initial values -/
def ParamsClear (v : Vte) : Prop :=
  v.ints = [] ∧ v.ignoring = false ∧ v.params = [] ∧ v.cur = [] ∧ v.param = 0

/-- the OSC buffer is empty -/
def OscClear (v : Vte) : Prop := v.oscRaw = [] ∧ v.oscParams = []

/-- **the invariant of the vte automaton** (all reachable automaton states satisfy it):
* the OSC buffer (`osc_raw`, `osc_params`) is empty outside `OscString`;
* in `Escape` the parameters, intermediates and the `ignoring` flag are reset;
* a pending partial UTF-8 character (`partial_utf8_len != 0`) only exists in `Ground`, and it is a
  truncated character (a proper non-empty prefix of one multi-byte character). -/
structure VteClean (v : Vte) : Prop where
  osc : v.state ≠ .oscString → OscClear v
  esc : v.state = .escape → ParamsClear v
  carry : v.carry ≠ [] → v.state = .ground ∧ Inc0 v.carry

theorem vteClean_new : VteClean Vte.new :=
  ⟨fun _ => ⟨rfl, rfl⟩, fun h => by simp [Vte.new] at h, fun h => by simp [Vte.new] at h⟩

/-- the part of the invariant that does not mention the carry buffer -/
structure AutoClean (v : Vte) : Prop where
  osc : v.state ≠ .oscString → OscClear v
  esc : v.state = .escape → ParamsClear v

theorem auto_of_clean {v : Vte} (h : VteClean v) : AutoClean v := ⟨h.osc, h.esc⟩

/-- result of a step: the automaton part of the invariant holds -/
def StepClean (r : Vte × List Action) : Prop := AutoClean r.1

theorem sc_ite {c : Prop} [Decidable c] {x y : Vte × List Action} (hx : StepClean x) (hy : StepClean y) :
    StepClean (if c then x else y) := by
  split <;> assumption

@[simp] theorem osc_reset (v : Vte) : OscClear v.resetParams ↔ OscClear v := Iff.rfl
@[simp] theorem osc_state (v : Vte) (s : VState) : OscClear { v with state := s } ↔ OscClear v := Iff.rfl
@[simp] theorem osc_collect (v : Vte) (b : Nat) : OscClear (v.actionCollect b) ↔ OscClear v := by
  unfold Vte.actionCollect; split <;> exact Iff.rfl
@[simp] theorem osc_subparam (v : Vte) : OscClear v.actionSubparam ↔ OscClear v := by
  unfold Vte.actionSubparam; split <;> exact Iff.rfl
@[simp] theorem osc_param (v : Vte) : OscClear v.actionParam ↔ OscClear v := by
  unfold Vte.actionParam; split <;> exact Iff.rfl
@[simp] theorem osc_paramnext (v : Vte) (b : Nat) : OscClear (v.actionParamnext b) ↔ OscClear v := by
  unfold Vte.actionParamnext; split <;> exact Iff.rfl
@[simp] theorem osc_finish (v : Vte) : OscClear v.finishParams ↔ OscClear v := by
  unfold Vte.finishParams; split <;> exact Iff.rfl
@[simp] theorem state_collect (v : Vte) (b : Nat) : (v.actionCollect b).state = v.state := by
  unfold Vte.actionCollect; split <;> rfl
@[simp] theorem state_subparam (v : Vte) : v.actionSubparam.state = v.state := by
  unfold Vte.actionSubparam; split <;> rfl
@[simp] theorem state_param (v : Vte) : v.actionParam.state = v.state := by
  unfold Vte.actionParam; split <;> rfl
@[simp] theorem state_paramnext (v : Vte) (b : Nat) : (v.actionParamnext b).state = v.state := by
  unfold Vte.actionParamnext; split <;> rfl
@[simp] theorem state_finish (v : Vte) : v.finishParams.state = v.state := by
  unfold Vte.finishParams; split <;> rfl

/-- a state other than `Escape` / `OscString` with an empty OSC buffer -/
theorem auto_plain {v : Vte} (ho : OscClear v) (h1 : v.state ≠ .escape) : AutoClean v :=
  ⟨fun _ => ho, fun h => absurd h h1⟩

/-- entering `Escape` through `reset_params` -/
theorem auto_escape {v : Vte} (ho : OscClear v) : AutoClean { v.resetParams with state := .escape } :=
  ⟨fun _ => ho, fun _ => ⟨rfl, rfl, rfl, rfl, rfl⟩⟩

theorem sc_anywhere {v : Vte} (ho : OscClear v) (h1 : v.state ≠ .escape) (b : Nat) : StepClean (v.anywhere b) := by
  unfold Vte.anywhere
  refine sc_ite ?_ (sc_ite ?_ ?_)
  · exact auto_plain ho (by simp)
  · exact auto_escape ho
  · exact auto_plain ho h1

theorem sc_csiDispatch {v : Vte} (ho : OscClear v) (b : Nat) : StepClean (v.actionCsiDispatch b) :=
  auto_plain (v := { v.finishParams with state := .ground }) ((osc_finish v).mpr ho) (by simp)

theorem sc_hook {v : Vte} (ho : OscClear v) (b : Nat) : StepClean (v.actionHook b) :=
  auto_plain (v := { v.finishParams with state := .dcsPassthrough }) ((osc_finish v).mpr ho) (by simp)

theorem sc_escDispatch {v : Vte} (ho : OscClear v) (b : Nat) : StepClean (v.escDispatch b) :=
  auto_plain ho (by simp [Vte.escDispatch])

theorem osc_oscEnd (v : Vte) (b : Nat) : OscClear (v.oscEnd b).1 := ⟨rfl, rfl⟩


@[simp] theorem state_oscPutParam (v : Vte) : v.actionOscPutParam.state = v.state := by
  unfold Vte.actionOscPutParam; split
  · rfl
  · split <;> rfl
@[simp] theorem state_oscPut (v : Vte) (b : Nat) : (v.actionOscPut b).state = v.state := by
  unfold Vte.actionOscPut; split <;> rfl

/-- a step that stays in / enters `OscString` -/
theorem auto_oscString {v : Vte} (hs : v.state = .oscString) : AutoClean v :=
  ⟨fun h => absurd hs h, fun h => by rw [hs] at h; cases h⟩

theorem sc_osc {v : Vte} (hs : v.state = .oscString) (b : Nat) : StepClean (v.advanceOscString b) := by
  unfold Vte.advanceOscString
  have ho := osc_oscEnd v b
  cases hoe : v.oscEnd b with
  | mk v1 a1 =>
    rw [hoe] at ho
    simp only
    repeat' apply sc_ite
    · exact auto_oscString hs
    · exact auto_plain (v := { v1 with state := .ground }) ho (by simp)
    · exact auto_plain (v := { v1 with state := .ground }) ho (by simp)
    · exact auto_escape ho
    · exact auto_oscString hs
    · exact auto_oscString (by simp [hs])
    · exact auto_oscString (by simp [hs])

theorem sc_esc {v : Vte} (h : AutoClean v) (hs : v.state = .escape) (b : Nat) : StepClean (v.advanceEsc b) := by
  have ho : OscClear v := h.osc (by rw [hs]; simp)
  unfold Vte.advanceEsc
  repeat' apply sc_ite
  all_goals first
    | exact h
    | exact sc_escDispatch ho _
    | exact auto_oscString rfl
    | exact auto_plain (v := { v.actionCollect b with state := .escapeIntermediate }) ((osc_collect v b).mpr ho) (by simp)
    | exact auto_plain (v := { v.resetParams with state := .dcsEntry }) ho (by simp)
    | exact auto_plain (v := { v.resetParams with state := .csiEntry }) ho (by simp)
    | exact auto_plain (v := { v with state := .sosPmApcString }) ho (by simp)
    | exact auto_plain (v := { v with state := .ground }) ho (by simp)

/-- leaves of the per-state transition functions, for states other than `Escape` / `OscString` -/
macro "sc_leaf" h:ident ho:ident hs:ident : tactic => `(tactic| first
    | exact $h
    | exact sc_anywhere $ho (by rw [$hs:ident]; simp) _
    | exact sc_csiDispatch $ho _
    | exact sc_hook $ho _
    | exact sc_escDispatch $ho _
    | exact auto_escape $ho
    | (refine auto_plain ?_ ?_
       · first
           | exact $ho
           | exact (osc_collect _ _).mpr $ho
           | exact (osc_paramnext _ _).mpr $ho
           | exact (osc_subparam _).mpr $ho
           | exact (osc_param _).mpr $ho
       · simp [$hs:ident]))

/-- **one byte outside `Ground` keeps the automaton invariant** -/
theorem sc_changeState {v : Vte} (h : AutoClean v) (b : Nat) : StepClean (v.changeState b) := by
  unfold Vte.changeState
  split
  · rename_i hs
    have ho : OscClear v := h.osc (by rw [hs]; simp)
    unfold Vte.advanceCsiEntry
    repeat' apply sc_ite
    all_goals sc_leaf h ho hs
  · rename_i hs
    have ho : OscClear v := h.osc (by rw [hs]; simp)
    unfold Vte.advanceCsiIgnore
    repeat' apply sc_ite
    all_goals sc_leaf h ho hs
  · rename_i hs
    have ho : OscClear v := h.osc (by rw [hs]; simp)
    unfold Vte.advanceCsiIntermediate
    repeat' apply sc_ite
    all_goals sc_leaf h ho hs
  · rename_i hs
    have ho : OscClear v := h.osc (by rw [hs]; simp)
    unfold Vte.advanceCsiParam
    repeat' apply sc_ite
    all_goals sc_leaf h ho hs
  · rename_i hs
    have ho : OscClear v := h.osc (by rw [hs]; simp)
    unfold Vte.advanceDcsEntry
    repeat' apply sc_ite
    all_goals sc_leaf h ho hs
  · rename_i hs
    have ho : OscClear v := h.osc (by rw [hs]; simp)
    exact sc_anywhere ho (by rw [hs]; simp) _
  · rename_i hs
    have ho : OscClear v := h.osc (by rw [hs]; simp)
    unfold Vte.advanceDcsIntermediate
    repeat' apply sc_ite
    all_goals sc_leaf h ho hs
  · rename_i hs
    have ho : OscClear v := h.osc (by rw [hs]; simp)
    unfold Vte.advanceDcsParam
    repeat' apply sc_ite
    all_goals sc_leaf h ho hs
  · rename_i hs
    have ho : OscClear v := h.osc (by rw [hs]; simp)
    unfold Vte.advanceDcsPassthrough
    repeat' apply sc_ite
    all_goals sc_leaf h ho hs
  · rename_i hs
    exact sc_esc h hs b
  · rename_i hs
    have ho : OscClear v := h.osc (by rw [hs]; simp)
    unfold Vte.advanceEscIntermediate
    repeat' apply sc_ite
    all_goals sc_leaf h ho hs
  · rename_i hs
    exact sc_osc hs b
  · rename_i hs
    have ho : OscClear v := h.osc (by rw [hs]; simp)
    exact sc_anywhere ho (by rw [hs]; simp) _
  · exact h


/-! ### C. the invariant is inductive -/

theorem clean_of_auto {v : Vte} (h : AutoClean v) (hc : v.carry = []) : VteClean v :=
  ⟨h.osc, h.esc, fun hne => absurd hc hne⟩

/-- one byte outside `Ground` -/
theorem clean_changeState {v : Vte} (h : VteClean v) (hg : v.state ≠ .ground) (b : Nat) :
    VteClean (v.changeState b).1 ∧ (v.changeState b).1.carry = [] := by
  have hc : v.carry = [] := by
    cases hcar : v.carry with
    | nil => rfl
    | cons x xs => exact absurd (h.carry (by rw [hcar]; simp)).1 hg
  have hc' : (v.changeState b).1.carry = [] := by rw [C04.changeState_carry]; exact hc
  exact ⟨clean_of_auto (sc_changeState (auto_of_clean h) b) hc', hc'⟩

/-- one iteration of `advance_ground` -/
theorem clean_advanceGround {v : Vte} (h : VteClean v) (hg : v.state = .ground) (hc : v.carry = [])
    (bytes : List Nat) :
    VteClean (v.advanceGround bytes).1 ∧
      (bytes.drop (v.advanceGround bytes).2.2 ≠ [] → (v.advanceGround bytes).1.carry = []) := by
  have ho : OscClear v := h.osc (by rw [hg]; simp)
  have hesc : VteClean { v.resetParams with state := .escape } := clean_of_auto (auto_escape ho) hc
  unfold Vte.advanceGround
  simp only
  split
  · exact ⟨hesc, fun _ => hc⟩
  · cases he : (Utf8.fromUtf8 (bytes.take (bytes.findIdx (· == 0x1B)))).err with
    | none =>
      simp only
      split
      · exact ⟨hesc, fun _ => hc⟩
      · exact ⟨h, fun _ => hc⟩
    | some e =>
      cases e with
      | some len => exact ⟨h, fun _ => hc⟩
      | none =>
        simp only
        split
        · exact ⟨hesc, fun _ => hc⟩
        · rename_i hlt
          have hfl := C04.findIdx_le bytes
          have htake : bytes.take (bytes.findIdx (· == 0x1B)) = bytes :=
            List.take_of_length_le (by omega)
          rw [htake] at he ⊢
          refine ⟨⟨h.osc, h.esc, fun _ => ⟨hg, ?_⟩⟩, fun hne => absurd (by simp) hne⟩
          simp only [hc, List.nil_append]
          exact inc0_tail bytes he


/-- `advance_partial_utf8` -/
theorem clean_partial {v : Vte} (h : VteClean v) (hne : v.carry ≠ []) (bytes : List Nat) :
    VteClean (v.advancePartialUtf8 bytes).1 ∧
      (bytes.drop (v.advancePartialUtf8 bytes).2.2 ≠ [] → (v.advancePartialUtf8 bytes).1.carry = []) := by
  have hclr : VteClean { v with carry := [] } := ⟨h.osc, h.esc, fun hh => absurd rfl hh⟩
  unfold Vte.advancePartialUtf8
  simp only
  cases he : (Utf8.fromUtf8 (v.carry ++ bytes.take (min bytes.length (4 - v.carry.length)))).err with
  | none => exact ⟨hclr, fun _ => rfl⟩
  | some e =>
    simp only
    split
    · exact ⟨hclr, fun _ => rfl⟩
    · rename_i hv
      cases e with
      | some len => exact ⟨hclr, fun _ => rfl⟩
      | none =>
        simp only
        have hinc : Inc0 (v.carry ++ bytes.take (min bytes.length (4 - v.carry.length))) := ⟨he, by omega⟩
        have hl := (inc0_len _ hinc).2
        refine ⟨⟨h.osc, h.esc, fun _ => ⟨(h.carry hne).1, hinc⟩⟩, fun hd => absurd ?_ hd⟩
        simp only [List.length_append, List.length_take] at hl
        apply List.drop_of_length_le
        omega


/-- the main loop: it is only ever entered with pending UTF-8 bytes when no input is left -/
theorem clean_advanceLoop : ∀ (fuel : Nat) (v : Vte) (bytes : List Nat), VteClean v →
    (bytes ≠ [] → v.carry = []) → VteClean (Vte.advanceLoop fuel v bytes).1 := by
  intro fuel
  induction fuel with
  | zero => intro v bytes h _; exact h
  | succ fuel ih =>
    intro v bytes h hc
    cases bytes with
    | nil => simpa [Vte.advanceLoop] using h
    | cons b rest =>
      have hc0 := hc (by simp)
      by_cases hg : v.state = .ground
      · rw [C04.advanceLoop_ground_cons fuel v b rest hg]
        obtain ⟨g1, g2⟩ := clean_advanceGround h hg hc0 (b :: rest)
        exact ih _ _ g1 g2
      · rw [C04.advanceLoop_nonground_cons fuel v b rest hg]
        obtain ⟨g1, g2⟩ := clean_changeState h hg b
        exact ih _ _ g1 (fun _ => g2)

/-- **`VteClean` is preserved by `vte::Parser::advance`**, for every byte string (any numbers, not
only `u8`) and every automaton state satisfying it -/
theorem clean_advance (v : Vte) (bytes : List Nat) (h : VteClean v) : VteClean (v.advance bytes).1 := by
  unfold Vte.advance
  split
  · rename_i hc
    exact clean_advanceLoop _ _ _ h (fun _ => by simpa using hc)
  · rename_i hc
    have hne : v.carry ≠ [] := by simpa using hc
    obtain ⟨g1, g2⟩ := clean_partial h hne bytes
    exact clean_advanceLoop _ _ _ g1 g2

/-- hence by `Parser::process` -/
theorem clean_process (W : Nat → Option Nat) (cb : CbPolicy) (p p' : Parser) (bytes : List Nat)
    (h : VteClean p.vte) (hp : p.process W cb bytes = .ok p') : VteClean p'.vte := by
  simp only [Parser.process] at hp
  obtain ⟨ws, _, e⟩ := bind_eq_ok.mp hp
  simp only [pure_eq_ok, Except.ok.injEq] at e
  rw [← e]
  exact clean_advance _ _ h


/-! ### D. `ESC c` on the automaton, from every state -/

/-- the automaton right after ESC: everything at its initial value except the state (and the
pending UTF-8 bytes, which ESC does not look at) -/
def escaped (carry : List Nat) : Vte := { Vte.new with state := .escape, carry := carry }

/-- what the byte ESC terminates: a pending OSC string is dispatched (ESC is not BEL, so
`bell_terminated = false`), a DCS passthrough is unhooked, anything else is dropped silently -/
def escPre (v : Vte) : List Action :=
  match v.state with
  | .oscString => (v.oscEnd 0x1B).2
  | .dcsPassthrough => [.unhook]
  | _ => []

/-- **ESC from every non-Ground state** (all 13 of them, any collected parameters/intermediates) -/
theorem esc_any (v : Vte) (h : AutoClean v) (hg : v.state ≠ .ground) :
    v.changeState 0x1B = (escaped v.carry, escPre v) := by
  obtain ⟨st, ints, ign, ps, cur, pa, raw, ops, carry⟩ := v
  cases st
  case ground => exact absurd rfl hg
  case oscString =>
    simp [Vte.changeState, Vte.advanceOscString, Vte.oscEnd, Vte.resetParams, escaped, escPre, Vte.new]
  case escape =>
    obtain ⟨h1, h2, h3, h4, h5⟩ := h.esc rfl
    obtain ⟨h6, h7⟩ := h.osc (by simp)
    simp only at h1 h2 h3 h4 h5 h6 h7
    subst h1 h2 h3 h4 h5 h6 h7
    simp [Vte.changeState, Vte.advanceEsc, Vte.isC0Exec, escaped, escPre, Vte.new]
  all_goals
    obtain ⟨h6, h7⟩ := h.osc (by simp)
    simp only at h6 h7
    subst h6 h7
    simp [Vte.changeState, Vte.advanceCsiEntry, Vte.advanceCsiIgnore, Vte.advanceCsiIntermediate,
      Vte.advanceCsiParam, Vte.advanceDcsEntry, Vte.advanceDcsIntermediate, Vte.advanceDcsParam,
      Vte.advanceDcsPassthrough, Vte.advanceEscIntermediate, Vte.anywhere, Vte.isC0Exec,
      Vte.resetParams, escaped, escPre, Vte.new]

/-- ESC at the start of a chunk in Ground -/
theorem esc_ground (v : Vte) (h : AutoClean v) (hg : v.state = .ground) (rest : List Nat) :
    v.advanceGround (0x1B :: rest) = (escaped v.carry, [], 1) := by
  rw [C17.advanceGround_esc]
  obtain ⟨h6, h7⟩ := h.osc (by rw [hg]; simp)
  obtain ⟨st, ints, ign, ps, cur, pa, raw, ops, carry⟩ := v
  simp only at h6 h7
  subst h6 h7
  simp [Vte.resetParams, escaped, Vte.new]

/-- the final byte `c` in `Escape`: `esc_dispatch([], false, 'c')`, back to `Ground` -/
theorem escaped_c (carry : List Nat) :
    (escaped carry).changeState 0x63 = ({ Vte.new with carry := carry }, [.escDispatch [] false 99]) := by
  simp [escaped, Vte.changeState, Vte.advanceEsc, Vte.isC0Exec, Vte.escDispatch, Vte.new]


/-- the actions `ESC c` produces *before* the RIS dispatch, by pre-state:
* a pending partial UTF-8 character (only possible in Ground): `print(U+FFFD)`;
* inside an OSC string: the pending OSC is dispatched;
* inside a DCS passthrough: `unhook`;
* Ground, Escape, EscapeIntermediate, the CSI states, DcsEntry/Param/Intermediate/Ignore,
  SosPmApcString: nothing. -/
def risPre (v : Vte) : List Action :=
  match v.carry with
  | [] => escPre v
  | _ :: _ => [.print Vte.REPLACEMENT]

theorem loop_ris (F : Nat) (v : Vte) (h : AutoClean v) (hc : v.carry = []) (suffix : List Nat) :
    Vte.advanceLoop (F + 2) v (0x1B :: 0x63 :: suffix) =
      ((Vte.advanceLoop F Vte.new suffix).1,
       escPre v ++ [.escDispatch [] false 99] ++ (Vte.advanceLoop F Vte.new suffix).2) := by
  have hnew : ({ Vte.new with carry := [] } : Vte) = Vte.new := rfl
  have hne : (escaped []).state ≠ .ground := by simp [escaped]
  by_cases hg : v.state = .ground
  · rw [C04.advanceLoop_ground_cons _ v _ _ hg, esc_ground v h hg, hc]
    simp only [List.drop_succ_cons, List.drop_zero]
    rw [C04.advanceLoop_nonground_cons _ _ _ _ hne, escaped_c, hnew]
    simp [escPre, hg]
  · rw [C04.advanceLoop_nonground_cons _ v _ _ hg, esc_any v h hg, hc]
    simp only
    rw [C04.advanceLoop_nonground_cons _ _ _ _ hne, escaped_c, hnew]
    simp

/-- **vte: `ESC c` followed by anything, from every automaton state satisfying the invariant**: the
automaton emits `risPre v`, then `esc_dispatch([], false, 'c')`, and then behaves on the rest of
the chunk exactly as a newly constructed `vte::Parser` — same actions, same final automaton state. -/
theorem advance_ris (v : Vte) (h : VteClean v) (suffix : List Nat) :
    v.advance (0x1B :: 0x63 :: suffix) =
      ((Vte.new.advance suffix).1,
       risPre v ++ [.escDispatch [] false 99] ++ (Vte.new.advance suffix).2) := by
  have hnewadv : Vte.new.advance suffix = Vte.advanceLoop (suffix.length + 1) Vte.new suffix := by
    simp [Vte.advance, Vte.new]
  cases hcar : v.carry with
  | nil =>
    have e1 : v.advance (0x1B :: 0x63 :: suffix) = Vte.advanceLoop (suffix.length + 1 + 2) v (0x1B :: 0x63 :: suffix) := by
      simp [Vte.advance, hcar]
    rw [e1, loop_ris _ v (auto_of_clean h) hcar, hnewadv]
    simp [risPre, hcar]
  | cons x xs =>
    have hne : v.carry ≠ [] := by rw [hcar]; simp
    obtain ⟨hg, hinc⟩ := h.carry hne
    obtain ⟨hl1, hl3⟩ := inc0_len _ hinc
    -- the partial character is cut by ESC
    have htk : (0x1B :: 0x63 :: suffix).take (min (0x1B :: 0x63 :: suffix).length (4 - v.carry.length)) =
        0x1B :: (0x63 :: suffix).take (min (0x1B :: 0x63 :: suffix).length (4 - v.carry.length) - 1) := by
      have : min (0x1B :: 0x63 :: suffix).length (4 - v.carry.length) =
          (min (0x1B :: 0x63 :: suffix).length (4 - v.carry.length) - 1) + 1 := by
        simp only [List.length_cons]; omega
      rw [this, List.take_succ_cons]; simp
    obtain ⟨len, he, hlen, hv0⟩ := inc0_esc v.carry
      ((0x63 :: suffix).take (min (0x1B :: 0x63 :: suffix).length (4 - v.carry.length) - 1)) hinc
    have hpart : v.advancePartialUtf8 (0x1B :: 0x63 :: suffix) =
        ({ v with carry := [] }, [.print Vte.REPLACEMENT], 0) := by
      unfold Vte.advancePartialUtf8
      simp only [htk, he, hv0, Nat.lt_irrefl, ↓reduceIte]
      rw [Nat.sub_eq_zero_of_le hlen]
    have hv' : AutoClean { v with carry := [] } := ⟨h.osc, h.esc⟩
    have e1 : v.advance (0x1B :: 0x63 :: suffix) =
        ((Vte.advanceLoop (suffix.length + 1 + 2) { v with carry := [] } (0x1B :: 0x63 :: suffix)).1,
         [.print Vte.REPLACEMENT] ++
          (Vte.advanceLoop (suffix.length + 1 + 2) { v with carry := [] } (0x1B :: 0x63 :: suffix)).2) := by
      have hemp : v.carry.isEmpty = false := by rw [hcar]; rfl
      unfold Vte.advance
      simp only [hemp, Bool.false_eq_true, ↓reduceIte, hpart, List.drop_zero, List.length_cons]
    rw [e1, loop_ris _ _ hv' rfl, hnewadv]
    have : escPre { v with carry := [] } = [] := by simp [escPre, hg]
    simp [risPre, hcar, this]


/-! ### E. the callback log is write-only: `perform` never reads `events`

`WS.events` models the calls the user's `Callbacks` object has received.  No method of
`WrappedScreen` looks at it, so running from a state whose log has an extra prefix gives the same
screen and the same appended events. -/

/-- the same wrapped screen with `pre` in front of the log -/
def addPre (pre : List Event) (ws : WS) : WS := { ws with events := pre ++ ws.events }

def retPre (pre : List Event) (r : M WS) : M WS := r >>= fun w => pure (addPre pre w)

/-- `f` does not read the log -/
def Frame (f : WS → M WS) : Prop := ∀ pre ws, f (addPre pre ws) = retPre pre (f ws)

theorem frame_emit (cb : CbPolicy) (e : Event) : Frame (emit cb e) := by
  intro pre ws
  simp only [emit, addPre, retPre]
  cases cb e ws.screen with
  | error x => rfl
  | ok s => simp [List.append_assoc]

theorem frame_onScreen (f : Screen → M Screen) : Frame (fun ws => ws.onScreen f) := by
  intro pre ws
  simp only [WS.onScreen, addPre, retPre]
  cases f ws.screen with
  | error x => rfl
  | ok s => rfl

theorem frame_pure : Frame (fun ws => pure ws) := fun _ _ => rfl

theorem frame_setScreen (g : Screen → Screen) : Frame (fun ws => pure { ws with screen := g ws.screen }) :=
  fun _ _ => rfl

theorem frame_bind {f g : WS → M WS} (hf : Frame f) (hg : Frame g) : Frame (fun ws => f ws >>= g) := by
  intro pre ws
  simp only [hf pre ws, retPre]
  cases f ws with
  | error x => rfl
  | ok w => simp only [ok_bind, pure_eq_ok]; exact hg pre w

theorem frame_arm {unh : WS → M WS} (hunh : Frame unh) (arm : Screen → M (Option Screen)) :
    Frame (fun ws => do
      match ← arm ws.screen with
      | some s => pure { ws with screen := s }
      | none => unh ws) := by
  intro pre ws
  simp only [addPre, retPre]
  cases arm ws.screen with
  | error x => rfl
  | ok r =>
    cases r with
    | none => exact hunh pre ws
    | some s => rfl

theorem frame_fold {α} (step : WS → α → M WS) (hstep : ∀ x, Frame (fun ws => step ws x)) :
    ∀ (xs : List α), Frame (fun ws => xs.foldlM step ws) := by
  intro xs
  induction xs with
  | nil => exact frame_pure
  | cons x xs ih =>
    intro pre ws
    simp only [List.foldlM_cons]
    exact frame_bind (hstep x) ih pre ws

theorem addPre_modAttrs (pre : List Event) (ws : WS) (f : Attrs → Attrs) :
    (addPre pre ws).modAttrs f = addPre pre (ws.modAttrs f) := rfl
theorem addPre_setFg (pre : List Event) (ws : WS) (c : Color) : (addPre pre ws).setFg c = addPre pre (ws.setFg c) := rfl
theorem addPre_setBg (pre : List Event) (ws : WS) (c : Color) : (addPre pre ws).setBg c = addPre pre (ws.setBg c) := rfl

theorem frame_sgrLoop {unh : WS → M WS} (hunh : Frame unh) : ∀ (n : Nat) (ps : List (List Nat)), ps.length ≤ n →
    ∀ (ws : WS) (pre : List Event), sgrLoop unh ps (addPre pre ws) = retPre pre (sgrLoop unh ps ws) := by
  intro n
  induction n with
  | zero =>
    intro ps hl ws pre
    have : ps = [] := List.eq_nil_of_length_eq_zero (by omega)
    subst this
    simp only [sgrLoop]; rfl
  | succ n ih =>
    intro ps hl ws pre
    rw [sgrLoop.eq_def, sgrLoop.eq_def unh ps ws]
    split
    · rfl
    · rename_i p rest
      simp only [List.length_cons] at hl
      split
      all_goals repeat' split
      all_goals try simp only [addPre_modAttrs, addPre_setFg, addPre_setBg]
      all_goals first
        | rfl
        | exact ih _ (by omega) _ pre
        | exact ih _ (by simp only [List.length_cons] at hl; omega) _ pre
        | exact hunh pre ws
        | exact frame_bind hunh (fun pre' w => ih rest (by omega) w pre') pre ws

theorem frame_sgr {unh : WS → M WS} (hunh : Frame unh) (params : List (List Nat)) :
    Frame (sgr unh params) := by
  intro pre ws
  unfold sgr
  split
  · rfl
  · exact frame_sgrLoop hunh _ _ (Nat.le_refl _) _ _


theorem frame_execute (cb : CbPolicy) (b : Nat) : Frame (fun ws => performExecute cb ws b) := by
  intro pre ws
  simp only [performExecute]
  split
  all_goals first
    | exact frame_emit cb _ pre ws
    | exact frame_onScreen _ pre ws
    | rfl

theorem frame_print (W : Nat → Option Nat) (cb : CbPolicy) (c : Nat) : Frame (fun ws => performPrint W cb ws c) := by
  intro pre ws
  simp only [performPrint]
  split
  · exact frame_execute cb c pre ws
  · split
    · exact frame_emit cb _ pre ws
    · exact frame_onScreen _ pre ws

theorem frame_esc (cb : CbPolicy) (ints : List Nat) (b : Nat) : Frame (fun ws => performEsc cb ws ints b) := by
  intro pre ws
  simp only [performEsc]
  split
  · exact frame_emit cb _ pre ws
  · split
    all_goals first
      | exact frame_emit cb _ pre ws
      | exact frame_onScreen _ pre ws
      | rfl

theorem frame_osc (cb : CbPolicy) (params : List (List Nat)) : Frame (fun ws => performOsc cb ws params) := by
  intro pre ws
  simp only [performOsc]
  split
  · exact frame_bind (frame_emit cb _) (frame_emit cb _) pre ws
  all_goals exact frame_emit cb _ pre ws

theorem frame_csi (cb : CbPolicy) (params : List (List Nat)) (ints : List Nat) (c : Nat) :
    Frame (fun ws => performCsi cb ws params ints c) := by
  intro pre ws
  simp only [performCsi]
  split
  · split
    all_goals first
      | exact frame_onScreen _ pre ws
      | exact frame_emit cb _ pre ws
      | exact frame_arm (frame_emit cb _) (fun s => s.edMode (canon1 params 0)) pre ws
      | exact frame_arm (frame_emit cb _) (fun s => s.elMode (canon1 params 0)) pre ws
      | exact frame_sgr (frame_emit cb _) params pre ws
      | (split
         · exact frame_emit cb _ pre ws
         · exact frame_emit cb _ pre ws)
  · split
    all_goals first
      | exact frame_emit cb _ pre ws
      | exact frame_arm (frame_emit cb _) (fun s => s.edMode (canon1 params 0)) pre ws
      | exact frame_arm (frame_emit cb _) (fun s => s.elMode (canon1 params 0)) pre ws
      | exact frame_fold _ (fun p => frame_arm (frame_emit cb _) (fun s => s.decsetOne p)) params pre ws
      | exact frame_fold _ (fun p => frame_arm (frame_emit cb _) (fun s => s.decrstOne p)) params pre ws
  · exact frame_emit cb _ pre ws

/-- **`perform` does not read the callback log** -/
theorem frame_perform (W : Nat → Option Nat) (cb : CbPolicy) (a : Action) : Frame (fun ws => perform W cb ws a) := by
  cases a with
  | print c => exact frame_print W cb c
  | execute b => exact frame_execute cb b
  | hook _ _ _ _ => exact frame_pure
  | put _ => exact frame_pure
  | unhook => exact frame_pure
  | oscDispatch params _ => exact frame_osc cb params
  | csiDispatch params ints _ c => exact frame_csi cb params ints c
  | escDispatch ints _ b => exact frame_esc cb ints b

theorem frame_actions (W : Nat → Option Nat) (cb : CbPolicy) (acts : List Action) :
    Frame (fun ws => acts.foldlM (perform W cb) ws) :=
  frame_fold _ (fun a => frame_perform W cb a) acts


/-! ### F. `Parser::process` level -/

/-- a parser that differs from `q` only by the prefix `pre` of its callback log -/
def Parser.addPre (pre : List Event) (q : Parser) : Parser := { q with ws := C17any.addPre pre q.ws }

/-- **`process` does not read the callback log**: the same bytes on a parser whose log has an extra
prefix give the same automaton state, the same screen, and append the same events (and fail
identically) -/
theorem process_frame (W : Nat → Option Nat) (cb : CbPolicy) (q : Parser) (pre : List Event) (bytes : List Nat) :
    (Parser.addPre pre q).process W cb bytes =
      (q.process W cb bytes >>= fun q' => pure (Parser.addPre pre q')) := by
  simp only [Parser.process, Parser.addPre]
  have := frame_actions W cb (q.vte.advance bytes).2 pre q.ws
  simp only at this
  rw [this, retPre]
  cases (q.vte.advance bytes).2.foldlM (perform W cb) q.ws with
  | error e => rfl
  | ok ws => rfl

/-- **C17, general form (any callback policy, any suffix)**: from every parser whose automaton
satisfies the invariant, `process(ESC c ++ suffix)` is:
1. perform the actions `risPre` (the pending OSC / the U+FFFD of a cut character: they only call
   callbacks);
2. replace the screen by `Screen::new(size, scrollback_len)` of the primary grid — the callback log is
   kept, nothing is appended by the RIS itself;
3. process `suffix` with a **newly constructed** automaton (`Vte.new`). -/
theorem ris_process_general (W : Nat → Option Nat) (cb : CbPolicy) (p : Parser) (h : VteClean p.vte)
    (suffix : List Nat) :
    p.process W cb (0x1B :: 0x63 :: suffix) =
      ((risPre p.vte).foldlM (perform W cb) p.ws >>= fun ws1 =>
       Screen.new ws1.screen.grid.size ws1.screen.grid.scrollbackLen >>= fun s =>
       Parser.process W cb { vte := Vte.new, ws := { screen := s, events := ws1.events } } suffix) := by
  simp only [Parser.process, advance_ris p.vte h suffix, C04.foldlM_append']
  cases (risPre p.vte).foldlM (perform W cb) p.ws with
  | error e => rfl
  | ok ws1 =>
    simp only [ok_bind, List.foldlM_cons, List.foldlM_nil, C17.ris_fresh_screen]
    cases Screen.new ws1.screen.grid.size ws1.screen.grid.scrollbackLen with
    | error e => rfl
    | ok s => rfl

theorem advance_new_nil : Vte.new.advance [] = (Vte.new, []) := by
  simp [Vte.advance, Vte.new, Vte.advanceLoop]

/-- **`ris_process_any`, any callback policy**: `process(ESC c)` from every automaton state -/
theorem ris_process_any (W : Nat → Option Nat) (cb : CbPolicy) (p : Parser) (h : VteClean p.vte) :
    p.process W cb [0x1B, 0x63] =
      ((risPre p.vte).foldlM (perform W cb) p.ws >>= fun ws1 =>
       Screen.new ws1.screen.grid.size ws1.screen.grid.scrollbackLen >>= fun s =>
       pure { vte := Vte.new, ws := { screen := s, events := ws1.events } }) := by
  rw [ris_process_general W cb p h []]
  simp only [Parser.process, advance_new_nil, List.foldlM_nil, pure_bind']

/-! #### the events -/

/-- what `osc_dispatch(params)` reports -/
def oscEvents (params : List (List Nat)) : List Event :=
  match params with
  | [[48], s] => [.setWindowIconName s, .setWindowTitle s]
  | [[49], s] => [.setWindowIconName s]
  | [[50], s] => [.setWindowTitle s]
  | _ => [.unhandledOsc params]

/-- the parameters of the OSC string collected so far (what `osc_end` would dispatch now) -/
def pendingOsc (v : Vte) : List (List Nat) :=
  v.actionOscPutParam.oscParams.map
    (fun p => (v.actionOscPutParam.oscRaw.drop p.1).take (p.2 - p.1))

/-- **the events `ESC c` appends to the callback log**, by pre-state:
* pending partial UTF-8 character: `unhandled_char(U+FFFD)`;
* inside an OSC string: the events of that OSC (title / icon name / `unhandled_osc`);
* every other state (Ground, Escape, EscapeIntermediate, Csi*, Dcs*, SosPmApcString): none. -/
def risEvents (v : Vte) : List Event :=
  match v.carry with
  | [] =>
    (match v.state with
     | .oscString => oscEvents (pendingOsc v)
     | _ => [])
  | _ :: _ => [.unhandledChar 0xFFFD]

theorem risEvents_of_carry (v : Vte) (h : v.carry ≠ []) : risEvents v = [.unhandledChar 0xFFFD] := by
  unfold risEvents
  cases hc : v.carry with
  | nil => exact absurd hc h
  | cons x xs => rfl

theorem risEvents_of_osc (v : Vte) (hc : v.carry = []) (hs : v.state = .oscString) :
    risEvents v = oscEvents (pendingOsc v) := by
  simp [risEvents, hc, hs]

/-- Ground, Escape, EscapeIntermediate, CsiEntry/Param/Intermediate/Ignore,
DcsEntry/Param/Intermediate/Ignore/Passthrough, SosPmApcString: nothing is appended -/
theorem risEvents_of_other (v : Vte) (hc : v.carry = []) (hs : v.state ≠ .oscString) :
    risEvents v = [] := by
  unfold risEvents
  rw [hc]
  cases hst : v.state <;> first | rfl | exact absurd hst hs

def emitAll (cb : CbPolicy) (evs : List Event) (ws : WS) : M WS := evs.foldlM (fun ws e => emit cb e ws) ws

theorem perform_osc_events (cb : CbPolicy) (ws : WS) (params : List (List Nat)) :
    performOsc cb ws params = emitAll cb (oscEvents params) ws := by
  unfold performOsc oscEvents emitAll
  split
  · simp only [List.foldlM_cons, List.foldlM_nil]
    cases emit cb (Event.setWindowIconName _) ws with
    | error e => rfl
    | ok w =>
      simp only [ok_bind]
      cases emit cb (Event.setWindowTitle _) w with
      | error e => rfl
      | ok w' => rfl
  all_goals
    simp only [List.foldlM_cons, List.foldlM_nil]
    cases emit cb _ ws with
    | error e => rfl
    | ok w => rfl

/-- the actions before the RIS only call callbacks: exactly `risEvents`, in order -/
theorem risPre_emits (W : Nat → Option Nat) (cb : CbPolicy) (v : Vte) (ws : WS) :
    (risPre v).foldlM (perform W cb) ws = emitAll cb (risEvents v) ws := by
  unfold risPre risEvents
  cases v.carry with
  | cons x xs =>
    simp only [List.foldlM_cons, List.foldlM_nil, perform, performPrint, Vte.REPLACEMENT, emitAll]
    cases emit cb (Event.unhandledChar 65533) ws with
    | error e => rfl
    | ok w => rfl
  | nil =>
    simp only [escPre]
    cases hs : v.state
    case oscString =>
      simp only [Vte.oscEnd, List.foldlM_cons, List.foldlM_nil, perform, perform_osc_events]
      show emitAll cb (oscEvents (pendingOsc v)) ws >>= pure = _
      cases emitAll cb (oscEvents (pendingOsc v)) ws with
      | error e => rfl
      | ok w => rfl
    all_goals rfl


/-- none of the events of `ESC c` is a `resize` request -/
theorem risEvents_noResize (v : Vte) : ∀ e ∈ risEvents v, ∀ r c, e ≠ .resize r c := by
  intro e he r c
  unfold risEvents at he
  split at he
  · split at he
    · unfold oscEvents at he
      split at he <;> simp at he <;> (first | (rcases he with rfl | rfl <;> simp; done) | (subst he; simp))
    · simp at he
  · simp at he; subst he; simp

/-- a callback policy that touches the screen at most in `resize` (true of `()` — `cbNone` — and of
the harness policy `cbResize`) -/
def CbQuiet (cb : CbPolicy) : Prop := ∀ e s, (∀ r c, e ≠ .resize r c) → cb e s = .ok s

theorem cbNone_quiet : CbQuiet cbNone := fun _ _ _ => rfl
theorem cbResize_quiet : CbQuiet cbResize := by
  intro e s h
  cases e with
  | resize r c => exact absurd rfl (h r c)
  | _ => rfl

theorem emitAll_quiet {cb : CbPolicy} (hq : CbQuiet cb) : ∀ (evs : List Event) (ws : WS),
    (∀ e ∈ evs, ∀ r c, e ≠ .resize r c) →
    emitAll cb evs ws = .ok { screen := ws.screen, events := ws.events ++ evs }
  | [], ws, _ => by simp [emitAll]
  | e :: evs, ws, h => by
    have h1 : emit cb e ws = .ok { screen := ws.screen, events := ws.events ++ [e] } := by
      simp [emit, hq e ws.screen (h e (List.mem_cons_self))]
    have ih := emitAll_quiet hq evs { screen := ws.screen, events := ws.events ++ [e] }
      (fun x hx => h x (List.mem_cons_of_mem _ hx))
    simp only [emitAll, List.foldlM_cons, h1, ok_bind] at ih ⊢
    rw [ih]
    simp

/-- for total, invariant-keeping callbacks (`CbInv`): the events are appended exactly, whatever the
callbacks do to the screen -/
theorem emitAll_inv {W : Nat → Option Nat} {cb : CbPolicy} (hcb : C13.CbInv W cb) : ∀ (evs : List Event) (ws : WS),
    (∀ e ∈ evs, ∀ r c, e ≠ .resize r c) → ScreenInv W ws.screen →
    ∃ s1, ScreenInv W s1 ∧ emitAll cb evs ws = .ok { screen := s1, events := ws.events ++ evs }
  | [], ws, _, hi => ⟨ws.screen, hi, by simp [emitAll]⟩
  | e :: evs, ws, h, hi => by
    have hok : C13.EventOk e := by
      cases e with
      | resize r c => exact absurd rfl (h _ (List.mem_cons_self) r c)
      | _ => trivial
    obtain ⟨s', e1, i1⟩ := hcb e ws.screen hok hi
    have h1 : emit cb e ws = .ok { screen := s', events := ws.events ++ [e] } := by simp [emit, e1]
    obtain ⟨s1, i2, e2⟩ := emitAll_inv hcb evs { screen := s', events := ws.events ++ [e] }
      (fun x hx => h x (List.mem_cons_of_mem _ hx)) i1
    refine ⟨s1, i2, ?_⟩
    simp only [emitAll, List.foldlM_cons, h1, ok_bind] at e2 ⊢
    rw [e2]
    simp

/-- `Screen::new` of an existing grid's size -/
theorem new_of_size (sz : Size) (sb : Nat) (h : 1 ≤ sz.rows) :
    Screen.new sz sb = .ok (C13.newScreen sz.rows sz.cols sb) :=
  C13.new_eq sz.rows sz.cols sb h

/-- the parser `ESC c` leads to: a new automaton, a new screen of the primary grid's size and
scrollback capacity, the old callback log plus `risEvents` -/
def afterRis (p : Parser) : Parser :=
  { vte := Vte.new,
    ws := { screen := C13.newScreen p.ws.screen.grid.size.rows p.ws.screen.grid.size.cols
                        p.ws.screen.grid.scrollbackLen,
            events := p.ws.events ++ risEvents p.vte } }

/-- **C17 `ris_process_any`** (callbacks `()` / `cbResize` / anything that only acts on `resize`): from
EVERY automaton state — Ground, Escape, EscapeIntermediate, CsiEntry/Param/Intermediate/Ignore,
DcsEntry/Param/Intermediate/Ignore/Passthrough, OscString, SosPmApcString, with any collected
parameters, and Ground with a pending partial UTF-8 character — `process(ESC c)` succeeds and yields
exactly: `Screen::new(size, scrollback_len)`, a newly constructed automaton, and the callback log
extended by `risEvents p.vte` (nothing from Ground and the CSI/DCS/escape states; the pending OSC's
event(s) from OscString; `unhandled_char(U+FFFD)` for a cut character).  The log is otherwise
untouched. -/
theorem ris_process_quiet (W : Nat → Option Nat) {cb : CbPolicy} (hq : CbQuiet cb) (p : Parser)
    (h : VteClean p.vte) (hr : 1 ≤ p.ws.screen.grid.size.rows) :
    p.process W cb [0x1B, 0x63] = .ok (afterRis p) := by
  rw [ris_process_any W cb p h, risPre_emits, emitAll_quiet hq _ _ (risEvents_noResize p.vte)]
  simp only [ok_bind, new_of_size _ _ hr, pure_eq_ok, afterRis]

/-- the same for arbitrary total callbacks that keep the screen invariant (`CbInv`; they may e.g.
resize the screen while being told the window title): the events are the same; the new screen has
the size the callbacks left behind -/
theorem ris_process_cbInv {W : Nat → Option Nat} {cb : CbPolicy} (hcb : C13.CbInv W cb) (p : Parser)
    (h : VteClean p.vte) (hi : ScreenInv W p.ws.screen) :
    ∃ s1, ScreenInv W s1 ∧
      p.process W cb [0x1B, 0x63] =
        .ok { vte := Vte.new,
              ws := { screen := C13.newScreen s1.grid.size.rows s1.grid.size.cols s1.grid.scrollbackLen,
                      events := p.ws.events ++ risEvents p.vte } } := by
  obtain ⟨s1, i1, e1⟩ := emitAll_inv hcb (risEvents p.vte) p.ws (risEvents_noResize p.vte) hi
  refine ⟨s1, i1, ?_⟩
  rw [ris_process_any W cb p h, risPre_emits, e1]
  simp only [ok_bind, new_of_size _ _ i1.grid.rows_pos, pure_eq_ok]

/-! #### "every later input behaves as on a fresh parser" -/

/-- a newly constructed parser, when `Parser::new` succeeds -/
theorem parser_new_eq (rows cols sb : Nat) (hr : 1 ≤ rows) :
    Parser.new rows cols sb = .ok { vte := Vte.new, ws := { screen := C13.newScreen rows cols sb, events := [] } } := by
  simp [Parser.new, C13.new_eq rows cols sb hr]

/-- **C17 `ris_then_fresh`**: the parser after `ESC c` IS a newly constructed parser of the current
size and scrollback capacity, up to the contents of the (write-only) callback log: literally the same
automaton (`Vte.new`), literally the same screen; hence for every later input the same automaton
states, the same screens, the same appended events, the same failures. -/
theorem ris_then_fresh (W : Nat → Option Nat) {cb : CbPolicy} (hq : CbQuiet cb) (p : Parser)
    (h : VteClean p.vte) (hr : 1 ≤ p.ws.screen.grid.size.rows) :
    ∃ p' fresh, p.process W cb [0x1B, 0x63] = .ok p' ∧
      Parser.new p.ws.screen.grid.size.rows p.ws.screen.grid.size.cols p.ws.screen.grid.scrollbackLen = .ok fresh ∧
      p'.vte = Vte.new ∧ fresh.vte = Vte.new ∧ p'.ws.screen = fresh.ws.screen ∧
      p' = Parser.addPre (p.ws.events ++ risEvents p.vte) fresh ∧
      ∀ bytes, p'.process W cb bytes =
        (fresh.process W cb bytes >>= fun q => pure (Parser.addPre (p.ws.events ++ risEvents p.vte) q)) := by
  refine ⟨afterRis p, _, ris_process_quiet W hq p h hr, parser_new_eq _ _ _ hr, rfl, rfl, rfl, ?_, ?_⟩
  · simp [afterRis, Parser.addPre, addPre]
  · intro bytes
    rw [← process_frame]
    simp [afterRis, Parser.addPre, addPre]

/-- **C17 with a suffix in the same chunk**: `process(ESC c ++ suffix)` from any automaton state =
`process(suffix)` on `Parser::new(rows, cols, scrollback_len)`, with `p`'s log and `risEvents` in front
of the log -/
theorem ris_suffix (W : Nat → Option Nat) {cb : CbPolicy} (hq : CbQuiet cb) (p : Parser)
    (h : VteClean p.vte) (hr : 1 ≤ p.ws.screen.grid.size.rows) (suffix : List Nat) :
    p.process W cb ([0x1B, 0x63] ++ suffix) =
      (Parser.new p.ws.screen.grid.size.rows p.ws.screen.grid.size.cols p.ws.screen.grid.scrollbackLen >>= fun fresh =>
       fresh.process W cb suffix >>= fun q =>
       pure (Parser.addPre (p.ws.events ++ risEvents p.vte) q)) := by
  show p.process W cb (0x1B :: 0x63 :: suffix) = _
  rw [ris_process_general W cb p h suffix, risPre_emits,
    emitAll_quiet hq _ _ (risEvents_noResize p.vte), parser_new_eq _ _ _ hr]
  simp only [ok_bind, new_of_size _ _ hr]
  rw [← process_frame]
  simp [Parser.addPre, addPre]


/-! ### G. every reachable parser -/

theorem applyOp_clean (W : Nat → Option Nat) (cb : CbPolicy) (p p' : Parser) (op : C13.Op)
    (h : VteClean p.vte) (e : C13.applyOp W cb p op = .ok p') : VteClean p'.vte := by
  cases op with
  | process bytes => exact clean_process W cb p p' bytes h e
  | setSize r c =>
    simp only [C13.applyOp] at e
    obtain ⟨s, _, e2⟩ := bind_eq_ok.mp e
    simp only [pure_eq_ok, Except.ok.injEq] at e2
    rw [← e2]; exact h
  | setScrollback k =>
    simp only [C13.applyOp] at e
    obtain ⟨s, _, e2⟩ := bind_eq_ok.mp e
    simp only [pure_eq_ok, Except.ok.injEq] at e2
    rw [← e2]; exact h

theorem ops_clean (W : Nat → Option Nat) (cb : CbPolicy) : ∀ (ops : List C13.Op) (p p' : Parser),
    VteClean p.vte → ops.foldlM (C13.applyOp W cb) p = .ok p' → VteClean p'.vte
  | [], p, p', h, e => by
    simp only [List.foldlM_nil, pure_eq_ok, Except.ok.injEq] at e
    rw [← e]; exact h
  | op :: ops, p, p', h, e => by
    simp only [List.foldlM_cons] at e
    obtain ⟨p1, e1, e2⟩ := bind_eq_ok.mp e
    exact ops_clean W cb ops p1 p' (applyOp_clean W cb p p1 op h e1) e2

/-- **every reachable parser satisfies `ParserInv` and `VteClean`**: any history of `process` /
`set_size` / `set_scrollback` calls from `Parser::new` (nothing on the way can fail) -/
theorem reachable_clean {W : Nat → Option Nat} (hW32 : W 32 = some 1) {cb : CbPolicy} (hcb : C13.CbInv W cb)
    (rows cols sb : Nat) (hr : 1 ≤ rows) (hc : 1 ≤ cols) (hr' : rows ≤ 65535) (hc' : cols ≤ 65535)
    (ops : List C13.Op) (hv : ∀ op ∈ ops, op.Valid) :
    ∃ p, (Parser.new rows cols sb >>= fun p0 => ops.foldlM (C13.applyOp W cb) p0) = .ok p ∧
      C13.ParserInv W p ∧ VteClean p.vte := by
  obtain ⟨p, e, i⟩ := C13.reachable_inv hW32 hcb rows cols sb hr hc hr' hc' ops hv
  refine ⟨p, e, i, ?_⟩
  rw [parser_new_eq rows cols sb hr] at e
  simp only [ok_bind] at e
  exact ops_clean W cb ops _ p vteClean_new e

/-- `Screen::size()` is the size of the primary grid too (both grids always have the same size) -/
theorem size_eq_grid {W : Nat → Option Nat} {s : Screen} (hi : ScreenInv W s) : s.size = s.grid.size := by
  unfold Screen.size Screen.cur
  split
  · exact hi.same_size.symm
  · rfl

/-- **C17, in the words of the property.**  For every reachable parser `p` (any history of `process` /
`set_size` / `set_scrollback` from `Parser::new` — alternate screen, scroll regions, saved cursor,
scrolled view, resized, stopped in the middle of any escape / CSI / OSC / DCS sequence or of a UTF-8
character) and every suffix: `process(ESC c ++ suffix)` on `p` equals `process(suffix)` on
`Parser::new(rows, cols, cap)` with `(rows, cols) = p.screen().size()` and `cap` the primary grid's
`scrollback_len` — the same screen, the same automaton state, and the callback log is `p`'s log, then
`risEvents p.vte`, then exactly the events the fresh parser reports. -/
theorem ris_end_to_end {W : Nat → Option Nat} (hW32 : W 32 = some 1) {cb : CbPolicy} (hcb : C13.CbInv W cb)
    (hq : CbQuiet cb)
    (rows cols sb : Nat) (hr : 1 ≤ rows) (hc : 1 ≤ cols) (hr' : rows ≤ 65535) (hc' : cols ≤ 65535)
    (ops : List C13.Op) (hv : ∀ op ∈ ops, op.Valid) (suffix : List Nat) :
    ∃ p, (Parser.new rows cols sb >>= fun p0 => ops.foldlM (C13.applyOp W cb) p0) = .ok p ∧
      p.process W cb ([0x1B, 0x63] ++ suffix) =
        (Parser.new p.ws.screen.size.rows p.ws.screen.size.cols p.ws.screen.grid.scrollbackLen >>= fun fresh =>
         fresh.process W cb suffix >>= fun q =>
         pure (Parser.addPre (p.ws.events ++ risEvents p.vte) q)) := by
  obtain ⟨p, e, i, hcl⟩ := reachable_clean hW32 hcb rows cols sb hr hc hr' hc' ops hv
  refine ⟨p, e, ?_⟩
  rw [size_eq_grid i.screen]
  exact ris_suffix W hq p hcl i.screen.grid.rows_pos suffix

/-- the same, read off as "same screen, same later events": if the fresh parser ends in `q`, then `p`
ends in a parser with `q`'s automaton state, `q`'s screen, and the log
`p.events ++ risEvents ++ q.events` -/
theorem ris_end_to_end_ok {W : Nat → Option Nat} {cb : CbPolicy} (hq : CbQuiet cb) (p : Parser)
    (hcl : VteClean p.vte) (hi : ScreenInv W p.ws.screen) (suffix : List Nat) (fresh q : Parser)
    (hf : Parser.new p.ws.screen.size.rows p.ws.screen.size.cols p.ws.screen.grid.scrollbackLen = .ok fresh)
    (hs : fresh.process W cb suffix = .ok q) :
    ∃ p', p.process W cb ([0x1B, 0x63] ++ suffix) = .ok p' ∧ p'.vte = q.vte ∧ p'.ws.screen = q.ws.screen ∧
      p'.ws.events = p.ws.events ++ risEvents p.vte ++ q.ws.events := by
  refine ⟨Parser.addPre (p.ws.events ++ risEvents p.vte) q, ?_, rfl, rfl, rfl⟩
  rw [ris_suffix W hq p hcl hi.grid.rows_pos suffix, ← size_eq_grid hi, hf]
  simp only [ok_bind, hs, pure_eq_ok]


/-- the hypotheses of `ris_end_to_end` are satisfiable: the width table `W0`, the callbacks `()`, an
80x24 parser with 100 lines of scrollback, a history that stops inside an OSC string -/
example := ris_end_to_end (W := W0) (by decide) C13.cbNone_inv cbNone_quiet 24 80 100
  (by decide) (by decide) (by decide) (by decide)
  [.process [0x61, 0x1B, 0x5D, 0x32, 0x3B, 0x68], .setSize 10 20, .setScrollback 3]
  (by
    intro op hop
    simp only [List.mem_cons, List.mem_nil_iff, or_false] at hop
    rcases hop with rfl | rfl | rfl
    · intro b hb
      simp only [List.mem_cons, List.mem_nil_iff, or_false] at hb
      rcases hb with rfl | rfl | rfl | rfl | rfl | rfl <;> decide
    · exact ⟨by decide, by decide, by decide, by decide⟩
    · trivial)
  [0x5A]

/-! ### H. non-vacuity, and why the invariant is needed (tests of the model, kernel-evaluated) -/

/-- every automaton state reached from `Vte.new` by any bytes satisfies `VteClean` -/
theorem clean_reached (bytes : List Nat) : VteClean (Vte.new.advance bytes).1 :=
  clean_advance _ _ vteClean_new

/-- one test run: bring a 2x3 parser (capacity 5) into a state with `pre`, check the automaton state
with `chk`, then compare `ESC c ++ suffix` on it with `suffix` on a new parser, and the log with
`expected` -/
def risTest (pre suffix : List Nat) (chk : Vte → Bool) (expected : List Event) : M Bool := do
  let p0 ← Parser.new 2 3 5
  let p ← p0.process (fun _ => some 1) cbNone pre
  let p' ← p.process (fun _ => some 1) cbNone ([0x1B, 0x63] ++ suffix)
  let p1 ← p.process (fun _ => some 1) cbNone [0x1B, 0x63]
  let f ← Parser.new 2 3 5
  let f' ← f.process (fun _ => some 1) cbNone suffix
  pure (chk p.vte && decide (p'.ws.screen = f'.ws.screen) && decide (p'.vte = f'.vte) &&
    decide (risEvents p.vte = expected) &&
    decide (p'.ws.events = p.ws.events ++ expected ++ f'.ws.events) &&
    decide (p1 = afterRis p) && decide (p1.ws.screen = f.ws.screen) && decide (p1.vte = Vte.new))

/-- alternate screen active (`ESC[?1049h`), text on both screens, a scroll region, hidden cursor;
Ground: no event -/
theorem test_altScreen : isOkTrue (risTest
    [0x61, 0x62, 0x1B, 0x5B, 0x3F, 0x31, 0x30, 0x34, 0x39, 0x68, 0x78, 0x1B, 0x5B, 0x31, 0x3B, 0x31, 0x72,
     0x1B, 0x5B, 0x3F, 0x32, 0x35, 0x6C]
    [0x5A, 0x0A, 0x1B, 0x5B, 0x35, 0x6D, 0x07]
    (fun v => decide (v.state = .ground)) []) = true := by decide +kernel

/-- the pre-state of `test_altScreen` really is on the alternate screen -/
theorem test_altScreen_pre : isOkTrue (do
    let p0 ← Parser.new 2 3 5
    let p ← p0.process (fun _ => some 1) cbNone
      [0x61, 0x62, 0x1B, 0x5B, 0x3F, 0x31, 0x30, 0x34, 0x39, 0x68, 0x78]
    pure p.ws.screen.altScreen) = true := by decide +kernel

/-- in the middle of a CSI sequence (`ESC [ 3 1 ;`): state CsiParam, collected parameters; no event -/
theorem test_midCsi : isOkTrue (risTest
    [0x61, 0x1B, 0x5B, 0x33, 0x31, 0x3B]
    [0x5A, 0x1B, 0x5B, 0x32, 0x3B, 0x32, 0x48, 0x07]
    (fun v => decide (v.state = .csiParam) && decide (v.params ≠ [])) []) = true := by decide +kernel

/-- in the middle of a CSI sequence with an intermediate (`ESC [ ? 1 $`): state CsiIntermediate -/
theorem test_midCsiIntermediate : isOkTrue (risTest
    [0x1B, 0x5B, 0x3F, 0x31, 0x24]
    [0x5A]
    (fun v => decide (v.state = .csiIntermediate) && decide (v.ints ≠ [])) []) = true := by decide +kernel

/-- in the middle of an OSC string (`ESC ] 2 ; h i`): the pending OSC is dispatched first — one
`set_window_title("hi")` — and only then the reset -/
theorem test_midOsc : isOkTrue (risTest
    [0x61, 0x1B, 0x5D, 0x32, 0x3B, 0x68, 0x69]
    [0x5A, 0x1B, 0x5D, 0x31, 0x3B, 0x6B, 0x07]
    (fun v => decide (v.state = .oscString) && decide (v.oscRaw ≠ []))
    [.setWindowTitle [0x68, 0x69]]) = true := by decide +kernel

/-- OSC 0 pending: two events, icon name then title -/
theorem test_midOsc0 : isOkTrue (risTest
    [0x1B, 0x5D, 0x30, 0x3B, 0x68]
    [0x5A]
    (fun v => decide (v.state = .oscString))
    [.setWindowIconName [0x68], .setWindowTitle [0x68]]) = true := by decide +kernel

/-- a pending partial UTF-8 character (`E2 82` of U+20AC): `unhandled_char(U+FFFD)` first -/
theorem test_pendingUtf8 : isOkTrue (risTest
    [0x61, 0xE2, 0x82]
    [0x5A, 0xE2, 0x82, 0xAC]
    (fun v => decide (v.state = .ground) && decide (v.carry = [0xE2, 0x82]))
    [.unhandledChar 0xFFFD]) = true := by decide +kernel

/-- inside a DCS passthrough (`ESC P q x`): unhook, no event -/
theorem test_midDcs : isOkTrue (risTest
    [0x1B, 0x50, 0x71, 0x78]
    [0x5A]
    (fun v => decide (v.state = .dcsPassthrough)) []) = true := by decide +kernel

/-- right after a lone ESC, and after `ESC (` -/
theorem test_midEsc : isOkTrue (risTest [0x1B] [0x5A] (fun v => decide (v.state = .escape)) []) = true ∧
    isOkTrue (risTest [0x1B, 0x28] [0x5A] (fun v => decide (v.state = .escapeIntermediate)) []) = true := by
  constructor <;> decide +kernel

/-- after `set_size` and with a scrolled-back view: the new screen has the *current* size -/
theorem test_resized : isOkTrue (do
    let p0 ← Parser.new 2 3 5
    let p ← p0.process (fun _ => some 1) cbNone [0x61, 0x0A, 0x62, 0x0A, 0x63, 0x0A, 0x64]
    let s ← p.ws.screen.setSize 3 4
    let s ← s.setScrollback 2
    let p : Parser := { p with ws := { p.ws with screen := s } }
    let p' ← p.process (fun _ => some 1) cbNone [0x1B, 0x63, 0x5A]
    let f ← Parser.new 3 4 5
    let f' ← f.process (fun _ => some 1) cbNone [0x5A]
    pure (decide (p.ws.screen.scrollback = 2) && decide (p' = f'))) = true := by decide +kernel

/-- **why `VteClean` is needed (1)**: an (unreachable) automaton state in `Escape` with a collected
intermediate: `ESC c` is then NOT a RIS but `esc_dispatch(['('], 'c')` -/
theorem needs_esc_clause :
    (({ state := .escape, ints := [0x28] } : Vte).advance [0x1B, 0x63]).2 = [.escDispatch [0x28] false 99] := by
  decide +kernel

/-- **why `VteClean` is needed (2)**: an (unreachable) `Ground` state with a non-empty OSC buffer is
reset by `ESC c` to something that is not literally `Vte.new` -/
theorem needs_osc_clause :
    (({ oscRaw := [1] } : Vte).advance [0x1B, 0x63]).1 ≠ Vte.new := by
  decide +kernel

/-- **why `VteClean` is needed (3)**: an (unreachable) carry buffer that is not a truncated
character (`61` = 'a'): with `ESC c FF` in the chunk, `advance_partial_utf8` consumes the valid
prefix `a ESC c`, prints only its first character, and no RIS happens at all -/
theorem needs_carry_clause :
    (({ carry := [0x61] } : Vte).advance [0x1B, 0x63, 0xFF]).2 = [.print 0x61, .print 0xFFFD] := by
  decide +kernel

end Vt.C17any

/- all of these: ⊆ {propext, Classical.choice, Quot.sound}
#print axioms Vt.C17any.clean_advance
#print axioms Vt.C17any.advance_ris
#print axioms Vt.C17any.process_frame
#print axioms Vt.C17any.ris_process_general
#print axioms Vt.C17any.ris_process_any
#print axioms Vt.C17any.ris_process_quiet
#print axioms Vt.C17any.ris_process_cbInv
#print axioms Vt.C17any.ris_then_fresh
#print axioms Vt.C17any.ris_suffix
#print axioms Vt.C17any.reachable_clean
#print axioms Vt.C17any.ris_end_to_end
#print axioms Vt.C17any.ris_end_to_end_ok
-/
