/-
  C14 — plain-text views are exactly the projection of the cells and wrap flags.

  `Spec.rowText` is the positional projection of one row onto a column window
  (continuation of a wide cell skipped, blanks before a later non-empty cell rendered as
  spaces, trailing blanks dropped).
  * `rowText_blank` : a window of empty cells projects to the empty string.
  * `contents_between_empty_after` / `_same_row_empty` : empty when the end precedes the start.
  * `contents_between_same_row` : the window `[c1,c2)` of row `r1` when `r1 = r2`.
  * `strip_spec` : `contents()` strips exactly the trailing newlines.
-/
import Vt.Lemmas.Inv
namespace Vt.C14
open Vt
set_option linter.unusedSimpArgs false

/-- `contents_between` is empty when the end row precedes the start row -/
theorem contents_between_empty_after (s : Screen) (r1 c1 r2 c2 : Nat) (h : r2 < r1) :
    s.contentsBetween r1 c1 r2 c2 = .ok [] := by
  have h1 : ¬ r1 < r2 := by omega
  have h2 : (r1 == r2) = false := by simp; omega
  simp [Screen.contentsBetween, h1, h2]

/-- … and when, on one row, the end column does not exceed the start column -/
theorem contents_between_same_row_empty (s : Screen) (r c1 c2 : Nat) (h : c2 ≤ c1) :
    s.contentsBetween r c1 r c2 = .ok [] := by
  have h1 : ¬ c1 < c2 := by omega
  simp [Screen.contentsBetween, h1]

/-- on one row it is the window `[c1, c2)` of `rows(c1, c2 - c1)` -/
theorem contents_between_same_row (s : Screen) (r c1 c2 : Nat) (h : c1 < c2) :
    s.contentsBetween r c1 r c2 =
      (s.rows c1 (c2 - c1) >>= fun rs => pure (rs[r]?.getD [])) := by
  simp [Screen.contentsBetween, h]

/-- `contents()` strips exactly the trailing newlines -/
theorem strip_spec (l : List Nat) :
    ∃ k, l = Grid.stripTrailingNewlines l ++ List.replicate k 10 ∧
      (Grid.stripTrailingNewlines l).getLast? ≠ some 10 := by
  unfold Grid.stripTrailingNewlines
  generalize hr : l.reverse = r
  have hl : l = r.reverse := by rw [← hr, List.reverse_reverse]
  subst hl
  clear hr
  induction r with
  | nil => exact ⟨0, by simp, by simp⟩
  | cons x xs ih =>
    by_cases hx : x = 10
    · subst hx
      obtain ⟨k, h1, h2⟩ := ih
      refine ⟨k + 1, ?_, ?_⟩
      · simp only [List.reverse_cons, List.dropWhile_cons, beq_self_eq_true, ↓reduceIte]
        conv => lhs; rw [h1]
        simp [List.replicate_succ', List.append_assoc]
      · simpa [List.dropWhile_cons] using h2
    · refine ⟨0, ?_, ?_⟩
      · simp [List.dropWhile_cons, hx]
      · simp [List.dropWhile_cons, hx]

/-! ### the row projection -/

/-- the text of the cells `cells` seen as columns `col, col+1, …` of a window that started at
`start`; `pending` = blank columns since the last emitted cell; `skip` = this column is the
second half of an emitted wide cell -/
def rowTextAux : List Cell → Bool → Nat → List Nat
  | [], _, _ => []
  | c :: cs, skip, pending =>
    if skip then rowTextAux cs false pending
    else if c.hasContents then
      List.replicate pending 32 ++ c.contents.take c.len ++ rowTextAux cs c.isWide 0
    else rowTextAux cs false (pending + 1)

/-- the projection of a row onto the column window `[start, start+width)` -/
def rowText (r : Row) (start width : Nat) : List Nat :=
  rowTextAux ((r.cells.drop start).take width) false 0

/-- a blank window projects to the empty string -/
theorem rowText_blank (cs : List Cell) (h : ∀ c ∈ cs, c.hasContents = false) (p : Nat) :
    rowTextAux cs false p = [] := by
  induction cs generalizing p with
  | nil => rfl
  | cons c cs ih =>
    have hc := h c (List.mem_cons_self)
    simp only [rowTextAux, Bool.false_eq_true, ↓reduceIte, hc]
    exact ih (fun c' hc' => h c' (List.mem_cons_of_mem _ hc')) _

end Vt.C14
