import Vt.Props.C01full
import Vt.Props.DiffGrid
/-
  MiscC01 — C01: the receiver after a full redraw is again a legitimate receiver, so "a parser that has
  previously been fed other full redraws" is closed under iteration.

  `contents_formatted_reproduces` / `state_formatted_reproduces` (Vt/Props/C01full.lean) assume `RecvOk W q`
  (ready, canvas, well-formed rows) and offset 0 of the receiver, and conclude `Shows`, `DrawnAs`, `Ready` —
  but not `RecvOk` of the result.  Here:

  * `Recv W sz q` : the receiver invariant — `RecvOk W q`, `C13.ParserInv W q` (what every parser reached
    from `Parser::new` by `process` satisfies: `C13.process_total`), view not scrolled back, size `sz`.
    `recv_new` : a new parser satisfies it.
  * `recvOk_of_drawn` : `Ready q'`, `DrawnAs q' S`, `ParserInv W q'` give `RecvOk W q'` (canvas from
    `DrawnAs.canvas`, well-formed rows from the invariant, as in C02's `reproduces_of_redraw_inv`).
  * `recv_contents_formatted` / `recv_state_formatted` : one redraw keeps `Recv` (and shows `S`).
  * `feedRedraws` / `recv_feedRedraws` : any number of `contents_formatted` redraws of any screens of that
    size keep `Recv`, report nothing, and leave the input modes alone.
  * `redraws_then_contents_formatted` : **any number of full redraws of any screens of that size, then
    `S.contents_formatted()`, shows `S`**; `redraws_then_state_formatted` the same with `state_formatted`
    last (input modes included; receiver's mouse mode / encoding at their defaults initially, e.g. a new
    parser); `fresh_redraws_then_state_formatted` starts from `Parser::new`.
-/
namespace Vt.MiscC01
open Vt Vt.Recv Vt.C19 Vt.C09 Vt.RowDraw Vt.GridDraw Vt.Tok Vt.C03 Vt.C01 Vt.Bytes
set_option linter.unusedSimpArgs false
set_option linter.unusedVariables false

variable {W : Nat → Option Nat} {cb : CbPolicy}

/-- the receiver invariant that is closed under full redraws -/
structure Recv (W : Nat → Option Nat) (sz : Size) (q : Parser) : Prop where
  ok : RecvOk W q
  inv : C13.ParserInv W q
  off : (rsOf q.ws).g.scrollbackOffset = 0
  size : (rsOf q.ws).g.size = sz

/-- a parser that is ready, whose active grid has been drawn as `S` by a redraw, and that satisfies the
parser invariant, is a legitimate receiver again -/
theorem recvOk_of_drawn {q' : Parser} {S : Screen} (hr : Ready q') (hd : DrawnAs q' S)
    (hi : C13.ParserInv W q') : RecvOk W q' := by
  refine ⟨hr, hd.canvas, ?_⟩
  intro r hrow
  have hg := (ScreenInv.cur hi.screen).1
  exact (hg.row_ok r hrow).2

/-- a new parser is a legitimate receiver -/
theorem recv_new (rows cols sb : Nat) (hr : 1 ≤ rows) (hc : 1 ≤ cols) (hr' : rows ≤ 65535)
    (hc' : cols ≤ 65535) :
    ∃ q, Parser.new rows cols sb = .ok q ∧ Recv W ⟨rows, cols⟩ q ∧ q.ws.events = [] ∧
      q.screen.mouseMode = .none ∧ q.screen.mouseEnc = .default := by
  obtain ⟨q, e, hok, hoff, hsz, hm, he⟩ := new_recvOk W rows cols sb hr hc hr' hc'
  obtain ⟨q0, e0, hi⟩ := C13.new_parserInv (W := W) rows cols sb hr hc hr' hc'
  have : q0 = q := by rw [e] at e0; exact (Except.ok.inj e0).symm
  subst this
  refine ⟨q0, e, ⟨hok, hi, hoff, hsz⟩, ?_, hm, he⟩
  simp only [Parser.new] at e
  obtain ⟨s, _, e⟩ := bind_eq_ok.mp e
  simp only [pure_eq_ok, Except.ok.injEq] at e
  rw [← e]

/-- **C01, `contents_formatted`, with the receiver invariant re-established**: the resulting parser is again
`RecvOk`, satisfies the parser invariant, is not scrolled back and has the same size -/
theorem recv_contents_formatted (hW : WOk W) (hcb : C13.CbInv W cb) {sz : Size} {q : Parser} (hq : Recv W sz q)
    (S : Screen) (hS : SrcScreen W S) (hsz : S.cur.size = sz) :
    ∃ bytes q', S.contentsFormatted = .ok bytes ∧ q.process W cb bytes = .ok q' ∧ Recv W sz q' ∧
      Shows q'.screen S ∧ q'.ws.events = q.ws.events ∧
      C10.inputModes q'.screen = C10.inputModes q.screen ∧ DrawnAs q' S := by
  obtain ⟨bytes, q', eb, ep, hr, hsh, hev, hmo, hd⟩ :=
    contents_formatted_reproduces (cb := cb) hW hq.ok hq.off S hS (by rw [hsz, hq.size])
  have hi : C13.ParserInv W q' := C02.parserInv_of_emitted hW.space hcb hq.inv (contentsFormatted_bytes' S eb) ep
  refine ⟨bytes, q', eb, ep, ⟨recvOk_of_drawn hr hd hi, hi, hsh.off, ?_⟩, hsh, hev, hmo, hd⟩
  show q'.screen.cur.size = sz
  rw [hsh.size, hsz]

/-- **C01, `state_formatted`, with the receiver invariant re-established** -/
theorem recv_state_formatted (hW : WOk W) (hcb : C13.CbInv W cb) {sz : Size} {q : Parser} (hq : Recv W sz q)
    (hm : q.screen.mouseMode = .none) (he : q.screen.mouseEnc = .default)
    (S : Screen) (hS : SrcScreen W S) (hsz : S.cur.size = sz) :
    ∃ bytes q', S.stateFormatted = .ok bytes ∧ q.process W cb bytes = .ok q' ∧ Recv W sz q' ∧
      Shows q'.screen S ∧ C10.inputModes q'.screen = C10.inputModes S ∧ q'.ws.events = q.ws.events ∧
      DrawnAs q' S := by
  obtain ⟨bytes, q', eb, ep, hr, hsh, hmo, hev, hd⟩ :=
    state_formatted_reproduces (cb := cb) hW hq.ok hq.off hm he S hS (by rw [hsz, hq.size])
  have hi : C13.ParserInv W q' := C02.parserInv_of_emitted hW.space hcb hq.inv (stateFormatted_bytes' S eb) ep
  refine ⟨bytes, q', eb, ep, ⟨recvOk_of_drawn hr hd hi, hi, hsh.off, ?_⟩, hsh, hmo, hev, hd⟩
  show q'.screen.cur.size = sz
  rw [hsh.size, hsz]

/-- feed a receiver the `contents_formatted()` of a list of screens, one after the other -/
def feedRedraws (W : Nat → Option Nat) (cb : CbPolicy) : Parser → List Screen → M Parser
  | q, [] => pure q
  | q, S :: rest => do
    let bytes ← S.contentsFormatted
    let q' ← q.process W cb bytes
    feedRedraws W cb q' rest

/-- **closure under iteration**: any number of full redraws of any (valid, not scrolled back) screens of
the receiver's size succeed, keep the receiver invariant, report nothing to the callbacks and leave the
input modes alone; after a non-empty list the receiver shows the last screen -/
theorem recv_feedRedraws (hW : WOk W) (hcb : C13.CbInv W cb) {sz : Size} :
    ∀ (Ss : List Screen) (q : Parser), Recv W sz q → (∀ S ∈ Ss, SrcScreen W S ∧ S.cur.size = sz) →
      ∃ q', feedRedraws W cb q Ss = .ok q' ∧ Recv W sz q' ∧ q'.ws.events = q.ws.events ∧
        C10.inputModes q'.screen = C10.inputModes q.screen ∧
        (∀ S, Ss.getLast? = some S → Shows q'.screen S)
  | [], q, hq, _ => ⟨q, rfl, hq, rfl, rfl, fun S h => by simp at h⟩
  | S :: rest, q, hq, h => by
    obtain ⟨hS, hsz⟩ := h S (List.mem_cons_self ..)
    obtain ⟨bytes, q1, eb, ep, hq1, hsh, hev, hmo, _⟩ := recv_contents_formatted (cb := cb) hW hcb hq S hS hsz
    obtain ⟨q', e', hq', hev', hmo', hlast⟩ :=
      recv_feedRedraws hW hcb rest q1 hq1 (fun T hT => h T (List.mem_cons_of_mem _ hT))
    refine ⟨q', ?_, hq', hev'.trans hev, hmo'.trans hmo, ?_⟩
    · simp only [feedRedraws, eb, ok_bind, ep, e']
    · intro T hT
      cases rest with
      | nil =>
        simp only [List.getLast?_singleton, Option.some.injEq] at hT
        subst hT
        simp only [feedRedraws, pure_eq_ok, Except.ok.injEq] at e'
        subst e'
        exact hsh
      | cons R rest' =>
        rw [List.getLast?_cons_cons] at hT
        exact hlast T hT

/-- **C01 for "a parser that has previously been fed other full redraws"**: any number of full redraws of
any screens of that size, then `S.contents_formatted()`: the receiver shows `S` — cells, wrap flags,
cursor, cursor visibility, pen — nothing is reported, and it is a legitimate receiver again -/
theorem redraws_then_contents_formatted (hW : WOk W) (hcb : C13.CbInv W cb) {sz : Size} {q : Parser}
    (hq : Recv W sz q) (Ss : List Screen) (hSs : ∀ T ∈ Ss, SrcScreen W T ∧ T.cur.size = sz)
    (S : Screen) (hS : SrcScreen W S) (hsz : S.cur.size = sz) :
    ∃ q1 bytes q2, feedRedraws W cb q Ss = .ok q1 ∧ S.contentsFormatted = .ok bytes ∧
      q1.process W cb bytes = .ok q2 ∧ Shows q2.screen S ∧ Recv W sz q2 ∧ q2.ws.events = q.ws.events ∧
      C10.inputModes q2.screen = C10.inputModes q.screen := by
  obtain ⟨q1, e1, hq1, hev1, hmo1, _⟩ := recv_feedRedraws (cb := cb) hW hcb Ss q hq hSs
  obtain ⟨bytes, q2, eb, ep, hq2, hsh, hev, hmo, _⟩ := recv_contents_formatted (cb := cb) hW hcb hq1 S hS hsz
  exact ⟨q1, bytes, q2, e1, eb, ep, hsh, hq2, hev.trans hev1, hmo.trans hmo1⟩

/-- the same with `S.state_formatted()` last: the five input modes are reproduced too (the receiver's mouse
mode and encoding are at their defaults to begin with — `contents_formatted` redraws do not touch them) -/
theorem redraws_then_state_formatted (hW : WOk W) (hcb : C13.CbInv W cb) {sz : Size} {q : Parser}
    (hq : Recv W sz q) (hm : q.screen.mouseMode = .none) (he : q.screen.mouseEnc = .default)
    (Ss : List Screen) (hSs : ∀ T ∈ Ss, SrcScreen W T ∧ T.cur.size = sz)
    (S : Screen) (hS : SrcScreen W S) (hsz : S.cur.size = sz) :
    ∃ q1 bytes q2, feedRedraws W cb q Ss = .ok q1 ∧ S.stateFormatted = .ok bytes ∧
      q1.process W cb bytes = .ok q2 ∧ Shows q2.screen S ∧ C10.inputModes q2.screen = C10.inputModes S ∧
      obs q2.screen = obs S ∧ Recv W sz q2 ∧ q2.ws.events = q.ws.events := by
  obtain ⟨q1, e1, hq1, hev1, hmo1, _⟩ := recv_feedRedraws (cb := cb) hW hcb Ss q hq hSs
  have hm1 : q1.screen.mouseMode = .none := by
    have := congrArg C10.InputModes.mouseMode hmo1; exact this.trans hm
  have he1 : q1.screen.mouseEnc = .default := by
    have := congrArg C10.InputModes.mouseEnc hmo1; exact this.trans he
  obtain ⟨bytes, q2, eb, ep, hq2, hsh, hmo, hev, _⟩ :=
    recv_state_formatted (cb := cb) hW hcb hq1 hm1 he1 S hS hsz
  exact ⟨q1, bytes, q2, e1, eb, ep, hsh, hmo, shows_obs hsh hmo hS.off, hq2, hev.trans hev1⟩

/-- from `Parser::new`: a new parser of the right size, any number of full redraws, then
`S.state_formatted()`: the observable state of `S`, no callback event at all -/
theorem fresh_redraws_then_state_formatted (hW : WOk W) (hcb : C13.CbInv W cb) (rows cols sb : Nat)
    (hr : 1 ≤ rows) (hc : 1 ≤ cols) (hr' : rows ≤ 65535) (hc' : cols ≤ 65535)
    (Ss : List Screen) (hSs : ∀ T ∈ Ss, SrcScreen W T ∧ T.cur.size = ⟨rows, cols⟩)
    (S : Screen) (hS : SrcScreen W S) (hsz : S.cur.size = ⟨rows, cols⟩) :
    ∃ q q1 bytes q2, Parser.new rows cols sb = .ok q ∧ feedRedraws W cb q Ss = .ok q1 ∧
      S.stateFormatted = .ok bytes ∧ q1.process W cb bytes = .ok q2 ∧ obs q2.screen = obs S ∧
      q2.ws.events = [] := by
  obtain ⟨q, e, hq, hev, hm, he⟩ := recv_new (W := W) rows cols sb hr hc hr' hc'
  obtain ⟨q1, bytes, q2, e1, eb, ep, _, _, hobs, _, hev2⟩ :=
    redraws_then_state_formatted (cb := cb) hW hcb hq hm he Ss hSs S hS hsz
  exact ⟨q, q1, bytes, q2, e, e1, eb, ep, hobs, hev2.trans hev⟩

/-! ### the hypotheses are satisfiable (test) -/

/-- three different 3 x 5 screens (text with a wrapped line and colours; a wide character and an erase run
with a background colour; the cursor in the pending-wrap column) satisfy the Boolean invariants from which
`SrcScreen` follows (`C01.srcScreen_of_inv`), are not scrolled back and have the same size; and — as
`fresh_redraws_then_state_formatted` says — a new parser fed the `contents_formatted()` of the first two and
then the `state_formatted()` of the third has the observable state of the third.  Kernel-evaluated; a test. -/
theorem redraws_nonvacuous :
    isOkTrue (do
      let a ← C02.run 3 5 0 [[0x1b, 0x5b, 0x33, 0x31, 0x6d, 97, 98, 99, 100, 101, 102, 103]]
      let b ← C02.run 3 5 0 [[97, 0xE4, 0xB8, 0x80, 0x1b, 0x5b, 0x34, 0x32, 0x6d, 0x1b, 0x5b, 0x4b, 13, 10, 120]]
      let c ← C02.run 3 5 0 [[13, 10, 97, 98, 99, 100, 101, 0x1b, 0x5b, 0x3f, 0x32, 0x35, 0x6c]]
      let q ← Parser.new 3 5 0
      let q1 ← feedRedraws W0 cbNone q [a.screen, b.screen]
      let bytes ← c.screen.stateFormatted
      let q2 ← q1.process W0 cbNone bytes
      let oa ← obs a.screen
      let ob ← obs b.screen
      let oc ← obs c.screen
      let o1 ← obs q1.screen
      let o2 ← obs q2.screen
      pure (emitInvB W0 a.screen && emitInvB W0 b.screen && emitInvB W0 c.screen &&
            a.screen.cur.scrollbackOffset == 0 && b.screen.cur.scrollbackOffset == 0 &&
            c.screen.cur.scrollbackOffset == 0 &&
            a.screen.cur.size == ⟨3, 5⟩ && b.screen.cur.size == ⟨3, 5⟩ && c.screen.cur.size == ⟨3, 5⟩ &&
            c.screen.cur.pos == ⟨1, 5⟩ && a.screen.cur.rows.any (·.wrapped) &&
            decide (o2 = oc) && decide (o1 = ob) && decide (ob ≠ oc) && decide (oa ≠ ob))) = true := by
  decide +kernel

end Vt.MiscC01

/-
#print axioms Vt.MiscC01.recvOk_of_drawn
#print axioms Vt.MiscC01.recv_contents_formatted
#print axioms Vt.MiscC01.recv_state_formatted
#print axioms Vt.MiscC01.recv_feedRedraws
#print axioms Vt.MiscC01.redraws_then_contents_formatted
#print axioms Vt.MiscC01.redraws_then_state_formatted
#print axioms Vt.MiscC01.fresh_redraws_then_state_formatted
-/
