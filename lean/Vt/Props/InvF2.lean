/-
  Vt.Props.InvF2 — the wrap-flag conditions through the screen operations, `perform`, `process`, the public
  API, and every reachable screen (`reachable_f`); with `reachable_x`: every reachable screen satisfies the
  Boolean `emitInvB` the redraw theorems assume (`reachable_emitInv`).
-/
import Vt.Props.InvF
namespace Vt.InvF
open Vt Vt.C13 Vt.InvX
set_option linter.unusedSimpArgs false
set_option linter.unusedVariables false

variable {W : Nat → Option Nat}

structure ScreenF (s : Screen) : Prop where
  grid : GridF s.grid
  alt : GridF s.altGrid

theorem ScreenF.cur {s : Screen} (h : ScreenF s) : GridF s.cur := by
  unfold Screen.cur; split
  · exact h.alt
  · exact h.grid

theorem screenF_setCur {s : Screen} (h : ScreenF s) {g : Grid} (hg : GridF g) : ScreenF (s.setCur g) := by
  unfold Screen.setCur
  split
  · exact ⟨h.grid, hg⟩
  · exact ⟨hg, h.alt⟩

theorem screenF_modifyGrid {s s' : Screen} (h : ScreenF s) {k : Grid → M Grid}
    (hk : ∀ g', k s.cur = .ok g' → GridF g') (e : s.modifyGrid k = .ok s') : ScreenF s' := by
  obtain ⟨g', hg, rfl⟩ := modifyGrid_eq_ok_iff.mp e
  exact screenF_setCur h (hk g' hg)

theorem screenF_congr {s s' : Screen} (h : ScreenF s) (h3 : s'.grid = s.grid) (h4 : s'.altGrid = s.altGrid) : ScreenF s' :=
  ⟨by rw [h3]; exact h.grid, by rw [h4]; exact h.alt⟩

theorem screenF_new {sz : Size} {n : Nat} {s : Screen} (e : Screen.new sz n = .ok s) : ScreenF s := by
  unfold Screen.new at e
  obtain ⟨g, hg, e⟩ := bind_eq_ok.mp e
  obtain ⟨ag, hag, e⟩ := bind_eq_ok.mp e
  simp only [pure_eq_ok, Except.ok.injEq] at e
  rw [← e]
  exact ⟨gridF_allocateRows (gridF_new hg), gridF_new hag⟩

theorem screenF_setSize {s s' : Screen} (h : ScreenF s) (r c : Nat) (e : s.setSize r c = .ok s') : ScreenF s' := by
  unfold Screen.setSize at e
  obtain ⟨g, hg, e⟩ := bind_eq_ok.mp e
  obtain ⟨ag, hag, e⟩ := bind_eq_ok.mp e
  simp only [pure_eq_ok, Except.ok.injEq] at e
  rw [← e]
  exact ⟨gridF_setSize h.grid _ hg, gridF_setSize h.alt _ hag⟩

theorem screenF_sameRows {s s' : Screen} (h : ScreenF s) {k : Grid → M Grid}
    (hk : ∀ g g', k g = .ok g' → g'.rows = g.rows ∧ g'.scrollback = g.scrollback) (e : s.modifyGrid k = .ok s') : ScreenF s' :=
  screenF_modifyGrid h (fun g' hg => gridF_same h.cur (hk _ g' hg).1 (hk _ g' hg).2) e

theorem pure_rows {f : Grid → Grid} (hf : ∀ g, (f g).rows = g.rows ∧ (f g).scrollback = g.scrollback) :
    ∀ g g', (pure (f g) : M Grid) = .ok g' → g'.rows = g.rows ∧ g'.scrollback = g.scrollback := by
  intro g g' e
  simp only [pure_eq_ok, Except.ok.injEq] at e
  rw [← e]; exact hf g

theorem screenF_saveCursor {s s' : Screen} (h : ScreenF s) (e : s.saveCursor = .ok s') : ScreenF s' := by
  unfold Screen.saveCursor at e
  obtain ⟨s1, h1, e⟩ := bind_eq_ok.mp e
  simp only [pure_eq_ok, Except.ok.injEq] at e
  have hx1 : ScreenF s1 := screenF_sameRows h (pure_rows (f := Grid.saveCursor) (fun g => ⟨rfl, rfl⟩)) h1
  rw [← e]
  exact ⟨hx1.grid, hx1.alt⟩

theorem screenF_restoreCursor {s s' : Screen} (h : ScreenF s) (e : s.restoreCursor = .ok s') : ScreenF s' := by
  unfold Screen.restoreCursor at e
  obtain ⟨s1, h1, e⟩ := bind_eq_ok.mp e
  simp only [pure_eq_ok, Except.ok.injEq] at e
  have hx1 : ScreenF s1 := screenF_sameRows h (pure_rows (f := Grid.restoreCursor) (fun g => ⟨rfl, rfl⟩)) h1
  rw [← e]
  exact ⟨hx1.grid, hx1.alt⟩

theorem screenF_enterAlt {s s' : Screen} (h : ScreenF s) (e : s.enterAlternateGrid = .ok s') : ScreenF s' := by
  unfold Screen.enterAlternateGrid at e
  obtain ⟨s1, h1, e⟩ := bind_eq_ok.mp e
  simp only [pure_eq_ok, Except.ok.injEq] at e
  have hx1 : ScreenF s1 := screenF_sameRows h (pure_rows (f := fun g => g.setScrollback 0) (fun g => ⟨rfl, rfl⟩)) h1
  rw [← e]
  exact ⟨hx1.grid, gridF_allocateRows hx1.alt⟩

theorem setOriginMode_rows {v : Bool} : ∀ g g', Grid.setOriginMode g v = .ok g' → g'.rows = g.rows ∧ g'.scrollback = g.scrollback := by
  intro g g' e
  unfold Grid.setOriginMode at e
  exact setPos_rows (g := { g with originMode := v }) e

theorem screenF_decsetOne {s : Screen} (h : ScreenF s) (p : List Nat) {r : Option Screen}
    (e : s.decsetOne p = .ok r) : ∀ s', r = some s' → ScreenF s' := by
  intro s' hr
  subst hr
  unfold Screen.decsetOne at e
  split at e
  all_goals first
    | (simp only [pure_eq_ok, Except.ok.injEq, Option.some.injEq] at e; rw [← e]; exact screenF_congr h rfl rfl)
    | (simp at e; done)
    | skip
  · obtain ⟨s1, h1, e⟩ := bind_eq_ok.mp e
    simp only [pure_eq_ok, Except.ok.injEq, Option.some.injEq] at e
    rw [← e]
    exact screenF_sameRows h setOriginMode_rows h1
  · obtain ⟨s1, h1, e⟩ := bind_eq_ok.mp e
    simp only [pure_eq_ok, Except.ok.injEq, Option.some.injEq] at e
    rw [← e]
    exact screenF_enterAlt h h1
  · obtain ⟨s1, h1, e⟩ := bind_eq_ok.mp e
    obtain ⟨ag, h2, e⟩ := bind_eq_ok.mp e
    obtain ⟨s3, h3, e⟩ := bind_eq_ok.mp e
    simp only [pure_eq_ok, Except.ok.injEq, Option.some.injEq] at e
    rw [← e]
    have hx1 := screenF_saveCursor h h1
    exact screenF_enterAlt (s := { s1 with altGrid := ag }) ⟨hx1.grid, gridF_clear hx1.alt h2⟩ h3

theorem screenF_clearMouse {s : Screen} (h : ScreenF s) (m : MouseMode) : ScreenF (s.clearMouseMode m) := by
  unfold Screen.clearMouseMode; split
  · exact screenF_congr h rfl rfl
  · exact h

theorem screenF_clearEnc {s : Screen} (h : ScreenF s) (m : MouseEnc) : ScreenF (s.clearMouseEnc m) := by
  unfold Screen.clearMouseEnc; split
  · exact screenF_congr h rfl rfl
  · exact h

theorem screenF_decrstOne {s : Screen} (h : ScreenF s) (p : List Nat) {r : Option Screen}
    (e : s.decrstOne p = .ok r) : ∀ s', r = some s' → ScreenF s' := by
  intro s' hr
  subst hr
  unfold Screen.decrstOne at e
  split at e
  all_goals first
    | (simp only [pure_eq_ok, Except.ok.injEq, Option.some.injEq] at e; rw [← e]; exact screenF_congr h rfl rfl)
    | (simp only [pure_eq_ok, Except.ok.injEq, Option.some.injEq] at e; rw [← e]; exact screenF_clearMouse h _)
    | (simp only [pure_eq_ok, Except.ok.injEq, Option.some.injEq] at e; rw [← e]; exact screenF_clearEnc h _)
    | (simp at e; done)
    | skip
  · obtain ⟨s1, h1, e⟩ := bind_eq_ok.mp e
    simp only [pure_eq_ok, Except.ok.injEq, Option.some.injEq] at e
    rw [← e]
    exact screenF_sameRows h setOriginMode_rows h1
  · obtain ⟨s1, h1, e⟩ := bind_eq_ok.mp e
    simp only [pure_eq_ok, Except.ok.injEq, Option.some.injEq] at e
    rw [← e]
    exact screenF_restoreCursor (s := s.exitAlternateGrid) (screenF_congr h rfl rfl) h1

theorem screenF_edMode {s : Screen} (hs : ScreenInv W s) (h : ScreenF s) (m : Nat) {r : Option Screen}
    (e : s.edMode m = .ok r) : ∀ s', r = some s' → ScreenF s' := by
  intro s' hr
  subst hr
  obtain ⟨hc, hl⟩ := hs.cur
  unfold Screen.edMode at e
  split at e
  · obtain ⟨s1, h1, e⟩ := bind_eq_ok.mp e
    simp only [pure_eq_ok, Except.ok.injEq, Option.some.injEq] at e
    rw [← e]
    exact screenF_modifyGrid h (fun g' hg => gridF_eraseAllForward hc h.cur _ hg) h1
  · obtain ⟨s1, h1, e⟩ := bind_eq_ok.mp e
    simp only [pure_eq_ok, Except.ok.injEq, Option.some.injEq] at e
    rw [← e]
    exact screenF_modifyGrid h (fun g' hg => gridF_eraseAllBackward hc h.cur _ hg) h1
  · obtain ⟨s1, h1, e⟩ := bind_eq_ok.mp e
    simp only [pure_eq_ok, Except.ok.injEq, Option.some.injEq] at e
    rw [← e]
    exact screenF_modifyGrid h (fun g' hg => by
      simp only [pure_eq_ok, Except.ok.injEq] at hg
      rw [← hg]; exact gridF_eraseAll h.cur _) h1
  · simp at e

theorem screenF_elMode {s : Screen} (hs : ScreenInv W s) (h : ScreenF s) (m : Nat) {r : Option Screen}
    (e : s.elMode m = .ok r) : ∀ s', r = some s' → ScreenF s' := by
  intro s' hr
  subst hr
  obtain ⟨hc, hl⟩ := hs.cur
  unfold Screen.elMode at e
  split at e
  · obtain ⟨s1, h1, e⟩ := bind_eq_ok.mp e
    simp only [pure_eq_ok, Except.ok.injEq, Option.some.injEq] at e
    rw [← e]
    exact screenF_modifyGrid h (fun g' hg => gridF_eraseRowForward hc h.cur _ hg) h1
  · obtain ⟨s1, h1, e⟩ := bind_eq_ok.mp e
    simp only [pure_eq_ok, Except.ok.injEq, Option.some.injEq] at e
    rw [← e]
    exact screenF_modifyGrid h (fun g' hg => gridF_eraseRowBackward hc h.cur _ hg) h1
  · obtain ⟨s1, h1, e⟩ := bind_eq_ok.mp e
    simp only [pure_eq_ok, Except.ok.injEq, Option.some.injEq] at e
    rw [← e]
    exact screenF_modifyGrid h (fun g' hg => gridF_eraseRow h.cur _ hg) h1
  · simp at e

/-! ### the combinators of `InvX3`, for these conditions -/

def GoodF (ws : WS) : Prop := ScreenF ws.screen

/-- the callback policy keeps the per-cell conditions (on screens satisfying `Inv`) -/
def CbF (W : Nat → Option Nat) (cb : CbPolicy) : Prop :=
  ∀ e s s', EventOk e → ScreenInv W s → ScreenF s → cb e s = .ok s' → ScreenF s'

theorem cbNone_f : CbF W cbNone := by
  intro e s s' _ _ hx h
  simp only [cbNone, pure_eq_ok, Except.ok.injEq] at h
  rw [← h]; exact hx

theorem cbResize_f : CbF W cbResize := by
  intro e s s' _ _ hx h
  unfold cbResize at h
  split at h
  · split at h
    · exact screenF_setSize hx _ _ h
    · simp only [pure_eq_ok, Except.ok.injEq] at h
      rw [← h]; exact hx
  · simp only [pure_eq_ok, Except.ok.injEq] at h
    rw [← h]; exact hx

/-- a step keeps `Inv` and the per-cell conditions together (partial-correctness form) -/
def StepF (W : Nat → Option Nat) (f : WS → M WS) : Prop :=
  ∀ ws ws', Good W ws → GoodF ws → f ws = .ok ws' → Good W ws' ∧ GoodF ws'

theorem stepF_of {f : WS → M WS} (h1 : StepW W f) (h2 : ∀ ws ws', Good W ws → GoodF ws → f ws = .ok ws' → GoodF ws') :
    StepF W f := by
  intro ws ws' hg hx e
  obtain ⟨w, e1, g1⟩ := h1 ws hg
  have : w = ws' := by rw [e] at e1; exact (Except.ok.inj e1).symm
  subst this
  exact ⟨g1, h2 ws w hg hx e⟩

theorem stepF_emit {cb : CbPolicy} (hcb : CbInv W cb) (hcx : CbF W cb) (ev : Event) (he : EventOk ev) :
    StepF W (emit cb ev) := by
  refine stepF_of (stepW_emit hcb ev he) ?_
  intro ws ws' hg hx e
  unfold emit at e
  obtain ⟨s, hs, e⟩ := bind_eq_ok.mp e
  simp only [pure_eq_ok, Except.ok.injEq] at e
  rw [← e]
  exact hcx ev ws.screen s he hg hx hs

theorem stepF_pure : StepF W (fun ws => pure ws) := by
  intro ws ws' hg hx e
  simp only [pure_eq_ok, Except.ok.injEq] at e
  rw [← e]; exact ⟨hg, hx⟩

/-- a screen operation -/
theorem stepF_onScreen {f : Screen → M Screen}
    (h1 : ∀ s, ScreenInv W s → ∃ s', f s = .ok s' ∧ ScreenInv W s')
    (h2 : ∀ s s', ScreenInv W s → ScreenF s → f s = .ok s' → ScreenF s') : StepF W (fun ws => ws.onScreen f) := by
  refine stepF_of (stepW_onScreen h1) ?_
  intro ws ws' hg hx e
  unfold WS.onScreen at e
  obtain ⟨s, hs, e⟩ := bind_eq_ok.mp e
  simp only [pure_eq_ok, Except.ok.injEq] at e
  rw [← e]
  exact h2 ws.screen s hg hx hs

/-- a screen operation that is a grid operation on the active grid -/
theorem stepF_onGrid {f : Screen → M Screen} {k : Screen → Grid → M Grid}
    (hf : ∀ s, f s = s.modifyGrid (k s))
    (hk : ∀ s g, GridInv W g true → g.rows.length = g.size.rows → Total W (k s) g)
    (hx : ∀ s g', ScreenInv W s → ScreenF s → k s s.cur = .ok g' → GridF g') : StepF W (fun ws => ws.onScreen f) := by
  refine stepF_onScreen (fun s hs => by rw [hf]; exact screen_total hk s hs) ?_
  intro s s' hs hxs e
  rw [hf] at e
  exact screenF_modifyGrid hxs (fun g' hg => hx s g' hs hxs hg) e

theorem stepF_arm {unh : WS → M WS} (hunh : StepF W unh) (arm : Screen → M (Option Screen))
    (h1 : ∀ s, ScreenInv W s → ∃ r, arm s = .ok r ∧ ∀ s', r = some s' → ScreenInv W s')
    (h2 : ∀ s r, ScreenInv W s → ScreenF s → arm s = .ok r → ∀ s', r = some s' → ScreenF s') :
    StepF W (fun ws => do
      match ← arm ws.screen with
      | some s => pure { ws with screen := s }
      | none => unh ws) := by
  intro ws ws' hg hx e
  obtain ⟨r, hr, e⟩ := bind_eq_ok.mp e
  obtain ⟨r', hr', hi⟩ := h1 ws.screen hg
  have : r' = r := by rw [hr] at hr'; exact (Except.ok.inj hr').symm
  subst this
  cases r' with
  | none => exact hunh ws ws' hg hx e
  | some s1 =>
    simp only [pure_eq_ok, Except.ok.injEq] at e
    rw [← e]
    exact ⟨hi s1 rfl, h2 ws.screen _ hg hx hr s1 rfl⟩

theorem stepF_fold {α} (step : WS → α → M WS) (hstep : ∀ x, StepF W (fun ws => step ws x)) :
    ∀ (xs : List α), StepF W (fun ws => xs.foldlM step ws) := by
  intro xs
  induction xs with
  | nil =>
    intro ws ws' hg hx e
    simp only [List.foldlM_nil, pure_eq_ok, Except.ok.injEq] at e
    rw [← e]; exact ⟨hg, hx⟩
  | cons x xs ih =>
    intro ws ws' hg hx e
    have e : List.foldlM step ws (x :: xs) = .ok ws' := e
    rw [List.foldlM_cons] at e
    obtain ⟨w1, e1, e2⟩ := bind_eq_ok.mp e
    obtain ⟨g1, x1⟩ := hstep x ws w1 hg hx e1
    exact ih w1 ws' g1 x1 e2

/-! ### SGR: the pen is not part of these conditions -/

theorem stepF_sgr {unh : WS → M WS} (hunh : StepF W unh) (params : List (List Nat)) :
    StepF W (sgr unh params) := by
  have hgen : ∀ (ps : List (List Nat)) (ws ws' : WS), Good W ws → GoodF ws → sgrLoop unh ps ws = .ok ws' →
      Good W ws' ∧ GoodF ws' := by
    intro ps ws
    fun_induction sgrLoop unh ps ws <;> intro ws' hg hx e
    all_goals first
      | (simp only [pure_eq_ok, Except.ok.injEq] at e; rw [← e]; exact ⟨hg, hx⟩)
      | (rename_i ih; exact ih ws' (good_modAttrs hg _) ⟨hx.grid, hx.alt⟩ e)
      | (rename_i ih; exact ih ws' (good_setFg hg _) ⟨hx.grid, hx.alt⟩ e)
      | (rename_i ih; exact ih ws' (good_setBg hg _) ⟨hx.grid, hx.alt⟩ e)
      | exact hunh _ _ hg hx e
      | skip
    all_goals
      rename_i ih
      obtain ⟨w1, e1, e2⟩ := bind_eq_ok.mp e
      obtain ⟨g1, x1⟩ := hunh _ w1 hg hx e1
      exact ih w1 ws' g1 x1 e2
  intro ws ws' hg hx e
  unfold sgr at e
  split at e
  · simp only [pure_eq_ok, Except.ok.injEq] at e
    rw [← e]
    exact ⟨good_modAttrs hg _, ⟨hx.grid, hx.alt⟩⟩
  · exact hgen params ws ws' hg hx e


/-! ### `perform` -/

theorem sameRows_total {k : Grid → M Grid} {g g' : Grid} (h : GridF g) (e : k g = .ok g')
    (hs : ∀ g g', k g = .ok g' → g'.rows = g.rows ∧ g'.scrollback = g.scrollback) : GridF g' :=
  gridF_same h (hs g g' e).1 (hs g g' e).2

theorem colSet_rows {n : Nat} : ∀ g g', Grid.colSet g n = .ok g' → g'.rows = g.rows ∧ g'.scrollback = g.scrollback :=
  fun g g' e => colClamp_rows (g := { g with pos := { g.pos with col := n } }) e

theorem colTab_rows : ∀ g g', Grid.colTab g = .ok g' → g'.rows = g.rows ∧ g'.scrollback = g.scrollback :=
  fun g g' e => colClamp_rows (g := { g with pos := { g.pos with col := g.pos.col - g.pos.col % 8 + 8 } }) e

theorem colIncClamp_rows {n : Nat} : ∀ g g', Grid.colIncClamp g n = .ok g' → g'.rows = g.rows ∧ g'.scrollback = g.scrollback :=
  fun g g' e => colClamp_rows (g := g.colInc n) e

theorem rowSet_rows {n : Nat} : ∀ g g', Grid.rowSet g n = .ok g' → g'.rows = g.rows ∧ g'.scrollback = g.scrollback :=
  fun g g' e => rowClamp_rows (g := { g with pos := { g.pos with row := n } }) e

theorem gridF_rowIncClamp {g g' : Grid} (h : GridF g) (n : Nat) (e : g.rowIncClamp n = .ok g') : GridF g' := by
  unfold Grid.rowIncClamp at e
  obtain ⟨q, hq, e⟩ := bind_eq_ok.mp e
  have := rowClampBottom_rows hq
  obtain ⟨q1, q2⟩ := q
  simp only [pure_eq_ok, Except.ok.injEq] at e
  rw [← e]
  exact gridF_same (g := g) h this.1 this.2.1

theorem gridF_setScrollRegion {g g' : Grid} (h : GridF g) (t b : Nat) (e : g.setScrollRegion t b = .ok g') : GridF g' := by
  unfold Grid.setScrollRegion at e
  obtain ⟨b1, _, e⟩ := bind_eq_ok.mp e
  simp only [pure_eq_ok, Except.ok.injEq] at e
  rw [← e]
  split <;> exact gridF_same h rfl rfl

theorem gridF_cnl {g g' : Grid} (h : GridF g) (n : Nat) (e : g.cnl n = .ok g') : GridF g' := by
  unfold Grid.cnl at e
  obtain ⟨g1, h1, e⟩ := bind_eq_ok.mp e
  exact gridF_rowIncClamp (sameRows_total h h1 colSet_rows) n e

theorem gridF_cpl {g g' : Grid} (h : GridF g) (n : Nat) (e : g.cpl n = .ok g') : GridF g' := by
  unfold Grid.cpl at e
  obtain ⟨g1, h1, e⟩ := bind_eq_ok.mp e
  simp only [pure_eq_ok, Except.ok.injEq] at e
  rw [← e]
  have hx1 := sameRows_total h h1 colSet_rows
  have := rowClampTop_rows ({ g1 with pos := { g1.pos with row := g1.pos.row - n } }) g1.inScrollRegion
  exact gridF_same (g := g1) hx1 this.1 this.2.1

theorem gridF_rowDecClamp {g : Grid} (h : GridF g) (n : Nat) : GridF (g.rowDecClamp n) := by
  have := rowClampTop_rows ({ g with pos := { g.pos with row := g.pos.row - n } }) g.inScrollRegion
  exact gridF_same (g := g) h this.1 this.2.1

/-- **every action keeps `Inv` and the per-cell conditions** -/
theorem f_perform (hW32 : W 32 = some 1) {cb : CbPolicy} (hcb : CbInv W cb) (hcx : CbF W cb)
    (a : Action) (ha : ActionOk a) : StepF W (fun ws => perform W cb ws a) := by
  have hemit : ∀ e, EventOk e → StepF W (emit cb e) := fun e he => stepF_emit hcb hcx e he
  have hlf : StepF W (fun ws => ws.onScreen Screen.lf) :=
    stepF_onGrid (k := fun _ g => do let (g, _) ← g.rowIncScroll 1; pure g) (fun s => rfl)
      (fun s g h l => by
        obtain ⟨g', n, e, st, _⟩ := rowIncScroll_ok h l
        exact ⟨g', by simp [e], st⟩)
      (fun s g' hs hx e => by
        obtain ⟨p, hp, e⟩ := bind_eq_ok.mp e
        obtain ⟨p1, p2⟩ := p
        simp only [pure_eq_ok, Except.ok.injEq] at e
        rw [← e]
        exact gridF_rowIncScroll hx.cur (by obtain ⟨hc, hl⟩ := hs.cur; rw [hl]; have := hc.region_le; have := hc.region_lt; omega) 1 hp)
  have hexec : ∀ b, StepF W (fun ws => performExecute cb ws b) := by
    intro b
    unfold performExecute
    split
    · exact hemit _ trivial
    · exact stepF_onGrid (k := fun _ g => pure (g.colDec 1)) (fun s => rfl) (fun s g h l => total_colDec h l 1)
        (fun s g' hs hx e => by
          simp only [pure_eq_ok, Except.ok.injEq] at e
          rw [← e]; exact gridF_same hx.cur rfl rfl)
    · exact stepF_onGrid (k := fun _ g => g.colTab) (fun s => rfl) (fun s g h l => total_colTab h l)
        (fun s g' hs hx e => sameRows_total hx.cur e colTab_rows)
    · exact hlf
    · exact hlf
    · exact hlf
    · exact stepF_onGrid (k := fun _ g => g.colSet 0) (fun s => rfl) (fun s g h l => total_colSet h l 0)
        (fun s g' hs hx e => sameRows_total hx.cur e colSet_rows)
    · exact stepF_pure
    · exact stepF_pure
    · exact hemit _ trivial
  cases a with
  | print c =>
    simp only [perform, performPrint]
    split
    · exact hexec c
    · split
      · exact hemit _ trivial
      · rename_i hnf
        exact stepF_onGrid (k := fun s g => g.text W s.attrs c) (fun s => rfl)
          (fun s g h l => text_total h l hW32 s.attrs ha)
          (fun s g' hs hx e => by
            obtain ⟨hc, hl⟩ := hs.cur
            exact gridF_text hc hl hx.cur e)
  | execute b => exact hexec b
  | hook _ _ _ _ => exact stepF_pure
  | put _ => exact stepF_pure
  | unhook => exact stepF_pure
  | oscDispatch params _ =>
    simp only [perform, performOsc]
    split
    · rename_i str
      intro ws ws' hg hx e
      obtain ⟨w1, e1, e2⟩ := bind_eq_ok.mp e
      obtain ⟨g1, x1⟩ := hemit (.setWindowIconName str) trivial ws w1 hg hx e1
      exact hemit (.setWindowTitle str) trivial w1 ws' g1 x1 e2
    all_goals exact hemit _ trivial
  | escDispatch ints ig b =>
    simp only [perform, performEsc]
    split
    · exact hemit _ trivial
    · split
      · exact stepF_onScreen (f := Screen.decsc) (fun s hs => saveCursor_ok hs) (fun s s' hs hx e => screenF_saveCursor hx e)
      · exact stepF_onScreen (f := Screen.decrc) (fun s hs => restoreCursor_ok hs) (fun s s' hs hx e => screenF_restoreCursor hx e)
      · intro ws ws' hg hx e
        simp only [pure_eq_ok, Except.ok.injEq] at e
        rw [← e]
        exact ⟨screenInv_congr hg rfl rfl rfl, screenF_congr hx rfl rfl⟩
      · intro ws ws' hg hx e
        simp only [pure_eq_ok, Except.ok.injEq] at e
        rw [← e]
        exact ⟨screenInv_congr hg rfl rfl rfl, screenF_congr hx rfl rfl⟩
      · exact stepF_onGrid (k := fun _ g => g.rowDecScroll 1) (fun s => rfl) (fun s g h l => total_rowDecScroll h l)
          (fun s g' hs hx e => gridF_rowDecScroll hx.cur 1 e)
      · exact stepF_onScreen (f := Screen.ris) (fun s hs => ris_ok hs) (fun s s' hs hx e => screenF_new e)
      · exact hemit _ trivial
      · exact hemit _ trivial
  | csiDispatch params ints ig c =>
    simp only [ActionOk, ActOk] at ha
    simp only [perform, performCsi]
    split
    · split
      · exact stepF_onGrid (k := fun _ g => g.insertCells (canon1 params 1)) (fun s => rfl)
          (fun s g h l => total_insertCells h l _) (fun s g' hs hx e => gridF_insertCells hx.cur _ e)
      · exact stepF_onGrid (k := fun _ g => pure (g.rowDecClamp (canon1 params 1))) (fun s => rfl)
          (fun s g h l => total_rowDecClamp h l _) (fun s g' hs hx e => by
            simp only [pure_eq_ok, Except.ok.injEq] at e
            rw [← e]; exact gridF_rowDecClamp hx.cur _)
      · exact stepF_onGrid (k := fun _ g => g.rowIncClamp (canon1 params 1)) (fun s => rfl)
          (fun s g h l => total_rowIncClamp h l _) (fun s g' hs hx e => gridF_rowIncClamp hx.cur _ e)
      · exact stepF_onGrid (k := fun _ g => g.colIncClamp (canon1 params 1)) (fun s => rfl)
          (fun s g h l => total_colIncClamp h l _) (fun s g' hs hx e => sameRows_total hx.cur e colIncClamp_rows)
      · exact stepF_onGrid (k := fun _ g => pure (g.colDec (canon1 params 1))) (fun s => rfl)
          (fun s g h l => total_colDec h l _) (fun s g' hs hx e => by
            simp only [pure_eq_ok, Except.ok.injEq] at e
            rw [← e]; exact gridF_same hx.cur rfl rfl)
      · exact stepF_onGrid (k := fun _ g => g.cnl (canon1 params 1)) (fun s => rfl)
          (fun s g h l => total_cnl h l _) (fun s g' hs hx e => gridF_cnl hx.cur _ e)
      · exact stepF_onGrid (k := fun _ g => g.cpl (canon1 params 1)) (fun s => rfl)
          (fun s g h l => total_cpl h l _) (fun s g' hs hx e => gridF_cpl hx.cur _ e)
      · -- CHA
        refine stepF_onScreen ?_ ?_
        · intro s hs
          simp only [Screen.cha, subM_ok (C06.canon1_pos params), ok_bind]
          exact screen_total (f := fun _ g => g.colSet (canon1 params 1 - 1)) (fun s g h l => total_colSet h l _) s hs
        · intro s s' hs hx e
          simp only [Screen.cha] at e
          obtain ⟨c1, _, e⟩ := bind_eq_ok.mp e
          exact screenF_modifyGrid hx (fun g' hg => sameRows_total hx.cur hg colSet_rows) e
      · -- CUP
        refine stepF_onScreen ?_ ?_
        · intro s hs
          obtain ⟨h1, h2⟩ := canon2_pos params 1 1 (Nat.le_refl _) (Nat.le_refl _)
          simp only [Screen.cup, subM_ok h1, subM_ok h2, ok_bind]
          exact screen_total (f := fun _ g => g.setPos ⟨(canon2 params 1 1).1 - 1, (canon2 params 1 1).2 - 1⟩)
            (fun s g h l => total_setPos h l _ _) s hs
        · intro s s' hs hx e
          simp only [Screen.cup] at e
          obtain ⟨r1, _, e⟩ := bind_eq_ok.mp e
          obtain ⟨c1, _, e⟩ := bind_eq_ok.mp e
          exact screenF_modifyGrid hx (fun g' hg => by
            have := setPos_rows hg
            exact gridF_same hx.cur this.1 this.2) e
      · exact stepF_arm (hemit _ (by trivial)) (fun s => s.edMode (canon1 params 0)) (fun s hs => edMode_ok hs _)
          (fun s r hs hx e => screenF_edMode hs hx _ e)
      · exact stepF_arm (hemit _ (by trivial)) (fun s => s.elMode (canon1 params 0)) (fun s hs => elMode_ok hs _)
          (fun s r hs hx e => screenF_elMode hs hx _ e)
      · exact stepF_onGrid (k := fun _ g => g.insertLines (canon1 params 1)) (fun s => rfl)
          (fun s g h l => total_insertLines h l _) (fun s g' hs hx e => gridF_insertLines hx.cur _ e)
      · exact stepF_onGrid (k := fun _ g => g.deleteLines (canon1 params 1)) (fun s => rfl)
          (fun s g h l => total_deleteLines h l _) (fun s g' hs hx e => gridF_deleteLines hx.cur (by obtain ⟨hc, hl⟩ := hs.cur; rw [hl]; exact hc.pos_row) _ e)
      · exact stepF_onGrid (k := fun _ g => g.deleteCells (canon1 params 1)) (fun s => rfl)
          (fun s g h l => total_deleteCells h l _) (fun s g' hs hx e => gridF_deleteCells hx.cur _ e)
      · exact stepF_onGrid (k := fun _ g => g.scrollUp (canon1 params 1)) (fun s => rfl)
          (fun s g h l => total_scrollUp h l _) (fun s g' hs hx e => gridF_scrollUp hx.cur (by obtain ⟨hc, hl⟩ := hs.cur; rw [hl]; have := hc.region_le; have := hc.region_lt; omega) _ e)
      · exact stepF_onGrid (k := fun _ g => g.scrollDown (canon1 params 1)) (fun s => rfl)
          (fun s g h l => total_scrollDown h l _) (fun s g' hs hx e => gridF_scrollDown hx.cur _ e)
      · exact stepF_onGrid (k := fun s g => g.eraseCells (canon1 params 1) s.attrs) (fun s => rfl)
          (fun s g h l => total_eraseCells h l _ _) (fun s g' hs hx e => gridF_eraseCells hs.cur.1 hx.cur _ _ e)
      · -- VPA
        refine stepF_onScreen ?_ ?_
        · intro s hs
          simp only [Screen.vpa, subM_ok (C06.canon1_pos params), ok_bind]
          exact screen_total (f := fun _ g => g.rowSet (canon1 params 1 - 1)) (fun s g h l => total_rowSet h l _) s hs
        · intro s s' hs hx e
          simp only [Screen.vpa] at e
          obtain ⟨r1, _, e⟩ := bind_eq_ok.mp e
          exact screenF_modifyGrid hx (fun g' hg => sameRows_total hx.cur hg rowSet_rows) e
      · exact stepF_sgr (hemit _ (by trivial)) params
      · -- DECSTBM
        refine stepF_onScreen ?_ ?_
        · intro s hs
          have hrp := hs.cur.1.rows_pos
          obtain ⟨h1, h2⟩ := canon2_pos params 1 s.cur.size.rows (Nat.le_refl _) hrp
          simp only [Screen.decstbm, subM_ok h1, subM_ok h2, ok_bind]
          exact screen_total (f := fun s g => g.setScrollRegion ((canon2 params 1 s.cur.size.rows).1 - 1)
              ((canon2 params 1 s.cur.size.rows).2 - 1))
            (fun s g h l => total_setScrollRegion h l _ _) s hs
        · intro s s' hs hx e
          simp only [Screen.decstbm] at e
          obtain ⟨t1, _, e⟩ := bind_eq_ok.mp e
          obtain ⟨b1, _, e⟩ := bind_eq_ok.mp e
          exact screenF_modifyGrid hx (fun g' hg => gridF_setScrollRegion hx.cur _ _ hg) e
      · -- XTWINOPS
        split
        · intro ws ws' hg hx e
          refine hemit _ ?_ ws ws' hg hx e
          have hsz := hg.cur.1
          refine ⟨xtArg_le ?_ _ hsz.rows_u16, xtArg_le ?_ _ hsz.cols_u16⟩
          · intro p hp; exact ha p (List.mem_of_mem_tail hp)
          · intro p hp; exact ha p (List.mem_of_mem_tail (List.mem_of_mem_tail hp))
        · exact hemit _ trivial
      · exact hemit _ trivial
    · split
      · exact stepF_arm (hemit _ (by trivial)) (fun s => s.edMode (canon1 params 0)) (fun s hs => edMode_ok hs _)
          (fun s r hs hx e => screenF_edMode hs hx _ e)
      · exact stepF_arm (hemit _ (by trivial)) (fun s => s.elMode (canon1 params 0)) (fun s hs => elMode_ok hs _)
          (fun s r hs hx e => screenF_elMode hs hx _ e)
      · exact stepF_fold _ (fun p => stepF_arm (hemit _ (by trivial)) (fun s => s.decsetOne p) (fun s hs => decsetOne_ok hs p)
          (fun s r hs hx e => screenF_decsetOne hx p e)) params
      · exact stepF_fold _ (fun p => stepF_arm (hemit _ (by trivial)) (fun s => s.decrstOne p) (fun s hs => decrstOne_ok hs p)
          (fun s r hs hx e => screenF_decrstOne hx p e)) params
      · exact hemit _ trivial
    · exact hemit _ trivial

/-! ### `process`, the API, reachable screens -/

theorem f_actions (hW32 : W 32 = some 1) {cb : CbPolicy} (hcb : CbInv W cb) (hcx : CbF W cb) :
    ∀ (acts : List Action) (ws ws' : WS), Good W ws → GoodF ws → (∀ a ∈ acts, ActionOk a) →
      acts.foldlM (perform W cb) ws = .ok ws' → Good W ws' ∧ GoodF ws' := by
  intro acts
  induction acts with
  | nil =>
    intro ws ws' hg hx _ e
    simp only [List.foldlM_nil, pure_eq_ok, Except.ok.injEq] at e
    rw [← e]; exact ⟨hg, hx⟩
  | cons a rest ih =>
    intro ws ws' hg hx hok e
    rw [List.foldlM_cons] at e
    obtain ⟨w1, e1, e2⟩ := bind_eq_ok.mp e
    obtain ⟨g1, x1⟩ := f_perform hW32 hcb hcx a (hok a (List.mem_cons_self)) ws w1 hg hx e1
    exact ih w1 ws' g1 x1 (fun x hx => hok x (List.mem_cons_of_mem _ hx)) e2

theorem f_process (hW32 : W 32 = some 1) {cb : CbPolicy} (hcb : CbInv W cb) (hcx : CbF W cb)
    (p p' : Parser) (hp : ParserInv W p) (hx : ScreenF p.ws.screen) (bytes : List Nat) (hb : ∀ b ∈ bytes, b < 256)
    (e : p.process W cb bytes = .ok p') : ScreenF p'.ws.screen := by
  obtain ⟨_, a1⟩ := good_advance p.vte bytes hp.vte hb
  simp only [Parser.process] at e
  obtain ⟨ws', e1, e⟩ := bind_eq_ok.mp e
  simp only [pure_eq_ok, Except.ok.injEq] at e
  rw [← e]
  exact (f_actions hW32 hcb hcx _ p.ws ws' hp.screen hx a1 e1).2

theorem f_applyOp (hW32 : W 32 = some 1) {cb : CbPolicy} (hcb : CbInv W cb) (hcx : CbF W cb)
    (p p' : Parser) (hp : ParserInv W p) (hx : ScreenF p.ws.screen) (op : Op) (hv : op.Valid)
    (e : applyOp W cb p op = .ok p') : ScreenF p'.ws.screen := by
  cases op with
  | process bytes => exact f_process hW32 hcb hcx p p' hp hx bytes hv e
  | setSize r c =>
    simp only [applyOp] at e
    obtain ⟨s, hs, e⟩ := bind_eq_ok.mp e
    simp only [pure_eq_ok, Except.ok.injEq] at e
    rw [← e]
    exact screenF_setSize hx r c hs
  | setScrollback k =>
    simp only [applyOp] at e
    obtain ⟨s, hs, e⟩ := bind_eq_ok.mp e
    simp only [pure_eq_ok, Except.ok.injEq] at e
    rw [← e]
    exact screenF_modifyGrid hx (fun g' hg => by
      simp only [pure_eq_ok, Except.ok.injEq] at hg
      rw [← hg]; exact gridF_same hx.cur rfl rfl) hs

/-- **every reachable screen satisfies `Inv` and the per-cell conditions**: every history of
`process` / `set_size` / `set_scrollback` calls from `Parser::new`, any bytes, any chunking -/
theorem reachable_f (hW32 : W 32 = some 1) {cb : CbPolicy} (hcb : CbInv W cb) (hcx : CbF W cb)
    (rows cols sb : Nat) (hr : 1 ≤ rows) (hc : 1 ≤ cols) (hr' : rows ≤ 65535) (hc' : cols ≤ 65535)
    (ops : List Op) (hv : ∀ op ∈ ops, op.Valid) :
    ∃ p, (Parser.new rows cols sb >>= fun p0 => ops.foldlM (applyOp W cb) p0) = .ok p ∧ ParserInv W p ∧
      ScreenF p.ws.screen := by
  obtain ⟨p0, e0, i0⟩ := new_parserInv (W := W) rows cols sb hr hc hr' hc'
  have x0 : ScreenF p0.ws.screen := by
    simp only [Parser.new] at e0
    obtain ⟨s, hs, e0⟩ := bind_eq_ok.mp e0
    simp only [pure_eq_ok, Except.ok.injEq] at e0
    rw [← e0]
    exact screenF_new hs
  rw [e0]
  simp only [ok_bind]
  clear e0
  induction ops generalizing p0 with
  | nil => exact ⟨p0, rfl, i0, x0⟩
  | cons op rest ih =>
    obtain ⟨p1, e1, i1⟩ := applyOp_total hW32 hcb p0 i0 op (hv op (List.mem_cons_self))
    have x1 := f_applyOp hW32 hcb hcx p0 p1 i0 x0 op (hv op (List.mem_cons_self)) e1
    obtain ⟨p2, e2, i2, x2⟩ := ih (fun o ho => hv o (List.mem_cons_of_mem _ ho)) p1 i1 x1
    exact ⟨p2, by simp [List.foldlM, e1, e2], i2, x2⟩

end Vt.InvF
