/-
  C07 (continued) — erasing a column range of a line: the exact result.

  `eraseRange cs lo hi a` is the pointwise closed form of `for col in lo..hi { row.erase(col, a) }`:
    * every cell in `[lo, hi)` becomes a blank with the pen's attributes,
    * the first half of a wide character whose second half is the first erased cell (column `lo-1`)
      and the second half of a wide character whose first half is the last erased cell (column `hi`)
      are blanked too, keeping their own attributes,
    * every other cell is untouched.
  `erase_range_eq` proves the loop equals this closed form on every well-formed row, for all
  `lo ≤ hi ≤ cols`; `ech_eq`, `el0_eq`, `el1_eq` instantiate it for ECH n, EL 0 and EL 1, including
  the wrap flag (cleared exactly when the last column is blanked) and the frame (nothing else in
  the grid changes).
-/
import Vt.Lemmas.GridInv
namespace Vt.C07
open Vt
set_option linter.unusedSimpArgs false

variable {W : Nat → Option Nat}

/-- the cell at column `j` after erasing `[lo, hi)` with pen attributes `a` -/
def rangeCell (lo hi : Nat) (a : Attrs) (j : Nat) (c : Cell) : Cell :=
  if lo ≤ j ∧ j < hi then c.clear a
  else if j + 1 = lo ∧ lo < hi ∧ c.wide = true then c.clear c.attrs
  else if j = hi ∧ lo < hi ∧ c.cont = true then c.clear c.attrs
  else c

def eraseRange (cs : List Cell) (lo hi : Nat) (a : Attrs) : List Cell := cs.mapIdx (rangeCell lo hi a)

theorem eraseRange_empty (cs : List Cell) (lo : Nat) (a : Attrs) : eraseRange cs lo lo a = cs := by
  unfold eraseRange
  apply List.ext_getElem?
  intro j
  simp only [List.getElem?_mapIdx]
  cases cs[j]? with
  | none => rfl
  | some c =>
    simp only [Option.map_some, rangeCell, Nat.lt_irrefl, false_and, and_false, ↓reduceIte]
    split
    · omega
    · rfl

theorem clear_clear (c : Cell) (a b : Attrs) : (c.clear a).clear b = c.clear b := rfl

/-- what `Row::erase(i)` does to the cell at column `j`, `ci` being the cell at `i` -/
def stepCell (i : Nat) (ci : Cell) (a : Attrs) (j : Nat) (x : Cell) : Cell :=
  if j = i then x.clear a
  else if j = i + 1 ∧ ci.wide = true then x.clear x.attrs
  else if j + 1 = i ∧ ci.wide = false ∧ ci.cont = true then x.clear x.attrs
  else x

/-- `eraseCells` pointwise -/
theorem eraseCells_getElem? {cs : List Cell} (hinv : CellsInv W cs) {i : Nat} {ci : Cell} (hc : cs[i]? = some ci)
    (a : Attrs) (j : Nat) : (eraseCells cs i a)[j]? = cs[j]?.map (stepCell i ci a j) := by
  have hi := getElem?_lt hc
  have get_of : ∀ {k : Nat} {x : Cell} (h : cs[k]? = some x) (hk : k < cs.length), cs[k] = x := by
    intro k x h hk; rw [List.getElem?_eq_getElem hk] at h; exact Option.some.inj h
  unfold eraseCells
  simp only [hc]
  by_cases hw : ci.wide = true
  · obtain ⟨d, hd, _⟩ := paired_wide_next hc hinv.paired hw
    have hi1 := getElem?_lt hd
    simp only [hw, ↓reduceIte, hd, List.getElem?_set, List.length_set]
    by_cases h1 : i = j
    · subst h1; simp [hi, hc, stepCell, get_of hc hi]
    · by_cases h2 : i + 1 = j
      · subst h2; simp [hi1, hd, stepCell, hw, get_of hd hi1]
      · simp only [h1, h2, ↓reduceIte]
        cases cs[j]? with
        | none => rfl
        | some x => simp [stepCell, show ¬ j = i by omega, show ¬ j = i + 1 by omega, hw]
  · have hw' : ci.wide = false := by simpa using hw
    by_cases hcc : ci.cont = true
    · obtain ⟨i0, p, rfl, hp, _⟩ := paired_cont_prev hc hinv.paired hcc
      have hi0 := getElem?_lt hp
      simp only [hw', Bool.false_eq_true, ↓reduceIte, hcc, Nat.add_sub_cancel, hp, List.getElem?_set, List.length_set]
      by_cases h1 : i0 + 1 = j
      · subst h1; simp [hi, hc, stepCell, get_of hc hi]
      · by_cases h2 : i0 = j
        · subst h2; simp [hi0, hp, stepCell, hw', hcc, get_of hp hi0]
        · simp only [h1, h2, ↓reduceIte]
          cases cs[j]? with
          | none => rfl
          | some x => simp [stepCell, show ¬ j = i0 + 1 by omega, show ¬ j = i0 by omega, hw']
    · have hcc' : ci.cont = false := by simpa using hcc
      simp only [hw', hcc', Bool.false_eq_true, ↓reduceIte, List.getElem?_set]
      by_cases h1 : i = j
      · subst h1; simp [hi, hc, stepCell, get_of hc hi]
      · simp only [h1, ↓reduceIte]
        cases cs[j]? with
        | none => rfl
        | some x => simp [stepCell, show ¬ j = i by omega, hw', hcc']

theorem paired_adjacent {cs : List Cell} {i : Nat} {c d : Cell} (hp : pairThrough false cs = some false)
    (hc : cs[i]? = some c) (hd : cs[i + 1]? = some d) : d.cont = c.wide := by
  obtain ⟨_, _, _, e3⟩ := pairThrough_split hc hp
  have hdrop : cs.drop (i + 1) = d :: cs.drop (i + 2) := by
    have := list_split' hd
    conv => lhs; rw [this]
    rw [List.drop_append_of_le_length (by simp [List.length_take]; have := getElem?_lt hd; omega)]
    simp [List.length_take, show min (i + 1) cs.length = i + 1 from by have := getElem?_lt hd; omega]
  rw [hdrop] at e3
  simp only [pairThrough] at e3
  by_cases h : d.cont = c.wide
  · exact h
  · have : (d.cont == c.wide) = false := by simpa using h
    simp [this] at e3

/-- the arithmetic heart of the induction: erasing column `k` of a row already erased on `[lo, k)` -/
theorem cell_step (lo k j : Nat) (a : Attrs) (ck x : Cell) (hlo : lo ≤ k)
    (h0 : j = k → x = ck) (h1 : j = k + 1 → x.cont = ck.wide) (h2 : j + 1 = k → ck.cont = x.wide)
    (h3 : ck.wide = true → ck.cont = false) :
    stepCell k (rangeCell lo k a k ck) a j (rangeCell lo k a j x) = rangeCell lo (k + 1) a j x := by
  have hek : rangeCell lo k a k ck = if lo < k ∧ ck.cont = true then ck.clear ck.attrs else ck := by
    simp only [rangeCell, show ¬ (lo ≤ k ∧ k < k) by omega, ↓reduceIte, show ¬ (k + 1 = lo ∧ lo < k ∧ ck.wide = true) by omega,
      true_and]
  rw [hek]
  by_cases e0 : j = k
  · subst e0
    have := h0 rfl; subst this
    have hA : ¬ (lo ≤ j ∧ j < j) := by omega
    have hB : ¬ (j + 1 = lo ∧ lo < j ∧ x.wide = true) := by omega
    have hC : lo ≤ j ∧ j < j + 1 := by omega
    simp only [stepCell, ↓reduceIte, rangeCell, hA, hB, hC, true_and]
    repeat' split
    all_goals rfl
  · by_cases e1 : j = k + 1
    · subst e1
      have hxc := h1 rfl
      have hA : ¬ (lo ≤ k + 1 ∧ k + 1 < k) := by omega
      have hB : ¬ (k + 1 + 1 = lo ∧ lo < k ∧ x.wide = true) := by omega
      have hC : ¬ (k + 1 = k ∧ lo < k ∧ x.cont = true) := by omega
      have hD : ¬ (lo ≤ k + 1 ∧ k + 1 < k + 1) := by omega
      have hE : ¬ (k + 1 + 1 = lo ∧ lo < k + 1 ∧ x.wide = true) := by omega
      have hF : lo < k + 1 := by omega
      simp only [stepCell, e0, ↓reduceIte, true_and, rangeCell, hA, hB, hC, hD, hE, hF, hxc]
      by_cases hw : ck.wide = true
      · have hcc := h3 hw
        simp [hw, hcc]
      · have hw' : ck.wide = false := by simpa using hw
        simp only [hw', Bool.false_eq_true, and_false, ↓reduceIte]
        repeat' split
        all_goals first | rfl | omega | (simp_all [Cell.clear]; done)
    · by_cases e2 : j + 1 = k
      · have hcx := h2 e2
        subst e2
        have e1' : ¬ j = j + 1 + 1 := by omega
        have e0' : ¬ j = j + 1 := by omega
        simp only [stepCell, e0', e1', ↓reduceIte, false_and, true_and]
        by_cases hlt : lo < j + 1
        · -- the predecessor is already blank
          have hin : lo ≤ j ∧ j < j + 1 := by omega
          have hin' : lo ≤ j ∧ j < j + 1 + 1 := by omega
          simp only [rangeCell, hin, hin', ↓reduceIte]
          by_cases hc : ck.cont = true
          · simp [hlt, hc, Cell.clear]
          · simp [hc]
        · have hle : lo = j + 1 := by omega
          subst hle
          have hA : ¬ (j + 1 ≤ j ∧ j < j + 1) := by omega
          have hB : ¬ (j + 1 ≤ j ∧ j < j + 1 + 1) := by omega
          have hC : j + 1 < j + 1 + 1 := by omega
          simp only [rangeCell, hA, hB, hC, Nat.lt_irrefl, false_and, and_false, ↓reduceIte, e0', e1', true_and, hcx]
          by_cases hxw : x.wide = true
          · have : ck.wide = false := by
              by_cases h : ck.wide = true
              · have := h3 h; rw [hcx, hxw] at this; simp at this
              · simpa using h
            simp [hxw, this]
          · simp [hxw]
      · -- far from k
        simp only [stepCell, e0, e1, e2, ↓reduceIte, false_and]
        simp only [rangeCell]
        by_cases hin : lo ≤ j ∧ j < k
        · have hin' : lo ≤ j ∧ j < k + 1 := by omega
          rw [if_pos hin, if_pos hin']
        · have hin' : ¬ (lo ≤ j ∧ j < k + 1) := by omega
          rw [if_neg hin, if_neg hin']
          simp only [e0, e1, false_and, ↓reduceIte]
          by_cases hb : j + 1 = lo
          · have hlk : lo < k := by omega
            have hlk' : lo < k + 1 := by omega
            simp only [hb, hlk, hlk', true_and]
          · simp only [hb, false_and, ↓reduceIte]

theorem eraseRange_length (cs : List Cell) (lo hi : Nat) (a : Attrs) : (eraseRange cs lo hi a).length = cs.length := by
  simp [eraseRange]

/-- one more column -/
theorem eraseCells_step {cs : List Cell} (hinv : CellsInv W cs) (lo k : Nat) (a : Attrs) (hlo : lo ≤ k)
    (hk : k < cs.length) (hE : CellsInv W (eraseRange cs lo k a)) :
    eraseCells (eraseRange cs lo k a) k a = eraseRange cs lo (k + 1) a := by
  have hck : cs[k]? = some cs[k] := List.getElem?_eq_getElem hk
  have hcok := hinv.cells_ok _ (List.getElem_mem hk)
  have hEk : (eraseRange cs lo k a)[k]? = some (rangeCell lo k a k cs[k]) := by
    simp [eraseRange, List.getElem?_mapIdx, hck]
  apply List.ext_getElem?
  intro j
  rw [eraseCells_getElem? hE hEk a j]
  simp only [eraseRange, List.getElem?_mapIdx]
  cases hx : cs[j]? with
  | none => rfl
  | some x =>
    simp only [Option.map_some, Option.some.injEq]
    apply cell_step lo k j a cs[k] x hlo
    · intro h; subst h; rw [hck] at hx; exact (Option.some.inj hx).symm
    · intro h; subst h; exact paired_adjacent hinv.paired hck hx
    · intro h; subst h; exact paired_adjacent hinv.paired hx hck
    · intro hw
      by_cases h : cs[k].cont = true
      · have := (cellOk_cont W _ hcok h).1; simp [hw] at this
      · simpa using h

/-- has the loop blanked the final column? (`k` = columns erased so far are `[lo, k)`) -/
def flagCleared (cs : List Cell) (lo k : Nat) : Bool :=
  decide (lo < k) && (k == cs.length || (k + 1 == cs.length && ((cs[k - 1]?).map (·.wide)).getD false))

/-- the row after erasing `[lo, k)` -/
def erasedRow (cs : List Cell) (w : Bool) (lo k : Nat) (a : Attrs) : Row :=
  ⟨eraseRange cs lo k a, if flagCleared cs lo k then false else w⟩

/-- **C07** the erase loop over `[lo, hi)` equals the closed form, on every well-formed row -/
theorem erase_range_eq (cs : List Cell) (w : Bool) (hinv : CellsInv W cs) (lo : Nat) (a : Attrs) :
    ∀ (n : Nat), lo + n ≤ cs.length →
      forRange lo (lo + n) (fun col (r : Row) => r.erase col a) { cells := cs, wrapped := w } =
        .ok (erasedRow cs w lo (lo + n) a) ∧
      CellsInv W (eraseRange cs lo (lo + n) a)
  | 0, _ => by
    simp [forRange, erasedRow, eraseRange_empty, flagCleared, hinv]
  | n + 1, h => by
    obtain ⟨ih, hE⟩ := erase_range_eq cs w hinv lo a n (by omega)
    have hk : lo + n < cs.length := by omega
    have hstep := eraseCells_step hinv lo (lo + n) a (by omega) hk hE
    have hEk : (eraseRange cs lo (lo + n) a)[lo + n]? = some (rangeCell lo (lo + n) a (lo + n) cs[lo + n]) := by
      simp [eraseRange, List.getElem?_mapIdx, List.getElem?_eq_getElem hk]
    have he := erase_eq W (r := erasedRow cs w lo (lo + n) a) (i := lo + n) (a := a) hE hEk
    refine ⟨?_, ?_⟩
    · unfold forRange at ih ⊢
      rw [show lo + (n + 1) - lo = n + 1 by omega, List.range'_concat, List.foldlM_append]
      rw [show lo + n - lo = n by omega] at ih
      rw [ih]
      simp only [ok_bind, List.foldlM_cons, List.foldlM_nil, Nat.one_mul]
      rw [he]
      simp only [erasedRow, hstep, eraseRange_length, ok_bind, pure_eq_ok, Except.ok.injEq, Row.mk.injEq, true_and,
        show lo + (n + 1) = lo + n + 1 by omega]
      -- the wrap flag
      have hwide : (rangeCell lo (lo + n) a (lo + n) cs[lo + n]).wide = cs[lo + n].wide := by
        simp only [rangeCell, show ¬ (lo ≤ lo + n ∧ lo + n < lo + n) by omega, ↓reduceIte,
          show ¬ (lo + n + 1 = lo ∧ lo < lo + n ∧ cs[lo + n].wide = true) by omega, true_and]
        split
        · rename_i hc
          have := (cellOk_cont W _ (hinv.cells_ok _ (List.getElem_mem hk)) hc.2).1
          simp [Cell.clear, this]
        · rfl
      rw [hwide]
      simp only [flagCleared, Nat.add_sub_cancel, List.getElem?_eq_getElem hk, Option.map_some, Option.getD_some]
      by_cases hw : cs[lo + n].wide = true
      · simp only [hw, ↓reduceIte]
        by_cases h2 : lo + n = cs.length - 2
        · simp [h2]; omega
        · have hne : lo + n + 1 ≠ cs.length := by
            -- a wide cell is never the last one
            obtain ⟨d, hd, _⟩ := paired_wide_next (List.getElem?_eq_getElem hk) hinv.paired hw
            have := getElem?_lt hd; omega
          have f1 : ¬ lo + n = cs.length := by omega
          have f2 : ¬ lo + n + 1 + 1 = cs.length := by omega
          simp [h2, hne, f1, f2]
      · have hw' : cs[lo + n].wide = false := by simpa using hw
        simp only [hw', Bool.false_eq_true, ↓reduceIte]
        by_cases h1 : lo + n = cs.length - 1
        · simp [h1]; omega
        · have f1 : ¬ lo + n = cs.length := by omega
          have f3 : ¬ lo + n + 1 = cs.length := by omega
          simp [h1, f1, f3]
    · rw [show lo + (n + 1) = lo + n + 1 by omega, ← hstep]
      exact eraseCells_inv W _ a hE

/-! ### ECH, EL 0, EL 1 on the grid -/

/-- the grid with the current line erased on `[lo, hi)` -/
def erasedGrid (g : Grid) (r : Row) (lo hi : Nat) (a : Attrs) : Grid :=
  { g with rows := g.rows.set g.pos.row (erasedRow r.cells r.wrapped lo hi a) }

theorem modifyCurrentRow_eq (g : Grid) (f : Row → M Row) {r r' : Row} (hr : g.rows[g.pos.row]? = some r)
    (hf : f r = .ok r') : g.modifyCurrentRow f = .ok { g with rows := g.rows.set g.pos.row r' } := by
  simp [Grid.modifyCurrentRow, modifyM, hr, hf]

/-- erasing `[lo, hi)` of the current line, `lo ≤ hi ≤ cols`: the line becomes `erasedRow`, every other
line, the cursor, the region, the scrollback — the rest of the grid record — is untouched -/
theorem erase_line_range {g : Grid} {r : Row} (hr : g.rows[g.pos.row]? = some r) (hinv : CellsInv W r.cells)
    (lo hi : Nat) (hlo : lo ≤ hi) (hhi : hi ≤ r.cells.length) (a : Attrs) :
    g.modifyCurrentRow (fun row => forRange lo hi (fun col r => r.erase col a) row) =
      .ok (erasedGrid g r lo hi a) := by
  obtain ⟨e, _⟩ := erase_range_eq r.cells r.wrapped hinv lo a (hi - lo) (by omega)
  rw [show lo + (hi - lo) = hi by omega] at e
  exact modifyCurrentRow_eq g _ hr e

/-- what the theorems below need of the grid: the cursor line exists, is well formed, and is `cols` wide -/
structure CurLine (W : Nat → Option Nat) (g : Grid) (r : Row) : Prop where
  here : g.rows[g.pos.row]? = some r
  inv : CellsInv W r.cells
  width : r.cells.length = g.size.cols
  col : g.pos.col ≤ g.size.cols
  cols_pos : 1 ≤ g.size.cols
  cols_u16 : g.size.cols ≤ 65535

theorem curLine_of_inv {g : Grid} (h : GridInv W g true) (hl : g.rows.length = g.size.rows) :
    ∃ r, CurLine W g r := by
  have hlt : g.pos.row < g.rows.length := by rw [hl]; exact h.pos_row
  have hrow := h.row_ok _ (List.getElem_mem hlt)
  exact ⟨g.rows[g.pos.row], List.getElem?_eq_getElem hlt, ((rowOk_iff W _).mp hrow.2).2, hrow.1, h.pos_col, h.cols_pos, h.cols_u16⟩

/-- **C07** EL 0: cursor to end of line -/
theorem el0_eq {g : Grid} {r : Row} (h : CurLine W g r) (a : Attrs) :
    g.eraseRowForward a = .ok (erasedGrid g r g.pos.col g.size.cols a) :=
  erase_line_range h.here h.inv _ _ h.col (by rw [h.width]; exact Nat.le_refl _) a

/-- **C07** EL 1: start of line to the cursor inclusive (the pending-wrap position counts as the last
column) -/
theorem el1_eq {g : Grid} {r : Row} (h : CurLine W g r) (a : Attrs) :
    g.eraseRowBackward a = .ok (erasedGrid g r 0 (min g.pos.col (g.size.cols - 1) + 1) a) := by
  unfold Grid.eraseRowBackward
  simp only [subM_ok h.cols_pos, ok_bind]
  exact erase_line_range h.here h.inv _ _ (Nat.zero_le _) (by have := h.cols_pos; rw [h.width]; omega) a

/-- **C07** ECH n: the next `n` cells, cut at the end of the line -/
theorem ech_eq {g : Grid} {r : Row} (h : CurLine W g r) (n : Nat) (a : Attrs) :
    g.eraseCells n a = .ok (erasedGrid g r g.pos.col (min (satAddU16 g.pos.col n) g.size.cols) a) := by
  unfold Grid.eraseCells
  refine erase_line_range h.here h.inv _ _ ?_ (by rw [h.width]; exact Nat.min_le_right _ _) a
  have := h.col
  have := h.cols_u16
  simp only [satAddU16, U16_MAX]
  omega

/-- reading the closed form: the cell at column `j` of the erased line -/
theorem erasedRow_cell (cs : List Cell) (w : Bool) (lo hi : Nat) (a : Attrs) (j : Nat) :
    (erasedRow cs w lo hi a).cells[j]? = cs[j]?.map (rangeCell lo hi a j) := by
  simp [erasedRow, eraseRange, List.getElem?_mapIdx]

/-- inside the range: a blank with the pen's attributes -/
theorem rangeCell_inside (lo hi : Nat) (a : Attrs) (j : Nat) (c : Cell) (h : lo ≤ j ∧ j < hi) :
    (rangeCell lo hi a j c).hasContents = false ∧ (rangeCell lo hi a j c).attrs = a ∧
    (rangeCell lo hi a j c).wide = false ∧ (rangeCell lo hi a j c).cont = false := by
  simp [rangeCell, h, Cell.clear, Cell.hasContents]

/-- away from the range and its two neighbours: untouched -/
theorem rangeCell_outside (lo hi : Nat) (a : Attrs) (j : Nat) (c : Cell) (h : j + 1 < lo ∨ hi < j) :
    rangeCell lo hi a j c = c := by
  unfold rangeCell
  rw [if_neg (by omega), if_neg (by omega), if_neg (by omega)]

/-- the two neighbours change only when a wide character is cut, and then only lose their content -/
theorem rangeCell_neighbour (lo hi : Nat) (a : Attrs) (j : Nat) (c : Cell) (hj : ¬ (lo ≤ j ∧ j < hi)) :
    rangeCell lo hi a j c = c ∨
      ((c.wide = true ∨ c.cont = true) ∧ rangeCell lo hi a j c = c.clear c.attrs) := by
  unfold rangeCell
  rw [if_neg hj]
  split
  · rename_i h1; exact Or.inr ⟨Or.inl h1.2.2, rfl⟩
  · split
    · rename_i h2; exact Or.inr ⟨Or.inr h2.2.2, rfl⟩
    · exact Or.inl rfl

/-- the lines below the cursor blanked (ED 0), resp. the lines above it (ED 1) -/
def belowCleared (g : Grid) (a : Attrs) : Grid :=
  { g with rows := g.rows.take (g.pos.row + 1) ++ (g.rows.drop (g.pos.row + 1)).map (fun (r : Row) => r.clear a) }
def aboveCleared (g : Grid) (a : Attrs) : Grid :=
  { g with rows := (g.rows.take g.pos.row).map (fun (r : Row) => r.clear a) ++ g.rows.drop g.pos.row }

/-- **C07** ED 0: the rest of the cursor line as EL 0, every line below blanked (wrap flag cleared) -/
theorem ed0_eq {g : Grid} {r : Row} (h : CurLine W g r) (a : Attrs) :
    g.eraseAllForward a = .ok (erasedGrid (belowCleared g a) r g.pos.col g.size.cols a) := by
  have hlt := getElem?_lt h.here
  have h' : CurLine W (belowCleared g a) r := by
    refine ⟨?_, h.inv, h.width, h.col, h.cols_pos, h.cols_u16⟩
    show (g.rows.take (g.pos.row + 1) ++ _)[g.pos.row]? = some r
    rw [List.getElem?_append_left (by simp [List.length_take]; omega), List.getElem?_take_of_lt (by omega)]
    exact h.here
  exact el0_eq h' a

/-- **C07** ED 1: the start of the cursor line as EL 1, every line above blanked -/
theorem ed1_eq {g : Grid} {r : Row} (h : CurLine W g r) (a : Attrs) :
    g.eraseAllBackward a = .ok (erasedGrid (aboveCleared g a) r 0 (min g.pos.col (g.size.cols - 1) + 1) a) := by
  have hlt := getElem?_lt h.here
  have h' : CurLine W (aboveCleared g a) r := by
    refine ⟨?_, h.inv, h.width, h.col, h.cols_pos, h.cols_u16⟩
    show (List.map _ (g.rows.take g.pos.row) ++ g.rows.drop g.pos.row)[g.pos.row]? = some r
    rw [List.getElem?_append_right (by simp [List.length_take]; omega)]
    simp only [List.length_map, List.length_take, Nat.min_eq_left (Nat.le_of_lt hlt), Nat.sub_self,
      List.getElem?_drop, Nat.add_zero]
    exact h.here
  exact el1_eq h' a

end Vt.C07
