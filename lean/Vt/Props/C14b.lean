/-
  C14 (continued) — `Row::write_contents` *is* the row projection.

  * `row_writeContents_eq` : for every row of valid cells, every `start`, `width` and `wrapping` flag,
    `write_contents(start, width, wrapping)` returns exactly `rowText r start width` (cells left to
    right, the second half of a wide cell skipped, blank cells before a later non-empty cell as
    spaces, trailing blanks dropped) followed by one `\n` iff `wrapping` and the window holds no text.
  * `rows_eq` : `rows(start, width)` is `rowText` of every visible row.
  * `contents_eq` : `contents()` is the concatenation over the visible rows of `rowText` over the
    full width, each followed by `\n` unless the row is wrapped (an empty row that is wrapped onto
    gets the `\n` the wrap swallowed), with the trailing newlines stripped.
-/
import Vt.Props.C14
import Vt.Props.C03b
namespace Vt.C14
open Vt Vt.C03
set_option linter.unusedSimpArgs false

/-- enumerate from `k`, column first -/
def enumFrom {α} (k : Nat) (l : List α) : List (Nat × α) := (l.zipIdx k).map (fun p => (p.2, p.1))

theorem windowFrom_eq {α} : ∀ (l : List α) (k start width : Nat),
    windowFrom l k start width = enumFrom (k + start) ((l.drop start).take width)
  | [], k, start, width => by simp [windowFrom, enumFrom]
  | x :: xs, k, start, width => by
    cases start with
    | succ st =>
      have e : windowFrom (x :: xs) k (st + 1) width = windowFrom xs (k + 1) st width := by
        simp [windowFrom, List.zipIdx_cons]
      rw [e, windowFrom_eq xs (k + 1) st width, show k + 1 + st = k + (st + 1) by omega]
      simp
    | zero =>
      cases width with
      | zero => simp [windowFrom, enumFrom]
      | succ w =>
        have e : windowFrom (x :: xs) k 0 (w + 1) = (k, x) :: windowFrom xs (k + 1) 0 w := by
          simp [windowFrom, List.zipIdx_cons]
        rw [e, windowFrom_eq xs (k + 1) 0 w]
        simp [enumFrom, List.zipIdx_cons]

/-- does the projection emit any cell? -/
def emitsAny : List Cell → Bool → Bool
  | [], _ => false
  | c :: cs, skip => if skip then emitsAny cs false else if c.hasContents then true else emitsAny cs false

theorem emitsAny_false (cs : List Cell) : emitsAny cs false = cs.any (·.hasContents) := by
  induction cs with
  | nil => rfl
  | cons c cs ih =>
    simp only [emitsAny, Bool.false_eq_true, ↓reduceIte, List.any_cons]
    cases c.hasContents <;> simp [ih]

theorem step_skip (st : Row.WcSt) (k : Nat) (c : Cell) (hw : st.prevWasWide = true) :
    Row.writeContentsStep st (k, c) = .ok { st with prevWasWide := false } := by
  simp [Row.writeContentsStep, hw]

theorem step_emit (st : Row.WcSt) (k : Nat) (c : Cell) (hw : st.prevWasWide = false) (hh : c.hasContents = true)
    (hc : CellFine c) (hp : st.prevCol ≤ k) :
    Row.writeContentsStep st (k, c) = .ok
      { prevWasWide := c.isWide, prevCol := st.prevCol + (k - st.prevCol) + (if c.isWide then 2 else 1),
        out := st.out ++ List.replicate (k - st.prevCol) 32 ++ c.contents.take c.len } := by
  simp [Row.writeContentsStep, hw, hh, subM_ok hp, contentsBytes_ok hc]

theorem step_blank (st : Row.WcSt) (k : Nat) (c : Cell) (hw : st.prevWasWide = false) (hh : c.hasContents = false) :
    Row.writeContentsStep st (k, c) = .ok { st with prevWasWide := c.isWide } := by
  simp [Row.writeContentsStep, hw, hh]

/-- the cell loop of `write_contents` computes `rowTextAux` -/
theorem fold_eq : ∀ (cs : List Cell) (k : Nat) (st : Row.WcSt),
    (∀ c ∈ cs, CellFine c ∧ (c.hasContents = false → c.isWide = false)) →
    st.prevCol ≤ k + (if st.prevWasWide then 1 else 0) →
    ∃ st', (enumFrom k cs).foldlM Row.writeContentsStep st = .ok st' ∧
      st'.out = st.out ++ rowTextAux cs st.prevWasWide (k + (if st.prevWasWide then 1 else 0) - st.prevCol) ∧
      st.prevCol ≤ st'.prevCol ∧ (st'.prevCol = st.prevCol ↔ emitsAny cs st.prevWasWide = false)
  | [], k, st, _, _ => ⟨st, rfl, by simp [rowTextAux], Nat.le_refl _, by simp [emitsAny]⟩
  | c :: cs, k, st, hf, hp => by
    have hc := (hf c (List.mem_cons_self ..)).1
    have hcs := fun c' hc' => hf c' (List.mem_cons_of_mem _ hc')
    have e : enumFrom k (c :: cs) = (k, c) :: enumFrom (k + 1) cs := by simp [enumFrom, List.zipIdx_cons]
    rw [e, List.foldlM_cons]
    by_cases hw : st.prevWasWide = true
    · rw [step_skip st k c hw]
      simp only [hw, ↓reduceIte, ok_bind] at hp ⊢
      obtain ⟨st', e', o', l', q'⟩ := fold_eq cs (k + 1) { st with prevWasWide := false } hcs (by simp; omega)
      refine ⟨st', e', ?_, l', ?_⟩
      · rw [o']; simp [rowTextAux]
      · simpa [emitsAny] using q'
    · have hw' : st.prevWasWide = false := by simpa using hw
      simp only [hw', Bool.false_eq_true, ↓reduceIte, Nat.add_zero] at hp ⊢
      by_cases hh : c.hasContents = true
      · rw [step_emit st k c hw' hh hc hp]
        simp only [ok_bind]
        obtain ⟨st', e', o', l', _⟩ := fold_eq cs (k + 1)
          { prevWasWide := c.isWide, prevCol := st.prevCol + (k - st.prevCol) + (if c.isWide then 2 else 1),
            out := st.out ++ List.replicate (k - st.prevCol) 32 ++ c.contents.take c.len } hcs
          (by dsimp only; split <;> omega)
        refine ⟨st', e', ?_, ?_, ?_⟩
        · rw [o']
          simp only [rowTextAux, Bool.false_eq_true, ↓reduceIte, hh, List.append_assoc]
          have : k + 1 + (if c.isWide = true then 1 else 0) -
              (st.prevCol + (k - st.prevCol) + if c.isWide = true then 2 else 1) = 0 := by split <;> omega
          rw [this]
        · dsimp only at l'; split at l' <;> omega
        · simp only [emitsAny, Bool.false_eq_true, ↓reduceIte, hh]
          dsimp only at l'
          constructor
          · intro h; split at l' <;> omega
          · intro h; simp at h
      · have hh' : c.hasContents = false := by simpa using hh
        have hwd' : c.isWide = false := (hf c (List.mem_cons_self ..)).2 hh'
        rw [step_blank st k c hw' hh']
        simp only [ok_bind]
        obtain ⟨st', e', o', l', q'⟩ := fold_eq cs (k + 1) { st with prevWasWide := c.isWide } hcs
          (by dsimp only; split <;> omega)
        refine ⟨st', e', ?_, l', ?_⟩
        · rw [o']
          simp only [rowTextAux, Bool.false_eq_true, ↓reduceIte, hh', hwd']
          congr 2
          omega
        · simpa [emitsAny, hh', hwd'] using q'

/-- what the plain-text emitters need of a row's cells (both follow from `cellOk`) -/
def RowTidy (r : Row) : Prop := ∀ c ∈ r.cells, CellFine c ∧ (c.hasContents = false → c.isWide = false)

theorem rowTidy_of_ok {W : Nat → Option Nat} {r : Row} (h : rowOk W r = true) : RowTidy r := by
  intro c hc
  have hok := ((rowOk_iff W r).mp h).2.cells_ok c hc
  refine ⟨cellFine_of_ok hok, ?_⟩
  intro hh
  have hlen : c.len = 0 := by simpa [Cell.hasContents] using hh
  simp only [cellOk, Bool.and_eq_true, hlen, List.take_zero] at hok
  have := hok.2.2
  simpa [Utf8.fromUtf8, Cell.isWide] using this

/-- the window of `r` holds no text -/
def blankWindow (r : Row) (start width : Nat) : Bool := !((r.cells.drop start).take width).any (·.hasContents)

/-- **C14** `Row::write_contents(start, width, wrapping)` is the row projection, plus the newline a wrap
onto an empty row swallowed -/
theorem row_writeContents_eq (r : Row) (hr : RowTidy r) (start width : Nat) (w : Bool) :
    r.writeContents start width w =
      .ok (rowText r start width ++ if w && blankWindow r start width then [10] else []) := by
  unfold Row.writeContents
  rw [window_eq, windowFrom_eq]
  obtain ⟨st', e, o, _, q⟩ := fold_eq ((r.cells.drop start).take width) (0 + start)
    { prevWasWide := false, prevCol := start, out := [] }
    (fun c hc => hr c (List.mem_of_mem_drop (List.mem_of_mem_take hc))) (by simp)
  rw [e]
  simp only [ok_bind, pure_eq_ok, Except.ok.injEq]
  simp only [Bool.false_eq_true, ↓reduceIte, Nat.add_zero, Nat.zero_add, Nat.sub_self, List.nil_append,
    emitsAny_false] at o q
  rw [o]
  unfold rowText blankWindow
  by_cases hb : ((r.cells.drop start).take width).any (·.hasContents) = true
  · have : ¬ st'.prevCol = start := fun h => by rw [q.mp h] at hb; exact absurd hb (by simp)
    simp [hb, this]
  · have hb' : ((r.cells.drop start).take width).any (·.hasContents) = false := by simpa using hb
    have : st'.prevCol = start := q.mpr hb'
    simp only [this, beq_self_eq_true, Bool.true_and, hb', Bool.not_false, Bool.and_true]
    cases w <;> simp

theorem mapM_eq_map {α β} (f : α → M β) (g : α → β) : ∀ (l : List α), (∀ x ∈ l, f x = .ok (g x)) →
    l.mapM f = .ok (l.map g)
  | [], _ => rfl
  | x :: xs, h => by
    simp [List.mapM_cons, h x (List.mem_cons_self ..),
      mapM_eq_map f g xs (fun z hz => h z (List.mem_cons_of_mem _ hz)), pure, Except.pure, bind, Except.bind]

/-- **C14** `rows(start, width)` is the projection of every visible row onto `[start, start+width)` -/
theorem rows_eq {W : Nat → Option Nat} {s : Screen} (h : Inv W s) (start width : Nat) :
    ∃ v, s.cur.visibleRows = .ok v ∧ s.rows start width = .ok (v.map (fun r => rowText r start width)) := by
  obtain ⟨v, e, hv⟩ := visibleRows_good (live_cur h).inv
  refine ⟨v, e, ?_⟩
  simp only [Screen.rows, e, ok_bind]
  apply mapM_eq_map
  intro r hr
  rw [row_writeContents_eq r (rowTidy_of_ok (hv r hr)) start width false]
  simp

/-- the text `contents()` assembles before stripping: each row's projection, a newline after every
row that is not wrapped, and, for an empty row that the previous row wrapped onto, the newline that the
wrap swallowed -/
def contentsSpec (cols : Nat) : List Row → Bool → List Nat
  | [], _ => []
  | r :: rs, w =>
    rowText r 0 cols ++ (if w && blankWindow r 0 cols then [10] else []) ++ (if !r.wrapped then [10] else [])
      ++ contentsSpec cols rs r.wrapped

theorem writeContentsLoop_eq (cols : Nat) : ∀ (rs : List Row) (w : Bool) (out : List Nat),
    (∀ r ∈ rs, RowTidy r) → Grid.writeContentsLoop cols rs w out = .ok (out ++ contentsSpec cols rs w)
  | [], _, out, _ => by simp [Grid.writeContentsLoop, contentsSpec]
  | r :: rs, w, out, h => by
    simp only [Grid.writeContentsLoop, row_writeContents_eq r (h r (List.mem_cons_self ..)) 0 cols w, ok_bind]
    rw [writeContentsLoop_eq cols rs r.wrapped _ (fun r' hr' => h r' (List.mem_cons_of_mem _ hr'))]
    simp [contentsSpec, List.append_assoc]

/-- **C14** `contents()` is `contentsSpec` of the visible rows with the trailing newlines stripped -/
theorem contents_eq {W : Nat → Option Nat} {s : Screen} (h : Inv W s) :
    ∃ v, s.cur.visibleRows = .ok v ∧
      s.contents = .ok (Grid.stripTrailingNewlines (contentsSpec s.cur.size.cols v false)) := by
  obtain ⟨v, e, hv⟩ := visibleRows_good (live_cur h).inv
  refine ⟨v, e, ?_⟩
  simp only [Screen.contents, Grid.writeContents, e, ok_bind,
    writeContentsLoop_eq s.cur.size.cols v false [] (fun r hr => rowTidy_of_ok (hv r hr)), List.nil_append]
  rfl

/-- multi-row `contents_between`: the first row from `c1`, whole rows in between, the last row up to
`c2`; a newline after every row but the last unless it is wrapped -/
def betweenSpec (cols sr sc er ec : Nat) : List (Nat × Row) → List Nat
  | [] => []
  | (i, row) :: rest =>
    (if i == sr then rowText row sc (cols - sc) ++ (if !row.wrapped then [10] else [])
     else if i == er then rowText row 0 ec
     else rowText row 0 cols ++ (if !row.wrapped then [10] else []))
    ++ betweenSpec cols sr sc er ec rest

theorem contentsBetweenLoop_eq (cols sr sc er ec : Nat) : ∀ (l : List (Nat × Row)) (out : List Nat),
    (∀ p ∈ l, RowTidy p.2) →
    Screen.contentsBetweenLoop cols sr sc er ec l out = .ok (out ++ betweenSpec cols sr sc er ec l)
  | [], out, _ => by simp [Screen.contentsBetweenLoop, betweenSpec]
  | (i, row) :: rest, out, h => by
    have ht := h (i, row) (List.mem_cons_self ..)
    have hrest := fun p hp => h p (List.mem_cons_of_mem _ hp)
    unfold Screen.contentsBetweenLoop
    simp only [row_writeContents_eq row ht, Bool.false_and, Bool.false_eq_true, ↓reduceIte, List.append_nil]
    by_cases h1 : (i == sr) = true
    · simp only [h1, ↓reduceIte, ok_bind, pure_bind']
      rw [contentsBetweenLoop_eq cols sr sc er ec rest _ hrest]
      simp [betweenSpec, h1, List.append_assoc]
    · by_cases h2 : (i == er) = true
      · simp only [h1, h2, Bool.false_eq_true, ↓reduceIte, ok_bind, pure_bind']
        rw [contentsBetweenLoop_eq cols sr sc er ec rest _ hrest]
        simp [betweenSpec, h1, h2, List.append_assoc]
      · simp only [h1, h2, Bool.false_eq_true, ↓reduceIte, ok_bind, pure_bind']
        rw [contentsBetweenLoop_eq cols sr sc er ec rest _ hrest]
        simp [betweenSpec, h1, h2, List.append_assoc]

/-- **C14** `contents_between(r1, c1, r2, c2)` with `r1 < r2` is `betweenSpec` of the visible rows
`r1 ..= r2` -/
theorem contents_between_eq {W : Nat → Option Nat} {s : Screen} (h : Inv W s) (sr sc er ec : Nat) (hlt : sr < er) :
    ∃ v, s.cur.visibleRows = .ok v ∧
      s.contentsBetween sr sc er ec =
        .ok (betweenSpec s.size.cols sr sc er ec (Row.window v sr (er - sr + 1))) := by
  obtain ⟨v, e, hv⟩ := visibleRows_good (live_cur h).inv
  refine ⟨v, e, ?_⟩
  simp only [Screen.contentsBetween, hlt, ↓reduceIte, e, ok_bind]
  rw [contentsBetweenLoop_eq]
  · simp
  · intro p hp
    exact rowTidy_of_ok (hv _ (contents_between_total.mem_window' hp))

end Vt.C14
