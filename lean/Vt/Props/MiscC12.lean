import Vt.Props.C12c
/-
  MiscC12 — C12, "while k > 0, new output keeps the same lines in view" (`view_stable`).

  The header of Vt/Props/C12.lean cites a `view_stable` that was never stated: only the offset
  arithmetic of a scroll step was proved.  Here the statement about the VIEW (`Grid::visible_rows`,
  what `contents*`, `rows*`, `cell` read) is proved, for one scroll step and for `scroll_up(n)`.

  Setting: a grid with a full-screen scroll region, capacity `N > 0`, history of `L ≤ N` lines, the
  view scrolled back by `0 < k ≤ L`, `R` live rows; `n ≤ R` lines scroll off the top.

  * `visibleRows_window` : the view is the first `R` lines of
        (last `k` history lines) ++ (live rows)
  * `view_after_scrollUp` (general closed form): after `scroll_up(n)` the view is the first `R` lines
    of that same sequence (followed by the `n` fresh blank lines), moved down by `(k + n) - N` lines
    (truncated subtraction).
  * `view_stable_scrollUp` : if `k + n ≤ N` the view is UNCHANGED — the whole view, not only its
    history part: all `R` lines.  `view_stable` is the one-step case: `k < N`.
    The exact condition is on the OFFSET, not on the history length: a full history (`L = N`) evicts
    its oldest line at every step, but that line is in view only if `k = L = N`.
  * `view_moves_at_capacity` (boundary case, `k = N`, hence `L = N`): the oldest line is dropped, the
    offset stays `N`, and the view moves by exactly one line: the old view is lines `0 .. R-1` of
    `history ++ live rows ++ [blank]`, the new view is lines `1 .. R` of it.
  * `view_follows_at_offset_zero` : for contrast, at `k = 0` the view is the live rows, and moves.
  * `scrollUp_min` : `scroll_up(n) = scroll_up(min n (rows - scroll_top))` (what the Rust loop bound
    `count.min(self.size.rows - self.scroll_top)` says), so the `n ≤ R` hypothesis loses nothing
    for a full-screen region.
-/
namespace Vt.MiscC12
open Vt Vt.C12
set_option linter.unusedSimpArgs false
set_option linter.unusedVariables false

/-! ## pure list facts -/

/-- the view as one window: first `R` lines of (last `k` history lines ++ live rows) -/
theorem window_eq {α} (sb rows : List α) (k : Nat) (hk : k ≤ sb.length) :
    ((sb.drop (sb.length - k)).take rows.length) ++ rows.take (rows.length - k)
      = ((sb.drop (sb.length - k)) ++ rows).take rows.length := by
  rw [List.take_append]
  simp only [List.length_drop]
  have : sb.length - (sb.length - k) = k := by omega
  rw [this]

/-- the view after `n` recorded lines, as a window of the same sequence -/
theorem window_after {α} (sb rows : List α) (blank : α) (N k n : Nat)
    (hk : k ≤ sb.length) (hL : sb.length ≤ N) (hn : n ≤ rows.length) :
    (((lastN N (sb ++ rows.take n)).drop
        ((lastN N (sb ++ rows.take n)).length - min N (k + n))).take rows.length)
      ++ (rows.drop n ++ List.replicate n blank).take (rows.length - min N (k + n))
    = ((((sb.drop (sb.length - k)) ++ rows ++ List.replicate n blank).drop (k + n - N)).take
        rows.length) := by
  have hlt : (rows.take n).length = n := by simp [List.length_take]; omega
  have hA : (sb.drop (sb.length - k) ++ rows.take n).length = k + n := by
    simp only [List.length_append, List.length_drop, hlt]; omega
  -- the history part of the new view
  have e1 : (lastN N (sb ++ rows.take n)).drop
        ((lastN N (sb ++ rows.take n)).length - min N (k + n))
      = (sb.drop (sb.length - k) ++ rows.take n).drop (k + n - N) := by
    rw [lastN_length]
    unfold lastN
    rw [List.drop_drop, ← List.drop_append_of_le_length (by omega), List.drop_drop]
    congr 1
    simp only [List.length_append, hlt]
    omega
  rw [e1]
  have e2 : ((sb.drop (sb.length - k) ++ rows.take n).drop (k + n - N)).length = min N (k + n) := by
    rw [List.length_drop, hA]; omega
  have e3 : rows.length - min N (k + n)
      = rows.length - ((sb.drop (sb.length - k) ++ rows.take n).drop (k + n - N)).length := by rw [e2]
  rw [e3, ← List.take_append, ← List.drop_append_of_le_length (by rw [hA]; omega)]
  congr 2
  rw [List.append_assoc, List.append_assoc, ← List.append_assoc (rows.take n), List.take_append_drop]

/-- when nothing is cut off, the window does not see the appended blanks -/
theorem window_no_blanks {α} (sb rows : List α) (blank : α) (k n : Nat) (hk : k ≤ sb.length) :
    ((sb.drop (sb.length - k)) ++ rows ++ List.replicate n blank).take rows.length
      = ((sb.drop (sb.length - k)) ++ rows).take rows.length := by
  rw [List.take_append_of_le_length]
  simp only [List.length_append]; omega

/-! ## the view before and after -/

/-- **the view as a window**: `visible_rows()` = the first `rows` lines of
(last `k` history lines ++ live rows) -/
theorem visibleRows_window (g : Grid) (h : g.scrollbackOffset ≤ g.scrollback.length) :
    g.visibleRows = .ok
      ((g.scrollback.drop (g.scrollback.length - g.scrollbackOffset) ++ g.rows).take g.rows.length) := by
  rw [visibleRows_spec g h, window_eq _ _ _ h]

/-- the view of the grid after `n` recorded lines (`recordN`, the closed form of `scroll_up(n)`),
offset non-zero -/
theorem visibleRows_recordN (g : Grid) (n : Nat) (hn : n ≤ g.rows.length)
    (hsb : g.scrollback.length ≤ g.scrollbackLen)
    (hoff : g.scrollbackOffset ≤ g.scrollback.length) (hk : 0 < g.scrollbackOffset) :
    (recordN g n).visibleRows = .ok
      (((g.scrollback.drop (g.scrollback.length - g.scrollbackOffset) ++ g.rows
          ++ List.replicate n g.newRow).drop (g.scrollbackOffset + n - g.scrollbackLen)).take
        g.rows.length) := by
  have hlt : (g.rows.take n).length = n := by simp [List.length_take]; omega
  have hoff' : (recordN g n).scrollbackOffset = min g.scrollbackLen (g.scrollbackOffset + n) := by
    simp only [recordN, hk, ↓reduceIte]; omega
  have hlen' : (recordN g n).scrollback.length = min g.scrollbackLen (g.scrollback.length + n) := by
    simp only [recordN, lastN_length, List.length_append, hlt]
  have hrl : (recordN g n).rows.length = g.rows.length := by
    simp only [recordN, List.length_append, List.length_drop, List.length_replicate]; omega
  rw [visibleRows_spec _ (by rw [hoff', hlen']; omega), hrl, hoff']
  have := window_after g.scrollback g.rows g.newRow g.scrollbackLen g.scrollbackOffset n hoff hsb hn
  simp only [recordN] at this ⊢
  rw [this]

/-- **C12, the view after `scroll_up(n)` (closed form).**  Full-screen region, capacity `N > 0`,
`n ≤ rows`, view scrolled back by `0 < k ≤ L ≤ N`: `scroll_up(n)` succeeds, and the view of the result
is the window of `rows` lines into
    (last `k` history lines) ++ (live rows) ++ (`n` blank lines)
starting `(k + n) - N` lines further down than before (before: `visibleRows_window`, start 0). -/
theorem view_after_scrollUp (g : Grid) (n : Nat) (hN : 0 < g.scrollbackLen) (ht : g.scrollTop = 0)
    (hb : g.scrollBottom = g.size.rows - 1) (hlen : g.rows.length = g.size.rows)
    (hn : n ≤ g.size.rows) (hsb : g.scrollback.length ≤ g.scrollbackLen)
    (hoff : g.scrollbackOffset ≤ g.scrollback.length) (hk : 0 < g.scrollbackOffset) :
    ∃ g', g.scrollUp n = .ok g' ∧
      g'.scrollbackOffset = min g.scrollbackLen (g.scrollbackOffset + n) ∧
      g'.visibleRows = .ok
        (((g.scrollback.drop (g.scrollback.length - g.scrollbackOffset) ++ g.rows
            ++ List.replicate n g.newRow).drop (g.scrollbackOffset + n - g.scrollbackLen)).take
          g.rows.length) := by
  refine ⟨recordN g n, scrollUp_records g n hN ht hb hlen hn hsb hoff, ?_,
    visibleRows_recordN g n (by omega) hsb hoff hk⟩
  simp only [recordN, hk, ↓reduceIte]; omega

/-- **C12 `view_stable`, n lines.**  While the view is scrolled back by `k > 0` and `k + n` does not
exceed the capacity, `scroll_up(n)` — `n` lines of new output scrolling off the top — leaves the
view exactly as it was: the same `rows` lines are shown (the offset has become `k + n`). -/
theorem view_stable_scrollUp (g : Grid) (n : Nat) (hN : 0 < g.scrollbackLen) (ht : g.scrollTop = 0)
    (hb : g.scrollBottom = g.size.rows - 1) (hlen : g.rows.length = g.size.rows)
    (hn : n ≤ g.size.rows) (hsb : g.scrollback.length ≤ g.scrollbackLen)
    (hoff : g.scrollbackOffset ≤ g.scrollback.length) (hk : 0 < g.scrollbackOffset)
    (hroom : g.scrollbackOffset + n ≤ g.scrollbackLen) :
    ∃ g', g.scrollUp n = .ok g' ∧ g'.scrollbackOffset = g.scrollbackOffset + n ∧
      g'.visibleRows = g.visibleRows := by
  obtain ⟨g', h1, h2, h3⟩ := view_after_scrollUp g n hN ht hb hlen hn hsb hoff hk
  refine ⟨g', h1, by omega, ?_⟩
  have : g.scrollbackOffset + n - g.scrollbackLen = 0 := by omega
  rw [h3, this, List.drop_zero, window_no_blanks _ _ _ _ _ hoff, visibleRows_window g hoff]

/-- one loop iteration is `recordN _ 1` -/
theorem scrollUpStep_eq_recordN (g : Grid) (hN : 0 < g.scrollbackLen) (ht : g.scrollTop = 0)
    (hb : g.scrollBottom = g.size.rows - 1) (hlen : g.rows.length = g.size.rows)
    (hr : 1 ≤ g.size.rows) (hsb : g.scrollback.length ≤ g.scrollbackLen)
    (hoff : g.scrollbackOffset ≤ g.scrollback.length) :
    scrollUpStep g = .ok (recordN g 1) := by
  have := iterate_records 1 g hN ht hb hlen hr hsb hoff
  simp only [iterateM] at this
  cases hs : scrollUpStep g with
  | error e => rw [hs] at this; simp at this
  | ok g1 => rw [hs] at this; simpa using this

/-- **C12 `view_stable`** (the theorem the header of C12.lean cites).  One line scrolls off the top
of a grid with a full-screen region and capacity `N > 0` while the view is scrolled back by
`0 < k < N`: the step succeeds, the offset becomes `k + 1`, and `visible_rows()` is unchanged. -/
theorem view_stable (g g' : Grid) (hN : 0 < g.scrollbackLen)
    (hreg : g.scrollTop = 0 ∧ g.scrollBottom = g.size.rows - 1) (hr : 1 ≤ g.size.rows)
    (hlen : g.rows.length = g.size.rows) (hsb : g.scrollback.length ≤ g.scrollbackLen)
    (hoff : g.scrollbackOffset ≤ g.scrollback.length) (hk : 0 < g.scrollbackOffset)
    (hroom : g.scrollbackOffset < g.scrollbackLen)
    (h : scrollUpStep g = .ok g') :
    g'.scrollbackOffset = g.scrollbackOffset + 1 ∧ g'.visibleRows = g.visibleRows := by
  rw [scrollUpStep_eq_recordN g hN hreg.1 hreg.2 hlen hr hsb hoff] at h
  cases h
  have h3 := visibleRows_recordN g 1 (by omega) hsb hoff hk
  have h0 : g.scrollbackOffset + 1 - g.scrollbackLen = 0 := by omega
  refine ⟨by simp only [recordN, hk, ↓reduceIte]; omega, ?_⟩
  rw [h3, h0, List.drop_zero, window_no_blanks _ _ _ _ _ hoff, visibleRows_window g hoff]

/-- **boundary case**: the view is scrolled back all the way through a FULL history (`k = N`, hence
`L = N`).  The oldest history line — the first line of the view — is evicted, the offset stays `N`,
and the view moves up by one line: it is lines `1 .. rows` of
`history ++ live rows ++ [blank]`, where the old view was lines `0 .. rows - 1`. -/
theorem view_moves_at_capacity (g g' : Grid) (hN : 0 < g.scrollbackLen)
    (hreg : g.scrollTop = 0 ∧ g.scrollBottom = g.size.rows - 1) (hr : 1 ≤ g.size.rows)
    (hlen : g.rows.length = g.size.rows) (hsb : g.scrollback.length ≤ g.scrollbackLen)
    (hoff : g.scrollbackOffset ≤ g.scrollback.length)
    (hfull : g.scrollbackOffset = g.scrollbackLen)
    (h : scrollUpStep g = .ok g') :
    g'.scrollbackOffset = g.scrollbackOffset ∧
      g.visibleRows = .ok ((g.scrollback ++ g.rows ++ [g.newRow]).take g.rows.length) ∧
      g'.visibleRows = .ok (((g.scrollback ++ g.rows ++ [g.newRow]).drop 1).take g.rows.length) := by
  have hk : 0 < g.scrollbackOffset := by omega
  have hL : g.scrollback.length = g.scrollbackOffset := by omega
  rw [scrollUpStep_eq_recordN g hN hreg.1 hreg.2 hlen hr hsb hoff] at h
  cases h
  have h3 := visibleRows_recordN g 1 (by omega) hsb hoff hk
  have h1 : g.scrollbackOffset + 1 - g.scrollbackLen = 1 := by omega
  have h0 : g.scrollback.length - g.scrollbackOffset = 0 := by omega
  refine ⟨by simp only [recordN, hk, ↓reduceIte]; omega, ?_, ?_⟩
  · have := visibleRows_window g hoff
    rw [h0, List.drop_zero] at this
    rw [this]
    congr 1
    symm
    apply List.take_append_of_le_length
    simp only [List.length_append]; omega
  · rw [h3, h1, h0, List.drop_zero]
    rfl

/-- for contrast, offset 0: the view is the live screen, and follows the output -/
theorem view_follows_at_offset_zero (g : Grid) (n : Nat) (hN : 0 < g.scrollbackLen)
    (ht : g.scrollTop = 0) (hb : g.scrollBottom = g.size.rows - 1)
    (hlen : g.rows.length = g.size.rows) (hn : n ≤ g.size.rows)
    (hsb : g.scrollback.length ≤ g.scrollbackLen) (hk : g.scrollbackOffset = 0) :
    ∃ g', g.scrollUp n = .ok g' ∧ g'.scrollbackOffset = 0 ∧ g.visibleRows = .ok g.rows ∧
      g'.visibleRows = .ok (g.rows.drop n ++ List.replicate n g.newRow) := by
  refine ⟨recordN g n, scrollUp_records g n hN ht hb hlen hn hsb (by omega), ?_, ?_, ?_⟩
  · simp [recordN, hk]
  · rw [visibleRows_spec g (by omega)]; simp [hk]
  · rw [visibleRows_spec _ (by simp [recordN, hk])]
    simp only [recordN, hk, Nat.lt_irrefl, ↓reduceIte, Nat.sub_zero, List.take_zero, List.nil_append,
      List.drop_of_length_le (Nat.le_refl _), Except.ok.injEq]
    simp
    apply List.take_of_length_le
    simp

/-- **`scroll_up(n)` only looks at `min n (rows - scroll_top)`** (the loop bound
`count.min(self.size.rows - self.scroll_top)` of grid.rs): counts beyond the height of the
region below `scroll_top` are the same as that height.  In particular for a full-screen region
`scroll_up n = scroll_up (min n rows)`, so `n ≤ rows` above is no restriction. -/
theorem scrollUp_min (g : Grid) (n : Nat) :
    g.scrollUp n = g.scrollUp (min n (g.size.rows - g.scrollTop)) := by
  rw [scrollUp_eq_iterate, scrollUp_eq_iterate]
  by_cases h : g.scrollTop ≤ g.size.rows
  · simp only [subM, h, ↓reduceIte, pure_bind']
    rw [Nat.min_assoc, Nat.min_self]
  · simp only [subM, h, ↓reduceIte]
    rfl

theorem scrollUp_min_full (g : Grid) (n : Nat) (ht : g.scrollTop = 0) :
    g.scrollUp n = g.scrollUp (min n g.size.rows) := by
  have := scrollUp_min g n
  rwa [ht, Nat.sub_zero] at this

/-! ## tests: the hypotheses are satisfiable, and the boundary is sharp -/

def rowOf (c : Nat) : Row := { cells := [{ (Cell.new) with contents := [c] }, Cell.new], wrapped := false }

/-- a 3x2 grid with capacity 4, three lines of history, scrolled back by 2 -/
def tGrid : Grid :=
  { size := ⟨3, 2⟩, pos := ⟨0, 0⟩, savedPos := ⟨0, 0⟩,
    rows := [rowOf 100, rowOf 101, rowOf 102],
    scrollTop := 0, scrollBottom := 2, originMode := false, savedOriginMode := false,
    scrollback := [rowOf 1, rowOf 2, rowOf 3], scrollbackLen := 4, scrollbackOffset := 2 }

/-- test: `view_stable_scrollUp` applies to `tGrid` with `n = 2` (offset 2 + 2 ≤ capacity 4), and the
view is `[2, 3, 100]` before and after -/
theorem view_stable_nonvacuous :
    ∃ g', tGrid.scrollUp 2 = .ok g' ∧ g'.scrollbackOffset = 4 ∧ g'.visibleRows = tGrid.visibleRows ∧
      tGrid.visibleRows = .ok [rowOf 2, rowOf 3, rowOf 100] := by
  obtain ⟨g', h1, h2, h3⟩ := view_stable_scrollUp tGrid 2 (by decide) rfl rfl rfl (by decide)
    (by decide) (by decide) (by decide) (by decide)
  exact ⟨g', h1, h2, h3, by rw [visibleRows_spec _ (by decide)]; rfl⟩

/-- test (sharpness): with `n = 3` (offset 2 + 3 > capacity 4) the view of `tGrid` moves by one line:
`[2, 3, 100]` becomes `[3, 100, 101]` -/
theorem view_moves_example :
    (tGrid.scrollUp 3 >>= fun g' => g'.visibleRows).toOption = some [rowOf 3, rowOf 100, rowOf 101] := by
  decide +kernel

/-- test: `view_moves_at_capacity` is not vacuous (capacity 3 = history 3 = offset 3) -/
theorem view_moves_at_capacity_nonvacuous :
    ∃ g', scrollUpStep { tGrid with scrollbackLen := 3, scrollbackOffset := 3 } = .ok g' ∧
      g'.visibleRows.toOption = some [rowOf 2, rowOf 3, rowOf 100] := by
  refine ⟨_, scrollUpStep_eq_recordN _ (by decide) rfl rfl rfl (by decide) (by decide) (by decide), ?_⟩
  decide +kernel

end Vt.MiscC12

/-
#print axioms Vt.MiscC12.view_stable
#print axioms Vt.MiscC12.view_stable_scrollUp
#print axioms Vt.MiscC12.view_after_scrollUp
#print axioms Vt.MiscC12.view_moves_at_capacity
#print axioms Vt.MiscC12.view_follows_at_offset_zero
#print axioms Vt.MiscC12.scrollUp_min
-/
