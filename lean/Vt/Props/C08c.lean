/-
  C08 (continued) — DCH: deleting `n` cells at the cursor, the exact result on every well-formed line.

  `dchCells cs col k` (k ≥ 1 cells deleted, `col + k ≤ cols`):
    * the cells left of the cursor are untouched, except that the first half of a wide character whose second
      half is the first deleted cell is blanked (keeping its attributes);
    * the cells from `col + k` on move left by `k`; if the first of them is the second half of a wide character
      whose first half was deleted it is blanked;
    * `k` default blank cells fill the end of the line; the line's wrap flag is cleared.
  `deleteCells_row_eq` proves the loop of `Row::remove` followed by `Row::resize` equals this closed form.
-/
import Vt.Lemmas.GridInv
import Vt.Props.C07b
namespace Vt.C08
open Vt
set_option linter.unusedSimpArgs false

variable {W : Nat → Option Nat}

def clearSelf (c : Cell) : Cell := c.clear c.attrs

/-- the cell at column `j` after `k` deletions at `col` (before the line is padded again) -/
def dchAt (cs : List Cell) (col k j : Nat) : Option Cell :=
  if j < col then
    cs[j]?.map (fun x => if j + 1 = col ∧ 1 ≤ k ∧ (cs[col]?.map (·.cont)).getD false = true then clearSelf x else x)
  else
    cs[j + k]?.map (fun x => if j = col ∧ 1 ≤ k ∧ x.cont = true then clearSelf x else x)

/-- `Row::remove(i)` on a well-formed line -/
theorem remove_eq {r : Row} {i : Nat} {c : Cell} (hinv : CellsInv W r.cells) (hc : r.cells[i]? = some c) :
    ∃ L : List Cell, r.remove i = .ok ⟨L.eraseIdx i, false⟩ ∧ L.length = r.cells.length ∧
      ∀ j, L[j]? = r.cells[j]?.map (fun x =>
        if j = i + 1 ∧ c.wide = true then clearSelf x
        else if j + 1 = i ∧ c.wide = false ∧ c.cont = true then clearSelf x else x) := by
  obtain ⟨cs, wr⟩ := r
  simp only at hinv hc ⊢
  have hi := getElem?_lt hc
  have get_of : ∀ {k : Nat} {x : Cell} (h : cs[k]? = some x) (hk : k < cs.length), cs[k] = x := by
    intro k x h hk; rw [List.getElem?_eq_getElem hk] at h; exact Option.some.inj h
  have hci := get_of hc hi
  by_cases hw : c.wide = true
  · obtain ⟨d, hd, _⟩ := paired_wide_next hc hinv.paired hw
    have hd1 := getElem?_lt hd
    refine ⟨cs.set (i + 1) (clearSelf d), ?_, by simp, ?_⟩
    · simp [Row.remove, Row.clearWide, getM, hc, hci, Cell.isWide, hw, modifyM, hd, removeM, List.getElem?_set, hi, clearSelf]
    · intro j
      simp only [List.getElem?_set]
      by_cases hj : i + 1 = j
      · subst hj; simp [hd1, hd, hw, get_of hd hd1]
      · rw [if_neg hj]
        cases cs[j]? with
        | none => rfl
        | some x => simp [show ¬ j = i + 1 by omega, hw]
  · have hw' : c.wide = false := by simpa using hw
    by_cases hcc : c.cont = true
    · obtain ⟨i0, p, rfl, hp, _⟩ := paired_cont_prev hc hinv.paired hcc
      have hp1 := getElem?_lt hp
      refine ⟨cs.set i0 (clearSelf p), ?_, by simp, ?_⟩
      · simp [Row.remove, Row.clearWide, getM, hc, hci, Cell.isWide, hw', Cell.isWideContinuation, hcc, modifyM, hp, removeM,
          List.getElem?_set, hi, clearSelf, subM]
      · intro j
        simp only [List.getElem?_set]
        by_cases hj : i0 = j
        · subst hj; simp [hp1, hp, hw', hcc, get_of hp hp1]
        · rw [if_neg hj]
          cases cs[j]? with
          | none => rfl
          | some x => simp [show ¬ j = i0 by omega, hw']
    · have hcc' : c.cont = false := by simpa using hcc
      refine ⟨cs, ?_, rfl, ?_⟩
      · simp [Row.remove, Row.clearWide, getM, hc, hci, Cell.isWide, hw', Cell.isWideContinuation, hcc', removeM]
      · intro j
        cases cs[j]? with
        | none => rfl
        | some x => simp [hw', hcc']

/-- in a well-formed line, a cell is a continuation exactly when the cell before it is wide -/
theorem cont_iff_prev_wide {cs : List Cell} (hinv : CellsInv W cs) {i : Nat} {x y : Cell} (hx : cs[i]? = some x)
    (hy : cs[i + 1]? = some y) : y.cont = true ↔ x.wide = true := by
  constructor
  · intro hc
    obtain ⟨j, d, hj, hd, hdw⟩ := paired_cont_prev hy hinv.paired hc
    have : j = i := by omega
    subst this
    rw [hx] at hd
    rw [Option.some.inj hd]; exact hdw
  · intro hw
    obtain ⟨d, hd, hdc⟩ := paired_wide_next hx hinv.paired hw
    rw [hy] at hd
    rw [Option.some.inj hd]; exact hdc

/-- **the deletion loop**: after `k` calls of `Row::remove(col)` the line is `dchAt` -/
theorem remove_loop {cs : List Cell} (hinv : CellsInv W cs) (w : Bool) (col : Nat) :
    ∀ k, col + k ≤ cs.length →
      ∃ L wk, iterateM k (fun (r : Row) => r.remove col) ⟨cs, w⟩ = .ok ⟨L, wk⟩ ∧ CellsInv W L ∧
        L.length = cs.length - k ∧ (∀ j, L[j]? = dchAt cs col k j) ∧ wk = (if k = 0 then w else false) := by
  intro k hk
  obtain ⟨r', e, hP⟩ := iterateM_inv_idx
    (fun k (r : Row) => CellsInv W r.cells ∧ r.cells.length = cs.length - k ∧ (∀ j, r.cells[j]? = dchAt cs col k j) ∧
      r.wrapped = (if k = 0 then w else false))
    (fun (r : Row) => r.remove col) k ⟨cs, w⟩
    ⟨hinv, by simp, by
      intro j
      simp only [dchAt, Nat.add_zero, show ¬ (1 ≤ 0) by omega, false_and, and_false, ↓reduceIte]
      split <;> (cases cs[j]? <;> rfl), rfl⟩
    (by
      intro n r hn ⟨hci, hlen, hpt, hwr⟩
      have hcl : col < r.cells.length := by omega
      have hc := List.getElem?_eq_getElem hcl
      generalize r.cells[col] = c at hc
      obtain ⟨L, e, hLlen, hL⟩ := remove_eq hci hc
      obtain ⟨r2, e2, hci2, hlen2, hw2⟩ := remove_ok W hci hcl
      have hr2 : r2 = ⟨L.eraseIdx col, false⟩ := by rw [e] at e2; exact (Except.ok.inj e2).symm
      subst hr2
      refine ⟨_, e, hci2, by simp only; rw [List.length_eraseIdx, if_pos (by omega), hLlen]; omega, ?_, by simp⟩
      -- the cell under the cursor, in terms of the original line
      have hck : col + n < cs.length := by omega
      have hx := List.getElem?_eq_getElem hck
      generalize cs[col + n] = x at hx
      have hcx : c = if 1 ≤ n ∧ x.cont = true then clearSelf x else x := by
        have := hpt col
        rw [hc] at this
        simp only [dchAt, Nat.lt_irrefl, ↓reduceIte, hx, Option.map_some, true_and, Option.some.injEq] at this
        exact this
      have hxok := hinv.cells_ok x (List.mem_of_getElem? hx)
      have hcw : c.wide = x.wide := by
        rw [hcx]; split
        · rename_i h; simp [clearSelf, Cell.clear, (cellOk_cont W x hxok h.2).1]
        · rfl
      have hccont : c.cont = (decide (n = 0) && x.cont) := by
        rw [hcx]
        by_cases hn0 : n = 0
        · simp [hn0]
        · by_cases hxc : x.cont = true
          · simp [hn0, hxc, show 1 ≤ n by omega, clearSelf, Cell.clear]
          · simp [hn0, hxc]
      intro j
      simp only
      rw [List.getElem?_eraseIdx]
      by_cases hj : j < col
      · -- left of the cursor
        simp only [hj, ↓reduceIte, hL, hpt, dchAt]
        cases hcj : cs[j]? with
        | none => rfl
        | some y =>
          simp only [Option.map_some, Option.map_map, Option.some.injEq, Function.comp]
          have hne : ¬ (j = col + 1) := by omega
          simp only [hne, false_and, ↓reduceIte]
          by_cases hj1 : j + 1 = col
          · -- the cell just before the cursor
            by_cases hn0 : n = 0
            · subst hn0
              have hx0 : cs[col]? = some x := by simpa using hx
              by_cases hxc : x.cont = true
              · have : x.wide = false := (cellOk_cont W x hxok hxc).1
                simp [hj1, hx0, hcw, hccont, hxc, this]
              · simp [hj1, hx0, hcw, hccont, hxc]
            · have h1n : 1 ≤ n := by omega
              simp only [hj1, h1n, true_and, show 1 ≤ n + 1 by omega, hccont, hn0, decide_false, Bool.false_and,
                Bool.false_eq_true, and_false, ↓reduceIte]
          · simp [hj1]
      · -- from the cursor on: the cells move left
        simp only [hj, ↓reduceIte, hL, hpt, dchAt, show ¬ (j + 1 < col) by omega]
        rw [show j + 1 + n = j + (n + 1) by omega]
        cases hcj : cs[j + (n + 1)]? with
        | none => rfl
        | some y =>
          simp only [Option.map_some, Option.some.injEq]
          have hne2 : ¬ (j + 1 + 1 = col) := by omega
          have hne3 : ¬ (j + 1 = col) := by omega
          simp only [hne2, false_and, ↓reduceIte, hne3, show 1 ≤ n + 1 by omega, true_and]
          by_cases hjc : j = col
          · subst hjc
            have hiff := cont_iff_prev_wide hinv hx (by rw [show j + n + 1 = j + (n + 1) by omega]; exact hcj)
            by_cases hyc : y.cont = true
            · simp [hyc, hcw, hiff.mp hyc]
            · have : x.wide = false := by
                cases hxw : x.wide with
                | false => rfl
                | true => exact absurd (hiff.mpr hxw) hyc
              simp [hyc, hcw, this]
          · simp [hjc, show ¬ (j + 1 = col + 1) by omega])
  obtain ⟨L, wk⟩ := r'
  exact ⟨L, wk, e, hP.1, hP.2.1, hP.2.2.1, hP.2.2.2⟩

/-- the last cell of a well-formed line is not wide -/
theorem last_not_wide {cs : List Cell} (hinv : CellsInv W cs) {x : Cell} (hx : cs.getLast? = some x) : x.wide = false := by
  rw [List.getLast?_eq_getElem?] at hx
  cases hw : x.wide with
  | false => rfl
  | true =>
    obtain ⟨d, hd, _⟩ := paired_wide_next hx hinv.paired hw
    have := getElem?_lt hd
    have := getElem?_lt hx
    omega

/-- the grid with its cursor line replaced -/
def withRow (g : Grid) (r : Row) : Grid := { g with rows := g.rows.set g.pos.row r }

/-- **C08, DCH n**: `k = min n (cols - col)` cells are deleted at the cursor: the cursor line becomes
`L ++ k default blanks` with `L` given cell by cell by `dchAt` and its wrap flag cleared; nothing else in the grid
changes -/
theorem deleteCells_eq {g : Grid} (hinv : GridInv W g true) (hl : g.rows.length = g.size.rows) (n : Nat) :
    ∃ r L, g.rows[g.pos.row]? = some r ∧ L.length = g.size.cols - min n (g.size.cols - g.pos.col) ∧
      (∀ j, L[j]? = dchAt r.cells g.pos.col (min n (g.size.cols - g.pos.col)) j) ∧
      g.deleteCells n = .ok (withRow g ⟨L ++ List.replicate (min n (g.size.cols - g.pos.col)) Cell.new, false⟩) := by
  have hrl : g.pos.row < g.rows.length := by rw [hl]; exact hinv.pos_row
  have hrow := List.getElem?_eq_getElem hrl
  generalize g.rows[g.pos.row] = r at hrow
  have hgood := hinv.row_ok r (List.mem_of_getElem? hrow)
  have hci := rowGood_cells W hgood
  have hpc := hinv.pos_col
  obtain ⟨cs, w⟩ := r
  simp only at hgood hci
  have hlen : cs.length = g.size.cols := hgood.1
  obtain ⟨L, wk, e, hciL, hLlen, hLpt, _⟩ := remove_loop hci w g.pos.col (min n (g.size.cols - g.pos.col)) (by omega)
  refine ⟨⟨cs, w⟩, L, hrow, by rw [hLlen, hlen], hLpt, ?_⟩
  have hres : (⟨L, wk⟩ : Row).resize g.size.cols Cell.new =
      ⟨L ++ List.replicate (min n (g.size.cols - g.pos.col)) Cell.new, false⟩ := by
    unfold Row.resize resizeList
    simp only
    have htake : L.take g.size.cols = L := List.take_of_length_le (by omega)
    have hsub : g.size.cols - L.length = min n (g.size.cols - g.pos.col) := by omega
    rw [htake, hsub]
    cases hlast : (L ++ List.replicate (min n (g.size.cols - g.pos.col)) Cell.new).getLast? with
    | none => rfl
    | some x =>
      simp only
      have hxw : x.wide = false := by
        by_cases hk0 : min n (g.size.cols - g.pos.col) = 0
        · rw [hk0] at hlast
          simp only [List.replicate_zero, List.append_nil] at hlast
          exact last_not_wide hciL hlast
        · rw [List.getLast?_append] at hlast
          have : (List.replicate (min n (g.size.cols - g.pos.col)) Cell.new).getLast? = some Cell.new := by
            rw [List.getLast?_replicate]; simp [hk0]
          rw [this] at hlast
          simp only [Option.some_or, Option.some.injEq] at hlast
          rw [← hlast]; rfl
      simp [Cell.isWide, hxw]
  simp only [Grid.deleteCells, Grid.modifyCurrentRow, modifyM, hrow, subM_ok hpc, ok_bind, e, pure_bind', hres,
    pure_eq_ok, withRow]

/-! ### ICH -/

/-- the cell at column `j` after `k` insertions at `col` (before the line is cut back to its width); `wide` = the
cursor was on the second half of a wide character, whose flag is handed to the first inserted blank -/
def ichAt (cs : List Cell) (col k : Nat) (wide : Bool) (j : Nat) : Option Cell :=
  if j < col then cs[j]?
  else if j < col + k then some (if j = col ∧ wide = true then Cell.new.setWideContinuation true else Cell.new)
  else (cs[j - k]?).map (fun x => if j - k = col ∧ wide = true ∧ 1 ≤ k then x.setWideContinuation false else x)

theorem getElem?_insertAt {α} (l : List α) (i : Nat) (x : α) (hi : i ≤ l.length) (j : Nat) :
    (l.take i ++ x :: l.drop i)[j]? = if j < i then l[j]? else if j = i then some x else l[j - 1]? := by
  by_cases h1 : j < i
  · rw [if_pos h1, List.getElem?_append_left (by simp [List.length_take]; omega), List.getElem?_take_of_lt h1]
  · rw [if_neg h1, List.getElem?_append_right (by simp [List.length_take]; omega)]
    simp only [List.length_take, Nat.min_eq_left hi]
    by_cases h2 : j = i
    · subst h2; simp
    · rw [if_neg h2]
      obtain ⟨m, hm⟩ : ∃ m, j - i = m + 1 := ⟨j - i - 1, by omega⟩
      rw [hm, List.getElem?_cons_succ, List.getElem?_drop]
      congr 1; omega

/-- **the insertion loop**: after `k` steps the line is `ichAt` — no assumption on the line beyond its length -/
theorem insert_loop (cs : List Cell) (w : Bool) (col : Nat) (wide : Bool) (hcol : col ≤ cs.length)
    (hw : wide = true → col < cs.length) :
    ∀ k, ∃ L wk, iterateM k (Grid.insertStep wide col) ⟨cs, w⟩ = .ok ⟨L, wk⟩ ∧ L.length = cs.length + k ∧
      (∀ j, L[j]? = ichAt cs col k wide j) ∧ wk = (if k = 0 then w else false) := by
  intro k
  obtain ⟨r', e, hP⟩ := iterateM_inv_idx
    (fun k (r : Row) => r.cells.length = cs.length + k ∧ (∀ j, r.cells[j]? = ichAt cs col k wide j) ∧
      r.wrapped = (if k = 0 then w else false))
    (Grid.insertStep wide col) k ⟨cs, w⟩
    ⟨by simp, by
      intro j
      simp only [ichAt, Nat.add_zero, Nat.sub_zero, show ¬ (1 ≤ 0) by omega, and_false, ↓reduceIte]
      split
      · rfl
      · cases cs[j]? <;> rfl, rfl⟩
    (by
      intro n r hn ⟨hlen, hpt, hwr⟩
      cases wide with
      | false =>
        refine ⟨⟨r.cells.take col ++ Cell.new :: r.cells.drop col, false⟩, ?_, ?_, ?_, by simp⟩
        · simp [Grid.insertStep, Row.insert, insertM, show col ≤ r.cells.length by omega]
        · simp [List.length_take]; omega
        · intro j
          simp only
          rw [getElem?_insertAt _ _ _ (by omega)]
          by_cases h1 : j < col
          · simp [ichAt, h1, hpt]
          · by_cases h2 : j = col
            · subst h2; simp [ichAt]
            · rw [if_neg h1, if_neg h2, hpt]
              by_cases h3 : j < col + (n + 1)
              · simp [ichAt, h1, h3, show ¬ (j - 1 < col) by omega, show j - 1 < col + n by omega]
              · simp only [ichAt, h1, h3, ↓reduceIte, show ¬ (j - 1 < col) by omega, show ¬ (j - 1 < col + n) by omega,
                  Bool.false_eq_true, false_and, and_false]
                rw [show j - 1 - n = j - (n + 1) by omega]
      | true =>
        have hcl : col < r.cells.length := by have := hw rfl; omega
        have hc := List.getElem?_eq_getElem hcl
        generalize r.cells[col] = c at hc
        have hcval : some c = ichAt cs col n true col := by rw [← hc]; exact hpt col
        refine ⟨⟨((r.cells.set col (c.setWideContinuation false)).take col ++ Cell.new ::
            (r.cells.set col (c.setWideContinuation false)).drop col).set col (Cell.new.setWideContinuation true), false⟩,
          ?_, ?_, ?_, by simp⟩
        · have hget : ((r.cells.set col (c.setWideContinuation false)).take col ++ Cell.new ::
              (r.cells.set col (c.setWideContinuation false)).drop col)[col]? = some Cell.new := by
            rw [getElem?_insertAt _ _ _ (by simp; omega)]; simp
          simp [Grid.insertStep, modifyM, hc, Row.insert, insertM, show col ≤ r.cells.length by omega, hget]
        · simp [List.length_take]; omega
        · intro j
          simp only [List.getElem?_set, List.length_append, List.length_take, List.length_set, List.length_cons,
            List.length_drop]
          by_cases h2 : j = col
          · subst h2
            rw [if_pos rfl, if_pos (by omega)]
            simp [ichAt]
          · rw [if_neg (by omega), getElem?_insertAt _ _ _ (by simp; omega)]
            by_cases h1 : j < col
            · rw [if_pos h1, List.getElem?_set, if_neg (by omega), hpt]
              simp [ichAt, h1]
            · rw [if_neg h1, if_neg h2, List.getElem?_set]
              by_cases hj1 : col = j - 1
              · -- the cell that was under the cursor: it loses its continuation flag
                rw [if_pos hj1, if_pos (by omega)]
                by_cases hn0 : n = 0
                · subst hn0
                  simp only [ichAt, Nat.lt_irrefl, ↓reduceIte, Nat.add_zero, show ¬ (1 ≤ 0) by omega, and_false,
                    Nat.sub_zero] at hcval
                  have hcs : cs[col]? = some c := by
                    cases hcc : cs[col]? with
                    | none => rw [hcc] at hcval; simp at hcval
                    | some y => rw [hcc] at hcval; simp only [Option.map_some] at hcval; rw [Option.some.inj hcval]
                  simp [ichAt, h1, show ¬ (j < col + (0 + 1)) by omega, show j - (0 + 1) = col by omega, hcs]
                · simp only [ichAt, Nat.lt_irrefl, ↓reduceIte, show col < col + n by omega, true_and, and_self,
                    Option.some.injEq] at hcval
                  rw [hcval]
                  simp [ichAt, h1, show j < col + (n + 1) by omega, h2]
                  rfl
              · rw [if_neg hj1, hpt]
                by_cases h3 : j < col + (n + 1)
                · simp [ichAt, h1, h3, h2, show ¬ (j - 1 < col) by omega, show j - 1 < col + n by omega,
                    show ¬ (j - 1 = col) by omega]
                · simp only [ichAt, h1, h3, ↓reduceIte, show ¬ (j - 1 < col) by omega, show ¬ (j - 1 < col + n) by omega,
                    true_and]
                  rw [show j - 1 - n = j - (n + 1) by omega]
                  cases hcj : cs[j - (n + 1)]? with
                  | none => rfl
                  | some y =>
                    simp only [Option.map_some, Option.some.injEq]
                    by_cases hjc : j - (n + 1) = col
                    · have : 1 ≤ n := by omega
                      simp [hjc, this]
                    · simp [hjc])
  obtain ⟨L, wk⟩ := r'
  exact ⟨L, wk, e, hP.1, hP.2.1, hP.2.2⟩

/-- **C08, ICH n**: `k = min n cols` default blanks are inserted at the cursor (the first of them inherits the
continuation flag when the cursor was on the second half of a wide character, whose old second half becomes a
plain empty cell), the cells from the cursor on move right by `k`, what is pushed past the edge is dropped, a
wide character cut by the edge is blanked, the wrap flag is cleared; nothing else in the grid changes -/
theorem insertCells_eq {g : Grid} (hinv : GridInv W g true) (hl : g.rows.length = g.size.rows) (n : Nat) :
    ∃ r L, g.rows[g.pos.row]? = some r ∧ L.length = g.size.cols ∧
      (∀ j, L[j]? = if j < g.size.cols then
          (ichAt r.cells g.pos.col (min n g.size.cols)
            (decide (g.pos.col < g.size.cols) && ((r.cells[g.pos.col]?).map (·.cont)).getD false) j).map
            (fun x => if j + 1 = g.size.cols ∧ x.wide = true then clearSelf x else x)
        else none) ∧
      g.insertCells n = .ok (withRow g ⟨L, false⟩) := by
  have hrl : g.pos.row < g.rows.length := by rw [hl]; exact hinv.pos_row
  have hrow := List.getElem?_eq_getElem hrl
  generalize g.rows[g.pos.row] = r at hrow
  have hgood := hinv.row_ok r (List.mem_of_getElem? hrow)
  have hpc := hinv.pos_col
  have hcp := hinv.cols_pos
  obtain ⟨cs, w⟩ := r
  simp only at hgood
  have hlen : cs.length = g.size.cols := hgood.1
  generalize hwide : (decide (g.pos.col < g.size.cols) && ((cs[g.pos.col]?).map (·.cont)).getD false) = wide
  -- the flag the model computes
  have hmw : (if g.pos.col < g.size.cols then do
        let c ← g.drawingCellM 421 g.pos
        pure c.isWideContinuation
      else pure false : M Bool) = .ok wide := by
    by_cases hlt : g.pos.col < g.size.cols
    · have hcl : g.pos.col < cs.length := by omega
      simp [hlt, Grid.drawingCellM, Grid.drawingCell, Grid.drawingRow, hrow, Row.get, List.getElem?_eq_getElem hcl,
        Cell.isWideContinuation, ← hwide]
    · simp [hlt, ← hwide]
  obtain ⟨L0, wk, e, hL0len, hL0pt, _⟩ := insert_loop cs w g.pos.col wide (by omega) (by
    intro hw
    rw [← hwide] at hw
    simp only [Bool.and_eq_true, decide_eq_true_eq] at hw
    omega) (min n g.size.cols)
  -- cut back to the width, blank a wide last cell
  have hi : g.size.cols - 1 < (L0.take g.size.cols).length := by simp [List.length_take]; omega
  have hlastc := List.getElem?_eq_getElem hi
  generalize (L0.take g.size.cols)[g.size.cols - 1] = lastc at hlastc
  refine ⟨⟨cs, w⟩, (L0.take g.size.cols).set (g.size.cols - 1) (if lastc.isWide then lastc.clear lastc.attrs else lastc),
    hrow, by simp [List.length_take]; omega, ?_, ?_⟩
  · intro j
    simp only [hwide]
    by_cases hj : j < g.size.cols
    · rw [if_pos hj]
      by_cases hjl : g.size.cols - 1 = j
      · subst hjl
        rw [List.getElem?_set, if_pos rfl, if_pos hi]
        have hl0 : ichAt cs g.pos.col (min n g.size.cols) wide (g.size.cols - 1) = some lastc := by
          rw [← hL0pt, ← hlastc, List.getElem?_take_of_lt (by omega)]
        rw [hl0]
        simp only [Option.map_some, Option.some.injEq, Cell.isWide, clearSelf,
          show g.size.cols - 1 + 1 = g.size.cols by omega, true_and]
        rfl
      · rw [List.getElem?_set, if_neg hjl, List.getElem?_take_of_lt hj, hL0pt]
        cases ichAt cs g.pos.col (min n g.size.cols) wide j with
        | none => rfl
        | some x => simp [show ¬ (j + 1 = g.size.cols) by omega]
    · rw [if_neg hj]
      exact List.getElem?_eq_none (by simp [List.length_take]; omega)
  · have htr : (⟨L0, wk⟩ : Row).truncate g.size.cols = .ok
        ⟨(L0.take g.size.cols).set (g.size.cols - 1) (if lastc.isWide then lastc.clear lastc.attrs else lastc), false⟩ := by
      simp [Row.truncate, subM_ok hcp, modifyM, hlastc]
    by_cases hlt : g.pos.col < g.size.cols
    · have hcl : g.pos.col < cs.length := by omega
      have hwv : cs[g.pos.col].isWideContinuation = wide := by
        rw [← hwide]; simp [hlt, List.getElem?_eq_getElem hcl, Cell.isWideContinuation]
      simp only [Grid.insertCells, hlt, ↓reduceIte, Grid.drawingCellM, Grid.drawingCell, Grid.drawingRow, hrow,
        Option.bind_some, Row.get, List.getElem?_eq_getElem hcl, ok_bind, pure_bind', hwv, Grid.modifyCurrentRow, modifyM,
        e, htr, pure_eq_ok, withRow]
    · have hwf : wide = false := by rw [← hwide]; simp [hlt]
      rw [hwf] at e
      simp only [Grid.insertCells, hlt, ↓reduceIte, pure_bind', Grid.modifyCurrentRow, modifyM, hrow, ok_bind, e, htr,
        pure_eq_ok, withRow]

end Vt.C08
