/-
  Scratch.C16cells — C16, the clause about cells: what `Screen::set_size(r, c)` / `Grid::set_size` does to
  EVERY cell, stated positionally at grid level (no reference to `Row.resize` / `resizeList` / `setSizeSpec` in
  the statements: the old and the new grid are only read through `Grid.drawingCell ⟨i, j⟩` = Rust
  `drawing_cell(pos)`, `rows`, `wrapped`, and the frame fields).

  Rust (src/grid.rs:66 `set_size`, src/row.rs:73 `resize`):  every row is `Vec::resize`d to `c` cells with
  `Cell::new()`, `wrapped = false` is assigned UNCONDITIONALLY inside `Row::resize` (so the separate
  `if size.cols != self.size.cols { row.wrap(false) }` loop is redundant: wrap flags are cleared on every
  `set_size`, rows-only and same-size ones included), and if the new LAST cell is wide it is
  `clear(*last_cell.attrs())`ed — blanked keeping its own attributes.  Then the row vector is resized to `r`
  rows with `Row::new(c)`.

  Results (g' = the result of `g.setSize ⟨r, c⟩`):
  * `setSize_total_iff` / `setSize_inv` : `Grid::set_size` succeeds iff old rows ≥ 1, r ≥ 1, c ≥ 1 (so no
    hypothesis besides the equation `g.setSize ⟨r,c⟩ = .ok g'` is needed below).
  * `setSize_cell_raw` (ANY grid, no invariant): for `i < r`, `j < c` the new cell is `cellAfter g c i j`:
    the old cell if it exists and is not (wide ∧ `j + 1 = c`); that cell `.clear`ed with its own attrs if it is;
    `Cell.new` if the old grid has no cell there.  `setSize_cell_outside`: no cell outside `r × c`.
  * `setSize_cell` (well-formed allocated grid): the complete positional case analysis with the old SIZE:
    new cell ⇔ `i ≥ old rows ∨ j ≥ old cols` ↦ `Cell.new`; cut ⇔ `j + 1 = c ∧ c < old cols ∧ wide` ↦ cleared with
    own attrs, and the dropped old cell `(i, c)` is its continuation; otherwise unchanged.
    `setSize_cell_grow` (c ≥ old cols: nothing is cut), `setSize_cont_kept` / `setSize_wide_kept` (a
    continuation cell inside the new width is never orphaned: both halves are kept unchanged),
    `setSize_cell_unallocated` (the unallocated alternate grid: `rows = []` ↦ r blank rows).
  * `setSize_dims`, `setSize_rows_count`, `setSize_wrapped` : size, row count, row widths, ALL wrap flags false.
  * `setSize_frame` (closed forms of cursor, saved cursor, scroll region; origin modes, scrollback rows —
    which keep their OLD width, finding F12 —, capacity and offset untouched), `setSize_frame_bounds`.
  * screen level: `screen_setSize_inv`, `screen_setSize_total_iff`, `screen_setSize_size` (`size()` is `(r,c)`
    whichever screen is or becomes active; modes / pens untouched), `screen_setSize_grids` (under `Inv`, both
    grids meet the hypotheses of the grid theorems), `screen_setSize_cell` (public `cell(i,j)` at offset 0).
  * tests `ex_*` (kernel evaluation): 2x4 with a wide character at columns 2–3: cut to 3, grown to 5, rows
    1 / 3, same size.
-/
import Vt.Props.InvPerform
import Vt.Props.C02
namespace Vt.C16cells
open Vt Vt.C16
set_option linter.unusedSimpArgs false
set_option linter.unusedVariables false

variable {W : Nat → Option Nat}

/-- cell `j` of a row after `Row::resize(c, Cell::new())`, from the old cells `cs`: kept, unless it becomes the
last cell (`j + 1 = c`) and is wide — then cleared keeping its own attributes; the default cell past the old end -/
def resizedCell (cs : List Cell) (c j : Nat) : Cell :=
  match cs[j]? with
  | some x => if j + 1 = c ∧ x.wide = true then x.clear x.attrs else x
  | none => Cell.new

theorem cellNew_not_wide : Cell.new.wide = false := rfl

/-- `Row::resize`, every column including the new last one (extends `C16.rowResize_get`, which stops at `c - 2`) -/
theorem rowResize_cell (row : Row) (c j : Nat) (hj : j < c) :
    (row.resize c Cell.new).cells[j]? = some (resizedCell row.cells c j) := by
  have hlen := resizeList_length row.cells c Cell.new
  have hget : ∀ k, k < c → (resizeList row.cells c Cell.new)[k]? =
      some (match row.cells[k]? with | some x => x | none => Cell.new) := by
    intro k hk
    rw [resizeList_get _ _ _ _ hk]
    by_cases h : k < row.cells.length
    · simp [h]
    · simp [h, List.getElem?_eq_none (Nat.le_of_not_lt h)]
  have hlast : (resizeList row.cells c Cell.new).getLast? =
      some (match row.cells[c - 1]? with | some x => x | none => Cell.new) := by
    rw [List.getLast?_eq_getElem?, hlen]
    exact hget _ (by omega)
  simp only [Row.resize, hlast, hlen]
  unfold resizedCell
  by_cases hjc : j + 1 = c
  · have hj' : c - 1 = j := by omega
    rw [hj']
    cases hx : row.cells[j]? with
    | none =>
      simp only [cellNew_not_wide, Cell.isWide, Bool.false_eq_true, ↓reduceIte]
      rw [hget j hj, hx]
    | some x =>
      simp only [Cell.isWide]
      by_cases hw : x.wide = true
      · simp only [hw, ↓reduceIte, hjc, and_self]
        rw [List.getElem?_set_self (by omega)]
      · simp only [hw, ↓reduceIte, and_false, Bool.false_eq_true]
        rw [hget j hj, hx]
  · have hne : c - 1 ≠ j := by omega
    simp only [hjc, false_and, ↓reduceIte]
    generalize (match row.cells[c - 1]? with | some x => x | none => Cell.new) = last
    by_cases hw : last.isWide = true
    · simp only [hw, ↓reduceIte]
      rw [List.getElem?_set_ne hne, hget j hj]
    · simp only [hw, ↓reduceIte, Bool.false_eq_true]
      rw [hget j hj]


/-! ### grid level -/

/-- THE POSITIONAL SPEC: the cell at `(i, j)` after `set_size(_, c)`, read off the old grid through
`drawing_cell`: `Cell.new` when the old grid has no cell there (row or column newly exposed, or grid not allocated);
the old cell cleared with ITS OWN attributes when it is wide and lands in the new last column; the old cell otherwise -/
def cellAfter (g : Grid) (c i j : Nat) : Cell :=
  match g.drawingCell ⟨i, j⟩ with
  | some x => if j + 1 = c ∧ x.wide = true then x.clear x.attrs else x
  | none => Cell.new

/-- row `i` after `set_size(_, c)` (internal; statements below do not mention it) -/
def rowAfter (g : Grid) (c i : Nat) : Row :=
  match g.rows[i]? with
  | some row => row.resize c Cell.new
  | none => Row.new c

theorem spec_row (g : Grid) (r c i : Nat) (hi : i < r) :
    (setSizeSpec g ⟨r, c⟩).rows[i]? = some (rowAfter g c i) := by
  simp only [setSizeSpec, rowAfter]
  rw [resizeList_get _ _ _ _ hi]
  by_cases hne : (c != g.size.cols) = true
  · simp only [hne, ↓reduceIte, List.length_map, List.getElem?_map, List.map_map]
    by_cases h : i < g.rows.length
    · simp [h, Row.resize, Row.wrap]
    · simp [h, List.getElem?_eq_none (Nat.le_of_not_lt h)]
  · simp only [hne, ↓reduceIte, List.length_map, List.getElem?_map, Bool.false_eq_true]
    by_cases h : i < g.rows.length
    · simp [h]
    · simp [h, List.getElem?_eq_none (Nat.le_of_not_lt h)]

theorem rowAfter_cell (g : Grid) (c i j : Nat) (hj : j < c) :
    (rowAfter g c i).cells[j]? = some (cellAfter g c i j) := by
  simp only [rowAfter, cellAfter, Grid.drawingCell, Grid.drawingRow, Row.get]
  cases hrow : g.rows[i]? with
  | none => simp [Row.new, hj]
  | some row =>
    simp only [Option.bind_some]
    rw [rowResize_cell row c j hj]
    rfl

theorem rowAfter_length (g : Grid) (c i : Nat) : (rowAfter g c i).cells.length = c := by
  simp only [rowAfter]
  cases g.rows[i]? with
  | none => simp [Row.new]
  | some row => exact rowResize_length row c

theorem rowAfter_wrapped (g : Grid) (c i : Nat) : (rowAfter g c i).wrapped = false := by
  simp only [rowAfter]
  cases g.rows[i]? with
  | none => simp [Row.new]
  | some row => exact rowResize_unwrapped row c


/-- `Grid::set_size` returns (no arithmetic panic) only if the old grid has ≥ 1 row and `r, c ≥ 1`; the result is then
the closed form.  Hence every theorem below needs only the equation `g.setSize ⟨r, c⟩ = .ok g'` -/
theorem setSize_inv {g g' : Grid} {size : Size} (e : g.setSize size = .ok g') :
    1 ≤ g.size.rows ∧ 1 ≤ size.rows ∧ 1 ≤ size.cols ∧ g' = setSizeSpec g size := by
  have h : 1 ≤ g.size.rows ∧ 1 ≤ size.rows ∧ 1 ≤ size.cols := by
    by_cases h0 : 1 ≤ g.size.rows
    · by_cases hr : 1 ≤ size.rows
      · by_cases hc : 1 ≤ size.cols
        · exact ⟨h0, hr, hc⟩
        · exfalso
          have hc0 : size.cols = 0 := by omega
          simp [Grid.setSize, subM, h0, hr, hc0, Grid.rowClampTop, Grid.rowClampBottom, Grid.colClamp, panic,
            bind, Except.bind, pure, Except.pure] at e
          repeat' split at e
          all_goals simp at e
      · exfalso
        have hr0 : size.rows = 0 := by omega
        simp [Grid.setSize, subM, h0, hr0, Grid.rowClampTop, Grid.rowClampBottom, Grid.colClamp, panic,
            bind, Except.bind, pure, Except.pure] at e
        repeat' split at e
        all_goals simp at e
    · exfalso
      simp [Grid.setSize, subM, h0, panic, bind, Except.bind] at e
  refine ⟨h.1, h.2.1, h.2.2, ?_⟩
  rw [grid_setSize_eq g size h.1 h.2.1 h.2.2] at e
  exact (Except.ok.inj e).symm


/-- totality (from `C16.grid_setSize_eq`) -/
theorem setSize_total (g : Grid) (r c : Nat) (h0 : 1 ≤ g.size.rows) (hr : 1 ≤ r) (hc : 1 ≤ c) :
    ∃ g', g.setSize ⟨r, c⟩ = .ok g' :=
  ⟨_, grid_setSize_eq g ⟨r, c⟩ h0 hr hc⟩

/-- `Grid::set_size(r, c)` returns iff the old height and `r`, `c` are ≥ 1 -/
theorem setSize_total_iff (g : Grid) (r c : Nat) :
    (∃ g', g.setSize ⟨r, c⟩ = .ok g') ↔ 1 ≤ g.size.rows ∧ 1 ≤ r ∧ 1 ≤ c := by
  constructor
  · rintro ⟨g', e⟩
    obtain ⟨h0, hr, hc, _⟩ := setSize_inv e
    exact ⟨h0, hr, hc⟩
  · rintro ⟨h0, hr, hc⟩
    exact setSize_total g r c h0 hr hc

theorem setSize_row {g g' : Grid} {r c : Nat} (e : g.setSize ⟨r, c⟩ = .ok g') (i : Nat) (hi : i < r) :
    g'.rows[i]? = some (rowAfter g c i) := by
  obtain ⟨_, _, _, rfl⟩ := setSize_inv e
  exact spec_row g r c i hi

/-- item 3: `size()` is `(r, c)`, there are `r` rows, every row has `c` cells and its wrap flag is false -/
theorem setSize_dims {g g' : Grid} {r c : Nat} (e : g.setSize ⟨r, c⟩ = .ok g') :
    g'.size = ⟨r, c⟩ ∧ g'.rows.length = r ∧ ∀ row ∈ g'.rows, row.cells.length = c ∧ row.wrapped = false := by
  obtain ⟨_, hr, hc, rfl⟩ := setSize_inv e
  obtain ⟨p1, p2, _⟩ := setSizeSpec_props g ⟨r, c⟩ hr hc
  refine ⟨p1, p2, ?_⟩
  intro row hrow
  obtain ⟨i, hi, rfl⟩ := List.getElem_of_mem hrow
  have hi' : i < r := by simpa [p2] using hi
  have := spec_row g r c i hi'
  rw [List.getElem?_eq_getElem hi] at this
  rw [Option.some.inj this]
  exact ⟨rowAfter_length g c i, rowAfter_wrapped g c i⟩

/-- item 1, weakest form (ANY grid, also ragged or unallocated): inside `r × c` the new cell is `cellAfter` -/
theorem setSize_cell_raw {g g' : Grid} {r c : Nat} (e : g.setSize ⟨r, c⟩ = .ok g') (i j : Nat)
    (hi : i < r) (hj : j < c) : g'.drawingCell ⟨i, j⟩ = some (cellAfter g c i j) := by
  simp only [Grid.drawingCell, Grid.drawingRow, setSize_row e i hi, Option.bind_some, Row.get]
  exact rowAfter_cell g c i j hj

/-- no cell outside the new bounds -/
theorem setSize_cell_outside {g g' : Grid} {r c : Nat} (e : g.setSize ⟨r, c⟩ = .ok g') (i j : Nat)
    (h : r ≤ i ∨ c ≤ j) : g'.drawingCell ⟨i, j⟩ = none := by
  obtain ⟨_, p2, p3⟩ := setSize_dims e
  simp only [Grid.drawingCell, Grid.drawingRow, Row.get]
  cases hrow : g'.rows[i]? with
  | none => rfl
  | some row =>
    have hi := getElem?_lt hrow
    have hm : row ∈ g'.rows := List.mem_of_getElem? hrow
    have hl := (p3 row hm).1
    simp only [Option.bind_some]
    rcases h with h | h
    · omega
    · exact List.getElem?_eq_none (by omega)


/-! ### positional statements on a well-shaped grid -/

/-- the grid has `size.rows` rows of `size.cols` cells (the allocated case of `GridInv`) -/
structure Shaped (g : Grid) : Prop where
  rows_len : g.rows.length = g.size.rows
  cols_len : ∀ row ∈ g.rows, row.cells.length = g.size.cols

theorem GridInv.shaped {g : Grid} {un : Bool} (h : GridInv W g un) (hl : g.rows.length = g.size.rows) :
    Shaped g := ⟨hl, fun row hrow => (h.row_ok row hrow).1⟩

theorem Shaped.cell_some {g : Grid} (h : Shaped g) (i j : Nat) (hi : i < g.size.rows) (hj : j < g.size.cols) :
    ∃ row x, g.rows[i]? = some row ∧ row.cells[j]? = some x ∧ g.drawingCell ⟨i, j⟩ = some x := by
  have hi' : i < g.rows.length := by rw [h.rows_len]; exact hi
  have hj' : j < (g.rows[i]).cells.length := by rw [h.cols_len _ (List.getElem_mem hi')]; exact hj
  refine ⟨g.rows[i], (g.rows[i]).cells[j], List.getElem?_eq_getElem hi', List.getElem?_eq_getElem hj', ?_⟩
  simp [Grid.drawingCell, Grid.drawingRow, Row.get, List.getElem?_eq_getElem hi', List.getElem?_eq_getElem hj']

theorem Shaped.cell_none {g : Grid} (h : Shaped g) (i j : Nat) (hij : g.size.rows ≤ i ∨ g.size.cols ≤ j) :
    g.drawingCell ⟨i, j⟩ = none := by
  simp only [Grid.drawingCell, Grid.drawingRow, Row.get]
  cases hrow : g.rows[i]? with
  | none => rfl
  | some row =>
    have hi := getElem?_lt hrow
    have hl := h.cols_len row (List.mem_of_getElem? hrow)
    have := h.rows_len
    simp only [Option.bind_some]
    rcases hij with h1 | h1
    · omega
    · exact List.getElem?_eq_none (by omega)

/-- newly exposed cells (row ≥ old rows or column ≥ old cols) are the default cell `Cell::new()` -/
theorem setSize_cell_new {g g' : Grid} {r c : Nat} (hs : Shaped g) (e : g.setSize ⟨r, c⟩ = .ok g')
    (i j : Nat) (hi : i < r) (hj : j < c) (hnew : g.size.rows ≤ i ∨ g.size.cols ≤ j) :
    g'.drawingCell ⟨i, j⟩ = some Cell.new := by
  rw [setSize_cell_raw e i j hi hj, cellAfter, hs.cell_none i j hnew]

/-- a cell of the intersection: kept, or — wide in the new last column — cleared with its own attributes -/
theorem setSize_cell_old {g g' : Grid} {r c : Nat} (hs : Shaped g) (e : g.setSize ⟨r, c⟩ = .ok g')
    (i j : Nat) (hi : i < r) (hj : j < c) (hi' : i < g.size.rows) (hj' : j < g.size.cols) :
    ∃ x, g.drawingCell ⟨i, j⟩ = some x ∧
      g'.drawingCell ⟨i, j⟩ = some (if j + 1 = c ∧ x.wide = true then x.clear x.attrs else x) := by
  obtain ⟨row, x, _, _, hx⟩ := hs.cell_some i j hi' hj'
  refine ⟨x, hx, ?_⟩
  rw [setSize_cell_raw e i j hi hj, cellAfter, hx]

/-- a wide cell of a well-formed grid is not in the last column and is followed by its continuation cell -/
theorem wide_inside {g : Grid} {un : Bool} (h : GridInv W g un) {i j : Nat} {x : Cell}
    (hx : g.drawingCell ⟨i, j⟩ = some x) (hw : x.wide = true) :
    j + 1 < g.size.cols ∧ ∃ d, g.drawingCell ⟨i, j + 1⟩ = some d ∧ d.cont = true := by
  simp only [Grid.drawingCell, Grid.drawingRow, Row.get] at hx ⊢
  cases hrow : g.rows[i]? with
  | none => simp [hrow] at hx
  | some row =>
    simp only [hrow, Option.bind_some] at hx ⊢
    have hm : row ∈ g.rows := List.mem_of_getElem? hrow
    obtain ⟨hlen, hok⟩ := h.row_ok row hm
    have hci := ((rowOk_iff W row).mp hok).2
    obtain ⟨d, hd, hdc⟩ := paired_wide_next hx hci.paired hw
    have := getElem?_lt hd
    exact ⟨by omega, d, hd, hdc⟩

/-- a continuation cell of a well-formed grid is preceded by its wide first half -/
theorem cont_after_wide {g : Grid} {un : Bool} (h : GridInv W g un) {i j : Nat} {x : Cell}
    (hx : g.drawingCell ⟨i, j⟩ = some x) (hc : x.cont = true) :
    ∃ k w, j = k + 1 ∧ g.drawingCell ⟨i, k⟩ = some w ∧ w.wide = true := by
  simp only [Grid.drawingCell, Grid.drawingRow, Row.get] at hx ⊢
  cases hrow : g.rows[i]? with
  | none => simp [hrow] at hx
  | some row =>
    simp only [hrow, Option.bind_some] at hx ⊢
    have hm : row ∈ g.rows := List.mem_of_getElem? hrow
    obtain ⟨hlen, hok⟩ := h.row_ok row hm
    have hci := ((rowOk_iff W row).mp hok).2
    exact paired_cont_prev hx hci.paired hc


/-- item 1, MAIN THEOREM: complete positional case analysis for a well-formed allocated grid, for every `i < r`, `j < c`:
* newly exposed (`i ≥ old rows ∨ j ≥ old cols`): the default cell;
* in the intersection, with `x` the old cell:
  - CUT (`j + 1 = c`, `c < old cols`, `x` wide): `x.clear x.attrs` (blank, `x`'s attributes kept — in general NOT the
    default cell), and the old cell at `(i, c)`, which is dropped, is its continuation half;
  - otherwise: `x` unchanged (in particular every continuation cell, and every wide cell with `j + 1 < c`) -/
theorem setSize_cell {g g' : Grid} {r c : Nat} (h : GridInv W g true) (hl : g.rows.length = g.size.rows)
    (e : g.setSize ⟨r, c⟩ = .ok g') (i j : Nat) (hi : i < r) (hj : j < c) :
    ((g.size.rows ≤ i ∨ g.size.cols ≤ j) → g'.drawingCell ⟨i, j⟩ = some Cell.new) ∧
    (i < g.size.rows → j < g.size.cols →
      ∃ x, g.drawingCell ⟨i, j⟩ = some x ∧
        ((j + 1 = c ∧ c < g.size.cols ∧ x.wide = true) →
            g'.drawingCell ⟨i, j⟩ = some (x.clear x.attrs) ∧
            ∃ d, g.drawingCell ⟨i, c⟩ = some d ∧ d.cont = true) ∧
        (¬ (j + 1 = c ∧ c < g.size.cols ∧ x.wide = true) → g'.drawingCell ⟨i, j⟩ = some x)) := by
  have hs := GridInv.shaped h hl
  refine ⟨setSize_cell_new hs e i j hi hj, ?_⟩
  intro hi' hj'
  obtain ⟨x, hx, hx'⟩ := setSize_cell_old hs e i j hi hj hi' hj'
  refine ⟨x, hx, ?_, ?_⟩
  · rintro ⟨h1, h2, h3⟩
    obtain ⟨_, d, hd, hdc⟩ := wide_inside h hx h3
    rw [hx']
    simp only [h1, h3, and_self, ↓reduceIte, true_and]
    exact ⟨d, by rw [← h1]; exact hd, hdc⟩
  · intro hn
    rw [hx']
    by_cases hc : j + 1 = c ∧ x.wide = true
    · exfalso
      obtain ⟨hlt, _⟩ := wide_inside h hx hc.2
      exact hn ⟨hc.1, by omega, hc.2⟩
    · simp only [hc, ↓reduceIte]

/-- widening or keeping the width (`c ≥ old cols`) cuts nothing: the intersection is preserved exactly -/
theorem setSize_cell_grow {g g' : Grid} {r c : Nat} (h : GridInv W g true) (hl : g.rows.length = g.size.rows)
    (e : g.setSize ⟨r, c⟩ = .ok g') (hge : g.size.cols ≤ c) (i j : Nat) (hi : i < r) (hi' : i < g.size.rows)
    (hj' : j < g.size.cols) :
    ∃ x, g.drawingCell ⟨i, j⟩ = some x ∧ g'.drawingCell ⟨i, j⟩ = some x := by
  obtain ⟨x, hx, _, h2⟩ := (setSize_cell h hl e i j hi (by omega)).2 hi' hj'
  exact ⟨x, hx, h2 (by omega)⟩

/-- a continuation cell inside the new width is never orphaned: it is kept and so is its wide first half (at `j - 1`),
both unchanged -/
theorem setSize_cont_kept {g g' : Grid} {r c : Nat} (h : GridInv W g true) (hl : g.rows.length = g.size.rows)
    (e : g.setSize ⟨r, c⟩ = .ok g') (i j : Nat) (hi : i < r) (hj : j < c) {x : Cell}
    (hx : g.drawingCell ⟨i, j⟩ = some x) (hcont : x.cont = true) :
    g'.drawingCell ⟨i, j⟩ = some x ∧
      ∃ k w, j = k + 1 ∧ g.drawingCell ⟨i, k⟩ = some w ∧ w.wide = true ∧ g'.drawingCell ⟨i, k⟩ = some w := by
  have hs := GridInv.shaped h hl
  have hij : i < g.size.rows ∧ j < g.size.cols := by
    rcases Nat.lt_or_ge i g.size.rows with h1 | h1
    · rcases Nat.lt_or_ge j g.size.cols with h2 | h2
      · exact ⟨h1, h2⟩
      · rw [hs.cell_none i j (Or.inr h2)] at hx; cases hx
    · rw [hs.cell_none i j (Or.inl h1)] at hx; cases hx
  obtain ⟨k, w, rfl, hw, hww⟩ := cont_after_wide h hx hcont
  have hnw : x.wide = false := by
    have hxx := hx
    simp only [Grid.drawingCell, Grid.drawingRow, Row.get] at hxx
    cases hrow : g.rows[i]? with
    | none => simp [hrow] at hxx
    | some row =>
      simp only [hrow, Option.bind_some] at hxx
      have hm : row ∈ g.rows := List.mem_of_getElem? hrow
      have hci := ((rowOk_iff W row).mp (h.row_ok row hm).2).2
      exact (cellOk_cont W x (hci.cells_ok x (List.mem_of_getElem? hxx)) hcont).1
  obtain ⟨x', hx1, _, hx2⟩ := (setSize_cell h hl e i (k + 1) hi hj).2 hij.1 hij.2
  rw [hx] at hx1; cases hx1
  obtain ⟨w', hw1, _, hw2⟩ := (setSize_cell h hl e i k hi (by omega)).2 hij.1 (by omega)
  rw [hw] at hw1; cases hw1
  refine ⟨hx2 (by simp [hnw]), k, w, rfl, hw, hww, hw2 (by omega)⟩

/-- the alternate grid before its first use (`rows = []`, allowed by `GridInv _ _ true`): `set_size` allocates it —
`r` rows (`setSize_dims`) of default cells -/
theorem setSize_cell_unallocated {g g' : Grid} {r c : Nat} (hg : g.rows = [])
    (e : g.setSize ⟨r, c⟩ = .ok g') (i j : Nat) (hi : i < r) (hj : j < c) :
    g'.drawingCell ⟨i, j⟩ = some Cell.new := by
  rw [setSize_cell_raw e i j hi hj]
  simp [cellAfter, Grid.drawingCell, Grid.drawingRow, hg]

/-- a wide character that fits (`j + 1 < c`) stays whole: first half and continuation both unchanged -/
theorem setSize_wide_kept {g g' : Grid} {r c : Nat} (h : GridInv W g true) (hl : g.rows.length = g.size.rows)
    (e : g.setSize ⟨r, c⟩ = .ok g') (i j : Nat) (hi : i < r) (hj : j + 1 < c) {x : Cell}
    (hx : g.drawingCell ⟨i, j⟩ = some x) (hw : x.wide = true) :
    g'.drawingCell ⟨i, j⟩ = some x ∧
      ∃ d, g.drawingCell ⟨i, j + 1⟩ = some d ∧ d.cont = true ∧ g'.drawingCell ⟨i, j + 1⟩ = some d := by
  obtain ⟨_, d, hd, hdc⟩ := wide_inside h hx hw
  obtain ⟨k1, k, w, hk, hw1, _, hw2⟩ := setSize_cont_kept h hl e i (j + 1) hi hj hd hdc
  have : k = j := by omega
  subst this
  rw [hx] at hw1; cases hw1
  exact ⟨hw2, d, hd, hdc, k1⟩

/-- item 3: the row count -/
theorem setSize_rows_count {g g' : Grid} {r c : Nat} (e : g.setSize ⟨r, c⟩ = .ok g') : g'.rows.length = r :=
  (setSize_dims e).2.1

/-- item 2, the exact rule for wrap flags: EVERY row of the result is unwrapped — whether or not the width
changed (Rust: `Row::resize` assigns `wrapped = false` unconditionally, and `set_size` calls it on every row; new
rows are `Row::new`).  In particular a rows-only or same-size `set_size` clears all wrap flags (test `ex_rows`,
`ex_same_size`) -/
theorem setSize_wrapped {g g' : Grid} {r c : Nat} (e : g.setSize ⟨r, c⟩ = .ok g') :
    ∀ row ∈ g'.rows, row.wrapped = false :=
  fun row hrow => ((setSize_dims e).2.2 row hrow).2

/-! ### the frame -/

/-- item 4, closed forms: cursor and saved cursor are clamped componentwise to `(r-1, c-1)` (a cursor in the
pending-wrap column `cols` is pulled back to `c - 1` even when `c = cols`); a scroll region whose bottom was the last
row follows the new last row, any other bottom is clamped to `r - 1`; the top is reset to 0 if the new bottom is
above it; origin modes, the scrollback rows (NOT resized: they keep their old width, finding F12), the capacity and
the scrollback offset are untouched -/
theorem setSize_frame {g g' : Grid} {r c : Nat} (e : g.setSize ⟨r, c⟩ = .ok g') :
    g'.pos = ⟨min g.pos.row (r - 1), min g.pos.col (c - 1)⟩ ∧
    g'.savedPos = ⟨min g.savedPos.row (r - 1), min g.savedPos.col (c - 1)⟩ ∧
    g'.scrollBottom = (if g.scrollBottom = g.size.rows - 1 then r - 1 else min g.scrollBottom (r - 1)) ∧
    g'.scrollTop = (if g'.scrollBottom < g.scrollTop then 0 else g.scrollTop) ∧
    g'.originMode = g.originMode ∧ g'.savedOriginMode = g.savedOriginMode ∧
    g'.scrollback = g.scrollback ∧ g'.scrollbackLen = g.scrollbackLen ∧
    g'.scrollbackOffset = g.scrollbackOffset := by
  obtain ⟨_, hr, hc, rfl⟩ := setSize_inv e
  simp only at hr hc
  simp only [setSizeSpec, beq_iff_eq, ge_iff_le, true_and, and_true]
  by_cases h1 : g.scrollBottom = g.size.rows - 1
  · have : ¬ r ≤ r - 1 := by omega
    simp [h1, this]
  · simp only [h1, ↓reduceIte]
    by_cases h2 : r ≤ g.scrollBottom
    · have : min g.scrollBottom (r - 1) = r - 1 := by omega
      simp [h2, this]
    · have : min g.scrollBottom (r - 1) = g.scrollBottom := by omega
      simp [h2, this]

/-- cursor, saved cursor and region end up inside the new bounds (restates `C16.setSizeSpec_props`) -/
theorem setSize_frame_bounds {g g' : Grid} {r c : Nat} (e : g.setSize ⟨r, c⟩ = .ok g') :
    g'.pos.row < r ∧ g'.pos.col < c ∧ g'.savedPos.row < r ∧ g'.savedPos.col < c ∧
    g'.scrollTop ≤ g'.scrollBottom ∧ g'.scrollBottom < r := by
  obtain ⟨_, hr, hc, rfl⟩ := setSize_inv e
  obtain ⟨_, _, _, _, _, p6, p7, p8, p9, p10, p11⟩ := setSizeSpec_props g ⟨r, c⟩ hr hc
  exact ⟨p6, p7, p8, p9, p11, p10⟩


/-! ### screen level -/

/-- item 5: `Screen::set_size(r, c)` is `Grid::set_size` on BOTH grids and nothing else -/
theorem screen_setSize_inv {s s' : Screen} {r c : Nat} (e : s.setSize r c = .ok s') :
    ∃ g1 g2, s.grid.setSize ⟨r, c⟩ = .ok g1 ∧ s.altGrid.setSize ⟨r, c⟩ = .ok g2 ∧
      s' = { s with grid := g1, altGrid := g2 } := by
  unfold Screen.setSize at e
  obtain ⟨g1, h1, e⟩ := bind_eq_ok.mp e
  obtain ⟨g2, h2, e⟩ := bind_eq_ok.mp e
  exact ⟨g1, g2, h1, h2, (Except.ok.inj e).symm⟩

/-- `Screen::set_size(r, c)` returns iff both grids have ≥ 1 row and `r, c ≥ 1` (in particular under `Inv`) -/
theorem screen_setSize_total_iff (s : Screen) (r c : Nat) :
    (∃ s', s.setSize r c = .ok s') ↔
      1 ≤ s.grid.size.rows ∧ 1 ≤ s.altGrid.size.rows ∧ 1 ≤ r ∧ 1 ≤ c := by
  constructor
  · rintro ⟨s', e⟩
    obtain ⟨g1, g2, h1, h2, _⟩ := screen_setSize_inv e
    obtain ⟨a1, a2, a3, _⟩ := setSize_inv h1
    obtain ⟨b1, _⟩ := setSize_inv h2
    exact ⟨a1, b1, a2, a3⟩
  · rintro ⟨h1, h2, hr, hc⟩
    exact ⟨_, setSize_size s r c h1 h2 hr hc⟩

/-- `size()` reports `(r, c)`: on the active screen, and whichever screen is made active afterwards; modes, pens and the
alternate-screen flag are untouched -/
theorem screen_setSize_size {s s' : Screen} {r c : Nat} (e : s.setSize r c = .ok s') :
    s'.grid.size = ⟨r, c⟩ ∧ s'.altGrid.size = ⟨r, c⟩ ∧ s'.size = ⟨r, c⟩ ∧
    (∀ b, ({ s' with altScreen := b } : Screen).size = ⟨r, c⟩) ∧
    s'.altScreen = s.altScreen ∧ s'.attrs = s.attrs ∧ s'.savedAttrs = s.savedAttrs ∧
    s'.appKeypad = s.appKeypad ∧ s'.appCursor = s.appCursor ∧ s'.hideCursor = s.hideCursor ∧
    s'.bracketedPaste = s.bracketedPaste ∧ s'.mouseMode = s.mouseMode ∧ s'.mouseEnc = s.mouseEnc := by
  obtain ⟨g1, g2, h1, h2, rfl⟩ := screen_setSize_inv e
  have d1 := (setSize_dims h1).1
  have d2 := (setSize_dims h2).1
  refine ⟨d1, d2, ?_, ?_, rfl, rfl, rfl, rfl, rfl, rfl, rfl, rfl, rfl⟩
  · simp only [Screen.size, Screen.cur]; split <;> assumption
  · intro b; cases b <;> simp [Screen.size, Screen.cur, d1, d2]

/-- the active grid of the result is the resized active grid -/
theorem screen_setSize_cur {s s' : Screen} {r c : Nat} (e : s.setSize r c = .ok s') :
    s.cur.setSize ⟨r, c⟩ = .ok s'.cur := by
  obtain ⟨g1, g2, h1, h2, rfl⟩ := screen_setSize_inv e
  simp only [Screen.cur]
  split <;> assumption

/-- under `Inv` the primary grid, the alternate grid (allocated or not) and the active grid meet the hypotheses of the
grid-level theorems above (`setSize_cell` for allocated grids, `setSize_cell_unallocated` otherwise) -/
theorem screen_setSize_grids {s s' : Screen} {r c : Nat} (hs : ScreenInv W s) (e : s.setSize r c = .ok s') :
    (GridInv W s.grid true ∧ s.grid.rows.length = s.grid.size.rows ∧ s.grid.setSize ⟨r, c⟩ = .ok s'.grid) ∧
    (GridInv W s.altGrid true ∧ (s.altGrid.rows = [] ∨ s.altGrid.rows.length = s.altGrid.size.rows) ∧
      s.altGrid.setSize ⟨r, c⟩ = .ok s'.altGrid) ∧
    (GridInv W s.cur true ∧ s.cur.rows.length = s.cur.size.rows ∧ s.cur.setSize ⟨r, c⟩ = .ok s'.cur) := by
  have hc := screen_setSize_cur e
  obtain ⟨g1, g2, h1, h2, rfl⟩ := screen_setSize_inv e
  refine ⟨⟨hs.grid.mono, ?_, h1⟩, ⟨hs.alt, ?_, h2⟩, ⟨hs.cur.1, hs.cur.2, hc⟩⟩
  · rcases hs.grid.rows_len with ⟨hf, _⟩ | hl
    · simp at hf
    · exact hl
  · rcases hs.alt.rows_len with ⟨_, he⟩ | hl
    · exact Or.inl he
    · exact Or.inr hl

/-- public API form: at scrollback offset 0 (which `set_size` does not change), `cell(i, j)` after `set_size(r, c)` is
`cellAfter` of the active grid, for all `i < r`, `j < c`.  (At an offset > 0 `cell` reads scrollback rows, which keep
their old width: F12.) -/
theorem screen_setSize_cell {s s' : Screen} {r c : Nat} (e : s.setSize r c = .ok s')
    (h0 : s.cur.scrollbackOffset = 0) (i j : Nat) (hi : i < r) (hj : j < c) :
    s'.cell i j = .ok (some (cellAfter s.cur c i j)) := by
  have hc := screen_setSize_cur e
  have hoff : s'.cur.scrollbackOffset = 0 := by
    rw [(setSize_frame hc).2.2.2.2.2.2.2.2]; exact h0
  have := setSize_cell_raw hc i j hi hj
  simp only [Grid.drawingCell, Grid.drawingRow] at this
  simp only [Screen.cell, Grid.visibleCell, Grid.visibleRow, C13.visibleRows_offset0 _ hoff, ok_bind,
    pure_eq_ok, this]


/-! ### sanity / non-vacuity (tests: kernel evaluation of the model on one concrete screen) -/

def okTrue : M Bool → Bool
  | .ok b => b
  | .error _ => false

/-- 2x4, capacity 5: "x\r\nab", SGR 7, "一" (wide, columns 2–3, cursor left at column 4), DECSC, "c"
(wraps and scrolls).  Afterwards: row 0 = `a b 一 ·` with its wrap flag SET, row 1 = `c`, cursor (1,1),
saved cursor (1,4), one scrollback row of width 4, alternate grid not allocated. -/
def exScreen : M Screen := do
  let p ← C02.run 2 4 5 [[120, 13, 10, 97, 98, 0x1b, 0x5b, 0x37, 0x6d, 0xE4, 0xB8, 0x80, 0x1b, 0x37, 99]]
  pure p.screen

def cellsOf (g : Grid) : List (List Cell) := g.rows.map (·.cells)
def cellAt (g : Grid) (i j : Nat) : Cell := (g.drawingCell ⟨i, j⟩).getD Cell.new

/-- TEST: the example meets the hypotheses of the theorems (`Inv`, wide character at columns 2–3 of row 0
with non-default attributes, wrap flag set, saved cursor in the pending-wrap column, alt grid unallocated) -/
theorem ex_hyps : okTrue (do
    let s ← exScreen
    let g := s.grid
    pure (invB W0 s && g.size == ⟨2, 4⟩ && g.rows.length == 2 &&
      (cellAt g 0 2).wide && (cellAt g 0 3).cont && (cellAt g 0 2).attrs.inverse &&
      (g.rows.map (·.wrapped) == [true, false]) && g.pos == ⟨1, 1⟩ && g.savedPos == ⟨1, 4⟩ &&
      g.scrollback.map (·.cells.length) == [4] && s.altGrid.rows.isEmpty && !s.altScreen)) = true := by
  decide +kernel

/-- TEST: 4 → 3 columns: the wide character is cut; its first half is blanked KEEPING ITS ATTRIBUTES (so the
cell is not the default cell), everything else of the intersection is kept, wrap flags cleared, saved cursor
column 4 → 2, the scrollback row keeps width 4 (F12), the alternate grid becomes 2 blank rows of 3 -/
theorem ex_cut : okTrue (do
    let s ← exScreen
    let s' ← s.setSize 2 3
    let g := s.grid
    let g' := s'.grid
    let x := cellAt g 0 2
    pure (g'.size == ⟨2, 3⟩ && s'.altGrid.size == ⟨2, 3⟩ &&
      cellsOf g' == [[cellAt g 0 0, cellAt g 0 1, x.clear x.attrs], [cellAt g 1 0, cellAt g 1 1, cellAt g 1 2]] &&
      (cellAt g' 0 2).attrs.inverse && !(cellAt g' 0 2).wide && (cellAt g' 0 2 != Cell.new) &&
      (g'.rows.map (·.wrapped) == [false, false]) &&
      g'.pos == ⟨1, 1⟩ && g'.savedPos == ⟨1, 2⟩ && g'.scrollTop == 0 && g'.scrollBottom == 1 &&
      g'.scrollback == g.scrollback && g'.scrollback.map (·.cells.length) == [4] &&
      cellsOf s'.altGrid == List.replicate 2 (List.replicate 3 Cell.new) &&
      invB W0 s')) = true := by
  decide +kernel

/-- TEST: 4 → 5 columns: all old cells kept (the wide pair included), the new column is the default cell,
wrap flags cleared -/
theorem ex_grow_cols : okTrue (do
    let s ← exScreen
    let s' ← s.setSize 2 5
    let g := s.grid
    let g' := s'.grid
    pure (g'.size == ⟨2, 5⟩ &&
      cellsOf g' == (cellsOf g).map (· ++ [Cell.new]) &&
      (cellAt g' 0 2).wide && (cellAt g' 0 3).cont &&
      (g'.rows.map (·.wrapped) == [false, false]) && g'.savedPos == ⟨1, 4⟩ && invB W0 s')) = true := by
  decide +kernel

/-- TEST: rows only, 2 → 1 and 2 → 3 (same width): cells of the kept rows unchanged, the new row blank, and the
wrap flag of row 0 is CLEARED although the width did not change; cursors clamped to the last row; a
full-screen scroll region follows the new height -/
theorem ex_rows : okTrue (do
    let s ← exScreen
    let s1 ← s.setSize 1 4
    let s3 ← s.setSize 3 4
    let g := s.grid
    pure (s1.grid.size == ⟨1, 4⟩ && cellsOf s1.grid == (cellsOf g).take 1 &&
      (s1.grid.rows.map (·.wrapped) == [false]) && s1.grid.pos == ⟨0, 1⟩ && s1.grid.savedPos == ⟨0, 3⟩ &&
      s1.grid.scrollBottom == 0 && s1.grid.scrollTop == 0 &&
      s3.grid.size == ⟨3, 4⟩ && cellsOf s3.grid == cellsOf g ++ [List.replicate 4 Cell.new] &&
      (s3.grid.rows.map (·.wrapped) == [false, false, false]) && s3.grid.pos == ⟨1, 1⟩ &&
      s3.grid.savedPos == ⟨1, 3⟩ && s3.grid.scrollBottom == 2 && invB W0 s1 && invB W0 s3)) = true := by
  decide +kernel

/-- TEST: `set_size` to the CURRENT size is not the identity: the cells are kept, but wrap flags are cleared
and a cursor / saved cursor in the pending-wrap column `cols` is pulled back to `cols - 1` -/
theorem ex_same_size : okTrue (do
    let s ← exScreen
    let s' ← s.setSize 2 4
    pure (cellsOf s'.grid == cellsOf s.grid && s'.grid.rows.map (·.wrapped) == [false, false] &&
      s.grid.savedPos == ⟨1, 4⟩ && s'.grid.savedPos == ⟨1, 3⟩ && s' != s)) = true := by
  decide +kernel

/-- NON-VACUITY of the cut branch of `setSize_cell`: on the example screen (which satisfies `Inv`, `ex_hyps`) the
theorem's cut case applies at `(0, 2)` for `c = 3` -/
theorem setSize_cell_nonvacuous : okTrue (do
    let s ← exScreen
    let g := s.grid
    let g' ← g.setSize ⟨2, 3⟩
    pure (gridOk W0 g true && g.rows.length == g.size.rows &&
      (match g.drawingCell ⟨0, 2⟩, g.drawingCell ⟨0, 3⟩ with
       | some x, some d => x.wide && d.cont && decide (2 + 1 = 3 ∧ 3 < g.size.cols) &&
           g'.drawingCell ⟨0, 2⟩ == some (x.clear x.attrs) && (x.clear x.attrs != Cell.new)
       | _, _ => false))) = true := by
  decide +kernel

end Vt.C16cells

/-
#print axioms Vt.C16cells.setSize_cell
#print axioms Vt.C16cells.setSize_cell_raw
#print axioms Vt.C16cells.setSize_cell_outside
#print axioms Vt.C16cells.setSize_cell_grow
#print axioms Vt.C16cells.setSize_cont_kept
#print axioms Vt.C16cells.setSize_wide_kept
#print axioms Vt.C16cells.setSize_cell_unallocated
#print axioms Vt.C16cells.setSize_dims
#print axioms Vt.C16cells.setSize_wrapped
#print axioms Vt.C16cells.setSize_frame
#print axioms Vt.C16cells.setSize_frame_bounds
#print axioms Vt.C16cells.setSize_total_iff
#print axioms Vt.C16cells.screen_setSize_size
#print axioms Vt.C16cells.screen_setSize_grids
#print axioms Vt.C16cells.screen_setSize_cell
#print axioms Vt.C16cells.screen_setSize_total_iff
#print axioms Vt.C16cells.ex_cut
-- all: ⊆ {propext, Classical.choice, Quot.sound}
-/
