/-
  C09spec — a specification FUNCTION for SGR (`CSI … m`) and the theorem that the model of
  `Screen::sgr` equals it, for EVERY parameter list, from EVERY pen.

  Rust: /repo/src/screen.rs `Screen::sgr` (the `loop { match next_param!() { … } }`), reached from
  `Perform::csi_dispatch` for final byte `m` without intermediates.  Model: `Vt.sgr` / `Vt.sgrLoop`
  (Vt/Model/Perform.lean), called by `performCsi` with `unh = emit cb (unhandledCsi none none params 109)`.

  A "group" is one `;`-separated parameter with its `:` sub-parameters, as vte hands them over
  (`CSI 1;38:5:9 m` = `[[1], [38,5,9]]`; `CSI m` = `[[0]]`).

  SPEC (independent of the shape of `sgrLoop`):
  * `classifySingle`, `classifyColon`, `classify` : what ONE group means on its own —
    `set f` (reset / intensity / flag on-off / basic, bright, default colour / colon-form extended colour),
    `ext layer` (a bare 38 / 48, arguments follow), `stop` (colon form out of range), `unknown`.
  * `sgrRun pen groups : Attrs × Nat` : structural recursion over the groups; final pen and the number of
    unhandled-CSI reports.  `sgrSpec` = `sgrRun` plus the "no parameter at all resets" clause.
  * `ending groups : complete | truncated | malformed` : how the list ends.

  MAIN THEOREMS
  * `sgr_spec`      : `sgr unh groups ws = ok (finish e ws (sgrSpec pen groups))` for all `groups : List (List Nat)`
                      (no bound on length or values), all `ws`, every closure that only logs the event.
  * `perform_sgr`, `perform_sgr_cbNone`, `perform_sgr_cbResize` : the same through `perform`.
  * `sgr_spec_pen`, `perform_sgr_pen` : for ANY closure / callback object that leaves the pen alone
                      (it may change everything else, or fail): the pen is `(sgrSpec pen groups).1`.
  * `process_sgr_bytes` : the same from the bytes `ESC [ p1;…;pk m` through the vte model.
  COROLLARIES (section `corollaries`): `sgr_nil`, `sgr_zero`, `run_*` one-liners for every clause,
  `intensity_exclusive`, `run_intensity_last_wins`, `ext_semicolon_idx/rgb`, `ext_colon_idx/rgb`,
  `ext_*_range`, `ext_semicolon_selector`, `ext_truncated`, `ext_colon_other`, `unknown_skipped`,
  `sgr_append_wellformed`, `sgr_stops`, `sgr_stops_after`.

  READING — what the property text leaves open and the code (hence this specification) does:
  the property says what well-formed parameters do and that unknown ones are skipped.  For a 38 / 48 that
  is NOT followed by a well-formed colour, `Screen::sgr` does not skip — it RETURNS, so every later
  parameter of the same sequence is dropped (earlier ones have already been applied):
    - `38;5;n` with n > 255, `38;2;r;g;b` with a component > 255 (the `u16_to_u8` conversion fails; there is
      no clamping or wrapping), and the colon forms `38:5:n`, `38:2:r:g:b` likewise: return SILENTLY, colour
      unchanged.  `CSI 38;5;300;1 m` does not set bold.
    - `38` / `38;5` / `38;2` / `38;2;r` / `38;2;r;g` at the end of the sequence: silently nothing.
    - `38;5;X` or `38;2;…X…` where X is a group with sub-parameters (e.g. `38;5;1:2`): return silently.
    - `38;X` where X is not the single number 2 or 5 (e.g. `38;7`, `38;5:1`): ONE unhandled-CSI event, then
      return.  `CSI 38;7;1 m` reports once and does not set bold.
  Not malformed in this sense, but plain UNKNOWN parameters (one event each, later parameters still apply):
  any other number; an empty group; a multi-number group not of the exact shapes `38:5:n` / `38:2:r:g:b`
  (48 alike) — in particular `38:5`, `38:2:r:g`, `38:7:…` and the ITU form `38:2::r:g:b` (= `[38,2,0,r,g,b]`).
  The event always carries the WHOLE parameter list of the sequence, so the n reports of one sequence are
  n equal events.
-/
import Vt.Model.Perform
import Vt.Lemmas.Except
import Vt.Props.C09
import Vt.Props.C09b
namespace Vt.C09spec
open Vt

/-! ## The specification -/

/-- which of the two colours of the pen an SGR colour parameter selects -/
inductive Layer where
  | fg | bg
  deriving Repr, DecidableEq

/-- put a colour on a layer of the pen -/
def Layer.set : Layer → Color → Attrs → Attrs
  | .fg, c, a => { a with fg := c }
  | .bg, c, a => { a with bg := c }

/-- what ONE parameter group (one `;`-separated parameter with its `:` sub-parameters) means,
looked at on its own -/
inductive Head where
  /-- complete and meaningful: change the pen by `f`, go on with the next group -/
  | set (f : Attrs → Attrs)
  /-- a bare `38` / `48`: the colour is spelled out in the FOLLOWING groups -/
  | ext (l : Layer)
  /-- a colon form `38:5:n` / `38:2:r:g:b` (or 48) with a component above 255: stop, silently -/
  | stop
  /-- anything else: report one unhandled-CSI event, skip the group, go on -/
  | unknown

/-- a group consisting of a single number -/
def classifySingle (n : Nat) : Head :=
  -- reset
  if n = 0 then .set (fun _ => Attrs.default)
  -- intensity: one three-valued field, so bold / dim / normal exclude one another
  else if n = 1 then .set (fun a => { a with intensity := .bold })
  else if n = 2 then .set (fun a => { a with intensity := .dim })
  else if n = 22 then .set (fun a => { a with intensity := .normal })
  -- flags on / off
  else if n = 3 then .set (fun a => { a with italic := true })
  else if n = 23 then .set (fun a => { a with italic := false })
  else if n = 4 then .set (fun a => { a with underline := true })
  else if n = 24 then .set (fun a => { a with underline := false })
  else if n = 7 then .set (fun a => { a with inverse := true })
  else if n = 27 then .set (fun a => { a with inverse := false })
  -- basic colours
  else if 30 ≤ n ∧ n ≤ 37 then .set (Layer.fg.set (.idx (n - 30)))
  else if 40 ≤ n ∧ n ≤ 47 then .set (Layer.bg.set (.idx (n - 40)))
  -- bright colours
  else if 90 ≤ n ∧ n ≤ 97 then .set (Layer.fg.set (.idx (n - 90 + 8)))
  else if 100 ≤ n ∧ n ≤ 107 then .set (Layer.bg.set (.idx (n - 100 + 8)))
  -- default colours
  else if n = 39 then .set (Layer.fg.set .default)
  else if n = 49 then .set (Layer.bg.set .default)
  -- extended colours, `;` form: arguments follow
  else if n = 38 then .ext .fg
  else if n = 48 then .ext .bg
  else .unknown

/-- the sub-parameters after `38:` / `48:` inside one group -/
def classifyColon (l : Layer) : List Nat → Head
  | [5, n] => if n ≤ 255 then .set (l.set (.idx n)) else .stop
  | [2, r, g, b] => if r ≤ 255 ∧ g ≤ 255 ∧ b ≤ 255 then .set (l.set (.rgb r g b)) else .stop
  | _ => .unknown

/-- one group.  (vte never delivers an empty group; the code treats it as unknown.) -/
def classify : List Nat → Head
  | [] => .unknown
  | [n] => classifySingle n
  | n :: sub => if n = 38 then classifyColon .fg sub else if n = 48 then classifyColon .bg sub else .unknown

/-- one more unhandled-CSI report in front of what follows -/
def report (r : Attrs × Nat) : Attrs × Nat := (r.1, r.2 + 1)

/-- the parameters one after the other: final pen and number of unhandled-CSI reports.
A result `(pen, k)` that does not mention `rest` is a STOP: the remaining groups are ignored. -/
def sgrRun (pen : Attrs) : List (List Nat) → Attrs × Nat
  | [] => (pen, 0)
  | g :: rest =>
    match classify g with
    | .set f => sgrRun (f pen) rest
    | .unknown => report (sgrRun pen rest)
    | .stop => (pen, 0)
    | .ext l =>
      match rest with
      -- `38` is the last parameter: silently nothing
      | [] => (pen, 0)
      -- `38;5;n`: well-formed if n fits a byte; otherwise stop silently
      | [5] :: [n] :: rest' => if n ≤ 255 then sgrRun (l.set (.idx n) pen) rest' else (pen, 0)
      -- `38;5` at the end, or followed by a group with sub-parameters: stop silently
      | [5] :: _ => (pen, 0)
      -- `38;2;r;g;b`: well-formed if all three fit a byte; otherwise stop silently
      | [2] :: [r] :: [g] :: [b] :: rest' =>
        if r ≤ 255 ∧ g ≤ 255 ∧ b ≤ 255 then sgrRun (l.set (.rgb r g b) pen) rest' else (pen, 0)
      -- `38;2` followed by fewer than three groups, or by one with sub-parameters: stop silently
      | [2] :: _ => (pen, 0)
      -- `38;x`, x not the single number 2 or 5: ONE report, then stop
      | _ :: _ => (pen, 1)

/-- **the specification of `CSI groups m`**: pen afterwards, number of unhandled-CSI events reported.
An empty `Params` (which vte never produces: `CSI m` arrives as `[[0]]`) resets, like `0`. -/
def sgrSpec (pen : Attrs) (groups : List (List Nat)) : Attrs × Nat :=
  if groups = [] then (Attrs.default, 0) else sgrRun pen groups

/-! ## Head laws of the specification -/

section laws
variable (pen : Attrs) (rest : List (List Nat))

theorem run_nil : sgrRun pen [] = (pen, 0) := rfl

theorem run_set {g : List Nat} {f : Attrs → Attrs} (h : classify g = .set f) :
    sgrRun pen (g :: rest) = sgrRun (f pen) rest := by
  simp [sgrRun, h]

theorem run_unknown {g : List Nat} (h : classify g = .unknown) :
    sgrRun pen (g :: rest) = report (sgrRun pen rest) := by
  simp [sgrRun, h]

theorem run_stop {g : List Nat} (h : classify g = .stop) :
    sgrRun pen (g :: rest) = (pen, 0) := by
  simp [sgrRun, h]

theorem classifySingle_fg {n : Nat} (h : 30 ≤ n ∧ n ≤ 37) :
    classifySingle n = .set (Layer.fg.set (.idx (n - 30))) := by
  have hne : ∀ k, k < 30 → ¬ n = k := by omega
  simp [classifySingle, hne, h]

theorem classifySingle_bg {n : Nat} (h : 40 ≤ n ∧ n ≤ 47) :
    classifySingle n = .set (Layer.bg.set (.idx (n - 40))) := by
  have hne : ∀ k, k < 30 → ¬ n = k := by omega
  have h1 : ¬ n ≤ 37 := by omega
  simp [classifySingle, hne, h, h1]

theorem classifySingle_fg_bright {n : Nat} (h : 90 ≤ n ∧ n ≤ 97) :
    classifySingle n = .set (Layer.fg.set (.idx (n - 90 + 8))) := by
  have hne : ∀ k, k < 30 → ¬ n = k := by omega
  have h1 : ¬ n ≤ 37 := by omega
  have h2 : ¬ n ≤ 47 := by omega
  simp [classifySingle, hne, h, h1, h2]

theorem classifySingle_bg_bright {n : Nat} (h : 100 ≤ n ∧ n ≤ 107) :
    classifySingle n = .set (Layer.bg.set (.idx (n - 100 + 8))) := by
  have hne : ∀ k, k < 30 → ¬ n = k := by omega
  have h1 : ¬ n ≤ 37 := by omega
  have h2 : ¬ n ≤ 47 := by omega
  have h3 : ¬ n ≤ 97 := by omega
  simp [classifySingle, hne, h, h1, h2, h3]

/-- the single numbers that mean something -/
def knownSingle (n : Nat) : Prop :=
  n = 0 ∨ n = 1 ∨ n = 2 ∨ n = 22 ∨ n = 3 ∨ n = 23 ∨ n = 4 ∨ n = 24 ∨ n = 7 ∨ n = 27 ∨
  (30 ≤ n ∧ n ≤ 49) ∨ (90 ≤ n ∧ n ≤ 97) ∨ (100 ≤ n ∧ n ≤ 107)

theorem classifySingle_unknown {n : Nat} (h : ¬ knownSingle n) : classifySingle n = .unknown := by
  unfold knownSingle at h
  have e0 : ¬ n = 0 := by omega
  have e1 : ¬ n = 1 := by omega
  have e2 : ¬ n = 2 := by omega
  have e3 : ¬ n = 3 := by omega
  have e4 : ¬ n = 4 := by omega
  have e7 : ¬ n = 7 := by omega
  have e22 : ¬ n = 22 := by omega
  have e23 : ¬ n = 23 := by omega
  have e24 : ¬ n = 24 := by omega
  have e27 : ¬ n = 27 := by omega
  have e38 : ¬ n = 38 := by omega
  have e39 : ¬ n = 39 := by omega
  have e48 : ¬ n = 48 := by omega
  have e49 : ¬ n = 49 := by omega
  have r1 : ¬ (30 ≤ n ∧ n ≤ 37) := by omega
  have r2 : ¬ (40 ≤ n ∧ n ≤ 47) := by omega
  have r3 : ¬ (90 ≤ n ∧ n ≤ 97) := by omega
  have r4 : ¬ (100 ≤ n ∧ n ≤ 107) := by omega
  simp only [classifySingle, e0, e1, e2, e3, e4, e7, e22, e23, e24, e27, e38, e39, e48, e49, r1, r2, r3, r4,
    ↓reduceIte]

end laws

/-- the wrapped screen after an SGR whose specification result is `r`: only the pen differs, and `r.2`
copies of the event `e` are appended to the callback log -/
def finish (e : Event) (ws : WS) (r : Attrs × Nat) : WS :=
  { screen := { ws.screen with attrs := r.1 }, events := ws.events ++ List.replicate r.2 e }


theorem finish_zero (e : Event) (ws : WS) : finish e ws (ws.screen.attrs, 0) = ws := by
  simp [finish]

theorem finish_one (e : Event) (ws : WS) :
    finish e ws (ws.screen.attrs, 1) = { ws with events := ws.events ++ [e] } := by
  simp [finish]

theorem finish_report (e : Event) (ws : WS) (r : Attrs × Nat) :
    finish e { ws with events := ws.events ++ [e] } r = finish e ws (report r) := by
  simp [finish, report, List.replicate_succ]

theorem classifyColon_unknown (l : Layer) {sub : List Nat}
    (h5 : ∀ n, sub = [5, n] → False) (h2 : ∀ r g b, sub = [2, r, g, b] → False) :
    classifyColon l sub = .unknown := by
  unfold classifyColon
  split
  · exact (h5 _ rfl).elim
  · exact (h2 _ _ _ rfl).elim
  · rfl

theorem classify_default {p : List Nat}
    (h1 : ∀ n, p = [n] → False)
    (h2 : ∀ r g b, p = [38, 2, r, g, b] → False) (h3 : ∀ i, p = [38, 5, i] → False)
    (h4 : ∀ r g b, p = [48, 2, r, g, b] → False) (h5 : ∀ i, p = [48, 5, i] → False) :
    classify p = .unknown := by
  match p with
  | [] => rfl
  | [n] => exact (h1 n rfl).elim
  | a :: b :: t =>
    simp only [classify]
    by_cases ha : a = 38
    · subst ha
      simp only [↓reduceIte]
      exact classifyColon_unknown _ (fun n h => h3 n (by rw [h])) (fun r g b h => h2 r g b (by rw [h]))
    · by_cases hb : a = 48
      · subst hb
        simp only [show ¬ (48 = 38) by decide, ↓reduceIte]
        exact classifyColon_unknown _ (fun n h => h5 n (by rw [h])) (fun r g b h => h4 r g b (by rw [h]))
      · simp only [ha, hb, ↓reduceIte]

/-- the number that introduces an extended colour on a layer -/
def Layer.code : Layer → Nat
  | .fg => 38
  | .bg => 48

theorem classify_code (l : Layer) : classify [l.code] = .ext l := by cases l <;> rfl

section extlaws
variable (pen : Attrs) {l : Layer} {g0 : List Nat} (hg : classify g0 = .ext l)
include hg

/-- `38` as the last parameter: silently nothing -/
theorem run_ext_nil : sgrRun pen [g0] = (pen, 0) := by
  simp [sgrRun, hg]

/-- `38;5;n…` -/
theorem run_ext_idx (n : Nat) (rest : List (List Nat)) :
    sgrRun pen (g0 :: [5] :: [n] :: rest) =
      if n ≤ 255 then sgrRun (l.set (.idx n) pen) rest else (pen, 0) := by
  simp [sgrRun, hg]

/-- `38;2;r;g;b…` -/
theorem run_ext_rgb (r g b : Nat) (rest : List (List Nat)) :
    sgrRun pen (g0 :: [2] :: [r] :: [g] :: [b] :: rest) =
      if r ≤ 255 ∧ g ≤ 255 ∧ b ≤ 255 then sgrRun (l.set (.rgb r g b) pen) rest else (pen, 0) := by
  simp [sgrRun, hg]

/-- `38;5` followed by anything but a single number (nothing at all, or a group with sub-parameters) -/
theorem run_ext_idx_trunc (rest2 : List (List Nat)) (h : ∀ i rest3, rest2 = [i] :: rest3 → False) :
    sgrRun pen (g0 :: [5] :: rest2) = (pen, 0) := by
  simp only [sgrRun, hg]

/-- `38;2` followed by anything but three single numbers -/
theorem run_ext_rgb_trunc (rest2 : List (List Nat))
    (h : ∀ r g b rest3, rest2 = [r] :: [g] :: [b] :: rest3 → False) :
    sgrRun pen (g0 :: [2] :: rest2) = (pen, 0) := by
  simp only [sgrRun, hg]

/-- `38;x…` with `x` neither `2` nor `5` (e.g. `38;7`, `38;5:1`): one report, then stop -/
theorem run_ext_bad_selector (sel : List Nat) (tail : List (List Nat)) (h2 : sel ≠ [2]) (h5 : sel ≠ [5]) :
    sgrRun pen (g0 :: sel :: tail) = (pen, 1) := by
  simp only [sgrRun, hg]
  split <;> simp_all

end extlaws

/-- the loop of `Screen::sgr` (`sgrLoop`) is `sgrRun`: every list of groups, every value, every state -/
theorem sgrLoop_run (e : Event) (unh : WS → M WS)
    (hunh : ∀ w, unh w = .ok { w with events := w.events ++ [e] }) :
    ∀ (groups : List (List Nat)) (ws : WS),
      sgrLoop unh groups ws = .ok (finish e ws (sgrRun ws.screen.attrs groups)) := by
  intro groups ws
  fun_induction sgrLoop unh groups ws
  case case1 => simp [sgrRun, finish, pure, Except.pure]
  case case12 | case14 | case17 | case20 | case25 | case27 | case30 | case33 =>
    rename_i h ih
    try simp only [Bool.and_eq_true, decide_eq_true_eq, and_assoc] at h
    rw [ih]
    simp [sgrRun, classify, classifySingle, classifyColon, finish, WS.setFg, WS.setBg, Layer.set, h]
  case case13 | case15 | case18 | case21 | case26 | case28 | case31 | case34 =>
    rename_i h
    try simp only [Bool.and_eq_true, decide_eq_true_eq, and_assoc] at h
    simp [sgrRun, classify, classifySingle, classifyColon, finish, pure, Except.pure, h]
  case case16 =>
    rename_i ws
    have h := run_ext_nil ws.screen.attrs (classify_code .fg)
    simp only [Layer.code] at h
    rw [h, finish_zero]; rfl
  case case29 =>
    rename_i ws
    have h := run_ext_nil ws.screen.attrs (classify_code .bg)
    simp only [Layer.code] at h
    rw [h, finish_zero]; rfl
  case case19 =>
    rename_i ws _ hx
    have h := run_ext_rgb_trunc ws.screen.attrs (classify_code .fg) _ hx
    simp only [Layer.code] at h
    rw [h, finish_zero]; rfl
  case case32 =>
    rename_i ws _ hx
    have h := run_ext_rgb_trunc ws.screen.attrs (classify_code .bg) _ hx
    simp only [Layer.code] at h
    rw [h, finish_zero]; rfl
  case case22 =>
    rename_i ws _ hx
    have h := run_ext_idx_trunc ws.screen.attrs (classify_code .fg) _ hx
    simp only [Layer.code] at h
    rw [h, finish_zero]; rfl
  case case35 =>
    rename_i ws _ hx
    have h := run_ext_idx_trunc ws.screen.attrs (classify_code .bg) _ hx
    simp only [Layer.code] at h
    rw [h, finish_zero]; rfl
  case case23 =>
    rename_i ws hd tl h2 h5
    have h := run_ext_bad_selector ws.screen.attrs (classify_code .fg) hd tl (fun h => h2 h) (fun h => h5 h)
    simp only [Layer.code] at h
    rw [hunh, h, finish_one]
  case case36 =>
    rename_i ws hd tl h2 h5
    have h := run_ext_bad_selector ws.screen.attrs (classify_code .bg) hd tl (fun h => h2 h) (fun h => h5 h)
    simp only [Layer.code] at h
    rw [hunh, h, finish_one]
  case case38 =>
    rename_i n _ _ _ _ _ _ _ _ _ _ _ _ _ _ h ih
    simp only [Bool.and_eq_true, decide_eq_true_eq] at h
    rw [ih, run_set _ _ (show classify [n] = _ from classifySingle_fg h)]; rfl
  case case39 =>
    rename_i n _ _ _ _ _ _ _ _ _ _ _ _ _ _ _ h ih
    simp only [Bool.and_eq_true, decide_eq_true_eq] at h
    rw [ih, run_set _ _ (show classify [n] = _ from classifySingle_bg h)]; rfl
  case case40 =>
    rename_i n _ _ _ _ _ _ _ _ _ _ _ _ _ _ _ _ h ih
    simp only [Bool.and_eq_true, decide_eq_true_eq] at h
    rw [ih, run_set _ _ (show classify [n] = _ from classifySingle_fg_bright h)]
    rw [show n - 90 + 8 = n - 82 by omega]; rfl
  case case41 =>
    rename_i n _ _ _ _ _ _ _ _ _ _ _ _ _ _ _ _ _ h ih
    simp only [Bool.and_eq_true, decide_eq_true_eq] at h
    rw [ih, run_set _ _ (show classify [n] = _ from classifySingle_bg_bright h)]
    rw [show n - 100 + 8 = n - 92 by omega]; rfl
  case case42 =>
    rename_i n e0 e1 e2 e3 e4 e7 e22 e23 e24 e27 e38 e39 e48 e49 r1 r2 r3 r4 ih
    simp only [Bool.and_eq_true, decide_eq_true_eq] at r1 r2 r3 r4
    have e0 : ¬ n = 0 := e0
    have e1 : ¬ n = 1 := e1
    have e2 : ¬ n = 2 := e2
    have e3 : ¬ n = 3 := e3
    have e4 : ¬ n = 4 := e4
    have e7 : ¬ n = 7 := e7
    have e22 : ¬ n = 22 := e22
    have e23 : ¬ n = 23 := e23
    have e24 : ¬ n = 24 := e24
    have e27 : ¬ n = 27 := e27
    have e38 : ¬ n = 38 := e38
    have e39 : ¬ n = 39 := e39
    have e48 : ¬ n = 48 := e48
    have e49 : ¬ n = 49 := e49
    have hk : ¬ knownSingle n := by unfold knownSingle; omega
    rw [hunh]
    simp only [ok_bind]
    rw [ih, run_unknown _ _ (show classify [n] = _ from classifySingle_unknown hk), finish_report]
  case case43 =>
    rename_i p rest ws _ _ _ _ _ _ _ _ _ _ h2 h3 _ _ h4 h5 _ _ h1 ih
    rw [hunh]
    simp only [ok_bind]
    rw [ih, run_unknown _ _ (classify_default h1 h2 h3 h4 h5), finish_report]
  all_goals first
    | (rename_i ih; rw [ih]
       simp [sgrRun, classify, classifySingle, finish, WS.modAttrs, WS.setFg, WS.setBg, Layer.set]
       done)
    | skip

/-! ## How a parameter list ends -/

inductive Ending where
  /-- every group was consumed by a complete parameter (meaningful or unknown) -/
  | complete
  /-- the list ends inside a `38;…` / `48;…` form that more groups could still complete -/
  | truncated
  /-- a malformed extended colour was met: processing stopped there -/
  | malformed
  deriving Repr, DecidableEq

/-- fewer than three groups, each a single number ≤ 255: the start of `r;g;b` -/
def rgbPrefix (gs : List (List Nat)) : Bool :=
  gs.length < 3 && gs.all (fun g => match g with | [v] => v ≤ 255 | _ => false)

def ending : List (List Nat) → Ending
  | [] => .complete
  | g :: rest =>
    match classify g with
    | .set _ => ending rest
    | .unknown => ending rest
    | .stop => .malformed
    | .ext _ =>
      match rest with
      | [] => .truncated
      | [5] :: [] => .truncated
      | [5] :: [n] :: rest' => if n ≤ 255 then ending rest' else .malformed
      | [5] :: _ :: _ => .malformed
      | [2] :: [r] :: [g] :: [b] :: rest' =>
        if r ≤ 255 ∧ g ≤ 255 ∧ b ≤ 255 then ending rest' else .malformed
      | [2] :: rest2 => if rgbPrefix rest2 then .truncated else .malformed
      | _ :: _ => .malformed


/-- sequential composition of two runs: pen threaded through, reports added -/
def andThen (r : Attrs × Nat) (k : Attrs → Attrs × Nat) : Attrs × Nat := ((k r.1).1, r.2 + (k r.1).2)

theorem run_append_complete : ∀ (xs : List (List Nat)) (pen : Attrs) (ys : List (List Nat)),
    ending xs = .complete →
    sgrRun pen (xs ++ ys) = andThen (sgrRun pen xs) (fun p => sgrRun p ys) := by
  intro xs
  fun_induction ending xs <;> intro pen ys hc
  case case1 => simp [sgrRun, andThen]
  case case2 =>
    rename_i hg ih
    rw [List.cons_append, run_set _ _ hg, run_set _ _ hg, ih _ _ hc]
  case case3 =>
    rename_i hg ih
    rw [List.cons_append, run_unknown _ _ hg, run_unknown _ _ hg, ih _ _ hc]
    simp [andThen, report, Nat.add_right_comm]
  case case7 =>
    rename_i hg _ _ hn ih
    simp only [List.cons_append]
    rw [run_ext_idx _ hg, run_ext_idx _ hg, if_pos hn, if_pos hn, ih _ _ hc]
  case case10 =>
    rename_i hg _ _ _ _ hn ih
    simp only [List.cons_append]
    rw [run_ext_rgb _ hg, run_ext_rgb _ hg, if_pos hn, if_pos hn, ih _ _ hc]
  all_goals exact absurd hc (by decide)


theorem run_ext_rgb_bad (pen : Attrs) {l : Layer} {g0 : List Nat} (hg : classify g0 = .ext l)
    (rest2 : List (List Nat))
    (h : ∀ r g b rest3, rest2 = [r] :: [g] :: [b] :: rest3 → ¬ (r ≤ 255 ∧ g ≤ 255 ∧ b ≤ 255)) :
    sgrRun pen (g0 :: [2] :: rest2) = (pen, 0) := by
  by_cases hs : ∃ r g b rest3, rest2 = [r] :: [g] :: [b] :: rest3
  · obtain ⟨r, g, b, rest3, rfl⟩ := hs
    rw [run_ext_rgb _ hg, if_neg (h r g b rest3 rfl)]
  · exact run_ext_rgb_trunc _ hg _ (fun r g b rest3 e => hs ⟨r, g, b, rest3, e⟩)

theorem rgb_malformed_append (rest2 ys : List (List Nat))
    (hshape : ∀ r g b rest', rest2 = [r] :: [g] :: [b] :: rest' → False)
    (hp : ¬ rgbPrefix rest2 = true) :
    ∀ r g b rest3, rest2 ++ ys = [r] :: [g] :: [b] :: rest3 → ¬ (r ≤ 255 ∧ g ≤ 255 ∧ b ≤ 255) := by
  intro r g b rest3 heq hr
  match rest2, hshape, hp, heq with
  | [], _, hp, _ => exact hp (by decide)
  | [a], _, hp, heq =>
    simp only [List.cons_append, List.nil_append, List.cons.injEq] at heq
    obtain ⟨rfl, _⟩ := heq
    simp [rgbPrefix] at hp
    omega
  | [a, b'], _, hp, heq =>
    simp only [List.cons_append, List.nil_append, List.cons.injEq] at heq
    obtain ⟨rfl, rfl, _⟩ := heq
    simp [rgbPrefix] at hp
    omega
  | a :: b' :: c :: t, hshape, _, heq =>
    simp only [List.cons_append, List.cons.injEq] at heq
    obtain ⟨rfl, rfl, rfl, _⟩ := heq
    exact hshape _ _ _ _ rfl

theorem run_stops : ∀ (xs : List (List Nat)) (pen : Attrs) (ys : List (List Nat)),
    ending xs = .malformed → sgrRun pen (xs ++ ys) = sgrRun pen xs := by
  intro xs
  fun_induction ending xs <;> intro pen ys hc
  case case2 =>
    rename_i hg ih
    rw [List.cons_append, run_set _ _ hg, run_set _ _ hg, ih _ _ hc]
  case case3 =>
    rename_i hg ih
    rw [List.cons_append, run_unknown _ _ hg, run_unknown _ _ hg, ih _ _ hc]
  case case4 =>
    rename_i hg
    rw [List.cons_append, run_stop _ _ hg, run_stop _ _ hg]
  case case7 =>
    rename_i hg _ _ hn ih
    simp only [List.cons_append]
    rw [run_ext_idx _ hg, run_ext_idx _ hg, if_pos hn, if_pos hn, ih _ _ hc]
  case case8 =>
    rename_i hg _ _ hn
    simp only [List.cons_append]
    rw [run_ext_idx _ hg, run_ext_idx _ hg, if_neg hn, if_neg hn]
  case case9 =>
    rename_i hg hd tl hx
    simp only [List.cons_append]
    rw [run_ext_idx_trunc _ hg _ (fun i r3 e => hx i (List.cons.inj e).1),
      run_ext_idx_trunc _ hg _ (fun i r3 e => hx i (List.cons.inj e).1)]
  case case10 =>
    rename_i hg _ _ _ _ hn ih
    simp only [List.cons_append]
    rw [run_ext_rgb _ hg, run_ext_rgb _ hg, if_pos hn, if_pos hn, ih _ _ hc]
  case case11 =>
    rename_i hg _ _ _ _ hn
    simp only [List.cons_append]
    rw [run_ext_rgb _ hg, run_ext_rgb _ hg, if_neg hn, if_neg hn]
  case case13 =>
    rename_i hg rest2 hshape hp
    simp only [List.cons_append]
    rw [run_ext_rgb_bad _ hg _ (rgb_malformed_append rest2 ys hshape hp),
      run_ext_rgb_trunc _ hg _ hshape]
  case case14 =>
    rename_i hg hd tl h5a _ h5c _ h2
    have h5 : hd ≠ [5] := by
      intro e
      cases tl with
      | nil => exact h5a e rfl
      | cons a t => exact h5c a t e rfl
    simp only [List.cons_append]
    rw [run_ext_bad_selector _ hg _ _ (fun e => h2 e) h5, run_ext_bad_selector _ hg _ _ (fun e => h2 e) h5]
  all_goals exact absurd hc (by decide)


theorem ending_set {g : List Nat} {f : Attrs → Attrs} (rest : List (List Nat)) (h : classify g = .set f) :
    ending (g :: rest) = ending rest := by
  rw [ending.eq_def]; simp only [h]

theorem ending_unknown {g : List Nat} (rest : List (List Nat)) (h : classify g = .unknown) :
    ending (g :: rest) = ending rest := by
  rw [ending.eq_def]; simp only [h]

theorem ending_append_complete : ∀ (xs ys : List (List Nat)),
    ending xs = .complete → ending (xs ++ ys) = ending ys := by
  intro xs
  fun_induction ending xs <;> intro ys hc
  case case1 => rfl
  case case2 =>
    rename_i hg ih
    rw [List.cons_append, ending_set _ hg]
    exact ih _ hc
  case case3 =>
    rename_i hg ih
    rw [List.cons_append, ending_unknown _ hg]
    exact ih _ hc
  case case7 =>
    rename_i hg _ _ hn ih
    simp only [List.cons_append, ending, hg, hn]
    exact ih _ hc
  case case10 =>
    rename_i hg _ _ _ _ hn ih
    simp only [List.cons_append, ending, hg, hn]
    exact ih _ hc
  all_goals exact absurd hc (by decide)

/-! ## The model equals the specification -/

/-- **`Screen::sgr` = `sgrSpec`, for every parameter list, from every pen.**  `unh` is the closure
`Screen::sgr` receives for unhandled parameters; in `perform` it is `emit cb (unhandledCsi …)`, which
appends one event and hands the screen to the callback object.  For every callback object that leaves the
screen alone (`hunh`), the result of `sgr` is: nothing but the pen changes, the pen is `(sgrSpec …).1`,
and exactly `(sgrSpec …).2` copies of the event are appended. -/
theorem sgr_spec (e : Event) (unh : WS → M WS)
    (hunh : ∀ w, unh w = .ok { w with events := w.events ++ [e] })
    (groups : List (List Nat)) (ws : WS) :
    sgr unh groups ws = .ok (finish e ws (sgrSpec ws.screen.attrs groups)) := by
  cases groups with
  | nil => simp [sgr, sgrSpec, finish, WS.modAttrs, pure, Except.pure]
  | cons g rest =>
    simp only [sgr, List.isEmpty_cons, Bool.false_eq_true, ↓reduceIte, sgrSpec, reduceCtorEq]
    exact sgrLoop_run e unh hunh _ _

/-- **any callbacks**: whatever the `unhandled` closure does to the rest of the screen (and whether or not
it fails), as long as it leaves the PEN alone — the public `Screen` API offers a callback nothing that
writes the pen — the pen after `Screen::sgr` is the specification's. -/
theorem sgrLoop_pen (unh : WS → M WS)
    (hunh : ∀ w w', unh w = .ok w' → w'.screen.attrs = w.screen.attrs) :
    ∀ (groups : List (List Nat)) (ws ws' : WS),
      sgrLoop unh groups ws = .ok ws' → ws'.screen.attrs = (sgrRun ws.screen.attrs groups).1 := by
  intro groups ws
  have hpure : ∀ (a b : WS), (pure a : M WS) = .ok b → b = a := by
    intro a b h
    simp only [pure, Except.pure, Except.ok.injEq] at h
    exact h.symm
  fun_induction sgrLoop unh groups ws <;> intro ws' hok
  case case1 => rw [hpure _ _ hok]; rfl
  case case12 | case14 | case17 | case20 | case25 | case27 | case30 | case33 =>
    rename_i h ih
    try simp only [Bool.and_eq_true, decide_eq_true_eq, and_assoc] at h
    rw [ih _ hok]
    simp [sgrRun, classify, classifySingle, classifyColon, WS.setFg, WS.setBg, Layer.set, h]
  case case13 | case15 | case18 | case21 | case26 | case28 | case31 | case34 =>
    rename_i h
    try simp only [Bool.and_eq_true, decide_eq_true_eq, and_assoc] at h
    rw [hpure _ _ hok]
    simp [sgrRun, classify, classifySingle, classifyColon, h]
  case case16 =>
    rename_i ws
    have h := run_ext_nil ws.screen.attrs (classify_code .fg)
    simp only [Layer.code] at h
    rw [hpure _ _ hok, h]
  case case29 =>
    rename_i ws
    have h := run_ext_nil ws.screen.attrs (classify_code .bg)
    simp only [Layer.code] at h
    rw [hpure _ _ hok, h]
  case case19 =>
    rename_i ws _ hx
    have h := run_ext_rgb_trunc ws.screen.attrs (classify_code .fg) _ hx
    simp only [Layer.code] at h
    rw [hpure _ _ hok, h]
  case case32 =>
    rename_i ws _ hx
    have h := run_ext_rgb_trunc ws.screen.attrs (classify_code .bg) _ hx
    simp only [Layer.code] at h
    rw [hpure _ _ hok, h]
  case case22 =>
    rename_i ws _ hx
    have h := run_ext_idx_trunc ws.screen.attrs (classify_code .fg) _ hx
    simp only [Layer.code] at h
    rw [hpure _ _ hok, h]
  case case35 =>
    rename_i ws _ hx
    have h := run_ext_idx_trunc ws.screen.attrs (classify_code .bg) _ hx
    simp only [Layer.code] at h
    rw [hpure _ _ hok, h]
  case case23 =>
    rename_i ws hd tl h2 h5
    have h := run_ext_bad_selector ws.screen.attrs (classify_code .fg) hd tl (fun h => h2 h) (fun h => h5 h)
    simp only [Layer.code] at h
    rw [hunh _ _ hok, h]
  case case36 =>
    rename_i ws hd tl h2 h5
    have h := run_ext_bad_selector ws.screen.attrs (classify_code .bg) hd tl (fun h => h2 h) (fun h => h5 h)
    simp only [Layer.code] at h
    rw [hunh _ _ hok, h]
  case case38 =>
    rename_i n _ _ _ _ _ _ _ _ _ _ _ _ _ _ h ih
    simp only [Bool.and_eq_true, decide_eq_true_eq] at h
    rw [ih _ hok, run_set _ _ (show classify [n] = _ from classifySingle_fg h)]; rfl
  case case39 =>
    rename_i n _ _ _ _ _ _ _ _ _ _ _ _ _ _ _ h ih
    simp only [Bool.and_eq_true, decide_eq_true_eq] at h
    rw [ih _ hok, run_set _ _ (show classify [n] = _ from classifySingle_bg h)]; rfl
  case case40 =>
    rename_i n _ _ _ _ _ _ _ _ _ _ _ _ _ _ _ _ h ih
    simp only [Bool.and_eq_true, decide_eq_true_eq] at h
    rw [ih _ hok, run_set _ _ (show classify [n] = _ from classifySingle_fg_bright h)]
    rw [show n - 90 + 8 = n - 82 by omega]; rfl
  case case41 =>
    rename_i n _ _ _ _ _ _ _ _ _ _ _ _ _ _ _ _ _ h ih
    simp only [Bool.and_eq_true, decide_eq_true_eq] at h
    rw [ih _ hok, run_set _ _ (show classify [n] = _ from classifySingle_bg_bright h)]
    rw [show n - 100 + 8 = n - 92 by omega]; rfl
  case case42 =>
    rename_i n e0 e1 e2 e3 e4 e7 e22 e23 e24 e27 e38 e39 e48 e49 r1 r2 r3 r4 ih
    simp only [Bool.and_eq_true, decide_eq_true_eq] at r1 r2 r3 r4
    have e0 : ¬ n = 0 := e0
    have e1 : ¬ n = 1 := e1
    have e2 : ¬ n = 2 := e2
    have e3 : ¬ n = 3 := e3
    have e4 : ¬ n = 4 := e4
    have e7 : ¬ n = 7 := e7
    have e22 : ¬ n = 22 := e22
    have e23 : ¬ n = 23 := e23
    have e24 : ¬ n = 24 := e24
    have e27 : ¬ n = 27 := e27
    have e38 : ¬ n = 38 := e38
    have e39 : ¬ n = 39 := e39
    have e48 : ¬ n = 48 := e48
    have e49 : ¬ n = 49 := e49
    have hk : ¬ knownSingle n := by unfold knownSingle; omega
    obtain ⟨w1, hw1, hw2⟩ := bind_eq_ok.mp hok
    rw [ih _ _ hw2, hunh _ _ hw1, run_unknown _ _ (show classify [n] = _ from classifySingle_unknown hk)]
    rfl
  case case43 =>
    rename_i p rest ws _ _ _ _ _ _ _ _ _ _ h2 h3 _ _ h4 h5 _ _ h1 ih
    obtain ⟨w1, hw1, hw2⟩ := bind_eq_ok.mp hok
    rw [ih _ _ hw2, hunh _ _ hw1, run_unknown _ _ (classify_default h1 h2 h3 h4 h5)]
    rfl
  all_goals
    rename_i ih
    rw [ih _ hok]
    simp [sgrRun, classify, classifySingle, WS.modAttrs, WS.setFg, WS.setBg, Layer.set]

/-- top level of `sgrLoop_pen` -/
theorem sgr_spec_pen (unh : WS → M WS)
    (hunh : ∀ w w', unh w = .ok w' → w'.screen.attrs = w.screen.attrs)
    (groups : List (List Nat)) (ws ws' : WS) (hok : sgr unh groups ws = .ok ws') :
    ws'.screen.attrs = (sgrSpec ws.screen.attrs groups).1 := by
  cases groups with
  | nil =>
    simp only [sgr, List.isEmpty_nil, ↓reduceIte, pure, Except.pure, Except.ok.injEq] at hok
    subst hok; rfl
  | cons g rest =>
    simp only [sgr, List.isEmpty_cons, Bool.false_eq_true, ↓reduceIte] at hok
    exact sgrLoop_pen unh hunh _ _ _ hok

/-- the event `CSI … m` reports for each parameter it does not handle: the whole sequence -/
def sgrEvent (groups : List (List Nat)) : Event := .unhandledCsi none none groups 109

/-- **`CSI groups m` through `Perform::csi_dispatch`**, for every callback object that does not modify the
screen when told about this unhandled sequence -/
theorem perform_sgr (W : Nat → Option Nat) (cb : CbPolicy) (ws : WS) (groups : List (List Nat)) (ig : Bool)
    (hcb : ∀ s, cb (sgrEvent groups) s = .ok s) :
    perform W cb ws (.csiDispatch groups [] ig 109) =
      .ok (finish (sgrEvent groups) ws (sgrSpec ws.screen.attrs groups)) := by
  simp only [perform, performCsi, List.head?_nil, List.tail_nil]
  exact sgr_spec _ _ (fun w => by simp [emit, sgrEvent] at hcb ⊢; simp [hcb]) _ _

theorem perform_sgr_cbNone (W : Nat → Option Nat) (ws : WS) (groups : List (List Nat)) (ig : Bool) :
    perform W cbNone ws (.csiDispatch groups [] ig 109) =
      .ok (finish (sgrEvent groups) ws (sgrSpec ws.screen.attrs groups)) :=
  perform_sgr W cbNone ws groups ig (fun _ => rfl)

theorem perform_sgr_cbResize (W : Nat → Option Nat) (ws : WS) (groups : List (List Nat)) (ig : Bool) :
    perform W cbResize ws (.csiDispatch groups [] ig 109) =
      .ok (finish (sgrEvent groups) ws (sgrSpec ws.screen.attrs groups)) :=
  perform_sgr W cbResize ws groups ig (fun _ => rfl)


/-- `perform` with ANY callback object that leaves the pen alone when told about the unhandled sequence -/
theorem perform_sgr_pen (W : Nat → Option Nat) (cb : CbPolicy) (ws ws' : WS) (groups : List (List Nat))
    (ig : Bool) (hcb : ∀ s s', cb (sgrEvent groups) s = .ok s' → s'.attrs = s.attrs)
    (hok : perform W cb ws (.csiDispatch groups [] ig 109) = .ok ws') :
    ws'.screen.attrs = (sgrSpec ws.screen.attrs groups).1 := by
  simp only [perform, performCsi, List.head?_nil, List.tail_nil] at hok
  refine sgr_spec_pen _ (fun w w' h => ?_) groups ws ws' hok
  simp only [emit] at h
  obtain ⟨s1, h1, h2⟩ := bind_eq_ok.mp h
  simp only [pure_eq_ok, Except.ok.injEq] at h2
  subst h2
  exact hcb _ _ h1

/-- non-vacuity of `perform_sgr_pen` (a test): a callback object that hides the cursor whenever it is told
about something unhandled meets `hcb`, the run succeeds, and the screen really changes elsewhere -/
def cbHide : CbPolicy := fun _ s => pure { s with hideCursor := true }
example : ∀ e s s', cbHide e s = .ok s' → s'.attrs = s.attrs := by
  intro e s s' h
  simp only [cbHide, pure, Except.pure, Except.ok.injEq] at h
  subst h; rfl
example (W : Nat → Option Nat) (ws : WS) :
    perform W cbHide ws (.csiDispatch [[5], [1]] [] false 109) =
      .ok { screen := { ws.screen with hideCursor := true, attrs := { ws.screen.attrs with intensity := .bold } },
            events := ws.events ++ [sgrEvent [[5], [1]]] } := by
  simp [perform, performCsi, sgr, sgrLoop, emit, cbHide, sgrEvent, WS.modAttrs]

/-! ## Corollaries: the sentences of the property -/

section corollaries
variable (pen : Attrs) (rest : List (List Nat))

/-- "no parameter resets" (an empty `Params`, which vte never produces for a CSI) -/
theorem sgr_nil : sgrSpec pen [] = (Attrs.default, 0) := rfl

/-- "0 resets"; `CSI m` reaches `Screen::sgr` as the single group `[0]` (see `process_sgr_bytes`) -/
theorem sgr_zero : sgrSpec pen [[0]] = (Attrs.default, 0) := rfl

theorem sgrSpec_cons (g : List Nat) : sgrSpec pen (g :: rest) = sgrRun pen (g :: rest) := rfl

theorem sgrSpec_of_ne_nil {xs : List (List Nat)} (h : xs ≠ []) : sgrSpec pen xs = sgrRun pen xs := by
  simp [sgrSpec, h]

/-- a single number with a meaning of its own acts on the pen and the rest is processed from there -/
theorem run_single {n : Nat} {f : Attrs → Attrs} (h : classifySingle n = .set f) :
    sgrRun pen ([n] :: rest) = sgrRun (f pen) rest :=
  run_set pen rest (g := [n]) h

theorem run_reset : sgrRun pen ([0] :: rest) = sgrRun Attrs.default rest :=
  run_single pen rest (f := fun _ => Attrs.default) rfl
theorem run_bold : sgrRun pen ([1] :: rest) = sgrRun { pen with intensity := .bold } rest :=
  run_single pen rest (f := fun a => { a with intensity := .bold }) rfl
theorem run_dim : sgrRun pen ([2] :: rest) = sgrRun { pen with intensity := .dim } rest :=
  run_single pen rest (f := fun a => { a with intensity := .dim }) rfl
theorem run_normal : sgrRun pen ([22] :: rest) = sgrRun { pen with intensity := .normal } rest :=
  run_single pen rest (f := fun a => { a with intensity := .normal }) rfl
theorem run_italic : sgrRun pen ([3] :: rest) = sgrRun { pen with italic := true } rest :=
  run_single pen rest (f := fun a => { a with italic := true }) rfl
theorem run_no_italic : sgrRun pen ([23] :: rest) = sgrRun { pen with italic := false } rest :=
  run_single pen rest (f := fun a => { a with italic := false }) rfl
theorem run_underline : sgrRun pen ([4] :: rest) = sgrRun { pen with underline := true } rest :=
  run_single pen rest (f := fun a => { a with underline := true }) rfl
theorem run_no_underline : sgrRun pen ([24] :: rest) = sgrRun { pen with underline := false } rest :=
  run_single pen rest (f := fun a => { a with underline := false }) rfl
theorem run_inverse : sgrRun pen ([7] :: rest) = sgrRun { pen with inverse := true } rest :=
  run_single pen rest (f := fun a => { a with inverse := true }) rfl
theorem run_no_inverse : sgrRun pen ([27] :: rest) = sgrRun { pen with inverse := false } rest :=
  run_single pen rest (f := fun a => { a with inverse := false }) rfl
theorem run_fg_default : sgrRun pen ([39] :: rest) = sgrRun { pen with fg := .default } rest :=
  run_single pen rest (f := Layer.fg.set .default) rfl
theorem run_bg_default : sgrRun pen ([49] :: rest) = sgrRun { pen with bg := .default } rest :=
  run_single pen rest (f := Layer.bg.set .default) rfl
theorem run_fg_basic {n : Nat} (h : 30 ≤ n ∧ n ≤ 37) :
    sgrRun pen ([n] :: rest) = sgrRun { pen with fg := .idx (n - 30) } rest :=
  run_single pen rest (classifySingle_fg h)
theorem run_bg_basic {n : Nat} (h : 40 ≤ n ∧ n ≤ 47) :
    sgrRun pen ([n] :: rest) = sgrRun { pen with bg := .idx (n - 40) } rest :=
  run_single pen rest (classifySingle_bg h)
theorem run_fg_bright {n : Nat} (h : 90 ≤ n ∧ n ≤ 97) :
    sgrRun pen ([n] :: rest) = sgrRun { pen with fg := .idx (n - 90 + 8) } rest :=
  run_single pen rest (classifySingle_fg_bright h)
theorem run_bg_bright {n : Nat} (h : 100 ≤ n ∧ n ≤ 107) :
    sgrRun pen ([n] :: rest) = sgrRun { pen with bg := .idx (n - 100 + 8) } rest :=
  run_single pen rest (classifySingle_bg_bright h)

/-- intensity is one three-valued field: bold and dim exclude one another, for every pen -/
theorem intensity_exclusive (a : Attrs) : ¬ (a.bold = true ∧ a.dim = true) := by
  cases h : a.intensity <;> simp [Attrs.bold, Attrs.dim, h]

/-- `1`, `2`, `22`: the last one wins, the others are forgotten -/
theorem run_intensity_last_wins {m n : Nat} (hm : m = 1 ∨ m = 2 ∨ m = 22) (hn : n = 1 ∨ n = 2 ∨ n = 22) :
    sgrRun pen ([m] :: [n] :: rest) = sgrRun pen ([n] :: rest) := by
  rcases hm with rfl | rfl | rfl <;> rcases hn with rfl | rfl | rfl <;>
    simp only [run_bold, run_dim, run_normal]

theorem bold_after_1 : (sgrRun pen [[1]]).1.bold = true ∧ (sgrRun pen [[1]]).1.dim = false := by
  simp [run_bold, run_nil, Attrs.bold, Attrs.dim]
theorem dim_after_2 : (sgrRun pen [[2]]).1.bold = false ∧ (sgrRun pen [[2]]).1.dim = true := by
  simp [run_dim, run_nil, Attrs.bold, Attrs.dim]
theorem normal_after_22 : (sgrRun pen [[22]]).1.bold = false ∧ (sgrRun pen [[22]]).1.dim = false := by
  simp [run_normal, run_nil, Attrs.bold, Attrs.dim]

/-! ### extended colours: the four well-formed shapes, on either layer (`l.code` = 38 / 48) -/

variable (l : Layer)

/-- `38;5;n` -/
theorem ext_semicolon_idx {n : Nat} (h : n ≤ 255) :
    sgrRun pen ([l.code] :: [5] :: [n] :: rest) = sgrRun (l.set (.idx n) pen) rest := by
  rw [run_ext_idx _ (classify_code l), if_pos h]

/-- `38;2;r;g;b` -/
theorem ext_semicolon_rgb {r g b : Nat} (h : r ≤ 255 ∧ g ≤ 255 ∧ b ≤ 255) :
    sgrRun pen ([l.code] :: [2] :: [r] :: [g] :: [b] :: rest) = sgrRun (l.set (.rgb r g b) pen) rest := by
  rw [run_ext_rgb _ (classify_code l), if_pos h]

theorem classify_colon (sub : List Nat) (h : sub ≠ []) : classify (l.code :: sub) = classifyColon l sub := by
  cases sub with
  | nil => exact absurd rfl h
  | cons a t => cases l <;> simp [classify, Layer.code]

/-- `38:5:n` -/
theorem ext_colon_idx {n : Nat} (h : n ≤ 255) :
    sgrRun pen ([l.code, 5, n] :: rest) = sgrRun (l.set (.idx n) pen) rest :=
  run_set pen rest (by rw [classify_colon l _ (by simp)]; simp [classifyColon, h])

/-- `38:2:r:g:b` -/
theorem ext_colon_rgb {r g b : Nat} (h : r ≤ 255 ∧ g ≤ 255 ∧ b ≤ 255) :
    sgrRun pen ([l.code, 2, r, g, b] :: rest) = sgrRun (l.set (.rgb r g b) pen) rest :=
  run_set pen rest (by rw [classify_colon l _ (by simp)]; simp [classifyColon, h])

/-! ### extended colours: everything else -/

/-- `38:5:n` with `n > 255`: stop, silently -/
theorem ext_colon_idx_range {n : Nat} (h : 255 < n) : sgrRun pen ([l.code, 5, n] :: rest) = (pen, 0) :=
  run_stop pen rest (by rw [classify_colon l _ (by simp)]; simp [classifyColon, Nat.not_le.mpr h])

/-- `38:2:r:g:b` with a component above 255: stop, silently -/
theorem ext_colon_rgb_range {r g b : Nat} (h : ¬ (r ≤ 255 ∧ g ≤ 255 ∧ b ≤ 255)) :
    sgrRun pen ([l.code, 2, r, g, b] :: rest) = (pen, 0) :=
  run_stop pen rest (by rw [classify_colon l _ (by simp)]; simp only [classifyColon, h, ↓reduceIte])

/-- every other group that starts with `38:` (e.g. `38:5`, `38:2:r:g`, `38:2::r:g:b` which vte delivers as
`[38,2,0,r,g,b]`, `38:7:…`): an unknown parameter, reported and skipped, later parameters still apply -/
theorem ext_colon_other (sub : List Nat) (hne : sub ≠ [])
    (h5 : ∀ n, sub ≠ [5, n]) (h2 : ∀ r g b, sub ≠ [2, r, g, b]) :
    sgrRun pen ((l.code :: sub) :: rest) = report (sgrRun pen rest) :=
  run_unknown pen rest (by
    rw [classify_colon l _ hne]
    exact classifyColon_unknown l (fun n e => h5 n e) (fun r g b e => h2 r g b e))

/-- `38;5;n` with `n > 255`: stop, silently; the rest is dropped -/
theorem ext_semicolon_idx_range {n : Nat} (h : 255 < n) :
    sgrRun pen ([l.code] :: [5] :: [n] :: rest) = (pen, 0) := by
  rw [run_ext_idx _ (classify_code l), if_neg (Nat.not_le.mpr h)]

/-- `38;2;r;g;b` with a component above 255: stop, silently; the rest is dropped -/
theorem ext_semicolon_rgb_range {r g b : Nat} (h : ¬ (r ≤ 255 ∧ g ≤ 255 ∧ b ≤ 255)) :
    sgrRun pen ([l.code] :: [2] :: [r] :: [g] :: [b] :: rest) = (pen, 0) := by
  rw [run_ext_rgb _ (classify_code l), if_neg h]

/-- `38;x…`, `x` not the single number 2 or 5: ONE report, then stop; the rest is dropped -/
theorem ext_semicolon_selector {sel : List Nat} (h2 : sel ≠ [2]) (h5 : sel ≠ [5]) :
    sgrRun pen ([l.code] :: sel :: rest) = (pen, 1) :=
  run_ext_bad_selector _ (classify_code l) _ _ h2 h5

/-- the truncated forms `38`, `38;5`, `38;2`, `38;2;r`, `38;2;r;g` at the end of the list: nothing, silently -/
theorem ext_truncated :
    sgrRun pen [[l.code]] = (pen, 0) ∧ sgrRun pen [[l.code], [5]] = (pen, 0) ∧
    sgrRun pen [[l.code], [2]] = (pen, 0) ∧ (∀ r, sgrRun pen [[l.code], [2], [r]] = (pen, 0)) ∧
    (∀ r g, sgrRun pen [[l.code], [2], [r], [g]] = (pen, 0)) := by
  have hc := classify_code l
  refine ⟨run_ext_nil _ hc, run_ext_idx_trunc _ hc _ (by simp), run_ext_rgb_trunc _ hc _ (by simp),
    fun r => run_ext_rgb_trunc _ hc _ (by simp), fun r g => run_ext_rgb_trunc _ hc _ (by simp)⟩

/-! ### unknown parameters are skipped without affecting later ones; malformed ones stop -/

/-- an unknown single number: one report; the later parameters act exactly as if it were absent -/
theorem unknown_skipped {n : Nat} (h : ¬ knownSingle n) :
    sgrRun pen ([n] :: rest) = report (sgrRun pen rest) :=
  run_unknown pen rest (g := [n]) (classifySingle_unknown h)

/-- an empty group (vte does not produce one) and every multi-number group not starting with 38 / 48 -/
theorem unknown_group_skipped {a : Nat} {sub : List Nat} (hs : sub ≠ []) (h38 : a ≠ 38) (h48 : a ≠ 48) :
    sgrRun pen ((a :: sub) :: rest) = report (sgrRun pen rest) :=
  run_unknown pen rest (by
    cases sub with
    | nil => exact absurd rfl hs
    | cons b t => simp [classify, h38, h48])

/-- **well-formed prefix**: if `xs` consists of complete parameters only (meaningful ones, unknown ones,
well-formed extended colours), then processing `xs ++ ys` is processing `xs`, then `ys` from the pen `xs`
left; the reports add up -/
theorem sgr_append_wellformed {xs ys : List (List Nat)} (hx : xs ≠ []) (hy : ys ≠ [])
    (hc : ending xs = .complete) :
    sgrSpec pen (xs ++ ys) = andThen (sgrSpec pen xs) (fun p => sgrSpec p ys) := by
  have hxy : xs ++ ys ≠ [] := by simp [hx]
  simp only [sgrSpec, hx, hy, hxy, ↓reduceIte]
  exact run_append_complete xs pen ys hc

/-- **malformed extended colour**: what follows it has no influence whatever -/
theorem sgr_stops {xs : List (List Nat)} (ys : List (List Nat)) (hm : ending xs = .malformed) :
    sgrSpec pen (xs ++ ys) = sgrSpec pen xs := by
  have hx : xs ≠ [] := by rintro rfl; exact absurd hm (by decide)
  have hxy : xs ++ ys ≠ [] := by simp [hx]
  simp only [sgrSpec, hx, hxy, ↓reduceIte]
  exact run_stops xs pen ys hm

/-- well-formed prefix, then a malformed extended colour, then anything: the anything is dropped -/
theorem sgr_stops_after {xs m : List (List Nat)} (ys : List (List Nat))
    (hc : ending xs = .complete) (hm : ending m = .malformed) :
    sgrRun pen (xs ++ m ++ ys) = sgrRun pen (xs ++ m) := by
  rw [List.append_assoc, run_append_complete xs pen _ hc, run_append_complete xs pen _ hc]
  simp only [andThen, run_stops m _ ys hm]

end corollaries


/-! ## Bytes: `ESC [ p1 ; … ; pk m` -/

/-- **bytes**: `ESC [ p1;…;pk m` (decimal parameters ≤ 65535, k ≤ 32, `;`-separated; k = 0 is `ESC [ m`,
which vte delivers as the single group `[0]`) on a parser ready for a new sequence: nothing but the pen
changes, the pen is the specification's, the unhandled-CSI event is reported exactly as often as the
specification says, and the parser is ready again. -/
theorem process_sgr_bytes (W : Nat → Option Nat) (cb : CbPolicy) (p : Parser) (ps : List Nat)
    (hq : ∀ q ∈ ps, q ≤ 65535) (hl : ps.length ≤ 32) (hr : C09.Ready p)
    (hcb : ∀ s, cb (sgrEvent (Tok.groups ps)) s = .ok s) :
    ∃ p', p.process W cb ([0x1B, 0x5B] ++ Tok.paramBytes ps ++ [109]) = .ok p' ∧
      p'.ws = finish (sgrEvent (Tok.groups ps)) p.ws (sgrSpec p.ws.screen.attrs (Tok.groups ps)) ∧
      C09.Ready p' := by
  obtain ⟨e, g, c⟩ := Tok.tok_csi ps 109 hq hl (by omega) p.vte hr.1 hr.2
  simp only [Parser.process, e, List.foldlM_cons, List.foldlM_nil]
  rw [perform_sgr W cb p.ws _ false hcb]
  exact ⟨_, rfl, rfl, g, c⟩


/-! ## READING (examples) -/

/-- `CSI 38;5;300;1 m`: the index does not fit a `u8`, `Screen::sgr` returns: bold is NOT set, nothing is
reported, whatever the `unhandled` closure is -/
example (unh : WS → M WS) (ws : WS) : sgr unh [[38], [5], [300], [1]] ws = .ok ws := by
  simp [sgr, sgrLoop, pure, Except.pure]

/-- `CSI 38;7;1 m`: the closure is called ONCE (one unhandled-CSI event), then `Screen::sgr` returns:
bold is NOT set -/
example (unh : WS → M WS) (ws : WS) : sgr unh [[38], [7], [1]] ws = unh ws := by
  simp [sgr, sgrLoop]

/-- for contrast, an unknown plain parameter does not stop anything: `CSI 5;1 m` reports once and sets bold -/
example (unh : WS → M WS) (ws : WS) :
    sgr unh [[5], [1]] ws = (unh ws >>= fun w => pure (w.modAttrs fun a => { a with intensity := .bold })) := by
  simp [sgr, sgrLoop]

example : sgrSpec {} [[38], [5], [300], [1]] = ({}, 0) := by decide
example : sgrSpec {} [[38], [7], [1]] = ({}, 1) := by decide
example : sgrSpec {} [[5], [1]] = ({ intensity := .bold }, 1) := by decide
example : sgrSpec {} [[38], [5], [200], [1]] = ({ fg := .idx 200, intensity := .bold }, 0) := by decide
example : ending [[38], [5], [300]] = .malformed ∧ ending [[38], [7]] = .malformed ∧
    ending [[38], [2], [1], [2]] = .truncated ∧ ending [[38], [2], [1], [2, 3]] = .malformed ∧
    ending [[1], [38], [5], [3], [38, 2, 1, 2, 3], [38, 2, 0, 1, 2, 3], [5]] = .complete := by decide

/-- test on the whole machine (bytes → vte → perform), 2x2 parser, `impl Callbacks for ()`:
pen and events after the bytes -/
def runBytes (bs : List Nat) : Option (Attrs × List Event) :=
  match Parser.new 2 2 0 >>= fun p => p.process (fun _ => some 1) cbNone bs with
  | .ok p => some (p.ws.screen.attrs, p.ws.events)
  | .error _ => none

-- ESC [ 3 8 ; 5 ; 3 0 0 ; 1 m
example : runBytes [0x1B, 0x5B, 0x33, 0x38, 0x3B, 0x35, 0x3B, 0x33, 0x30, 0x30, 0x3B, 0x31, 0x6D] =
    some ({}, []) := by decide +kernel
-- ESC [ 3 8 ; 7 ; 1 m
example : runBytes [0x1B, 0x5B, 0x33, 0x38, 0x3B, 0x37, 0x3B, 0x31, 0x6D] =
    some ({}, [.unhandledCsi none none [[38], [7], [1]] 109]) := by decide +kernel
-- ESC [ 3 8 : 5 ; 1 m   (`38:5` is an unknown group: reported, bold still set)
example : runBytes [0x1B, 0x5B, 0x33, 0x38, 0x3A, 0x35, 0x3B, 0x31, 0x6D] =
    some ({ intensity := .bold }, [.unhandledCsi none none [[38, 5], [1]] 109]) := by decide +kernel


/-
#print axioms Vt.C09spec.sgr_spec
#print axioms Vt.C09spec.sgrLoop_run
#print axioms Vt.C09spec.sgr_spec_pen
#print axioms Vt.C09spec.perform_sgr
#print axioms Vt.C09spec.perform_sgr_pen
#print axioms Vt.C09spec.process_sgr_bytes
#print axioms Vt.C09spec.run_append_complete
#print axioms Vt.C09spec.run_stops
#print axioms Vt.C09spec.sgr_append_wellformed
#print axioms Vt.C09spec.sgr_stops
#print axioms Vt.C09spec.sgr_stops_after
-- each: ⊆ {propext, Classical.choice, Quot.sound}
-/
end Vt.C09spec
