/-
  Vt.Props.DiffWrap3 — C02 for changed soft-wrapped lines, part 3: the PENDING PHASE of a line that follows a line
  wrapped in S, while the emitter has not written anything for it yet and the receiver's cursor is still parked at the
  end of the line above (`RowDraw.Pend` for diffs).

  While the cells of S's line equal those of P's line nothing is written.  The first changed cell decides:
    (β) column 0, text: typed without a move — the receiver wraps (`pend_text0`);
    (γ) column 0, blank: an erase run from column 0 is collected; its flush writes SP BS instead of a move — the
        receiver wraps — then the pen, then ECH / EL (`pend_eraseMove`, `Zed`);
    (δ) column k > 0, text: an ordinary cursor move — nothing wraps (the line above must already be flagged);
    (F8a) column k > 0, blank: the flush would pad with k spaces over unchanged cells — excluded by `NoPad`.
  After that first emission the emitter's cursor is on this line, `wrapping` is irrelevant (`DiffWrap2`, part A) and
  the simulation of `DiffWrap1` (`fold_invWF`) takes over.
-/
import Vt.Props.DiffWrap2
namespace Vt.C02
open Vt Vt.Recv Vt.C19 Vt.C09 Vt.RowDraw Vt.C03 Vt.Bytes Vt.DiffRow Vt.C15wrap
set_option linter.unusedSimpArgs false
set_option linter.unusedVariables false

variable {W : Nat → Option Nat} {cb : CbPolicy}

/-- **no F8a pattern** on a pair of lines (`S` current, `P` previous): the first changed cell of the line, if it is
not in column 0, holds text.  (Otherwise — a blank after unchanged cells — the erase run's flush pads with spaces over
those unchanged cells when the receiver's cursor is still parked on the wrapped line above.) -/
def NoPad (S P : List Cell) : Prop :=
  ∀ k (hk : k < S.length) (hkP : k < P.length), 0 < k →
    (∀ j (hj : j < k), view (S[j]'(by omega)) = view (P[j]'(by omega))) → view S[k] ≠ view P[k] → S[k].hasContents = true

instance (S P : List Cell) : Decidable (NoPad S P) := by unfold NoPad; infer_instance

/-- the fixed facts of the pending phase: the receiver has processed nothing of this line, its cursor is parked on
the line above at column `c0`, its line `i` shows the previous line -/
structure PFacts (K : Ctx W cb) (D : DCtx K) (F : FlagSpec K.src D.prv) (X : WCtx K) (pa : Attrs) (c0 : Nat) (Ri0 : Row) :
    Prop where
  hem0 : Emitted W cb K.p0 [] (shape K.r0 K.i Ri0 ⟨K.i - 1, c0⟩ pa)
  hmid0 : MidF F 0 Ri0
  hwf0 : Attrs.wf K.r0.pen → Attrs.wf pa
  /-- the cursor is in the pending-wrap column, or in the last column with a changed wide character coming first -/
  park : c0 = K.r0.g.size.cols ∨ (c0 + 1 = K.r0.g.size.cols ∧ ∃ h : 0 < K.src.length, K.src[0].wide = true ∧
    view K.src[0] ≠ view (D.prv[0]'(by rw [D.hprv]; exact h)))
  nopad : NoPad K.src D.prv
  /-- the line above is already flagged on the receiver, or the first cell is changed (so that the first emission wraps) -/
  rpw : X.Rp.wrapped = true ∨ ∃ h : 0 < K.src.length, view K.src[0] ≠ view (D.prv[0]'(by rw [D.hprv]; exact h))

/-- nothing has been written for this line yet; at most an erase run starting in column 0 is being collected -/
structure PendD (K : Ctx W cb) (D : DCtx K) (pa : Attrs) (c0 : Nat) (j : Nat) (st : Row.FmtSt) : Prop where
  out : st.out = []
  pos : st.prevPos = ⟨K.i - 1, c0⟩
  pen : st.prevAttrs = pa
  ww : ∀ (_ : 0 < j) (hl : j ≤ K.src.length), st.prevWasWide = (K.src[j - 1]'(by omega)).wide
  w0 : j = 0 → st.prevWasWide = false
  er : (st.erase = none ∧ ∀ k (hk : k < K.src.length), k < j → view K.src[k] = view (D.prv[k]'(by rw [D.hprv]; exact hk))) ∨
    (∃ a, st.erase = some (0, a) ∧ st.prevWasWide = false ∧ 1 ≤ j ∧ Attrs.wf a ∧ c0 = K.r0.g.size.cols ∧
      ∀ k (hk : k < K.src.length), k < j → view K.src[k] = blankA a)

/-- something has been written: the emitter's cursor is on this line and the simulation of `DiffWrap1` holds — on the
receiver with the wrap recorded, or (when the line above was flagged already) on the receiver as it was -/
def After (K : Ctx W cb) (D : DCtx K) (F : FlagSpec K.src D.prv) (X : WCtx K) (j : Nat) (st : Row.FmtSt) : Prop :=
  Unparked K.src.length K.i st.prevPos ∧
    (JWF (K.wrapped X) (wrapD D X) F j st ∨ (JWF K D F j st ∧ X.Rp.wrapped = true))

theorem PendD.eq {K : Ctx W cb} {D : DCtx K} {pa : Attrs} {c0 j : Nat} {st : Row.FmtSt} (h : PendD K D pa c0 j st) :
    st = ⟨st.prevWasWide, ⟨K.i - 1, c0⟩, pa, st.erase, []⟩ := by
  obtain ⟨pw, pp, pat, er, out⟩ := st
  have h1 := h.out; have h2 := h.pos; have h3 := h.pen
  simp only at h1 h2 h3
  subst h1 h2 h3
  rfl

theorem unparked_of_row {cols row : Nat} {p : Pos} (h : p.row = row) : Unparked cols row p := by
  unfold Unparked; omega

/-- the parked column is on the screen -/
theorem PFacts.c0_le {K : Ctx W cb} {D : DCtx K} {F : FlagSpec K.src D.prv} {X : WCtx K} {pa : Attrs} {c0 : Nat} {Ri0 : Row}
    (Q : PFacts K D F X pa c0 Ri0) : c0 ≤ K.src.length := by
  rw [K.hsrc]
  rcases Q.park with h | ⟨h, _⟩ <;> omega

/-- when the first cell is unchanged the cursor is in the pending-wrap column and the line above is flagged -/
theorem PFacts.first_eq {K : Ctx W cb} {D : DCtx K} {F : FlagSpec K.src D.prv} {X : WCtx K} {pa : Attrs} {c0 : Nat} {Ri0 : Row}
    (Q : PFacts K D F X pa c0 Ri0) (h0 : 0 < K.src.length)
    (hv : view K.src[0] = view (D.prv[0]'(by rw [D.hprv]; exact h0))) : c0 = K.r0.g.size.cols ∧ X.Rp.wrapped = true := by
  constructor
  · rcases Q.park with h | ⟨_, _, _, hne⟩
    · exact h
    · exact absurd hv hne
  · rcases Q.rpw with h | ⟨_, hne⟩
    · exact h
    · exact absurd hv hne

/-- the loop invariant of `DiffWrap1` right after a cell with text has been typed at column `j` -/
theorem jwf_after_text {K : Ctx W cb} {D : DCtx K} {F : FlagSpec K.src D.prv} {j : Nat} (hj : j < K.src.length)
    {st' : Row.FmtSt} (hh : K.src[j].hasContents = true) (hpw : st'.prevWasWide = K.src[j].wide) (hnone : st'.erase = none)
    (hd : DrawnWF K D F (j + (if K.src[j].wide then 2 else 1)) st') : JWF K D F (j + 1) st' := by
  refine ⟨?_, ?_, ?_, ?_, ?_⟩
  · intro k hk hkj _ _ hnh _
    have : k = j := by omega
    subst this
    rw [hh] at hnh; exact absurd hnh (by simp)
  · intro _ _; simpa using hpw
  · intro h0; omega
  · intro h'
    have hwide : K.src[j].wide = true := by rw [← hpw]; exact h'
    refine ⟨hnone, ?_⟩
    simpa [hwide] using hd
  · intro h'
    have hwide : K.src[j].wide = false := by rw [← hpw]; exact h'
    refine ⟨?_, fun e a h'' => by rw [hnone] at h''; simp at h''⟩
    have : esK (j + 1) st' = j + 1 := by simp [esK, hnone]
    rw [this]
    simpa [hwide] using hd

/-- **one cell while nothing has been written for the wrapped-onto line yet** -/
theorem pending_stepD (K : Ctx W cb) (D : DCtx K) (F : FlagSpec K.src D.prv) (X : WCtx K) (hW : WOk W) (hS : SrcOk W K.src)
    {pa : Attrs} {c0 : Nat} {Ri0 : Row} (Q : PFacts K D F X pa c0 Ri0) {j : Nat} (hj : j < K.src.length) {st : Row.FmtSt}
    (h : PendD K D pa c0 j st) :
    ∃ st', Row.diffStep K.src.length K.i true st (j, (K.src[j], D.prv[j]'(by rw [D.hprv]; exact hj))) = .ok st' ∧
      (PendD K D pa c0 (j + 1) st' ∨ After K D F X (j + 1) st') := by
  have hjP : j < D.prv.length := by rw [D.hprv]; exact hj
  have hne : 0 < K.src.length := by omega
  have hok := hS.cells_ok _ (List.getElem_mem hj)
  have her := h.er
  have hww := h.ww
  have hw0 := h.w0
  rw [h.eq] at her hww hw0 ⊢
  generalize st.erase = er at her
  generalize st.prevWasWide = pw at her hww hw0
  clear h st
  unfold Row.diffStep
  simp only
  by_cases hpw : pw = true
  · -- the second half of a wide character: skipped
    subst hpw
    simp only [↓reduceIte]
    have hj0 : 0 < j := by
      rcases Nat.eq_zero_or_pos j with h0 | h0
      · have := hw0 h0; simp at this
      · exact h0
    have hprev := hww hj0 (Nat.le_of_lt hj)
    have hcont : K.src[j].cont = true := by
      rw [hS.cont_iff j hj, if_neg (by omega), ← hprev]
    have hnw : K.src[j].wide = false := (cellOk_cont W _ hok hcont).1
    refine ⟨_, rfl, Or.inl ⟨rfl, rfl, rfl, ?_, fun h0 => by omega, ?_⟩⟩
    · intro _ _; simp [hnw]
    · rcases her with ⟨hnone, heq⟩ | ⟨a, _, hf, _⟩
      · refine Or.inl ⟨hnone, ?_⟩
        intro k hk hkj
        by_cases hkj' : k < j
        · exact heq k hk hkj'
        · have : k = j := by omega
          subst this
          have hpwide : (D.prv[k - 1]'(by omega)).wide = true := by
            rw [← view_wide (heq (k - 1) (by omega) (by omega))]; exact hprev.symm
          obtain ⟨hk1, hpc⟩ := D.hP.wide_next (k - 1) (by omega) hpwide
          have e : k - 1 + 1 = k := by omega
          have hpc' : (D.prv[k]'hjP).cont = true := by
            have := hpc; simp only [e] at this; exact this
          rw [hS.cont_view k hk hcont, D.hP.cont_view k hjP hpc']
      · simp at hf
  · have hpw' : pw = false := by simpa using hpw
    subst hpw'
    simp only [Bool.false_eq_true, ↓reduceIte]
    have hnc : K.src[j].cont = false := by
      rw [hS.cont_iff j hj]
      by_cases h0 : j = 0
      · simp [h0]
      · rw [if_neg h0, ← hww (by omega) (Nat.le_of_lt hj)]
    rw [C03.fmtCellStep_eq]
    rcases her with ⟨hnone, heq⟩ | ⟨a, hea, _, h1j, hwfa, hfull, hrun⟩
    · -- nothing pending
      have hnone' : er = none := hnone
      subst hnone'
      simp only [C03.flush, pure_bind', ok_bind]
      by_cases hd : K.src[j].eq (D.prv[j]'hjP) = true
      · -- an unchanged cell
        have hv : view K.src[j] = view (D.prv[j]'hjP) := (eq_iff_view _ _).mp hd
        simp only [hd, Bool.not_true, C03.emit, Bool.false_eq_true, ↓reduceIte, pure_eq_ok]
        refine ⟨_, rfl, Or.inl ⟨rfl, rfl, rfl, ?_, fun h0 => by omega, Or.inl ⟨rfl, ?_⟩⟩⟩
        · intro _ _; simp [Cell.isWide]
        · intro k hk hkj
          by_cases hkj' : k < j
          · exact heq k hk hkj'
          · have : k = j := by omega
            subst this; exact hv
      · have hd' : (!(K.src[j].eq (D.prv[j]'hjP))) = true := by simpa using hd
        have hvne : view K.src[j] ≠ view (D.prv[j]'hjP) := fun hv => hd ((eq_iff_view _ _).mpr hv)
        rw [hd']
        by_cases hh : K.src[j].hasContents = true
        · by_cases hj0 : j = 0
          · -- (β) text in column 0: typed without a move
            subst hj0
            have hc0 : K.src.length ≤ c0 + (if K.src[0].isWide = true then 1 else 0) := by
              rw [K.hsrc]
              rcases Q.park with hp | ⟨hp, _, hw, _⟩
              · omega
              · simp only [Cell.isWide, hw, ↓reduceIte]; omega
            obtain ⟨e3, hd3⟩ := pend_text0 K D F X hW hS hne Q.hem0 Q.hmid0 hh hc0 K.src[0].isWide
            refine ⟨_, e3, Or.inr ⟨unparked_of_row rfl, Or.inl ?_⟩⟩
            exact jwf_after_text (K := K.wrapped X) (D := wrapD D X) hj hh rfl rfl hd3
          · -- (δ) text in a later column: an ordinary move
            obtain ⟨hc0, hrp⟩ := Q.first_eq hne (heq 0 hne (by omega))
            have hI : Inv1WF K D F j ⟨K.src[j].isWide, ⟨K.i - 1, c0⟩, pa, none, []⟩ := by
              refine ⟨?_, fun e a h' => by simp at h'⟩
              show DrawnWF K D F j _
              exact ⟨Ri0, Q.hem0, midF_advance D.hP Q.hmid0 j (Nat.le_of_lt hj) heq, Bytes.nil, Q.c0_le, Q.hwf0⟩
            obtain ⟨st', e', hJ⟩ := emit_invWF K D F hW hS hj hnc hI rfl (Or.inl rfl)
            rw [hd'] at e'
            have eirr := emit_irrel K.src.length K.i ⟨K.src[j].isWide, ⟨K.i - 1, c0⟩, pa, none, []⟩ j K.src[j] true
              (Or.inr (Or.inl hj0))
            rw [eirr]
            exact ⟨st', e', Or.inr ⟨unparked_of_row (emit_text_row _ _ _ _ _ _ _ hh e'), Or.inr ⟨hJ, hrp⟩⟩⟩
        · -- a changed blank cell
          have hh' : K.src[j].hasContents = false := by simpa using hh
          have hbv := hS.blank_view j hj hh'
          rw [hnc] at hbv
          have hnw : K.src[j].wide = false := by
            simp only [view, View.mk.injEq] at hbv; exact hbv.2.1
          by_cases hj0 : j = 0
          · -- (γ) an erase run starts in column 0
            subst hj0
            have hc0 : c0 = K.r0.g.size.cols := by
              rcases Q.park with hp | ⟨_, _, hw, _⟩
              · exact hp
              · rw [hnw] at hw; exact absurd hw (by simp)
            simp only [C03.emit, ↓reduceIte, hh', Bool.false_eq_true, Option.isNone_none, pure_eq_ok]
            refine ⟨_, rfl, Or.inl ⟨rfl, rfl, rfl, ?_, fun h0 => by omega,
              Or.inr ⟨K.src[0].attrs, rfl, by simp [Cell.isWide, hnw], by omega, hS.wf 0 hne, hc0, ?_⟩⟩⟩
            · intro _ _; simp [Cell.isWide]
            · intro k hk hk1
              have : k = 0 := by omega
              subst this
              rw [hbv]; rfl
          · -- excluded: the F8a pattern
            exfalso
            have := Q.nopad j hj hjP (by omega) (fun k hk => heq k (by omega) hk) hvne
            rw [hh'] at this; exact absurd this (by simp)
    · -- an erase run from column 0 is being collected
      have hea' : er = some (0, a) := hea
      subst hea'
      by_cases hcond : (K.src[j].hasContents || K.src[j].attrs != a) = true
      · -- the run ends here: space, BS, pen, ECH — and from now on the line is started
        subst hfull
        obtain ⟨hp', ha', he', hw', hbytes, R1, hem1, hz, hzw⟩ :=
          pend_eraseMove K D F X hW Q.hem0 Q.hmid0 a hwfa K.src[j].isWide (some (0, a))
        simp only [C03.flush, hcond, ↓reduceIte, subM_ok (Nat.zero_le _), pure_bind', ok_bind, Nat.sub_zero]
        have hu := K.canvas.cols_u16
        have hl1 : R1.cells.length = (K.wrapped X).r0.g.size.cols := by rw [hz.len]; exact K.hsrc
        have hci1 := cells_of_emitted' hW.space (K.wrapped X) D.hcb D.pinv hbytes hem1
        have e1 := shape_echD (K.wrapped X) hl1 hci1 0 j (by show 0 + j ≤ K.r0.g.size.cols; rw [← K.hsrc]; omega) a
        have hech := emitted_step W cb K.ready hem1 (step_eraseChar W cb j (by rw [← K.hsrc] at hu; omega))
          (r' := shape (K.wrapped X).r0 K.i (C07.erasedRow R1.cells R1.wrapped 0 (0 + j) a) ⟨K.i, 0⟩ a) (by
            simp only [show ¬ j = 0 by omega, ↓reduceIte]
            have hpen : (shape (K.wrapped X).r0 K.i R1 ⟨K.i, 0⟩ a).pen = a := rfl
            rw [hpen]
            have e1' : (shape (K.wrapped X).r0 K.i R1 ⟨K.i, 0⟩ a).g.eraseCells j a = _ := e1
            rw [e1']
            rfl)
        have hmid2 : MidF F j (C07.erasedRow R1.cells R1.wrapped 0 (0 + j) a) := by
          rw [Nat.zero_add]
          refine ⟨hz.erase hS h1j (Nat.le_of_lt hj) a hrun R1.wrapped, ?_⟩
          intro b hb
          simp only [C07.erasedRow]
          cases b with
          | false => rw [hzw, Q.hmid0.flag false hb]; split <;> rfl
          | true =>
            rw [hz.flag_kept (F.keep hb) h1j (Nat.le_of_lt hj) a hrun, hzw, Q.hmid0.flag true hb]
            simp
        have hI2 : Inv1WF (K.wrapped X) (wrapD D X) F j
            (flushed (Row.eraseMove K.src.length K.i true ⟨K.src[j].isWide, ⟨K.i - 1, K.r0.g.size.cols⟩, pa, some (0, a), []⟩ 0 a) j) := by
          refine ⟨⟨_, ?_, hmid2, Bytes.append hbytes (eraseChar_bytes _), ?_⟩, fun e a h' => by simp [flushed] at h'⟩
          · simp only [flushed, hp', ha']
            exact hech
          · simp only [flushed, hp', ha']
            exact ⟨Nat.zero_le _, fun _ => hwfa⟩
        obtain ⟨st3, e3, hJ3⟩ := emit_invWF (K.wrapped X) (wrapD D X) F hW hS hj hnc hI2
          (by simp only [flushed]; rw [hw']; rfl) (Or.inl rfl)
        have hup : Unparked K.src.length K.i
            (flushed (Row.eraseMove K.src.length K.i true ⟨K.src[j].isWide, ⟨K.i - 1, K.r0.g.size.cols⟩, pa, some (0, a), []⟩ 0 a) j).prevPos := by
          simp only [flushed, hp']; exact unparked_on_row _ _ _
        have eirr := emit_irrel K.src.length K.i
          (flushed (Row.eraseMove K.src.length K.i true ⟨K.src[j].isWide, ⟨K.i - 1, K.r0.g.size.cols⟩, pa, some (0, a), []⟩ 0 a) j)
          j K.src[j] (!(K.src[j].eq (D.prv[j]'hjP))) (Or.inl hup)
        have e3' : C03.emit K.src.length K.i false _ j K.src[j] (!(K.src[j].eq (D.prv[j]'hjP))) = .ok st3 := e3
        refine ⟨st3, ?_, Or.inr ⟨(pos_keeps (emit_pos _ _ _ _ _ _ _ _ e3')).2 hup, Or.inl hJ3⟩⟩
        show C03.emit K.src.length K.i true (flushed _ j) j K.src[j] _ = _
        rw [eirr]; exact e3'
      · -- the run goes on
        simp only [C03.flush, hcond, Bool.false_eq_true, ↓reduceIte, pure_bind', ok_bind]
        simp only [Bool.or_eq_true, bne_iff_ne, ne_eq, not_or, Bool.not_eq_true, Decidable.not_not] at hcond
        have hbv := hS.blank_view j hj hcond.1
        rw [hnc] at hbv
        have hnw : K.src[j].wide = false := by simp only [view, View.mk.injEq] at hbv; exact hbv.2.1
        have hemit : C03.emit K.src.length K.i true ⟨K.src[j].isWide, ⟨K.i - 1, c0⟩, pa, some (0, a), []⟩ j K.src[j]
            (!(K.src[j].eq (D.prv[j]'hjP))) = .ok ⟨K.src[j].isWide, ⟨K.i - 1, c0⟩, pa, some (0, a), []⟩ := by
          simp only [C03.emit, hcond.1, Bool.false_eq_true, ↓reduceIte, Option.isNone_some, pure_eq_ok]
          split <;> rfl
        refine ⟨_, hemit, Or.inl ⟨rfl, rfl, rfl, ?_, fun h0 => by omega,
          Or.inr ⟨a, rfl, by simp [Cell.isWide, hnw], by omega, hwfa, hfull, ?_⟩⟩⟩
        · intro _ _; simp [Cell.isWide]
        · intro k hk hk1
          by_cases hkj : k = j
          · subst hkj; rw [hbv, hcond.2]; rfl
          · exact hrun k hk (by omega)

/-- the end of the cell loop, once something has been written -/
def AfterEnd (K : Ctx W cb) (D : DCtx K) (F : FlagSpec K.src D.prv) (X : WCtx K) (st : Row.FmtSt) : Prop :=
  NotFull K.src.length K.i st.prevPos ∧
    (JWF (K.wrapped X) (wrapD D X) F K.src.length st ∨ (JWF K D F K.src.length st ∧ X.Rp.wrapped = true))

/-- the loop on a wrapped-onto line: as long as nothing has been written `pending_stepD`; after that `wrapping` is
irrelevant and `DiffWrap1.fold_invWF` takes over -/
theorem pending_foldD (K : Ctx W cb) (D : DCtx K) (F : FlagSpec K.src D.prv) (X : WCtx K) (hW : WOk W) (hS : SrcOk W K.src)
    {pa : Attrs} {c0 : Nat} {Ri0 : Row} (Q : PFacts K D F X pa c0 Ri0) :
    ∀ (cs : List (Cell × Cell)) (j : Nat) (st : Row.FmtSt),
    (K.src.zip D.prv).drop j = cs → j ≤ K.src.length → PendD K D pa c0 j st →
    ∃ st', (C14.enumFrom j cs).foldlM (Row.diffStep K.src.length K.i true) st = .ok st' ∧
      (PendD K D pa c0 K.src.length st' ∨ AfterEnd K D F X st')
  | [], j, st, hcs, hjl, h => by
    have : j = K.src.length := by
      have := congrArg List.length hcs
      simp only [List.length_drop, List.length_nil, List.length_zip, D.hprv, Nat.min_self] at this
      omega
    subst this
    exact ⟨st, rfl, Or.inl h⟩
  | c :: cs, j, st, hcs, hjl, h => by
    have hj : j < K.src.length := by
      have := congrArg List.length hcs
      simp only [List.length_drop, List.length_cons, List.length_zip, D.hprv, Nat.min_self] at this
      omega
    have hjz : j < (K.src.zip D.prv).length := by simp [List.length_zip, D.hprv]; exact hj
    have hc : (K.src[j], D.prv[j]'(by rw [D.hprv]; exact hj)) = c := by
      have := congrArg (fun l => l[0]?) hcs
      simp only [List.getElem?_drop, Nat.add_zero, List.getElem?_eq_getElem hjz, List.getElem?_cons_zero,
        Option.some.injEq, List.getElem_zip] at this
      exact this
    have hcs' : (K.src.zip D.prv).drop (j + 1) = cs := by
      have := congrArg List.tail hcs
      simpa [List.tail_drop] using this
    have hen : C14.enumFrom j (c :: cs) = (j, c) :: C14.enumFrom (j + 1) cs := by
      simp [C14.enumFrom, List.zipIdx_cons]
    obtain ⟨st1, e1, h1⟩ := pending_stepD K D F X hW hS Q hj h
    rw [hen, List.foldlM_cons, ← hc, e1]
    simp only [ok_bind]
    rcases h1 with h1 | ⟨hup, h1⟩
    · exact pending_foldD K D F X hW hS Q cs (j + 1) st1 hcs' (by omega) h1
    · obtain ⟨eirr, hnf⟩ := fold_irrel K.src.length K.i (C14.enumFrom (j + 1) cs) st1 ⟨hup.notFull, Or.inl hup⟩
      rw [eirr]
      rcases h1 with h1 | ⟨h1, hrp⟩
      · obtain ⟨st', e2, h2⟩ := fold_invWF (K.wrapped X) (wrapD D X) F hW hS cs (j + 1) st1 hcs'
          (by show j + 1 ≤ K.src.length; omega) h1
        exact ⟨st', e2, Or.inr ⟨hnf st' e2, Or.inl h2⟩⟩
      · obtain ⟨st', e2, h2⟩ := fold_invWF K D F hW hS cs (j + 1) st1 hcs' (by omega) h1
        exact ⟨st', e2, Or.inr ⟨hnf st' e2, Or.inr ⟨h2, hrp⟩⟩⟩

/-- when the line above is flagged already, recording the wrap changes nothing -/
theorem wrapBase_id {r0 : RS} {i : Nat} {Rp : Row} (hp : r0.g.rows[i - 1]? = some Rp) (hw : Rp.wrapped = true) :
    wrapBase r0 i Rp = r0 := by
  obtain ⟨g, pen, saved⟩ := r0
  simp only [wrapBase, RS.mk.injEq, and_true]
  have hRp : Rp.wrap true = Rp := by
    obtain ⟨cs, w⟩ := Rp
    simp only at hw
    simp [Row.wrap, hw]
  have : g.rows.set (i - 1) (Rp.wrap true) = g.rows := by
    rw [hRp]
    apply List.ext_getElem?; intro k
    by_cases hk : i - 1 = k
    · subst hk
      have hl := getElem?_lt hp
      rw [List.getElem?_set_self hl]; exact hp.symm
    · simp [hk]
  simp only at hp this ⊢
  rw [this]

/-- **the tail of a line, from the loop invariant at the end of the line**: the last erase run, then `diffEnd` -/
theorem line_tailF (K : Ctx W cb) (D : DCtx K) (F : FlagSpec K.src D.prv) (hW : WOk W) (hS : SrcOk W K.src)
    (hne : 0 < K.src.length) (sw : Bool) (pr : Row) (hprv : pr.cells = D.prv) {st' : Row.FmtSt}
    (hJ : JWF K D F K.src.length st')
    (hoccS : sw = true → lastOcc K.src) (hoccP : pr.wrapped = true → lastOcc pr.cells)
    (hmOff : pr.wrapped = false → F.mode = some false)
    (hmOn : pr.wrapped = true → sw = true → F.mode = some true) :
    ∃ out np na, Row.diffEnd ⟨K.src, sw⟩ pr K.i (Row.fmtFinish K.src.length K.i false st') = .ok (out, np, na) ∧
      (∃ Ri, Emitted W cb K.p0 out (shape K.r0 K.i Ri np na) ∧ Ri.cells.map view = K.src.map view ∧
        Ri.wrapped = (pr.wrapped && sw)) ∧ Bytes out ∧
      np.col ≤ K.src.length ∧ (Attrs.wf K.r0.pen → Attrs.wf na) ∧
      (sw = true → pr.wrapped = false → np = ⟨K.i, K.src.length⟩) := by
  have hd := finish_drawnWF K D F hW hS hne hJ
  have hE : sw = false → pr.wrapped = true → ∀ c (hc : c < K.src.length), c + 1 = K.src.length →
      K.src[c].cont = false → K.src[c].hasContents = false →
      K.src[c].attrs = (Row.fmtFinish K.src.length K.i false st').prevAttrs := by
    intro hsu hpwr c hc hcl hcc hh
    have hcp : c < D.prv.length := by rw [D.hprv]; exact hc
    have hdf : view K.src[c] ≠ view (D.prv[c]'hcp) := by
      obtain ⟨hp0, hocc'⟩ := hoccP hpwr
      have hpl : pr.cells.length = K.src.length := by rw [hprv, D.hprv]
      have hidx : pr.cells.length - 1 = c := by omega
      have hocc'' : (pr.cells[c]'(by omega)).hasContents = true ∨ (pr.cells[c]'(by omega)).cont = true := by
        simpa only [hidx] using hocc'
      have hcell : pr.cells[c]'(by omega) = D.prv[c]'hcp := by
        simp only [hprv]
      rw [hcell] at hocc''
      intro hv
      simp only [view, View.mk.injEq] at hv
      rcases hocc'' with h1 | h1
      · simp only [Cell.hasContents, decide_eq_true_eq, decide_eq_false_iff_not] at h1 hh
        omega
      · rw [← hv.2.2.1, hcc] at h1; exact absurd h1 (by simp)
    exact (finish_penF K D F hS hne hJ hc hcl hcc hh hdf).symm
  obtain ⟨out, np, na, eend, hres, hb, hnp, hwf, hpos, _⟩ :=
    diffEnd_drawnF K D.prv F D.hcb D.pinv hW hS hne sw pr hd hE hoccS hmOff hmOn
  exact ⟨out, np, na, eend, hres, hb, hnp, hwf, hpos⟩

theorem diffStart_norepair (r prev : Row) (start row : Nat) (pw : Bool) (pp : Pos) (pa : Attrs)
    (h : pw = true ∨ ∀ fc pfc, r.cells[start]? = some fc → prev.cells[start]? = some pfc → fc.eq pfc = false) :
    Row.diffStart r prev start row true pw pp pa = .ok ⟨false, pp, pa, none, []⟩ := by
  unfold Row.diffStart
  cases h1 : r.cells[start]? with
  | none => simp
  | some fc =>
    cases h2 : prev.cells[start]? with
    | none => simp
    | some pfc =>
      have hc : (true && !pw && fc.eq pfc && pp.row + 1 == row &&
          decide (pp.col ≥ r.cols - if pfc.isWide = true then 1 else 0)) = false := by
        rcases h with h | h
        · simp [h]
        · simp [h fc pfc h1 h2]
      simp only [hc, Bool.false_eq_true, ↓reduceIte, pure_eq_ok]

/-- what one line of a diff achieves on the receiver whose state (but for line `i`, cursor and pen) is `base` -/
def LineDone (W : Nat → Option Nat) (cb : CbPolicy) (p0 : Parser) (base : RS) (i : Nat) (sr pr : Row) (cols : Nat)
    (res : List Nat × Pos × Attrs) : Prop :=
  (∃ Ri, Emitted W cb p0 res.1 (shape base i Ri res.2.1 res.2.2) ∧ Ri.cells.map view = sr.cells.map view ∧
    Ri.wrapped = (pr.wrapped && sr.wrapped)) ∧ Bytes res.1 ∧ res.2.1.col ≤ cols ∧
  (Attrs.wf base.pen → Attrs.wf res.2.2) ∧ (sr.wrapped = true → pr.wrapped = false → res.2.1 = ⟨i, cols⟩)

/-- **one line of a diff, `wrapping = true`, the receiver's cursor PARKED at the end of the line above** (in its
pending-wrap column; or in its last column when the line starts with a changed wide character), no repair by
`diffStart` (the line above is wrapped in P too, or the first cell is changed).  The line above has its last column
occupied on the receiver.  Side condition: `NoPad` (excludes the F8a pattern).  Then processing the bytes of
`sr.write_contents_diff(pr, …)` makes line `i` show `sr` (cells; wrap flag as in `row_diff_draws_flags`), and the
line above is FLAGGED as wrapped (`wrapBase`: by the receiver's own autowrap if something was typed from the parked
position; it was flagged already otherwise). -/
theorem row_diff_draws_parked (hW : WOk W) (hcb : C13.CbInv W cb) (p0 : Parser) (hr : Ready p0) (hpi : C13.ParserInv W p0)
    (hcv : Canvas (rsOf p0.ws).g) (i : Nat) (hi1 : 1 ≤ i) (hi : i < (rsOf p0.ws).g.size.rows) (sr pr : Row)
    (hlen : sr.cells.length = (rsOf p0.ws).g.size.cols) (hplen : pr.cells.length = (rsOf p0.ws).g.size.cols)
    (hS : SrcOk W sr.cells) (hP : SrcOk W pr.cells)
    (Ri0 : Row) (hrow : (rsOf p0.ws).g.rows[i]? = some Ri0) (hshow : Ri0.cells.map view = pr.cells.map view)
    (hRw : Ri0.wrapped = pr.wrapped)
    (Rp : Row) (hp : (rsOf p0.ws).g.rows[i - 1]? = some Rp) (last : Cell)
    (hlast : Rp.cells[(rsOf p0.ws).g.size.cols - 1]? = some last) (hocc : (last.hasContents || last.cont) = true)
    (c0 : Nat) (hpos : (rsOf p0.ws).g.pos = ⟨i - 1, c0⟩)
    (park : c0 = (rsOf p0.ws).g.size.cols ∨ (c0 + 1 = (rsOf p0.ws).g.size.cols ∧ ∃ h : 0 < sr.cells.length,
      sr.cells[0].wide = true ∧ view sr.cells[0] ≠ view (pr.cells[0]'(by rw [hplen, ← hlen]; exact h))))
    (nopad : NoPad sr.cells pr.cells) (pw : Bool)
    (hnr : (pw = true ∧ Rp.wrapped = true) ∨ ∃ h : 0 < sr.cells.length,
      view sr.cells[0] ≠ view (pr.cells[0]'(by rw [hplen, ← hlen]; exact h)))
    (hoccS : sr.wrapped = true → lastOcc sr.cells) (hoccP : pr.wrapped = true → lastOcc pr.cells)
    (hnof : sr.wrapped = true → pr.wrapped = true → noF8b sr.cells pr.cells = true) :
    ∃ res, sr.writeContentsDiff pr 0 sr.cells.length i true pw (rsOf p0.ws).g.pos (rsOf p0.ws).pen = .ok res ∧
      LineDone W cb p0 (wrapBase (rsOf p0.ws) i Rp) i sr pr (rsOf p0.ws).g.size.cols res := by
  have hne : 0 < sr.cells.length := by rw [hlen]; exact hcv.cols_pos
  let K : Ctx W cb := mkK p0 hr hcv i hi sr hlen
  let D : DCtx K := mkD hcb p0 hr hpi hcv i hi sr pr hlen hplen hP
  let X : WCtx K := ⟨hi1, Rp, hp, last, hlast, hocc⟩
  let F : FlagSpec sr.cells pr.cells := specOf sr pr (fun h1 h2 => ⟨hoccS h1, hnof h1 h2⟩)
  have hFoff : pr.wrapped = false → F.mode = some false := by
    intro h; show (if pr.wrapped then _ else _) = _; rw [h]; rfl
  have hFon : pr.wrapped = true → sr.wrapped = true → F.mode = some true := by
    intro h1 h2; show (if pr.wrapped then _ else _) = _; rw [h1, h2]; rfl
  have hfl : ∀ b, F.mode = some b → Ri0.wrapped = b := by
    intro b hb
    have hb' : (if pr.wrapped then (if sr.wrapped then some true else none) else some false) = some b := hb
    rw [hRw]
    cases hp' : pr.wrapped <;> cases hs : sr.wrapped <;> simp [hp', hs] at hb' <;> exact hb'.symm
  have hpl : pr.cells.length = sr.cells.length := by rw [hplen, hlen]
  have hmid0 : MidF F 0 Ri0 := ⟨mid_zero' hpl hshow, hfl⟩
  have hem0 : Emitted W cb p0 [] (shape (rsOf p0.ws) i Ri0 ⟨i - 1, c0⟩ (rsOf p0.ws).pen) := by
    rw [← hpos, shape_self _ _ _ hrow]
    exact emitted_nil W cb p0 hr
  have Q : PFacts K D F X (rsOf p0.ws).pen c0 Ri0 :=
    ⟨hem0, hmid0, id, park, nopad, hnr.imp (fun h => h.2) id⟩
  have hP0 : PendD K D (rsOf p0.ws).pen c0 0 ⟨false, ⟨i - 1, c0⟩, (rsOf p0.ws).pen, none, []⟩ :=
    ⟨rfl, rfl, rfl, fun h => absurd h (Nat.lt_irrefl 0), fun _ => rfl, Or.inl ⟨rfl, fun k _ hk => absurd hk (Nat.not_lt_zero k)⟩⟩
  obtain ⟨st', e, hend⟩ := pending_foldD K D F X hW hS Q (sr.cells.zip pr.cells) 0 _ (by rfl) (Nat.zero_le _) hP0
  have e' : (C14.enumFrom 0 (sr.cells.zip pr.cells)).foldlM (Row.diffStep sr.cells.length i true)
      ⟨false, ⟨i - 1, c0⟩, (rsOf p0.ws).pen, none, []⟩ = .ok st' := e
  have hwin : Row.window (sr.cells.zip pr.cells) 0 sr.cells.length = C14.enumFrom 0 (sr.cells.zip pr.cells) := by
    rw [C03.window_eq, C14.windowFrom_eq]
    simp only [Nat.zero_add, List.drop_zero]
    rw [List.take_of_length_le (by simp [List.length_zip, hplen, hlen])]
  have hst : Row.diffStart sr pr 0 i true pw (rsOf p0.ws).g.pos (rsOf p0.ws).pen =
      .ok ⟨false, ⟨i - 1, c0⟩, (rsOf p0.ws).pen, none, []⟩ := by
    rw [hpos]
    apply diffStart_norepair
    rcases hnr with h | ⟨h0, hv⟩
    · exact Or.inl h.1
    · right
      intro fc pfc h1 h2
      rw [List.getElem?_eq_getElem h0] at h1
      rw [List.getElem?_eq_getElem (by rw [hpl]; exact h0)] at h2
      have h1' := Option.some.inj h1
      have h2' := Option.some.inj h2
      subst h1' h2'
      cases he : sr.cells[0].eq pr.cells[0]
      · rfl
      · exact absurd ((eq_iff_view _ _).mp he) hv
  unfold Row.writeContentsDiff
  rw [hst]
  simp only [ok_bind, hwin, Row.cols, e']
  -- the tail, case by case
  have hfinal : ∀ (base : RS) (hbase : base = wrapBase (rsOf p0.ws) i Rp ∨ (base = rsOf p0.ws ∧ Rp.wrapped = true))
      (res : List Nat × Pos × Attrs),
      ((∃ Ri, Emitted W cb p0 res.1 (shape base i Ri res.2.1 res.2.2) ∧ Ri.cells.map view = sr.cells.map view ∧
        Ri.wrapped = (pr.wrapped && sr.wrapped)) ∧ Bytes res.1 ∧ res.2.1.col ≤ sr.cells.length ∧
        (Attrs.wf (rsOf p0.ws).pen → Attrs.wf res.2.2) ∧
        (sr.wrapped = true → pr.wrapped = false → res.2.1 = ⟨i, sr.cells.length⟩)) →
      LineDone W cb p0 (wrapBase (rsOf p0.ws) i Rp) i sr pr (rsOf p0.ws).g.size.cols res := by
    intro base hbase res ⟨h1, h2, h3, h4, h5⟩
    have hb : base = wrapBase (rsOf p0.ws) i Rp := by
      rcases hbase with h | ⟨h, hw⟩
      · exact h
      · rw [h, wrapBase_id hp hw]
    subst hb
    exact ⟨h1, h2, by rw [← hlen]; exact h3, h4, by rw [← hlen]; exact h5⟩
  rcases hend with hP' | ⟨hnf, hJ | ⟨hJ, hrp⟩⟩
  · -- nothing was written in the loop
    have her := hP'.er
    have hst' := hP'.eq
    rcases her with ⟨hnone, heq⟩ | ⟨a, hea, _, _, hwfa, hfull, hrun⟩
    · -- (α) every cell is unchanged
      obtain ⟨_, hrp⟩ := Q.first_eq hne (heq 0 hne hne)
      have hff : Row.fmtFinish sr.cells.length i true st' = st' := by
        unfold Row.fmtFinish; rw [hnone]
      rw [hff]
      have hd : DrawnPF K pr.cells F sr.cells.length st' := by
        rw [hst']
        exact ⟨Ri0, hem0, midF_advance hP hmid0 sr.cells.length (Nat.le_refl _) (fun k hk _ => heq k hk hk), Bytes.nil,
          Q.c0_le, id⟩
      have hE : sr.wrapped = false → pr.wrapped = true → ∀ c (hc : c < sr.cells.length), c + 1 = sr.cells.length →
          sr.cells[c].cont = false → sr.cells[c].hasContents = false → sr.cells[c].attrs = st'.prevAttrs := by
        intro _ hpwr c hc hcl hcc hh
        exfalso
        obtain ⟨hp0, hocc'⟩ := hoccP hpwr
        have hidx : pr.cells.length - 1 = c := by omega
        have hocc'' : (pr.cells[c]'(by omega)).hasContents = true ∨ (pr.cells[c]'(by omega)).cont = true := by
          simpa only [hidx] using hocc'
        have hv := heq c hc hc
        have hv' : view sr.cells[c] = view (pr.cells[c]'(by omega)) := hv
        simp only [view, View.mk.injEq] at hv'
        rcases hocc'' with h1 | h1
        · simp only [Cell.hasContents, decide_eq_true_eq, decide_eq_false_iff_not] at h1 hh
          omega
        · rw [← hv'.2.2.1, hcc] at h1; exact absurd h1 (by simp)
      obtain ⟨out, np, na, eend, hres, hb, hnp, hwf, hpos', _⟩ :=
        diffEnd_drawnF K pr.cells F hcb hpi hW hS hne sr.wrapped pr hd hE hoccS hFoff hFon
      have eend' : Row.diffEnd sr pr i st' = .ok (out, np, na) := eend
      rw [eend']
      exact ⟨_, rfl, hfinal (rsOf p0.ws) (Or.inr ⟨rfl, hrp⟩) (out, np, na) ⟨hres, hb, hnp, hwf, hpos'⟩⟩
    · -- (γ) the whole line is one erase run from column 0: SP BS, pen, EL
      have hc0 : c0 = K.r0.g.size.cols := hfull
      have hst'' : st' = ⟨false, ⟨i - 1, (rsOf p0.ws).g.size.cols⟩, (rsOf p0.ws).pen, some (0, a), []⟩ := by
        rw [hst', hea]
        have : st'.prevWasWide = false := by assumption
        rw [this]
        show _ = (⟨false, ⟨K.i - 1, K.r0.g.size.cols⟩, _, _, _⟩ : Row.FmtSt)
        rw [← hc0]
      have hem0' : Emitted W cb K.p0 [] (shape K.r0 K.i Ri0 ⟨K.i - 1, K.r0.g.size.cols⟩ (rsOf p0.ws).pen) := by
        rw [← hc0]; exact hem0
      obtain ⟨hp', ha', _, _, hbytes, R1, hem1, hz, hzw⟩ :=
        pend_eraseMove K D F X hW hem0' hmid0 a hwfa false (some (0, a))
      have hl1 : R1.cells.length = (K.wrapped X).r0.g.size.cols := by rw [hz.len]; exact K.hsrc
      have hci1 := cells_of_emitted' hW.space (K.wrapped X) hcb hpi hbytes hem1
      have e1 := shape_elD (K.wrapped X) hl1 hci1 0 (Nat.zero_le _) a
      have hel := emitted_step W cb K.ready hem1 (step_clearRowForward W cb)
        (r' := shape (K.wrapped X).r0 K.i (C07.erasedRow R1.cells R1.wrapped 0 (K.wrapped X).r0.g.size.cols a) ⟨K.i, 0⟩ a) (by
          have hpen : (shape (K.wrapped X).r0 K.i R1 ⟨K.i, 0⟩ a).pen = a := rfl
          rw [hpen]
          have e1' : (shape (K.wrapped X).r0 K.i R1 ⟨K.i, 0⟩ a).g.eraseRowForward a = _ := e1
          rw [e1']; rfl)
      have hcols : (K.wrapped X).r0.g.size.cols = sr.cells.length := hlen.symm
      have hmid2 : MidF F sr.cells.length (C07.erasedRow R1.cells R1.wrapped 0 (K.wrapped X).r0.g.size.cols a) := by
        rw [hcols]
        refine ⟨hz.erase hS hne (Nat.le_refl _) a (fun k hk _ => hrun k hk hk) R1.wrapped, ?_⟩
        intro b hb
        simp only [C07.erasedRow]
        cases b with
        | false => rw [hzw, hfl false hb]; split <;> rfl
        | true =>
          rw [hz.flag_kept (F.keep hb) hne (Nat.le_refl _) a (fun k hk _ => hrun k hk hk), hzw, hfl true hb]
          simp
      have hff : Row.fmtFinish sr.cells.length i true st' =
          { Row.eraseMove sr.cells.length i true st' 0 a with
            out := (Row.eraseMove sr.cells.length i true st' 0 a).out ++ Term.clearRowForward } := by
        unfold Row.fmtFinish; rw [hea]
      rw [hff, hst'']
      have hd : DrawnPF (K.wrapped X) pr.cells F sr.cells.length
          { Row.eraseMove sr.cells.length i true ⟨false, ⟨i - 1, (rsOf p0.ws).g.size.cols⟩, (rsOf p0.ws).pen, some (0, a), []⟩ 0 a with
            out := (Row.eraseMove sr.cells.length i true ⟨false, ⟨i - 1, (rsOf p0.ws).g.size.cols⟩, (rsOf p0.ws).pen, some (0, a), []⟩ 0 a).out
              ++ Term.clearRowForward } := by
        refine ⟨_, ?_, hmid2, Bytes.append hbytes clearRowForward_bytes, ?_⟩
        · have hp'' : (Row.eraseMove sr.cells.length i true ⟨false, ⟨i - 1, (rsOf p0.ws).g.size.cols⟩, (rsOf p0.ws).pen, some (0, a), []⟩ 0 a).prevPos = ⟨i, 0⟩ := hp'
          have ha'' : (Row.eraseMove sr.cells.length i true ⟨false, ⟨i - 1, (rsOf p0.ws).g.size.cols⟩, (rsOf p0.ws).pen, some (0, a), []⟩ 0 a).prevAttrs = a := ha'
          simp only [hp'', ha'']
          exact hel
        · have hp'' : (Row.eraseMove sr.cells.length i true ⟨false, ⟨i - 1, (rsOf p0.ws).g.size.cols⟩, (rsOf p0.ws).pen, some (0, a), []⟩ 0 a).prevPos = ⟨i, 0⟩ := hp'
          have ha'' : (Row.eraseMove sr.cells.length i true ⟨false, ⟨i - 1, (rsOf p0.ws).g.size.cols⟩, (rsOf p0.ws).pen, some (0, a), []⟩ 0 a).prevAttrs = a := ha'
          simp only [hp'', ha'']
          exact ⟨Nat.zero_le _, fun _ => hwfa⟩
      have hE : sr.wrapped = false → pr.wrapped = true → ∀ c (hc : c < sr.cells.length), c + 1 = sr.cells.length →
          sr.cells[c].cont = false → sr.cells[c].hasContents = false → sr.cells[c].attrs =
            (Row.eraseMove sr.cells.length i true ⟨false, ⟨i - 1, (rsOf p0.ws).g.size.cols⟩, (rsOf p0.ws).pen, some (0, a), []⟩ 0 a).prevAttrs := by
        intro _ _ c hc _ _ _
        have ha'' : (Row.eraseMove sr.cells.length i true ⟨false, ⟨i - 1, (rsOf p0.ws).g.size.cols⟩, (rsOf p0.ws).pen, some (0, a), []⟩ 0 a).prevAttrs = a := ha'
        rw [ha'']
        have hv := hrun c hc hc
        simp only [view, blankA, View.mk.injEq] at hv
        exact hv.2.2.2.1
      obtain ⟨out, np, na, eend, hres, hb, hnp, hwf, hpos', _⟩ :=
        diffEnd_drawnF (K.wrapped X) pr.cells F hcb hpi hW hS hne sr.wrapped pr hd hE hoccS hFoff hFon
      have eend' : Row.diffEnd sr pr i _ = .ok (out, np, na) := eend
      rw [eend']
      exact ⟨_, rfl, hfinal (wrapBase (rsOf p0.ws) i Rp) (Or.inl rfl) (out, np, na) ⟨hres, hb, hnp, hwf, hpos'⟩⟩
  · -- something was written, the wrap was recorded
    rw [fmtFinish_irrel sr.cells.length i st' hnf]
    obtain ⟨out, np, na, eend, hres, hb, hnp, hwf, hpos'⟩ :=
      line_tailF (K.wrapped X) (wrapD D X) F hW hS hne sr.wrapped pr rfl hJ hoccS hoccP hFoff hFon
    have eend' : Row.diffEnd sr pr i (Row.fmtFinish sr.cells.length i false st') = .ok (out, np, na) := eend
    rw [eend']
    exact ⟨_, rfl, hfinal (wrapBase (rsOf p0.ws) i Rp) (Or.inl rfl) (out, np, na) ⟨hres, hb, hnp, hwf, hpos'⟩⟩
  · -- something was written with an ordinary move; the line above was flagged already
    rw [fmtFinish_irrel sr.cells.length i st' hnf]
    obtain ⟨out, np, na, eend, hres, hb, hnp, hwf, hpos'⟩ :=
      line_tailF K D F hW hS hne sr.wrapped pr rfl hJ hoccS hoccP hFoff hFon
    have eend' : Row.diffEnd sr pr i (Row.fmtFinish sr.cells.length i false st') = .ok (out, np, na) := eend
    rw [eend']
    exact ⟨_, rfl, hfinal (rsOf p0.ws) (Or.inr ⟨rfl, hrp⟩) (out, np, na) ⟨hres, hb, hnp, hwf, hpos'⟩⟩

/-! ### `diffStart`'s repair: the line above has just become wrapped and this line's first cell is unchanged -/

/-- a line in the middle of a diff that in fact shows the previous line everywhere -/
theorem shows_of_mid {S P : List Cell} {e : Nat} {R : Row} (h : Mid' S P e R)
    (hlo : ∀ k (hk : k < S.length), k < e → view S[k] = view (P[k]'(by rw [h.plen]; exact hk)))
    (hmid : ∀ (hk : e < S.length), (P[e]'(by rw [h.plen]; exact hk)).cont = false) :
    R.cells.map view = P.map view := by
  apply List.ext_getElem?
  intro k
  simp only [List.getElem?_map]
  by_cases hk : k < S.length
  · rw [List.getElem?_eq_getElem (show k < R.cells.length by rw [h.len]; exact hk),
      List.getElem?_eq_getElem (show k < P.length by rw [h.plen]; exact hk)]
    simp only [Option.map_some, Option.some.injEq]
    rcases Nat.lt_trichotomy k e with hke | hke | hke
    · rw [h.lo k hk hke, hlo k hk hke]
    · subst hke
      rcases h.mid hk with hv | ⟨hpc, _⟩
      · exact hv
      · rw [hmid hk] at hpc; exact absurd hpc (by simp)
    · exact h.hi k hk hke
  · rw [List.getElem?_eq_none (by rw [h.len]; omega), List.getElem?_eq_none (by rw [h.plen]; omega)]

/-- the repair when the first cell holds text: pen, the text typed from the parked position (the receiver wraps),
one BS per column — the line shows what it showed, the cursor is at its start, the line above is flagged -/
theorem repair_text (K : Ctx W cb) (D : DCtx K) (X : WCtx K) (hW : WOk W) (hne : 0 < D.prv.length) {Ri0 : Row}
    (hshow : Ri0.cells.map view = D.prv.map view) {pen : Attrs}
    (hem0 : Emitted W cb K.p0 [] (shape K.r0 K.i Ri0 ⟨K.i - 1, K.r0.g.size.cols⟩ pen))
    (hh : D.prv[0].hasContents = true) :
    ∃ R1, Emitted W cb K.p0
        ((((if (pen != D.prv[0].attrs) = true then D.prv[0].attrs.writeEscapeCodeDiff pen else []) ++
          D.prv[0].contents.take D.prv[0].len) ++ Term.backspace) ++ (if D.prv[0].isWide = true then Term.backspace else []))
        (shape (K.wrapped X).r0 K.i R1 ⟨K.i, 0⟩ D.prv[0].attrs) ∧
      R1.cells.map view = D.prv.map view ∧ R1.wrapped = Ri0.wrapped := by
  have hok := D.hP.cells_ok _ (List.getElem_mem hne)
  obtain ⟨f, zs, ht⟩ := textCell_of hW hok (D.hP.emit_ok 0 hne) hh
  have hmidP : Mid' D.prv D.prv 0 Ri0 := mid_zero' rfl hshow
  have hl : Ri0.cells.length = K.r0.g.size.cols := by rw [hmidP.len, D.hprv, K.hsrc]
  have hnc : D.prv[0].cont = false := by rw [D.hP.cont_iff 0 hne]; simp
  have hc1 := K.canvas.cols_pos
  -- the pen
  have h2 : Emitted W cb K.p0 ([] ++
        (if (pen != D.prv[0].attrs) = true then D.prv[0].attrs.writeEscapeCodeDiff pen else []))
      (shape K.r0 K.i Ri0 ⟨K.i - 1, K.r0.g.size.cols⟩ D.prv[0].attrs) := by
    by_cases hp : (pen != D.prv[0].attrs) = true
    · simp only [hp, ↓reduceIte]
      exact emitted_step W cb K.ready hem0 (step_pen W cb D.prv[0].attrs pen (D.hP.wf 0 hne))
        (r' := shape K.r0 K.i Ri0 ⟨K.i - 1, K.r0.g.size.cols⟩ D.prv[0].attrs) (by simp [shape])
    · have hpa : pen = D.prv[0].attrs := by simpa using hp
      simp only [hp, Bool.false_eq_true, ↓reduceIte, List.append_nil]
      rw [← hpa]; exact hem0
  have hb2 : Bytes ([] ++ (if (pen != D.prv[0].attrs) = true then D.prv[0].attrs.writeEscapeCodeDiff pen else [])) := by
    refine Bytes.append Bytes.nil ?_
    split
    · exact writeEscapeCodeDiff_bytes _ _
    · exact Bytes.nil
  have hfit : C05.effWidth W f ≤ K.r0.g.size.cols := by
    have := ht.fits; rw [D.hprv, K.hsrc] at this; unfold C05.effWidth; omega
  have hc0' : K.r0.g.size.cols > K.r0.g.size.cols - C05.effWidth W f := by
    have hw1 := ht.width
    unfold C05.effWidth; omega
  obtain ⟨cellF, h3, hvF, hci⟩ := type_wrap K X D.hcb D.pinv hW K.r0.g.size.cols h2 hb2 hl
    (D.prv[0].contents.take D.prv[0].len) f zs ht.chars ht.valid ht.plain ht.noesc ht.first ht.width ht.zero ht.pre hfit hc0'
  have hvF' : view cellF = view D.prv[0] := by rw [hvF, ht.view]
  have hwf' : D.prv[0].wide = decide ((W f).getD 1 > 1) := ht.wide
  have hRi0w : (Ri0.cells[0]'(by rw [hl]; exact hc1)).wide = D.prv[0].wide := by
    rcases hmidP.mid hne with hv | ⟨hpc, _⟩
    · exact view_wide hv
    · rw [hnc] at hpc; exact absurd hpc (by simp)
  have hflag : (typedRow W Ri0 0 K.r0.g.size.cols D.prv[0].attrs f cellF).wrapped = Ri0.wrapped := by
    rw [typedRow_wrapped]
    rw [if_neg]
    rintro ⟨hwc, hf0, _, _⟩
    rw [flagAt_get _ _ (by rw [hl]; exact hc1), hRi0w, hwf'] at hf0
    have hwc' : C05.effWidth W f > 1 := by simpa using hwc
    have : (W f).getD 1 > 1 := by unfold C05.effWidth at hwc'; omega
    simp [this] at hf0
  by_cases hwide : D.prv[0].wide = true
  · have hw2 : C05.effWidth W f = 2 := by
      rw [hwide] at hwf'
      have h' : 1 < (W f).getD 1 := by simpa using hwf'.symm
      unfold C05.effWidth; omega
    have hmid1 := hmidP.typed2 hW.space D.hP (wideNext_of_src D.hP) hci hne hnc hwide K.r0.g.size.cols
      D.prv[0].attrs f hw2 cellF hvF'
    rw [hw2] at h3
    have h4 := emitted_step W cb K.ready h3 (step_backspace W cb)
      (r' := shape (K.wrapped X).r0 K.i (typedRow W Ri0 0 K.r0.g.size.cols D.prv[0].attrs f cellF) ⟨K.i, 1⟩ D.prv[0].attrs) (by
        simp [shape, Grid.colDec])
    have h5 := emitted_step W cb K.ready h4 (step_backspace W cb)
      (r' := shape (K.wrapped X).r0 K.i (typedRow W Ri0 0 K.r0.g.size.cols D.prv[0].attrs f cellF) ⟨K.i, 0⟩ D.prv[0].attrs) (by
        simp [shape, Grid.colDec])
    refine ⟨_, ?_, ?_, hflag⟩
    · simpa [Cell.isWide, hwide, List.append_assoc] using h5
    · apply shows_of_mid hmid1 (fun _ _ _ => rfl)
      intro hk
      obtain ⟨hk1, hc1'⟩ := D.hP.wide_next 0 hne hwide
      rw [D.hP.cont_iff (0 + 2) hk, if_neg (by omega)]
      exact (cellOk_cont W _ (D.hP.cells_ok _ (List.getElem_mem hk1)) hc1').1
  · have hwide' : D.prv[0].wide = false := by simpa using hwide
    have hw1 : C05.effWidth W f = 1 := by
      rw [hwide'] at hwf'
      have h' : ¬ 1 < (W f).getD 1 := by simpa using hwf'.symm
      have := ht.width
      unfold C05.effWidth; omega
    have hmid1 := hmidP.typed1 hW.space D.hP (wideNext_of_src D.hP) hci hne hnc hwide' K.r0.g.size.cols
      D.prv[0].attrs f hw1 cellF hvF'
    rw [hw1] at h3
    have h4 := emitted_step W cb K.ready h3 (step_backspace W cb)
      (r' := shape (K.wrapped X).r0 K.i (typedRow W Ri0 0 K.r0.g.size.cols D.prv[0].attrs f cellF) ⟨K.i, 0⟩ D.prv[0].attrs) (by
        simp [shape, Grid.colDec])
    refine ⟨_, ?_, ?_, hflag⟩
    · simpa [Cell.isWide, hwide', List.append_assoc] using h4
    · apply shows_of_mid hmid1 (fun _ _ _ => rfl)
      intro hk
      rw [D.hP.cont_iff (0 + 1) hk, if_neg (by omega)]
      exact hwide'

/-- the repair when the first cell is blank: pen, SP (typed from the parked position: the receiver wraps), BS, ECH 1 -/
theorem repair_blank (K : Ctx W cb) (D : DCtx K) (F : FlagSpec K.src D.prv) (X : WCtx K) (hW : WOk W) (hS : SrcOk W K.src)
    (hne : 0 < K.src.length) {Ri0 : Row} (hmid0 : MidF F 0 Ri0) {pen : Attrs}
    (hem0 : Emitted W cb K.p0 [] (shape K.r0 K.i Ri0 ⟨K.i - 1, K.r0.g.size.cols⟩ pen))
    (hv0 : view K.src[0] = view (D.prv[0]'(by rw [D.hprv]; exact hne))) (hh : K.src[0].hasContents = false) :
    ∃ R2, Emitted W cb K.p0
        ((((if (pen != K.src[0].attrs) = true then K.src[0].attrs.writeEscapeCodeDiff pen else []) ++ [32]) ++
          Term.backspace) ++ Term.eraseChar 1)
        (shape (K.wrapped X).r0 K.i R2 ⟨K.i, 0⟩ K.src[0].attrs) ∧ MidF F 0 R2 := by
  have hl : Ri0.cells.length = K.r0.g.size.cols := by rw [hmid0.len, K.hsrc]
  have hnc : K.src[0].cont = false := by rw [hS.cont_iff 0 hne]; simp
  have hbv := hS.blank_view 0 hne hh
  rw [hnc] at hbv
  have hc1 := K.canvas.cols_pos
  have hu := K.canvas.cols_u16
  -- the pen
  have h2 : Emitted W cb K.p0 ([] ++
        (if (pen != K.src[0].attrs) = true then K.src[0].attrs.writeEscapeCodeDiff pen else []))
      (shape K.r0 K.i Ri0 ⟨K.i - 1, K.r0.g.size.cols⟩ K.src[0].attrs) := by
    by_cases hp : (pen != K.src[0].attrs) = true
    · simp only [hp, ↓reduceIte]
      exact emitted_step W cb K.ready hem0 (step_pen W cb K.src[0].attrs pen (hS.wf 0 hne))
        (r' := shape K.r0 K.i Ri0 ⟨K.i - 1, K.r0.g.size.cols⟩ K.src[0].attrs) (by simp [shape])
    · have hpa : pen = K.src[0].attrs := by simpa using hp
      simp only [hp, Bool.false_eq_true, ↓reduceIte, List.append_nil]
      rw [← hpa]; exact hem0
  have hb2 : Bytes ([] ++ (if (pen != K.src[0].attrs) = true then K.src[0].attrs.writeEscapeCodeDiff pen else [])) := by
    refine Bytes.append Bytes.nil ?_
    split
    · exact writeEscapeCodeDiff_bytes _ _
    · exact Bytes.nil
  obtain ⟨cellF, h3, hF, hci⟩ := space_bs_wrap K X D.hcb D.pinv hW K.src[0].attrs h2 hb2 hl
  obtain ⟨hz, hzw⟩ := zed_of_space (S := K.src) D.hP hW.space hmid0.mid K.r0.g.size.cols K.src[0].attrs cellF hF
  have hb3 : Bytes (([] ++ (if (pen != K.src[0].attrs) = true then K.src[0].attrs.writeEscapeCodeDiff pen else [])) ++ [32] ++
      Term.backspace) := by
    refine Bytes.append (Bytes.append hb2 ?_) backspace_bytes
    intro b hb; simp at hb; omega
  have hl1 : (typedRow W Ri0 0 K.r0.g.size.cols K.src[0].attrs 32 cellF).cells.length = (K.wrapped X).r0.g.size.cols := by
    rw [hz.len]; exact K.hsrc
  have hci1 := cells_of_emitted' hW.space (K.wrapped X) D.hcb D.pinv hb3 h3
  have e1 := shape_echD (K.wrapped X) hl1 hci1 0 1 (by show 0 + 1 ≤ K.r0.g.size.cols; omega) K.src[0].attrs
  have hech := emitted_step W cb K.ready h3 (step_eraseChar W cb 1 (by omega))
    (r' := shape (K.wrapped X).r0 K.i (C07.erasedRow (typedRow W Ri0 0 K.r0.g.size.cols K.src[0].attrs 32 cellF).cells
      (typedRow W Ri0 0 K.r0.g.size.cols K.src[0].attrs 32 cellF).wrapped 0 (0 + 1) K.src[0].attrs) ⟨K.i, 0⟩ K.src[0].attrs) (by
      simp only [Nat.succ_ne_zero, ↓reduceIte]
      have hpen : (shape (K.wrapped X).r0 K.i (typedRow W Ri0 0 K.r0.g.size.cols K.src[0].attrs 32 cellF) ⟨K.i, 0⟩ K.src[0].attrs).pen =
          K.src[0].attrs := rfl
      rw [hpen]
      have e1' : (shape (K.wrapped X).r0 K.i (typedRow W Ri0 0 K.r0.g.size.cols K.src[0].attrs 32 cellF) ⟨K.i, 0⟩
          K.src[0].attrs).g.eraseCells 1 K.src[0].attrs = _ := e1
      rw [e1']
      rfl)
  have hrun : ∀ k (hk : k < K.src.length), k < 1 → view K.src[k] = blankA K.src[0].attrs := by
    intro k hk hk1
    have : k = 0 := by omega
    subst this
    rw [hbv]; rfl
  have hmid1 : Mid' K.src D.prv 1 (C07.erasedRow (typedRow W Ri0 0 K.r0.g.size.cols K.src[0].attrs 32 cellF).cells
      (typedRow W Ri0 0 K.r0.g.size.cols K.src[0].attrs 32 cellF).wrapped 0 (0 + 1) K.src[0].attrs) :=
    hz.erase hS (Nat.le_refl 1) hne K.src[0].attrs hrun _
  have hnw : K.src[0].wide = false := by
    simp only [view, View.mk.injEq] at hbv; exact hbv.2.1
  have hshow := shows_of_mid hmid1 (fun k hk hk1 => by
      have : k = 0 := by omega
      subst this
      exact hv0) (fun hk => by
      rw [D.hP.cont_iff 1 (by rw [D.hprv]; exact hk), if_neg (by omega)]
      have : (D.prv[1 - 1]'(by rw [D.hprv]; omega)) = D.prv[0]'(by rw [D.hprv]; exact hne) := rfl
      rw [this, ← view_wide hv0]; exact hnw)
  refine ⟨_, ?_, ⟨mid_zero' D.hprv hshow, ?_⟩⟩
  · simpa [List.append_assoc] using hech
  · intro b hb
    simp only [C07.erasedRow]
    cases b with
    | false => rw [hzw, hmid0.flag false hb]; split <;> rfl
    | true =>
      rw [hz.flag_kept (F.keep hb) (Nat.le_refl 1) hne K.src[0].attrs hrun, hzw, hmid0.flag true hb]
      simp

/-- `diffStart` when it repairs, as one expression -/
theorem diffStart_repair (sr pr : Row) (i cols : Nat) (pen : Attrs) (h0 : 0 < sr.cells.length) (h0p : 0 < pr.cells.length)
    (hcols : sr.cells.length = cols) (hi1 : 1 ≤ i) (heq : sr.cells[0].eq pr.cells[0] = true) (hf : CellFine pr.cells[0]) :
    Row.diffStart sr pr 0 i true false ⟨i - 1, cols⟩ pen = .ok ⟨false, ⟨i, 0⟩, sr.cells[0].attrs, none,
      ((((if (pen != sr.cells[0].attrs) = true then sr.cells[0].attrs.writeEscapeCodeDiff pen else []) ++
        (if (pr.cells[0].contents.take pr.cells[0].len).isEmpty = true then [32] else pr.cells[0].contents.take pr.cells[0].len)) ++
        Term.backspace) ++ (if pr.cells[0].isWide = true then Term.backspace else [])) ++
        (if (pr.cells[0].contents.take pr.cells[0].len).isEmpty = true then Term.eraseChar 1 else [])⟩ := by
  unfold Row.diffStart
  rw [List.getElem?_eq_getElem h0, List.getElem?_eq_getElem h0p]
  have hc : (true && !false && sr.cells[0].eq pr.cells[0] && (⟨i - 1, cols⟩ : Pos).row + 1 == i &&
      decide ((⟨i - 1, cols⟩ : Pos).col ≥ sr.cols - if pr.cells[0].isWide = true then 1 else 0)) = true := by
    simp only [Bool.not_false, Bool.and_self, heq, Bool.true_and, Bool.and_eq_true, beq_iff_eq, decide_eq_true_eq, Row.cols, hcols]
    refine ⟨by omega, ?_⟩
    split <;> omega
  simp only [hc, ↓reduceIte, contentsBytes_ok hf, ok_bind, pure_bind', pure_eq_ok]
  by_cases hp : (pen != sr.cells[0].attrs) = true
  · by_cases he : (pr.cells[0].contents.take pr.cells[0].len).isEmpty = true
    · simp [hp, he]
    · simp [hp, he]
  · have hpa : pen = sr.cells[0].attrs := by simpa using hp
    by_cases he : (pr.cells[0].contents.take pr.cells[0].len).isEmpty = true
    · simp [hp, he, hpa]
    · simp [hp, he, hpa]

/-- **one line of a diff, `wrapping = true`, the line above has JUST become wrapped** (`prev_wrapping = false`): the
receiver's cursor is in the pending-wrap column of the line above, whose flag is still off on the receiver, and this
line's first cell is unchanged — `diffStart` re-types it so that the receiver wraps.  (When the first cell is changed,
`row_diff_draws_parked` applies.)  No side condition beyond those of `row_diff_draws_flags`. -/
theorem row_diff_draws_owed (hW : WOk W) (hcb : C13.CbInv W cb) (p0 : Parser) (hr : Ready p0) (hpi : C13.ParserInv W p0)
    (hcv : Canvas (rsOf p0.ws).g) (i : Nat) (hi1 : 1 ≤ i) (hi : i < (rsOf p0.ws).g.size.rows) (sr pr : Row)
    (hlen : sr.cells.length = (rsOf p0.ws).g.size.cols) (hplen : pr.cells.length = (rsOf p0.ws).g.size.cols)
    (hS : SrcOk W sr.cells) (hP : SrcOk W pr.cells)
    (Ri0 : Row) (hrow : (rsOf p0.ws).g.rows[i]? = some Ri0) (hshow : Ri0.cells.map view = pr.cells.map view)
    (hRw : Ri0.wrapped = pr.wrapped)
    (Rp : Row) (hp : (rsOf p0.ws).g.rows[i - 1]? = some Rp) (last : Cell)
    (hlast : Rp.cells[(rsOf p0.ws).g.size.cols - 1]? = some last) (hocc : (last.hasContents || last.cont) = true)
    (hpos : (rsOf p0.ws).g.pos = ⟨i - 1, (rsOf p0.ws).g.size.cols⟩)
    (hv0 : ∀ h : 0 < sr.cells.length, view sr.cells[0] = view (pr.cells[0]'(by rw [hplen, ← hlen]; exact h)))
    (hoccS : sr.wrapped = true → lastOcc sr.cells) (hoccP : pr.wrapped = true → lastOcc pr.cells)
    (hnof : sr.wrapped = true → pr.wrapped = true → noF8b sr.cells pr.cells = true) :
    ∃ res, sr.writeContentsDiff pr 0 sr.cells.length i true false (rsOf p0.ws).g.pos (rsOf p0.ws).pen = .ok res ∧
      LineDone W cb p0 (wrapBase (rsOf p0.ws) i Rp) i sr pr (rsOf p0.ws).g.size.cols res := by
  have hne : 0 < sr.cells.length := by rw [hlen]; exact hcv.cols_pos
  have hpl : pr.cells.length = sr.cells.length := by rw [hplen, hlen]
  have hneP : 0 < pr.cells.length := by omega
  let K : Ctx W cb := mkK p0 hr hcv i hi sr hlen
  let D : DCtx K := mkD hcb p0 hr hpi hcv i hi sr pr hlen hplen hP
  let X : WCtx K := ⟨hi1, Rp, hp, last, hlast, hocc⟩
  let F : FlagSpec sr.cells pr.cells := specOf sr pr (fun h1 h2 => ⟨hoccS h1, hnof h1 h2⟩)
  have hFoff : pr.wrapped = false → F.mode = some false := by
    intro h; show (if pr.wrapped then _ else _) = _; rw [h]; rfl
  have hFon : pr.wrapped = true → sr.wrapped = true → F.mode = some true := by
    intro h1 h2; show (if pr.wrapped then _ else _) = _; rw [h1, h2]; rfl
  have hfl : ∀ b, F.mode = some b → Ri0.wrapped = b := by
    intro b hb
    have hb' : (if pr.wrapped then (if sr.wrapped then some true else none) else some false) = some b := hb
    rw [hRw]
    cases hp' : pr.wrapped <;> cases hs : sr.wrapped <;> simp [hp', hs] at hb' <;> exact hb'.symm
  have hmid0 : MidF F 0 Ri0 := ⟨mid_zero' hpl hshow, hfl⟩
  have hem0 : Emitted W cb p0 [] (shape (rsOf p0.ws) i Ri0 ⟨i - 1, (rsOf p0.ws).g.size.cols⟩ (rsOf p0.ws).pen) := by
    rw [← hpos, shape_self _ _ _ hrow]
    exact emitted_nil W cb p0 hr
  have hv := hv0 hne
  have heq : sr.cells[0].eq pr.cells[0] = true := (eq_iff_view _ _).mpr hv
  have hattr : sr.cells[0].attrs = pr.cells[0].attrs := by
    simp only [view, View.mk.injEq] at hv; exact hv.2.2.2.1
  have hokP := hP.cells_ok _ (List.getElem_mem hneP)
  have hst := diffStart_repair sr pr i (rsOf p0.ws).g.size.cols (rsOf p0.ws).pen hne hneP hlen hi1 heq (cellFine_of_ok hokP)
  -- the receiver after the repair: the wrap is recorded, line `i` shows the previous line, the cursor is at its start
  obtain ⟨R1, hem1, hmid1⟩ : ∃ R1, Emitted W cb p0
      (((((if ((rsOf p0.ws).pen != sr.cells[0].attrs) = true then sr.cells[0].attrs.writeEscapeCodeDiff (rsOf p0.ws).pen else []) ++
        (if (pr.cells[0].contents.take pr.cells[0].len).isEmpty = true then [32] else pr.cells[0].contents.take pr.cells[0].len)) ++
        Term.backspace) ++ (if pr.cells[0].isWide = true then Term.backspace else [])) ++
        (if (pr.cells[0].contents.take pr.cells[0].len).isEmpty = true then Term.eraseChar 1 else []))
      (shape (K.wrapped X).r0 i R1 ⟨i, 0⟩ sr.cells[0].attrs) ∧ MidF F 0 R1 := by
    have h22 : pr.cells[0].contents.length = 22 := by
      simp only [cellOk, Bool.and_eq_true, beq_iff_eq] at hokP; exact hokP.1.1.1.1
    have h22' : pr.cells[0].len ≤ 22 := by
      simp only [cellOk, Bool.and_eq_true, beq_iff_eq, decide_eq_true_eq] at hokP; exact hokP.1.1.1.2
    by_cases hh : pr.cells[0].hasContents = true
    · have hne' : (pr.cells[0].contents.take pr.cells[0].len).isEmpty = false := by
        have : (pr.cells[0].contents.take pr.cells[0].len).length = pr.cells[0].len := by
          rw [List.length_take]; omega
        have hl0 : pr.cells[0].len ≠ 0 := by simp [Cell.hasContents] at hh; omega
        cases hc : pr.cells[0].contents.take pr.cells[0].len with
        | nil => rw [hc] at this; simp at this; omega
        | cons _ _ => rfl
      obtain ⟨R1, h1, hs1, hw1⟩ := repair_text K D X hW hneP hshow hem0 hh
      refine ⟨R1, ?_, ⟨mid_zero' hpl hs1, fun b hb => by rw [hw1]; exact hfl b hb⟩⟩
      rw [hattr]
      have h1' : Emitted W cb p0
          ((((if ((rsOf p0.ws).pen != pr.cells[0].attrs) = true then pr.cells[0].attrs.writeEscapeCodeDiff (rsOf p0.ws).pen else []) ++
            pr.cells[0].contents.take pr.cells[0].len) ++ Term.backspace) ++
            (if pr.cells[0].isWide = true then Term.backspace else []))
          (shape (K.wrapped X).r0 i R1 ⟨i, 0⟩ pr.cells[0].attrs) := h1
      simpa [hne'] using h1'
    · have hh' : pr.cells[0].hasContents = false := by simpa using hh
      have hhS : sr.cells[0].hasContents = false := by
        have := hv; simp only [view, View.mk.injEq] at this
        simp only [Cell.hasContents, decide_eq_false_iff_not] at hh' ⊢
        omega
      have hl0 : pr.cells[0].len = 0 := by simpa [Cell.hasContents] using hh'
      have he' : (pr.cells[0].contents.take pr.cells[0].len).isEmpty = true := by rw [hl0]; rfl
      have hnwP : pr.cells[0].isWide = false := by
        cases hw : pr.cells[0].wide
        · simp [Cell.isWide, hw]
        · rw [wide_has_contents hokP hw] at hh'; exact absurd hh' (by simp)
      obtain ⟨R2, h2, hm2⟩ := repair_blank K D F X hW hS hne hmid0 hem0 hv hhS
      refine ⟨R2, ?_, hm2⟩
      have h2' : Emitted W cb p0
          ((((if ((rsOf p0.ws).pen != sr.cells[0].attrs) = true then sr.cells[0].attrs.writeEscapeCodeDiff (rsOf p0.ws).pen else []) ++ [32]) ++
            Term.backspace) ++ Term.eraseChar 1)
          (shape (K.wrapped X).r0 i R2 ⟨i, 0⟩ sr.cells[0].attrs) := h2
      simpa [he', hnwP] using h2'
  obtain ⟨st0, hst0, hp0, ha0, he0, hw0, ho0⟩ : ∃ st0 : Row.FmtSt,
      Row.diffStart sr pr 0 i true false ⟨i - 1, (rsOf p0.ws).g.size.cols⟩ (rsOf p0.ws).pen = .ok st0 ∧
      st0.prevPos = ⟨i, 0⟩ ∧ st0.prevAttrs = sr.cells[0].attrs ∧ st0.erase = none ∧ st0.prevWasWide = false ∧
      st0.out = ((((if ((rsOf p0.ws).pen != sr.cells[0].attrs) = true then sr.cells[0].attrs.writeEscapeCodeDiff (rsOf p0.ws).pen else []) ++
        (if (pr.cells[0].contents.take pr.cells[0].len).isEmpty = true then [32] else pr.cells[0].contents.take pr.cells[0].len)) ++
        Term.backspace) ++ (if pr.cells[0].isWide = true then Term.backspace else [])) ++
        (if (pr.cells[0].contents.take pr.cells[0].len).isEmpty = true then Term.eraseChar 1 else []) :=
    ⟨_, hst, rfl, rfl, rfl, rfl, rfl⟩
  unfold Row.writeContentsDiff
  rw [hpos, hst0]
  simp only [ok_bind]
  have hb0 := diffStart_bytes sr pr 0 i true false ⟨i - 1, (rsOf p0.ws).g.size.cols⟩ (rsOf p0.ws).pen hst0
  have hJ0 : JWF (K.wrapped X) (wrapD D X) F 0 st0 := by
    refine ⟨fun k _ h => absurd h (Nat.succ_ne_zero k), fun h => absurd h (Nat.lt_irrefl 0), fun _ => hw0,
      fun h => by rw [hw0] at h; simp at h, fun _ => ⟨?_, fun e a h => by rw [he0] at h; simp at h⟩⟩
    have hes : esK 0 st0 = 0 := by simp [esK, he0]
    rw [hes]
    refine ⟨R1, ?_, hmid1, hb0, by rw [hp0]; exact Nat.zero_le _, fun _ => by rw [ha0]; exact hS.wf 0 hne⟩
    rw [ho0, hp0, ha0]; exact hem1
  have hwin : Row.window (sr.cells.zip pr.cells) 0 sr.cells.length = C14.enumFrom 0 (sr.cells.zip pr.cells) := by
    rw [C03.window_eq, C14.windowFrom_eq]
    simp only [Nat.zero_add, List.drop_zero]
    rw [List.take_of_length_le (by simp [List.length_zip, hplen, hlen])]
  have hup0 : Unparked sr.cells.length i st0.prevPos := by rw [hp0]; exact unparked_on_row _ _ _
  obtain ⟨eirr, hnf⟩ := fold_irrel sr.cells.length i (C14.enumFrom 0 (sr.cells.zip pr.cells)) st0
    ⟨hup0.notFull, Or.inl hup0⟩
  obtain ⟨st', e, hJ⟩ := fold_invWF (K.wrapped X) (wrapD D X) F hW hS (sr.cells.zip pr.cells) 0 st0 (by rfl) (Nat.zero_le _) hJ0
  have e' : (C14.enumFrom 0 (sr.cells.zip pr.cells)).foldlM (Row.diffStep sr.cells.length i false) st0 = .ok st' := e
  rw [hwin, Row.cols, eirr, e']
  simp only [ok_bind]
  rw [fmtFinish_irrel sr.cells.length i st' (hnf st' e')]
  obtain ⟨out, np, na, eend, hres, hb, hnp, hwf, hpos'⟩ :=
    line_tailF (K.wrapped X) (wrapD D X) F hW hS hne sr.wrapped pr rfl hJ hoccS hoccP hFoff hFon
  have eend' : Row.diffEnd sr pr i (Row.fmtFinish sr.cells.length i false st') = .ok (out, np, na) := eend
  rw [eend']
  exact ⟨_, rfl, hres, hb, by rw [← hlen]; exact hnp, hwf, by rw [← hlen]; exact hpos'⟩

end Vt.C02
