/-
  Vt.Props.C15view — C15 (row-wise redraw) for a view that IS scrolled back (offset > 0), with the cursor inside
  its line.

  `rows_formatted(0, cols)` of a scrolled screen `S` draws the visible rows — the last `k` history lines and the
  first `rows - k` live lines — exactly as `contents_formatted()` does.  Neither the emitter
  (`rowsFormattedLoop_unflag`) nor the drawing protocol's rule "no cursor positioning after a wrapped line"
  (`drawRowsFrom_unflag`: the flag is only consulted for the line ABOVE the one being drawn) reads the wrap flag of
  the last visible row, and with the cursor inside its line `cursor_state_formatted()` reads nothing of the grid
  but its cursor.  So the three strings, and the protocol's byte stream, are those of `C01.surrogateScreen`: the
  screen that is NOT scrolled back and whose live rows are the visible rows with the last flag cleared
  (`rows_surrogate`, `cursorState_surrogate`, `attributes_surrogate`, `protocol_surrogate`).  The offset-0 theorem
  `rows_protocol_reproduces` then applies to the surrogate: the receiver shows the visible rows of `S`, every wrap
  flag but the bottom one — the exemption the property makes (`ShowsView`; in terms of `obs`: `obsEq true`).

  Hypotheses beyond the invariants (`ScreenInv`, `ScreenX`, `ScreenF`, as in `C01view`; every reachable screen has
  them): every visible row is `cols` wide (false after a `set_size` that changed the width while lines were in the
  scrollback: finding F12) and the cursor is not in the pending-wrap column (finding F9).

  READING (as for C15 at offset 0): the protocol has no input-mode part, so the agreement with the view of `S` is
  stated without the input modes: `ShowsView`, and `obsEq true o1 { o2 with modes := o1.modes }` (every component
  of `obsEq true` but `modes`).  `rows_protocol_frame` shows that the protocol's bytes leave the receiver's input
  modes and event list alone, so the full `obsEq true o1 o2` holds when the receiver started with the input
  modes of `S` (last conjunct of the theorems; `showsView_obsEq`).
-/
import Vt.Props.C01view
namespace Vt.C15
open Vt Vt.Recv Vt.C19 Vt.C09 Vt.RowDraw Vt.GridDraw Vt.Tok Vt.C01 Vt.C03 Vt.C13 Vt.InvX Vt.InvF
set_option linter.unusedSimpArgs false
set_option linter.unusedVariables false

variable {W : Nat → Option Nat} {cb : CbPolicy}

/-! ### the emitted strings do not depend on the last visible row's wrap flag -/

/-- the loop of `rows_formatted` never reads the wrap flag of the last line -/
theorem rowsFormattedLoop_unflag (fw : Bool) (start width : Nat) : ∀ (rs : List Row) (i : Nat) (w : Bool),
    Screen.rowsFormattedLoop fw start width (unflagLast rs) i w = Screen.rowsFormattedLoop fw start width rs i w
  | [], _, _ => rfl
  | [r], i, w => by
    simp only [unflagLast, Screen.rowsFormattedLoop]
    rfl
  | r :: r2 :: rs, i, w => by
    simp only [unflagLast, Screen.rowsFormattedLoop]
    cases r.writeContentsFormatted start width i w none none with
    | error e => rfl
    | ok p =>
      simp only [ok_bind]
      rw [rowsFormattedLoop_unflag fw start width (r2 :: rs)]
      simp only [Screen.rowsFormattedLoop]

theorem drawRowsFrom_nil_flags (i : Nat) (w : Bool) (rb : List (List Nat)) : drawRowsFrom i w rb [] = [] := by
  cases rb <;> rfl

/-- **the protocol reads the wrap flag of the last visible row nowhere**: the rule "continue unpositioned after a
wrapped row" consults the flag of the line ABOVE the one being drawn only, so clearing the last line's flag
leaves the protocol's byte stream as it is (whatever the lines' strings are) -/
theorem drawRowsFrom_unflag : ∀ (rs : List Row) (i : Nat) (w : Bool) (rb : List (List Nat)),
    drawRowsFrom i w rb ((unflagLast rs).map (·.wrapped)) = drawRowsFrom i w rb (rs.map (·.wrapped))
  | [], _, _, _ => rfl
  | [r], i, w, rb => by
    cases rb with
    | nil => rfl
    | cons b rest =>
      simp only [unflagLast, List.map_cons, List.map_nil, drawRowsFrom, drawRowsFrom_nil_flags]
  | r :: r2 :: rs, i, w, rb => by
    cases rb with
    | nil => rfl
    | cons b rest =>
      have ih := drawRowsFrom_unflag (r2 :: rs) (i + 1) r.wrapped rest
      simp only [unflagLast, List.map_cons, drawRowsFrom] at ih ⊢
      rw [ih]

/-- the same on the flags alone: two flag lists that differ at most in their last entry give the same stream -/
theorem drawRowsFrom_dropLast : ∀ (ws ws' : List Bool) (i : Nat) (w : Bool) (rb : List (List Nat)),
    ws.dropLast = ws'.dropLast → ws.length = ws'.length → drawRowsFrom i w rb ws = drawRowsFrom i w rb ws'
  | [], [], _, _, _, _, _ => rfl
  | [], _ :: _, _, _, _, _, hl => by simp at hl
  | _ :: _, [], _, _, _, _, hl => by simp at hl
  | [a], [b], i, w, rb, _, _ => by
    cases rb with
    | nil => rfl
    | cons x rest => simp only [drawRowsFrom, drawRowsFrom_nil_flags]
  | [a], b :: b2 :: bs, _, _, _, _, hl => by simp at hl
  | a :: a2 :: as, [b], _, _, _, _, hl => by simp at hl
  | a :: a2 :: as, b :: b2 :: bs, i, w, rb, hd, hl => by
    rw [List.dropLast_cons_cons (x := a), List.dropLast_cons_cons (x := b)] at hd
    obtain ⟨hab, hd'⟩ := List.cons.inj hd
    subst hab
    cases rb with
    | nil => rfl
    | cons x rest =>
      simp only [drawRowsFrom]
      rw [drawRowsFrom_dropLast (a2 :: as) (b2 :: bs) (i + 1) a rest hd' (by simpa using hl)]

theorem surrogate_attrs (S : Screen) (vis : List Row) : (surrogateScreen S vis).attrs = S.attrs := by
  unfold surrogateScreen Screen.setCur; split <;> rfl

theorem surrogate_hide (S : Screen) (vis : List Row) : (surrogateScreen S vis).hideCursor = S.hideCursor := by
  unfold surrogateScreen Screen.setCur; split <;> rfl

theorem surrogate_modes (S : Screen) (vis : List Row) :
    C10.inputModes (surrogateScreen S vis) = C10.inputModes S := by
  unfold surrogateScreen Screen.setCur C10.inputModes; split <;> rfl

/-- the main grid of the surrogate has the main grid's size -/
theorem surrogate_grid_size (S : Screen) (vis : List Row) : (surrogateScreen S vis).grid.size = S.grid.size := by
  unfold surrogateScreen Screen.setCur Screen.cur surrogate
  split <;> simp_all

/-- `rows_formatted(start, width)` of a scrolled screen is that of its surrogate (no hypothesis on the cursor) -/
theorem rows_surrogate {S : Screen} {vis : List Row} (hvis : S.cur.visibleRows = .ok vis) (start width : Nat) :
    S.rowsFormatted start width = (surrogateScreen S vis).rowsFormatted start width := by
  have hv2 : (surrogateScreen S vis).cur.visibleRows = .ok (unflagLast vis) := by
    rw [surrogate_cur]; exact C19.visibleRows_offset0 _ rfl
  simp only [Screen.rowsFormatted, hvis, hv2, ok_bind, surrogate_grid_size, rowsFormattedLoop_unflag]

/-- with the cursor inside its line `cursor_state_formatted()` is `ESC[?25l/h` and one CUP, for `S` and for its
surrogate -/
theorem cursorState_inside (S : Screen) (hcol : S.cur.pos.col < S.cur.size.cols) :
    S.cursorStateFormatted = .ok (Term.hideCursor S.hideCursor ++ Term.moveTo S.cur.pos) := by
  have hcond : ((none : Option Pos) != some S.cur.pos && decide (S.cur.pos.col ≥ S.cur.size.cols)) = false := by
    have : ¬ S.cur.pos.col ≥ S.cur.size.cols := by omega
    simp [this]
  simp only [Screen.cursorStateFormatted, Grid.writeCursorPositionFormatted, hcond, Bool.false_eq_true, ↓reduceIte,
    Grid.moveOpt, pure_eq_ok, ok_bind]

theorem cursorState_surrogate {S : Screen} (vis : List Row) (hcol : S.cur.pos.col < S.cur.size.cols) :
    S.cursorStateFormatted = (surrogateScreen S vis).cursorStateFormatted := by
  have h2 := cursorState_inside (surrogateScreen S vis) (by rw [surrogate_cur]; exact hcol)
  rw [cursorState_inside S hcol, h2, surrogate_hide, surrogate_cur]
  rfl

theorem attributes_surrogate (S : Screen) (vis : List Row) :
    S.attributesFormatted = (surrogateScreen S vis).attributesFormatted := by
  simp only [Screen.attributesFormatted, surrogate_attrs]

/-! ### the protocol on the visible rows -/

/-- the drawing protocol's byte stream for a screen whose visible rows are `vis` and whose `rows_formatted(0, cols)`
is `rb`: per line `ESC[m`, `ESC[i+1 H` unless the visible line above is wrapped (`row_wrapped(i-1)`), the line; then
`ESC[m`, `cursor_state_formatted()`, `attributes_formatted()`.  At scrollback offset 0 (`vis = S.cur.rows`) this is
`protocolStream` (`protocolStreamVis_offset0`). -/
def protocolStreamVis (S : Screen) (vis : List Row) (rb : List (List Nat)) (cursorState : List Nat) : List Nat :=
  drawRowsFrom 0 false rb (vis.map (·.wrapped)) ++ Term.clearAttrs ++ cursorState ++ S.attributesFormatted

theorem protocolStreamVis_offset0 (S : Screen) (rb : List (List Nat)) (cs : List Nat) :
    protocolStreamVis S S.cur.rows rb cs = protocolStream S rb cs := rfl

/-- the protocol's stream over the visible rows of `S` is the stream of the surrogate -/
theorem protocol_surrogate (S : Screen) (vis : List Row) (rb : List (List Nat)) (cs : List Nat) :
    protocolStreamVis S vis rb cs = protocolStream (surrogateScreen S vis) rb cs := by
  unfold protocolStreamVis protocolStream
  rw [surrogate_cur, ← attributes_surrogate]
  show _ = drawRowsFrom 0 false rb ((unflagLast vis).map (·.wrapped)) ++ _ ++ _ ++ _
  rw [drawRowsFrom_unflag]

/-- the receiver `q` shows the VIEW of `S` (whose visible rows are `vis`): size, every visible cell (contents,
flags, colours, attributes), every wrap flag but the bottom visible row's, cursor, cursor visibility, pen; and `q`
is not scrolled back.  (`Shows` with the visible rows in place of the live rows, last wrap flag exempt.) -/
structure ShowsView (q : Screen) (S : Screen) (vis : List Row) : Prop where
  size : q.cur.size = S.cur.size
  cells : q.cur.rows.map (fun r => r.cells.map cellObs) = vis.map (fun r => r.cells.map cellObs)
  views : q.cur.rows.map (fun r => r.cells.map view) = vis.map (fun r => r.cells.map view)
  wrapped : (q.cur.rows.map (fun r => r.wrapped)).dropLast = (vis.map (fun r => r.wrapped)).dropLast
  nrows : q.cur.rows.length = vis.length
  cursor : q.cur.pos = S.cur.pos
  hide : q.hideCursor = S.hideCursor
  pen : q.attrs = S.attrs
  off : q.cur.scrollbackOffset = 0

/-- showing the surrogate is showing the view -/
theorem showsView_of_surrogate {q S : Screen} {vis : List Row} (h : Shows q (surrogateScreen S vis)) :
    ShowsView q S vis := by
  have hcur := surrogate_cur S vis
  refine ⟨?_, ?_, ?_, ?_, ?_, ?_, ?_, ?_, h.off⟩
  · rw [h.size, hcur]; rfl
  · rw [h.cells, hcur]
    show (unflagLast vis).map (fun r => r.cells.map cellObs) = vis.map (fun r => r.cells.map cellObs)
    have := congrArg (List.map (fun cs : List Cell => cs.map cellObs)) (unflagLast_cells vis)
    rw [List.map_map, List.map_map] at this
    exact this
  · rw [h.views, hcur]
    show (unflagLast vis).map (fun r => r.cells.map view) = vis.map (fun r => r.cells.map view)
    have := congrArg (List.map (fun cs : List Cell => cs.map view)) (unflagLast_cells vis)
    rw [List.map_map, List.map_map] at this
    exact this
  · rw [h.wrapped, hcur]
    exact unflagLast_wrapped vis
  · have := congrArg List.length h.wrapped
    rw [List.length_map, List.length_map, hcur] at this
    rw [this]
    exact unflagLast_length vis
  · rw [h.cursor, hcur]; rfl
  · rw [h.hide, surrogate_hide]
  · rw [h.pen, surrogate_attrs]

/-- `ShowsView` in terms of `obs`: `obsEq true` on every component but the input modes (which the protocol does
not carry) -/
theorem showsView_obsEq' {q S : Screen} {vis : List Row} (h : ShowsView q S vis)
    (hvis : S.cur.visibleRows = .ok vis) :
    ∃ o1 o2, obs q = .ok o1 ∧ obs S = .ok o2 ∧ obsEq true o1 { o2 with modes := o1.modes } = true := by
  refine ⟨_, obsOfVis S vis, obs_offset0 q h.off, obs_of_vis hvis, ?_⟩
  simp only [obsEq, obsOfVis, Bool.and_eq_true, beq_iff_eq, ↓reduceIte]
  refine ⟨⟨⟨⟨⟨⟨h.size, h.cells⟩, h.cursor⟩, h.hide⟩, h.pen⟩, trivial⟩, h.wrapped, ?_⟩
  simp only [List.length_map]; exact h.nrows

/-- … and the whole of `obsEq true` for a receiver whose input modes are those of `S` -/
theorem showsView_obsEq {q S : Screen} {vis : List Row} (h : ShowsView q S vis)
    (hvis : S.cur.visibleRows = .ok vis) (hm : C10.inputModes q = C10.inputModes S) :
    ∃ o1 o2, obs q = .ok o1 ∧ obs S = .ok o2 ∧ obsEq true o1 o2 = true := by
  refine ⟨_, obsOfVis S vis, obs_offset0 q h.off, obs_of_vis hvis, ?_⟩
  simp only [C10.inputModes, C10.InputModes.mk.injEq] at hm
  obtain ⟨m1, m2, m3, m4, m5⟩ := hm
  simp only [obsEq, obsOfVis, Bool.and_eq_true, beq_iff_eq, ↓reduceIte]
  refine ⟨⟨⟨⟨⟨⟨h.size, h.cells⟩, h.cursor⟩, h.hide⟩, h.pen⟩, ?_⟩, h.wrapped, ?_⟩
  · simp only [Prod.mk.injEq]; exact ⟨m1, m2, m3, m4, m5⟩
  · simp only [List.length_map]; exact h.nrows

/-- both at once (the two observations are the same in both statements) -/
theorem showsView_obs {q S : Screen} {vis : List Row} (h : ShowsView q S vis)
    (hvis : S.cur.visibleRows = .ok vis) :
    ∃ o1 o2, obs q = .ok o1 ∧ obs S = .ok o2 ∧ obsEq true o1 { o2 with modes := o1.modes } = true ∧
      (C10.inputModes q = C10.inputModes S → obsEq true o1 o2 = true) := by
  obtain ⟨o1, o2, a1, a2, a3⟩ := showsView_obsEq' h hvis
  refine ⟨o1, o2, a1, a2, a3, fun hm => ?_⟩
  obtain ⟨o1', o2', b1, b2, b3⟩ := showsView_obsEq h hvis hm
  have : o1' = o1 := Except.ok.inj (b1.symm.trans a1)
  subst this
  have : o2' = o2 := Except.ok.inj (b2.symm.trans a2)
  subst this
  exact b3

/-- at offset 0 `ShowsView` follows from `Shows` (nothing is lost but the last flag) -/
theorem showsView_of_shows {q S : Screen} (h : Shows q S) : ShowsView q S S.cur.rows :=
  ⟨h.size, h.cells, h.views, by rw [h.wrapped], by
    have := congrArg List.length h.wrapped
    simpa using this, h.cursor, h.hide, h.pen, h.off⟩

/-! ### the protocol leaves the receiver's input modes and event list alone -/

/-- what a pen / grid update of the wrapped screen keeps -/
theorem withRS_modes (ws : WS) (R : RS) :
    C10.inputModes (withRS ws R).screen = C10.inputModes ws.screen ∧ (withRS ws R).events = ws.events := by
  refine ⟨?_, rfl⟩
  simp only [C10.inputModes, withRS, Screen.setCur]
  split <;> rfl

/-- **the protocol carries no input mode and reports no event** (offset-0 form, the frame half of
`rows_protocol_reproduces`, same hypotheses): the parser the protocol's bytes lead to has the input modes and the
event list the receiver had -/
theorem rows_protocol_frame (hW : WOk W) {q : Parser} (hq : RecvOk W q)
    (hqoff : (rsOf q.ws).g.scrollbackOffset = 0)
    (hblank : ∀ r ∈ (rsOf q.ws).g.rows, BlankRow (rsOf q.ws).g.size.cols r)
    (S : Screen) (hS : SrcScreen W S) (hsz : S.cur.size = (rsOf q.ws).g.size) (hgs : S.grid.size = S.cur.size) :
    ∃ rb cs q', S.rowsFormatted 0 S.cur.size.cols = .ok rb ∧ S.cursorStateFormatted = .ok cs ∧
      q.process W cb (protocolStream S rb cs) = .ok q' ∧
      C10.inputModes q'.screen = C10.inputModes q.screen ∧ q'.ws.events = q.ws.events := by
  have hcv := hq.canvas
  have hinv0 : RowsInv S.cur.rows S.cur.size.cols 0 false (rsOf q.ws).g.pos (rsOf q.ws) := by
    refine ⟨hcv, by rw [hsz], by rw [← hsz, hS.alloc], rfl, ?_, fun h => by simp at h⟩
    intro k hk
    have hkl : k < (rsOf q.ws).g.rows.length := by rw [hcv.alloc, ← hsz, ← hS.alloc]; exact hk
    refine ⟨_, List.getElem?_eq_getElem hkl, fun h => by omega, fun _ => ?_⟩
    rw [hsz]; exact hblank _ (List.getElem_mem hkl)
  obtain ⟨rb, erb, pp', R', hem', hinv', hoff'⟩ := protocol_loop (cb := cb) hW q hq.ready hS.rows S.cur.rows 0 false _ []
    (rsOf q.ws) rfl (Nat.zero_le _) (fun h => absurd h (Nat.lt_irrefl 0)) (fun _ => rfl) hinv0 (emitted_nil W cb q hq.ready)
  simp only [List.nil_append] at hem'
  have hem1 := emitted_step W cb hq.ready hem' (step_clearAttrs (W := W) (cb := cb))
    (r' := { R' with pen := Attrs.default }) rfl
  obtain ⟨p1, e1, w1, r1⟩ := hem1
  obtain ⟨p2, e2, w2, r2⟩ := C10.process_hideCursor W cb p1 S.hideCursor r1
  have hrs2 : rsOf p2.ws = { R' with pen := Attrs.default } := by
    rw [w2, rsOf_hide, w1, rsOf_withRS]
  have hinv2 : RowsInv S.cur.rows S.cur.size.cols S.cur.rows.length false pp' (rsOf p2.ws) := by
    have := rowsInv_frame hinv' (rsOf p2.ws) (by rw [hrs2]) (by rw [hrs2]) (by rw [hrs2]) (by rw [hrs2]) (by rw [hrs2])
    rw [hrs2] at this ⊢
    rw [← hinv'.pos]
    exact this
  obtain ⟨cb3, ecur, R3, hem3, hpen3, hinv3, hoff3⟩ := cursor_fixup (cb := cb) hW r2 S.cur hS.rows hS.alloc hS.cur_row hS.cur_col
    (emitted_nil W cb p2 r2) (show (rsOf p2.ws).pen = Attrs.default by rw [hrs2]) wf_default hinv2 none
    (fun p hp => by simp at hp)
  simp only [List.nil_append] at hem3
  obtain ⟨p3, e3, w3, r3⟩ := hem3
  obtain ⟨p4, e4, w4, r4⟩ := process_attributes_formatted W cb p3 S hS.pen_wf r3
  have hvis := C19.visibleRows_offset0 S.cur hS.off
  have erf : S.rowsFormatted 0 S.cur.size.cols = .ok rb := by
    simp only [Screen.rowsFormatted, hvis, ok_bind, hgs, beq_self_eq_true, Bool.and_self]
    exact erb
  have ecur' : S.cur.writeCursorPositionFormatted none none = .ok cb3 := by
    have : S.cur.writeCursorPositionFormatted none none = S.cur.writeCursorPositionFormatted none (some Attrs.default) := rfl
    rw [this]; exact ecur
  have ecs : S.cursorStateFormatted = .ok (Term.hideCursor S.hideCursor ++ cb3) := by
    simp only [Screen.cursorStateFormatted, ecur', ok_bind, pure_eq_ok]
  have m1 := withRS_modes q.ws { R' with pen := Attrs.default }
  have m3 := withRS_modes p2.ws R3
  refine ⟨rb, _, p4, erf, ecs, ?_, ?_, ?_⟩
  · unfold protocolStream
    have s1 := process_then (cb := cb) hq.ready e1 r1 e2
    have s2 := process_then (cb := cb) hq.ready s1 r2 e3
    have s3 := process_then (cb := cb) hq.ready s2 r3 e4
    simpa [List.append_assoc] using s3
  · show C10.inputModes p4.ws.screen = C10.inputModes q.ws.screen
    have h4 : C10.inputModes p4.ws.screen = C10.inputModes p3.ws.screen := by rw [w4]; rfl
    have h2 : C10.inputModes p2.ws.screen = C10.inputModes p1.ws.screen := by rw [w2]; rfl
    rw [h4, w3, m3.1, h2, w1, m1.1]
  · have h4 : p4.ws.events = p3.ws.events := by rw [w4]; rfl
    have h2 : p2.ws.events = p1.ws.events := by rw [w2]
    rw [h4, w3, m3.2, h2, w1, m1.2]

/-- **C15 for a scrolled view** (any scrollback offset; cursor inside its line, visible rows of the current
width): drawing the lines of `S.rows_formatted(0, cols)` by the protocol (`ESC[m`, CUP unless the visible line above
is wrapped, the line), then `ESC[m`, `cursor_state_formatted()` and `attributes_formatted()`, on a receiver whose
lines are blank (a new parser, a cleared terminal) makes it show the VIEW of `S`: the visible cells, flags,
colours, every wrap flag but the bottom visible row's, cursor, visibility, pen (`ShowsView`); the receiver's input
modes and event list are as they were.  In terms of `obs`: `obsEq true` on every component but the input modes,
and on all of them if the receiver had the input modes of `S`. -/
theorem rows_protocol_view (hW : WOk W) {q : Parser} (hq : RecvOk W q)
    (hqoff : (rsOf q.ws).g.scrollbackOffset = 0)
    (hblank : ∀ r ∈ (rsOf q.ws).g.rows, BlankRow (rsOf q.ws).g.size.cols r)
    (S : Screen) (hi : ScreenInv W S) (hx : ScreenX S) (hf : ScreenF S)
    {vis : List Row} (hvis : S.cur.visibleRows = .ok vis) (hwid : ∀ r ∈ vis, r.cells.length = S.cur.size.cols)
    (hcol : S.cur.pos.col < S.cur.size.cols) (hsz : S.cur.size = (rsOf q.ws).g.size) :
    ∃ rb cs q', S.rowsFormatted 0 S.cur.size.cols = .ok rb ∧ S.cursorStateFormatted = .ok cs ∧
      q.process W cb (protocolStreamVis S vis rb cs) = .ok q' ∧ Ready q' ∧ ShowsView q'.screen S vis ∧
      C10.inputModes q'.screen = C10.inputModes q.screen ∧ q'.ws.events = q.ws.events ∧
      ∃ o1 o2, obs q'.screen = .ok o1 ∧ obs S = .ok o2 ∧ obsEq true o1 { o2 with modes := o1.modes } = true ∧
        (C10.inputModes q.screen = C10.inputModes S → obsEq true o1 o2 = true) := by
  have hS := srcScreen_surrogate hi hx hf hvis hwid hcol
  have hcur := surrogate_cur S vis
  have hgs : S.grid.size = S.cur.size := by
    unfold Screen.cur; split
    · exact hi.same_size
    · rfl
  have hcsz : (surrogateScreen S vis).cur.size = S.cur.size := by rw [hcur]; rfl
  obtain ⟨rb, cs, q', e1, e2, e3, r4, hsh⟩ := rows_protocol_reproduces (cb := cb) hW hq hqoff hblank
    (surrogateScreen S vis) hS (by rw [hcsz]; exact hsz) (by rw [surrogate_grid_size, hcsz]; exact hgs)
  obtain ⟨rb2, cs2, q2, f1, f2, f3, hm, hev⟩ := rows_protocol_frame (cb := cb) hW hq hqoff hblank
    (surrogateScreen S vis) hS (by rw [hcsz]; exact hsz) (by rw [surrogate_grid_size, hcsz]; exact hgs)
  have : rb2 = rb := Except.ok.inj (f1.symm.trans e1)
  subst this
  have : cs2 = cs := Except.ok.inj (f2.symm.trans e2)
  subst this
  have : q2 = q' := Except.ok.inj (f3.symm.trans e3)
  subst this
  rw [hcsz, ← rows_surrogate hvis] at e1
  rw [← cursorState_surrogate vis hcol] at e2
  rw [← protocol_surrogate] at e3
  have hv := showsView_of_surrogate hsh
  obtain ⟨o1, o2, a1, a2, a3, a4⟩ := showsView_obs hv hvis
  exact ⟨rb2, cs2, q2, e1, e2, e3, r4, hv, hm, hev, o1, o2, a1, a2, a3, fun h => a4 (hm.trans h)⟩

/-- **C15 for a scrolled view, on a new parser** of the same size; no event is reported -/
theorem rows_protocol_view_fresh (hW : WOk W) (S : Screen) (hi : ScreenInv W S) (hx : ScreenX S) (hf : ScreenF S)
    {vis : List Row} (hvis : S.cur.visibleRows = .ok vis) (hwid : ∀ r ∈ vis, r.cells.length = S.cur.size.cols)
    (hcol : S.cur.pos.col < S.cur.size.cols) (sb : Nat) :
    ∃ q rb cs q', Parser.new S.cur.size.rows S.cur.size.cols sb = .ok q ∧
      S.rowsFormatted 0 S.cur.size.cols = .ok rb ∧ S.cursorStateFormatted = .ok cs ∧
      q.process W cb (protocolStreamVis S vis rb cs) = .ok q' ∧ ShowsView q'.screen S vis ∧
      C10.inputModes q'.screen = C10.inputModes q.screen ∧ q'.ws.events = [] ∧
      ∃ o1 o2, obs q'.screen = .ok o1 ∧ obs S = .ok o2 ∧ obsEq true o1 { o2 with modes := o1.modes } = true ∧
        (C10.inputModes q.screen = C10.inputModes S → obsEq true o1 o2 = true) := by
  obtain ⟨hcg, _⟩ := hi.cur
  obtain ⟨q, enew, hq, hqoff, hqsz, _, _⟩ := new_recvOk W S.cur.size.rows S.cur.size.cols sb hcg.rows_pos hcg.cols_pos
    hcg.rows_u16 hcg.cols_u16
  have hqeq : q = { vte := Vte.new, ws := { screen := C13.newScreen S.cur.size.rows S.cur.size.cols sb, events := [] } } := by
    simp only [Parser.new, C13.new_eq _ _ _ hcg.rows_pos, ok_bind, pure_eq_ok, Except.ok.injEq] at enew
    exact enew.symm
  obtain ⟨rb, cs, q', e1, e2, e3, _, hv, hm, hev, ho⟩ := rows_protocol_view (cb := cb) hW hq hqoff (by
      rw [hqsz]; subst hqeq; exact new_blank _ _ _) S hi hx hf hvis hwid hcol (by rw [hqsz])
  refine ⟨q, rb, cs, q', enew, e1, e2, e3, hv, hm, ?_, ho⟩
  rw [hev, hqeq]

/-- **C15 for every reachable screen, scrolled back or not** (cursor inside its line; visible rows of the current
width): any history of `process` / `set_size` / `set_scrollback` from `Parser::new`; the protocol's bytes on a new
parser of the same size.  `ShowsView` / `obsEq true` exempt the wrap flag of the bottom visible row; for a view
that is not scrolled back `Reach.rows_protocol_reachable` gives every wrap flag (and every cursor position) -/
theorem rows_protocol_reachable_view (hW : WOk W) {cbS cbR : CbPolicy}
    (hcb : CbInv W cbS) (hcx : CbX W cbS) (hcf : CbF W cbS)
    (rows cols sb : Nat) (hr : 1 ≤ rows) (hc : 1 ≤ cols) (hr' : rows ≤ 65535) (hc' : cols ≤ 65535)
    (ops : List Op) (hv : ∀ op ∈ ops, op.Valid) (sbR : Nat) :
    ∃ p vis, (Parser.new rows cols sb >>= fun p0 => ops.foldlM (applyOp W cbS) p0) = .ok p ∧
      p.ws.screen.cur.visibleRows = .ok vis ∧
      ((∀ r ∈ vis, r.cells.length = p.ws.screen.cur.size.cols) →
        p.ws.screen.cur.pos.col < p.ws.screen.cur.size.cols →
        ∃ q rb cs q', Parser.new p.ws.screen.cur.size.rows p.ws.screen.cur.size.cols sbR = .ok q ∧
          p.ws.screen.rowsFormatted 0 p.ws.screen.cur.size.cols = .ok rb ∧
          p.ws.screen.cursorStateFormatted = .ok cs ∧
          q.process W cbR (protocolStreamVis p.ws.screen vis rb cs) = .ok q' ∧
          ShowsView q'.screen p.ws.screen vis ∧
          C10.inputModes q'.screen = C10.inputModes q.screen ∧ q'.ws.events = [] ∧
          ∃ o1 o2, obs q'.screen = .ok o1 ∧ obs p.ws.screen = .ok o2 ∧
            obsEq true o1 { o2 with modes := o1.modes } = true ∧
            (C10.inputModes q.screen = C10.inputModes p.ws.screen → obsEq true o1 o2 = true)) := by
  obtain ⟨p, e, hi, hx⟩ := reachable_x hW.space hcb hcx rows cols sb hr hc hr' hc' ops hv
  obtain ⟨p', e', _, hf⟩ := reachable_f hW.space hcb hcf rows cols sb hr hc hr' hc' ops hv
  have : p' = p := by rw [e] at e'; exact (Except.ok.inj e').symm
  subst this
  obtain ⟨hcg, _⟩ := hi.screen.cur
  obtain ⟨vis, hvis, _⟩ := C12.visibleRows_length p'.ws.screen.cur hcg.sb_off
  exact ⟨p', vis, e, hvis, fun hwid hcol =>
    rows_protocol_view_fresh (cb := cbR) hW p'.ws.screen hi.screen hx hf hvis hwid hcol sbR⟩

/-- the hypotheses of the scrolled-view theorem are satisfiable by a scrolled screen whose view has a WRAPPED
line: "abcd" (wraps after "abc") CR LF "e" CR LF "f" on a 3x3 screen with a history of 5 lines,
`set_scrollback(1)`: the view shows the history line "abc" (wrapped), and the live lines "d", "e"; every visible
row is 3 wide, the cursor is inside its line; and the protocol's bytes on a new 3x3 parser give
`obsEq true` (all components, the modes being the defaults on both sides) (kernel-evaluated; a test) -/
theorem rows_protocol_view_nonvacuous :
    isOkTrue (do
      let p0 ← Parser.new 3 3 5
      let p1 ← p0.process W0 cbNone [97, 98, 99, 100, 13, 10, 101, 13, 10, 102]
      let s ← p1.ws.screen.setScrollback 1
      let vis ← s.cur.visibleRows
      let rb ← s.rowsFormatted 0 s.cur.size.cols
      let cs ← s.cursorStateFormatted
      let q ← Parser.new 3 3 0
      let q' ← q.process W0 cbNone (protocolStreamVis s vis rb cs)
      let o1 ← obs q'.screen
      let o2 ← obs s
      pure (decide (s.cur.scrollbackOffset > 0) && vis.all (fun r => r.cells.length == s.cur.size.cols) &&
            decide (s.cur.pos.col < s.cur.size.cols) && vis.length == 3 &&
            (vis.map (·.wrapped) == [true, false, false]) && obsEq true o1 o2)) = true := by
  decide +kernel

end Vt.C15
