/-
  C03 (continued) — totality of the read accessors.

  Every accessor that walks the grid and emits bytes — `contents`, `rows`, `contents_between`,
  `contents_formatted`, `state_formatted`, `rows_formatted`, `cursor_state_formatted`,
  `contents_diff`, `state_diff`, `rows_diff`, `cell`, `row_wrapped` — returns normally (`.ok`) on
  every screen that satisfies `Inv`, for *every* argument value (any `start`, `width`, row and
  column numbers, in or out of range), and for a diff against *any* other `Inv` screen (of any
  size).  Together with `reachable_inv` (every reachable screen satisfies `Inv`) this is the
  accessor half of C03: none of the panic sites
     201 (`from_utf8(..).unwrap()` in `Cell::contents`), 321 (`col - prev_col`), 331
     (`pos.col - prev_col`), 332 (`row - 1`), 343–346 (last-cell lookups of `write_contents_diff`),
     409 (`scrollback.len() - offset`), 411–417 (`drawing_cell(..).unwrap()` and `cols - 1/2` of
     `write_cursor_position_formatted`)
  can be reached.
-/
import Vt.Lemmas.GridInv
import Vt.Lemmas.CellInv
import Vt.Props.InvPerform
namespace Vt.C03
open Vt
set_option linter.unusedSimpArgs false

/-! ### the `(col, cell)` window of a row as a fold with a column-indexed invariant -/

/-- `Row.window` with the enumeration starting at `k` -/
def windowFrom {α} (l : List α) (k start width : Nat) : List (Nat × α) :=
  (((l.zipIdx k).map (fun p => (p.2, p.1))).drop start).take width

theorem window_eq {α} (l : List α) (start width : Nat) : Row.window l start width = windowFrom l 0 start width := rfl

/-- a fold over the window keeps a column-indexed invariant and never fails, if each step does -/
theorem windowFrom_fold {α σ} (f : σ → Nat × α → M σ) (P : Nat → σ → Prop)
    (hmono : ∀ i s, P i s → P (i + 1) s) :
    ∀ (l : List α) (k start width : Nat) (s0 : σ),
      (∀ col c s, c ∈ l → P col s → ∃ s', f s (col, c) = .ok s' ∧ P (col + 1) s') →
      P (k + start) s0 →
      ∃ s' j, (windowFrom l k start width).foldlM f s0 = .ok s' ∧ P j s'
  | [], k, start, width, s0, _, h0 => ⟨s0, k + start, by simp [windowFrom, pure, Except.pure], h0⟩
  | x :: xs, k, start, width, s0, hstep, h0 => by
    cases start with
    | succ st =>
      have e : windowFrom (x :: xs) k (st + 1) width = windowFrom xs (k + 1) st width := by
        simp [windowFrom, List.zipIdx_cons]
      rw [e]
      exact windowFrom_fold f P hmono xs (k + 1) st width s0
        (fun col c s hc hp => hstep col c s (List.mem_cons_of_mem _ hc) hp)
        (by rw [show k + 1 + st = k + (st + 1) by omega]; exact h0)
    | zero =>
      cases width with
      | zero => exact ⟨s0, k + 0, by simp [windowFrom, pure, Except.pure], h0⟩
      | succ w =>
        have e : windowFrom (x :: xs) k 0 (w + 1) = (k, x) :: windowFrom xs (k + 1) 0 w := by
          simp [windowFrom, List.zipIdx_cons]
        obtain ⟨s1, e1, p1⟩ := hstep k x s0 (List.mem_cons_self ..) (by simpa using h0)
        obtain ⟨s', j, e2, p2⟩ := windowFrom_fold f P hmono xs (k + 1) 0 w s1
          (fun col c s hc hp => hstep col c s (List.mem_cons_of_mem _ hc) hp) (by simpa using p1)
        exact ⟨s', j, by rw [e, List.foldlM_cons, e1]; exact e2, p2⟩

/-! ### cells -/

/-- what the emitters need of a cell: its live bytes are valid UTF-8 -/
def CellFine (c : Cell) : Prop := Utf8.valid (c.contents.take c.len) = true

theorem cellFine_of_ok {W : Nat → Option Nat} {c : Cell} (h : cellOk W c = true) : CellFine c := by
  simp only [cellOk, Bool.and_eq_true] at h
  exact h.2.1

theorem contentsBytes_ok {c : Cell} (h : CellFine c) : c.contentsBytes = .ok (c.contents.take c.len) := by
  unfold CellFine at h
  simp [Cell.contentsBytes, h, pure, Except.pure]

/-! ### `Row::write_contents` -/

theorem writeContentsStep_ok (col : Nat) (c : Cell) (st : Row.WcSt) (hc : CellFine c)
    (hp : st.prevCol ≤ col + (if st.prevWasWide then 1 else 0)) :
    ∃ st', Row.writeContentsStep st (col, c) = .ok st' ∧
      st'.prevCol ≤ col + 1 + (if st'.prevWasWide then 1 else 0) := by
  unfold Row.writeContentsStep
  by_cases hw : st.prevWasWide = true
  · simp only [hw, ↓reduceIte] at hp ⊢
    exact ⟨_, rfl, by simp; omega⟩
  · simp only [hw, Bool.false_eq_true, ↓reduceIte] at hp ⊢
    by_cases hh : c.hasContents = true
    · simp only [hh, ↓reduceIte, subM_ok (show st.prevCol ≤ col by omega), contentsBytes_ok hc, pure_bind',
        ok_bind, Cell.isWide]
      refine ⟨_, rfl, ?_⟩
      dsimp only
      by_cases hwd : c.wide = true <;> simp [hwd] <;> omega
    · simp only [hh, Bool.false_eq_true, ↓reduceIte]
      refine ⟨_, rfl, ?_⟩
      dsimp only
      split <;> omega

theorem row_writeContents_total (r : Row) (hr : ∀ c ∈ r.cells, CellFine c) (start width : Nat) (w : Bool) :
    ∃ bs, r.writeContents start width w = .ok bs := by
  unfold Row.writeContents
  rw [window_eq]
  obtain ⟨st, j, e, _⟩ := windowFrom_fold Row.writeContentsStep
    (fun col st => st.prevCol ≤ col + (if st.prevWasWide then 1 else 0))
    (fun i s h => by
      have h' : s.prevCol ≤ i + (if s.prevWasWide then 1 else 0) := h
      show s.prevCol ≤ i + 1 + (if s.prevWasWide then 1 else 0)
      omega) r.cells 0 start width
    { prevWasWide := false, prevCol := start, out := [] }
    (fun col c s hc hp => writeContentsStep_ok col c s (hr c hc) hp) (by simp)
  rw [e]
  exact ⟨_, rfl⟩

/-! ### the formatted / diff cell loop -/

/-- a pending erase run started at or before column `col` -/
def EraseLe (col : Nat) (st : Row.FmtSt) : Prop := ∀ pc a, st.erase = some (pc, a) → pc ≤ col

theorem eraseMove_erase (n row : Nat) (w : Bool) (st : Row.FmtSt) (pc : Nat) (a : Attrs) :
    (Row.eraseMove n row w st pc a).erase = st.erase := by
  unfold Row.eraseMove
  simp only

/-- first half of the per-cell body: flush a pending erase run when this cell ends it -/
def flush (n row : Nat) (w : Bool) (st : Row.FmtSt) (col : Nat) (c : Cell) : M Row.FmtSt :=
  match st.erase with
  | some (prevCol, attrs) =>
    if c.hasContents || c.attrs != attrs then do
      let st := Row.eraseMove n row w st prevCol attrs
      let k ← subM 331 col prevCol
      pure { st with out := st.out ++ Term.eraseChar k, erase := none }
    else pure st
  | none => pure st

/-- second half: draw the cell, or start an erase run -/
def emit (n row : Nat) (w : Bool) (st : Row.FmtSt) (col : Nat) (cell : Cell) (differs : Bool) : M Row.FmtSt :=
  let pos : Pos := { row := row, col := col }
  if differs then
    let attrs := cell.attrs
    if cell.hasContents then do
      let st :=
        if pos != st.prevPos then
          let mv :=
            if !w || st.prevPos.row + 1 != pos.row
                || st.prevPos.col < n - (if cell.isWide then 1 else 0)
                || pos.col != 0 then
              Term.moveFromTo st.prevPos pos
            else []
          { st with out := st.out ++ mv, prevPos := pos }
        else st
      let st :=
        if st.prevAttrs != attrs then
          { st with out := st.out ++ attrs.writeEscapeCodeDiff st.prevAttrs, prevAttrs := attrs }
        else st
      let bs ← cell.contentsBytes
      pure { st with
        prevPos := { st.prevPos with col := st.prevPos.col + (if cell.isWide then 2 else 1) },
        out := st.out ++ bs }
    else if st.erase.isNone then pure { st with erase := some (pos.col, attrs) }
    else pure st
  else pure st

theorem fmtCellStep_eq (n row : Nat) (w : Bool) (st : Row.FmtSt) (col : Nat) (c : Cell) (d : Bool) :
    Row.fmtCellStep n row w st col c d = (flush n row w st col c >>= fun st1 => emit n row w st1 col c d) := by
  unfold Row.fmtCellStep flush emit
  cases st.erase with
  | none => rfl
  | some pa =>
    obtain ⟨pc, a⟩ := pa
    simp only
    split
    · cases subM 331 col pc <;> rfl
    · rfl

theorem flush_ok (n row : Nat) (w : Bool) (st : Row.FmtSt) (col : Nat) (c : Cell) (hp : EraseLe col st) :
    ∃ st1, flush n row w st col c = .ok st1 ∧ EraseLe col st1 := by
  unfold flush
  cases he : st.erase with
  | none => exact ⟨st, rfl, hp⟩
  | some pa =>
    obtain ⟨pc, a⟩ := pa
    have hle := hp pc a he
    simp only
    split
    · simp only [subM_ok hle, pure_bind', ok_bind]
      exact ⟨_, rfl, fun _ _ h => by simp at h⟩
    · exact ⟨st, rfl, hp⟩

theorem emit_ok (n row : Nat) (w : Bool) (st1 : Row.FmtSt) (col : Nat) (c : Cell) (d : Bool)
    (hc : CellFine c) (p1 : EraseLe col st1) :
    ∃ st', emit n row w st1 col c d = .ok st' ∧ EraseLe (col + 1) st' := by
  unfold emit
  by_cases hd : d = true
  · simp only [hd, ↓reduceIte]
    by_cases hh : c.hasContents = true
    · simp only [hh, ↓reduceIte, contentsBytes_ok hc, ok_bind]
      refine ⟨_, rfl, ?_⟩
      intro pc a h
      simp only [apply_ite Row.FmtSt.erase, ite_self] at h
      have := p1 pc a h; omega
    · simp only [hh, Bool.false_eq_true, ↓reduceIte]
      by_cases hn : st1.erase.isNone = true
      · simp only [hn, ↓reduceIte]
        exact ⟨_, rfl, fun pc a h => by simp at h; omega⟩
      · simp only [hn, Bool.false_eq_true, ↓reduceIte]
        exact ⟨_, rfl, fun pc a h => by have := p1 pc a h; omega⟩
  · simp only [hd, Bool.false_eq_true, ↓reduceIte]
    exact ⟨_, rfl, fun pc a h => by have := p1 pc a h; omega⟩

theorem fmtCellStep_ok (n row : Nat) (w : Bool) (st : Row.FmtSt) (col : Nat) (c : Cell) (d : Bool)
    (hc : CellFine c) (hp : EraseLe col st) :
    ∃ st', Row.fmtCellStep n row w st col c d = .ok st' ∧ EraseLe (col + 1) st' := by
  rw [fmtCellStep_eq]
  obtain ⟨st1, e1, p1⟩ := flush_ok n row w st col c hp
  rw [e1]
  exact emit_ok n row w st1 col c d hc p1

theorem fmtStep_ok (n row : Nat) (w : Bool) (st : Row.FmtSt) (col : Nat) (c : Cell)
    (hc : CellFine c) (hp : EraseLe col st) :
    ∃ st', Row.fmtStep n row w st (col, c) = .ok st' ∧ EraseLe (col + 1) st' := by
  unfold Row.fmtStep
  simp only
  split
  · exact ⟨_, rfl, fun pc a h => by have := hp pc a h; omega⟩
  · exact fmtCellStep_ok n row w _ col c _ hc hp

theorem diffStep_ok (n row : Nat) (w : Bool) (st : Row.FmtSt) (col : Nat) (c p : Cell)
    (hc : CellFine c) (hp : EraseLe col st) :
    ∃ st', Row.diffStep n row w st (col, (c, p)) = .ok st' ∧ EraseLe (col + 1) st' := by
  unfold Row.diffStep
  simp only
  split
  · exact ⟨_, rfl, fun pc a h => by have := hp pc a h; omega⟩
  · exact fmtCellStep_ok n row w _ col c _ hc hp

/-- `Row::write_contents_formatted` cannot fail on a row of valid cells, whatever the window, as long
as a wrapped-onto row without a known previous position is not row 0 -/
theorem fmt_fold_total (r : Row) (hr : ∀ c ∈ r.cells, CellFine c) (start width row : Nat) (w : Bool)
    (st0 : Row.FmtSt) (he0 : st0.erase = none) :
    ∃ st, (Row.window r.cells start width).foldlM (Row.fmtStep r.cols row w) st0 = .ok st := by
  rw [window_eq]
  obtain ⟨st, j, e2, _⟩ := windowFrom_fold (Row.fmtStep r.cols row w) EraseLe
    (fun i s h pc a hh => by have := h pc a hh; omega) r.cells 0 start width st0
    (fun col c s hc hp => fmtStep_ok r.cols row w s col c (hr c hc) hp)
    (fun pc a h => by rw [he0] at h; simp at h)
  exact ⟨st, e2⟩

theorem row_formatted_total (r : Row) (hr : ∀ c ∈ r.cells, CellFine c) (start width row : Nat) (w : Bool)
    (pp : Option Pos) (pa : Option Attrs) (h0 : pp = none → w = true → 1 ≤ row) :
    ∃ res, r.writeContentsFormatted start width row w pp pa = .ok res := by
  have key : ∀ (w : Bool) (st0 : Row.FmtSt), st0.erase = none →
      ∃ res, (do
        let st ← (Row.window r.cells start width).foldlM (Row.fmtStep r.cols row w) st0
        let st := Row.fmtFinish r.cols row w st
        pure (st.out, st.prevPos, st.prevAttrs) : M (List Nat × Pos × Attrs)) = .ok res := by
    intro w st0 he0
    obtain ⟨st, e⟩ := fmt_fold_total r hr start width row w st0 he0
    rw [e]; exact ⟨_, rfl⟩
  unfold Row.writeContentsFormatted
  cases pp with
  | some p =>
    simp only [pure_bind', ok_bind]
    apply key
    split <;> rfl
  | none =>
    by_cases hw : w = true
    · have := h0 rfl hw
      simp only [hw, ↓reduceIte, subM_ok this, pure_bind', ok_bind]
      apply key
      split <;> rfl
    · simp only [hw, Bool.false_eq_true, ↓reduceIte, pure_bind', ok_bind]
      apply key
      split <;> rfl

theorem pairing_last_cont {cs : List Cell} {c : Cell} (hp : pairThrough false cs = some false)
    (hc : cs[cs.length - 1]? = some c) (hcont : c.cont = true) : 2 ≤ cs.length := by
  have hl := getElem?_lt hc
  rcases Nat.lt_or_ge 1 cs.length with h | h
  · omega
  · have h1 : cs.length = 1 := by omega
    rw [h1] at hc
    obtain ⟨p, e1, e2, _⟩ := pairThrough_split hc hp
    simp [pairThrough] at e1
    rw [e1, hcont] at e2
    exact absurd e2 (by simp)

/-- `Row::write_contents_diff` cannot fail on rows of valid cells (any window, any previous row) -/
theorem row_diff_total {W : Nat → Option Nat} (r p : Row) (hr : rowOk W r = true)
    (hpv : ∀ c ∈ p.cells, CellFine c) (start width row : Nat) (w pw : Bool) (pp : Pos) (pa : Attrs) :
    ∃ res, r.writeContentsDiff p start width row w pw pp pa = .ok res := by
  obtain ⟨hlen, hci⟩ := (rowOk_iff W r).mp hr
  have hrv : ∀ c ∈ r.cells, CellFine c := fun c hc => cellFine_of_ok (hci.cells_ok c hc)
  unfold Row.writeContentsDiff
  -- start
  have h1 : ∃ st0, Row.diffStart r p start row w pw pp pa = .ok st0 ∧ st0.erase = none := by
    unfold Row.diffStart
    cases e1 : r.cells[start]? with
    | none => exact ⟨⟨false, pp, pa, none, []⟩, rfl, rfl⟩
    | some fc =>
      cases e2 : p.cells[start]? with
      | none => exact ⟨⟨false, pp, pa, none, []⟩, rfl, rfl⟩
      | some pc =>
        have hpc : CellFine pc := hpv pc (List.mem_of_getElem? e2)
        by_cases hcnd : (w && !pw && fc.eq pc && pp.row + 1 == row
            && decide (pp.col ≥ r.cols - (if pc.isWide then 1 else 0))) = true
        · simp only [hcnd, ↓reduceIte, contentsBytes_ok hpc, ok_bind]
          exact ⟨_, rfl, rfl⟩
        · simp only [hcnd, Bool.false_eq_true, ↓reduceIte]
          exact ⟨⟨false, pp, pa, none, []⟩, rfl, rfl⟩
  obtain ⟨st0, e0, he0⟩ := h1
  rw [e0]
  simp only [ok_bind]
  rw [window_eq]
  obtain ⟨st, j, e2, _⟩ := windowFrom_fold (Row.diffStep r.cols row w) EraseLe
    (fun i s h pc a hh => by have := h pc a hh; omega) (r.cells.zip p.cells) 0 start width st0
    (fun col c s hc hp => diffStep_ok r.cols row w s col c.1 c.2 (hrv c.1 (List.of_mem_zip hc).1) hp)
    (fun pc a h => by rw [he0] at h; simp at h)
  rw [e2]
  simp only [ok_bind]
  -- end
  unfold Row.diffEnd
  split
  · have hcols : r.cols = r.cells.length := rfl
    have hl : r.cells.length - 1 < r.cells.length := by omega
    simp only [hcols, subM_ok hlen, pure_bind', ok_bind, getM_ok hl]
    by_cases hcont : (r.cells[r.cells.length - 1]).isWideContinuation = true
    · have h2 := pairing_last_cont hci.paired (List.getElem?_eq_getElem hl) hcont
      have hl2 : r.cells.length - 2 < r.cells.length := by omega
      simp only [hcont, ↓reduceIte, subM_ok h2, pure_bind', ok_bind, getM_ok hl2]
      split
      · simp only [contentsBytes_ok (hrv _ (List.getElem_mem hl2)), ok_bind]; exact ⟨_, rfl⟩
      · exact ⟨_, rfl⟩
    · simp only [hcont, Bool.false_eq_true, ↓reduceIte, pure_bind', ok_bind, getM_ok hl]
      split
      · simp only [contentsBytes_ok (hrv _ (List.getElem_mem hl)), ok_bind]; exact ⟨_, rfl⟩
      · exact ⟨_, rfl⟩
  · exact ⟨_, rfl⟩

end Vt.C03

/-! ### grids -/
namespace Vt.C03
open Vt
set_option linter.unusedSimpArgs false

variable {W : Nat → Option Nat}

theorem rowFine_of_ok {r : Row} (h : rowOk W r = true) : ∀ c ∈ r.cells, CellFine c :=
  fun c hc => cellFine_of_ok (((rowOk_iff W r).mp h).2.cells_ok c hc)

/-- the visible rows of a well-formed grid exist and are well-formed rows -/
theorem visibleRows_good {g : Grid} {un : Bool} (h : GridInv W g un) :
    ∃ v, g.visibleRows = .ok v ∧ ∀ r ∈ v, rowOk W r = true := by
  unfold Grid.visibleRows
  simp only [subM_ok h.sb_off, ok_bind, pure_eq_ok]
  refine ⟨_, rfl, ?_⟩
  intro r hr
  rcases List.mem_append.mp hr with hr | hr
  · exact h.sb_ok r (List.mem_of_mem_drop (List.mem_of_mem_take hr))
  · exact (h.row_ok r (List.mem_of_mem_take hr)).2

theorem writeContentsLoop_total (cols : Nat) : ∀ (rs : List Row) (w : Bool) (out : List Nat),
    (∀ r ∈ rs, rowOk W r = true) → ∃ bs, Grid.writeContentsLoop cols rs w out = .ok bs
  | [], _, out, _ => ⟨out, rfl⟩
  | r :: rs, w, out, h => by
    obtain ⟨bs, e⟩ := row_writeContents_total r (rowFine_of_ok (h r (List.mem_cons_self ..))) 0 cols w
    simp only [Grid.writeContentsLoop, e, ok_bind]
    exact writeContentsLoop_total cols rs _ _ (fun r' hr' => h r' (List.mem_cons_of_mem _ hr'))

theorem mapM_total {α β} (f : α → M β) : ∀ (l : List α), (∀ x ∈ l, ∃ y, f x = .ok y) → ∃ ys, l.mapM f = .ok ys
  | [], _ => ⟨[], rfl⟩
  | x :: xs, h => by
    obtain ⟨y, e⟩ := h x (List.mem_cons_self ..)
    obtain ⟨ys, e'⟩ := mapM_total f xs (fun z hz => h z (List.mem_cons_of_mem _ hz))
    exact ⟨y :: ys, by simp [List.mapM_cons, e, e', pure, Except.pure, bind, Except.bind]⟩

theorem fmtRowsLoop_total (cols : Nat) : ∀ (rs : List Row) (i : Nat) (w : Bool) (pp : Pos) (pa : Attrs)
    (out : List Nat), (∀ r ∈ rs, rowOk W r = true) → ∃ res, Grid.fmtRowsLoop cols rs i w pp pa out = .ok res
  | [], _, _, pp, pa, out, _ => ⟨(out, pp, pa), rfl⟩
  | r :: rs, i, w, pp, pa, out, h => by
    obtain ⟨⟨bs, np, na⟩, e⟩ := row_formatted_total r (rowFine_of_ok (h r (List.mem_cons_self ..))) 0 cols i w
      (some pp) (some pa) (fun hh => by simp at hh)
    simp only [Grid.fmtRowsLoop, e, ok_bind]
    exact fmtRowsLoop_total cols rs _ _ _ _ _ (fun r' hr' => h r' (List.mem_cons_of_mem _ hr'))

theorem diffRowsLoop_total (cols : Nat) : ∀ (rs : List (Row × Row)) (i : Nat) (w pw : Bool) (pp : Pos) (pa : Attrs)
    (out : List Nat), (∀ p ∈ rs, rowOk W p.1 = true ∧ rowOk W p.2 = true) →
    ∃ res, Grid.diffRowsLoop cols rs i w pw pp pa out = .ok res
  | [], _, _, _, pp, pa, out, _ => ⟨(out, pp, pa), rfl⟩
  | (r, p) :: rs, i, w, pw, pp, pa, out, h => by
    have hrp := h (r, p) (List.mem_cons_self ..)
    obtain ⟨⟨bs, np, na⟩, e⟩ := row_diff_total r p hrp.1 (rowFine_of_ok hrp.2) 0 cols i w pw pp pa
    simp only [Grid.diffRowsLoop, e, ok_bind]
    exact diffRowsLoop_total cols rs _ _ _ _ _ _ (fun r' hr' => h r' (List.mem_cons_of_mem _ hr'))

/-- a live grid: `Inv` and allocated -/
structure Live (W : Nat → Option Nat) (g : Grid) : Prop where
  inv : GridInv W g true
  alloc : g.rows.length = g.size.rows

theorem Live.cell {g : Grid} (h : Live W g) {row col : Nat} (hr : row < g.size.rows) (hc : col < g.size.cols) :
    ∃ r c, g.rows[row]? = some r ∧ r.cells[col]? = some c ∧ g.drawingCell ⟨row, col⟩ = some c ∧
      rowOk W r = true ∧ r.cells.length = g.size.cols := by
  have hl : row < g.rows.length := by rw [h.alloc]; exact hr
  have hrow := h.inv.row_ok g.rows[row] (List.getElem_mem hl)
  have hcl : col < (g.rows[row]).cells.length := by rw [hrow.1]; exact hc
  refine ⟨g.rows[row], (g.rows[row]).cells[col], List.getElem?_eq_getElem hl, List.getElem?_eq_getElem hcl, ?_,
    hrow.2, hrow.1⟩
  simp [Grid.drawingCell, Grid.drawingRow, Row.get, List.getElem?_eq_getElem hl, List.getElem?_eq_getElem hcl]

theorem Live.cellM {g : Grid} (h : Live W g) (site : Nat) {row col : Nat} (hr : row < g.size.rows)
    (hc : col < g.size.cols) :
    ∃ c, g.drawingCellM site ⟨row, col⟩ = .ok c ∧ CellFine c := by
  obtain ⟨r, c, _, e2, e3, hok, _⟩ := h.cell hr hc
  exact ⟨c, by simp [Grid.drawingCellM, e3], rowFine_of_ok hok c (List.mem_of_getElem? e2)⟩

theorem endOfRowPos_total {g : Grid} (h : Live W g) {row : Nat} (hr : row < g.size.rows) :
    ∃ p, g.endOfRowPos row = .ok p ∧ p.row = row ∧ p.col < g.size.cols := by
  have hc := h.inv.cols_pos
  obtain ⟨r, c, e1, e2, e3, hok, hlen⟩ := h.cell hr (show g.size.cols - 1 < g.size.cols by omega)
  unfold Grid.endOfRowPos
  simp only [subM_ok hc, ok_bind, Grid.drawingCellM, e3, pure_bind']
  by_cases hcont : c.isWideContinuation = true
  · have : 2 ≤ r.cells.length := by
      refine pairing_last_cont ((rowOk_iff W r).mp hok).2.paired ?_ hcont
      rw [hlen]; exact e2
    simp only [hcont, ↓reduceIte, subM_ok (show 2 ≤ g.size.cols by omega), pure_bind', ok_bind]
    exact ⟨_, rfl, rfl, by simp; omega⟩
  · simp only [hcont, Bool.false_eq_true, ↓reduceIte]
    exact ⟨_, rfl, rfl, by simp; omega⟩

theorem cursorSearch_total {g : Grid} (h : Live W g) (pp : Option Pos) (pa : Attrs) :
    ∀ (is : List Nat), (∀ i ∈ is, i < g.size.rows) → ∃ res, g.cursorSearch pp pa is = .ok res
  | [], _ => ⟨none, rfl⟩
  | i :: is, hi => by
    obtain ⟨p, e, hp1, hp2⟩ := endOfRowPos_total h (hi i (List.mem_cons_self ..))
    obtain ⟨c, ec, hcf⟩ := h.cellM 414 (show p.row < g.size.rows by rw [hp1]; exact hi i (List.mem_cons_self ..)) hp2
    simp only [Grid.cursorSearch, e, ok_bind, ec, contentsBytes_ok hcf]
    split
    · cases pp with
      | none => exact ⟨_, rfl⟩
      | some q =>
        simp only
        split <;> exact ⟨_, rfl⟩
    · exact cursorSearch_total h pp pa is (fun j hj => hi j (List.mem_cons_of_mem _ hj))

/-- `write_cursor_position_formatted` cannot fail on a live grid -/
theorem cursor_total {g : Grid} (h : Live W g) (pp : Option Pos) (pa : Option Attrs) :
    ∃ bs, g.writeCursorPositionFormatted pp pa = .ok bs := by
  unfold Grid.writeCursorPositionFormatted
  simp only
  split
  · obtain ⟨p, e, hp1, hp2⟩ := endOfRowPos_total h h.inv.pos_row
    obtain ⟨c, ec, hcf⟩ := h.cellM 415 (show p.row < g.size.rows by rw [hp1]; exact h.inv.pos_row) hp2
    simp only [e, ok_bind, ec, contentsBytes_ok hcf]
    split
    · exact ⟨_, rfl⟩
    · obtain ⟨found, ef⟩ := cursorSearch_total h pp (pa.getD Attrs.default) (List.range g.pos.row).reverse
        (fun i hi => by
          have := List.mem_range.mp (List.mem_reverse.mp hi)
          have := h.inv.pos_row; omega)
      simp only [ef, ok_bind]
      cases found with
      | some out => exact ⟨_, rfl⟩
      | none =>
        have hc := h.inv.cols_pos
        obtain ⟨c', ec', _⟩ := h.cellM 417 h.inv.pos_row (show g.size.cols - 1 < g.size.cols by omega)
        simp only [subM_ok hc, ok_bind, ec']
        exact ⟨_, rfl⟩
  · exact ⟨_, rfl⟩

theorem grid_contents_total {g : Grid} {un : Bool} (h : GridInv W g un) : ∃ bs, g.writeContents = .ok bs := by
  obtain ⟨v, e, hv⟩ := visibleRows_good h
  obtain ⟨bs, e2⟩ := writeContentsLoop_total g.size.cols v false [] hv
  simp only [Grid.writeContents, e, ok_bind, e2]
  exact ⟨_, rfl⟩

theorem grid_formatted_total {g : Grid} (h : Live W g) : ∃ res, g.writeContentsFormatted = .ok res := by
  obtain ⟨v, e, hv⟩ := visibleRows_good h.inv
  obtain ⟨⟨out, pp, pa⟩, e2⟩ := fmtRowsLoop_total g.size.cols v 0 false ⟨0, 0⟩ Attrs.default
    (Term.clearAttrs ++ Term.clearScreen) hv
  obtain ⟨cur, e3⟩ := cursor_total h (some pp) (some pa)
  simp only [Grid.writeContentsFormatted, e, ok_bind, e2, e3]
  exact ⟨_, rfl⟩

theorem grid_diff_total {g p : Grid} {un : Bool} (h : Live W g) (hp : GridInv W p un) (pa : Attrs) :
    ∃ res, g.writeContentsDiff p pa = .ok res := by
  obtain ⟨v, e, hv⟩ := visibleRows_good h.inv
  obtain ⟨pv, pe, hpv⟩ := visibleRows_good hp
  obtain ⟨⟨out, pp, pa'⟩, e2⟩ := diffRowsLoop_total (W := W) g.size.cols (v.zip pv) 0 false false p.pos pa []
    (fun q hq => ⟨hv _ (List.of_mem_zip hq).1, hpv _ (List.of_mem_zip hq).2⟩)
  obtain ⟨cur, e3⟩ := cursor_total h (some pp) (some pa')
  simp only [Grid.writeContentsDiff, e, pe, ok_bind, e2, e3]
  exact ⟨_, rfl⟩

end Vt.C03

/-! ### screens: every read accessor, every argument -/
namespace Vt.C03
open Vt
set_option linter.unusedSimpArgs false

variable {W : Nat → Option Nat}

theorem live_cur {s : Screen} (h : Inv W s) : Live W s.cur :=
  let h' := ((inv_iff W s).mp h).cur
  ⟨h'.1, h'.2⟩

/-- **C03** `contents()` returns normally -/
theorem contents_total {s : Screen} (h : Inv W s) : ∃ bs, s.contents = .ok bs :=
  grid_contents_total (live_cur h).inv

/-- **C03** `rows(start, width)` returns normally for all `start`, `width` -/
theorem rows_total {s : Screen} (h : Inv W s) (start width : Nat) : ∃ rs, s.rows start width = .ok rs := by
  obtain ⟨v, e, hv⟩ := visibleRows_good (live_cur h).inv
  obtain ⟨ys, e2⟩ := mapM_total (fun r : Row => r.writeContents start width false) v
    (fun r hr => row_writeContents_total r (rowFine_of_ok (hv r hr)) start width false)
  simp only [Screen.rows, e, ok_bind, e2]
  exact ⟨_, rfl⟩

theorem contentsBetweenLoop_total (cols sr sc er ec : Nat) : ∀ (l : List (Nat × Row)) (out : List Nat),
    (∀ p ∈ l, rowOk W p.2 = true) → ∃ bs, Screen.contentsBetweenLoop cols sr sc er ec l out = .ok bs
  | [], out, _ => ⟨out, rfl⟩
  | (i, row) :: rest, out, h => by
    have hf := rowFine_of_ok (h (i, row) (List.mem_cons_self ..))
    obtain ⟨b1, e1⟩ := row_writeContents_total row hf sc (cols - sc) false
    obtain ⟨b2, e2⟩ := row_writeContents_total row hf 0 ec false
    obtain ⟨b3, e3⟩ := row_writeContents_total row hf 0 cols false
    have hrest := fun p hp => h p (List.mem_cons_of_mem _ hp)
    unfold Screen.contentsBetweenLoop
    by_cases h1 : (i == sr) = true
    · simp only [h1, ↓reduceIte, e1, ok_bind, pure_bind']
      exact contentsBetweenLoop_total cols sr sc er ec rest _ hrest
    · by_cases h2 : (i == er) = true
      · simp only [h1, h2, Bool.false_eq_true, ↓reduceIte, e2, ok_bind, pure_bind']
        exact contentsBetweenLoop_total cols sr sc er ec rest _ hrest
      · simp only [h1, h2, Bool.false_eq_true, ↓reduceIte, e3, ok_bind, pure_bind']
        exact contentsBetweenLoop_total cols sr sc er ec rest _ hrest

/-- **C03** `contents_between(r1, c1, r2, c2)` returns normally for all four arguments -/
theorem contents_between_total {s : Screen} (h : Inv W s) (sr sc er ec : Nat) :
    ∃ bs, s.contentsBetween sr sc er ec = .ok bs := by
  unfold Screen.contentsBetween
  split
  · obtain ⟨v, e, hv⟩ := visibleRows_good (live_cur h).inv
    simp only [e, ok_bind]
    apply contentsBetweenLoop_total
    intro p hp
    exact hv _ (mem_window' hp)
  · split
    · split
      · obtain ⟨rs, e⟩ := rows_total h sc (ec - sc)
        simp only [e, ok_bind]; exact ⟨_, rfl⟩
      · exact ⟨_, rfl⟩
    · exact ⟨_, rfl⟩
where
  mem_window' {α} {l : List α} {start width : Nat} {p : Nat × α} (h : p ∈ Row.window l start width) :
      p.2 ∈ l := by
    unfold Row.window at h
    have h := List.mem_of_mem_drop (List.mem_of_mem_take h)
    simp only [List.mem_map] at h
    obtain ⟨q, hq, rfl⟩ := h
    exact (List.mem_zipIdx' hq).2 ▸ List.getElem_mem _

/-- **C03** `contents_formatted()` returns normally -/
theorem contents_formatted_total {s : Screen} (h : Inv W s) : ∃ bs, s.contentsFormatted = .ok bs := by
  obtain ⟨⟨bs, pa⟩, e⟩ := grid_formatted_total (live_cur h)
  simp only [Screen.contentsFormatted, Screen.writeContentsFormatted, e, ok_bind]
  exact ⟨_, rfl⟩

/-- **C03** `state_formatted()` returns normally -/
theorem state_formatted_total {s : Screen} (h : Inv W s) : ∃ bs, s.stateFormatted = .ok bs := by
  obtain ⟨bs, e⟩ := contents_formatted_total h
  simp only [Screen.contentsFormatted] at e
  simp only [Screen.stateFormatted, e, ok_bind]
  exact ⟨_, rfl⟩

/-- **C03** `cursor_state_formatted()` returns normally -/
theorem cursor_state_formatted_total {s : Screen} (h : Inv W s) : ∃ bs, s.cursorStateFormatted = .ok bs := by
  obtain ⟨bs, e⟩ := cursor_total (live_cur h) none none
  simp only [Screen.cursorStateFormatted, e, ok_bind]
  exact ⟨_, rfl⟩

theorem rowsFormattedLoop_total (fw : Bool) (start width : Nat) : ∀ (rs : List Row) (i : Nat) (w : Bool),
    (∀ r ∈ rs, rowOk W r = true) → (w = true → 1 ≤ i) →
    ∃ res, Screen.rowsFormattedLoop fw start width rs i w = .ok res
  | [], _, _, _, _ => ⟨[], rfl⟩
  | r :: rs, i, w, h, hw => by
    obtain ⟨⟨bs, np, na⟩, e⟩ := row_formatted_total r (rowFine_of_ok (h r (List.mem_cons_self ..))) start width i w
      none none (fun _ => hw)
    obtain ⟨rest, e2⟩ := rowsFormattedLoop_total fw start width rs (i + 1) (if fw then r.wrapped else w)
      (fun r' hr' => h r' (List.mem_cons_of_mem _ hr')) (fun _ => by omega)
    simp only [Screen.rowsFormattedLoop, e, ok_bind, e2]
    exact ⟨_, rfl⟩

/-- **C03** `rows_formatted(start, width)` returns normally for all `start`, `width` -/
theorem rows_formatted_total {s : Screen} (h : Inv W s) (start width : Nat) :
    ∃ rs, s.rowsFormatted start width = .ok rs := by
  obtain ⟨v, e, hv⟩ := visibleRows_good (live_cur h).inv
  simp only [Screen.rowsFormatted, e, ok_bind]
  exact rowsFormattedLoop_total _ start width v 0 false hv (fun hh => by simp at hh)

/-- **C03** `contents_diff(prev)` returns normally for every pair of `Inv` screens (of any sizes) -/
theorem contents_diff_total {s p : Screen} (h : Inv W s) (hp : Inv W p) : ∃ bs, s.contentsDiff p = .ok bs := by
  obtain ⟨⟨bs, pa⟩, e⟩ := grid_diff_total (live_cur h) (live_cur hp).inv p.attrs
  simp only [Screen.contentsDiff, Screen.writeContentsDiff, e, ok_bind]
  exact ⟨_, rfl⟩

/-- **C03** `state_diff(prev)` returns normally -/
theorem state_diff_total {s p : Screen} (h : Inv W s) (hp : Inv W p) : ∃ bs, s.stateDiff p = .ok bs := by
  obtain ⟨bs, e⟩ := contents_diff_total h hp
  simp only [Screen.contentsDiff] at e
  simp only [Screen.stateDiff, e, ok_bind]
  exact ⟨_, rfl⟩

theorem rowsDiffLoop_total (start width : Nat) : ∀ (rs : List (Row × Row)) (i : Nat),
    (∀ p ∈ rs, rowOk W p.1 = true ∧ rowOk W p.2 = true) → ∃ res, Screen.rowsDiffLoop start width rs i = .ok res
  | [], _, _ => ⟨[], rfl⟩
  | (r, p) :: rs, i, h => by
    have hrp := h (r, p) (List.mem_cons_self ..)
    obtain ⟨⟨bs, np, na⟩, e⟩ := row_diff_total r p hrp.1 (rowFine_of_ok hrp.2) start width i false false
      ⟨i, start⟩ Attrs.default
    obtain ⟨rest, e2⟩ := rowsDiffLoop_total start width rs (i + 1) (fun r' hr' => h r' (List.mem_cons_of_mem _ hr'))
    simp only [Screen.rowsDiffLoop, e, ok_bind, e2]
    exact ⟨_, rfl⟩

/-- **C03** `rows_diff(prev, start, width)` returns normally for all `start`, `width` -/
theorem rows_diff_total {s p : Screen} (h : Inv W s) (hp : Inv W p) (start width : Nat) :
    ∃ rs, s.rowsDiff p start width = .ok rs := by
  obtain ⟨v, e, hv⟩ := visibleRows_good (live_cur h).inv
  obtain ⟨pv, pe, hpv⟩ := visibleRows_good (live_cur hp).inv
  simp only [Screen.rowsDiff, e, pe, ok_bind]
  exact rowsDiffLoop_total start width _ 0
    (fun q hq => ⟨hv _ (List.of_mem_zip hq).1, hpv _ (List.of_mem_zip hq).2⟩)

/-- **C03** `cell(row, col)` and `row_wrapped(row)` return normally for all arguments -/
theorem cell_rowWrapped_total {s : Screen} (h : Inv W s) (row col : Nat) :
    (∃ c, s.cell row col = .ok c) ∧ ∃ b, s.rowWrapped row = .ok b := by
  obtain ⟨v, e, _⟩ := visibleRows_good (live_cur h).inv
  simp only [Screen.cell, Screen.rowWrapped, Grid.visibleCell, Grid.visibleRow, e, ok_bind]
  exact ⟨⟨_, rfl⟩, ⟨_, rfl⟩⟩

/-- **C03, accessor half** after any history from `Parser::new` every read accessor returns normally, for
all argument values.  (`reachable_inv` gives `Inv`; this bundles the accessor theorems.) -/
theorem accessors_total {s p : Screen} (h : Inv W s) (hp : Inv W p) :
    (∃ bs, s.contents = .ok bs) ∧ (∀ a b, ∃ rs, s.rows a b = .ok rs) ∧
    (∀ a b c d, ∃ bs, s.contentsBetween a b c d = .ok bs) ∧
    (∃ bs, s.contentsFormatted = .ok bs) ∧ (∃ bs, s.stateFormatted = .ok bs) ∧
    (∃ bs, s.cursorStateFormatted = .ok bs) ∧ (∀ a b, ∃ rs, s.rowsFormatted a b = .ok rs) ∧
    (∃ bs, s.contentsDiff p = .ok bs) ∧ (∃ bs, s.stateDiff p = .ok bs) ∧
    (∀ a b, ∃ rs, s.rowsDiff p a b = .ok rs) ∧
    (∀ r c, (∃ x, s.cell r c = .ok x) ∧ ∃ b, s.rowWrapped r = .ok b) :=
  ⟨contents_total h, rows_total h, contents_between_total h, contents_formatted_total h,
    state_formatted_total h, cursor_state_formatted_total h, rows_formatted_total h,
    contents_diff_total h hp, state_diff_total h hp, rows_diff_total h hp, cell_rowWrapped_total h⟩

end Vt.C03

namespace Vt.C03
open Vt Vt.C13

/-- **C03** (process + accessors): after any two histories of `process` / `set_size` / `set_scrollback`
calls from `Parser::new` (sizes 1..65535, any byte strings in any chunking, any scrollback value, any
callback policy that keeps `Inv`), nothing failed on the way and every read accessor of the one screen —
including the diffs against the other — returns normally for all argument values. -/
theorem reachable_accessors_total {W : Nat → Option Nat} (hW32 : W 32 = some 1) {cb : CbPolicy} (hcb : CbInv W cb)
    (rows cols sb rows' cols' sb' : Nat)
    (hr : 1 ≤ rows ∧ rows ≤ 65535) (hc : 1 ≤ cols ∧ cols ≤ 65535)
    (hr' : 1 ≤ rows' ∧ rows' ≤ 65535) (hc' : 1 ≤ cols' ∧ cols' ≤ 65535)
    (ops ops' : List Op) (hv : ∀ op ∈ ops, op.Valid) (hv' : ∀ op ∈ ops', op.Valid) :
    ∃ p q, (Parser.new rows cols sb >>= fun p0 => ops.foldlM (applyOp W cb) p0) = .ok p ∧
      (Parser.new rows' cols' sb' >>= fun p0 => ops'.foldlM (applyOp W cb) p0) = .ok q ∧
      (∃ bs, p.screen.contents = .ok bs) ∧ (∀ a b, ∃ rs, p.screen.rows a b = .ok rs) ∧
      (∀ a b c d, ∃ bs, p.screen.contentsBetween a b c d = .ok bs) ∧
      (∃ bs, p.screen.contentsFormatted = .ok bs) ∧ (∃ bs, p.screen.stateFormatted = .ok bs) ∧
      (∃ bs, p.screen.cursorStateFormatted = .ok bs) ∧ (∀ a b, ∃ rs, p.screen.rowsFormatted a b = .ok rs) ∧
      (∃ bs, p.screen.contentsDiff q.screen = .ok bs) ∧ (∃ bs, p.screen.stateDiff q.screen = .ok bs) ∧
      (∀ a b, ∃ rs, p.screen.rowsDiff q.screen a b = .ok rs) ∧
      (∀ r c, (∃ x, p.screen.cell r c = .ok x) ∧ ∃ b, p.screen.rowWrapped r = .ok b) := by
  obtain ⟨p, e, i⟩ := reachable_inv hW32 hcb rows cols sb hr.1 hc.1 hr.2 hc.2 ops hv
  obtain ⟨q, e', i'⟩ := reachable_inv hW32 hcb rows' cols' sb' hr'.1 hc'.1 hr'.2 hc'.2 ops' hv'
  exact ⟨p, q, e, e', accessors_total ((inv_iff W _).mpr i.screen) ((inv_iff W _).mpr i'.screen)⟩

end Vt.C03
