/-
  Vt.Props.C01view — C01 for a view that IS scrolled back (offset > 0), with the cursor inside its line.

  `state_formatted()` of a scrolled screen `S` draws the visible rows — the last `k` history lines and the first
  `rows - k` live lines.  The emitter never looks at the wrap flag of the last visible row (`fmtRowsLoop_unflag`),
  and with the cursor inside its line it reads nothing else of the grid but its size and cursor, so its bytes are
  those of a surrogate screen that is NOT scrolled back and whose live rows are the visible rows with the last
  flag cleared (`contents_surrogate`).  The offset-0 theorem then applies to the surrogate: the receiver shows the
  visible rows of `S`, every wrap flag but the bottom one — exactly the exemption the property makes (`obsEq true`).

  Hypotheses beyond `Inv` / the per-cell and wrap-flag conditions: every visible row is `cols` wide (false after a
  `set_size` that changed the width while lines were in the scrollback: finding F12) and the cursor is not in
  the pending-wrap column (finding F9).
-/
import Vt.Props.Reach
namespace Vt.C01
open Vt Vt.Recv Vt.C19 Vt.C09 Vt.RowDraw Vt.GridDraw Vt.Tok Vt.C03 Vt.C13 Vt.InvX Vt.InvF
set_option linter.unusedSimpArgs false
set_option linter.unusedVariables false

variable {W : Nat → Option Nat} {cb : CbPolicy}

/-- the rows with the wrap flag of the last one cleared -/
def unflagLast : List Row → List Row
  | [] => []
  | [r] => [r.wrap false]
  | r :: r2 :: rs => r :: unflagLast (r2 :: rs)

theorem unflagLast_length : ∀ (l : List Row), (unflagLast l).length = l.length
  | [] => rfl
  | [_] => rfl
  | _ :: r2 :: rs => by simp [unflagLast, unflagLast_length (r2 :: rs)]

theorem unflagLast_cells : ∀ (l : List Row), (unflagLast l).map (·.cells) = l.map (·.cells)
  | [] => rfl
  | [_] => rfl
  | r :: r2 :: rs => by simp only [unflagLast, List.map_cons, unflagLast_cells (r2 :: rs)]

theorem unflagLast_mem : ∀ (l : List Row) (r' : Row), r' ∈ unflagLast l →
    ∃ r ∈ l, r'.cells = r.cells ∧ (r'.wrapped = true → r.wrapped = true)
  | [], r', h => by simp [unflagLast] at h
  | [r], r', h => by
    simp only [unflagLast, List.mem_singleton] at h
    exact ⟨r, List.mem_singleton.mpr rfl, by rw [h]; rfl, fun hw => by rw [h] at hw; simp [Row.wrap] at hw⟩
  | r :: r2 :: rs, r', h => by
    simp only [unflagLast, List.mem_cons] at h
    rcases h with rfl | h
    · exact ⟨r', List.mem_cons_self .., rfl, id⟩
    · obtain ⟨x, hx, h1, h2⟩ := unflagLast_mem (r2 :: rs) r' (by simpa [unflagLast] using h)
      exact ⟨x, List.mem_cons_of_mem _ hx, h1, h2⟩

theorem unflagLast_last : ∀ (l : List Row) (r : Row), (unflagLast l).getLast? = some r → r.wrapped = false
  | [], r, h => by simp [unflagLast] at h
  | [x], r, h => by
    simp only [unflagLast, List.getLast?_singleton, Option.some.injEq] at h
    rw [← h]; rfl
  | x :: r2 :: rs, r, h => by
    have hne : unflagLast (r2 :: rs) ≠ [] := by
      intro he
      have := congrArg List.length he
      rw [unflagLast_length] at this; simp at this
    simp only [unflagLast] at h
    rw [List.getLast?_cons_of_ne_nil hne] at h
    exact unflagLast_last (r2 :: rs) r h

theorem unflagLast_wrapped : ∀ (l : List Row), ((unflagLast l).map (·.wrapped)).dropLast = (l.map (·.wrapped)).dropLast
  | [] => rfl
  | [_] => rfl
  | r :: r2 :: rs => by
    have ih := unflagLast_wrapped (r2 :: rs)
    have hne : (unflagLast (r2 :: rs)).map (·.wrapped) ≠ [] := by
      intro he
      have := congrArg List.length he
      rw [List.length_map, unflagLast_length] at this; simp at this
    simp only [unflagLast, List.map_cons] at ih ⊢
    rw [List.dropLast_cons_of_ne_nil hne, List.dropLast_cons_of_ne_nil (by simp), ih]

/-- the loop over the lines never reads the wrap flag of the last line -/
theorem fmtRowsLoop_unflag (cols : Nat) : ∀ (rs : List Row) (i : Nat) (w : Bool) (pp : Pos) (pa : Attrs) (out : List Nat),
    Grid.fmtRowsLoop cols (unflagLast rs) i w pp pa out = Grid.fmtRowsLoop cols rs i w pp pa out
  | [], _, _, _, _, _ => rfl
  | [r], i, w, pp, pa, out => by
    simp only [unflagLast, Grid.fmtRowsLoop]
    rfl
  | r :: r2 :: rs, i, w, pp, pa, out => by
    simp only [unflagLast, Grid.fmtRowsLoop]
    cases r.writeContentsFormatted 0 cols i w (some pp) (some pa) with
    | error e => rfl
    | ok p =>
      simp only [ok_bind]
      exact fmtRowsLoop_unflag cols (r2 :: rs) _ _ _ _ _

/-- the surrogate of a scrolled grid: not scrolled back, its live rows are the visible rows with the last wrap
flag cleared -/
def surrogate (g : Grid) (vis : List Row) : Grid :=
  { g with
    rows := unflagLast vis
    scrollbackOffset := 0 }

/-- with the cursor inside its line the grid emitter produces the same bytes for the surrogate -/
theorem grid_surrogate {g : Grid} {vis : List Row} (hvis : g.visibleRows = .ok vis) (hcol : g.pos.col < g.size.cols) :
    g.writeContentsFormatted = (surrogate g vis).writeContentsFormatted := by
  have hv2 : (surrogate g vis).visibleRows = .ok (unflagLast vis) := C19.visibleRows_offset0 _ rfl
  have hcond : ∀ pp : Pos, (some pp != some g.pos && decide (g.pos.col ≥ g.size.cols)) = false := by
    intro pp
    have : ¬ g.pos.col ≥ g.size.cols := by omega
    simp [this]
  simp only [Grid.writeContentsFormatted, hvis, hv2, ok_bind]
  have hsz : (surrogate g vis).size = g.size := rfl
  rw [hsz, fmtRowsLoop_unflag]
  cases Grid.fmtRowsLoop g.size.cols vis 0 false ⟨0, 0⟩ Attrs.default (Term.clearAttrs ++ Term.clearScreen) with
  | error e => rfl
  | ok p =>
    obtain ⟨out, pp, pa⟩ := p
    simp only [ok_bind]
    have h1 : g.writeCursorPositionFormatted (some pp) (some pa) = .ok (Term.moveFromTo pp g.pos) := by
      simp only [Grid.writeCursorPositionFormatted, hcond, Bool.false_eq_true, ↓reduceIte, Grid.moveOpt, pure_eq_ok]
    have h2 : (surrogate g vis).writeCursorPositionFormatted (some pp) (some pa) = .ok (Term.moveFromTo pp g.pos) := by
      have hc2 : (some pp != some (surrogate g vis).pos && decide ((surrogate g vis).pos.col ≥ (surrogate g vis).size.cols)) = false :=
        hcond pp
      simp only [Grid.writeCursorPositionFormatted, hc2, Bool.false_eq_true, ↓reduceIte, Grid.moveOpt, pure_eq_ok]
      rfl
    rw [h1, h2]

/-- the surrogate screen -/
def surrogateScreen (S : Screen) (vis : List Row) : Screen := S.setCur (surrogate S.cur vis)

theorem surrogate_cur (S : Screen) (vis : List Row) : (surrogateScreen S vis).cur = surrogate S.cur vis :=
  setCur_cur S _

theorem state_surrogate {S : Screen} {vis : List Row} (hvis : S.cur.visibleRows = .ok vis)
    (hcol : S.cur.pos.col < S.cur.size.cols) : S.stateFormatted = (surrogateScreen S vis).stateFormatted := by
  have hg := grid_surrogate hvis hcol
  have ha : (surrogateScreen S vis).attrs = S.attrs := by
    unfold surrogateScreen Screen.setCur; split <;> rfl
  have hh : (surrogateScreen S vis).hideCursor = S.hideCursor := by
    unfold surrogateScreen Screen.setCur; split <;> rfl
  have hm : (surrogateScreen S vis).writeInputModeFormatted = S.writeInputModeFormatted := by
    unfold surrogateScreen Screen.setCur Screen.writeInputModeFormatted; split <;> rfl
  simp only [Screen.stateFormatted, Screen.writeContentsFormatted, surrogate_cur, ← hg, ha, hh, hm]

/-- the surrogate is a valid source for the offset-0 theorem -/
theorem srcScreen_surrogate {S : Screen} (hi : ScreenInv W S) (hx : ScreenX S) (hf : ScreenF S) {vis : List Row}
    (hvis : S.cur.visibleRows = .ok vis) (hwid : ∀ r ∈ vis, r.cells.length = S.cur.size.cols)
    (hcol : S.cur.pos.col < S.cur.size.cols) : SrcScreen W (surrogateScreen S vis) := by
  obtain ⟨hcg, hal⟩ := hi.cur
  have hspec := C12.visibleRows_spec S.cur hcg.sb_off
  rw [hvis] at hspec
  have hvis_eq := Except.ok.inj hspec
  have hmem : ∀ r ∈ vis, r ∈ S.cur.rows ∨ r ∈ S.cur.scrollback := by
    intro r hr
    rw [hvis_eq] at hr
    rcases List.mem_append.mp hr with hr | hr
    · exact Or.inr (List.mem_of_mem_drop (List.mem_of_mem_take hr))
    · exact Or.inl (List.mem_of_mem_take hr)
  have hvlen : vis.length = S.cur.rows.length := by
    obtain ⟨rs, e, hl⟩ := C12.visibleRows_length S.cur hcg.sb_off
    rw [hvis] at e
    rw [Except.ok.inj e]; exact hl
  have hrok : ∀ r ∈ vis, rowOk W r = true := by
    intro r hr
    rcases hmem r hr with h | h
    · exact (hcg.row_ok r h).2
    · exact hcg.sb_ok r h
  have hxr : ∀ r ∈ vis, AllX r.cells := by
    intro r hr
    rcases hmem r hr with h | h
    · exact hx.cur.1 r h
    · exact hx.cur.2 r h
  have hfr : ∀ r ∈ vis, RF r := by
    intro r hr
    rcases hmem r hr with h | h
    · exact hf.cur.1.1 r h
    · exact hf.cur.1.2 r h
  have hcur := surrogate_cur S vis
  refine ⟨by rw [hcur]; rfl, ?_, by rw [hcur]; show (unflagLast vis).length = S.cur.size.rows; rw [unflagLast_length, hvlen, hal],
    by rw [hcur]; exact hcg.pos_row, by rw [hcur]; exact hcg.pos_col, attrs_wf_of_ok (by
      have : (surrogateScreen S vis).attrs = S.attrs := by unfold surrogateScreen Screen.setCur; split <;> rfl
      rw [this]; exact hx.pen)⟩
  rw [hcur]
  show SrcRows W S.cur.size.cols (unflagLast vis)
  refine ⟨?_, ?_, ?_, fun r hr => unflagLast_last vis r hr⟩
  · intro r' hr'
    obtain ⟨r, hr, hc, _⟩ := unflagLast_mem vis r' hr'
    rw [hc]; exact hwid r hr
  · intro r' hr'
    obtain ⟨r, hr, hc, _⟩ := unflagLast_mem vis r' hr'
    rw [hc]
    exact srcOk_of (hrok r hr) (hwid r hr) (InvAll.rowEmitOk_of (hrok r hr) (hwid r hr) (hxr r hr))
      (InvAll.rowPlusOk_of (hxr r hr) (hfr r hr))
  · intro r' hr' hw
    obtain ⟨r, hr, hc, hww⟩ := unflagLast_mem vis r' hr'
    rw [hc]
    exact lastOcc_of (InvAll.rowPlusOk_of (hxr r hr) (hfr r hr)) (hww hw)

/-- what `obs` computes for a screen whose visible rows are `vis` -/
def obsOfVis (S : Screen) (vis : List Row) : Obs :=
  { size := S.cur.size
    cells := vis.map (fun r => r.cells.map cellObs)
    wrapped := vis.map (fun r => r.wrapped)
    cursor := S.cur.pos
    hide := S.hideCursor
    pen := S.attrs
    modes := (S.appKeypad, S.appCursor, S.bracketedPaste, S.mouseMode, S.mouseEnc) }

theorem obs_of_vis {S : Screen} {vis : List Row} (hvis : S.cur.visibleRows = .ok vis) : obs S = .ok (obsOfVis S vis) := by
  simp only [obs, hvis, ok_bind, pure_eq_ok, obsOfVis]

/-- **C01 for a scrolled view** (cursor inside its line, visible rows of the current width): the bytes of
`S.state_formatted()` processed by a new parser of the same size give the observable state of `S` — the visible
cells, flags, colours, every wrap flag but the bottom visible row's, cursor, visibility, pen, input modes
(`obsEq true`) — and report no event -/
theorem full_redraw_scrolled (hW : WOk W) (S : Screen) (hi : ScreenInv W S) (hx : ScreenX S) (hf : ScreenF S)
    {vis : List Row} (hvis : S.cur.visibleRows = .ok vis) (hwid : ∀ r ∈ vis, r.cells.length = S.cur.size.cols)
    (hcol : S.cur.pos.col < S.cur.size.cols) (sb : Nat) :
    ∃ q bytes q' o1 o2, Parser.new S.cur.size.rows S.cur.size.cols sb = .ok q ∧ S.stateFormatted = .ok bytes ∧
      q.process W cb bytes = .ok q' ∧ obs q'.screen = .ok o1 ∧ obs S = .ok o2 ∧ obsEq true o1 o2 = true ∧
      q'.ws.events = [] := by
  have hS := srcScreen_surrogate hi hx hf hvis hwid hcol
  obtain ⟨hcg, _⟩ := hi.cur
  have hcur := surrogate_cur S vis
  obtain ⟨q, enew, hq, hqoff, hqsz, hm, he⟩ := new_recvOk W S.cur.size.rows S.cur.size.cols sb hcg.rows_pos hcg.cols_pos
    hcg.rows_u16 hcg.cols_u16
  obtain ⟨bytes, q', eb, ep, _, hsh, hmodes, hev, _⟩ := state_formatted_reproduces (cb := cb) hW hq hqoff hm he
    (surrogateScreen S vis) hS (by rw [hcur, hqsz]; rfl)
  have hmodesS : C10.inputModes (surrogateScreen S vis) = C10.inputModes S := by
    unfold surrogateScreen Screen.setCur C10.inputModes; split <;> rfl
  have hhide : (surrogateScreen S vis).hideCursor = S.hideCursor := by
    unfold surrogateScreen Screen.setCur; split <;> rfl
  have hattrs : (surrogateScreen S vis).attrs = S.attrs := by
    unfold surrogateScreen Screen.setCur; split <;> rfl
  refine ⟨q, bytes, q', _, obsOfVis S vis, enew, by rw [state_surrogate hvis hcol]; exact eb, ep,
    obs_offset0 q'.screen hsh.off, obs_of_vis hvis, ?_, ?_⟩
  · rw [hmodesS] at hmodes
    simp only [C10.inputModes, C10.InputModes.mk.injEq] at hmodes
    obtain ⟨m1, m2, m3, m4, m5⟩ := hmodes
    simp only [obsEq, obsOfVis, Bool.and_eq_true, beq_iff_eq, ↓reduceIte]
    refine ⟨⟨⟨⟨⟨⟨?_, ?_⟩, ?_⟩, ?_⟩, ?_⟩, ?_⟩, ?_, ?_⟩
    · rw [hsh.size, hcur]; rfl
    · rw [hsh.cells, hcur]
      show (unflagLast vis).map (fun r => r.cells.map cellObs) = vis.map (fun r => r.cells.map cellObs)
      have := congrArg (List.map (fun cs : List Cell => cs.map cellObs)) (unflagLast_cells vis)
      rw [List.map_map, List.map_map] at this
      exact this
    · rw [hsh.cursor, hcur]; rfl
    · rw [hsh.hide, hhide]
    · rw [hsh.pen, hattrs]
    · simp only [Prod.mk.injEq]; exact ⟨m1, m2, m3, m4, m5⟩
    · rw [hsh.wrapped, hcur]
      exact unflagLast_wrapped vis
    · rw [hsh.wrapped, hcur]
      show ((unflagLast vis).map (·.wrapped)).length = (vis.map (·.wrapped)).length
      simp [unflagLast_length]
  · rw [hev]
    simp only [Parser.new, C13.new_eq _ _ _ hcg.rows_pos, ok_bind, pure_eq_ok, Except.ok.injEq] at enew
    rw [← enew]

/-- **C01 for every reachable screen, scrolled back or not** (cursor inside its line; visible rows of the
current width): any history of `process` / `set_size` / `set_scrollback` from `Parser::new`.  `obsEq true` exempts
the wrap flag of the bottom visible row; for a view that is not scrolled back `full_redraw_reachable` gives plain
equality (and every cursor position) -/
theorem full_redraw_reachable_view (hW : WOk W) {cbS cbR : CbPolicy}
    (hcb : CbInv W cbS) (hcx : CbX W cbS) (hcf : CbF W cbS)
    (rows cols sb : Nat) (hr : 1 ≤ rows) (hc : 1 ≤ cols) (hr' : rows ≤ 65535) (hc' : cols ≤ 65535)
    (ops : List Op) (hv : ∀ op ∈ ops, op.Valid) (sbR : Nat) :
    ∃ p vis, (Parser.new rows cols sb >>= fun p0 => ops.foldlM (applyOp W cbS) p0) = .ok p ∧
      p.ws.screen.cur.visibleRows = .ok vis ∧
      ((∀ r ∈ vis, r.cells.length = p.ws.screen.cur.size.cols) →
        p.ws.screen.cur.pos.col < p.ws.screen.cur.size.cols →
        ∃ q bytes q' o1 o2, Parser.new p.ws.screen.cur.size.rows p.ws.screen.cur.size.cols sbR = .ok q ∧
          p.ws.screen.stateFormatted = .ok bytes ∧ q.process W cbR bytes = .ok q' ∧
          obs q'.screen = .ok o1 ∧ obs p.ws.screen = .ok o2 ∧ obsEq true o1 o2 = true ∧ q'.ws.events = []) := by
  obtain ⟨p, e, hi, hx⟩ := reachable_x hW.space hcb hcx rows cols sb hr hc hr' hc' ops hv
  obtain ⟨p', e', _, hf⟩ := reachable_f hW.space hcb hcf rows cols sb hr hc hr' hc' ops hv
  have : p' = p := by rw [e] at e'; exact (Except.ok.inj e').symm
  subst this
  obtain ⟨hcg, _⟩ := hi.screen.cur
  obtain ⟨vis, hvis, _⟩ := C12.visibleRows_length p'.ws.screen.cur hcg.sb_off
  exact ⟨p', vis, e, hvis, fun hwid hcol =>
    full_redraw_scrolled (cb := cbR) hW p'.ws.screen hi.screen hx hf hvis hwid hcol sbR⟩

/-- the hypotheses of the scrolled-view theorem are satisfiable: "a" CR LF "b" CR LF "c" on a 2x3 screen with a
history of 5 lines, `set_scrollback(1)`: the view shows the history line "a" and the live line "b"; every visible
row is 3 wide, the cursor is inside its line (kernel-evaluated; a test) -/
theorem full_redraw_scrolled_nonvacuous :
    isOkTrue (do
      let p0 ← Parser.new 2 3 5
      let p1 ← p0.process W0 cbNone [97, 13, 10, 98, 13, 10, 99]
      let s ← p1.ws.screen.setScrollback 1
      let vis ← s.cur.visibleRows
      pure (decide (s.cur.scrollbackOffset > 0) && vis.all (fun r => r.cells.length == s.cur.size.cols) &&
            decide (s.cur.pos.col < s.cur.size.cols) && vis.length == 2)) = true := by
  decide +kernel

end Vt.C01
