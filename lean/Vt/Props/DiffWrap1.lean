/-
  Vt.Props.DiffWrap1 — C02 (screen diffs) for CHANGED lines that are soft-wrapped, part 1: one line of a diff with
  `wrapping = false` (the line above is not wrapped in S), the line itself wrapped in P and/or in S — the receiving
  line's WRAP FLAG tracked through the cell loop and through `diffEnd`.

  `C15wrap` proves that the CELLS of the receiving line end up right for arbitrary wrap flags; it says nothing about
  the receiving line's wrap flag, nor about where the cursor ends.  Here the simulation is re-run with the invariant
  `MidF` = `C15wrap.Mid'` + a statement about the flag (`FlagSpec`: the flag is known to be off and stays off / is
  known to be on and stays on / is not tracked):

    * the flag is never SET by what a diff writes on the line itself (ECH, EL, typing inside the line) — mode `off`;
    * the flag is CLEARED by an erase that reaches the last column, by an erase that reaches column `cols-2` when it
      holds a wide character, and by a wide character typed at `cols-3` over a wide character at `cols-2` (the two
      F8b patterns).  When P's line and S's line are both wrapped nothing repairs that, so the side condition
      `noF8b S P` (decidable, on the pair of rows: if P holds a wide character at `cols-2`, S holds text there)
      together with `lastOcc S` (a wrapped line has its last column occupied: `Inv⁺`) excludes exactly the
      situations in which one of those three things is emitted — mode `on`.

  Headline: `row_diff_draws_flags` (one line, `wrapping = false`, all four combinations of the two wrap flags).
-/
import Vt.Props.C15wrap
import Vt.Props.DiffGrid2
namespace Vt.C02
open Vt Vt.Recv Vt.C19 Vt.C09 Vt.RowDraw Vt.C03 Vt.Bytes Vt.DiffRow Vt.C15wrap
set_option linter.unusedSimpArgs false
set_option linter.unusedVariables false

variable {W : Nat → Option Nat} {cb : CbPolicy}

/-! ### the side condition that excludes F8b -/

/-- **no F8b pattern** on a pair of lines (`S` current, `P` previous): if `P` holds a wide character in column
`cols-2` (the last place a wide character fits), `S` holds text in that column.  Otherwise `S` has there a blank
(the diff writes an ECH over the wide character) or the second half of a wide character at `cols-3` (the diff types it
over the wide character); both make the receiver clear the line's wrap flag. -/
def noF8b (S P : List Cell) : Bool :=
  match S.length with
  | n + 2 => !(C05.flagAt P n (·.wide)) || C05.flagAt S n (·.hasContents)
  | _ => true

/-- what is asked of a pair of lines that are BOTH wrapped so that the receiver's wrap flag survives the diff -/
structure Keep (S P : List Cell) : Prop where
  occ : lastOcc S
  nof : noF8b S P = true

theorem Keep.wide {S P : List Cell} (h : Keep S P) (c : Nat) (hc : c + 2 = S.length) (hcP : c < P.length)
    (hw : P[c].wide = true) : ∃ hcS : c < S.length, S[c].hasContents = true := by
  have hcS : c < S.length := by omega
  refine ⟨hcS, ?_⟩
  have := h.nof
  unfold noF8b at this
  rw [← hc] at this
  simp only [C05.flagAt, List.getElem?_eq_getElem hcP, List.getElem?_eq_getElem hcS, Option.map_some, Option.getD_some, hw,
    Bool.not_true, Bool.false_or] at this
  exact this

/-- how the receiving line's wrap flag is tracked: `none` = not at all, `some false` = it is off and stays off,
`some true` = it is on and stays on (which needs `Keep`) -/
structure FlagSpec (S P : List Cell) where
  mode : Option Bool
  keep : mode = some true → Keep S P

def FlagSpec.any (S P : List Cell) : FlagSpec S P := ⟨none, fun h => by simp at h⟩
def FlagSpec.off (S P : List Cell) : FlagSpec S P := ⟨some false, fun h => by simp at h⟩
def FlagSpec.on {S P : List Cell} (h : Keep S P) : FlagSpec S P := ⟨some true, fun _ => h⟩

/-- the receiving line in the middle of a diff, wrap flag included -/
structure MidF {S P : List Cell} (F : FlagSpec S P) (e : Nat) (Ri : Row) : Prop where
  mid : Mid' S P e Ri
  flag : ∀ b, F.mode = some b → Ri.wrapped = b

theorem MidF.len {S P : List Cell} {F : FlagSpec S P} {e : Nat} {Ri : Row} (h : MidF F e Ri) : Ri.cells.length = S.length :=
  h.mid.len

theorem MidF.skip1 {S P : List Cell} {F : FlagSpec S P} {j : Nat} {Ri : Row} (h : MidF F j Ri) (hj : j < S.length)
    (hv : view S[j] = view (P[j]'(by rw [h.mid.plen]; exact hj))) : MidF F (j + 1) Ri :=
  ⟨h.mid.skip1 hj hv, h.flag⟩

theorem MidF.skip2 {S P : List Cell} {F : FlagSpec S P} (hS : SrcOk W S) (hP : SrcOk W P) {j : Nat} {Ri : Row}
    (h : MidF F j Ri) (hj : j < S.length) (hv : view S[j] = view (P[j]'(by rw [h.mid.plen]; exact hj)))
    (hw : S[j].wide = true) : MidF F (j + 2) Ri :=
  ⟨h.mid.skip2 hS hP hj hv hw, h.flag⟩

theorem blankA_no_occ {c : Cell} {a : Attrs} (h : view c = blankA a) : c.hasContents = false ∧ c.cont = false := by
  simp only [view, blankA, View.mk.injEq] at h
  exact ⟨by simp [Cell.hasContents, h.1], h.2.2.1⟩

/-- an erase run of the current line never reaches the columns whose erasure clears the wrap flag, under `Keep` -/
theorem flag_kept_erase {S P : List Cell} (hk : Keep S P) {e j : Nat} {Ri : Row} (h : Mid' S P e Ri)
    (hej : e < j) (hjl : j ≤ S.length) (a : Attrs)
    (hrun : ∀ k (hk : k < S.length), e ≤ k → k < j → view S[k] = blankA a) :
    C07.flagCleared Ri.cells e j = false := by
  obtain ⟨hne, hocc⟩ := hk.occ
  unfold C07.flagCleared
  have h1 : (j == Ri.cells.length) = false := by
    rw [beq_eq_false_iff_ne, h.len]
    intro hjl'
    subst hjl'
    have := blankA_no_occ (hrun (S.length - 1) (by omega) (by omega) (by omega))
    rcases hocc with ho | ho
    · rw [this.1] at ho; exact absurd ho (by simp)
    · rw [this.2] at ho; exact absurd ho (by simp)
  have h2 : (j + 1 == Ri.cells.length && ((Ri.cells[j - 1]?).map (·.wide)).getD false) = false := by
    by_cases hj1 : j + 1 = Ri.cells.length
    · have hjS : j - 1 < S.length := by omega
      have hjR : j - 1 < Ri.cells.length := by omega
      rw [List.getElem?_eq_getElem hjR]
      simp only [Option.map_some, Option.getD_some, Bool.and_eq_false_imp]
      intro _
      cases hw : Ri.cells[j - 1].wide
      · rfl
      · exfalso
        have hl := h.len
        have hpw : (P[j - 1]'(by rw [h.plen]; exact hjS)).wide = true := by
          by_cases he : e = j - 1
          · subst he
            rcases h.mid hjS with hm | ⟨_, _, hm, _⟩
            · rw [← view_wide hm]; exact hw
            · rw [hw] at hm; exact absurd hm (by simp)
          · rw [← view_wide (h.hi (j - 1) hjS (by omega))]; exact hw
        obtain ⟨_, hh⟩ := hk.wide (j - 1) (by omega) (by rw [h.plen]; exact hjS) hpw
        have := blankA_no_occ (hrun (j - 1) hjS (by omega) (by omega))
        rw [this.1] at hh; exact absurd hh (by simp)
    · have : (j + 1 == Ri.cells.length) = false := by rw [beq_eq_false_iff_ne]; exact hj1
      rw [this]; rfl
  rw [h1, h2]; simp

/-- erasing `[e, j)` where the current line has blanks with the pen's attributes -/
theorem MidF.erase {S P : List Cell} {F : FlagSpec S P} (hS : SrcOk W S) (hP : SrcOk W P) {e j : Nat} {Ri : Row}
    (h : MidF F e Ri) (hej : e < j) (hjl : j ≤ S.length) (a : Attrs)
    (hrun : ∀ k (hk : k < S.length), e ≤ k → k < j → view S[k] = blankA a) :
    MidF F j (C07.erasedRow Ri.cells Ri.wrapped e j a) := by
  refine ⟨h.mid.erase hS hP hej hjl a hrun, ?_⟩
  intro b hb
  simp only [C07.erasedRow]
  cases b with
  | false => rw [h.flag false hb]; split <;> rfl
  | true =>
    rw [flag_kept_erase (F.keep hb) h.mid hej hjl a hrun, h.flag true hb]
    simp

theorem typedRow_wrapped (r : Row) (col cols : Nat) (a : Attrs) (f : Nat) (cellF : Cell) :
    (typedRow W r col cols a f cellF).wrapped =
      if decide (C05.effWidth W f > 1) = true ∧ C05.flagAt r.cells col (·.wide) = false ∧
          C05.flagAt r.cells (col + 1) (·.wide) = true ∧ col + 3 = cols then false else r.wrapped := rfl

/-- a narrow cell of the current line typed at column `j` -/
theorem MidF.typed1 {S P : List Cell} {F : FlagSpec S P} (hW32 : W 32 = some 1) (hS : SrcOk W S) (hP : WideNext P) {j : Nat}
    {Ri : Row} (h : MidF F j Ri) (hci : CellsInv W Ri.cells) (hj : j < S.length) (hsc : S[j].cont = false)
    (hsw : S[j].wide = false) (cols : Nat) (a : Attrs) (f : Nat) (hw : C05.effWidth W f = 1) (cellF : Cell)
    (hvF : view cellF = view S[j]) : MidF F (j + 1) (typedRow W Ri j cols a f cellF) := by
  refine ⟨h.mid.typed1 hW32 hS hP hci hj hsc hsw cols a f hw cellF hvF, ?_⟩
  intro b hb
  rw [typedRow_wrapped, hw]
  simp only [show ¬ (1 > 1) by omega, decide_false, Bool.false_eq_true, false_and, ↓reduceIte]
  exact h.flag b hb

/-- a wide cell of the current line typed at columns `j`, `j + 1` -/
theorem MidF.typed2 {S P : List Cell} {F : FlagSpec S P} (hW32 : W 32 = some 1) (hS : SrcOk W S) (hP : WideNext P) {j : Nat}
    {Ri : Row} (h : MidF F j Ri) (hci : CellsInv W Ri.cells) (hj : j < S.length) (hsc : S[j].cont = false)
    (hsw : S[j].wide = true) (cols : Nat) (hcols : cols = S.length) (a : Attrs) (f : Nat) (hw : C05.effWidth W f = 2)
    (cellF : Cell) (hvF : view cellF = view S[j]) : MidF F (j + 2) (typedRow W Ri j cols a f cellF) := by
  refine ⟨h.mid.typed2 hW32 hS hP hci hj hsc hsw cols a f hw cellF hvF, ?_⟩
  intro b hb
  rw [typedRow_wrapped]
  cases b with
  | false => rw [h.flag false hb]; split <;> rfl
  | true =>
    rw [h.flag true hb]
    have hk := F.keep hb
    rw [if_neg]
    rintro ⟨_, _, h3, h4⟩
    obtain ⟨hj1, hc1⟩ := hS.wide_next j hj hsw
    have hj1R : j + 1 < Ri.cells.length := by rw [h.mid.len]; exact hj1
    rw [flagAt_get _ _ hj1R] at h3
    have hpw : (P[j + 1]'(by rw [h.mid.plen]; exact hj1)).wide = true := by
      rw [← view_wide (h.mid.hi (j + 1) hj1 (by omega))]; exact h3
    obtain ⟨_, hh⟩ := hk.wide (j + 1) (by omega) (by rw [h.mid.plen]; exact hj1) hpw
    have := (cellOk_cont W _ (hS.cells_ok _ (List.getElem_mem hj1)) hc1).2
    simp [Cell.hasContents, this] at hh

/-! ### the simulation of the cell loop (`C15wrap`'s, with the wrap flag carried along) -/

/-- the bytes emitted so far have been processed; the receiver's line `i` is `x` columns into the diff -/
def DrawnPF (K : Ctx W cb) (prv : List Cell) (F : FlagSpec K.src prv) (x : Nat) (st : Row.FmtSt) : Prop :=
  ∃ Ri, Emitted W cb K.p0 st.out (shape K.r0 K.i Ri st.prevPos st.prevAttrs) ∧ MidF F x Ri ∧ Bytes st.out ∧
    (st.prevPos.col ≤ K.src.length ∧ (Attrs.wf K.r0.pen → Attrs.wf st.prevAttrs))

def DrawnWF (K : Ctx W cb) (D : DCtx K) (F : FlagSpec K.src D.prv) (x : Nat) (st : Row.FmtSt) : Prop := DrawnPF K D.prv F x st

theorem drawnWF_congr (K : Ctx W cb) (D : DCtx K) (F : FlagSpec K.src D.prv) {x : Nat} {st st' : Row.FmtSt} (h : DrawnWF K D F x st) (ho : st'.out = st.out)
    (hp : st'.prevPos = st.prevPos) (ha : st'.prevAttrs = st.prevAttrs) : DrawnWF K D F x st' := by
  obtain ⟨Ri, hem, hl, hb, hc⟩ := h
  exact ⟨Ri, by rw [ho, hp, ha]; exact hem, hl, by rw [ho]; exact hb, by rw [hp, ha]; exact hc⟩

/-- the emitter's cursor move and pen change before an erase run is flushed -/
theorem eraseMove_drawnWF (K : Ctx W cb) (D : DCtx K) (F : FlagSpec K.src D.prv) {x : Nat} {st : Row.FmtSt} (h : DrawnWF K D F x st)
    (e : Nat) (a : Attrs) (he : e < K.src.length) (hwf : Attrs.wf a) :
    DrawnWF K D F x (Row.eraseMove K.src.length K.i false st e a) ∧
      (Row.eraseMove K.src.length K.i false st e a).prevPos = ⟨K.i, e⟩ ∧
      (Row.eraseMove K.src.length K.i false st e a).prevAttrs = a ∧
      (Row.eraseMove K.src.length K.i false st e a).erase = st.erase ∧
      (Row.eraseMove K.src.length K.i false st e a).prevWasWide = st.prevWasWide := by
  obtain ⟨Ri, hem, hmid, hb, hc⟩ := h
  have hl : Ri.cells.length = K.r0.g.size.cols := by rw [hmid.len, K.hsrc]
  have hu := K.canvas.cols_u16
  have hru := K.canvas.rows_u16
  have hi := K.hi
  have hb' := eraseMove_bytes K.src.length K.i false st e a hb
  have h1 := emitted_step W cb K.ready hem
    (step_moveFromTo W cb st.prevPos ⟨K.i, e⟩ (by simp only; omega) (by simp only; rw [← K.hsrc] at hu; omega))
    (shape_goto K.canvas hl st.prevPos ⟨K.i, e⟩ st.prevAttrs K.hi (by rw [← K.hsrc]; exact he))
  by_cases hp : (st.prevAttrs != a) = true
  · have h2 := emitted_step W cb K.ready h1 (step_pen W cb a st.prevAttrs hwf)
      (r' := shape K.r0 K.i Ri ⟨K.i, e⟩ a) (by simp [shape])
    have hout : (Row.eraseMove K.src.length K.i false st e a).out =
        st.out ++ Term.moveFromTo st.prevPos ⟨K.i, e⟩ ++ a.writeEscapeCodeDiff st.prevAttrs := by
      simp [Row.eraseMove, hp]
    have hpa : (Row.eraseMove K.src.length K.i false st e a).prevAttrs = a := by simp [Row.eraseMove, hp]
    have hpp : (Row.eraseMove K.src.length K.i false st e a).prevPos = ⟨K.i, e⟩ := rfl
    refine ⟨⟨Ri, ?_, hmid, hb', ?_⟩, hpp, hpa, rfl, rfl⟩
    · rw [hout, hpp, hpa]; exact h2
    · rw [hpp, hpa]; exact ⟨Nat.le_of_lt he, fun _ => hwf⟩
  · have hpa' : st.prevAttrs = a := by simpa using hp
    have hout : (Row.eraseMove K.src.length K.i false st e a).out = st.out ++ Term.moveFromTo st.prevPos ⟨K.i, e⟩ := by
      simp [Row.eraseMove, hp]
    have hpa : (Row.eraseMove K.src.length K.i false st e a).prevAttrs = a := by simp [Row.eraseMove, hp, hpa']
    have hpp : (Row.eraseMove K.src.length K.i false st e a).prevPos = ⟨K.i, e⟩ := rfl
    refine ⟨⟨Ri, ?_, hmid, hb', ?_⟩, hpp, hpa, rfl, rfl⟩
    · rw [hout, hpp, hpa, ← hpa']; exact h1
    · rw [hpp, hpa]; exact ⟨Nat.le_of_lt he, fun _ => hwf⟩

/-- the simulation invariant between cells (not in the middle of a wide character) -/
structure Inv1WF (K : Ctx W cb) (D : DCtx K) (F : FlagSpec K.src D.prv) (j : Nat) (st : Row.FmtSt) : Prop where
  drawn : DrawnWF K D F (esK j st) st
  er : ∀ e a, st.erase = some (e, a) → e ≤ j ∧ e < K.src.length ∧ Attrs.wf a ∧
    ∀ k (hk : k < K.src.length), e ≤ k → k < j → view K.src[k] = blankA a

theorem inv1WF_congr (K : Ctx W cb) (D : DCtx K) (F : FlagSpec K.src D.prv) {j : Nat} {st st' : Row.FmtSt} (h : Inv1WF K D F j st) (ho : st'.out = st.out)
    (hp : st'.prevPos = st.prevPos) (ha : st'.prevAttrs = st.prevAttrs) (he : st'.erase = st.erase) : Inv1WF K D F j st' := by
  refine ⟨?_, ?_⟩
  · have := h.drawn
    have e : esK j st' = esK j st := by simp [esK, he]
    rw [e]; exact drawnWF_congr K D F this ho hp ha
  · intro e a h'; rw [he] at h'; exact h.er e a h'

/-- the first half of the per-cell body: a pending erase run is flushed exactly when cell `j` ends it -/
theorem flush_invWF (hW32 : W 32 = some 1) (K : Ctx W cb) (D : DCtx K) (F : FlagSpec K.src D.prv) (hS : SrcOk W K.src) {j : Nat} (hj : j < K.src.length)
    {st : Row.FmtSt} (h : Inv1WF K D F j st) :
    ∃ st2, C03.flush K.src.length K.i false st j K.src[j] = .ok st2 ∧ Inv1WF K D F j st2 ∧
      st2.prevWasWide = st.prevWasWide ∧
      (st2.erase = none ∨ ∃ e a, st2.erase = some (e, a) ∧ K.src[j].hasContents = false ∧ K.src[j].attrs = a) := by
  unfold C03.flush
  cases he : st.erase with
  | none => exact ⟨st, rfl, h, rfl, Or.inl he⟩
  | some pa =>
    obtain ⟨e, a⟩ := pa
    obtain ⟨hej, hel, hwf, hvs⟩ := h.er e a he
    simp only
    by_cases hcond : (K.src[j].hasContents || K.src[j].attrs != a) = true
    · simp only [hcond, ↓reduceIte, subM_ok hej, pure_bind', ok_bind]
      have hd : DrawnWF K D F e st := by have := h.drawn; simpa [esK, he] using this
      obtain ⟨hd', hp', ha', he', hw'⟩ := eraseMove_drawnWF K D F hd e a hel hwf
      refine ⟨_, rfl, ⟨?_, ?_⟩, hw', Or.inl rfl⟩
      · show DrawnWF K D F j _
        obtain ⟨Ri, hem, hmid, hb, hc⟩ := hd'
        rw [hp', ha'] at hem
        have hl : Ri.cells.length = K.r0.g.size.cols := by rw [hmid.len, K.hsrc]
        have hu := K.canvas.cols_u16
        by_cases hn : j - e = 0
        · have hje : e = j := by omega
          refine ⟨Ri, ?_, hje ▸ hmid, Bytes.append hb (eraseChar_bytes _), hc⟩
          simp only [hp', ha']
          have := emitted_step W cb K.ready hem (step_eraseChar W cb (j - e) (by rw [← K.hsrc] at hu; omega))
            (r' := shape K.r0 K.i Ri ⟨K.i, e⟩ a) (by simp [hn])
          exact this
        · have hci := cells_of_emitted hW32 K D hb hem
          have e1 := shape_echD K hl hci e (j - e) (by rw [← K.hsrc]; omega) a
          have := emitted_step W cb K.ready hem (step_eraseChar W cb (j - e) (by rw [← K.hsrc] at hu; omega))
            (r' := shape K.r0 K.i (C07.erasedRow Ri.cells Ri.wrapped e (e + (j - e)) a) ⟨K.i, e⟩ a) (by
              simp only [hn, ↓reduceIte]
              have : (shape K.r0 K.i Ri ⟨K.i, e⟩ a).pen = a := rfl
              rw [this, e1]
              rfl)
          refine ⟨C07.erasedRow Ri.cells Ri.wrapped e (e + (j - e)) a, ?_, ?_, Bytes.append hb (eraseChar_bytes _), hc⟩
          · simp only [hp', ha']; exact this
          · rw [show e + (j - e) = j by omega]
            exact hmid.erase hS D.hP (by omega) (Nat.le_of_lt hj) a (fun k hk h1 h2 => hvs k hk h1 h2)
      · intro e' a' h'; simp at h'
    · simp only [hcond, Bool.false_eq_true, ↓reduceIte]
      simp only [Bool.or_eq_true, bne_iff_ne, ne_eq, not_or, Bool.not_eq_true, Decidable.not_not] at hcond
      exact ⟨st, rfl, h, rfl, Or.inr ⟨e, a, he, hcond.1, hcond.2⟩⟩

/-- a cell with text: move there if need be, set the pen if need be, type it — on whatever the line holds there -/
theorem draw_textPF (K : Ctx W cb) (prv : List Cell) (F : FlagSpec K.src prv) (hPw : WideNext prv) (hcb : C13.CbInv W cb)
    (pinv : C13.ParserInv W K.p0) (hW : WOk W) (hS : SrcOk W K.src) {j : Nat} (hj : j < K.src.length)
    {st : Row.FmtSt} (hd : DrawnPF K prv F j st) (hh : K.src[j].hasContents = true) (hnc : K.src[j].cont = false) :
    C03.emit K.src.length K.i false st j K.src[j] true = .ok (afterText K.i j st K.src[j]) ∧
      DrawnPF K prv F (j + (if K.src[j].wide then 2 else 1)) (afterText K.i j st K.src[j]) := by
  have hok := hS.cells_ok _ (List.getElem_mem hj)
  obtain ⟨f, zs, ht⟩ := textCell_of hW hok (hS.emit_ok j hj) hh
  have hu := K.canvas.cols_u16
  have hru := K.canvas.rows_u16
  have hi := K.hi
  have hfine : CellFine K.src[j] := cellFine_of_ok hok
  have e3 := emit_text_eq K.src.length K.i j st K.src[j] hh hfine false (fun h => by simp at h)
  refine ⟨e3, ?_⟩
  obtain ⟨Ri, hem, hmid, hb, hc⟩ := hd
  have hb3 : Bytes (afterText K.i j st K.src[j]).out := emit_bytes _ _ _ _ _ _ _ hb e3
  have hl : Ri.cells.length = K.r0.g.size.cols := by rw [hmid.len, K.hsrc]
  -- the move
  have h1 : Emitted W cb K.p0 (if (({ row := K.i, col := j } : Pos) != st.prevPos) = true then
        st.out ++ Term.moveFromTo st.prevPos ⟨K.i, j⟩ else st.out) (shape K.r0 K.i Ri ⟨K.i, j⟩ st.prevAttrs) := by
    by_cases hne : (({ row := K.i, col := j } : Pos) != st.prevPos) = true
    · simp only [hne, ↓reduceIte]
      exact emitted_step W cb K.ready hem
        (step_moveFromTo W cb st.prevPos ⟨K.i, j⟩ (by simp only; omega) (by simp only; rw [← K.hsrc] at hu; omega))
        (shape_goto K.canvas hl st.prevPos ⟨K.i, j⟩ st.prevAttrs K.hi (by rw [← K.hsrc]; exact hj))
    · simp only [hne, Bool.false_eq_true, ↓reduceIte]
      have : st.prevPos = ⟨K.i, j⟩ := by
        have := hne; simp only [bne_iff_ne, ne_eq, Decidable.not_not] at this; exact this.symm
      rw [← this]; exact hem
  -- the pen
  have h2 : Emitted W cb K.p0 ((if (({ row := K.i, col := j } : Pos) != st.prevPos) = true then
        st.out ++ Term.moveFromTo st.prevPos ⟨K.i, j⟩ else st.out) ++
        (if (st.prevAttrs != K.src[j].attrs) = true then K.src[j].attrs.writeEscapeCodeDiff st.prevAttrs else []))
      (shape K.r0 K.i Ri ⟨K.i, j⟩ K.src[j].attrs) := by
    by_cases hp : (st.prevAttrs != K.src[j].attrs) = true
    · simp only [hp, ↓reduceIte]
      exact emitted_step W cb K.ready h1 (step_pen W cb K.src[j].attrs st.prevAttrs (hS.wf j hj))
        (r' := shape K.r0 K.i Ri ⟨K.i, j⟩ K.src[j].attrs) (by simp [shape])
    · have hpa : st.prevAttrs = K.src[j].attrs := by simpa using hp
      simp only [hp, Bool.false_eq_true, ↓reduceIte, List.append_nil]
      rw [← hpa]; exact h1
  have hb2 : Bytes ((if (({ row := K.i, col := j } : Pos) != st.prevPos) = true then
        st.out ++ Term.moveFromTo st.prevPos ⟨K.i, j⟩ else st.out) ++
        (if (st.prevAttrs != K.src[j].attrs) = true then K.src[j].attrs.writeEscapeCodeDiff st.prevAttrs else [])) := by
    have : (afterText K.i j st K.src[j]).out = ((if (({ row := K.i, col := j } : Pos) != st.prevPos) = true then
        st.out ++ Term.moveFromTo st.prevPos ⟨K.i, j⟩ else st.out) ++
        (if (st.prevAttrs != K.src[j].attrs) = true then K.src[j].attrs.writeEscapeCodeDiff st.prevAttrs else [])) ++
        K.src[j].contents.take K.src[j].len := rfl
    rw [this] at hb3
    exact (bytes_append.mp hb3).1
  -- the receiver is well formed here
  have hginv := emitted_inv hW.space hcb pinv hb2 h2
  have hci := cells_of_emitted' hW.space K hcb pinv hb2 h2
  -- the text
  have hstep := step_text W cb (K.src[j].contents.take K.src[j].len) ht.valid
    (by rw [ht.chars]; exact ht.plain) ht.noesc
  rw [ht.chars] at hstep
  have hfit : (shape K.r0 K.i Ri ⟨K.i, j⟩ K.src[j].attrs).g.pos.col + C05.effWidth W f ≤
      (shape K.r0 K.i Ri ⟨K.i, j⟩ K.src[j].attrs).g.size.cols := by
    have := ht.fits
    show j + C05.effWidth W f ≤ K.r0.g.size.cols
    rw [← K.hsrc]; exact this
  obtain ⟨r, cellF, hr, et, hvF, _⟩ := type_cell_any hginv.1 hginv.2 hW.space K.src[j].attrs f zs ht.first ht.width
    ht.zero hfit ht.pre
  have hrRi : r = Ri := by
    have := shape_row K.canvas K.hi Ri ⟨K.i, j⟩ K.src[j].attrs
    have h' : (shape K.r0 K.i Ri ⟨K.i, j⟩ K.src[j].attrs).g.rows[(shape K.r0 K.i Ri ⟨K.i, j⟩ K.src[j].attrs).g.pos.row]? = some Ri := this
    rw [hr] at h'; exact Option.some.inj h'
  subst hrRi
  have hvF' : view cellF = view K.src[j] := by rw [hvF, ht.view]
  have hgrid : typedGrid W (shape K.r0 K.i r ⟨K.i, j⟩ K.src[j].attrs).g r K.src[j].attrs f cellF =
      (shape K.r0 K.i (typedRow W r j K.r0.g.size.cols K.src[j].attrs f cellF) ⟨K.i, j + C05.effWidth W f⟩ K.src[j].attrs).g := by
    simp [typedGrid, shape, List.set_set]
  have h3 := emitted_step W cb K.ready h2 hstep
    (r' := shape K.r0 K.i (typedRow W r j K.r0.g.size.cols K.src[j].attrs f cellF) ⟨K.i, j + C05.effWidth W f⟩ K.src[j].attrs) (by
      have : (shape K.r0 K.i r ⟨K.i, j⟩ K.src[j].attrs).pen = K.src[j].attrs := rfl
      rw [this, et, hgrid]; rfl)
  have hgetD1 := ht.width
  by_cases hwide : K.src[j].wide = true
  · have hw2 : C05.effWidth W f = 2 := by
      have := ht.wide; rw [hwide] at this
      have h' : 1 < (W f).getD 1 := by simpa using this.symm
      unfold C05.effWidth; omega
    simp only [hwide, ↓reduceIte]
    refine ⟨_, ?_, hmid.typed2 hW.space hS hPw hci hj hnc hwide K.r0.g.size.cols K.hsrc.symm K.src[j].attrs f hw2 cellF hvF', hb3, ?_⟩
    · rw [hw2] at h3
      simpa [afterText, Cell.isWide, hwide] using h3
    · have := ht.fits
      refine ⟨?_, fun _ => hS.wf j hj⟩
      simp only [afterText, Cell.isWide, hwide, ↓reduceIte]
      unfold C05.effWidth at hw2; omega
  · have hwide' : K.src[j].wide = false := by simpa using hwide
    have hw1 : C05.effWidth W f = 1 := by
      have := ht.wide; rw [hwide'] at this
      have h' : ¬ 1 < (W f).getD 1 := by simpa using this.symm
      unfold C05.effWidth; omega
    simp only [hwide', Bool.false_eq_true, ↓reduceIte]
    refine ⟨_, ?_, hmid.typed1 hW.space hS hPw hci hj hnc hwide' K.r0.g.size.cols K.src[j].attrs f hw1 cellF hvF', hb3, ?_⟩
    · rw [hw1] at h3
      simpa [afterText, Cell.isWide, hwide'] using h3
    · refine ⟨?_, fun _ => hS.wf j hj⟩
      simp only [afterText, Cell.isWide, hwide', Bool.false_eq_true, ↓reduceIte]
      omega

theorem draw_textWF (K : Ctx W cb) (D : DCtx K) (F : FlagSpec K.src D.prv) (hW : WOk W) (hS : SrcOk W K.src) {j : Nat} (hj : j < K.src.length)
    {st : Row.FmtSt} (hd : DrawnWF K D F j st) (hh : K.src[j].hasContents = true) (hnc : K.src[j].cont = false) :
    C03.emit K.src.length K.i false st j K.src[j] true = .ok (afterText K.i j st K.src[j]) ∧
      DrawnWF K D F (j + (if K.src[j].wide then 2 else 1)) (afterText K.i j st K.src[j]) :=
  draw_textPF K D.prv F (wideNext_of_src D.hP) D.hcb D.pinv hW hS hj hd hh hnc

/-- the invariant of the cell loop -/
structure JWF (K : Ctx W cb) (D : DCtx K) (F : FlagSpec K.src D.prv) (j : Nat) (st : Row.FmtSt) : Prop where
  /-- (new with respect to `DiffRow.JD`) a changed blank cell always leaves an erase run pending -/
  last : ∀ k (hk : k < K.src.length), k + 1 = j → st.prevWasWide = false → K.src[k].cont = false →
    K.src[k].hasContents = false → view K.src[k] ≠ view (D.prv[k]'(by rw [D.hprv]; exact hk)) → st.erase ≠ none
  ww : ∀ (_ : 0 < j) (hl : j ≤ K.src.length), st.prevWasWide = (K.src[j - 1]'(by omega)).wide
  w0 : j = 0 → st.prevWasWide = false
  A : st.prevWasWide = true → st.erase = none ∧ DrawnWF K D F (j + 1) st
  B : st.prevWasWide = false → Inv1WF K D F j st

/-- the second half of the per-cell body, from a state in which any finished erase run has been flushed -/
theorem emit_invWF (K : Ctx W cb) (D : DCtx K) (F : FlagSpec K.src D.prv) (hW : WOk W) (hS : SrcOk W K.src) {j : Nat} (hj : j < K.src.length)
    (hnc : K.src[j].cont = false) {st2 : Row.FmtSt} (hI2 : Inv1WF K D F j st2) (hw2' : st2.prevWasWide = K.src[j].wide)
    (hdisj : st2.erase = none ∨ ∃ e a, st2.erase = some (e, a) ∧ K.src[j].hasContents = false ∧ K.src[j].attrs = a) :
    ∃ st', C03.emit K.src.length K.i false st2 j K.src[j] (!(K.src[j].eq (D.prv[j]'(by rw [D.hprv]; exact hj)))) = .ok st' ∧
      JWF K D F (j + 1) st' := by
  have hok := hS.cells_ok _ (List.getElem_mem hj)
  by_cases hd : K.src[j].eq (D.prv[j]'(by rw [D.hprv]; exact hj)) = true
  · -- an unchanged cell: nothing is written
    have hv : view K.src[j] = view (D.prv[j]'(by rw [D.hprv]; exact hj)) := (eq_iff_view _ _).mp hd
    simp only [hd, Bool.not_true, C03.emit, Bool.false_eq_true, ↓reduceIte, pure_eq_ok]
    refine ⟨st2, rfl, ⟨?_, ?_, ?_, ?_, ?_⟩⟩
    · intro k hk hkj _ _ _ hne
      have : k = j := by omega
      subst this
      exact absurd hv hne
    · intro _ _; simp [hw2']
    · intro h0; omega
    · intro h'
      have hwide : K.src[j].wide = true := by rw [← hw2']; exact h'
      have hnone : st2.erase = none := by
        rcases hdisj with h1 | ⟨_, _, _, h2, _⟩
        · exact h1
        · rw [wide_has_contents hok hwide] at h2; simp at h2
      refine ⟨hnone, ?_⟩
      obtain ⟨Ri, hem, hmid, hb, hc⟩ : DrawnWF K D F j st2 := by have := hI2.drawn; simpa [esK, hnone] using this
      exact ⟨Ri, hem, hmid.skip2 hS D.hP hj hv hwide, hb, hc⟩
    · intro h'
      have hnw : K.src[j].wide = false := by rw [← hw2']; exact h'
      rcases hdisj with hnone | ⟨e, a, hea, hh', haa⟩
      · refine ⟨?_, fun e a h'' => by rw [hnone] at h''; simp at h''⟩
        obtain ⟨Ri, hem, hmid, hb, hc⟩ : DrawnWF K D F j st2 := by have := hI2.drawn; simpa [esK, hnone] using this
        simp only [esK, hnone]
        exact ⟨Ri, hem, hmid.skip1 hj hv, hb, hc⟩
      · obtain ⟨h1, h2, h3, h4⟩ := hI2.er e a hea
        refine ⟨?_, ?_⟩
        · have := hI2.drawn; simp only [esK, hea] at this ⊢; exact this
        · intro e' a' h''
          rw [hea] at h''
          simp only [Option.some.injEq, Prod.mk.injEq] at h''
          obtain ⟨rfl, rfl⟩ := h''
          refine ⟨by omega, h2, h3, ?_⟩
          intro k hk hk1 hk2
          by_cases hkj : k = j
          · subst hkj
            have hbv := hS.blank_view k hk hh'
            rw [hnc, haa] at hbv
            rw [hbv]; rfl
          · exact h4 k hk hk1 (by omega)
  · have hd' : (!(K.src[j].eq (D.prv[j]'(by rw [D.hprv]; exact hj)))) = true := by simpa using hd
    rw [hd']
    by_cases hh : K.src[j].hasContents = true
    · -- text
      have hnone : st2.erase = none := by
        rcases hdisj with h1 | ⟨_, _, _, h2, _⟩
        · exact h1
        · rw [hh] at h2; simp at h2
      have hdj : DrawnWF K D F j st2 := by have := hI2.drawn; simpa [esK, hnone] using this
      obtain ⟨e3, hd3⟩ := draw_textWF K D F hW hS hj hdj hh hnc
      refine ⟨_, e3, ⟨?_, ?_, ?_, ?_, ?_⟩⟩
      · intro k hk hkj _ _ hnh _
        have : k = j := by omega
        subst this
        rw [hh] at hnh; exact absurd hnh (by simp)
      · intro _ _; simp [afterText, hw2']
      · intro h0; omega
      · intro h'
        have hwide : K.src[j].wide = true := by simpa [afterText, hw2'] using h'
        refine ⟨by simpa [afterText] using hnone, ?_⟩
        simpa [hwide] using hd3
      · intro h'
        have hwide : K.src[j].wide = false := by simpa [afterText, hw2'] using h'
        refine ⟨?_, fun e a h'' => by simp [afterText, hnone] at h''⟩
        have : esK (j + 1) (afterText K.i j st2 K.src[j]) = j + 1 := by simp [esK, afterText, hnone]
        rw [this]
        simpa [hwide] using hd3
    · -- a blank cell: an erase run starts or goes on
      have hh' : K.src[j].hasContents = false := by simpa using hh
      have hbv := hS.blank_view j hj hh'
      rw [hnc] at hbv
      have hnw : K.src[j].wide = false := by
        simp only [view, View.mk.injEq] at hbv; exact hbv.2.1
      simp only [C03.emit, ↓reduceIte, hh', Bool.false_eq_true]
      rcases hdisj with hnone | ⟨e, a, hea, _, haa⟩
      · simp only [hnone, Option.isNone_none, ↓reduceIte, pure_eq_ok]
        have hdj : DrawnWF K D F j st2 := by have := hI2.drawn; simpa [esK, hnone] using this
        refine ⟨_, rfl, ⟨?_, ?_, ?_, ?_, ?_⟩⟩
        · intro _ _ _ _ _ _ _; simp
        · intro _ _; simp [hw2', hnw]
        · intro h0; omega
        · intro h'; simp only at h'; rw [hw2', hnw] at h'; simp at h'
        · intro _
          refine ⟨?_, ?_⟩
          · simp only [esK]; exact drawnWF_congr K D F hdj rfl rfl rfl
          · intro e' a' h'
            simp only [Option.some.injEq, Prod.mk.injEq] at h'
            obtain ⟨rfl, rfl⟩ := h'
            refine ⟨by omega, hj, hS.wf j hj, ?_⟩
            intro k hk hk1 hk2
            have : k = j := by omega
            subst this
            rw [hbv]; rfl
      · simp only [hea, Option.isNone_some, Bool.false_eq_true, ↓reduceIte, pure_eq_ok]
        obtain ⟨h1, h2, h3, h4⟩ := hI2.er e a hea
        refine ⟨st2, rfl, ⟨?_, ?_, ?_, ?_, ?_⟩⟩
        · intro _ _ _ _ _ _ _; rw [hea]; simp
        · intro _ _; simp [hw2', hnw]
        · intro h0; omega
        · intro h'; rw [hw2', hnw] at h'; simp at h'
        · intro _
          refine ⟨?_, ?_⟩
          · have := hI2.drawn; simp only [esK, hea] at this ⊢; exact this
          · intro e' a' h'
            rw [hea] at h'
            simp only [Option.some.injEq, Prod.mk.injEq] at h'
            obtain ⟨rfl, rfl⟩ := h'
            refine ⟨by omega, h2, h3, ?_⟩
            intro k hk hk1 hk2
            by_cases hkj : k = j
            · subst hkj; rw [hbv, haa]; rfl
            · exact h4 k hk hk1 (by omega)

/-- **one cell of the diff loop** -/
theorem diffStep_invWF (K : Ctx W cb) (D : DCtx K) (F : FlagSpec K.src D.prv) (hW : WOk W) (hS : SrcOk W K.src) {j : Nat} (hj : j < K.src.length)
    {st : Row.FmtSt} (h : JWF K D F j st) :
    ∃ st', Row.diffStep K.src.length K.i false st (j, (K.src[j], D.prv[j]'(by rw [D.hprv]; exact hj))) = .ok st' ∧
      JWF K D F (j + 1) st' := by
  have hok := hS.cells_ok _ (List.getElem_mem hj)
  unfold Row.diffStep
  simp only
  by_cases hpw : st.prevWasWide = true
  · -- the second half of a wide character: skipped
    simp only [hpw, ↓reduceIte]
    obtain ⟨he, hd⟩ := h.A hpw
    have hj0 : 0 < j := by
      rcases Nat.eq_zero_or_pos j with h0 | h0
      · have := h.w0 h0; rw [hpw] at this; simp at this
      · exact h0
    have hprev := h.ww hj0 (Nat.le_of_lt hj)
    have hcont : K.src[j].cont = true := by
      rw [hS.cont_iff j hj, if_neg (by omega), ← hprev, hpw]
    have hnw : K.src[j].wide = false := (cellOk_cont W _ hok hcont).1
    refine ⟨_, rfl, ⟨?_, ?_, ?_, ?_, ?_⟩⟩
    · intro k hk hkj _ hnc _ _
      have : k = j := by omega
      subst this
      rw [hcont] at hnc; exact absurd hnc (by simp)
    · intro _ _; simp [hnw]
    · intro h0; omega
    · intro h'; simp at h'
    · intro _
      refine ⟨?_, ?_⟩
      · simp only [esK, he]; exact drawnWF_congr K D F hd rfl rfl rfl
      · intro e a h'; simp only at h'; rw [he] at h'; simp at h'
  · have hpw' : st.prevWasWide = false := by simpa using hpw
    simp only [hpw', Bool.false_eq_true, ↓reduceIte]
    have hnc : K.src[j].cont = false := by
      rw [hS.cont_iff j hj]
      by_cases h0 : j = 0
      · simp [h0]
      · rw [if_neg h0, ← h.ww (by omega) (Nat.le_of_lt hj)]; exact hpw'
    have hB := h.B hpw'
    rw [C03.fmtCellStep_eq]
    have hB1 : Inv1WF K D F j { st with prevWasWide := K.src[j].isWide } := inv1WF_congr K D F hB rfl rfl rfl rfl
    obtain ⟨st2, e2, hI2, hw2, hdisj⟩ := flush_invWF hW.space K D F hS hj hB1
    rw [e2]
    simp only [ok_bind]
    have hw2' : st2.prevWasWide = K.src[j].wide := hw2
    exact emit_invWF K D F hW hS hj hnc hI2 hw2' hdisj

/-- the loop over the cells `j, j+1, …` of the two lines -/
theorem fold_invWF (K : Ctx W cb) (D : DCtx K) (F : FlagSpec K.src D.prv) (hW : WOk W) (hS : SrcOk W K.src) :
    ∀ (cs : List (Cell × Cell)) (j : Nat) (st : Row.FmtSt),
    (K.src.zip D.prv).drop j = cs → j ≤ K.src.length → JWF K D F j st →
    ∃ st', (C14.enumFrom j cs).foldlM (Row.diffStep K.src.length K.i false) st = .ok st' ∧ JWF K D F K.src.length st'
  | [], j, st, hcs, hjl, h => by
    have : j = K.src.length := by
      have := congrArg List.length hcs
      simp only [List.length_drop, List.length_nil, List.length_zip, D.hprv, Nat.min_self] at this
      omega
    subst this
    exact ⟨st, rfl, h⟩
  | c :: cs, j, st, hcs, hjl, h => by
    have hj : j < K.src.length := by
      have := congrArg List.length hcs
      simp only [List.length_drop, List.length_cons, List.length_zip, D.hprv, Nat.min_self] at this
      omega
    have hjz : j < (K.src.zip D.prv).length := by simp [List.length_zip, D.hprv]; exact hj
    have hc : (K.src[j], D.prv[j]'(by rw [D.hprv]; exact hj)) = c := by
      have := congrArg (fun l => l[0]?) hcs
      simp only [List.getElem?_drop, Nat.add_zero, List.getElem?_eq_getElem hjz, List.getElem?_cons_zero,
        Option.some.injEq, List.getElem_zip] at this
      exact this
    have hcs' : (K.src.zip D.prv).drop (j + 1) = cs := by
      have := congrArg List.tail hcs
      simpa [List.tail_drop] using this
    obtain ⟨st1, e1, h1⟩ := diffStep_invWF K D F hW hS hj h
    obtain ⟨st', e2, h2⟩ := fold_invWF K D F hW hS cs (j + 1) st1 hcs' (by omega) h1
    refine ⟨st', ?_, h2⟩
    have : C14.enumFrom j (c :: cs) = (j, c) :: C14.enumFrom (j + 1) cs := by
      simp [C14.enumFrom, List.zipIdx_cons]
    rw [this, List.foldlM_cons, ← hc, e1]
    exact e2

/-- the end of the line: a pending erase run becomes an EL -/
theorem finish_drawnWF (K : Ctx W cb) (D : DCtx K) (F : FlagSpec K.src D.prv) (hW : WOk W) (hS : SrcOk W K.src) (hne : 0 < K.src.length) {st : Row.FmtSt}
    (h : JWF K D F K.src.length st) : DrawnWF K D F K.src.length (Row.fmtFinish K.src.length K.i false st) := by
  have hpw : st.prevWasWide = false := by
    by_cases hp : st.prevWasWide = true
    · have := h.ww hne (Nat.le_refl _)
      rw [hp] at this
      obtain ⟨hj', _⟩ := hS.wide_next (K.src.length - 1) (by omega) this.symm
      omega
    · simpa using hp
  have hB := h.B hpw
  unfold Row.fmtFinish
  cases he : st.erase with
  | none =>
    have := hB.drawn
    simpa [esK, he] using this
  | some pa =>
    obtain ⟨e, a⟩ := pa
    obtain ⟨hej, hel, hwf, hvs⟩ := hB.er e a he
    have hd : DrawnWF K D F e st := by have := hB.drawn; simpa [esK, he] using this
    obtain ⟨hd', hp', ha', _, _⟩ := eraseMove_drawnWF K D F hd e a hel hwf
    obtain ⟨Ri, hem, hmid, hb, hc⟩ := hd'
    rw [hp', ha'] at hem
    have hl : Ri.cells.length = K.r0.g.size.cols := by rw [hmid.len, K.hsrc]
    have hci := cells_of_emitted hW.space K D hb hem
    have e1 := shape_elD K hl hci e (by rw [← K.hsrc]; omega) a
    have := emitted_step W cb K.ready hem (step_clearRowForward W cb)
      (r' := shape K.r0 K.i (C07.erasedRow Ri.cells Ri.wrapped e K.r0.g.size.cols a) ⟨K.i, e⟩ a) (by
        have : (shape K.r0 K.i Ri ⟨K.i, e⟩ a).pen = a := rfl
        rw [this, e1]; rfl)
    refine ⟨C07.erasedRow Ri.cells Ri.wrapped e K.r0.g.size.cols a, ?_, ?_, Bytes.append hb clearRowForward_bytes, hc⟩
    · simp only [hp', ha']
      exact this
    · rw [← K.hsrc]
      exact hmid.erase hS D.hP hel (Nat.le_refl _) a (fun k hk h1 _ => hvs k hk h1 hk)


/-! ### `diffEnd` with the wrap flag -/

/-- re-typing the last character of the line (`C15wrap.retype`) on a line whose wrap flag is off: it stays off -/
theorem retypeF (K : Ctx W cb) (hcb : C13.CbInv W cb) (pinv : C13.ParserInv W K.p0) (hW : WOk W) (hS : SrcOk W K.src)
    {c : Nat} (hc : c < K.src.length) (hcc : K.src[c].cont = false)
    (hcw : c + (if K.src[c].wide = true then 2 else 1) = K.src.length) (hh : K.src[c].hasContents = true)
    {out : List Nat} {R : Row} {pen : Attrs} (hem : Emitted W cb K.p0 out (shape K.r0 K.i R ⟨K.i, c⟩ pen)) (hb : Bytes out)
    (hl : R.cells.length = K.src.length)
    (hlo : ∀ k (hk : k < K.src.length), k < c → view (R.cells[k]'(by rw [hl]; exact hk)) = view K.src[k])
    (hwf : Attrs.wf K.r0.pen → Attrs.wf pen) (hRw : R.wrapped = false) :
    ∃ R', Emitted W cb K.p0
        ((out ++ (if (pen != K.src[c].attrs) = true then K.src[c].attrs.writeEscapeCodeDiff pen else [])) ++
          K.src[c].contents.take K.src[c].len)
        (shape K.r0 K.i R' ⟨K.i, K.src.length⟩ K.src[c].attrs) ∧ R'.cells.map view = K.src.map view ∧
      R'.wrapped = false ∧
      Bytes ((out ++ (if (pen != K.src[c].attrs) = true then K.src[c].attrs.writeEscapeCodeDiff pen else [])) ++
          K.src[c].contents.take K.src[c].len) := by
  have hci := cells_of_emitted' hW.space K hcb pinv hb hem
  have hd : DrawnPF K R.cells (FlagSpec.off K.src R.cells) c ⟨false, ⟨K.i, c⟩, pen, none, out⟩ :=
    ⟨R, hem, ⟨mid_self hl hlo, fun b hb' => by
      have : b = false := by simpa [FlagSpec.off] using hb'.symm
      rw [this]; exact hRw⟩, hb, Nat.le_of_lt hc, hwf⟩
  obtain ⟨_, R', hem', hmid', hb', _⟩ := draw_textPF K R.cells (FlagSpec.off K.src R.cells) (wideNext_of_inv hci) hcb pinv hW hS hc hd hh hcc
  rw [hcw] at hmid'
  have e1 : (afterText K.i c ⟨false, ⟨K.i, c⟩, pen, none, out⟩ K.src[c]).out =
      (out ++ (if (pen != K.src[c].attrs) = true then K.src[c].attrs.writeEscapeCodeDiff pen else [])) ++
          K.src[c].contents.take K.src[c].len := by
    simp [afterText]
  have e2 : (afterText K.i c ⟨false, ⟨K.i, c⟩, pen, none, out⟩ K.src[c]).prevPos = ⟨K.i, K.src.length⟩ := by
    simp only [afterText, Cell.isWide]
    exact congrArg (fun x => (⟨K.i, x⟩ : Pos)) hcw
  have e3 : (afterText K.i c ⟨false, ⟨K.i, c⟩, pen, none, out⟩ K.src[c]).prevAttrs = K.src[c].attrs := rfl
  rw [e1, e2, e3] at hem'
  rw [e1] at hb'
  exact ⟨R', hem', hmid'.mid.full, hmid'.flag false rfl, hb'⟩

/-- the last character of a line whose last column is occupied holds text -/
theorem endCol_text {S : List Cell} (hS : SrcOk W S) (hocc : lastOcc S) {c : Nat} (hc : c < S.length)
    (hce : c = (if (S[S.length - 1]'(by omega)).cont = true then S.length - 2 else S.length - 1))
    (hcw : c + (if S[c].wide = true then 2 else 1) = S.length) : S[c].hasContents = true := by
  obtain ⟨hne, ho⟩ := hocc
  by_cases hcont : (S[S.length - 1]'(by omega)).cont = true
  · rw [if_pos hcont] at hce
    have hw : S[c].wide = true := by
      cases hw : S[c].wide
      · rw [hw] at hcw; simp at hcw
        have h1 := hS.cont_iff (S.length - 1) (by omega)
        rw [hcont] at h1
        by_cases h0 : S.length - 1 = 0
        · rw [if_pos h0] at h1; exact absurd h1 (by simp)
        · omega
      · rfl
    exact wide_has_contents (hS.cells_ok _ (List.getElem_mem hc)) hw
  · rw [if_neg hcont] at hce
    subst hce
    rcases ho with ho | ho
    · exact ho
    · exact absurd ho hcont

/-- ECH 1 on the last character of a line clears the line's wrap flag -/
theorem flagCleared_end {S : List Cell} {Ri : Row} (hl : Ri.cells.length = S.length)
    (hv : ∀ k (hk : k < S.length), view (Ri.cells[k]'(by rw [hl]; exact hk)) = view S[k]) {c : Nat} (hc : c < S.length)
    (hcw : c + (if S[c].wide = true then 2 else 1) = S.length) : C07.flagCleared Ri.cells c (c + 1) = true := by
  unfold C07.flagCleared
  have hcR : c < Ri.cells.length := by rw [hl]; exact hc
  simp only [Nat.lt_add_one, decide_true, Bool.true_and, Nat.add_sub_cancel, List.getElem?_eq_getElem hcR, Option.map_some,
    Option.getD_some, Bool.or_eq_true, beq_iff_eq, Bool.and_eq_true]
  by_cases hw : S[c].wide = true
  · rw [if_pos hw] at hcw
    right
    exact ⟨by omega, by rw [view_wide (hv c hc)]; exact hw⟩
  · rw [if_neg hw] at hcw
    left; omega

/-- **the tail of one line of a diff, wrap flag and cursor included**: after the cell loop the receiving line shows
the current line and its wrap flag is what `F` says; after `diffEnd` the line still shows the current line, and its
wrap flag is ON iff both P's and S's line are wrapped.  When the line has just become wrapped the flag is still OFF
and the cursor sits in the pending-wrap column: the receiver will record the wrap when the next line's first
character is typed there. -/
theorem diffEnd_drawnF (K : Ctx W cb) (prv : List Cell) (F : FlagSpec K.src prv) (hcb : C13.CbInv W cb)
    (pinv : C13.ParserInv W K.p0) (hW : WOk W)
    (hS : SrcOk W K.src) (hne : 0 < K.src.length) (sw : Bool) (pr : Row) {st : Row.FmtSt}
    (hd : DrawnPF K prv F K.src.length st)
    (hE : sw = false → pr.wrapped = true → ∀ c (hc : c < K.src.length), c + 1 = K.src.length →
      K.src[c].cont = false → K.src[c].hasContents = false → K.src[c].attrs = st.prevAttrs)
    (hoccS : sw = true → lastOcc K.src)
    (hmOff : pr.wrapped = false → F.mode = some false)
    (hmOn : pr.wrapped = true → sw = true → F.mode = some true) :
    ∃ out np na, Row.diffEnd ⟨K.src, sw⟩ pr K.i st = .ok (out, np, na) ∧
      (∃ Ri, Emitted W cb K.p0 out (shape K.r0 K.i Ri np na) ∧ Ri.cells.map view = K.src.map view ∧
        Ri.wrapped = (pr.wrapped && sw)) ∧ Bytes out ∧
      np.col ≤ K.src.length ∧ (Attrs.wf K.r0.pen → Attrs.wf na) ∧
      (sw = true → pr.wrapped = false → np = ⟨K.i, K.src.length⟩) ∧
      (sw = pr.wrapped → out = st.out ∧ np = st.prevPos ∧ na = st.prevAttrs) := by
  obtain ⟨Ri, hem, hmid, hb, hcp, hwf⟩ := hd
  have hfull := hmid.mid.full
  by_cases hcond : ((!sw && pr.wrapped) || (!pr.wrapped && sw)) = true
  · obtain ⟨c, hc, hce, hcc, hcw, h2⟩ := endCol_facts hS hne
    have hok := hS.cells_ok _ (List.getElem_mem hc)
    rw [diffEnd_eq ⟨K.src, sw⟩ pr K.i st hcond hne c hc hce h2 (cellFine_of_ok hok)]
    obtain ⟨hl, hv⟩ := full_get hfull
    have hlc : Ri.cells.length = K.r0.g.size.cols := by rw [hl, K.hsrc]
    have hu := K.canvas.cols_u16
    have hru := K.canvas.rows_u16
    have hi := K.hi
    have h1 := emitted_step W cb K.ready hem
      (step_moveFromTo W cb st.prevPos ⟨K.i, c⟩ (by simp only; omega) (by simp only; rw [← K.hsrc] at hu; omega))
      (shape_goto K.canvas hlc st.prevPos ⟨K.i, c⟩ st.prevAttrs K.hi (by rw [← K.hsrc]; exact hc))
    have hb1 := Bytes.append hb (moveFromTo_bytes st.prevPos ⟨K.i, c⟩)
    cases sw
    · -- the line became unwrapped: ECH 1 on the last character first
      simp only [↓reduceIte]
      have hpw : pr.wrapped = true := by simpa using hcond
      have hci := cells_of_emitted' hW.space K hcb pinv hb1 h1
      have e1 := shape_echD K hlc hci c 1 (by rw [← K.hsrc]; omega) st.prevAttrs
      have h2e := emitted_step W cb K.ready h1 (step_eraseChar W cb 1 (by omega))
        (r' := shape K.r0 K.i (C07.erasedRow Ri.cells Ri.wrapped c (c + 1) st.prevAttrs) ⟨K.i, c⟩ st.prevAttrs) (by
          simp only [Nat.succ_ne_zero, ↓reduceIte]
          have : (shape K.r0 K.i Ri ⟨K.i, c⟩ st.prevAttrs).pen = st.prevAttrs := rfl
          rw [this, e1]
          rfl)
      have hb2 := Bytes.append hb1 (eraseChar_bytes 1)
      obtain ⟨hl', hlo, hcv⟩ := erase_lo hS hl hv hc hcc Ri.wrapped st.prevAttrs
      have hflag : (C07.erasedRow Ri.cells Ri.wrapped c (c + 1) st.prevAttrs).wrapped = false := by
        simp only [C07.erasedRow, flagCleared_end hl hv hc hcw, ↓reduceIte]
      by_cases hh : K.src[c].hasContents = true
      · rw [if_pos hh]
        obtain ⟨R', hem', hfull', hfl', hb'⟩ := retypeF K hcb pinv hW hS hc hcc hcw hh h2e hb2 hl' hlo hwf hflag
        refine ⟨_, _, _, rfl, ⟨R', by rw [hcw]; exact hem', hfull', by rw [hfl']; simp⟩, hb', by simp only; omega,
          fun _ => hS.wf c hc, fun h => by simp at h, fun h => by rw [hpw] at h; simp at h⟩
      · rw [if_neg hh]
        have hh' : K.src[c].hasContents = false := by simpa using hh
        have hnw : K.src[c].wide = false := by
          cases hw : K.src[c].wide
          · rfl
          · rw [wide_has_contents hok hw] at hh'; exact absurd hh' (by simp)
        have hcl : c + 1 = K.src.length := by simpa [hnw] using hcw
        have hat := hE rfl hpw c hc hcl hcc hh'
        refine ⟨_, _, _, rfl, ⟨_, h2e, full_of_lo hl' hc hcl hlo ?_, by rw [hflag]; simp⟩, hb2, Nat.le_of_lt hc, hwf,
          fun h => by simp at h, fun h => by rw [hpw] at h; simp at h⟩
        rw [hcv, hS.blank_view c hc hh', hcc, hat]; rfl
    · -- the line became wrapped: only the last character is re-typed
      simp only [Bool.true_eq_false, ↓reduceIte, List.append_nil]
      have hpw : pr.wrapped = false := by simpa using hcond
      have hRw : Ri.wrapped = false := hmid.flag false (hmOff hpw)
      have hh : K.src[c].hasContents = true := endCol_text hS (hoccS rfl) hc hce hcw
      rw [if_pos hh]
      obtain ⟨R', hem', hfull', hfl', hb'⟩ := retypeF K hcb pinv hW hS hc hcc hcw hh h1 hb1 hl (fun k hk _ => hv k hk) hwf hRw
      refine ⟨_, _, _, rfl, ⟨R', by rw [hcw]; exact hem', hfull', by rw [hfl', hpw]; rfl⟩, hb', by simp only; omega,
        fun _ => hS.wf c hc, fun _ _ => by rw [hcw], fun h => by rw [hpw] at h; simp at h⟩
  · unfold Row.diffEnd
    rw [if_neg hcond]
    refine ⟨_, _, _, rfl, ⟨Ri, hem, hfull, ?_⟩, hb, hcp, hwf, ?_, fun _ => ⟨rfl, rfl, rfl⟩⟩
    · cases hp : pr.wrapped
      · rw [hmid.flag false (hmOff hp)]; rfl
      · cases sw
        · rw [hp] at hcond; simp at hcond
        · rw [hmid.flag true (hmOn hp rfl)]; rfl
    · intro h1 h2
      rw [h1, h2] at hcond; simp at hcond

/-! ### one line of a diff, `wrapping = false`, any wrap flags — cells, wrap flag and cursor -/

/-- the cell loop of one line of a diff runs from a receiving line that shows the previous line, and ends in the loop
invariant at the end of the line -/
theorem row_diff_loopF (hW : WOk W) (hcb : C13.CbInv W cb) (p0 : Parser) (hr : Ready p0) (hpi : C13.ParserInv W p0)
    (hcv : Canvas (rsOf p0.ws).g) (i : Nat) (hi : i < (rsOf p0.ws).g.size.rows) (sr pr : Row)
    (hlen : sr.cells.length = (rsOf p0.ws).g.size.cols) (hplen : pr.cells.length = (rsOf p0.ws).g.size.cols)
    (hS : SrcOk W sr.cells) (hP : SrcOk W pr.cells) (F : FlagSpec sr.cells pr.cells)
    (Ri0 : Row) (hrow : (rsOf p0.ws).g.rows[i]? = some Ri0) (hshow : Ri0.cells.map view = pr.cells.map view)
    (hfl : ∀ b, F.mode = some b → Ri0.wrapped = b)
    (hpc : (rsOf p0.ws).g.pos.col ≤ (rsOf p0.ws).g.size.cols) :
    ∃ st', (Row.window (sr.cells.zip pr.cells) 0 sr.cells.length).foldlM (Row.diffStep sr.cells.length i false)
        (start (rsOf p0.ws).g.pos (rsOf p0.ws).pen) = .ok st' ∧
      JWF (mkK p0 hr hcv i hi sr hlen) (mkD hcb p0 hr hpi hcv i hi sr pr hlen hplen hP) F sr.cells.length st' := by
  have hJ0 : JWF (mkK p0 hr hcv i hi sr hlen) (mkD hcb p0 hr hpi hcv i hi sr pr hlen hplen hP) F 0
      (start (rsOf p0.ws).g.pos (rsOf p0.ws).pen) := by
    refine ⟨fun k _ h => absurd h (Nat.succ_ne_zero k), fun h => absurd h (Nat.lt_irrefl 0), fun _ => rfl,
      fun h => by simp [start] at h, fun _ => ⟨?_, ?_⟩⟩
    · refine ⟨Ri0, ?_, ⟨mid_zero' (by show pr.cells.length = sr.cells.length; rw [hplen, hlen]) hshow, hfl⟩, Bytes.nil, ?_⟩
      · show Emitted W cb p0 [] (shape (rsOf p0.ws) i Ri0 (rsOf p0.ws).g.pos (rsOf p0.ws).pen)
        rw [shape_self _ _ _ hrow]
        exact emitted_nil W cb p0 hr
      · refine ⟨?_, fun h => h⟩
        show (rsOf p0.ws).g.pos.col ≤ sr.cells.length
        rw [hlen]; exact hpc
    · intro e a h; simp [start] at h
  obtain ⟨st', e, hJ⟩ := fold_invWF (mkK p0 hr hcv i hi sr hlen) (mkD hcb p0 hr hpi hcv i hi sr pr hlen hplen hP) F hW hS
    (sr.cells.zip pr.cells) 0 _ (by rfl) (Nat.zero_le _) hJ0
  have hwin : Row.window (sr.cells.zip pr.cells) 0 sr.cells.length = C14.enumFrom 0 (sr.cells.zip pr.cells) := by
    rw [C03.window_eq, C14.windowFrom_eq]
    simp only [Nat.zero_add, List.drop_zero]
    rw [List.take_of_length_le (by simp [List.length_zip, hplen, hlen])]
  rw [hwin]
  exact ⟨st', e, hJ⟩

/-- when the last cell of the line is a blank that differs from the previous line's last cell, the cell loop ends
with an erase run pending over it, whose flush (`fmtFinish`) leaves the pen at that cell's attributes -/
theorem finish_penF (K : Ctx W cb) (D : DCtx K) (F : FlagSpec K.src D.prv) (hS : SrcOk W K.src) (hne : 0 < K.src.length)
    {st : Row.FmtSt} (h : JWF K D F K.src.length st) {c : Nat} (hc : c < K.src.length) (hcl : c + 1 = K.src.length)
    (hcc : K.src[c].cont = false) (hh : K.src[c].hasContents = false)
    (hdf : view K.src[c] ≠ view (D.prv[c]'(by rw [D.hprv]; exact hc))) :
    (Row.fmtFinish K.src.length K.i false st).prevAttrs = K.src[c].attrs := by
  have hpw : st.prevWasWide = false := by
    by_cases hp : st.prevWasWide = true
    · have := h.ww hne (Nat.le_refl _)
      rw [hp] at this
      obtain ⟨hj', _⟩ := hS.wide_next (K.src.length - 1) (by omega) this.symm
      omega
    · simpa using hp
  have hsome := h.last c hc hcl hpw hcc hh hdf
  have hB := h.B hpw
  cases he : st.erase with
  | none => exact absurd he hsome
  | some pa =>
    obtain ⟨e, a⟩ := pa
    obtain ⟨hej, hel, hwf, hvs⟩ := hB.er e a he
    have hv := hvs c hc (by omega) (by omega)
    have hat : K.src[c].attrs = a := by
      simp only [view, blankA, View.mk.injEq] at hv
      exact hv.2.2.2.1
    rw [hat]
    unfold Row.fmtFinish
    simp only [he, Row.eraseMove]
    by_cases hp : (st.prevAttrs != a) = true
    · simp [hp]
    · have : st.prevAttrs = a := by simpa using hp
      simp [hp, this]

/-- the flag specification that goes with a pair of lines: off when P's line is not wrapped, on when both are
(`Keep` needed), untracked when the line becomes unwrapped (the `ESC[X` of `diffEnd` clears it whatever it is) -/
def specOf (sr pr : Row) (hk : sr.wrapped = true → pr.wrapped = true → Keep sr.cells pr.cells) :
    FlagSpec sr.cells pr.cells :=
  ⟨if pr.wrapped then (if sr.wrapped then some true else none) else some false, by
    intro h
    cases hp : pr.wrapped <;> cases hs : sr.wrapped <;> simp [hp, hs] at h
    exact hk hs hp⟩

/-- **one line of a diff, `wrapping = false`, the line itself wrapped in P and/or S** (full width): on a receiver (a
parser satisfying the invariant) whose line `i` shows the previous line `pr` — cells AND wrap flag — processing the
bytes of `sr.write_contents_diff(pr, …)` makes line `i` show the cells of the current line `sr`; the receiving
line's wrap flag ends ON iff both `pr` and `sr` are wrapped; when `sr` is wrapped and `pr` is not, the flag is still
off, the cursor is in the pending-wrap column of line `i` (`np = (i, cols)`) and the receiver will record the wrap when
the next line's first character is typed.  Everything else on the receiver is as before (`shape`).
Hypotheses on the pair of lines: a wrapped line has its last column occupied (`Inv⁺`, true of every reachable
screen), and — when BOTH lines are wrapped — `noF8b`, the decidable condition that excludes the F8b patterns. -/
theorem row_diff_draws_flags (hW : WOk W) (hcb : C13.CbInv W cb) (p0 : Parser) (hr : Ready p0) (hpi : C13.ParserInv W p0)
    (hcv : Canvas (rsOf p0.ws).g) (i : Nat) (hi : i < (rsOf p0.ws).g.size.rows) (sr pr : Row)
    (hlen : sr.cells.length = (rsOf p0.ws).g.size.cols) (hplen : pr.cells.length = (rsOf p0.ws).g.size.cols)
    (hS : SrcOk W sr.cells) (hP : SrcOk W pr.cells)
    (Ri0 : Row) (hrow : (rsOf p0.ws).g.rows[i]? = some Ri0) (hshow : Ri0.cells.map view = pr.cells.map view)
    (hRw : Ri0.wrapped = pr.wrapped)
    (hpc : (rsOf p0.ws).g.pos.col ≤ (rsOf p0.ws).g.size.cols) (pw : Bool)
    (hoccS : sr.wrapped = true → lastOcc sr.cells) (hoccP : pr.wrapped = true → lastOcc pr.cells)
    (hnof : sr.wrapped = true → pr.wrapped = true → noF8b sr.cells pr.cells = true) :
    ∃ out np na, sr.writeContentsDiff pr 0 sr.cells.length i false pw (rsOf p0.ws).g.pos (rsOf p0.ws).pen = .ok (out, np, na) ∧
      (∃ Ri, Emitted W cb p0 out (shape (rsOf p0.ws) i Ri np na) ∧ Ri.cells.map view = sr.cells.map view ∧
        Ri.wrapped = (pr.wrapped && sr.wrapped)) ∧
      Bytes out ∧ np.col ≤ (rsOf p0.ws).g.size.cols ∧ (Attrs.wf (rsOf p0.ws).pen → Attrs.wf na) ∧
      (sr.wrapped = true → pr.wrapped = false → np = ⟨i, (rsOf p0.ws).g.size.cols⟩) := by
  have hne : 0 < sr.cells.length := by rw [hlen]; exact hcv.cols_pos
  let F : FlagSpec sr.cells pr.cells := specOf sr pr (fun h1 h2 => ⟨hoccS h1, hnof h1 h2⟩)
  have hFoff : pr.wrapped = false → F.mode = some false := by
    intro h; show (if pr.wrapped then _ else _) = _; rw [h]; rfl
  have hFon : pr.wrapped = true → sr.wrapped = true → F.mode = some true := by
    intro h1 h2; show (if pr.wrapped then _ else _) = _; rw [h1, h2]; rfl
  have hfl : ∀ b, F.mode = some b → Ri0.wrapped = b := by
    intro b hb
    have hb' : (if pr.wrapped then (if sr.wrapped then some true else none) else some false) = some b := hb
    rw [hRw]
    cases hp : pr.wrapped <;> cases hs : sr.wrapped <;> simp [hp, hs] at hb' <;> exact hb'.symm
  obtain ⟨st', e', hJ⟩ := row_diff_loopF hW hcb p0 hr hpi hcv i hi sr pr hlen hplen hS hP F Ri0 hrow hshow hfl hpc
  have hd := finish_drawnWF (mkK p0 hr hcv i hi sr hlen) (mkD hcb p0 hr hpi hcv i hi sr pr hlen hplen hP) F hW hS hne hJ
  unfold Row.writeContentsDiff
  have hst : Row.diffStart sr pr 0 i false pw (rsOf p0.ws).g.pos (rsOf p0.ws).pen =
      .ok (start (rsOf p0.ws).g.pos (rsOf p0.ws).pen) := by
    unfold Row.diffStart
    cases sr.cells[0]? <;> cases pr.cells[0]? <;> simp [start]
  have hE : sr.wrapped = false → pr.wrapped = true → ∀ c (hc : c < sr.cells.length), c + 1 = sr.cells.length →
      sr.cells[c].cont = false → sr.cells[c].hasContents = false →
      sr.cells[c].attrs = (Row.fmtFinish sr.cells.length i false st').prevAttrs := by
    intro hsu hpwr c hc hcl hcc hh
    have hcp : c < pr.cells.length := by rw [hplen, ← hlen]; exact hc
    have hdf : view sr.cells[c] ≠ view pr.cells[c] := by
      obtain ⟨hp0, hocc'⟩ := hoccP hpwr
      have hidx : pr.cells.length - 1 = c := by rw [hplen, ← hlen]; omega
      have hocc'' : pr.cells[c].hasContents = true ∨ pr.cells[c].cont = true := by
        simpa only [hidx] using hocc'
      intro hv
      simp only [view, View.mk.injEq] at hv
      rcases hocc'' with h1 | h1
      · simp only [Cell.hasContents, decide_eq_true_eq, decide_eq_false_iff_not] at h1 hh
        omega
      · rw [← hv.2.2.1, hcc] at h1; exact absurd h1 (by simp)
    exact (finish_penF (mkK p0 hr hcv i hi sr hlen) (mkD hcb p0 hr hpi hcv i hi sr pr hlen hplen hP) F hS hne hJ hc hcl hcc hh
      hdf).symm
  obtain ⟨out, np, na, eend, hres, hb, hnp, hwf, hpos, _⟩ :=
    diffEnd_drawnF (mkK p0 hr hcv i hi sr hlen) pr.cells F hcb hpi hW hS hne sr.wrapped pr hd
      (fun h1 h2 c hc h3 h4 h5 => hE h1 h2 c hc h3 h4 h5) hoccS hFoff hFon
  have eend' : Row.diffEnd sr pr i (Row.fmtFinish sr.cells.length i false st') = .ok (out, np, na) := eend
  rw [hst]
  simp only [ok_bind, Row.cols, e', eend']
  refine ⟨_, _, _, rfl, hres, hb, ?_, hwf, ?_⟩
  · have : np.col ≤ sr.cells.length := hnp
    rw [hlen] at this; exact this
  · intro h1 h2
    have := hpos h1 h2
    rw [this]
    show (⟨i, sr.cells.length⟩ : Pos) = _
    rw [hlen]

end Vt.C02
