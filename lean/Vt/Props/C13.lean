/-
  C13 / C03 — structural invariants and totality.

  `Inv W s` (Vt/Spec/Inv.lean; named clauses in Vt/Lemmas/Inv.lean) is the structural invariant.
  * `inv_new` : a newly constructed screen of any size ≥ 1x1 and any capacity satisfies `Inv`
    and `Inv⁺`, for every width function `W`.
  * `setScrollback_total` / `inv_setScrollback` : `set_scrollback(k)` never fails and preserves
    `Inv`, for every `k`.
  * `cell_some_iff` : at scrollback offset 0, under `Inv`, `cell(r,c)` is `Some` exactly when
    `r < rows ∧ c < cols`.
-/
import Vt.Lemmas.Inv
namespace Vt.C13
open Vt
set_option linter.unusedSimpArgs false

variable (W : Nat → Option Nat)

theorem cellOk_new : cellOk W Cell.new = true := by
  simp [cellOk, Cell.new, Utf8.fromUtf8]

theorem pairingOk_replicate_new (n : Nat) : pairingOk false (List.replicate n Cell.new) = true := by
  induction n with
  | zero => rfl
  | succ n ih => simp [List.replicate_succ, pairingOk, Cell.new] at ih ⊢; exact ih

theorem rowOk_new (cols : Nat) (h : 1 ≤ cols) : rowOk W (Row.new cols) = true := by
  simp only [rowOk, Row.new, List.length_replicate, ge_iff_le, decide_eq_true_eq, Bool.and_eq_true,
    List.all_eq_true, List.mem_replicate, ne_eq, and_imp, forall_eq_apply_imp_iff]
  exact ⟨⟨h, fun _ => cellOk_new W⟩, pairingOk_replicate_new cols⟩

/-- the grid `Grid::new` + `allocate_rows` builds -/
def newGrid (rows cols sb : Nat) : Grid :=
  { size := ⟨rows, cols⟩, pos := ⟨0, 0⟩, savedPos := ⟨0, 0⟩,
    rows := List.replicate rows (Row.new cols), scrollTop := 0, scrollBottom := rows - 1,
    originMode := false, savedOriginMode := false, scrollback := [], scrollbackLen := sb,
    scrollbackOffset := 0 }

theorem gridInv_new (rows cols sb : Nat) (hr : 1 ≤ rows) (hc : 1 ≤ cols) (hr' : rows ≤ 65535)
    (hc' : cols ≤ 65535) (un : Bool) :
    GridInv W (newGrid rows cols sb) un where
  rows_pos := hr
  cols_pos := hc
  rows_u16 := hr'
  cols_u16 := hc'
  rows_len := Or.inr (by simp [newGrid])
  row_ok := by
    intro r hr'
    simp only [newGrid, List.mem_replicate] at hr'
    rw [hr'.2]
    exact ⟨by simp [Row.new, newGrid], rowOk_new W cols hc⟩
  pos_row := by simp [newGrid]; omega
  pos_col := by simp [newGrid]
  spos_row := by simp [newGrid]; omega
  spos_col := by simp [newGrid]
  region_le := by simp [newGrid]
  region_lt := by simp [newGrid]; omega
  sb_len := by simp [newGrid]
  sb_off := by simp [newGrid]
  sb_ok := by simp [newGrid]

/-- the screen `Screen::new` builds -/
def newScreen (rows cols sb : Nat) : Screen :=
  { grid := newGrid rows cols sb,
    altGrid := { size := ⟨rows, cols⟩, pos := ⟨0, 0⟩, savedPos := ⟨0, 0⟩, rows := [], scrollTop := 0,
                 scrollBottom := rows - 1, originMode := false, savedOriginMode := false,
                 scrollback := [], scrollbackLen := 0, scrollbackOffset := 0 },
    attrs := Attrs.default, savedAttrs := Attrs.default, appKeypad := false, appCursor := false,
    hideCursor := false, altScreen := false, bracketedPaste := false, mouseMode := .none,
    mouseEnc := .default }

theorem new_eq (rows cols sb : Nat) (hr : 1 ≤ rows) :
    Screen.new ⟨rows, cols⟩ sb = .ok (newScreen rows cols sb) := by
  simp [Screen.new, Grid.new, subM, hr, newScreen, newGrid, Grid.allocateRows]

/-- `Screen::new` succeeds for every size ≥ 1x1 and yields a screen satisfying the invariant -/
theorem inv_new (rows cols sb : Nat) (hr : 1 ≤ rows) (hc : 1 ≤ cols) (hr' : rows ≤ 65535) (hc' : cols ≤ 65535) :
    Screen.new ⟨rows, cols⟩ sb = .ok (newScreen rows cols sb) ∧ Inv W (newScreen rows cols sb) := by
  refine ⟨new_eq rows cols sb hr, ?_⟩
  rw [inv_iff]
  refine ⟨gridInv_new W rows cols sb hr hc hr' hc' false, ?_, rfl, rfl, by simp [newScreen]⟩
  exact ⟨hr, hc, hr', hc', Or.inl ⟨rfl, rfl⟩, by simp [newScreen], by simp [newScreen]; omega, by simp [newScreen],
    by simp [newScreen]; omega, by simp [newScreen], by simp [newScreen], by simp [newScreen]; omega,
    by simp [newScreen], by simp [newScreen], by simp [newScreen]⟩

/-- `set_scrollback(k)` is total and only changes the view offset -/
theorem setScrollback_total (s : Screen) (k : Nat) :
    s.setScrollback k = .ok (s.setCur { s.cur with scrollbackOffset := min k s.cur.scrollback.length }) := by
  unfold Screen.setScrollback
  exact modifyGrid_ok_of rfl

theorem gridInv_setScrollback {g : Grid} {un : Bool} (k : Nat) (h : GridInv W g un) :
    GridInv W { g with scrollbackOffset := min k g.scrollback.length } un :=
  { h with sb_off := Nat.min_le_right _ _ }

theorem inv_setScrollback (s s' : Screen) (k : Nat) (hi : Inv W s) (h : s.setScrollback k = .ok s') :
    Inv W s' := by
  rw [setScrollback_total] at h
  simp only [Except.ok.injEq] at h
  subst h
  rw [inv_iff] at hi ⊢
  unfold Screen.setCur Screen.cur
  cases ha : s.altScreen
  · simp only [Bool.false_eq_true, ↓reduceIte]
    exact ⟨gridInv_setScrollback W k hi.grid, hi.alt, hi.alt_cap, hi.same_size, by simp [ha]⟩
  · simp only [↓reduceIte]
    exact ⟨hi.grid, gridInv_setScrollback W k hi.alt, hi.alt_cap, hi.same_size,
      fun _ => hi.alt_alloc ha⟩

/-- at offset 0 the visible rows are the live rows -/
theorem visibleRows_offset0 (g : Grid) (h : g.scrollbackOffset = 0) : g.visibleRows = .ok g.rows := by
  simp [Grid.visibleRows, h, subM]

/-- C13: at offset 0, `cell(r,c)` is `Some` exactly when `r < rows ∧ c < cols` -/
theorem cell_some_iff (s : Screen) (hi : Inv W s) (h0 : s.cur.scrollbackOffset = 0) (r c : Nat) :
    ∃ o, s.cell r c = .ok o ∧ (o.isSome ↔ r < s.cur.size.rows ∧ c < s.cur.size.cols) := by
  obtain ⟨hg, hl⟩ := ((inv_iff W s).mp hi).cur
  simp only [Screen.cell, Grid.visibleCell, Grid.visibleRow, visibleRows_offset0 _ h0, ok_bind, pure_eq_ok]
  refine ⟨_, rfl, ?_⟩
  by_cases hr : r < s.cur.rows.length
  · have hrow := (hg.row_ok _ (List.getElem_mem hr)).1
    simp only [List.getElem?_eq_getElem hr, Option.bind_some, Row.get]
    rw [← hl, ← hrow]
    simp [hr]
  · rw [List.getElem?_eq_none (by omega)]
    simp only [Option.bind_none, Option.isSome_none, Bool.false_eq_true, false_iff, not_and]
    intro h; omega

end Vt.C13
