/-
  Vt.Props.PosBound — the position the formatted emitters track never leaves the line:
  `write_contents_formatted` returns a `prev_pos` whose column is at most `cols` (the pending-wrap
  column), if it was given one.  Emitter side only; used by the cursor fix-up proofs.
-/
import Vt.Props.GridDraw
namespace Vt.PosBound
open Vt Vt.C03 Vt.RowDraw Vt.GridDraw
set_option linter.unusedSimpArgs false

variable {W : Nat → Option Nat}

/-- the bound: tracked column and the start of a pending erase run -/
def PB (cols : Nat) (st : Row.FmtSt) : Prop :=
  st.prevPos.col ≤ cols ∧ ∀ e a, st.erase = some (e, a) → e ≤ cols

theorem foldlM_ok_inv {α σ} (f : σ → α → M σ) (P : σ → Prop) :
    ∀ (l : List α) (s0 s' : σ), (∀ s x s1, x ∈ l → P s → f s x = .ok s1 → P s1) → P s0 →
      l.foldlM f s0 = .ok s' → P s'
  | [], s0, s', _, h0, e => by
    simp only [List.foldlM_nil, pure_eq_ok, Except.ok.injEq] at e
    rw [← e]; exact h0
  | x :: xs, s0, s', hstep, h0, e => by
    rw [List.foldlM_cons] at e
    cases h1 : f s0 x with
    | error err => rw [h1] at e; simp at e
    | ok s1 =>
      rw [h1] at e
      simp only [ok_bind] at e
      exact foldlM_ok_inv f P xs s1 s' (fun s y s2 hy => hstep s y s2 (List.mem_cons_of_mem _ hy))
        (hstep s0 x s1 (List.mem_cons_self ..) h0 h1) e

theorem mem_enumFrom {α} {l : List α} {k : Nat} {p : Nat × α} (h : p ∈ C14.enumFrom k l) :
    ∃ j, ∃ hj : j < l.length, p = (k + j, l[j]) := by
  simp only [C14.enumFrom, List.mem_map] at h
  obtain ⟨q, hq, rfl⟩ := h
  obtain ⟨a, i⟩ := q
  rw [List.mk_mem_zipIdx_iff_le_and_getElem?_sub] at hq
  obtain ⟨hle, hget⟩ := hq
  have hl := getElem?_lt hget
  refine ⟨i - k, hl, ?_⟩
  rw [List.getElem?_eq_getElem hl] at hget
  simp only [Option.some.injEq] at hget
  simp only [Prod.mk.injEq]
  exact ⟨by omega, hget.symm⟩

theorem eraseMove_pb (n row : Nat) (w : Bool) (st : Row.FmtSt) (e : Nat) (a : Attrs) (cols : Nat) (he : e ≤ cols)
    (h : ∀ e a, st.erase = some (e, a) → e ≤ cols) :
    (Row.eraseMove n row w st e a).prevPos.col ≤ cols ∧ (Row.eraseMove n row w st e a).erase = st.erase := by
  unfold Row.eraseMove
  simp only
  exact ⟨he, trivial⟩

theorem flush_pb (n row : Nat) (w : Bool) (st : Row.FmtSt) (col : Nat) (c : Cell) (cols : Nat)
    (h : PB cols st) {st1 : Row.FmtSt} (e : C03.flush n row w st col c = .ok st1) : PB cols st1 := by
  unfold C03.flush at e
  cases he : st.erase with
  | none =>
    rw [he] at e
    simp only [pure_eq_ok, Except.ok.injEq] at e
    rw [← e]; exact h
  | some pa =>
    obtain ⟨pc, a⟩ := pa
    rw [he] at e
    simp only at e
    split at e
    · cases hs : subM 331 col pc with
      | error err => rw [hs] at e; simp at e
      | ok k =>
        rw [hs] at e
        simp only [ok_bind, pure_eq_ok, Except.ok.injEq] at e
        rw [← e]
        have := eraseMove_pb n row w st pc a cols (h.2 pc a he) h.2
        exact ⟨this.1, fun e' a' h' => by simp at h'⟩
    · simp only [pure_eq_ok, Except.ok.injEq] at e
      rw [← e]; exact h

theorem emit_pb (n row : Nat) (w : Bool) (st : Row.FmtSt) (col : Nat) (c : Cell) (d : Bool) (cols : Nat)
    (hcol : col + (if c.isWide then 2 else 1) ≤ cols)
    (h : PB cols st) {st1 : Row.FmtSt} (e : C03.emit n row w st col c d = .ok st1) : PB cols st1 := by
  unfold C03.emit at e
  simp only at e
  by_cases hd : d = true
  · by_cases hh : c.hasContents = true
    · simp only [hd, hh, ↓reduceIte] at e
      cases hb : c.contentsBytes with
      | error err => rw [hb] at e; simp at e
      | ok bs =>
        rw [hb] at e
        simp only [ok_bind, pure_eq_ok, Except.ok.injEq] at e
        by_cases hp : ({ row := row, col := col } : Pos) = st.prevPos
        · have hc : st.prevPos.col = col := by rw [← hp]
          by_cases ha : st.prevAttrs = c.attrs
          · simp [hp, ha] at e
            rw [← e]
            exact ⟨by simp only; rw [hc]; exact hcol, h.2⟩
          · simp [hp, ha] at e
            rw [← e]
            exact ⟨by simp only; rw [hc]; exact hcol, h.2⟩
        · by_cases ha : st.prevAttrs = c.attrs
          · simp [hp, ha] at e
            rw [← e]
            exact ⟨by simp only; exact hcol, h.2⟩
          · simp [hp, ha] at e
            rw [← e]
            exact ⟨by simp only; exact hcol, h.2⟩
    · simp only [hd, hh, ↓reduceIte, Bool.false_eq_true] at e
      split at e
      · simp only [pure_eq_ok, Except.ok.injEq] at e
        rw [← e]
        refine ⟨h.1, fun e' a' h' => ?_⟩
        simp only [Option.some.injEq, Prod.mk.injEq] at h'
        have : col ≤ cols := by split at hcol <;> omega
        omega
      · simp only [pure_eq_ok, Except.ok.injEq] at e
        rw [← e]; exact h
  · simp only [hd, Bool.false_eq_true, ↓reduceIte, pure_eq_ok, Except.ok.injEq] at e
    rw [← e]; exact h

theorem fmtStep_pb (n row : Nat) (w : Bool) (st : Row.FmtSt) (col : Nat) (c : Cell) (cols : Nat)
    (hcol : col + (if c.isWide then 2 else 1) ≤ cols)
    (h : PB cols st) {st1 : Row.FmtSt} (e : Row.fmtStep n row w st (col, c) = .ok st1) : PB cols st1 := by
  unfold Row.fmtStep at e
  simp only at e
  split at e
  · simp only [pure_eq_ok, Except.ok.injEq] at e
    rw [← e]; exact h
  · rw [C03.fmtCellStep_eq] at e
    cases hf : C03.flush n row w { st with prevWasWide := c.isWide } col c with
    | error err => rw [hf] at e; simp at e
    | ok s2 =>
      rw [hf] at e
      simp only [ok_bind] at e
      exact emit_pb n row w s2 col c _ cols hcol (flush_pb n row w _ col c cols (show PB cols { st with prevWasWide := c.isWide } from h) hf) e

/-- **one line**: the returned position stays within the line -/
theorem row_formatted_pos_le {r : Row} (hS : SrcOk W r.cells) (i : Nat) (wrapping : Bool) (pp : Pos) (pa : Attrs)
    (hpp : pp.col ≤ r.cells.length) {bs : List Nat} {np : Pos} {na : Attrs}
    (e : r.writeContentsFormatted 0 r.cells.length i wrapping (some pp) (some pa) = .ok (bs, np, na)) :
    np.col ≤ r.cells.length := by
  unfold Row.writeContentsFormatted at e
  simp only [pure_bind', Option.getD_some] at e
  have hwin : Row.window r.cells 0 r.cells.length = C14.enumFrom 0 r.cells := by
    rw [C03.window_eq, C14.windowFrom_eq]; simp
  rw [hwin] at e
  generalize hst0 : (if (wrapping && r.firstIsDefault 0) = true then _ else _ : Row.FmtSt) = st0 at e
  have h0 : PB r.cells.length st0 := by
    rw [← hst0]
    split
    · refine ⟨Nat.zero_le _, fun e a h => ?_⟩
      split at h <;> simp at h
    · exact ⟨hpp, fun e a h => by simp at h⟩
  cases hf : (C14.enumFrom 0 r.cells).foldlM (Row.fmtStep r.cols i wrapping) st0 with
  | error err => rw [hf] at e; simp at e
  | ok st =>
    rw [hf] at e
    simp only [ok_bind, pure_eq_ok, Except.ok.injEq, Prod.mk.injEq] at e
    have hst : PB r.cells.length st := by
      refine foldlM_ok_inv _ (PB r.cells.length) _ st0 st ?_ h0 hf
      intro s x s1 hx hs hx1
      obtain ⟨j, hj, rfl⟩ := mem_enumFrom hx
      refine fmtStep_pb _ _ _ s _ _ _ ?_ hs hx1
      simp only [Nat.zero_add, Cell.isWide]
      by_cases hw : r.cells[j].wide = true
      · obtain ⟨hj', _⟩ := hS.wide_next j hj hw
        simp only [hw, ↓reduceIte]
        omega
      · simp only [hw, Bool.false_eq_true, ↓reduceIte]
        omega
    rw [← e.2.1]
    unfold Row.fmtFinish
    split
    · rename_i pc a he
      exact (eraseMove_pb r.cols i wrapping st pc a _ (hst.2 pc a he) hst.2).1
    · exact hst.1

/-- **the loop over the lines** -/
theorem fmtRowsLoop_pos_le {cols : Nat} : ∀ (rs : List Row) (i : Nat) (wrapping : Bool) (pp : Pos) (pa : Attrs)
    (out : List Nat), (∀ r ∈ rs, SrcOk W r.cells ∧ r.cells.length = cols) → pp.col ≤ cols →
    ∀ {out' pp' pa'}, Grid.fmtRowsLoop cols rs i wrapping pp pa out = .ok (out', pp', pa') → pp'.col ≤ cols
  | [], i, wrapping, pp, pa, out, _, hpp, out', pp', pa', e => by
    simp only [Grid.fmtRowsLoop, pure_eq_ok, Except.ok.injEq, Prod.mk.injEq] at e
    rw [← e.2.1]; exact hpp
  | r :: rs, i, wrapping, pp, pa, out, hrs, hpp, out', pp', pa', e => by
    obtain ⟨hS, hlen⟩ := hrs r (List.mem_cons_self ..)
    simp only [Grid.fmtRowsLoop] at e
    cases hr : r.writeContentsFormatted 0 cols i wrapping (some pp) (some pa) with
    | error err => rw [hr] at e; simp at e
    | ok res =>
      obtain ⟨bs, np, na⟩ := res
      rw [hr] at e
      simp only [ok_bind] at e
      have := row_formatted_pos_le hS i wrapping pp pa (by rw [hlen]; exact hpp) (by rw [hlen]; exact hr)
      rw [hlen] at this
      exact fmtRowsLoop_pos_le rs (i + 1) r.wrapped np na _ (fun r' hr' => hrs r' (List.mem_cons_of_mem _ hr')) this e

end Vt.PosBound
