/-
  Vt.Props.GridDraw — all the lines of a redraw: the loop of `Grid::write_contents_formatted` over the
  visible rows, on a receiver that has just been cleared.

  `rows_drawn`: after the loop the receiver's lines show the source lines — same cell views, same wrap
  flags (each flag set by the receiver's own autowrap when the next line was begun) — its cursor and pen
  are the `prev_pos` / `prev_attrs` the loop returns, and nothing else on the receiver has changed.
-/
import Vt.Props.RowDraw
import Vt.Props.PenWf
namespace Vt.GridDraw
open Vt Vt.Recv Vt.C19 Vt.C09 Vt.RowDraw
set_option linter.unusedSimpArgs false

variable {W : Nat → Option Nat} {cb : CbPolicy}

/-- processing continues from a processed prefix -/
theorem emitted_comp {p0 p1 : Parser} (h0 : Ready p0) {out : List Nat} {r : RS}
    (e1 : p0.process W cb out = .ok p1) (w1 : p1.ws = withRS p0.ws r) (r1 : Ready p1)
    {bs : List Nat} {r2 : RS} (h2 : Emitted W cb p1 bs r2) : Emitted W cb p0 (out ++ bs) r2 := by
  obtain ⟨p2, e2, w2, r2'⟩ := h2
  have hcar : (p0.vte.advance out).1.carry = [] := by rw [← process_vte W cb e1]; exact r1.2
  refine ⟨p2, ?_, ?_, r2'⟩
  · rw [C04.process_append W cb p0 out bs h0.2 hcar, e1]; exact e2
  · rw [w2, w1, withRS_withRS]

/-- a blank line of the receiver -/
def BlankRow (cols : Nat) (R : Row) : Prop :=
  R.wrapped = false ∧ R.cells.map view = List.replicate cols blankV ∧ ∀ c ∈ R.cells, c.contents.length = 22

theorem BlankRow.line {cols : Nat} {R : Row} (h : BlankRow cols R) (src : List Cell) (hs : src.length = cols) :
    Line src 0 R := by
  refine ⟨h.1, ?_, h.2.2⟩
  rw [h.2.1]; simp [hs]

/-- what is assumed of the source rows: each is `cols` wide and satisfies `SrcOk`; a wrapped row has its
last column occupied; the last row is not wrapped (`Inv`, `Inv⁺`, `emitInv`) -/
structure SrcRows (W : Nat → Option Nat) (cols : Nat) (rows : List Row) : Prop where
  width : ∀ r ∈ rows, r.cells.length = cols
  ok : ∀ r ∈ rows, SrcOk W r.cells
  wrapOcc : ∀ r ∈ rows, r.wrapped = true → lastOcc r.cells
  lastUnwrapped : ∀ r, rows.getLast? = some r → r.wrapped = false

/-- the state of the receiver between the lines of the loop: lines `< i` drawn, lines `≥ i` blank; when
line `i - 1` is wrapped its flag is still to be set by the first character typed on line `i` -/
structure RowsInv (srows : List Row) (cols i : Nat) (wrapping : Bool) (pp : Pos) (R : RS) : Prop where
  canvas : Canvas R.g
  hcols : R.g.size.cols = cols
  nrows : R.g.size.rows = srows.length
  pos : R.g.pos = pp
  row : ∀ k (hk : k < srows.length), ∃ Rk, R.g.rows[k]? = some Rk ∧
    (k < i → Rk.cells.map view = srows[k].cells.map view ∧ (∀ c ∈ Rk.cells, c.contents.length = 22) ∧
      Rk.wrapped = (if k + 1 = i ∧ wrapping = true then false else srows[k].wrapped)) ∧
    (i ≤ k → BlankRow cols Rk)
  wrap : wrapping = true → ∃ (_ : 1 ≤ i) (hl : i ≤ srows.length), pp = ⟨i - 1, cols⟩ ∧
    lastOcc (srows[i - 1]'(by omega)).cells ∧ (srows[i - 1]'(by omega)).wrapped = true

theorem occ_of_views {a b : Cell} (h : view a = view b) :
    (a.hasContents || a.cont) = (b.hasContents || b.cont) := by
  simp only [view, View.mk.injEq] at h
  simp [Cell.hasContents, h.1, h.2.2.1]

/-- re-establishing the invariant after line `i` has been drawn -/
theorem rowsInv_next {srows : List Row} {cols : Nat} (hS : SrcRows W cols srows) {i : Nat} (hi : i < srows.length)
    {wrapping : Bool} {pp : Pos} {R : RS} (hinv : RowsInv srows cols i wrapping pp R)
    {Ri : Row} (hfull : Line srows[i].cells cols Ri) {np : Pos}
    (hnp : lastOcc srows[i].cells → np = ⟨i, cols⟩)
    {R' : RS} (hsize : R'.g.size = R.g.size) (htop : R'.g.scrollTop = R.g.scrollTop)
    (hbot : R'.g.scrollBottom = R.g.scrollBottom) (horg : R'.g.originMode = R.g.originMode)
    (hlen : R'.g.rows.length = R.g.rows.length) (hpos : R'.g.pos = np)
    (hRi : R'.g.rows[i]? = some Ri)
    (hother : ∀ k, k ≠ i → R'.g.rows[k]? =
      (if wrapping = true ∧ k + 1 = i then (R.g.rows[k]?).map (fun r => r.wrap true) else R.g.rows[k]?)) :
    RowsInv srows cols (i + 1) srows[i].wrapped np R' := by
  have hwd := hS.width _ (List.getElem_mem hi)
  have hfull' : Line srows[i].cells srows[i].cells.length Ri := by rw [hwd]; exact hfull
  obtain ⟨hv, hw⟩ := Vt.RowDraw.Line.full hfull'
  refine ⟨?_, by rw [hsize]; exact hinv.hcols, by rw [hsize]; exact hinv.nrows, hpos, ?_, ?_⟩
  · -- canvas
    have hc := hinv.canvas
    refine ⟨by rw [hsize]; exact hc.rows_pos, by rw [hsize]; exact hc.cols_pos, by rw [hsize]; exact hc.rows_u16,
      by rw [hsize]; exact hc.cols_u16, by rw [htop]; exact hc.top, by rw [hbot, hsize]; exact hc.bottom,
      by rw [horg]; exact hc.origin, by rw [hlen, hsize]; exact hc.alloc, ?_⟩
    intro r hr
    obtain ⟨k, hk, rfl⟩ := List.getElem_of_mem hr
    rw [hsize]
    by_cases hki : k = i
    · subst hki
      have := hRi; rw [List.getElem?_eq_getElem hk] at this
      rw [Option.some.inj this, hfull.length (by omega), hwd, hinv.hcols]
    · have h1 := hother k hki
      rw [List.getElem?_eq_getElem hk] at h1
      have hk' : k < R.g.rows.length := by rw [← hlen]; exact hk
      rw [List.getElem?_eq_getElem hk'] at h1
      split at h1
      · simp only [Option.map_some, Option.some.injEq] at h1
        rw [h1]
        show (R.g.rows[k]).cells.length = _
        exact hc.width _ (List.getElem_mem hk')
      · rw [Option.some.inj h1]; exact hc.width _ (List.getElem_mem hk')
  · -- the lines
    intro k hk
    by_cases hki : k = i
    · subst hki
      refine ⟨Ri, hRi, fun _ => ⟨hv, hfull.len22, ?_⟩, fun h => by omega⟩
      rw [hw]
      by_cases hws : srows[k].wrapped = true <;> simp [hws]
    · obtain ⟨Rk, hRk, hdone, hblank⟩ := hinv.row k hk
      have h1 := hother k hki
      rw [hRk] at h1
      by_cases hcw : wrapping = true ∧ k + 1 = i
      · rw [if_pos hcw] at h1
        simp only [Option.map_some] at h1
        refine ⟨Rk.wrap true, h1, fun _ => ?_, fun h => by omega⟩
        obtain ⟨d1, d2, _⟩ := hdone (by omega)
        refine ⟨d1, d2, ?_⟩
        rw [if_neg (by omega)]
        -- the source line above is wrapped
        obtain ⟨_, _, _, _, hwt⟩ := hinv.wrap hcw.1
        have hkk : k = i - 1 := by omega
        subst hkk
        simp only [Row.wrap]
        exact hwt.symm
      · rw [if_neg hcw] at h1
        refine ⟨Rk, h1, fun hlt => ?_, fun hge => hblank (by omega)⟩
        obtain ⟨d1, d2, d3⟩ := hdone (by omega)
        refine ⟨d1, d2, ?_⟩
        rw [d3, if_neg (fun h => hcw ⟨h.2, h.1⟩), if_neg (fun h => hki (by omega))]
  · intro hwr
    exact ⟨by omega, by omega, by simpa using hnp (hS.wrapOcc _ (List.getElem_mem hi) hwr),
      by simpa using hS.wrapOcc _ (List.getElem_mem hi) hwr, by simpa using hwr⟩

theorem shape_rows_get (B : RS) (i : Nat) (Ri : Row) (np : Pos) (na : Attrs) (k : Nat) :
    (shape B i Ri np na).g.rows[k]? = if k = i ∧ i < B.g.rows.length then some Ri else B.g.rows[k]? := by
  simp only [shape, List.getElem?_set]
  by_cases hk : i = k
  · subst hk
    by_cases hl : i < B.g.rows.length
    · simp [hl]
    · simp [hl, List.getElem?_eq_none (Nat.le_of_not_lt hl)]
  · simp [hk, show ¬ k = i from fun h => hk h.symm]

/-- **one line of the loop** -/
theorem rows_step (hW : WOk W) (p0 : Parser) (h0 : Ready p0) {srows : List Row} {cols : Nat}
    (hS : SrcRows W cols srows) {i : Nat} (hi : i < srows.length) {wrapping : Bool} {pp : Pos} {R : RS} {out : List Nat}
    (hinv : RowsInv srows cols i wrapping pp R) (hem : Emitted W cb p0 out R) :
    ∃ bs np na R', srows[i].writeContentsFormatted 0 cols i wrapping (some pp) (some R.pen) = .ok (bs, np, na) ∧
      Emitted W cb p0 (out ++ bs) R' ∧ R'.pen = na ∧ RowsInv srows cols (i + 1) srows[i].wrapped np R' ∧
      R'.g.scrollbackOffset = R.g.scrollbackOffset ∧ (Attrs.wf R.pen → Attrs.wf na) := by
  have hmem : srows[i] ∈ srows := List.getElem_mem hi
  have hcwf : ∀ c ∈ srows[i].cells, Attrs.wf c.attrs := by
    intro c hc
    obtain ⟨k, hk, rfl⟩ := List.getElem_of_mem hc
    exact (hS.ok _ hmem).wf k hk
  have hwd := hS.width _ hmem
  obtain ⟨Ri0, hRi0, _, hblank⟩ := hinv.row i hi
  have hbl := (hblank (Nat.le_refl _)).line srows[i].cells hwd
  have hir : i < R.g.size.rows := by rw [hinv.nrows]; exact hi
  have hil : i < R.g.rows.length := by rw [hinv.canvas.alloc]; exact hir
  obtain ⟨p1, e1, w1, r1⟩ := hem
  have hrs : rsOf p1.ws = R := by rw [w1, rsOf_withRS]
  by_cases hw : wrapping = true
  · -- wrap-through
    subst hw
    obtain ⟨hi1, _, hpp, hocc, _⟩ := hinv.wrap rfl
    obtain ⟨Rp, hRp, hdone, _⟩ := hinv.row (i - 1) (by omega)
    obtain ⟨hpv, _, _⟩ := hdone (by omega)
    obtain ⟨hlen1, hoc⟩ := hocc
    have hwp := hS.width _ (List.getElem_mem (by omega : i - 1 < srows.length))
    have hRpl : Rp.cells.length = cols := by
      have := congrArg List.length hpv; simp only [List.length_map] at this; rw [this, hwp]
    have hlt : cols - 1 < Rp.cells.length := by rw [hRpl]; rw [hwp] at hlen1; omega
    have hvl : view Rp.cells[cols - 1] = view (srows[i - 1].cells[cols - 1]'(by rw [hwp]; rw [hwp] at hlen1; omega)) := by
      have := congrArg (fun l => l[cols - 1]?) hpv
      simp only [List.getElem?_map, List.getElem?_eq_getElem hlt,
        List.getElem?_eq_getElem (show cols - 1 < srows[i - 1].cells.length by rw [hwp]; rw [hwp] at hlen1; omega),
        Option.map_some, Option.some.injEq] at this
      exact this
    have hoccR : (Rp.cells[cols - 1].hasContents || Rp.cells[cols - 1].cont) = true := by
      rw [occ_of_views hvl]
      have : srows[i - 1].cells.length - 1 = cols - 1 := by rw [hwp]
      simp only [this] at hoc
      rcases hoc with h | h <;> simp [h]
    have hrow := row_formatted_draws_wrap (cb := cb) hW p1 r1 (by rw [hrs]; exact hinv.canvas) i hi1 (by rw [hrs]; exact hir)
      srows[i] (by rw [hrs, hinv.hcols]; exact hwd) (hS.ok _ hmem) Ri0 (by rw [hrs]; exact hRi0) hbl Rp
      (by rw [hrs]; exact hRp) Rp.cells[cols - 1]
      (by rw [hrs, hinv.hcols]; exact List.getElem?_eq_getElem hlt) hoccR
      (by rw [hrs, hinv.pos, hinv.hcols]; exact hpp)
    rw [hrs, hinv.pos, hwd] at hrow
    obtain ⟨bs, np, na, ewc, ⟨Ri, hemr, hfull⟩, hnp⟩ := hrow
    refine ⟨bs, np, na, shape (wrapBase R i Rp) i Ri np na, ewc, emitted_comp h0 e1 w1 r1 hemr, rfl, ?_, rfl,
      fun h => wcf_pen_wf srows[i] hcwf 0 cols i true pp R.pen h ewc⟩
    refine rowsInv_next hS hi hinv hfull hnp rfl rfl rfl rfl (by simp [shape, wrapBase]) rfl ?_ ?_
    · rw [shape_rows_get]; simp [wrapBase, hil]
    · intro k hk
      rw [shape_rows_get, if_neg (fun h => hk h.1)]
      simp only [wrapBase, List.getElem?_set, true_and]
      by_cases hk1 : k + 1 = i
      · have : i - 1 = k := by omega
        rw [if_pos this, if_pos hk1]
        have hkl : k < R.g.rows.length := by omega
        subst this
        rw [hRp]
        simp [hkl]
      · rw [if_neg (by omega), if_neg hk1]
  · -- the line above is not wrapped
    have hw' : wrapping = false := by simpa using hw
    subst hw'
    have hrow := row_formatted_draws (cb := cb) hW p1 r1 (by rw [hrs]; exact hinv.canvas) i (by rw [hrs]; exact hir)
      srows[i] (by rw [hrs, hinv.hcols]; exact hwd) (hS.ok _ hmem) Ri0 (by rw [hrs]; exact hRi0) hbl
    rw [hrs, hinv.pos, hwd] at hrow
    obtain ⟨bs, np, na, ewc, ⟨Ri, hemr, hfull⟩, hnp⟩ := hrow
    refine ⟨bs, np, na, shape R i Ri np na, ewc, emitted_comp h0 e1 w1 r1 hemr, rfl, ?_, rfl,
      fun h => wcf_pen_wf srows[i] hcwf 0 cols i false pp R.pen h ewc⟩
    refine rowsInv_next hS hi hinv hfull hnp rfl rfl rfl rfl (by simp [shape]) rfl ?_ ?_
    · rw [shape_rows_get]; simp [hil]
    · intro k hk
      rw [shape_rows_get, if_neg (fun h => hk h.1)]
      simp

/-- **the loop over the lines** -/
theorem rows_loop (hW : WOk W) (p0 : Parser) (h0 : Ready p0) {srows : List Row} {cols : Nat}
    (hS : SrcRows W cols srows) : ∀ (rs : List Row) (i : Nat) (wrapping : Bool) (pp : Pos) (out : List Nat) (R : RS),
    srows.drop i = rs → (hil : i ≤ srows.length) →
    (∀ h : 0 < i, wrapping = (srows[i - 1]'(by omega)).wrapped) → (i = 0 → wrapping = false) →
    RowsInv srows cols i wrapping pp R → Emitted W cb p0 out R →
    ∃ out' pp' pa' R', Grid.fmtRowsLoop cols rs i wrapping pp R.pen out = .ok (out', pp', pa') ∧
      Emitted W cb p0 out' R' ∧ R'.pen = pa' ∧ RowsInv srows cols srows.length false pp' R' ∧
      R'.g.scrollbackOffset = R.g.scrollbackOffset ∧ (Attrs.wf R.pen → Attrs.wf pa')
  | [], i, wrapping, pp, out, R, hrs, hil, hwv, hw0, hinv, hem => by
    have hi : i = srows.length := by
      have := congrArg List.length hrs
      simp only [List.length_drop, List.length_nil] at this
      omega
    subst hi
    have hwf : wrapping = false := by
      by_cases hn : srows.length = 0
      · exact hw0 hn
      · rw [hwv (by omega)]
        apply hS.lastUnwrapped
        rw [List.getLast?_eq_getElem?]
        exact List.getElem?_eq_getElem (by omega)
    subst hwf
    exact ⟨out, pp, R.pen, R, rfl, hem, rfl, hinv, rfl, id⟩
  | r :: rest, i, wrapping, pp, out, R, hrs, hil, hwv, hw0, hinv, hem => by
    have hi : i < srows.length := by
      have := congrArg List.length hrs
      simp only [List.length_drop, List.length_cons] at this
      omega
    have hr : srows[i] = r := by
      have := congrArg (fun l => l[0]?) hrs
      simp only [List.getElem?_drop, Nat.add_zero, List.getElem?_eq_getElem hi, List.getElem?_cons_zero,
        Option.some.injEq] at this
      exact this
    have hrest : srows.drop (i + 1) = rest := by
      have := congrArg List.tail hrs
      simpa [List.tail_drop] using this
    obtain ⟨bs, np, na, R1, ewc, hem1, hpen1, hinv1, hoff1, hwf1⟩ := rows_step hW p0 h0 hS hi hinv hem
    obtain ⟨out', pp', pa', R', e', hem', hpen', hinv', hoff', hwf'⟩ := rows_loop hW p0 h0 hS rest (i + 1) srows[i].wrapped np
      (out ++ bs) R1 hrest (by omega) (fun _ => by simp) (fun h => by omega) hinv1 hem1
    refine ⟨out', pp', pa', R', ?_, hem', hpen', hinv', hoff'.trans hoff1, fun h => hwf' (hpen1 ▸ hwf1 h)⟩
    rw [← hr]
    simp only [Grid.fmtRowsLoop, ewc, ok_bind]
    rw [← hpen1]
    exact e'

end Vt.GridDraw
