/-
  Vt.Props.InvF — the wrap-flag part of `Inv⁺`: a line flagged as wrapped ends in an occupied last column
  (text, or the second half of a wide character) — in the live lines and in the scrollback — and the last live
  line is never flagged.  Kept by every operation (partial-correctness form, on top of `Inv`).
-/
import Vt.Props.InvX3
import Vt.Props.C07b
import Vt.Props.C12
namespace Vt.InvF
open Vt Vt.C13 Vt.InvX
set_option linter.unusedSimpArgs false
set_option linter.unusedVariables false

variable {W : Nat → Option Nat}

def Occ (c : Cell) : Prop := (c.hasContents || c.cont) = true

/-- the last column of the line is occupied -/
def LastOcc (cs : List Cell) : Prop := ∃ L, cs[cs.length - 1]? = some L ∧ Occ L

theorem lastColOccupied_iff (r : Row) : lastColOccupied r = true ↔ LastOcc r.cells := by
  unfold lastColOccupied LastOcc
  rw [List.getLast?_eq_getElem?]
  cases r.cells[r.cells.length - 1]? with
  | none => simp
  | some c => simp [Occ]

def RF (r : Row) : Prop := r.wrapped = true → LastOcc r.cells

theorem rf_of_unwrapped {r : Row} (h : r.wrapped = false) : RF r := fun hw => by rw [h] at hw; simp at hw

theorem rf_pred : RowPred RF := ⟨fun n => rf_of_unwrapped rfl, fun r h => rf_of_unwrapped rfl⟩

/-- the last live line is not flagged -/
def LastUn (rows : List Row) : Prop := ∀ r, rows.getLast? = some r → r.wrapped = false

def GridF (g : Grid) : Prop := GridP RF g ∧ LastUn g.rows

/-! ### lists -/

theorem lastUn_nil : LastUn [] := fun r h => by simp at h

theorem lastUn_of_all {rows : List Row} (h : ∀ r ∈ rows, r.wrapped = false) : LastUn rows :=
  fun r hr => h r (List.mem_of_getLast? hr)

/-- replacing a line by one that is flagged only if the old one was -/
theorem lastUn_set {rows : List Row} (h : LastUn rows) {i : Nat} {x y : Row} (hx : rows[i]? = some x)
    (hy : y.wrapped = true → x.wrapped = true) : LastUn (rows.set i y) := by
  intro r hr
  rw [List.getLast?_eq_getElem?, List.length_set, List.getElem?_set] at hr
  have hi := getElem?_lt hx
  by_cases hil : i = rows.length - 1
  · simp only [hil, show rows.length - 1 < rows.length by omega, ↓reduceIte, Option.some.injEq] at hr
    subst hr
    have hlast : rows.getLast? = some x := by rw [List.getLast?_eq_getElem?, ← hil]; exact hx
    have := h x hlast
    cases hw : y.wrapped with
    | false => rfl
    | true => rw [hy hw] at this; simp at this
  · rw [if_neg hil] at hr
    exact h r (by rw [List.getLast?_eq_getElem?]; exact hr)

/-- flagging a line that is not the last one -/
theorem lastUn_set_inner {rows : List Row} (h : LastUn rows) {i : Nat} (y : Row) (hi : i + 1 < rows.length) :
    LastUn (rows.set i y) := by
  intro r hr
  rw [List.getLast?_eq_getElem?, List.length_set, List.getElem?_set] at hr
  rw [if_neg (by omega)] at hr
  exact h r (by rw [List.getLast?_eq_getElem?]; exact hr)

/-- inserting an unflagged line anywhere -/
theorem lastUn_insert {l : List Row} (h : LastUn l) (i : Nat) {x : Row} (hx : x.wrapped = false) :
    LastUn (l.take i ++ x :: l.drop i) := by
  intro r hr
  rw [List.getLast?_append, List.getLast?_cons, List.getLast?_drop] at hr
  simp only [Option.some_or, Option.some.injEq] at hr
  split at hr
  · simp only [Option.getD_none] at hr
    rw [← hr]; exact hx
  · cases hl : l.getLast? with
    | none => rw [hl] at hr; simp only [Option.getD_none] at hr; rw [← hr]; exact hx
    | some y => rw [hl] at hr; simp only [Option.getD_some] at hr; rw [← hr]; exact h y hl

/-- removing a line that is not the last one -/
theorem lastUn_eraseIdx {l : List Row} (h : LastUn l) {i : Nat} (hi : i + 1 < l.length) : LastUn (l.eraseIdx i) := by
  intro r hr
  rw [List.getLast?_eq_getElem?, List.length_eraseIdx, if_pos (by omega), List.getElem?_eraseIdx] at hr
  rw [if_neg (by omega)] at hr
  apply h r
  rw [List.getLast?_eq_getElem?]
  rw [show l.length - 1 = l.length - 1 - 1 + 1 by omega]
  exact hr

/-- the last line replaced by an unflagged one -/
theorem lastUn_set_last {l : List Row} {i : Nat} (hi : i + 1 = l.length) {y : Row} (hy : y.wrapped = false) :
    LastUn (l.set i y) := by
  intro r hr
  rw [List.getLast?_eq_getElem?, List.length_set, List.getElem?_set] at hr
  rw [if_pos (by omega)] at hr
  simp only [show i < l.length by omega, ↓reduceIte, Option.some.injEq] at hr
  rw [← hr]; exact hy

/-! ### lines inserted, deleted, scrolled: the last line -/

theorem removeM_spec {α} {site : Nat} {l l' : List α} {i : Nat} {x : α} (e : removeM site l i = .ok (x, l')) :
    i < l.length ∧ l' = l.eraseIdx i := by
  unfold removeM at e
  cases hc : l[i]? with
  | none => rw [hc] at e; simp [panic] at e
  | some z =>
    rw [hc] at e
    simp only [pure_eq_ok, Except.ok.injEq, Prod.mk.injEq] at e
    exact ⟨getElem?_lt hc, e.2.symm⟩

theorem insertM_spec {α} {site : Nat} {l l' : List α} {i : Nat} {x : α} (e : insertM site l i x = .ok l') :
    i ≤ l.length ∧ l' = l.take i ++ x :: l.drop i := by
  unfold insertM at e
  split at e
  · rename_i h
    simp only [pure_eq_ok, Except.ok.injEq] at e
    exact ⟨h, e.symm⟩
  · simp [panic] at e

theorem modifyM_spec {α} {site : Nat} {l l' : List α} {i : Nat} {f : α → α} (e : modifyM site l i (fun x => pure (f x)) = .ok l') :
    ∃ x, l[i]? = some x ∧ l' = l.set i (f x) := by
  unfold modifyM at e
  cases hc : l[i]? with
  | none => rw [hc] at e; simp [panic] at e
  | some z =>
    rw [hc] at e
    simp only [pure_bind', pure_eq_ok, ok_bind, Except.ok.injEq] at e
    exact ⟨z, rfl, e.symm⟩

/-- one step of IL / SD -/
theorem lastUn_down_step {g g' : Grid} (h : LastUn g.rows) (s1 s2 s3 at_ : Nat)
    (e : (do
      let (_, rows) ← removeM s1 g.rows g.scrollBottom
      let rows ← insertM s2 rows at_ g.newRow
      let rows ← modifyM s3 rows g.scrollBottom (fun r => pure (r.wrap false))
      pure { g with rows := rows } : M Grid) = .ok g') : LastUn g'.rows := by
  obtain ⟨p1, h1, e⟩ := bind_eq_ok.mp e
  obtain ⟨x, rows1⟩ := p1
  obtain ⟨hb, hr1⟩ := removeM_spec h1
  simp only at e
  obtain ⟨rows2, h2, e⟩ := bind_eq_ok.mp e
  obtain ⟨ha, hr2⟩ := insertM_spec h2
  obtain ⟨rows3, h3, e⟩ := bind_eq_ok.mp e
  obtain ⟨y, hy, hr3⟩ := modifyM_spec h3
  simp only [pure_eq_ok, Except.ok.injEq] at e
  rw [← e]
  simp only
  have hl2 : rows2.length = g.rows.length := by
    rw [hr2, hr1]
    simp only [List.length_append, List.length_take, List.length_cons, List.length_drop, List.length_eraseIdx, hb, ↓reduceIte]
    rw [hr1, List.length_eraseIdx, if_pos hb] at ha
    omega
  rw [hr3]
  by_cases hlast : g.scrollBottom + 1 = g.rows.length
  · exact lastUn_set_last (by rw [hl2]; exact hlast) rfl
  · have hu1 : LastUn rows1 := by rw [hr1]; exact lastUn_eraseIdx h (by omega)
    have hu2 : LastUn rows2 := by rw [hr2]; exact lastUn_insert hu1 at_ rfl
    exact lastUn_set hu2 hy (fun hw => by simp [Row.wrap] at hw)

/-- one step of DL / SU -/
theorem lastUn_up_step {g : Grid} (h : LastUn g.rows) {site1 site2 at_ : Nat} {x : Row} {rows1 rows2 : List Row}
    (hat : at_ < g.rows.length)
    (h1 : insertM site1 g.rows (g.scrollBottom + 1) g.newRow = .ok rows1)
    (h2 : removeM site2 rows1 at_ = .ok (x, rows2)) : LastUn rows2 := by
  obtain ⟨ha, hr1⟩ := insertM_spec h1
  obtain ⟨hb, hr2⟩ := removeM_spec h2
  have hu1 : LastUn rows1 := by rw [hr1]; exact lastUn_insert h _ rfl
  have hl1 : rows1.length = g.rows.length + 1 := by
    rw [hr1]
    simp only [List.length_append, List.length_take, List.length_cons, List.length_drop]
    omega
  rw [hr2]
  exact lastUn_eraseIdx hu1 (by omega)

/-! ### grid operations -/

theorem gridF_same {g g' : Grid} (h : GridF g) (hr : g'.rows = g.rows) (hs : g'.scrollback = g.scrollback) : GridF g' :=
  ⟨gridP_same h.1 hr hs, by rw [hr]; exact h.2⟩

/-- what the line loops keep besides the flags -/
structure Frame (g0 g : Grid) : Prop where
  len : g.rows.length = g0.rows.length
  pos : g.pos = g0.pos
  top : g.scrollTop = g0.scrollTop
  bot : g.scrollBottom = g0.scrollBottom

theorem frame_refl (g : Grid) : Frame g g := ⟨rfl, rfl, rfl, rfl⟩

theorem gridF_insertLines {g g' : Grid} (h : GridF g) (n : Nat) (e : g.insertLines n = .ok g') : GridF g' := by
  refine ⟨gridP_insertLines rf_pred h.1 n e, ?_⟩
  unfold Grid.insertLines at e
  exact gridP_iterateM (Q := fun g => LastUn g.rows) (fun g1 g2 h1 e1 => lastUn_down_step h1 430 431 432 g1.pos.row e1) _ g g' h.2 e

theorem gridF_scrollDown {g g' : Grid} (h : GridF g) (n : Nat) (e : g.scrollDown n = .ok g') : GridF g' := by
  refine ⟨gridP_scrollDown rf_pred h.1 n e, ?_⟩
  unfold Grid.scrollDown at e
  exact gridP_iterateM (Q := fun g => LastUn g.rows) (fun g1 g2 h1 e1 => lastUn_down_step h1 440 441 442 g1.scrollTop e1) _ g g' h.2 e

theorem up_lengths {g : Grid} {site1 site2 at_ : Nat} {x : Row} {rows1 rows2 : List Row}
    (h1 : insertM site1 g.rows (g.scrollBottom + 1) g.newRow = .ok rows1)
    (h2 : removeM site2 rows1 at_ = .ok (x, rows2)) : rows2.length = g.rows.length := by
  obtain ⟨ha, hr1⟩ := insertM_spec h1
  obtain ⟨hb, hr2⟩ := removeM_spec h2
  rw [hr2, List.length_eraseIdx, if_pos hb, hr1]
  simp only [List.length_append, List.length_take, List.length_cons, List.length_drop]
  omega

theorem gridF_deleteLines {g g' : Grid} (h : GridF g) (hpos : g.pos.row < g.rows.length) (n : Nat)
    (e : g.deleteLines n = .ok g') : GridF g' := by
  refine ⟨gridP_deleteLines rf_pred h.1 n e, ?_⟩
  unfold Grid.deleteLines at e
  obtain ⟨d, _, e⟩ := bind_eq_ok.mp e
  have := gridP_iterateM (Q := fun g1 => LastUn g1.rows ∧ Frame g g1) (fun g1 g2 h1 e1 => by
    obtain ⟨rows1, h2, e1⟩ := bind_eq_ok.mp e1
    obtain ⟨p, h3, e1⟩ := bind_eq_ok.mp e1
    obtain ⟨x, rows2⟩ := p
    simp only [pure_eq_ok, Except.ok.injEq] at e1
    rw [← e1]
    have hl := up_lengths h2 h3
    refine ⟨lastUn_up_step h1.1 (by rw [h1.2.pos, h1.2.len]; exact hpos) h2 h3, ?_⟩
    exact ⟨by simp only; rw [hl]; exact h1.2.len, h1.2.pos, h1.2.top, h1.2.bot⟩) _ g g' ⟨h.2, frame_refl g⟩ e
  exact this.1

theorem gridF_scrollUp {g g' : Grid} (h : GridF g) (hreg : g.scrollTop < g.rows.length) (n : Nat)
    (e : g.scrollUp n = .ok g') : GridF g' := by
  refine ⟨gridP_scrollUp rf_pred h.1 n e, ?_⟩
  unfold Grid.scrollUp at e
  obtain ⟨d, _, e⟩ := bind_eq_ok.mp e
  have := gridP_iterateM (Q := fun g1 => LastUn g1.rows ∧ Frame g g1) (fun g1 g2 h1 e1 => by
    obtain ⟨rows1, h2, e1⟩ := bind_eq_ok.mp e1
    obtain ⟨p, h3, e1⟩ := bind_eq_ok.mp e1
    obtain ⟨x, rows2⟩ := p
    simp only at e1
    have hl := up_lengths h2 h3
    have hu := lastUn_up_step h1.1 (by rw [h1.2.top, h1.2.len]; exact hreg) h2 h3
    have hfr : Frame g ({ g1 with rows := rows2 } : Grid) :=
      ⟨by simp only; rw [hl]; exact h1.2.len, h1.2.pos, h1.2.top, h1.2.bot⟩
    split at e1
    · obtain ⟨active, _, e1⟩ := bind_eq_ok.mp e1
      split at e1
      · simp only [pure_eq_ok, Except.ok.injEq] at e1
        rw [← e1]
        exact ⟨hu, ⟨hfr.len, hfr.pos, hfr.top, hfr.bot⟩⟩
      · simp only [pure_eq_ok, Except.ok.injEq] at e1
        rw [← e1]
        exact ⟨hu, hfr⟩
    · simp only [pure_eq_ok, Except.ok.injEq] at e1
      rw [← e1]; exact ⟨hu, hfr⟩) _ g g' ⟨h.2, frame_refl g⟩ e
  exact this.1

theorem gridF_rowIncScroll {g : Grid} {p : Grid × Nat} (h : GridF g) (hreg : g.scrollTop < g.rows.length) (n : Nat)
    (e : g.rowIncScroll n = .ok p) : GridF p.1 := by
  unfold Grid.rowIncScroll at e
  obtain ⟨q, hq, e⟩ := bind_eq_ok.mp e
  have hrows := rowClampBottom_rows hq
  have hq1 : GridF q.1 := gridF_same (g := { g with pos := { g.pos with row := satAddU16 g.pos.row n } }) h hrows.1 hrows.2.1
  obtain ⟨q1, q2⟩ := q
  simp only at e hq1 hrows
  split at e
  · obtain ⟨g2, h2, e⟩ := bind_eq_ok.mp e
    simp only [pure_eq_ok, Except.ok.injEq] at e
    rw [← e]
    exact gridF_scrollUp hq1 (by rw [hrows.2.2.2.1, hrows.1]; exact hreg) _ h2
  · simp only [pure_eq_ok, Except.ok.injEq] at e
    rw [← e]; exact hq1

theorem gridF_rowDecScroll {g g' : Grid} (h : GridF g) (n : Nat) (e : g.rowDecScroll n = .ok g') : GridF g' := by
  unfold Grid.rowDecScroll at e
  simp only at e
  have h1 := rowClampTop_rows ({ g with pos := { g.pos with row := g.pos.row - n } }) g.inScrollRegion
  exact gridF_scrollDown (gridF_same (g := g) h h1.1 h1.2.1) _ e

/-- an operation on the cursor line that keeps `RF` and never sets the flag -/
theorem gridF_modifyCurrentRow {g g' : Grid} (h : GridF g) {f : Row → M Row}
    (hf : ∀ r r', g.rows[g.pos.row]? = some r → f r = .ok r' → RF r' ∧ (r'.wrapped = true → r.wrapped = true))
    (e : g.modifyCurrentRow f = .ok g') : GridF g' := by
  unfold Grid.modifyCurrentRow at e
  obtain ⟨rows, hm, e⟩ := bind_eq_ok.mp e
  simp only [pure_eq_ok, Except.ok.injEq] at e
  rw [← e]
  unfold modifyM at hm
  cases hc : g.rows[g.pos.row]? with
  | none => rw [hc] at hm; simp [panic] at hm
  | some r =>
    rw [hc] at hm
    simp only at hm
    obtain ⟨r', hr', hm⟩ := bind_eq_ok.mp hm
    simp only [pure_eq_ok, Except.ok.injEq] at hm
    rw [← hm]
    obtain ⟨hrf, hwr⟩ := hf r r' hc hr'
    refine ⟨⟨?_, h.1.2⟩, lastUn_set h.2 hc hwr⟩
    intro x hx
    rcases List.mem_or_eq_of_mem_set hx with hx | rfl
    · exact h.1.1 x hx
    · exact hrf

theorem gridF_allCleared {g : Grid} (h : GridF g) {rows' : List Row} (hr : ∀ r ∈ rows', r.wrapped = false) :
    GridF { g with rows := rows' } :=
  ⟨⟨fun r hr' => rf_of_unwrapped (hr r hr'), h.1.2⟩, lastUn_of_all hr⟩

theorem gridF_eraseAll {g : Grid} (h : GridF g) (a : Attrs) : GridF (g.eraseAll a) := by
  refine gridF_allCleared h ?_
  intro r hr
  simp only [List.mem_map] at hr
  obtain ⟨r0, _, rfl⟩ := hr
  rfl

/-! ### erasing on the cursor line -/

theorem rf_erasedRow {cs : List Cell} {w : Bool} (hinv : CellsInv W cs) (h : RF ⟨cs, w⟩) (lo k : Nat) (a : Attrs)
    (hk : k ≤ cs.length) :
    RF (C07.erasedRow cs w lo k a) ∧ ((C07.erasedRow cs w lo k a).wrapped = true → w = true) := by
  unfold C07.erasedRow
  refine ⟨?_, ?_⟩
  · intro hw
    simp only at hw
    by_cases hfc : C07.flagCleared cs lo k = true
    · simp [hfc] at hw
    · simp only [hfc, Bool.false_eq_true, ↓reduceIte] at hw
      obtain ⟨L, hL, hocc⟩ := h hw
      simp only at hL
      have hpos : cs.length - 1 < cs.length := getElem?_lt hL
      refine ⟨C07.rangeCell lo k a (cs.length - 1) L, ?_, ?_⟩
      · simp only [C07.eraseRange, List.length_mapIdx, List.getElem?_mapIdx, hL, Option.map_some]
      · -- the last cell is not touched
        have hsame : C07.rangeCell lo k a (cs.length - 1) L = L := by
          unfold C07.rangeCell
          by_cases h1 : lo ≤ cs.length - 1 ∧ cs.length - 1 < k
          · exfalso
            have hkl : k = cs.length := by omega
            apply hfc
            simp only [C07.flagCleared, Bool.and_eq_true, decide_eq_true_eq, Bool.or_eq_true, beq_iff_eq]
            exact ⟨by omega, Or.inl hkl⟩
          · rw [if_neg h1]
            rw [if_neg (by omega)]
            by_cases h3 : cs.length - 1 = k ∧ lo < k ∧ L.cont = true
            · exfalso
              obtain ⟨j, d, hj, hd, hdw⟩ := paired_cont_prev hL hinv.paired h3.2.2
              have hk1 : k - 1 = j := by omega
              apply hfc
              simp only [C07.flagCleared, Bool.and_eq_true, decide_eq_true_eq, Bool.or_eq_true, beq_iff_eq]
              refine ⟨h3.2.1, Or.inr ⟨by omega, ?_⟩⟩
              rw [hk1, hd]; simp [hdw]
            · rw [if_neg h3]
        rw [hsame]; exact hocc
  · intro hw
    simp only at hw
    by_cases hfc : C07.flagCleared cs lo k = true
    · simp [hfc] at hw
    · simpa [hfc] using hw

theorem rf_eraseRange {r r' : Row} (hinv : CellsInv W r.cells) (h : RF r) (lo hi : Nat) (a : Attrs)
    (hhi : hi ≤ r.cells.length) (e : forRange lo hi (fun col (r : Row) => r.erase col a) r = .ok r') :
    RF r' ∧ (r'.wrapped = true → r.wrapped = true) := by
  by_cases hle : lo ≤ hi
  · obtain ⟨e', _⟩ := C07.erase_range_eq r.cells r.wrapped hinv lo a (hi - lo) (by omega)
    rw [show lo + (hi - lo) = hi by omega] at e'
    have : (⟨r.cells, r.wrapped⟩ : Row) = r := rfl
    rw [this] at e'
    rw [e'] at e
    rw [← Except.ok.inj e]
    exact rf_erasedRow hinv h lo hi a hhi
  · unfold forRange at e
    rw [show hi - lo = 0 by omega] at e
    simp only [List.range'_zero, List.foldlM_nil, pure_eq_ok, Except.ok.injEq] at e
    rw [← e]; exact ⟨h, id⟩

theorem curRow_inv {g : Grid} (hinv : GridInv W g true) {r : Row} (hr : g.rows[g.pos.row]? = some r) :
    CellsInv W r.cells ∧ r.cells.length = g.size.cols :=
  ⟨rowGood_cells W (hinv.row_ok r (List.mem_of_getElem? hr)), (hinv.row_ok r (List.mem_of_getElem? hr)).1⟩

theorem gridF_eraseRowForward {g g' : Grid} (hinv : GridInv W g true) (h : GridF g) (a : Attrs)
    (e : g.eraseRowForward a = .ok g') : GridF g' :=
  gridF_modifyCurrentRow h (fun r r' hr hrr => by
    obtain ⟨hci, hlen⟩ := curRow_inv hinv hr
    exact rf_eraseRange hci (h.1.1 r (List.mem_of_getElem? hr)) _ _ a (by rw [hlen]; exact Nat.le_refl _) hrr) e

theorem gridF_eraseRowBackward {g g' : Grid} (hinv : GridInv W g true) (h : GridF g) (a : Attrs)
    (e : g.eraseRowBackward a = .ok g') : GridF g' := by
  unfold Grid.eraseRowBackward at e
  obtain ⟨c1, hc1, e⟩ := bind_eq_ok.mp e
  have hc1' := (subM_eq_ok.mp hc1).2
  exact gridF_modifyCurrentRow h (fun r r' hr hrr => by
    obtain ⟨hci, hlen⟩ := curRow_inv hinv hr
    have := hinv.cols_pos
    exact rf_eraseRange hci (h.1.1 r (List.mem_of_getElem? hr)) _ _ a (by rw [hlen]; omega) hrr) e

theorem gridF_eraseCells {g g' : Grid} (hinv : GridInv W g true) (h : GridF g) (n : Nat) (a : Attrs)
    (e : g.eraseCells n a = .ok g') : GridF g' :=
  gridF_modifyCurrentRow h (fun r r' hr hrr => by
    obtain ⟨hci, hlen⟩ := curRow_inv hinv hr
    exact rf_eraseRange hci (h.1.1 r (List.mem_of_getElem? hr)) _ _ a (by rw [hlen]; exact Nat.min_le_right _ _) hrr) e

theorem gridF_eraseRow {g g' : Grid} (h : GridF g) (a : Attrs) (e : g.eraseRow a = .ok g') : GridF g' :=
  gridF_modifyCurrentRow h (fun r r' hr hrr => by
    simp only [pure_eq_ok, Except.ok.injEq] at hrr
    rw [← hrr]
    exact ⟨rf_of_unwrapped rfl, fun hw => by simp [Row.clear] at hw⟩) e

theorem gridF_rowsReplaced {g : Grid} (h : GridF g) (n : Nat) (a : Attrs) (keepHead : Bool) :
    GridF { g with rows := if keepHead then g.rows.take n ++ (g.rows.drop n).map (fun (r : Row) => r.clear a)
                           else (g.rows.take n).map (fun (r : Row) => r.clear a) ++ g.rows.drop n } := by
  refine ⟨⟨?_, h.1.2⟩, ?_⟩
  · intro r hr
    simp only at hr
    split at hr
    · rcases List.mem_append.mp hr with hr | hr
      · exact h.1.1 r (List.mem_of_mem_take hr)
      · simp only [List.mem_map] at hr
        obtain ⟨r0, _, rfl⟩ := hr
        exact rf_of_unwrapped rfl
    · rcases List.mem_append.mp hr with hr | hr
      · simp only [List.mem_map] at hr
        obtain ⟨r0, _, rfl⟩ := hr
        exact rf_of_unwrapped rfl
      · exact h.1.1 r (List.mem_of_mem_drop hr)
  · intro r hr
    simp only at hr
    split at hr
    · rw [List.getLast?_append] at hr
      cases hl : ((g.rows.drop n).map (fun (r : Row) => r.clear a)).getLast? with
      | some y =>
        rw [hl] at hr
        simp only [Option.some_or, Option.some.injEq] at hr
        have := List.mem_of_getLast? hl
        simp only [List.mem_map] at this
        obtain ⟨r0, _, rfl⟩ := this
        rw [← hr]; rfl
      | none =>
        rw [hl] at hr
        simp only [Option.none_or] at hr
        have hd : g.rows.drop n = [] := by
          cases hdd : g.rows.drop n with
          | nil => rfl
          | cons x xs => rw [hdd] at hl; simp at hl
        have : g.rows.take n = g.rows := by
          have := List.take_append_drop n g.rows
          rw [hd, List.append_nil] at this; exact this
        rw [this] at hr
        exact h.2 r hr
    · rw [List.getLast?_append, List.getLast?_drop] at hr
      split at hr
      · simp only [Option.none_or] at hr
        have := List.mem_of_getLast? hr
        simp only [List.mem_map] at this
        obtain ⟨r0, _, rfl⟩ := this
        rfl
      · cases hl : g.rows.getLast? with
        | none => rw [hl] at hr; simp only [Option.none_or] at hr
                  have := List.mem_of_getLast? hr
                  simp only [List.mem_map] at this
                  obtain ⟨r0, _, rfl⟩ := this
                  rfl
        | some y => rw [hl] at hr; simp only [Option.some_or, Option.some.injEq] at hr
                    rw [← hr]; exact h.2 y hl

theorem gridF_eraseAllForward {g g' : Grid} (hinv : GridInv W g true) (h : GridF g) (a : Attrs)
    (e : g.eraseAllForward a = .ok g') : GridF g' := by
  unfold Grid.eraseAllForward at e
  have h1 := gridF_rowsReplaced h (g.pos.row + 1) a true
  simp only [↓reduceIte] at h1
  refine gridF_modifyCurrentRow h1 (fun r r' hr hrr => ?_) e
  simp only at hr
  have hr0 : g.rows[g.pos.row]? = some r := by
    rw [List.getElem?_append_left (by
      simp only [List.length_take]
      have := getElem?_lt hr
      simp only [List.length_append, List.length_take, List.length_map, List.length_drop] at this
      omega)] at hr
    rw [List.getElem?_take_of_lt (by omega)] at hr
    exact hr
  obtain ⟨hci, hlen⟩ := curRow_inv hinv hr0
  exact rf_eraseRange hci (h.1.1 r (List.mem_of_getElem? hr0)) _ _ a (by rw [hlen]; exact Nat.le_refl _) hrr

theorem gridF_eraseAllBackward {g g' : Grid} (hinv : GridInv W g true) (h : GridF g) (a : Attrs)
    (e : g.eraseAllBackward a = .ok g') : GridF g' := by
  unfold Grid.eraseAllBackward at e
  have h1 := gridF_rowsReplaced h g.pos.row a false
  simp only [Bool.false_eq_true, ↓reduceIte] at h1
  unfold Grid.eraseRowBackward at e
  obtain ⟨c1, hc1, e⟩ := bind_eq_ok.mp e
  have hc1' := (subM_eq_ok.mp hc1).2
  refine gridF_modifyCurrentRow h1 (fun r r' hr hrr => ?_) e
  simp only at hr hrr
  have hr0 : g.rows[g.pos.row]? = some r := by
    rw [List.getElem?_append_right (by simp [List.length_take]; omega)] at hr
    simp only [List.length_map, List.length_take] at hr
    have hlt := getElem?_lt hr
    simp only [List.length_drop] at hlt
    rw [List.getElem?_drop] at hr
    rw [show g.pos.row + (g.pos.row - min g.pos.row g.rows.length) = g.pos.row by omega] at hr
    exact hr
  obtain ⟨hci, hlen⟩ := curRow_inv hinv hr0
  have := hinv.cols_pos
  exact rf_eraseRange hci (h.1.1 r (List.mem_of_getElem? hr0)) _ _ a (by rw [hlen]; simp only at hc1'; omega) hrr

/-! ### ICH / DCH / resize: the touched lines end unflagged -/

theorem truncate_unwrapped {r r' : Row} {len : Nat} (e : r.truncate len = .ok r') : r'.wrapped = false := by
  unfold Row.truncate at e
  simp only [pure_bind'] at e
  obtain ⟨i, _, e⟩ := bind_eq_ok.mp e
  obtain ⟨cs, _, e⟩ := bind_eq_ok.mp e
  simp only [pure_eq_ok, Except.ok.injEq] at e
  rw [← e]

theorem resize_unwrapped (r : Row) (len : Nat) (c : Cell) : (r.resize len c).wrapped = false := by
  unfold Row.resize; rfl

theorem gridF_insertCells {g g' : Grid} (h : GridF g) (n : Nat) (e : g.insertCells n = .ok g') : GridF g' := by
  unfold Grid.insertCells at e
  simp only at e
  have key : ∀ wide, g.modifyCurrentRow (fun row => do
      let row ← iterateM (min n g.size.cols) (Grid.insertStep wide g.pos.col) row
      row.truncate g.size.cols) = .ok g' → GridF g' := by
    intro wide e2
    refine gridF_modifyCurrentRow h (fun r r' hr hrr => ?_) e2
    obtain ⟨r1, h1, h2⟩ := bind_eq_ok.mp hrr
    have := truncate_unwrapped h2
    exact ⟨rf_of_unwrapped this, fun hw => by rw [this] at hw; simp at hw⟩
  split at e
  · obtain ⟨c, _, e2⟩ := bind_eq_ok.mp e
    exact key _ e2
  · exact key _ e

theorem gridF_deleteCells {g g' : Grid} (h : GridF g) (n : Nat) (e : g.deleteCells n = .ok g') : GridF g' := by
  unfold Grid.deleteCells at e
  simp only at e
  refine gridF_modifyCurrentRow h (fun r r' hr hrr => ?_) e
  obtain ⟨d, _, h2⟩ := bind_eq_ok.mp hrr
  obtain ⟨r1, h1, h3⟩ := bind_eq_ok.mp h2
  simp only [pure_eq_ok, Except.ok.injEq] at h3
  rw [← h3]
  exact ⟨rf_of_unwrapped (resize_unwrapped _ _ _), fun hw => by rw [resize_unwrapped] at hw; simp at hw⟩

theorem gridF_setSize {g g' : Grid} (h : GridF g) (sz : Size) (e : g.setSize sz = .ok g') : GridF g' := by
  have hr2 : ∀ r ∈ resizeList (List.map (fun (r : Row) => r.resize sz.cols Cell.new)
      (if (sz.cols != g.size.cols) = true then List.map (fun r => r.wrap false) g.rows else g.rows)) sz.rows (Row.new sz.cols),
      r.wrapped = false := by
    intro r hr
    unfold resizeList at hr
    rcases List.mem_append.mp hr with hr | hr
    · have hr := List.mem_of_mem_take hr
      simp only [List.mem_map] at hr
      obtain ⟨r0, hr0, rfl⟩ := hr
      exact resize_unwrapped _ _ _
    · rw [(List.mem_replicate.mp hr).2]; rfl
  generalize hrows : resizeList (List.map (fun (r : Row) => r.resize sz.cols Cell.new)
      (if (sz.cols != g.size.cols) = true then List.map (fun r => r.wrap false) g.rows else g.rows)) sz.rows (Row.new sz.cols) = rows2 at hr2
  have tail : ∀ (sb2 : Nat), (do
      let (g2, _) ← ((resized g sz rows2 sb2).rowClampTop false).1.rowClampBottom false
      let g3 ← g2.colClamp
      let r1 ← subM 4091 sz.rows 1
      let c1 ← subM 4092 sz.cols 1
      pure { g3 with savedPos := ⟨min g3.savedPos.row r1, min g3.savedPos.col c1⟩ } : M Grid) = .ok g' → GridF g' := by
    intro sb2 e
    have hx1 : GridF (resized g sz rows2 sb2) := ⟨⟨fun r hr => rf_of_unwrapped (hr2 r hr), h.1.2⟩, lastUn_of_all hr2⟩
    have h2 := rowClampTop_rows (resized g sz rows2 sb2) false
    obtain ⟨q, hq, e⟩ := bind_eq_ok.mp e
    have h3 := rowClampBottom_rows hq
    obtain ⟨q1, q2⟩ := q
    simp only at e h3
    obtain ⟨g4, h4, e⟩ := bind_eq_ok.mp e
    have h5 := colClamp_rows h4
    obtain ⟨r1, _, e⟩ := bind_eq_ok.mp e
    obtain ⟨c1, _, e⟩ := bind_eq_ok.mp e
    simp only [pure_eq_ok, Except.ok.injEq] at e
    rw [← e]
    exact gridF_same hx1 (by simp only; rw [h5.1, h3.1, h2.1]) (by simp only; rw [h5.2, h3.2.1, h2.2.1])
  unfold Grid.setSize at e
  simp only at e
  rw [hrows] at e
  obtain ⟨oldB, _, e⟩ := bind_eq_ok.mp e
  split at e
  · obtain ⟨sb1, _, e⟩ := bind_eq_ok.mp e
    split at e
    · obtain ⟨sb2, _, e⟩ := bind_eq_ok.mp e
      exact tail sb2 e
    · exact tail sb1 e
  · simp only [pure_bind'] at e
    split at e
    · obtain ⟨sb2, _, e⟩ := bind_eq_ok.mp e
      exact tail sb2 e
    · exact tail _ e

theorem gridF_clear {g g' : Grid} (h : GridF g) (e : g.clear = .ok g') : GridF g' := by
  unfold Grid.clear at e
  obtain ⟨b, _, e⟩ := bind_eq_ok.mp e
  simp only [pure_eq_ok, Except.ok.injEq] at e
  rw [← e]
  have hr : ∀ r ∈ g.rows.map (fun (r : Row) => r.clear Attrs.default), r.wrapped = false := by
    intro r hr
    simp only [List.mem_map] at hr
    obtain ⟨r0, _, rfl⟩ := hr
    rfl
  exact ⟨⟨fun r hr' => rf_of_unwrapped (hr r hr'), h.1.2⟩, lastUn_of_all hr⟩

theorem gridF_allocateRows {g : Grid} (h : GridF g) : GridF g.allocateRows := by
  unfold Grid.allocateRows
  split
  · have hr : ∀ r ∈ List.replicate g.size.rows (Row.new g.size.cols), r.wrapped = false := by
      intro r hr; rw [(List.mem_replicate.mp hr).2]; rfl
    exact ⟨⟨fun r hr' => rf_of_unwrapped (hr r hr'), h.1.2⟩, lastUn_of_all hr⟩
  · exact h

theorem gridF_new {sz : Size} {n : Nat} {g : Grid} (e : Grid.new sz n = .ok g) : GridF g := by
  unfold Grid.new at e
  obtain ⟨b, _, e⟩ := bind_eq_ok.mp e
  simp only [pure_eq_ok, Except.ok.injEq] at e
  rw [← e]
  exact ⟨⟨fun r hr => by simp at hr, fun r hr => by simp at hr⟩, lastUn_nil⟩

/-! ### printing -/

/-- one scroll step: the line above the bottom of the region is the old bottom line -/
theorem scrollUp_one_prev {g g' : Grid} (hb : g.scrollBottom < g.rows.length) (ht : g.scrollTop < g.scrollBottom)
    (e : C12.scrollUpStep g = .ok g') :
    g'.rows[g.scrollBottom - 1]? = g.rows[g.scrollBottom]? ∧ g'.scrollTop = g.scrollTop ∧ g'.scrollBottom = g.scrollBottom := by
  simp only [C12.scrollUpStep] at e
  obtain ⟨rows1, h1, e⟩ := bind_eq_ok.mp e
  obtain ⟨⟨removed, rows2⟩, h2, e⟩ := bind_eq_ok.mp e
  obtain ⟨_, hr1⟩ := insertM_spec h1
  obtain ⟨_, hr2⟩ := removeM_spec h2
  have hrows : rows2[g.scrollBottom - 1]? = g.rows[g.scrollBottom]? := by
    rw [hr2, List.getElem?_eraseIdx_of_ge (by omega), show g.scrollBottom - 1 + 1 = g.scrollBottom by omega, hr1]
    rw [List.getElem?_append_left (by simp [List.length_take]; omega)]
    rw [List.getElem?_take_of_lt (by omega)]
  simp only at e
  split at e
  · obtain ⟨active, _, e⟩ := bind_eq_ok.mp e
    split at e <;> (simp only [pure_eq_ok, Except.ok.injEq] at e; rw [← e]; exact ⟨hrows, rfl, rfl⟩)
  · simp only [pure_eq_ok, Except.ok.injEq] at e
    rw [← e]; exact ⟨hrows, rfl, rfl⟩

/-- where the line the cursor leaves ends up after `row_inc_scroll(1)` -/
theorem rowIncScroll_prev {g g' : Grid} {n : Nat} (hinv : GridInv W g true) (hl : g.rows.length = g.size.rows)
    (e : g.rowIncScroll 1 = .ok (g', n)) :
    (0 < n ∧ g'.scrollTop = g'.scrollBottom) ∨ g'.rows[g.pos.row - n]? = g.rows[g.pos.row]? := by
  have hpr := hinv.pos_row; have hrl := hinv.region_lt; have hrle := hinv.region_le; have hrp := hinv.rows_pos
  have hu := hinv.rows_u16
  simp only [Grid.rowIncScroll] at e
  rw [rowClampBottom_spec _ _ (by simpa using hrp)] at e
  simp only [ok_bind, satAddU16, U16_MAX] at e
  cases hin : g.inScrollRegion
  · simp only [hin, Bool.false_eq_true, ↓reduceIte, pure_eq_ok, Except.ok.injEq, Prod.mk.injEq] at e
    right
    rw [← e.1, ← e.2]
    rfl
  · simp only [hin, ↓reduceIte] at e
    simp only [Grid.inScrollRegion, Bool.and_eq_true, decide_eq_true_eq] at hin
    obtain ⟨g2, h2, e⟩ := bind_eq_ok.mp e
    simp only [pure_eq_ok, Except.ok.injEq, Prod.mk.injEq] at e
    obtain ⟨e1, e2⟩ := e
    subst e1
    rw [C12.scrollUp_eq_iterate] at h2
    simp only [subM_ok (show g.scrollTop ≤ g.size.rows by omega), ok_bind] at h2
    by_cases hbot : g.pos.row = g.scrollBottom
    · -- one line scrolls
      have hn : min (min (g.pos.row + 1) 65535 - g.scrollBottom) (g.size.rows - g.scrollTop) = 1 := by omega
      rw [hn] at h2
      simp only [iterateM] at h2
      obtain ⟨g3, h3, h2⟩ := bind_eq_ok.mp h2
      simp only [pure_eq_ok, Except.ok.injEq] at h2
      subst h2
      have hn1 : n = 1 := by omega
      by_cases htb : g.scrollTop = g.scrollBottom
      · left
        refine ⟨by omega, ?_⟩
        -- the step keeps the margins
        simp only [C12.scrollUpStep] at h3
        obtain ⟨rows1, _, h3⟩ := bind_eq_ok.mp h3
        obtain ⟨⟨removed, rows2⟩, _, h3⟩ := bind_eq_ok.mp h3
        simp only at h3
        split at h3
        · obtain ⟨active, _, h3⟩ := bind_eq_ok.mp h3
          split at h3 <;> (simp only [pure_eq_ok, Except.ok.injEq] at h3; rw [← h3]; exact htb)
        · simp only [pure_eq_ok, Except.ok.injEq] at h3
          rw [← h3]; exact htb
      · right
        have := scrollUp_one_prev (g := { g with pos := ⟨min (min (g.pos.row + 1) 65535) g.scrollBottom, g.pos.col⟩ })
          (by simp only; omega) (by simp only; omega) h3
        simp only at this
        rw [hn1, hbot]
        exact this.1
    · have hn : min (min (g.pos.row + 1) 65535 - g.scrollBottom) (g.size.rows - g.scrollTop) = 0 := by omega
      rw [hn] at h2
      simp only [iterateM, pure_eq_ok, Except.ok.injEq] at h2
      right
      have hn0 : n = 0 := by omega
      rw [← h2, hn0]
      rfl

theorem gridF_colWrap {g g' : Grid} (hinv : GridInv W g true) (hl : g.rows.length = g.size.rows) (h : GridF g)
    (width : Nat) (wrap : Bool) (hwr : wrap = true → ∀ r, g.rows[g.pos.row]? = some r → LastOcc r.cells)
    (e : g.colWrap width wrap = .ok g') : GridF g' := by
  unfold Grid.colWrap at e
  obtain ⟨lim, _, e⟩ := bind_eq_ok.mp e
  split at e
  · simp only at e
    obtain ⟨p, hp, e⟩ := bind_eq_ok.mp e
    obtain ⟨g1, n⟩ := p
    have hinv0 : GridInv W ({ g with pos := { g.pos with col := 0 } } : Grid) true :=
      (stepOk_pos W hinv hl ⟨g.pos.row, 0⟩ hinv.pos_row (Nat.zero_le _)).inv
    have hreg : g.scrollTop < g.rows.length := by
      have := hinv.region_le; have := hinv.region_lt; omega
    have hp1 : GridF g1 := gridF_rowIncScroll (g := { g with pos := { g.pos with col := 0 } }) h hreg 1 hp
    obtain ⟨g1', n', e1', s1, _, _, _, _⟩ := rowIncScroll_ok hinv0 hl
    have hgn : g1' = g1 ∧ n' = n := by
      rw [hp] at e1'
      have := Except.ok.inj e1'
      simp only [Prod.mk.injEq] at this
      exact ⟨this.1.symm, this.2.symm⟩
    obtain ⟨rfl, rfl⟩ := hgn
    have hprev := rowIncScroll_prev hinv0 hl hp
    simp only at e
    split at e
    · simp only [pure_eq_ok, Except.ok.injEq] at e
      rw [← e]; exact hp1
    · rename_i hnot
      obtain ⟨pr, hpr, e⟩ := bind_eq_ok.mp e
      obtain ⟨rows, hm, e⟩ := bind_eq_ok.mp e
      simp only [pure_eq_ok, Except.ok.injEq] at e
      rw [← e]
      obtain ⟨r1, hr1, hrows⟩ := modifyM_spec hm
      have hpr' := (subM_eq_ok.mp hpr).2
      rw [hrows]
      by_cases hb : (wrap && pr + 1 == g1'.pos.row) = true
      · -- the line the cursor left is flagged: it is the old cursor line, whose end is occupied
        simp only [Bool.and_eq_true, beq_iff_eq] at hb
        have hident : g1'.rows[pr]? = g.rows[g.pos.row]? := by
          rcases hprev with ⟨h1, h2⟩ | h2
          · exfalso; apply hnot
            simp only [Bool.and_eq_true, decide_eq_true_eq, beq_iff_eq]
            exact ⟨h1, h2⟩
          · rw [hpr']; exact h2
        have hocc : LastOcc r1.cells := hwr hb.1 r1 (by rw [← hident]; exact hr1)
        have hlt : pr + 1 < g1'.rows.length := by rw [hb.2, s1.len]; exact s1.inv.pos_row
        refine ⟨⟨?_, hp1.1.2⟩, lastUn_set_inner hp1.2 _ hlt⟩
        intro x hx
        rcases List.mem_or_eq_of_mem_set hx with hx | rfl
        · exact hp1.1.1 x hx
        · intro _; exact hocc
      · have hb' : (wrap && pr + 1 == g1'.pos.row) = false := by simpa using hb
        rw [hb']
        refine ⟨⟨?_, hp1.1.2⟩, lastUn_set hp1.2 hr1 (fun hw => by simp [Row.wrap] at hw)⟩
        intro x hx
        rcases List.mem_or_eq_of_mem_set hx with hx | rfl
        · exact hp1.1.1 x hx
        · exact rf_of_unwrapped rfl
  · simp only [pure_eq_ok, Except.ok.injEq] at e
    rw [← e]; exact h

/-- appending to a cell keeps it occupied -/
theorem append_occ {c c' : Cell} {z : Nat} (e : c.append z = .ok c') (h : Occ c) : Occ c' := by
  unfold Cell.append at e
  split at e
  · simp only [pure_eq_ok, Except.ok.injEq] at e
    rw [← e]; exact h
  · have hn := Utf8.encode_length_pos z
    have key : ∀ (cell : Cell) (st : Nat), cell.cont = c.cont → cell.appendChar st z = .ok c' → Occ c' := by
      intro cell st hcont e1
      unfold Cell.appendChar at e1
      simp only at e1
      split at e1
      · simp only [pure_eq_ok, Except.ok.injEq] at e1
        rw [← e1]
        simp only [Occ, Cell.hasContents, Bool.or_eq_true, decide_eq_true_eq]
        left; omega
      · simp [panic] at e1
    simp only at e
    split at e
    · exact key { c with contents := c.contents.set 0 32, len := c.len + 1 } _ rfl e
    · exact key c _ rfl e

theorem lastOcc_set {cs : List Cell} (h : LastOcc cs) {i : Nat} {c c' : Cell} (hc : cs[i]? = some c)
    (hocc : Occ c → Occ c') : LastOcc (cs.set i c') := by
  obtain ⟨L, hL, ho⟩ := h
  unfold LastOcc
  rw [List.length_set, List.getElem?_set]
  by_cases hi : i = cs.length - 1
  · have : i < cs.length := getElem?_lt hc
    rw [if_pos hi, if_pos this]
    refine ⟨c', rfl, hocc ?_⟩
    rw [hi, hL] at hc
    rw [← Option.some.inj hc]; exact ho
  · rw [if_neg hi]; exact ⟨L, hL, ho⟩

theorem gridF_modifyCellM {g g' : Grid} (h : GridF g) {site : Nat} {pos : Pos} {f : Cell → M Cell}
    (hf : ∀ c c', f c = .ok c' → Occ c → Occ c') (e : g.modifyCellM site pos f = .ok g') : GridF g' := by
  unfold Grid.modifyCellM at e
  obtain ⟨rows, hm, e⟩ := bind_eq_ok.mp e
  simp only [pure_eq_ok, Except.ok.injEq] at e
  rw [← e]
  unfold modifyM at hm
  cases hc : g.rows[pos.row]? with
  | none => rw [hc] at hm; simp [panic] at hm
  | some r =>
    rw [hc] at hm
    simp only at hm
    obtain ⟨r', hr', hm⟩ := bind_eq_ok.mp hm
    simp only [pure_eq_ok, Except.ok.injEq] at hm
    rw [← hm]
    obtain ⟨cs, hcs, hr'⟩ := bind_eq_ok.mp hr'
    simp only [pure_eq_ok, Except.ok.injEq] at hr'
    cases hcc : r.cells[pos.col]? with
    | none => rw [hcc] at hcs; simp [panic] at hcs
    | some c =>
      rw [hcc] at hcs
      simp only at hcs
      obtain ⟨c', hc', hcs⟩ := bind_eq_ok.mp hcs
      simp only [pure_eq_ok, Except.ok.injEq] at hcs
      have hrf : RF r' := by
        rw [← hr', ← hcs]
        intro hw
        exact lastOcc_set (h.1.1 r (List.mem_of_getElem? hc) hw) hcc (hf c c' hc')
      refine ⟨⟨?_, h.1.2⟩, lastUn_set h.2 hc (fun hw => by rw [← hr'] at hw; exact hw)⟩
      intro x hx
      rcases List.mem_or_eq_of_mem_set hx with hx | rfl
      · exact h.1.1 x hx
      · exact hrf

theorem gridF_appendToPrev {g g' : Grid} (h : GridF g) {row col z : Nat}
    (e : g.appendToPrev row col z = .ok g') : GridF g' := by
  unfold Grid.appendToPrev at e
  obtain ⟨pc, _, e⟩ := bind_eq_ok.mp e
  split at e
  · obtain ⟨c2, _, e⟩ := bind_eq_ok.mp e
    exact gridF_modifyCellM h (fun c c' hcc => append_occ hcc) e
  · exact gridF_modifyCellM h (fun c c' hcc => append_occ hcc) e

theorem gridF_textZero {g g' : Grid} (h : GridF g) {z : Nat} (e : g.textZero z = .ok g') : GridF g' := by
  unfold Grid.textZero at e
  simp only at e
  split at e
  · exact gridF_appendToPrev h e
  · split at e
    · cases hd : g.drawingRow (g.pos.row - 1) with
      | none => rw [hd] at e; simp [panic] at e
      | some pr =>
        rw [hd] at e
        simp only [pure_bind'] at e
        split at e
        · obtain ⟨c1, _, e⟩ := bind_eq_ok.mp e
          exact gridF_appendToPrev h e
        · simp only [pure_eq_ok, Except.ok.injEq] at e
          rw [← e]; exact h
    · simp only [pure_eq_ok, Except.ok.injEq] at e
      rw [← e]; exact h

/-- the cell in column `last` is occupied if the line is flagged, and the flag was set before -/
def KeepL (last : Nat) (w0 : Bool) (r : Row) : Prop :=
  r.cells.length = last + 1 ∧ (r.wrapped = true → (∃ L, r.cells[last]? = some L ∧ Occ L) ∧ w0 = true)

theorem keepL_cells {last : Nat} {w0 : Bool} {row : Row} (h : KeepL last w0 row) {site i : Nat} {f : Cell → M Cell}
    {cs : List Cell} (hm : modifyM site row.cells i f = .ok cs) (hocc : i = last → ∀ x x', f x = .ok x' → Occ x') :
    KeepL last w0 { row with cells := cs } := by
  unfold modifyM at hm
  cases hc : row.cells[i]? with
  | none => rw [hc] at hm; simp [panic] at hm
  | some x =>
    rw [hc] at hm
    simp only at hm
    obtain ⟨y, hy, hm⟩ := bind_eq_ok.mp hm
    simp only [pure_eq_ok, Except.ok.injEq] at hm
    rw [← hm]
    refine ⟨by simp only [List.length_set]; exact h.1, ?_⟩
    intro hw
    obtain ⟨⟨L, hL, ho⟩, hw0⟩ := h.2 hw
    refine ⟨?_, hw0⟩
    simp only [List.getElem?_set]
    by_cases hi : i = last
    · rw [if_pos hi, if_pos (getElem?_lt hc)]
      exact ⟨y, rfl, hocc hi x y hy⟩
    · rw [if_neg hi]; exact ⟨L, hL, ho⟩

theorem set_occ {cell x' : Cell} {ch : Nat} {a : Attrs} (e : cell.set W ch a = .ok x') : Occ x' := by
  unfold Cell.set at e
  simp only at e
  obtain ⟨c1, h1, e⟩ := bind_eq_ok.mp e
  simp only [pure_eq_ok, Except.ok.injEq] at e
  unfold Cell.appendChar at h1
  simp only at h1
  split at h1
  · simp only [pure_eq_ok, Except.ok.injEq] at h1
    rw [← e, ← h1]
    have := Utf8.encode_length_pos ch
    simp only [Occ, Cell.hasContents, Bool.or_eq_true, decide_eq_true_eq]
    left; omega
  · simp [panic] at h1

theorem keepL_textWideRow {row row' : Row} {col cols last : Nat} {a : Attrs} {c width : Nat}
    (hlast : last + 1 = cols) (hfit : col + width ≤ cols) (hw1 : 1 ≤ width)
    (h : KeepL last row.wrapped row) (e : Grid.textWideRow W row col cols a c width = .ok row') :
    KeepL last row.wrapped row' := by
  generalize row.wrapped = w0 at h ⊢
  have tail4 : ∀ (row4 : Row), KeepL last w0 row4 →
      (do
        let cs ← modifyM 539 row4.cells (col + 1)
          (fun cell => pure ((cell.clear Attrs.default).setWideContinuation true))
        pure { row4 with cells := cs } : M Row) = .ok row' → KeepL last w0 row' := by
    intro row4 hr4 e
    obtain ⟨cs5, hm5, e⟩ := bind_eq_ok.mp e
    simp only [pure_eq_ok, Except.ok.injEq] at e
    rw [← e]
    refine keepL_cells hr4 hm5 (fun _ x x' hx => ?_)
    simp only [pure_eq_ok, Except.ok.injEq] at hx
    rw [← hx]
    simp [Occ, Cell.setWideContinuation]
  have tail3 : ∀ (row3 : Row), KeepL last w0 row3 →
      (if width > 1 then do
        let cell2 ← getM 536 row3.cells (col + 1)
        let row ←
          if cell2.isWide then do
            let cs ← modifyM 537 row3.cells (col + 2) (fun cell => pure (cell.clear a))
            let row := { row3 with cells := cs }
            if col + 2 + 1 == cols then pure (row.wrap false) else pure row
          else pure row3
        let cs ← modifyM 539 row.cells (col + 1)
          (fun cell => pure ((cell.clear Attrs.default).setWideContinuation true))
        pure { row with cells := cs }
      else pure row3 : M Row) = .ok row' → KeepL last w0 row' := by
    intro row3 hr3 e
    split at e
    · obtain ⟨cell2, _, e⟩ := bind_eq_ok.mp e
      simp only at e
      split at e
      · obtain ⟨cs, hm, e⟩ := bind_eq_ok.mp e
        split at e
        · simp only [pure_bind'] at e
          have hlen3 : cs.length = last + 1 := by
            unfold modifyM at hm
            cases hc : row3.cells[col + 2]? with
            | none => rw [hc] at hm; simp [panic] at hm
            | some x =>
              rw [hc] at hm
              simp only [pure_bind', ok_bind, pure_eq_ok, Except.ok.injEq] at hm
              rw [← hm, List.length_set]; exact hr3.1
          exact tail4 (({ row3 with cells := cs } : Row).wrap false) ⟨hlen3, fun hw => by simp [Row.wrap] at hw⟩ e
        · rename_i hne
          have hne' : ¬ col + 2 + 1 = cols := by simpa using hne
          exact tail4 _ (keepL_cells hr3 hm (fun hi => by omega)) e
      · exact tail4 _ hr3 e
    · simp only [pure_eq_ok, Except.ok.injEq] at e
      rw [← e]; exact hr3
  have tail2 : ∀ (row2 : Row), KeepL last w0 row2 →
      (do
        let cs ← modifyM 535 row2.cells col (fun cell => cell.set W c a)
        let row := { row2 with cells := cs }
        if width > 1 then do
          let cell2 ← getM 536 row.cells (col + 1)
          let row ←
            if cell2.isWide then do
              let cs ← modifyM 537 row.cells (col + 2) (fun cell => pure (cell.clear a))
              let row := { row with cells := cs }
              if col + 2 + 1 == cols then pure (row.wrap false) else pure row
            else pure row
          let cs ← modifyM 539 row.cells (col + 1)
            (fun cell => pure ((cell.clear Attrs.default).setWideContinuation true))
          pure { row with cells := cs }
        else pure row : M Row) = .ok row' → KeepL last w0 row' := by
    intro row2 hr2 e
    obtain ⟨cs3, hm3, e⟩ := bind_eq_ok.mp e
    exact tail3 { row2 with cells := cs3 } (keepL_cells hr2 hm3 (fun _ x x' hx => set_occ hx)) e
  have tail1 : ∀ (row1 : Row), KeepL last w0 row1 →
      (do
        let cell1 ← getM 533 row1.cells col
        let row ←
          if cell1.isWide then do
            let cs ← modifyM 534 row1.cells (col + 1) (fun cell => cell.set W 32 a)
            pure { row1 with cells := cs }
          else pure row1
        let cs ← modifyM 535 row.cells col (fun cell => cell.set W c a)
        let row := { row with cells := cs }
        if width > 1 then do
          let cell2 ← getM 536 row.cells (col + 1)
          let row ←
            if cell2.isWide then do
              let cs ← modifyM 537 row.cells (col + 2) (fun cell => pure (cell.clear a))
              let row := { row with cells := cs }
              if col + 2 + 1 == cols then pure (row.wrap false) else pure row
            else pure row
          let cs ← modifyM 539 row.cells (col + 1)
            (fun cell => pure ((cell.clear Attrs.default).setWideContinuation true))
          pure { row with cells := cs }
        else pure row : M Row) = .ok row' → KeepL last w0 row' := by
    intro row1 hr1 e
    obtain ⟨cell1, _, e⟩ := bind_eq_ok.mp e
    simp only at e
    split at e
    · obtain ⟨cs, hm, e⟩ := bind_eq_ok.mp e
      exact tail2 { row1 with cells := cs } (keepL_cells hr1 hm (fun _ x x' hx => set_occ hx)) e
    · exact tail2 row1 hr1 e
  unfold Grid.textWideRow at e
  obtain ⟨cell0, _, e⟩ := bind_eq_ok.mp e
  simp only at e
  split at e
  · obtain ⟨c1, hc1, e⟩ := bind_eq_ok.mp e
    obtain ⟨cs, hm, e⟩ := bind_eq_ok.mp e
    have hc1' := subM_eq_ok.mp hc1
    exact tail1 { row with cells := cs } (keepL_cells h hm (fun hi => by omega)) e
  · exact tail1 row h e

/-- **printing keeps the wrap-flag conditions** -/
theorem gridF_text {g g' : Grid} (hinv : GridInv W g true) (hl : g.rows.length = g.size.rows) (h : GridF g)
    {a : Attrs} {c : Nat} (e : g.text W a c = .ok g') : GridF g' := by
  unfold Grid.text at e
  simp only at e
  split at e
  · simp only [pure_eq_ok, Except.ok.injEq] at e
    rw [← e]; exact h
  · split at e
    · simp only [pure_eq_ok, Except.ok.injEq] at e
      rw [← e]; exact h
    · rename_i hfits
      obtain ⟨wrap, hwd, e⟩ := bind_eq_ok.mp e
      obtain ⟨g1, h1, e⟩ := bind_eq_ok.mp e
      -- the wrap decision is true only if the last column of the cursor line is occupied
      have hwr : wrap = true → ∀ r, g.rows[g.pos.row]? = some r → LastOcc r.cells := by
        intro hw r hr
        unfold Grid.wrapDecision at hwd
        obtain ⟨lim, _, hwd⟩ := bind_eq_ok.mp hwd
        split at hwd
        · obtain ⟨c1, hc1, hwd⟩ := bind_eq_ok.mp hwd
          obtain ⟨lastCell, hlc, hwd⟩ := bind_eq_ok.mp hwd
          simp only [pure_eq_ok, Except.ok.injEq] at hwd
          have hc1' := (subM_eq_ok.mp hc1).2
          have hlen := (hinv.row_ok r (List.mem_of_getElem? hr)).1
          simp only [Grid.drawingCellM, Grid.drawingCell, Grid.drawingRow, hr, Option.bind_some, Row.get] at hlc
          cases hcc : r.cells[c1]? with
          | none => rw [hcc] at hlc; simp [panic] at hlc
          | some L =>
            rw [hcc] at hlc
            simp only [pure_eq_ok, Except.ok.injEq] at hlc
            refine ⟨L, by rw [hlen, ← hc1']; exact hcc, ?_⟩
            rw [hlc]
            have : (lastCell.hasContents || lastCell.isWideContinuation) = true := by rw [hwd, hw]
            exact this
        · simp only [pure_eq_ok, Except.ok.injEq] at hwd
          rw [← hwd] at hw; simp at hw
      have hf1 := gridF_colWrap hinv hl h _ wrap hwr h1
      obtain ⟨g1', e1', s1, hfit⟩ := colWrap_ok hinv hl (min ((W c).getD 1) 2) wrap (by omega)
      have hg1 : g1' = g1 := by rw [h1] at e1'; exact (Except.ok.inj e1').symm
      subst hg1
      split at e
      · exact gridF_textZero hf1 e
      · rename_i hnz
        unfold Grid.textWide at e
        obtain ⟨g2, h2, e⟩ := bind_eq_ok.mp e
        simp only [pure_eq_ok, Except.ok.injEq] at e
        have hw1 : 1 ≤ min ((W c).getD 1) 2 := by
          have : ¬ min ((W c).getD 1) 2 = 0 := by simpa using hnz
          omega
        have hf2 : GridF g2 := gridF_modifyCurrentRow hf1 (fun r r' hr hrr => by
          have hlen := (s1.inv.row_ok r (List.mem_of_getElem? hr)).1
          have hcp := s1.inv.cols_pos
          have hk : KeepL (g1'.size.cols - 1) r.wrapped r := by
            refine ⟨by omega, fun hw => ?_⟩
            obtain ⟨L, hL, ho⟩ := hf1.1.1 r (List.mem_of_getElem? hr) hw
            exact ⟨⟨L, by rw [← hlen]; exact hL, ho⟩, hw⟩
          have hk' := keepL_textWideRow (last := g1'.size.cols - 1) (by omega) hfit hw1 hk hrr
          refine ⟨fun hw => ?_, fun hw => (hk'.2 hw).2⟩
          obtain ⟨⟨L, hL, ho⟩, _⟩ := hk'.2 hw
          exact ⟨L, by rw [hk'.1]; exact hL, ho⟩) h2
        rw [← e]
        split <;> exact gridF_same hf2 rfl rfl

end Vt.InvF
