/-
  Vt.Props.InvX — the per-cell conditions of `Inv⁺` / `emitInv` (`cx`: colours are bytes, a continuation
  cell has default attributes, no cell starts with U+FFFD, combining characters were appended below the
  18-byte stop) hold of every cell of every line — live and in the scrollback — of every reachable screen.

  Partial-correctness form on top of `Inv`: whenever an operation returns (it always does, `reachable_inv`),
  the cells of the result are cells of the argument or were built one of the admissible ways.
-/
import Vt.Lemmas.GridP
import Vt.Props.InvPerform
namespace Vt.InvX
open Vt
set_option linter.unusedSimpArgs false
set_option linter.unusedVariables false

variable {W : Nat → Option Nat}

def RX (r : Row) : Prop := AllX r.cells

theorem rx_pred : RowPred RX := ⟨fun n => allX_new n, fun r h => h⟩

def GridX (g : Grid) : Prop := GridP RX g

/-- cells carry 22 content bytes and satisfy `cx` -/
def AllXL (cs : List Cell) : Prop := ∀ c ∈ cs, cx c = true ∧ c.contents.length = 22

theorem allXL_of {cs : List Cell} (h : AllX cs) (hok : ∀ c ∈ cs, cellOk W c = true) : AllXL cs :=
  fun c hc => ⟨h c hc, (cellOk_fields W (hok c hc)).1⟩

theorem allX_of_L {cs : List Cell} (h : AllXL cs) : AllX cs := fun c hc => (h c hc).1

theorem cells_ok_of {g : Grid} {un : Bool} (h : GridInv W g un) {r : Row} (hr : r ∈ g.rows) :
    ∀ c ∈ r.cells, cellOk W c = true :=
  (rowGood_cells W (h.row_ok r hr)).cells_ok

/-! ### `modifyCurrentRow` -/

theorem gridX_modifyCurrentRow {g g' : Grid} (h : GridX g) {f : Row → M Row}
    (hf : ∀ r r', r ∈ g.rows → f r = .ok r' → AllX r'.cells) (e : g.modifyCurrentRow f = .ok g') : GridX g' := by
  unfold Grid.modifyCurrentRow at e
  obtain ⟨rows, hm, e2⟩ := bind_eq_ok.mp e
  simp only [pure_eq_ok, Except.ok.injEq] at e2
  rw [← e2]
  exact gridP_rows h (all_modifyM h.1 (fun r r' hr hrr => hf r r' hr hrr) hm)

/-! ### erasing -/

theorem gridX_eraseAll {g : Grid} (h : GridX g) {a : Attrs} (ha : attrsOk a = true) : GridX (g.eraseAll a) := by
  refine gridP_rows h ?_
  intro r hr
  simp only [List.mem_map] at hr
  obtain ⟨r0, _, rfl⟩ := hr
  exact allX_clear ha

theorem eraseRange_keeps {a : Attrs} (ha : attrsOk a = true) (lo hi : Nat) (r r' : Row) (h : AllX r.cells)
    (e : forRange lo hi (fun col (r : Row) => r.erase col a) r = .ok r') : AllX r'.cells :=
  allX_forRange (fun i r1 r2 h1 e1 => allX_erase h1 ha e1) lo hi r r' h e

theorem gridX_eraseRowForward {g g' : Grid} (h : GridX g) {a : Attrs} (ha : attrsOk a = true)
    (e : g.eraseRowForward a = .ok g') : GridX g' :=
  gridX_modifyCurrentRow h (fun r r' hr hrr => eraseRange_keeps ha _ _ r r' (h.1 r hr) hrr) e

theorem gridX_eraseRowBackward {g g' : Grid} (h : GridX g) {a : Attrs} (ha : attrsOk a = true)
    (e : g.eraseRowBackward a = .ok g') : GridX g' := by
  unfold Grid.eraseRowBackward at e
  obtain ⟨c1, _, e2⟩ := bind_eq_ok.mp e
  exact gridX_modifyCurrentRow h (fun r r' hr hrr => eraseRange_keeps ha _ _ r r' (h.1 r hr) hrr) e2

theorem gridX_eraseRow {g g' : Grid} (h : GridX g) {a : Attrs} (ha : attrsOk a = true)
    (e : g.eraseRow a = .ok g') : GridX g' :=
  gridX_modifyCurrentRow h (fun r r' hr hrr => by
    simp only [pure_eq_ok, Except.ok.injEq] at hrr
    rw [← hrr]; exact allX_clear ha) e

theorem gridX_eraseCells {g g' : Grid} (h : GridX g) {a : Attrs} (ha : attrsOk a = true) (n : Nat)
    (e : g.eraseCells n a = .ok g') : GridX g' :=
  gridX_modifyCurrentRow h (fun r r' hr hrr => eraseRange_keeps ha _ _ r r' (h.1 r hr) hrr) e

theorem gridX_eraseAllForward {g g' : Grid} (h : GridX g) {a : Attrs} (ha : attrsOk a = true)
    (e : g.eraseAllForward a = .ok g') : GridX g' := by
  unfold Grid.eraseAllForward at e
  refine gridX_eraseRowForward (gridP_rows h ?_) ha e
  intro r hr
  rcases List.mem_append.mp hr with hr | hr
  · exact h.1 r (List.mem_of_mem_take hr)
  · simp only [List.mem_map] at hr
    obtain ⟨r0, _, rfl⟩ := hr
    exact allX_clear ha

theorem gridX_eraseAllBackward {g g' : Grid} (h : GridX g) {a : Attrs} (ha : attrsOk a = true)
    (e : g.eraseAllBackward a = .ok g') : GridX g' := by
  unfold Grid.eraseAllBackward at e
  refine gridX_eraseRowBackward (gridP_rows h ?_) ha e
  intro r hr
  rcases List.mem_append.mp hr with hr | hr
  · simp only [List.mem_map] at hr
    obtain ⟨r0, _, rfl⟩ := hr
    exact allX_clear ha
  · exact h.1 r (List.mem_of_mem_drop hr)

/-! ### ICH / DCH -/

theorem allX_insertStep {wide : Bool} {col : Nat} {r r' : Row} (h : AllX r.cells)
    (e : Grid.insertStep wide col r = .ok r') : AllX r'.cells := by
  unfold Grid.insertStep at e
  cases wide with
  | false =>
    simp only [Bool.false_eq_true, ↓reduceIte, pure_bind'] at e
    obtain ⟨r1, h1, e2⟩ := bind_eq_ok.mp e
    simp only [pure_eq_ok, Except.ok.injEq] at e2
    rw [← e2]
    exact allX_insert h cx_new h1
  | true =>
    simp only [↓reduceIte] at e
    obtain ⟨cs0, hm0, e1⟩ := bind_eq_ok.mp e
    simp only [pure_bind', ok_bind, pure_eq_ok] at e1
    have hr0 : AllX ({ r with cells := cs0 } : Row).cells :=
      allX_modifyM_pure h 422 col _ (fun c _ hx => cx_uncont hx) hm0
    generalize ({ r with cells := cs0 } : Row) = r0 at hr0 e1
    obtain ⟨r1, h1, e2⟩ := bind_eq_ok.mp e1
    obtain ⟨cs2, hm2, e3⟩ := bind_eq_ok.mp e2
    simp only [pure_eq_ok, Except.ok.injEq] at e3
    rw [← e3]
    -- the cell at `col` of `r1` is the blank that was just inserted
    unfold Row.insert insertM at h1
    split at h1
    · rename_i hle
      simp only [pure_bind', ok_bind, pure_eq_ok, Except.ok.injEq] at h1
      have hr1 : AllX r1.cells := by
        rw [← h1]; exact allX_append (allX_take hr0 col) (allX_cons cx_new (allX_drop hr0 col))
      have hget : r1.cells[col]? = some Cell.new := by
        rw [← h1]
        simp only
        rw [List.getElem?_append_right (by simp [List.length_take]; omega)]
        simp [List.length_take, Nat.min_eq_left hle]
      unfold modifyM at hm2
      rw [hget] at hm2
      simp only [pure_bind', ok_bind, pure_eq_ok, Except.ok.injEq] at hm2
      rw [← hm2]
      exact allX_set hr1 col (cx_new_cont true)
    · simp [panic] at h1

theorem gridX_insertCells {g g' : Grid} (h : GridX g) (n : Nat) (e : g.insertCells n = .ok g') : GridX g' := by
  unfold Grid.insertCells at e
  simp only at e
  have key : ∀ wide, g.modifyCurrentRow (fun row => do
      let row ← iterateM (min n g.size.cols) (Grid.insertStep wide g.pos.col) row
      row.truncate g.size.cols) = .ok g' → GridX g' := by
    intro wide e2
    refine gridX_modifyCurrentRow h (fun r r' hr hrr => ?_) e2
    obtain ⟨r1, h1, h2⟩ := bind_eq_ok.mp hrr
    exact allX_truncate (allX_iterateM (fun a b ha hab => allX_insertStep ha hab) _ r r1 (h.1 r hr) h1) h2
  split at e
  · obtain ⟨c, _, e2⟩ := bind_eq_ok.mp e
    exact key _ e2
  · exact key _ e

theorem gridX_deleteCells {g g' : Grid} (h : GridX g) (n : Nat) (e : g.deleteCells n = .ok g') : GridX g' := by
  unfold Grid.deleteCells at e
  simp only at e
  refine gridX_modifyCurrentRow h (fun r r' hr hrr => ?_) e
  obtain ⟨d, _, h2⟩ := bind_eq_ok.mp hrr
  obtain ⟨r1, h1, h3⟩ := bind_eq_ok.mp h2
  simp only [pure_eq_ok, Except.ok.injEq] at h3
  rw [← h3]
  exact allX_resize (allX_iterateM (fun a b ha hab => allX_remove ha hab) _ r r1 (h.1 r hr) h1) _

/-! ### printing -/

theorem set_len22 {cell cell' : Cell} {c : Nat} {a : Attrs} (hl : cell.contents.length = 22)
    (e : cell.set W c a = .ok cell') : cell'.contents.length = 22 := by
  have hn := Utf8.encode_length_le c
  have e' : cell.set W c a = .ok (setResult W cell c a) := by
    simp [Cell.set, Cell.appendChar, CONTENT_BYTES, setResult, show (Utf8.encode c).length ≤ 22 by omega]
  rw [e'] at e
  rw [← Except.ok.inj e]
  simp only [setResult, List.length_append, List.length_drop, hl]
  omega

theorem allXL_modifyM {cs cs' : List Cell} (h : AllXL cs) {site i : Nat} {f : Cell → M Cell}
    (hf : ∀ c c', cx c = true → c.contents.length = 22 → f c = .ok c' → cx c' = true ∧ c'.contents.length = 22)
    (e : modifyM site cs i f = .ok cs') : AllXL cs' :=
  all_modifyM (Q := fun c => cx c = true ∧ c.contents.length = 22) h
    (fun c c' hc hcc => hf c c' (h c hc).1 (h c hc).2 hcc) e

theorem allX_textWideRow {row row' : Row} {col cols : Nat} {a : Attrs} {c width : Nat}
    (h : AllXL row.cells) (ha : attrsOk a = true) (hs : isScalar c = true) (hc : c ≠ 0xFFFD)
    (e : Grid.textWideRow W row col cols a c width = .ok row') : AllX row'.cells := by
  have hclear : ∀ (b : Attrs), attrsOk b = true → ∀ x x' : Cell, cx x = true → x.contents.length = 22 →
      (pure (x.clear b) : M Cell) = .ok x' → cx x' = true ∧ x'.contents.length = 22 := by
    intro b hb x x' _ hxl hx
    simp only [pure_eq_ok, Except.ok.injEq] at hx
    rw [← hx]; exact ⟨cx_clear x hb, hxl⟩
  have hset : ∀ (ch : Nat), isScalar ch = true → ch ≠ 0xFFFD → ∀ x x' : Cell, cx x = true → x.contents.length = 22 →
      x.set W ch a = .ok x' → cx x' = true ∧ x'.contents.length = 22 := by
    intro ch h1 h2 x x' _ hxl hx
    exact ⟨cx_set ha h1 h2 hxl hx, set_len22 hxl hx⟩
  -- the tails of the function, last first (the do-block compiles into join points)
  have tail4 : ∀ (row4 : Row), AllXL row4.cells →
      (do
        let cs ← modifyM 539 row4.cells (col + 1)
          (fun cell => pure ((cell.clear Attrs.default).setWideContinuation true))
        pure { row4 with cells := cs } : M Row) = .ok row' → AllX row'.cells := by
    intro row4 hr4 e
    obtain ⟨cs5, hm5, e⟩ := bind_eq_ok.mp e
    simp only [pure_eq_ok, Except.ok.injEq] at e
    rw [← e]
    refine allX_of_L (allXL_modifyM hr4 (fun x x' _ hxl hx => ?_) hm5)
    simp only [pure_eq_ok, Except.ok.injEq] at hx
    rw [← hx]; exact ⟨cx_contCell x, hxl⟩
  have tail3 : ∀ (row3 : Row), AllXL row3.cells →
      (if width > 1 then do
        let cell2 ← getM 536 row3.cells (col + 1)
        let row ←
          if cell2.isWide then do
            let cs ← modifyM 537 row3.cells (col + 2) (fun cell => pure (cell.clear a))
            let row := { row3 with cells := cs }
            if col + 2 + 1 == cols then pure (row.wrap false) else pure row
          else pure row3
        let cs ← modifyM 539 row.cells (col + 1)
          (fun cell => pure ((cell.clear Attrs.default).setWideContinuation true))
        pure { row with cells := cs }
      else pure row3 : M Row) = .ok row' → AllX row'.cells := by
    intro row3 hr3 e
    split at e
    · obtain ⟨cell2, _, e⟩ := bind_eq_ok.mp e
      simp only at e
      split at e
      · obtain ⟨cs, hm, e⟩ := bind_eq_ok.mp e
        have hcs : AllXL cs := allXL_modifyM hr3 (hclear a ha) hm
        split at e
        · exact tail4 _ hcs e
        · exact tail4 _ hcs e
      · exact tail4 _ hr3 e
    · simp only [pure_eq_ok, Except.ok.injEq] at e
      rw [← e]; exact allX_of_L hr3
  have tail2 : ∀ (row2 : Row), AllXL row2.cells →
      (do
        let cs ← modifyM 535 row2.cells col (fun cell => cell.set W c a)
        let row := { row2 with cells := cs }
        if width > 1 then do
          let cell2 ← getM 536 row.cells (col + 1)
          let row ←
            if cell2.isWide then do
              let cs ← modifyM 537 row.cells (col + 2) (fun cell => pure (cell.clear a))
              let row := { row with cells := cs }
              if col + 2 + 1 == cols then pure (row.wrap false) else pure row
            else pure row
          let cs ← modifyM 539 row.cells (col + 1)
            (fun cell => pure ((cell.clear Attrs.default).setWideContinuation true))
          pure { row with cells := cs }
        else pure row : M Row) = .ok row' → AllX row'.cells := by
    intro row2 hr2 e
    obtain ⟨cs3, hm3, e⟩ := bind_eq_ok.mp e
    exact tail3 { row2 with cells := cs3 } (allXL_modifyM hr2 (hset c hs hc) hm3) e
  have tail1 : ∀ (row1 : Row), AllXL row1.cells →
      (do
        let cell1 ← getM 533 row1.cells col
        let row ←
          if cell1.isWide then do
            let cs ← modifyM 534 row1.cells (col + 1) (fun cell => cell.set W 32 a)
            pure { row1 with cells := cs }
          else pure row1
        let cs ← modifyM 535 row.cells col (fun cell => cell.set W c a)
        let row := { row with cells := cs }
        if width > 1 then do
          let cell2 ← getM 536 row.cells (col + 1)
          let row ←
            if cell2.isWide then do
              let cs ← modifyM 537 row.cells (col + 2) (fun cell => pure (cell.clear a))
              let row := { row with cells := cs }
              if col + 2 + 1 == cols then pure (row.wrap false) else pure row
            else pure row
          let cs ← modifyM 539 row.cells (col + 1)
            (fun cell => pure ((cell.clear Attrs.default).setWideContinuation true))
          pure { row with cells := cs }
        else pure row : M Row) = .ok row' → AllX row'.cells := by
    intro row1 hr1 e
    obtain ⟨cell1, _, e⟩ := bind_eq_ok.mp e
    simp only at e
    split at e
    · obtain ⟨cs, hm, e⟩ := bind_eq_ok.mp e
      exact tail2 { row1 with cells := cs } (allXL_modifyM hr1 (hset 32 (by decide) (by decide)) hm) e
    · exact tail2 row1 hr1 e
  unfold Grid.textWideRow at e
  obtain ⟨cell0, _, e⟩ := bind_eq_ok.mp e
  simp only at e
  split at e
  · obtain ⟨c1, _, e⟩ := bind_eq_ok.mp e
    obtain ⟨cs, hm, e⟩ := bind_eq_ok.mp e
    exact tail1 { row with cells := cs } (allXL_modifyM h (hclear a ha) hm) e
  · exact tail1 row h e

theorem gridX_modifyCellM {g g' : Grid} (h : GridX g) {site : Nat} {pos : Pos} {f : Cell → M Cell}
    (hf : ∀ r ∈ g.rows, ∀ c ∈ r.cells, ∀ c', f c = .ok c' → cx c' = true)
    (e : g.modifyCellM site pos f = .ok g') : GridX g' := by
  unfold Grid.modifyCellM at e
  obtain ⟨rows, hm, e⟩ := bind_eq_ok.mp e
  simp only [pure_eq_ok, Except.ok.injEq] at e
  rw [← e]
  refine gridP_rows h (all_modifyM h.1 (fun r r' hr hrr => ?_) hm)
  obtain ⟨cs, hm2, hrr⟩ := bind_eq_ok.mp hrr
  simp only [pure_eq_ok, Except.ok.injEq] at hrr
  rw [← hrr]
  exact allX_modifyM (h.1 r hr) site pos.col f (fun c c' hc hcc => hf r hr c hc c' hcc) hm2

theorem gridX_appendToPrev {g g' : Grid} (hinv : GridInv W g true) (h : GridX g) {row col z : Nat}
    (hs : isScalar z = true) (e : g.appendToPrev row col z = .ok g') : GridX g' := by
  have hf : ∀ r ∈ g.rows, ∀ c ∈ r.cells, ∀ c', c.append z = .ok c' → cx c' = true :=
    fun r hr c hc c' hcc => cx_append (cells_ok_of hinv hr c hc) (h.1 r hr c hc) hs hcc
  unfold Grid.appendToPrev at e
  obtain ⟨pc, _, e⟩ := bind_eq_ok.mp e
  split at e
  · obtain ⟨c2, _, e⟩ := bind_eq_ok.mp e
    exact gridX_modifyCellM h hf e
  · exact gridX_modifyCellM h hf e

theorem gridX_textZero {g g' : Grid} (hinv : GridInv W g true) (h : GridX g) {z : Nat}
    (hs : isScalar z = true) (e : g.textZero z = .ok g') : GridX g' := by
  unfold Grid.textZero at e
  simp only at e
  split at e
  · exact gridX_appendToPrev hinv h hs e
  · split at e
    · cases hd : g.drawingRow (g.pos.row - 1) with
      | none => rw [hd] at e; simp [panic] at e
      | some pr =>
        rw [hd] at e
        simp only [pure_bind'] at e
        split at e
        · obtain ⟨c1, _, e⟩ := bind_eq_ok.mp e
          exact gridX_appendToPrev hinv h hs e
        · simp only [pure_eq_ok, Except.ok.injEq] at e
          rw [← e]; exact h
    · simp only [pure_eq_ok, Except.ok.injEq] at e
      rw [← e]; exact h

theorem gridX_rowIncScroll {g : Grid} {p : Grid × Nat} (h : GridX g) (n : Nat) (e : g.rowIncScroll n = .ok p) :
    GridX p.1 := by
  unfold Grid.rowIncScroll at e
  obtain ⟨q, hq, e⟩ := bind_eq_ok.mp e
  have hrows := rowClampBottom_rows hq
  have hq1 : GridX q.1 := gridP_same (g := { g with pos := { g.pos with row := satAddU16 g.pos.row n } }) h hrows.1 hrows.2.1
  obtain ⟨q1, q2⟩ := q
  simp only at e hq1
  split at e
  · obtain ⟨g2, h2, e⟩ := bind_eq_ok.mp e
    simp only [pure_eq_ok, Except.ok.injEq] at e
    rw [← e]
    exact gridP_scrollUp rx_pred hq1 _ h2
  · simp only [pure_eq_ok, Except.ok.injEq] at e
    rw [← e]; exact hq1

theorem gridX_colWrap {g g' : Grid} (h : GridX g) (width : Nat) (wrap : Bool) (e : g.colWrap width wrap = .ok g') :
    GridX g' := by
  unfold Grid.colWrap at e
  obtain ⟨lim, _, e⟩ := bind_eq_ok.mp e
  split at e
  · simp only at e
    obtain ⟨p, hp, e⟩ := bind_eq_ok.mp e
    have hp1 : GridX p.1 := gridX_rowIncScroll (g := { g with pos := { g.pos with col := 0 } }) h 1 hp
    split at e
    · simp only [pure_eq_ok, Except.ok.injEq] at e
      rw [← e]; exact hp1
    · obtain ⟨pr, _, e⟩ := bind_eq_ok.mp e
      obtain ⟨rows, hm, e⟩ := bind_eq_ok.mp e
      simp only [pure_eq_ok, Except.ok.injEq] at e
      rw [← e]
      refine gridP_rows hp1 (all_modifyM hp1.1 (fun r r' hr hrr => ?_) hm)
      simp only [pure_eq_ok, Except.ok.injEq] at hrr
      rw [← hrr]; exact hp1.1 r hr
  · simp only [pure_eq_ok, Except.ok.injEq] at e
    rw [← e]; exact h

/-- **printing keeps the per-cell conditions** -/
theorem gridX_text {g g' : Grid} (hinv : GridInv W g true) (hl : g.rows.length = g.size.rows) (h : GridX g)
    {a : Attrs} (ha : attrsOk a = true) {c : Nat} (hs : isScalar c = true) (hc : c ≠ 0xFFFD)
    (e : g.text W a c = .ok g') : GridX g' := by
  unfold Grid.text at e
  simp only at e
  split at e
  · simp only [pure_eq_ok, Except.ok.injEq] at e
    rw [← e]; exact h
  · split at e
    · simp only [pure_eq_ok, Except.ok.injEq] at e
      rw [← e]; exact h
    · rename_i hfits
      obtain ⟨wrap, _, e⟩ := bind_eq_ok.mp e
      obtain ⟨g1, h1, e⟩ := bind_eq_ok.mp e
      have hx1 := gridX_colWrap h _ wrap h1
      obtain ⟨g1', e1', s1, _⟩ := colWrap_ok hinv hl (min ((W c).getD 1) 2) wrap (by omega)
      have hg1 : g1' = g1 := by rw [h1] at e1'; exact (Except.ok.inj e1').symm
      subst hg1
      split at e
      · exact gridX_textZero s1.inv hx1 hs e
      · unfold Grid.textWide at e
        obtain ⟨g2, h2, e⟩ := bind_eq_ok.mp e
        simp only [pure_eq_ok, Except.ok.injEq] at e
        have hx2 : GridX g2 := gridX_modifyCurrentRow hx1 (fun r r' hr hrr =>
          allX_textWideRow (allXL_of (hx1.1 r hr) (cells_ok_of s1.inv hr)) ha hs hc hrr) h2
        rw [← e]
        split <;> exact gridP_same hx2 rfl rfl

end Vt.InvX
