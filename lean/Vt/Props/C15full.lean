/-
  C15 — row-wise redraw: the assembled theorem.

  The drawing protocol of the property (the repository's own, `tests/helpers/mod.rs`): for every line `i`
  of `rows_formatted(0, cols)`: `ESC [ m`; unless the previous line is wrapped, `ESC [ i+1 H`; the line's
  bytes.  Then `ESC [ m`, `cursor_state_formatted()`, `attributes_formatted()`.

  `rows_protocol_reproduces`: processing that byte stream on a receiver whose lines are blank (a new parser;
  a cleared terminal) leaves it showing the source screen.
-/
import Vt.Props.C01full
namespace Vt.C15
open Vt Vt.Recv Vt.C19 Vt.C09 Vt.RowDraw Vt.GridDraw Vt.Tok Vt.C01 Vt.C03
set_option linter.unusedSimpArgs false

variable {W : Nat → Option Nat} {cb : CbPolicy}

/-- `rows_formatted` passes no previous position and no previous pen: the defaults are the start of the
line (or the pending-wrap position of the line above) and the default pen -/
theorem wcf_none (r : Row) (cols i : Nat) (w : Bool) (hw : w = true → 1 ≤ i) :
    r.writeContentsFormatted 0 cols i w none none =
      r.writeContentsFormatted 0 cols i w (some (if w then ⟨i - 1, r.cols⟩ else ⟨i, 0⟩)) (some Attrs.default) := by
  unfold Row.writeContentsFormatted
  cases w
  · simp
  · have := hw rfl
    simp [subM_ok this]

/-- `ESC [ n H` (one parameter): to line `n`, column 1 -/
def cupRow (n : Nat) : List Nat := [0x1B, 0x5B] ++ Term.itoa n ++ [72]

theorem step_cupRow (n : Nat) (h1 : 1 ≤ n) (hn : n ≤ 65535) :
    Step W cb (cupRow n) (fun r => r.g.setPos ⟨n - 1, 0⟩ >>= fun g' => pure { r with g := g' }) := by
  have ht := tok_csi [n] 72 (by simpa using hn) (by simp) (by omega)
  have hg : Tok.groups [n] = [[n]] := by simp [Tok.groups]
  rw [hg] at ht
  have hb : cupRow n = [0x1B, 0x5B] ++ paramBytes [n] ++ [72] := by simp [cupRow, paramBytes]
  rw [hb]
  refine step_grid W cb ht (fun _ g => g.setPos ⟨n - 1, 0⟩) ?_
  intro ws
  have : n ≠ 0 := by omega
  simp [foldlM_single, perform, performCsi, canon2, firstOr0, Screen.cup, subM, this, h1]

/-- the protocol's byte stream for the lines from `i` on: before each line the pen is reset and, unless the
previous line is wrapped, the cursor is put at the start of the line -/
def drawRowsFrom (i : Nat) (prevWrapped : Bool) : List (List Nat) → List Bool → List Nat
  | bs :: rest, w :: ws =>
    Term.clearAttrs ++ (if prevWrapped then [] else cupRow (i + 1)) ++ bs ++ drawRowsFrom (i + 1) w rest ws
  | _, _ => []

theorem rowsInv_pen {srows : List Row} {cols i : Nat} {w : Bool} {pp : Pos} {R : RS}
    (h : RowsInv srows cols i w pp R) (a : Attrs) : RowsInv srows cols i w pp { R with pen := a } :=
  ⟨h.canvas, h.hcols, h.nrows, h.pos, h.row, h.wrap⟩

theorem rowsInv_withPos' {srows : List Row} {cols i : Nat} {pp : Pos} {R : RS}
    (h : RowsInv srows cols i false pp R) (to : Pos) :
    RowsInv srows cols i false to { R with g := withPos R.g to } :=
  ⟨canvas_withPos h.canvas to, h.hcols, h.nrows, rfl, h.row, fun hh => by simp at hh⟩

/-- **the protocol, line by line** -/
theorem protocol_loop (hW : WOk W) (q : Parser) (h0 : Ready q) {srows : List Row} {cols : Nat}
    (hS : SrcRows W cols srows) : ∀ (rs : List Row) (i : Nat) (wrapping : Bool) (pp : Pos) (out : List Nat) (R : RS),
    srows.drop i = rs → (hil : i ≤ srows.length) →
    (∀ h : 0 < i, wrapping = (srows[i - 1]'(by omega)).wrapped) → (i = 0 → wrapping = false) →
    RowsInv srows cols i wrapping pp R → Emitted W cb q out R →
    ∃ rb, Screen.rowsFormattedLoop true 0 cols rs i wrapping = .ok rb ∧
      ∃ pp' R', Emitted W cb q (out ++ drawRowsFrom i wrapping rb (rs.map (·.wrapped))) R' ∧
        RowsInv srows cols srows.length false pp' R' ∧ R'.g.scrollbackOffset = R.g.scrollbackOffset
  | [], i, wrapping, pp, out, R, hrs, hil, hwv, hw0, hinv, hem => by
    have hi : i = srows.length := by
      have := congrArg List.length hrs
      simp only [List.length_drop, List.length_nil] at this
      omega
    subst hi
    have hwf : wrapping = false := by
      by_cases hn : srows.length = 0
      · exact hw0 hn
      · rw [hwv (by omega)]
        apply hS.lastUnwrapped
        rw [List.getLast?_eq_getElem?]
        exact List.getElem?_eq_getElem (by omega)
    subst hwf
    exact ⟨[], rfl, pp, R, by simpa [drawRowsFrom] using hem, hinv, rfl⟩
  | r :: rest, i, wrapping, pp, out, R, hrs, hil, hwv, hw0, hinv, hem => by
    have hi : i < srows.length := by
      have := congrArg List.length hrs
      simp only [List.length_drop, List.length_cons] at this
      omega
    have hr : srows[i] = r := by
      have := congrArg (fun l => l[0]?) hrs
      simp only [List.getElem?_drop, Nat.add_zero, List.getElem?_eq_getElem hi, List.getElem?_cons_zero,
        Option.some.injEq] at this
      exact this
    have hrest : srows.drop (i + 1) = rest := by
      have := congrArg List.tail hrs
      simpa [List.tail_drop] using this
    have hrw := hS.width _ (List.getElem_mem hi)
    -- the pen reset
    have hem1 := emitted_step W cb h0 hem (step_clearAttrs (W := W) (cb := cb))
      (r' := { R with pen := Attrs.default }) rfl
    have hinv1 := rowsInv_pen hinv Attrs.default
    -- the cursor
    have hcur : ∃ pp2 R2, Emitted W cb q (out ++ Term.clearAttrs ++ (if wrapping then [] else cupRow (i + 1))) R2 ∧
        RowsInv srows cols i wrapping pp2 R2 ∧ R2.pen = Attrs.default ∧
        pp2 = (if wrapping then ⟨i - 1, srows[i].cols⟩ else ⟨i, 0⟩) ∧ R2.g.scrollbackOffset = R.g.scrollbackOffset := by
      by_cases hw : wrapping = true
      · subst hw
        obtain ⟨_, _, hpp, _, _⟩ := hinv.wrap rfl
        refine ⟨pp, _, by simpa using hem1, hinv1, rfl, ?_, rfl⟩
        simp only [↓reduceIte, Row.cols, hrw, hpp]
      · have hw' : wrapping = false := by simpa using hw
        subst hw'
        have hcv := hinv1.canvas
        have hru := hcv.rows_u16
        have hir : i < R.g.size.rows := by rw [hinv.nrows]; exact hi
        have hsp := setPos_eq hcv ⟨i, 0⟩ hir hcv.cols_pos
        have := emitted_step W cb h0 hem1 (step_cupRow (W := W) (cb := cb) (i + 1) (by omega) (by
            have : R.g.size.rows = ({ R with pen := Attrs.default } : RS).g.size.rows := rfl
            omega))
          (r' := { g := withPos R.g ⟨i, 0⟩, pen := Attrs.default, saved := R.saved }) (by
            simp only [Nat.add_sub_cancel]
            rw [show ({ R with pen := Attrs.default } : RS).g = R.g from rfl, hsp]
            rfl)
        refine ⟨⟨i, 0⟩, _, by simpa using this, rowsInv_withPos' hinv1 ⟨i, 0⟩, rfl, by simp, rfl⟩
    obtain ⟨pp2, R2, hem2, hinv2, hpen2, hpp2, hoff2⟩ := hcur
    -- the line
    obtain ⟨bs, np, na, R3, ewc, hem3, _, hinv3, hoff3, _⟩ := rows_step hW q h0 hS hi hinv2 hem2
    rw [hpen2, hpp2] at ewc
    have hwone : wrapping = true → 1 ≤ i := fun hw => by
      subst hw
      obtain ⟨h1, _⟩ := hinv.wrap rfl
      exact h1
    have ewc' : srows[i].writeContentsFormatted 0 cols i wrapping none none = .ok (bs, np, na) := by
      rw [wcf_none _ _ _ _ hwone]; exact ewc
    obtain ⟨rb, erb, pp', R', hem', hinv', hoff'⟩ := protocol_loop hW q h0 hS rest (i + 1) srows[i].wrapped np _ R3
      hrest (by omega) (fun _ => by simp) (fun h => by omega) hinv3 hem3
    refine ⟨bs :: rb, ?_, pp', R', ?_, hinv', hoff'.trans (hoff3.trans hoff2)⟩
    · rw [← hr]
      simp only [Screen.rowsFormattedLoop, ewc', ok_bind, ↓reduceIte, erb, pure_eq_ok]
    · rw [← hr]
      simp only [List.map_cons, drawRowsFrom]
      simpa [List.append_assoc] using hem'

/-- the whole protocol stream for a screen whose `rows_formatted(0, cols)` is `rb` -/
def protocolStream (S : Screen) (rb : List (List Nat)) (cursorState : List Nat) : List Nat :=
  drawRowsFrom 0 false rb (S.cur.rows.map (·.wrapped)) ++ Term.clearAttrs ++ cursorState ++ S.attributesFormatted

/-- chaining `process` over a concatenation when the first part leaves the parser ready -/
theorem process_then {q q1 q2 : Parser} (hq : Ready q) {X Y : List Nat} (e1 : q.process W cb X = .ok q1) (r1 : Ready q1)
    (e2 : q1.process W cb Y = .ok q2) : q.process W cb (X ++ Y) = .ok q2 := by
  have hcar : (q.vte.advance X).1.carry = [] := by rw [← process_vte W cb e1]; exact r1.2
  rw [C04.process_append W cb q X Y hq.2 hcar, e1]; exact e2

/-- **C15**: drawing the lines of `rows_formatted(0, cols)` by the protocol, then `cursor_state_formatted()` and
`attributes_formatted()`, on a receiver whose lines are blank (a new parser, a cleared terminal) reproduces the
source screen: cells, wrap flags, cursor (the pending-wrap column included), cursor visibility, pen -/
theorem rows_protocol_reproduces (hW : WOk W) {q : Parser} (hq : RecvOk W q)
    (hqoff : (rsOf q.ws).g.scrollbackOffset = 0)
    (hblank : ∀ r ∈ (rsOf q.ws).g.rows, BlankRow (rsOf q.ws).g.size.cols r)
    (S : Screen) (hS : SrcScreen W S) (hsz : S.cur.size = (rsOf q.ws).g.size) (hgs : S.grid.size = S.cur.size) :
    ∃ rb cs q', S.rowsFormatted 0 S.cur.size.cols = .ok rb ∧ S.cursorStateFormatted = .ok cs ∧
      q.process W cb (protocolStream S rb cs) = .ok q' ∧ Ready q' ∧ Shows q'.screen S := by
  -- the start: every line blank
  have hcv := hq.canvas
  have hinv0 : RowsInv S.cur.rows S.cur.size.cols 0 false (rsOf q.ws).g.pos (rsOf q.ws) := by
    refine ⟨hcv, by rw [hsz], by rw [← hsz, hS.alloc], rfl, ?_, fun h => by simp at h⟩
    intro k hk
    have hkl : k < (rsOf q.ws).g.rows.length := by rw [hcv.alloc, ← hsz, ← hS.alloc]; exact hk
    refine ⟨_, List.getElem?_eq_getElem hkl, fun h => by omega, fun _ => ?_⟩
    rw [hsz]; exact hblank _ (List.getElem_mem hkl)
  obtain ⟨rb, erb, pp', R', hem', hinv', hoff'⟩ := protocol_loop (cb := cb) hW q hq.ready hS.rows S.cur.rows 0 false _ []
    (rsOf q.ws) rfl (Nat.zero_le _) (fun h => absurd h (Nat.lt_irrefl 0)) (fun _ => rfl) hinv0 (emitted_nil W cb q hq.ready)
  simp only [List.nil_append] at hem'
  -- pen reset
  have hem1 := emitted_step W cb hq.ready hem' (step_clearAttrs (W := W) (cb := cb))
    (r' := { R' with pen := Attrs.default }) rfl
  obtain ⟨p1, e1, w1, r1⟩ := hem1
  -- cursor visibility, then the cursor position
  obtain ⟨p2, e2, w2, r2⟩ := C10.process_hideCursor W cb p1 S.hideCursor r1
  have hrs2 : rsOf p2.ws = { R' with pen := Attrs.default } := by
    rw [w2, rsOf_hide, w1, rsOf_withRS]
  have hcols : R'.g.size.cols = S.cur.size.cols := hinv'.hcols
  have hrows : R'.g.size.rows = S.cur.size.rows := by rw [hinv'.nrows, hS.alloc]
  have hinv2 : RowsInv S.cur.rows S.cur.size.cols S.cur.rows.length false pp' (rsOf p2.ws) := by
    have := rowsInv_frame hinv' (rsOf p2.ws) (by rw [hrs2]) (by rw [hrs2]) (by rw [hrs2]) (by rw [hrs2]) (by rw [hrs2])
    rw [hrs2] at this ⊢
    rw [← hinv'.pos]
    exact this
  obtain ⟨cb3, ecur, R3, hem3, hpen3, hinv3, hoff3⟩ := cursor_fixup (cb := cb) hW r2 S.cur hS.rows hS.alloc hS.cur_row hS.cur_col
    (emitted_nil W cb p2 r2) (show (rsOf p2.ws).pen = Attrs.default by rw [hrs2]) wf_default hinv2 none
    (fun p hp => by simp at hp)
  simp only [List.nil_append] at hem3
  obtain ⟨p3, e3, w3, r3⟩ := hem3
  -- the pen
  obtain ⟨p4, e4, w4, r4⟩ := process_attributes_formatted W cb p3 S hS.pen_wf r3
  -- the emitted strings
  have hvis := C19.visibleRows_offset0 S.cur hS.off
  have erf : S.rowsFormatted 0 S.cur.size.cols = .ok rb := by
    simp only [Screen.rowsFormatted, hvis, ok_bind, hgs, beq_self_eq_true, Bool.and_self]
    exact erb
  have ecur' : S.cur.writeCursorPositionFormatted none none = .ok cb3 := by
    have : S.cur.writeCursorPositionFormatted none none = S.cur.writeCursorPositionFormatted none (some Attrs.default) := rfl
    rw [this]; exact ecur
  have ecs : S.cursorStateFormatted = .ok (Term.hideCursor S.hideCursor ++ cb3) := by
    simp only [Screen.cursorStateFormatted, ecur', ok_bind, pure_eq_ok]
  refine ⟨rb, _, p4, erf, ecs, ?_, r4, ?_⟩
  · unfold protocolStream
    have s1 := process_then (cb := cb) hq.ready e1 r1 e2
    have s2 := process_then (cb := cb) hq.ready s1 r2 e3
    have s3 := process_then (cb := cb) hq.ready s2 r3 e4
    simpa [List.append_assoc] using s3
  · -- what the receiver shows
    have hcur4 : p4.screen.cur = R3.g := by
      show p4.ws.screen.cur = _
      rw [w4]
      have : p3.ws.screen.cur = R3.g := by
        rw [w3]
        have := rsOf_withRS p2.ws R3
        exact congrArg RS.g this
      exact this
    obtain ⟨hc, hwr, hvw⟩ := rows_shown hinv3
    have hcols3 : R3.g.size.cols = S.cur.size.cols := hinv3.hcols
    have hrows3 : R3.g.size.rows = S.cur.size.rows := by rw [hinv3.nrows, hS.alloc]
    refine ⟨?_, ?_, ?_, ?_, ?_, ?_, ?_, ?_⟩
    · rw [hcur4]
      cases hsg : R3.g.size; cases hss : S.cur.size
      simp only [hsg, hss] at hcols3 hrows3 ⊢
      rw [hcols3, hrows3]
    · rw [hcur4]; exact hc
    · rw [hcur4]; exact hvw
    · rw [hcur4]; exact hwr
    · rw [hcur4]; exact hinv3.pos
    · show p4.ws.screen.hideCursor = S.hideCursor
      rw [w4, w3, w2]
      simp only [WS.modAttrs, withRS, Screen.setCur]
      split <;> rfl
    · show p4.ws.screen.attrs = S.attrs
      rw [w4]; rfl
    · rw [hcur4]
      show R3.g.scrollbackOffset = 0
      rw [hoff3, hrs2]
      show R'.g.scrollbackOffset = 0
      rw [hoff']; exact hqoff

/-- the lines of a new parser are blank -/
theorem new_blank (rows cols sb : Nat) :
    ∀ r ∈ (rsOf ({ screen := C13.newScreen rows cols sb, events := [] } : WS)).g.rows, BlankRow cols r := by
  intro r hr
  simp only [rsOf, Screen.cur, C13.newScreen, C13.newGrid, Bool.false_eq_true, ↓reduceIte, List.mem_replicate] at hr
  rw [hr.2]
  refine ⟨rfl, ?_, ?_⟩
  · simp [Row.new, view_new]
  · intro c hc
    simp only [Row.new, List.mem_replicate] at hc
    rw [hc.2]; simp [Cell.new]

/-- **C15 on a new parser** -/
theorem rows_protocol_fresh (hW : WOk W) (S : Screen) (hinv : emitInvB W S = true) (hoff : S.cur.scrollbackOffset = 0)
    (sb : Nat) :
    ∃ q rb cs q', Parser.new S.cur.size.rows S.cur.size.cols sb = .ok q ∧
      S.rowsFormatted 0 S.cur.size.cols = .ok rb ∧ S.cursorStateFormatted = .ok cs ∧
      q.process W cb (protocolStream S rb cs) = .ok q' ∧ Shows q'.screen S := by
  have hS := srcScreen_of_inv hinv hoff
  have hI : Inv W S := by
    simp only [emitInvB, invPlusB, Bool.and_eq_true] at hinv
    exact hinv.1.1.1.1.1
  have hsi := (inv_iff W S).mp hI
  obtain ⟨hcg, _⟩ := hsi.cur
  have hgs : S.grid.size = S.cur.size := by
    unfold Screen.cur; split
    · exact hsi.same_size
    · rfl
  obtain ⟨q, enew, hq, hqoff, hqsz, _, _⟩ := new_recvOk W S.cur.size.rows S.cur.size.cols sb hcg.rows_pos hcg.cols_pos
    hcg.rows_u16 hcg.cols_u16
  have hqeq : q = { vte := Vte.new, ws := { screen := C13.newScreen S.cur.size.rows S.cur.size.cols sb, events := [] } } := by
    simp only [Parser.new, C13.new_eq _ _ _ hcg.rows_pos, ok_bind, pure_eq_ok, Except.ok.injEq] at enew
    exact enew.symm
  obtain ⟨rb, cs, q', e1, e2, e3, _, hsh⟩ := rows_protocol_reproduces (cb := cb) hW hq hqoff (by
      rw [hqsz]; subst hqeq; exact new_blank _ _ _) S hS (by rw [hqsz]) hgs
  exact ⟨q, rb, cs, q', enew, e1, e2, e3, hsh⟩

end Vt.C15
