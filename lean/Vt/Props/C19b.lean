/-
  C19 (continued) — the emitted bytes are a function of the observable state.

  `RowSame` / `GridSame` / `ScreenSame`: equal sizes, cursor, wrap flags and *cell views* (length,
  flags, attributes, live bytes — what `Screen::cell()` exposes), i.e. equal observable visible
  state at scrollback offset 0.  Everything else may differ: stale bytes in the cells, the saved
  cursor and pen, the scroll region, origin mode, the inactive grid, the scrollback rows and
  capacity.
  * `contents_formatted_same`, `state_formatted_same`, `rows_formatted_same`,
    `cursor_state_formatted_same` : observably equal screens emit identical bytes (or fail
    identically);
  * `contents_diff_same`, `rows_diff_same`, `state_diff_same` : a diff does not change when
    either argument is replaced by an observably equal screen;
  * `contents_diff_self`, `state_diff_self`, `contents_diff_look_alike`, `state_diff_look_alike` :
    a screen diffed against itself, or against any screen that looks the same, is the empty byte
    string (and never panics);
  * `emitters_of_obs` : the same in terms of `obs` for live screens satisfying `Inv`;
  all for every size, every cell content and every cursor position.
-/
import Vt.Lemmas.ViewRel
import Vt.Lemmas.CellInv
import Vt.Lemmas.Inv
import Vt.Spec.Obs
import Vt.Props.C02
namespace Vt.C19
open Vt
set_option linter.unusedSimpArgs false

/-- `a == b` depends only on the two views -/
theorem eq_congr {a1 a2 b1 b2 : Cell} (ha : SameView a1 a2) (hb : SameView b1 b2) : a1.eq b1 = a2.eq b2 := by
  have h1 : (a1.eq b1 = true) ↔ (a2.eq b2 = true) := by
    rw [eq_iff_view, eq_iff_view]
    unfold SameView at ha hb
    rw [ha, hb]
  cases h : a1.eq b1 <;> cases h' : a2.eq b2 <;> simp_all

theorem sameView_refl (c : Cell) : SameView c c := rfl

theorem fmtCellStep_congr (n row : Nat) (w : Bool) (st : Row.FmtSt) (col : Nat) {c1 c2 : Cell}
    (h : SameView c1 c2) (d : Bool) :
    Row.fmtCellStep n row w st col c1 d = Row.fmtCellStep n row w st col c2 d := by
  obtain ⟨h1, h2, h3, h4, h5, _⟩ := accessors_view c1 c2 h
  simp only [Row.fmtCellStep, h1, h2, h4, h5]

theorem fmtStep_congr (n row : Nat) (w : Bool) (st : Row.FmtSt) {p q : Nat × Cell}
    (h : p.1 = q.1 ∧ SameView p.2 q.2) : Row.fmtStep n row w st p = Row.fmtStep n row w st q := by
  obtain ⟨c1, x1⟩ := p
  obtain ⟨c2, x2⟩ := q
  obtain ⟨hc, hv⟩ := h
  simp only at hc hv
  subst hc
  obtain ⟨_, h2, _⟩ := accessors_view x1 x2 hv
  simp only [Row.fmtStep, h2, eq_congr hv (sameView_refl Cell.new), fmtCellStep_congr _ _ _ _ _ hv]

theorem diffStep_congr (n row : Nat) (w : Bool) (st : Row.FmtSt) {p q : Nat × (Cell × Cell)}
    (h : p.1 = q.1 ∧ SameView p.2.1 q.2.1 ∧ SameView p.2.2 q.2.2) :
    Row.diffStep n row w st p = Row.diffStep n row w st q := by
  obtain ⟨c1, x1, y1⟩ := p
  obtain ⟨c2, x2, y2⟩ := q
  obtain ⟨hc, hv, hw⟩ := h
  simp only at hc hv hw
  subst hc
  obtain ⟨_, h2, _⟩ := accessors_view x1 x2 hv
  simp only [Row.diffStep, h2, eq_congr hv hw, fmtCellStep_congr _ _ _ _ _ hv]

/-- rows with the same width, wrap flag and cell views -/
def RowSame (r1 r2 : Row) : Prop := r1.wrapped = r2.wrapped ∧ ListRel SameView r1.cells r2.cells

theorem rowSame_cols {r1 r2 : Row} (h : RowSame r1 r2) : r1.cols = r2.cols := listRel_length h.2

/-- reading a cell and continuing with something that only looks at its view -/
theorem getM_bind_congr {β} {l1 l2 : List Cell} (h : ListRel SameView l1 l2) (site i : Nat) (k : Cell → M β)
    (hk : ∀ a b, SameView a b → k a = k b) : (getM site l1 i >>= k) = (getM site l2 i >>= k) := by
  rcases listRel_getElem? i h with ⟨e1, e2⟩ | ⟨x, y, e1, e2, hxy⟩
  · simp [getM, e1, e2]
  · simp [getM, e1, e2]; exact hk x y hxy

/-- `Row::write_contents_formatted` reads cells only through their views -/
theorem row_formatted_same {r1 r2 : Row} (h : RowSame r1 r2) (start width row : Nat) (w : Bool)
    (pp : Option Pos) (pa : Option Attrs) :
    r1.writeContentsFormatted start width row w pp pa = r2.writeContentsFormatted start width row w pp pa := by
  have hcols := rowSame_cols h
  have hfirst : r1.firstIsDefault start = r2.firstIsDefault start := by
    unfold Row.firstIsDefault
    rcases listRel_getElem? start h.2 with ⟨e1, e2⟩ | ⟨x, y, e1, e2, hxy⟩
    · rw [e1, e2]
    · rw [e1, e2]; exact eq_congr hxy (sameView_refl _)
  have hfold : ∀ n st, (Row.window r1.cells start width).foldlM (Row.fmtStep n row w) st =
      (Row.window r2.cells start width).foldlM (Row.fmtStep n row w) st := by
    intro n st
    exact foldlM_rel (R := fun p q => p.1 = q.1 ∧ SameView p.2 q.2) (Row.fmtStep n row w)
      (fun s x y hxy => fmtStep_congr _ _ _ s hxy) st (listRel_window h.2 start width)
  simp only [Row.writeContentsFormatted, hfirst, hfold, hcols]

theorem diffStart_same {r1 r2 p1 p2 : Row} (h : RowSame r1 r2) (hp : RowSame p1 p2) (start row : Nat)
    (w pw : Bool) (pp : Pos) (pa : Attrs) :
    Row.diffStart r1 p1 start row w pw pp pa = Row.diffStart r2 p2 start row w pw pp pa := by
  have hcols := rowSame_cols h
  unfold Row.diffStart
  rcases listRel_getElem? start h.2 with ⟨e1, e2⟩ | ⟨x, y, e1, e2, hxy⟩
  · rw [e1, e2]
  · rcases listRel_getElem? start hp.2 with ⟨f1, f2⟩ | ⟨x', y', f1, f2, hxy'⟩
    · rw [e1, e2, f1, f2]
    · rw [e1, e2, f1, f2]
      obtain ⟨_, _, _, a4, _, _⟩ := accessors_view x y hxy
      obtain ⟨_, b2, _, _, b5, _⟩ := accessors_view x' y' hxy'
      simp only [eq_congr hxy hxy', hcols, a4, b2, b5]

theorem diffEnd_same {r1 r2 p1 p2 : Row} (h : RowSame r1 r2) (hp : RowSame p1 p2) (row : Nat) (st : Row.FmtSt) :
    Row.diffEnd r1 p1 row st = Row.diffEnd r2 p2 row st := by
  have hcols := rowSame_cols h
  unfold Row.diffEnd
  rw [h.1, hp.1, hcols]
  split
  · cases subM 343 r2.cols 1 with
    | error e => rfl
    | ok c1 =>
      simp only [ok_bind]
      rcases listRel_getElem? c1 h.2 with ⟨e1, e2⟩ | ⟨x, y, e1, e2, hxy⟩
      · simp only [getM, e1, e2, panic, error_bind]
      · obtain ⟨_, _, a3, _, _, _⟩ := accessors_view x y hxy
        simp only [getM, e1, e2, pure_bind', ok_bind, pure_eq_ok, a3]
        split
        · cases subM 345 r2.cols 2 with
          | error e => rfl
          | ok c2 =>
            simp only [ok_bind]
            rcases listRel_getElem? c2 h.2 with ⟨f1, f2⟩ | ⟨x', y', f1, f2, hxy'⟩
            · simp only [f1, f2, panic, error_bind]
            · obtain ⟨c1', c2', _, c4', c5', _⟩ := accessors_view x' y' hxy'
              simp only [f1, f2, ok_bind, c1', c2', c4', c5']
        · obtain ⟨c1', c2', _, c4', c5', _⟩ := accessors_view x y hxy
          simp only [e1, e2, ok_bind, c1', c2', c4', c5']
  · rfl

/-- `Row::write_contents_diff` reads both rows only through cell views and wrap flags -/
theorem row_diff_same {r1 r2 p1 p2 : Row} (h : RowSame r1 r2) (hp : RowSame p1 p2) (start width row : Nat)
    (w pw : Bool) (pp : Pos) (pa : Attrs) :
    r1.writeContentsDiff p1 start width row w pw pp pa = r2.writeContentsDiff p2 start width row w pw pp pa := by
  have hcols := rowSame_cols h
  have hfold : ∀ n st, (Row.window (r1.cells.zip p1.cells) start width).foldlM (Row.diffStep n row w) st =
      (Row.window (r2.cells.zip p2.cells) start width).foldlM (Row.diffStep n row w) st := by
    intro n st
    refine foldlM_rel (R := fun p q => p.1 = q.1 ∧ SameView p.2.1 q.2.1 ∧ SameView p.2.2 q.2.2)
      (Row.diffStep n row w) (fun s x y hxy => diffStep_congr _ _ _ s hxy) st ?_
    exact listRel_window (listRel_zip h.2 hp.2) start width
  simp only [Row.writeContentsDiff, diffStart_same h hp, hfold, hcols, diffEnd_same h hp]

end Vt.C19

namespace Vt.C19
open Vt
set_option linter.unusedSimpArgs false

theorem fmtRowsLoop_same (cols : Nat) : ∀ {rs1 rs2 : List Row}, ListRel RowSame rs1 rs2 →
    ∀ (i : Nat) (w : Bool) (pp : Pos) (pa : Attrs) (out : List Nat),
      Grid.fmtRowsLoop cols rs1 i w pp pa out = Grid.fmtRowsLoop cols rs2 i w pp pa out
  | [], [], _, _, _, _, _, _ => rfl
  | r1 :: rs1, r2 :: rs2, h, i, w, pp, pa, out => by
    simp only [Grid.fmtRowsLoop, row_formatted_same h.1, h.1.1]
    cases r2.writeContentsFormatted 0 cols i w (some pp) (some pa) with
    | error e => rfl
    | ok res =>
      obtain ⟨bs, np, na⟩ := res
      simp only [ok_bind]
      exact fmtRowsLoop_same cols h.2 _ _ _ _ _
  | [], _ :: _, h, _, _, _, _, _ => absurd h (by simp [ListRel])
  | _ :: _, [], h, _, _, _, _, _ => absurd h (by simp [ListRel])

theorem diffRowsLoop_same (cols : Nat) : ∀ {rs1 rs2 ps1 ps2 : List Row}, ListRel RowSame rs1 rs2 →
    ListRel RowSame ps1 ps2 → ∀ (i : Nat) (w pw : Bool) (pp : Pos) (pa : Attrs) (out : List Nat),
      Grid.diffRowsLoop cols (rs1.zip ps1) i w pw pp pa out = Grid.diffRowsLoop cols (rs2.zip ps2) i w pw pp pa out
  | [], [], _, _, _, _, _, _, _, _, _, _ => by simp [Grid.diffRowsLoop]
  | _ :: _, _ :: _, [], [], _, _, _, _, _, _, _, _ => by simp [Grid.diffRowsLoop]
  | r1 :: rs1, r2 :: rs2, p1 :: ps1, p2 :: ps2, h, hp, i, w, pw, pp, pa, out => by
    simp only [List.zip_cons_cons, Grid.diffRowsLoop, row_diff_same h.1 hp.1, h.1.1, hp.1.1]
    cases r2.writeContentsDiff p2 0 cols i w pw pp pa with
    | error e => rfl
    | ok res =>
      obtain ⟨bs, np, na⟩ := res
      simp only [ok_bind]
      exact diffRowsLoop_same cols h.2 hp.2 _ _ _ _ _ _
  | [], _ :: _, _, _, h, _, _, _, _, _, _, _ => absurd h (by simp [ListRel])
  | _ :: _, [], _, _, h, _, _, _, _, _, _, _ => absurd h (by simp [ListRel])
  | _ :: _, _ :: _, [], _ :: _, _, h, _, _, _, _, _, _ => absurd h (by simp [ListRel])
  | _ :: _, _ :: _, _ :: _, [], _, h, _, _, _, _, _, _ => absurd h (by simp [ListRel])

/-- live grids that look the same: size, cursor, and rows with equal wrap flags and cell views -/
structure GridSame (g1 g2 : Grid) : Prop where
  size : g1.size = g2.size
  pos : g1.pos = g2.pos
  rows : ListRel RowSame g1.rows g2.rows

theorem drawingCell_rel {g1 g2 : Grid} (h : GridSame g1 g2) (p : Pos) :
    (g1.drawingCell p = none ∧ g2.drawingCell p = none) ∨
      ∃ x y, g1.drawingCell p = some x ∧ g2.drawingCell p = some y ∧ SameView x y := by
  simp only [Grid.drawingCell, Grid.drawingRow, Row.get]
  rcases listRel_getElem? p.row h.rows with ⟨e1, e2⟩ | ⟨r1, r2, e1, e2, hr⟩
  · left; simp [e1, e2]
  · rcases listRel_getElem? p.col hr.2 with ⟨f1, f2⟩ | ⟨x, y, f1, f2, hxy⟩
    · left; simp [e1, e2, f1, f2]
    · right; exact ⟨x, y, by simp [e1, e2, f1], by simp [e1, e2, f2], hxy⟩

/-- `drawing_cell(pos).unwrap()` followed by something that only looks at the view -/
theorem drawingCellM_bind_congr {β} {g1 g2 : Grid} (h : GridSame g1 g2) (site : Nat) (p : Pos) (k1 k2 : Cell → M β)
    (hk : ∀ a b, SameView a b → k1 a = k2 b) :
    (g1.drawingCellM site p >>= k1) = (g2.drawingCellM site p >>= k2) := by
  unfold Grid.drawingCellM
  rcases drawingCell_rel h p with ⟨e1, e2⟩ | ⟨x, y, e1, e2, hxy⟩
  · simp [e1, e2, panic, bind, Except.bind]
  · simp [e1, e2]; exact hk x y hxy

theorem endOfRowPos_same {g1 g2 : Grid} (h : GridSame g1 g2) (row : Nat) :
    g1.endOfRowPos row = g2.endOfRowPos row := by
  unfold Grid.endOfRowPos
  rw [h.size]
  cases subM 411 g2.size.cols 1 with
  | error e => rfl
  | ok c1 =>
    simp only [ok_bind]
    refine drawingCellM_bind_congr h 412 _ _ _ ?_
    intro a b hab
    obtain ⟨_, _, a3, _, _, _⟩ := accessors_view a b hab
    rw [a3]

theorem cursorSearch_same {g1 g2 : Grid} (h : GridSame g1 g2) (pp : Option Pos) (pa : Attrs) :
    ∀ (is : List Nat), g1.cursorSearch pp pa is = g2.cursorSearch pp pa is
  | [] => rfl
  | i :: is => by
    simp only [Grid.cursorSearch, endOfRowPos_same h, h.size, h.pos]
    cases g2.endOfRowPos i with
    | error e => rfl
    | ok pos =>
      simp only [ok_bind]
      refine drawingCellM_bind_congr h 414 _ _ _ ?_
      intro a b hab
      obtain ⟨a1, _, _, a4, a5, _⟩ := accessors_view a b hab
      simp only [a1, a4, a5, cursorSearch_same h pp pa is]

theorem cursor_same {g1 g2 : Grid} (h : GridSame g1 g2) (pp : Option Pos) (pa : Option Attrs) :
    g1.writeCursorPositionFormatted pp pa = g2.writeCursorPositionFormatted pp pa := by
  unfold Grid.writeCursorPositionFormatted
  simp only [h.size, h.pos, endOfRowPos_same h, cursorSearch_same h]
  split
  · cases g2.endOfRowPos g2.pos.row with
    | error e => rfl
    | ok pos =>
      simp only [ok_bind]
      refine drawingCellM_bind_congr h 415 _ _ _ ?_
      intro a b hab
      obtain ⟨a1, _, _, a4, a5, _⟩ := accessors_view a b hab
      simp only [a1, a4, a5]
      split
      · rfl
      · cases g2.cursorSearch pp (pa.getD Attrs.default) (List.range g2.pos.row).reverse with
        | error e => rfl
        | ok found =>
          simp only [ok_bind]
          cases found with
          | some out => rfl
          | none =>
            simp only
            cases subM 416 g2.size.cols 1 with
            | error e => rfl
            | ok c1 =>
              simp only [ok_bind]
              refine drawingCellM_bind_congr h 417 _ _ _ ?_
              intro a' b' hab'
              obtain ⟨_, _, _, b4, _, _⟩ := accessors_view a' b' hab'
              simp only [b4]
  · rfl

end Vt.C19

namespace Vt.C19
open Vt
set_option linter.unusedSimpArgs false

theorem listRel_append {α} {R : α → α → Prop} : ∀ {a1 a2 b1 b2 : List α}, ListRel R a1 a2 → ListRel R b1 b2 →
    ListRel R (a1 ++ b1) (a2 ++ b2)
  | [], [], _, _, _, hb => hb
  | x :: a1, y :: a2, _, _, ha, hb => ⟨ha.1, listRel_append ha.2 hb⟩
  | [], _ :: _, _, _, ha, _ => absurd ha (by simp [ListRel])
  | _ :: _, [], _, _, ha, _ => absurd ha (by simp [ListRel])

/-- the visible rows (scrollback window over the live rows) of two grids look the same -/
def VisSame (g1 g2 : Grid) : Prop :=
  (∃ e, g1.visibleRows = .error e ∧ g2.visibleRows = .error e) ∨
  (∃ v1 v2, g1.visibleRows = .ok v1 ∧ g2.visibleRows = .ok v2 ∧ ListRel RowSame v1 v2)

/-- same live rows, same scrollback, same offset: same visible rows -/
theorem visSame_of_scrollback {g1 g2 : Grid} (h : GridSame g1 g2)
    (hs : ListRel RowSame g1.scrollback g2.scrollback) (ho : g1.scrollbackOffset = g2.scrollbackOffset) :
    VisSame g1 g2 := by
  unfold VisSame Grid.visibleRows
  simp only [listRel_length hs, listRel_length h.rows, ho]
  cases e : subM 409 g2.scrollback.length g2.scrollbackOffset with
  | error e' => left; exact ⟨e', rfl, rfl⟩
  | ok sk =>
    right
    exact ⟨_, _, rfl, rfl, listRel_append (listRel_take _ (listRel_drop _ hs)) (listRel_take _ h.rows)⟩

theorem visibleRows_offset0 (g : Grid) (h : g.scrollbackOffset = 0) : g.visibleRows = .ok g.rows := by
  simp [Grid.visibleRows, h, subM, pure, Except.pure, bind, Except.bind]

/-- not scrolled back: the visible rows are the live rows -/
theorem visSame_of_offset0 {g1 g2 : Grid} (h : GridSame g1 g2)
    (h1 : g1.scrollbackOffset = 0) (h2 : g2.scrollbackOffset = 0) : VisSame g1 g2 :=
  Or.inr ⟨_, _, visibleRows_offset0 g1 h1, visibleRows_offset0 g2 h2, h.rows⟩

/-- two screens that look the same: same cursor, size, visible and live cell views and wrap flags on
the active grid, same pen, cursor visibility and input modes.  Nothing else (stale cell bytes, the
inactive grid, saved cursors, scroll region, title, scrollback beyond the window, …) is mentioned. -/
structure ScreenSame (s t : Screen) : Prop where
  grid : GridSame s.cur t.cur
  vis : VisSame s.cur t.cur
  hide : s.hideCursor = t.hideCursor
  pen : s.attrs = t.attrs
  modes : s.appKeypad = t.appKeypad ∧ s.appCursor = t.appCursor ∧ s.bracketedPaste = t.bracketedPaste ∧
         s.mouseMode = t.mouseMode ∧ s.mouseEnc = t.mouseEnc

theorem grid_formatted_same {g1 g2 : Grid} (h : GridSame g1 g2) (hv : VisSame g1 g2) :
    g1.writeContentsFormatted = g2.writeContentsFormatted := by
  unfold Grid.writeContentsFormatted
  rcases hv with ⟨e, e1, e2⟩ | ⟨v1, v2, e1, e2, hv⟩
  · rw [e1, e2]; rfl
  · rw [e1, e2]
    simp only [ok_bind, h.size, fmtRowsLoop_same g2.size.cols hv, cursor_same h]

theorem grid_diff_same {g1 g2 p1 p2 : Grid} (h : GridSame g1 g2) (hv : VisSame g1 g2)
    (hp : GridSame p1 p2) (hpv : VisSame p1 p2) (pa : Attrs) :
    g1.writeContentsDiff p1 pa = g2.writeContentsDiff p2 pa := by
  unfold Grid.writeContentsDiff
  rcases hv with ⟨e, e1, e2⟩ | ⟨v1, v2, e1, e2, hv⟩
  · rw [e1, e2]; rfl
  · rw [e1, e2]
    simp only [ok_bind]
    rcases hpv with ⟨e, f1, f2⟩ | ⟨w1, w2, f1, f2, hw⟩
    · rw [f1, f2]; rfl
    · rw [f1, f2]
      simp only [ok_bind, h.size, hp.pos, diffRowsLoop_same g2.size.cols hv hw, cursor_same h]

/-- **C19** `contents_formatted` depends only on what the screen looks like -/
theorem contents_formatted_same {s t : Screen} (h : ScreenSame s t) :
    s.contentsFormatted = t.contentsFormatted := by
  simp only [Screen.contentsFormatted, Screen.writeContentsFormatted, grid_formatted_same h.grid h.vis,
    h.hide, h.pen]

/-- **C19** `state_formatted` depends only on what the screen looks like -/
theorem state_formatted_same {s t : Screen} (h : ScreenSame s t) :
    s.stateFormatted = t.stateFormatted := by
  have := contents_formatted_same h
  simp only [Screen.contentsFormatted] at this
  simp only [Screen.stateFormatted, this, Screen.writeInputModeFormatted, h.modes.1, h.modes.2.1,
    h.modes.2.2.1, h.modes.2.2.2.1, h.modes.2.2.2.2]

/-- **C19** `cursor_state_formatted` depends only on what the screen looks like -/
theorem cursor_state_formatted_same {s t : Screen} (h : ScreenSame s t) :
    s.cursorStateFormatted = t.cursorStateFormatted := by
  simp only [Screen.cursorStateFormatted, cursor_same h.grid, h.hide]

theorem rowsFormattedLoop_same (fw : Bool) (start width : Nat) : ∀ {rs1 rs2 : List Row},
    ListRel RowSame rs1 rs2 → ∀ (i : Nat) (w : Bool),
      Screen.rowsFormattedLoop fw start width rs1 i w = Screen.rowsFormattedLoop fw start width rs2 i w
  | [], [], _, _, _ => rfl
  | r1 :: rs1, r2 :: rs2, h, i, w => by
    simp only [Screen.rowsFormattedLoop, row_formatted_same h.1, h.1.1, rowsFormattedLoop_same fw start width h.2]
  | [], _ :: _, h, _, _ => absurd h (by simp [ListRel])
  | _ :: _, [], h, _, _ => absurd h (by simp [ListRel])

/-- **C19** `rows_formatted(start, width)` depends only on what the screen looks like
(`s.grid.size = s.cur.size` is part of `Inv`) -/
theorem rows_formatted_same {s t : Screen} (h : ScreenSame s t) (hc : s.grid.size.cols = t.grid.size.cols)
    (start width : Nat) : s.rowsFormatted start width = t.rowsFormatted start width := by
  unfold Screen.rowsFormatted
  rcases h.vis with ⟨e, e1, e2⟩ | ⟨v1, v2, e1, e2, hv⟩
  · rw [e1, e2]; rfl
  · rw [e1, e2]
    simp only [ok_bind, hc, rowsFormattedLoop_same _ start width hv]

/-- **C19** `contents_diff` depends only on what the two screens look like -/
theorem contents_diff_same {s t p q : Screen} (h : ScreenSame s t) (hp : ScreenSame p q) :
    s.contentsDiff p = t.contentsDiff q := by
  simp only [Screen.contentsDiff, Screen.writeContentsDiff,
    grid_diff_same h.grid h.vis hp.grid hp.vis, h.hide, hp.hide, h.pen, hp.pen]

/-- **C19** `state_diff` depends only on what the two screens look like -/
theorem state_diff_same {s t p q : Screen} (h : ScreenSame s t) (hp : ScreenSame p q) :
    s.stateDiff p = t.stateDiff q := by
  have := contents_diff_same h hp
  simp only [Screen.contentsDiff] at this
  simp only [Screen.stateDiff, this, Screen.writeInputModeDiff, h.modes.1, h.modes.2.1,
    h.modes.2.2.1, h.modes.2.2.2.1, h.modes.2.2.2.2, hp.modes.1, hp.modes.2.1,
    hp.modes.2.2.1, hp.modes.2.2.2.1, hp.modes.2.2.2.2]

theorem rowsDiffLoop_same (start width : Nat) : ∀ {rs1 rs2 ps1 ps2 : List Row}, ListRel RowSame rs1 rs2 →
    ListRel RowSame ps1 ps2 → ∀ (i : Nat),
      Screen.rowsDiffLoop start width (rs1.zip ps1) i = Screen.rowsDiffLoop start width (rs2.zip ps2) i
  | [], [], _, _, _, _, _ => by simp [Screen.rowsDiffLoop]
  | _ :: _, _ :: _, [], [], _, _, _ => by simp [Screen.rowsDiffLoop]
  | r1 :: rs1, r2 :: rs2, p1 :: ps1, p2 :: ps2, h, hp, i => by
    simp only [List.zip_cons_cons, Screen.rowsDiffLoop, row_diff_same h.1 hp.1,
      rowsDiffLoop_same start width h.2 hp.2]
  | [], _ :: _, _, _, h, _, _ => absurd h (by simp [ListRel])
  | _ :: _, [], _, _, h, _, _ => absurd h (by simp [ListRel])
  | _ :: _, _ :: _, [], _ :: _, _, h, _ => absurd h (by simp [ListRel])
  | _ :: _, _ :: _, _ :: _, [], _, h, _ => absurd h (by simp [ListRel])

/-- **C19** `rows_diff(prev, start, width)` depends only on what the two screens look like -/
theorem rows_diff_same {s t p q : Screen} (h : ScreenSame s t) (hp : ScreenSame p q) (start width : Nat) :
    s.rowsDiff p start width = t.rowsDiff q start width := by
  unfold Screen.rowsDiff
  rcases h.vis with ⟨e, e1, e2⟩ | ⟨v1, v2, e1, e2, hv⟩
  · rw [e1, e2]; rfl
  · rw [e1, e2]
    simp only [ok_bind]
    rcases hp.vis with ⟨e, f1, f2⟩ | ⟨w1, w2, f1, f2, hw⟩
    · rw [f1, f2]; rfl
    · rw [f1, f2]
      simp only [ok_bind, rowsDiffLoop_same start width hv hw]

end Vt.C19

/-! ### equal screens diff to nothing -/
namespace Vt.C19
open Vt
set_option linter.unusedSimpArgs false

theorem cell_eq_self (c : Cell) : c.eq c = true := (eq_iff_view c c).2 rfl

theorem mem_window {α} {l : List α} {start width : Nat} {p : Nat × α} (h : p ∈ Row.window l start width) :
    p.2 ∈ l := by
  unfold Row.window at h
  have h := List.mem_of_mem_drop (List.mem_of_mem_take h)
  simp only [List.mem_map] at h
  obtain ⟨q, hq, rfl⟩ := h
  exact (List.mem_zipIdx' hq).2 ▸ List.getElem_mem _

theorem mem_zip_self {α} {l : List α} {p : α × α} (h : p ∈ l.zip l) : p.1 = p.2 := by
  induction l with
  | nil => simp at h
  | cons x xs ih =>
    simp only [List.zip_cons_cons, List.mem_cons] at h
    rcases h with rfl | h
    · rfl
    · exact ih h

/-- a cell equal to its predecessor adds nothing -/
theorem diffStep_eq (n row : Nat) (w : Bool) (st : Row.FmtSt) (col : Nat) (c p : Cell)
    (he : st.erase = none) (hcp : c.eq p = true) :
    ∃ b, Row.diffStep n row w st (col, (c, p)) = .ok { st with prevWasWide := b } := by
  unfold Row.diffStep
  by_cases hw : st.prevWasWide = true
  · simp only [hw, ↓reduceIte]; exact ⟨false, rfl⟩
  · simp only [hw, Bool.false_eq_true, ↓reduceIte, Row.fmtCellStep, he, hcp, Bool.not_true, pure_bind',
      ok_bind]
    exact ⟨c.isWide, rfl⟩

theorem diffFold_eq (n row : Nat) (w : Bool) : ∀ (l : List (Nat × (Cell × Cell))) (st : Row.FmtSt),
    (∀ p ∈ l, p.2.1.eq p.2.2 = true) → st.erase = none →
    ∃ b, l.foldlM (Row.diffStep n row w) st = .ok { st with prevWasWide := b }
  | [], st, _, _ => ⟨st.prevWasWide, rfl⟩
  | (col, (c, p)) :: l, st, h, he => by
    obtain ⟨b, e⟩ := diffStep_eq n row w st col c p he (h _ (List.mem_cons_self ..))
    obtain ⟨b', e'⟩ := diffFold_eq n row w l { st with prevWasWide := b }
      (fun q hq => h q (List.mem_cons_of_mem _ hq)) he
    exact ⟨b', by simp only [List.foldlM_cons, e, ok_bind, e']⟩

/-- a row diffed against itself writes nothing and leaves the bookkeeping alone -/
theorem row_diff_self (r : Row) (start width row : Nat) (w : Bool) (pp : Pos) (pa : Attrs) :
    r.writeContentsDiff r start width row w w pp pa = .ok ([], pp, pa) := by
  unfold Row.writeContentsDiff
  have e0 : Row.diffStart r r start row w w pp pa =
      .ok { prevWasWide := false, prevPos := pp, prevAttrs := pa, erase := none, out := [] } := by
    unfold Row.diffStart
    cases r.cells[start]? with
    | none => rfl
    | some c => cases w <;> simp [pure, Except.pure]
  obtain ⟨b, e⟩ := diffFold_eq r.cols row w (Row.window (r.cells.zip r.cells) start width)
    { prevWasWide := false, prevPos := pp, prevAttrs := pa, erase := none, out := [] }
    (fun p hp => by rw [mem_zip_self (mem_window hp)]; exact cell_eq_self _) rfl
  simp only [e0, ok_bind, e, Row.fmtFinish, Row.diffEnd]
  cases r.wrapped <;> simp [pure, Except.pure]

/-- … and so does a row diffed against one that looks the same -/
theorem row_diff_look_alike {r p : Row} (h : RowSame r p) (start width row : Nat) (w : Bool) (pp : Pos)
    (pa : Attrs) : r.writeContentsDiff p start width row w w pp pa = .ok ([], pp, pa) := by
  rw [← row_diff_self r start width row w pp pa]
  exact (row_diff_same (listRel_refl' r) h start width row w w pp pa).symm
where listRel_refl' (r : Row) : RowSame r r := ⟨rfl, listRel_refl sameView_refl _⟩

theorem diffRowsLoop_self (cols : Nat) : ∀ (rs : List Row) (i : Nat) (w : Bool) (pp : Pos) (pa : Attrs)
    (out : List Nat), Grid.diffRowsLoop cols (rs.zip rs) i w w pp pa out = .ok (out, pp, pa)
  | [], _, _, _, _, _ => rfl
  | r :: rs, i, w, pp, pa, out => by
    simp only [List.zip_cons_cons, Grid.diffRowsLoop, row_diff_self, ok_bind, List.append_nil]
    exact diffRowsLoop_self cols rs _ _ _ _ _

theorem moveFromTo_self (p : Pos) : Term.moveFromTo p p = [] := by
  simp [Term.moveFromTo]

theorem gridSame_refl (g : Grid) : GridSame g g :=
  ⟨rfl, rfl, listRel_refl (fun _ => ⟨rfl, listRel_refl sameView_refl _⟩) _⟩

theorem visibleRows_ok (g : Grid) (h : g.scrollbackOffset ≤ g.scrollback.length) :
    ∃ v, g.visibleRows = .ok v := by
  simp [Grid.visibleRows, subM, h, show ¬ g.scrollback.length < g.scrollbackOffset by omega, pure,
    Except.pure, bind, Except.bind]

theorem visSame_refl (g : Grid) (h : g.scrollbackOffset ≤ g.scrollback.length) : VisSame g g := by
  obtain ⟨v, e⟩ := visibleRows_ok g h
  exact Or.inr ⟨v, v, e, e, listRel_refl (fun r => ⟨rfl, listRel_refl sameView_refl _⟩) _⟩

theorem screenSame_refl (s : Screen) (h : s.cur.scrollbackOffset ≤ s.cur.scrollback.length) : ScreenSame s s :=
  ⟨gridSame_refl _, visSame_refl _ h, rfl, rfl, rfl, rfl, rfl, rfl, rfl⟩

/-- a grid diffed against itself only asks for the pen to be kept -/
theorem grid_diff_self (g : Grid) (h : g.scrollbackOffset ≤ g.scrollback.length) (pa : Attrs) :
    g.writeContentsDiff g pa = .ok ([], pa) := by
  obtain ⟨v, e⟩ := visibleRows_ok g h
  simp only [Grid.writeContentsDiff, e, ok_bind, diffRowsLoop_self, Grid.writeCursorPositionFormatted,
    bne_self_eq_false, Bool.false_and, Bool.false_eq_true, ↓reduceIte, Grid.moveOpt, moveFromTo_self,
    pure_bind', List.append_nil]
  rfl

/-- **C19** a screen diffed against itself is the empty byte string
(`scrollbackOffset ≤ scrollback.length` is part of `Inv`) -/
theorem contents_diff_self (s : Screen) (h : s.cur.scrollbackOffset ≤ s.cur.scrollback.length) :
    s.contentsDiff s = .ok [] := by
  simp only [Screen.contentsDiff, Screen.writeContentsDiff, grid_diff_self _ h, ok_bind, bne_self_eq_false,
    Bool.false_eq_true, ↓reduceIte, attrs_diff_self, List.append_nil]
  rfl

/-- **C19** `state_diff` of a screen against itself is the empty byte string -/
theorem state_diff_self (s : Screen) (h : s.cur.scrollbackOffset ≤ s.cur.scrollback.length) :
    s.stateDiff s = .ok [] := by
  have e := contents_diff_self s h
  simp only [Screen.contentsDiff] at e
  have m := input_mode_diff_self s s ⟨rfl, rfl, rfl, rfl, rfl⟩
  simp only [Screen.inputModeDiff] at m
  simp only [Screen.stateDiff, e, ok_bind, m, List.append_nil]
  rfl

/-- **C19** equal-looking screens diff to nothing: whatever else differs between `s` and `t`
(stale cell bytes, inactive grid, saved cursors, margins, title, hidden scrollback, …),
`s.contents_diff(t)` is empty -/
theorem contents_diff_look_alike {s t : Screen} (h : ScreenSame s t)
    (hs : s.cur.scrollbackOffset ≤ s.cur.scrollback.length) : s.contentsDiff t = .ok [] := by
  rw [← contents_diff_self s hs]
  exact (contents_diff_same (screenSame_refl s hs) h).symm

/-- **C19** equal-looking screens: `state_diff` is empty -/
theorem state_diff_look_alike {s t : Screen} (h : ScreenSame s t)
    (hs : s.cur.scrollbackOffset ≤ s.cur.scrollback.length) : s.stateDiff t = .ok [] := by
  rw [← state_diff_self s hs]
  exact (state_diff_same (screenSame_refl s hs) h).symm

end Vt.C19

/-! ### in terms of `obs` (DESIGN §5.1), for live (not scrolled-back) screens satisfying `Inv` -/
namespace Vt.C19
open Vt
set_option linter.unusedSimpArgs false

theorem sameView_of_cellObs {a b : Cell} (ha : a.len ≤ a.contents.length) (hb : b.len ≤ b.contents.length)
    (h : cellObs a = cellObs b) : SameView a b := by
  simp only [cellObs, CellObs.mk.injEq] at h
  obtain ⟨h1, h2, h3, h4⟩ := h
  have hl := congrArg List.length h1
  simp only [List.length_take] at hl
  have : a.len = b.len := by omega
  simp only [SameView, view, View.mk.injEq]
  exact ⟨this, h2, h3, h4, h1⟩

theorem cells_same_of_obs : ∀ {l1 l2 : List Cell}, (∀ c ∈ l1, c.len ≤ c.contents.length) →
    (∀ c ∈ l2, c.len ≤ c.contents.length) → l1.map cellObs = l2.map cellObs → ListRel SameView l1 l2
  | [], [], _, _, _ => trivial
  | a :: l1, b :: l2, h1, h2, h => by
    simp only [List.map_cons, List.cons.injEq] at h
    exact ⟨sameView_of_cellObs (h1 a (List.mem_cons_self ..)) (h2 b (List.mem_cons_self ..)) h.1,
      cells_same_of_obs (fun c hc => h1 c (List.mem_cons_of_mem _ hc))
        (fun c hc => h2 c (List.mem_cons_of_mem _ hc)) h.2⟩
  | [], _ :: _, _, _, h => by simp at h
  | _ :: _, [], _, _, h => by simp at h

theorem rows_same_of_obs : ∀ {l1 l2 : List Row},
    (∀ r ∈ l1, ∀ c ∈ r.cells, c.len ≤ c.contents.length) →
    (∀ r ∈ l2, ∀ c ∈ r.cells, c.len ≤ c.contents.length) →
    l1.map (fun r => r.cells.map cellObs) = l2.map (fun r => r.cells.map cellObs) →
    l1.map (fun r => r.wrapped) = l2.map (fun r => r.wrapped) → ListRel RowSame l1 l2
  | [], [], _, _, _, _ => trivial
  | a :: l1, b :: l2, h1, h2, h, hw => by
    simp only [List.map_cons, List.cons.injEq] at h hw
    exact ⟨⟨hw.1, cells_same_of_obs (h1 a (List.mem_cons_self ..)) (h2 b (List.mem_cons_self ..)) h.1⟩,
      rows_same_of_obs (fun c hc => h1 c (List.mem_cons_of_mem _ hc))
        (fun c hc => h2 c (List.mem_cons_of_mem _ hc)) h.2 hw.2⟩
  | [], _ :: _, _, _, h, _ => by simp at h
  | _ :: _, [], _, _, h, _ => by simp at h

theorem inv_cell_len {W : Nat → Option Nat} {s : Screen} (h : Inv W s) :
    ∀ r ∈ s.cur.rows, ∀ c ∈ r.cells, c.len ≤ c.contents.length := by
  intro r hr c hc
  have hg := ((inv_iff W s).mp h).cur.1
  have hrow := (hg.row_ok r hr).2
  have hcell := ((rowOk_iff W r).mp hrow).2.cells_ok c hc
  obtain ⟨a, b, _⟩ := cellOk_fields W hcell
  omega

/-- two live screens satisfying `Inv` with the same observable state look the same -/
theorem screenSame_of_obs {W : Nat → Option Nat} {s t : Screen} (hs : Inv W s) (ht : Inv W t)
    (hs0 : s.cur.scrollbackOffset = 0) (ht0 : t.cur.scrollbackOffset = 0) (h : obs s = obs t) :
    ScreenSame s t := by
  simp only [obs, visibleRows_offset0 _ hs0, visibleRows_offset0 _ ht0, ok_bind, pure, Except.pure,
    Except.ok.injEq, Obs.mk.injEq, Prod.mk.injEq] at h
  obtain ⟨h1, h2, h3, h4, h5, h6, h7⟩ := h
  have hg : GridSame s.cur t.cur := ⟨h1, h4, rows_same_of_obs (inv_cell_len hs) (inv_cell_len ht) h2 h3⟩
  exact ⟨hg, visSame_of_offset0 hg hs0 ht0, h5, h6, h7⟩

/-- **C19** (in terms of `obs`) live screens with equal observable state emit identical
`contents_formatted`, `state_formatted`, `cursor_state_formatted`, `rows_formatted`, and diff to nothing -/
theorem emitters_of_obs {W : Nat → Option Nat} {s t : Screen} (hs : Inv W s) (ht : Inv W t)
    (hs0 : s.cur.scrollbackOffset = 0) (ht0 : t.cur.scrollbackOffset = 0) (h : obs s = obs t) :
    s.contentsFormatted = t.contentsFormatted ∧ s.stateFormatted = t.stateFormatted ∧
    s.cursorStateFormatted = t.cursorStateFormatted ∧
    (∀ start width, s.rowsFormatted start width = t.rowsFormatted start width) ∧
    s.contentsDiff t = .ok [] ∧ s.stateDiff t = .ok [] := by
  have hst := screenSame_of_obs hs ht hs0 ht0 h
  have hc : s.grid.size.cols = t.grid.size.cols := by
    have e1 : s.grid.size = s.cur.size := by
      unfold Screen.cur; split
      · exact ((inv_iff W s).mp hs).same_size
      · rfl
    have e2 : t.grid.size = t.cur.size := by
      unfold Screen.cur; split
      · exact ((inv_iff W t).mp ht).same_size
      · rfl
    rw [e1, e2, hst.grid.size]
  have hoff : s.cur.scrollbackOffset ≤ s.cur.scrollback.length := by omega
  exact ⟨contents_formatted_same hst, state_formatted_same hst, cursor_state_formatted_same hst,
    fun a b => rows_formatted_same hst hc a b, contents_diff_look_alike hst hoff,
    state_diff_look_alike hst hoff⟩

end Vt.C19

namespace Vt.C19
open Vt

/-- the premises of `emitters_of_obs` are satisfiable by two screens that differ internally: "a" typed on
a fresh screen, against "é", carriage return, "a" (leaves a stale byte in the first cell) with a scroll
region, a saved cursor and a title set on the way (kernel-evaluated; a test of the model) -/
theorem emitters_of_obs_nonvacuous :
    isOkTrue (do
      let p ← C02.run 3 3 0 [[97]]
      let q ← C02.run 3 3 0 [[0xC3, 0xA9, 0x1b, 55, 13, 0x1b, 0x5b, 0x31, 0x3b, 0x32, 0x72, 97]]
      let a ← obs p.screen
      let b ← obs q.screen
      pure (a == b && p.screen.cur.rows != q.screen.cur.rows && p.screen.cur.scrollBottom != q.screen.cur.scrollBottom
            && invB W0 p.screen && invB W0 q.screen
            && p.screen.cur.scrollbackOffset == 0 && q.screen.cur.scrollbackOffset == 0)) = true := by
  decide +kernel

end Vt.C19
