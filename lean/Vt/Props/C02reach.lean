/-
  C02 along a history: the snapshots are the screens a parser passes through (after each segment of
  `process` / `set_size` / `set_scrollback` calls, starting from `Parser::new`); every such screen satisfies the
  invariants (`reachable_emitInv`), so `diff_chain_after_redraw` applies with no hypothesis on the screens other
  than the three the theorem is about: not scrolled back, one size, no soft-wrapped line.
-/
import Vt.Props.DiffGrid
import Vt.Props.InvAll
namespace Vt.C02
open Vt Vt.C13 Vt.C19 Vt.InvX Vt.InvF Vt.InvAll Vt.Recv Vt.C01
set_option linter.unusedSimpArgs false
set_option linter.unusedVariables false

variable {W : Nat → Option Nat}

/-- the screens a history passes through: the screen after each segment of operations -/
def snapshots (W : Nat → Option Nat) (cb : CbPolicy) : Parser → List (List Op) → M (List Screen)
  | _, [] => pure []
  | p, seg :: rest => do
    let p' ← seg.foldlM (applyOp W cb) p
    let tl ← snapshots W cb p' rest
    pure (p'.ws.screen :: tl)

/-- `p` is reached from `Parser::new rows cols sb` by valid operations -/
def Reached (W : Nat → Option Nat) (cb : CbPolicy) (rows cols sb : Nat) (p : Parser) : Prop :=
  ∃ ops : List Op, (∀ op ∈ ops, op.Valid) ∧
    (Parser.new rows cols sb >>= fun p0 => ops.foldlM (applyOp W cb) p0) = .ok p

theorem reached_inv (hW32 : W 32 = some 1) {cb : CbPolicy} (hcb : CbInv W cb) (hcx : CbX W cb) (hcf : CbF W cb)
    {rows cols sb : Nat} (hr : 1 ≤ rows) (hc : 1 ≤ cols) (hr' : rows ≤ 65535) (hc' : cols ≤ 65535) {p : Parser}
    (h : Reached W cb rows cols sb p) : ParserInv W p ∧ emitInvB W p.ws.screen = true := by
  obtain ⟨ops, hv, e⟩ := h
  obtain ⟨p', e', hi, he⟩ := reachable_emitInv hW32 hcb hcx hcf rows cols sb hr hc hr' hc' ops hv
  have : p' = p := by rw [e] at e'; exact (Except.ok.inj e').symm
  subst this
  exact ⟨hi, he⟩

theorem fold_total (hW32 : W 32 = some 1) {cb : CbPolicy} (hcb : CbInv W cb) :
    ∀ (seg : List Op) (p : Parser), ParserInv W p → (∀ op ∈ seg, op.Valid) →
      ∃ p', seg.foldlM (applyOp W cb) p = .ok p' ∧ ParserInv W p'
  | [], p, hp, _ => ⟨p, rfl, hp⟩
  | op :: rest, p, hp, hv => by
    obtain ⟨p1, e1, h1⟩ := applyOp_total hW32 hcb p hp op (hv op (List.mem_cons_self ..))
    obtain ⟨p2, e2, h2⟩ := fold_total hW32 hcb rest p1 h1 (fun o ho => hv o (List.mem_cons_of_mem _ ho))
    exact ⟨p2, by rw [List.foldlM_cons, e1]; exact e2, h2⟩

theorem reached_step {cb : CbPolicy} {rows cols sb : Nat} {p p' : Parser} (h : Reached W cb rows cols sb p)
    {seg : List Op} (hv : ∀ op ∈ seg, op.Valid) (e : seg.foldlM (applyOp W cb) p = .ok p') :
    Reached W cb rows cols sb p' := by
  obtain ⟨ops, hvo, eo⟩ := h
  refine ⟨ops ++ seg, fun op ho => ?_, ?_⟩
  · rcases List.mem_append.mp ho with h1 | h1
    · exact hvo op h1
    · exact hv op h1
  · obtain ⟨q0, en, ef⟩ := bind_eq_ok.mp eo
    rw [en]
    simp only [ok_bind, List.foldlM_append, ef]
    exact e

/-- every screen a history passes through satisfies the invariants -/
theorem snapshots_inv (hW32 : W 32 = some 1) {cb : CbPolicy} (hcb : CbInv W cb) (hcx : CbX W cb) (hcf : CbF W cb)
    {rows cols sb : Nat} (hr : 1 ≤ rows) (hc : 1 ≤ cols) (hr' : rows ≤ 65535) (hc' : cols ≤ 65535) :
    ∀ (segs : List (List Op)) (p : Parser), Reached W cb rows cols sb p → (∀ seg ∈ segs, ∀ op ∈ seg, op.Valid) →
      ∃ Ss, snapshots W cb p segs = .ok Ss ∧ ∀ S ∈ Ss, emitInvB W S = true
  | [], p, _, _ => ⟨[], rfl, fun S hS => absurd hS (by simp)⟩
  | seg :: rest, p, hp, hv => by
    have hpi := (reached_inv hW32 hcb hcx hcf hr hc hr' hc' hp).1
    obtain ⟨p1, e1, _⟩ := fold_total hW32 hcb seg p hpi (hv seg (List.mem_cons_self ..))
    have hp1 := reached_step hp (hv seg (List.mem_cons_self ..)) e1
    obtain ⟨tl, e2, h2⟩ := snapshots_inv hW32 hcb hcx hcf hr hc hr' hc' rest p1 hp1
      (fun s hs => hv s (List.mem_cons_of_mem _ hs))
    refine ⟨p1.ws.screen :: tl, by simp only [snapshots, e1, ok_bind, e2, pure_eq_ok], ?_⟩
    intro S hS
    rcases List.mem_cons.mp hS with h | h
    · rw [h]; exact (reached_inv hW32 hcb hcx hcf hr hc hr' hc' hp1).2
    · exact h2 S h

/-- **C02 for snapshot chains along a history**: from `Parser::new`, any valid operations `seg0` lead to the first
snapshot `S0`, further segments `segs` to the snapshots `Ss`.  If none of these screens is scrolled back, all have
the size of `S0`, and none has a soft-wrapped line, then a new parser fed `S0.state_formatted()` and then
`diff(S1,S0)`, `diff(S2,S1)`, … ends in the observable state of the last snapshot and reports no event.
(`cbS` is the sender's callback policy, `cbR` the receiver's.) -/
theorem diff_chain_along_history (hW : WOk W) {cbS cbR : CbPolicy} (hcb : CbInv W cbS) (hcx : CbX W cbS) (hcf : CbF W cbS)
    (hcbR : CbInv W cbR) (rows cols sb : Nat) (hr : 1 ≤ rows) (hc : 1 ≤ cols) (hr' : rows ≤ 65535) (hc' : cols ≤ 65535)
    (seg0 : List Op) (segs : List (List Op)) (hv0 : ∀ op ∈ seg0, op.Valid) (hv : ∀ seg ∈ segs, ∀ op ∈ seg, op.Valid) :
    ∃ p0 Ss, (Parser.new rows cols sb >>= fun p => seg0.foldlM (applyOp W cbS) p) = .ok p0 ∧
      snapshots W cbS p0 segs = .ok Ss ∧
      ((∀ S ∈ p0.ws.screen :: Ss, S.cur.scrollbackOffset = 0 ∧ S.cur.size = p0.ws.screen.cur.size ∧
          ∀ r ∈ S.cur.rows, r.wrapped = false) →
        ∀ sbR, ∃ q b0 q0 qn, Parser.new p0.ws.screen.cur.size.rows p0.ws.screen.cur.size.cols sbR = .ok q ∧
          p0.ws.screen.stateFormatted = .ok b0 ∧ q.process W cbR b0 = .ok q0 ∧
          feedDiffs W cbR q0 p0.ws.screen Ss = .ok qn ∧
          obs qn.screen = obs ((p0.ws.screen :: Ss).getLast (by simp)) ∧ qn.ws.events = []) := by
  obtain ⟨p0, e0, _, he0⟩ := reachable_emitInv hW.space hcb hcx hcf rows cols sb hr hc hr' hc' seg0 hv0
  have hp0 : Reached W cbS rows cols sb p0 := ⟨seg0, hv0, e0⟩
  obtain ⟨Ss, es, hall⟩ := snapshots_inv hW.space hcb hcx hcf hr hc hr' hc' segs p0 hp0 hv
  refine ⟨p0, Ss, e0, es, fun hcond sbR => ?_⟩
  have h0 := hcond p0.ws.screen (List.mem_cons_self ..)
  exact diff_chain_after_redraw (cb := cbR) hW hcbR p0.ws.screen Ss ⟨he0, h0.1, rfl, h0.2.2⟩
    (fun S hS => by
      have := hcond S (List.mem_cons_of_mem _ hS)
      exact ⟨hall S hS, this.1, this.2.1, this.2.2⟩) sbR

/-- non-vacuity: the model's callback policies satisfy the hypotheses on both sides -/
example : (CbInv W0 cbNone ∧ CbX W0 cbNone ∧ CbF W0 cbNone) ∧ (CbInv W0 cbResize ∧ CbX W0 cbResize ∧ CbF W0 cbResize) ∧
    WOk W0 := ⟨cbNone_all, cbResize_all, C01.wOk_W0⟩

end Vt.C02
