/-
  Vt.Props.DiffGrid2 — C02 with soft-wrapped lines that the diff does not touch.

  `DiffGrid.state_diff_unwrapped` asks that NO line of P or S is wrapped; `C02b.state_diff_cursor_only` asks that all
  lines are equal.  Both are instances of one statement about each line `i` of the pair:

    plain  — line `i` is wrapped in neither screen and the line above it is not wrapped in S
             (so the emitter runs with `wrapping = false`: `DiffRow.row_diff_draws`), or
    frozen — line `i` looks the same in both screens (cell views and wrap flag) and the lines above it have the same
             wrap flag in both (so the emitter writes nothing for it: `C19.row_diff_look_alike`).

  `state_diff_mixed`: if every line is plain or frozen, a receiver (a parser satisfying the parser invariant) that
  reproduces P, fed the bytes of `S.state_diff(P)`, reproduces S.  A long wrapped paragraph that stays on the screen
  while other lines are rewritten is covered; what is not covered is a CHANGED line that is wrapped or follows a wrapped
  line — the region where the listed findings F8a / F8b live.
-/
import Vt.Props.DiffGrid
namespace Vt.C02
open Vt Vt.Recv Vt.C19 Vt.C09 Vt.RowDraw Vt.GridDraw Vt.Tok Vt.C03 Vt.C01 Vt.Bytes Vt.DiffRow
set_option linter.unusedSimpArgs false
set_option linter.unusedVariables false

variable {W : Nat → Option Nat} {cb : CbPolicy}

/-- the wrap flag of the line above line `i` (`false` for the first line): what the loop passes as `wrapping` -/
def wrapAbove (rows : List Row) (i : Nat) : Bool :=
  if i = 0 then false else ((rows[i - 1]?).map (·.wrapped)).getD false

/-- line `i` of the pair is one the theorem handles -/
def LineOk (srows prows : List Row) (i : Nat) : Prop :=
  (((srows[i]?).map (·.wrapped)).getD false = false ∧ ((prows[i]?).map (·.wrapped)).getD false = false ∧
      wrapAbove srows i = false) ∨
  ((∃ r p, srows[i]? = some r ∧ prows[i]? = some p ∧ RowSame r p) ∧ wrapAbove srows i = wrapAbove prows i)

/-- the receiver between the lines of a diff: lines `< i` show the current screen, lines `≥ i` the previous one,
wrap flags included -/
structure RowsInvM (srows prows : List Row) (cols i : Nat) (pp : Pos) (R : RS) : Prop where
  canvas : Canvas R.g
  hcols : R.g.size.cols = cols
  nrows : R.g.size.rows = srows.length
  plen : prows.length = srows.length
  pos : R.g.pos = pp
  row : ∀ k (hk : k < srows.length), ∃ Rk, R.g.rows[k]? = some Rk ∧
    (k < i → Rk.cells.map view = srows[k].cells.map view ∧ Rk.wrapped = srows[k].wrapped) ∧
    (i ≤ k → Rk.cells.map view = (prows[k]'(by rw [plen]; exact hk)).cells.map view ∧
      Rk.wrapped = (prows[k]'(by rw [plen]; exact hk)).wrapped)

theorem map_view_of_listRel : ∀ {l1 l2 : List Cell}, ListRel SameView l1 l2 → l1.map view = l2.map view
  | [], [], _ => rfl
  | x :: xs, y :: ys, h => by
    simp only [List.map_cons]
    rw [show view x = view y from h.1, map_view_of_listRel h.2]
  | [], _ :: _, h => absurd h (by simp [ListRel])
  | _ :: _, [], h => absurd h (by simp [ListRel])

theorem wrapAbove_succ (rows : List Row) (i : Nat) (hi : i < rows.length) : wrapAbove rows (i + 1) = rows[i].wrapped := by
  simp [wrapAbove, List.getElem?_eq_getElem hi]

/-- **one line of the loop**, plain or frozen -/
theorem diff_rows_step_m (hW : WOk W) (hcb : C13.CbInv W cb) (p0 : Parser) (h0 : Ready p0) (hpi : C13.ParserInv W p0)
    {srows prows : List Row} {cols : Nat} (hS : SrcRows W cols srows) (hP : SrcRows W cols prows)
    {i : Nat} (hi : i < srows.length) (hok : LineOk srows prows i) {pp : Pos} {R : RS} {out : List Nat}
    (hinv : RowsInvM srows prows cols i pp R) (hem : Emitted W cb p0 out R) (hb : Bytes out) (hpp : pp.col ≤ cols) :
    ∃ bs np na R', srows[i].writeContentsDiff (prows[i]'(by rw [hinv.plen]; exact hi)) 0 cols i (wrapAbove srows i)
        (wrapAbove prows i) pp R.pen = .ok (bs, np, na) ∧
      Emitted W cb p0 (out ++ bs) R' ∧ R'.pen = na ∧ RowsInvM srows prows cols (i + 1) np R' ∧ Bytes (out ++ bs) ∧
      np.col ≤ cols ∧ R'.g.scrollbackOffset = R.g.scrollbackOffset ∧ (Attrs.wf R.pen → Attrs.wf na) := by
  have hip : i < prows.length := by rw [hinv.plen]; exact hi
  have hmem : srows[i] ∈ srows := List.getElem_mem hi
  have hmemp : prows[i] ∈ prows := List.getElem_mem hip
  have hwd := hS.width _ hmem
  have hwdp := hP.width _ hmemp
  obtain ⟨Ri0, hRi0, _, hshow⟩ := hinv.row i hi
  obtain ⟨hshowv, hshoww⟩ := hshow (Nat.le_refl _)
  have hir : i < R.g.size.rows := by rw [hinv.nrows]; exact hi
  have hil : i < R.g.rows.length := by rw [hinv.canvas.alloc]; exact hir
  rcases hok with ⟨hsu, hpu, hwa⟩ | ⟨⟨r, p, er, ep, hsame⟩, hwa⟩
  · -- a plain line
    simp only [List.getElem?_eq_getElem hi, List.getElem?_eq_getElem hip, Option.map_some, Option.getD_some] at hsu hpu
    obtain ⟨p1, e1, w1, r1⟩ := hem
    have hrs : rsOf p1.ws = R := by rw [w1, rsOf_withRS]
    have hpi1 := parserInv_of_emitted hW.space hcb hpi hb e1
    have hrow := row_diff_draws (cb := cb) hW hcb p1 r1 hpi1 (by rw [hrs]; exact hinv.canvas) i (by rw [hrs]; exact hir)
      srows[i] prows[i] (by rw [hrs, hinv.hcols]; exact hwd) (by rw [hrs, hinv.hcols]; exact hwdp) (hS.ok _ hmem) (hP.ok _ hmemp)
      hsu hpu Ri0 (by rw [hrs]; exact hRi0) hshowv (by rw [hshoww]; exact hpu)
      (by rw [hrs, hinv.pos, hinv.hcols]; exact hpp) (wrapAbove prows i)
    rw [hrs, hinv.pos, hwd] at hrow
    obtain ⟨bs, np, na, ewc, hex, hbb, hnp, hwf⟩ := hrow
    obtain ⟨Ri, hemr, hv, hu⟩ := hex
    rw [hinv.hcols] at hnp
    have hRil : Ri.cells.length = R.g.size.cols := by
      have := congrArg List.length hv
      simp only [List.length_map] at this
      rw [this, hwd, hinv.hcols]
    refine ⟨bs, np, na, shape R i Ri np na, by rw [hwa]; exact ewc, emitted_comp h0 e1 w1 r1 hemr, rfl, ?_,
      Bytes.append hb hbb, hnp, rfl, hwf⟩
    refine ⟨shape_canvas hinv.canvas hRil np na, hinv.hcols, hinv.nrows, hinv.plen, rfl, ?_⟩
    intro k hk
    by_cases hki : k = i
    · subst hki
      refine ⟨Ri, ?_, fun _ => ⟨hv, by rw [hu, hsu]⟩, fun h => by omega⟩
      rw [shape_rows_get]; simp [hil]
    · obtain ⟨Rk, hRk, hlo, hhi⟩ := hinv.row k hk
      refine ⟨Rk, ?_, fun h => hlo (by omega), fun h => hhi (by omega)⟩
      rw [shape_rows_get, if_neg (fun h => hki h.1)]; exact hRk
  · -- a frozen line: nothing is written
    have hr : srows[i] = r := by
      rw [List.getElem?_eq_getElem hi] at er; exact Option.some.inj er
    have hp : prows[i] = p := by
      rw [List.getElem?_eq_getElem hip] at ep; exact Option.some.inj ep
    have e := C19.row_diff_look_alike hsame 0 cols i (wrapAbove srows i) pp R.pen
    refine ⟨[], pp, R.pen, R, ?_, by simpa using hem, rfl, ?_, by simpa using hb, hpp, rfl, id⟩
    · rw [hr, hp, ← hwa]; exact e
    · refine ⟨hinv.canvas, hinv.hcols, hinv.nrows, hinv.plen, hinv.pos, ?_⟩
      intro k hk
      by_cases hki : k = i
      · subst hki
        refine ⟨Ri0, hRi0, fun _ => ?_, fun h => by omega⟩
        rw [hshowv, hshoww, hr, hp]
        exact ⟨(map_view_of_listRel hsame.2).symm, hsame.1.symm⟩
      · obtain ⟨Rk, hRk, hlo, hhi⟩ := hinv.row k hk
        exact ⟨Rk, hRk, fun h => hlo (by omega), fun h => hhi (by omega)⟩

/-- **the loop over the lines** -/
theorem diff_rows_loop_m (hW : WOk W) (hcb : C13.CbInv W cb) (p0 : Parser) (h0 : Ready p0) (hpi : C13.ParserInv W p0)
    {srows prows : List Row} {cols : Nat} (hS : SrcRows W cols srows) (hP : SrcRows W cols prows)
    (hpl : prows.length = srows.length) (hok : ∀ i, i < srows.length → LineOk srows prows i) :
    ∀ (rs : List (Row × Row)) (i : Nat) (pp : Pos) (out : List Nat) (R : RS),
    (srows.zip prows).drop i = rs → i ≤ srows.length →
    RowsInvM srows prows cols i pp R → Emitted W cb p0 out R → Bytes out → pp.col ≤ cols →
    ∃ out' pp' pa' R', Grid.diffRowsLoop cols rs i (wrapAbove srows i) (wrapAbove prows i) pp R.pen out = .ok (out', pp', pa') ∧
      Emitted W cb p0 out' R' ∧ R'.pen = pa' ∧ RowsInvM srows prows cols srows.length pp' R' ∧ Bytes out' ∧
      pp'.col ≤ cols ∧ R'.g.scrollbackOffset = R.g.scrollbackOffset ∧ (Attrs.wf R.pen → Attrs.wf pa')
  | [], i, pp, out, R, hrs, hil, hinv, hem, hb, hpp => by
    have hi : i = srows.length := by
      have := congrArg List.length hrs
      simp only [List.length_drop, List.length_nil, List.length_zip, hpl, Nat.min_self] at this
      omega
    subst hi
    exact ⟨out, pp, R.pen, R, rfl, hem, rfl, hinv, hb, hpp, rfl, id⟩
  | (r, pr) :: rest, i, pp, out, R, hrs, hil, hinv, hem, hb, hpp => by
    have hi : i < srows.length := by
      have := congrArg List.length hrs
      simp only [List.length_drop, List.length_cons, List.length_zip, hpl, Nat.min_self] at this
      omega
    have hip : i < prows.length := by rw [hpl]; exact hi
    have hiz : i < (srows.zip prows).length := by simp [List.length_zip, hpl]; exact hi
    have hr : (srows[i], prows[i]'hip) = (r, pr) := by
      have := congrArg (fun l => l[0]?) hrs
      simp only [List.getElem?_drop, Nat.add_zero, List.getElem?_eq_getElem hiz, List.getElem?_cons_zero,
        Option.some.injEq, List.getElem_zip] at this
      exact this
    have hrest : (srows.zip prows).drop (i + 1) = rest := by
      have := congrArg List.tail hrs
      simpa [List.tail_drop] using this
    obtain ⟨bs, np, na, R1, ewc, hem1, hpen1, hinv1, hb1, hnp1, hoff1, hwf1⟩ :=
      diff_rows_step_m hW hcb p0 h0 hpi hS hP hi (hok i hi) hinv hem hb hpp
    obtain ⟨out', pp', pa', R', e', hem', hpen', hinv', hb', hpp', hoff', hwf'⟩ :=
      diff_rows_loop_m hW hcb p0 h0 hpi hS hP hpl hok rest (i + 1) np (out ++ bs) R1 hrest (by omega) hinv1 hem1 hb1 hnp1
    refine ⟨out', pp', pa', R', ?_, hem', hpen', hinv', hb', hpp', hoff'.trans hoff1, fun h => hwf' (hpen1 ▸ hwf1 h)⟩
    simp only [Prod.mk.injEq] at hr
    rw [← hr.1, ← hr.2]
    simp only [Grid.diffRowsLoop, ewc, ok_bind]
    rw [← hpen1, ← wrapAbove_succ srows i hi, ← wrapAbove_succ prows i hip]
    exact e'

/-- **C02 when every line is plain or frozen**: a receiver satisfying the parser invariant that reproduces `P`, fed
the bytes of `S.state_diff(P)`, reproduces `S`, still satisfies the parser invariant, and reports no event -/
theorem state_diff_mixed (hW : WOk W) (hcb : C13.CbInv W cb) {q : Parser} (P S : Screen) (hq : Reproduces q P)
    (hqi : C13.ParserInv W q) (hsz : S.cur.size = P.cur.size) (hS : SrcScreen W S) (hP : SrcScreen W P)
    (hok : ∀ i, i < S.cur.rows.length → LineOk S.cur.rows P.cur.rows i) :
    ∃ bytes q', S.stateDiff P = .ok bytes ∧ q.process W cb bytes = .ok q' ∧ Reproduces q' S ∧ C13.ParserInv W q' ∧
      q'.ws.events = q.ws.events := by
  have hoffS := hS.off
  have hoffP := hP.off
  have hvS := C19.visibleRows_offset0 S.cur hoffS
  have hvP := C19.visibleRows_offset0 P.cur hoffP
  have hpl : P.cur.rows.length = S.cur.rows.length := by rw [hP.alloc, hS.alloc, hsz]
  -- 1. cursor visibility
  obtain ⟨q1, hcbytes, e1, w1ev, r1, hrs1, hh1, hm1⟩ : ∃ q1 hcb, q.process W cb hcb = .ok q1 ∧ q1.ws.events = q.ws.events ∧
      Ready q1 ∧ rsOf q1.ws = rsOf q.ws ∧ q1.ws.screen.hideCursor = S.hideCursor ∧
      C10.inputModes q1.ws.screen = C10.inputModes q.ws.screen ∧
      hcb = (if S.hideCursor != P.hideCursor then Term.hideCursor S.hideCursor else []) := by
    by_cases hd : (S.hideCursor != P.hideCursor) = true
    · obtain ⟨q1, e1, w1, r1⟩ := C10.process_hideCursor W cb q S.hideCursor hq.ready
      refine ⟨q1, _, e1, by rw [w1], r1, by rw [w1]; exact rsOf_hide _ _, by rw [w1], by rw [w1]; rfl, by rw [if_pos hd]⟩
    · have hd' : S.hideCursor = P.hideCursor := by simpa using hd
      refine ⟨q, [], C04.process_nil W cb q hq.ready.2, rfl, hq.ready, rfl, by rw [hq.hide, hd'], rfl, by rw [if_neg hd]⟩
  have hcbb : Bytes hcbytes := by
    rw [hm1.2]; split
    · exact hideCursor_bytes _
    · exact Bytes.nil
  have hpi1 := parserInv_of_emitted hW.space hcb hqi hcbb e1
  -- 2. the lines
  have hinvM : RowsInvM S.cur.rows P.cur.rows S.cur.size.cols 0 P.cur.pos (rsOf q1.ws) := by
    rw [hrs1]
    have hd := hq.drawn
    refine ⟨hd.canvas, by rw [hd.hcols, hsz], by rw [hd.nrows, hpl], hpl, hd.pos, ?_⟩
    intro k hk
    have hkp : k < P.cur.rows.length := by rw [hpl]; exact hk
    obtain ⟨Rk, hRk, hdone, _⟩ := hd.row k hkp
    obtain ⟨d1, _, d3⟩ := hdone hkp
    refine ⟨Rk, hRk, fun h => absurd h (Nat.not_lt_zero _), fun _ => ⟨d1, ?_⟩⟩
    rw [d3, if_neg (by simp)]
  have hPs : SrcRows W S.cur.size.cols P.cur.rows := by rw [hsz]; exact hP.rows
  obtain ⟨out, np, na, R', eloop, hem', hpen', hinv', hbout, hnp, hoff', hwfna⟩ :=
    diff_rows_loop_m hW hcb q1 r1 hpi1 hS.rows hPs hpl hok (S.cur.rows.zip P.cur.rows) 0 P.cur.pos []
      (rsOf q1.ws) rfl (Nat.zero_le _) hinvM (emitted_nil W cb q1 r1) Bytes.nil (by rw [hsz]; exact hP.cur_col)
  have hpen1 : (rsOf q1.ws).pen = P.attrs := by rw [hrs1]; exact hq.pen
  have hw0s : wrapAbove S.cur.rows 0 = false := by simp [wrapAbove]
  have hw0p : wrapAbove P.cur.rows 0 = false := by simp [wrapAbove]
  rw [hpen1, hw0s, hw0p] at eloop
  rw [hpen1] at hwfna
  have hwf : Attrs.wf na := hwfna hP.pen_wf
  have hg' := (emitted_inv hW.space hcb hpi1 hbout hem').1
  have hinvS : RowsInv S.cur.rows S.cur.size.cols S.cur.rows.length false np R' := by
    refine ⟨hinv'.canvas, hinv'.hcols, hinv'.nrows, hinv'.pos, ?_, fun h => by simp at h⟩
    intro k hk
    obtain ⟨Rk, hRk, hlo, _⟩ := hinv'.row k hk
    obtain ⟨hv, hw⟩ := hlo hk
    refine ⟨Rk, hRk, fun _ => ⟨hv, ?_, ?_⟩, fun h => by omega⟩
    · intro c hc
      have hrow := hg'.row_ok Rk (List.mem_of_getElem? hRk)
      have hok := ((rowOk_iff W Rk).mp hrow.2).2.cells_ok c hc
      simp only [cellOk, Bool.and_eq_true, beq_iff_eq] at hok
      exact hok.1.1.1.1
    · rw [hw, if_neg (by simp)]
  obtain ⟨cur, ecur, Rf, hemf, hpenf, hinvf, hofff⟩ := cursor_fixup (cb := cb) hW r1 S.cur hS.rows hS.alloc hS.cur_row hS.cur_col
    hem' hpen' hwf hinvS (some np) (fun p hp => by
      have : np = p := Option.some.inj hp
      subst this
      exact ⟨rfl, hnp⟩)
  -- 3. the pen
  have hem2 := emitted_step W cb r1 hemf (step_pen W cb S.attrs na hS.pen_wf)
    (r' := { Rf with pen := S.attrs }) (by simp [hpenf])
  obtain ⟨q2, e2, w2, r2⟩ := hem2
  -- 4. the input modes
  have hm2 : C10.inputModes q2.ws.screen = C10.inputModes P := by
    rw [w2]
    have : C10.inputModes (withRS q1.ws { Rf with pen := S.attrs }).screen = C10.inputModes q1.ws.screen := by
      simp only [C10.inputModes, withRS, Screen.setCur]; split <;> rfl
    rw [this, hm1.1, hq.modes]
  obtain ⟨q3, e3, w3, r3⟩ := C10.process_input_mode_diff W cb q2 S P r2 hm2
  -- assemble
  have egrid : S.cur.writeContentsDiff P.cur P.attrs = .ok (out ++ cur, na) := by
    simp only [Grid.writeContentsDiff, hvS, hvP, ok_bind]
    rw [eloop]
    simp only [ok_bind]
    have : S.cur.writeCursorPositionFormatted (some np) (some na) = .ok cur := ecur
    rw [this]
    simp only [ok_bind, pure_eq_ok]
  have ecd : S.writeContentsDiff P = .ok (hcbytes ++ (out ++ cur) ++ S.attrs.writeEscapeCodeDiff na) := by
    simp only [Screen.writeContentsDiff, egrid, ok_bind, pure_eq_ok, hm1.2]
  have ebytes : S.stateDiff P = .ok ((hcbytes ++ (out ++ cur) ++ S.attrs.writeEscapeCodeDiff na) ++ S.inputModeDiff P) := by
    simp only [Screen.stateDiff, ecd, ok_bind, pure_eq_ok, Screen.inputModeDiff]
  have eproc : q.process W cb ((hcbytes ++ (out ++ cur) ++ S.attrs.writeEscapeCodeDiff na) ++ S.inputModeDiff P) = .ok q3 := by
    have s1 := process_then' (cb := cb) hq.ready e1 r1 e2
    have s2 := process_then' (cb := cb) hq.ready s1 r2 e3
    simpa [List.append_assoc] using s2
  refine ⟨_, q3, ebytes, eproc, ?_, parserInv_of_emitted hW.space hcb hqi (stateDiff_bytes' S P ebytes) eproc, ?_⟩
  · have hrs3 : rsOf q3.ws = { Rf with pen := S.attrs } := by
      rw [w3]
      have : rsOf ({ q2.ws with screen := C10.setInputModes q2.ws.screen (C10.inputModes S) } : WS) = rsOf q2.ws := rfl
      rw [this, w2, rsOf_withRS]
    refine ⟨r3, ?_, by rw [hrs3], ?_, by rw [w3]; rfl, ?_⟩
    · show RowsInv _ _ _ false _ (rsOf q3.ws)
      rw [hrs3]
      have := rowsInv_frame hinvf { Rf with pen := S.attrs } rfl rfl rfl rfl rfl
      rw [show ({ Rf with pen := S.attrs } : RS).g.pos = S.cur.pos from hinvf.pos] at this
      exact this
    · rw [w3]
      show (C10.setInputModes q2.ws.screen (C10.inputModes S)).hideCursor = S.hideCursor
      have : (C10.setInputModes q2.ws.screen (C10.inputModes S)).hideCursor = q2.ws.screen.hideCursor := rfl
      rw [this, w2]
      have : (withRS q1.ws { Rf with pen := S.attrs }).screen.hideCursor = q1.ws.screen.hideCursor := by
        simp only [withRS, Screen.setCur]; split <;> rfl
      rw [this, hh1]
    · rw [hrs3]
      show Rf.g.scrollbackOffset = 0
      rw [hofff, hoff', hrs1]; exact hq.off
  · rw [w3]
    show q2.ws.events = q.ws.events
    rw [w2]
    show q1.ws.events = q.ws.events
    exact w1ev

/-- what is asked of a link `P → S` of a chain: both satisfy the invariants (every reachable screen), are not
scrolled back, have the same size, and every line of the pair is plain or frozen -/
structure Link (W : Nat → Option Nat) (P S : Screen) : Prop where
  invP : emitInvB W P = true
  invS : emitInvB W S = true
  offP : P.cur.scrollbackOffset = 0
  offS : S.cur.scrollbackOffset = 0
  size : S.cur.size = P.cur.size
  lines : ∀ i, i < S.cur.rows.length → LineOk S.cur.rows P.cur.rows i

/-- every consecutive pair of `P :: Ss` is a link -/
def Links (W : Nat → Option Nat) : Screen → List Screen → Prop
  | _, [] => True
  | P, S :: rest => Link W P S ∧ Links W S rest

/-- **C02 along chains, wrapped lines allowed where the diff leaves them alone** -/
theorem chain_mixed (hW : WOk W) (hcb : C13.CbInv W cb) :
    ∀ (Ss : List Screen) (q : Parser) (P : Screen), Reproduces q P → C13.ParserInv W q → Links W P Ss →
      ∃ q', feedDiffs W cb q P Ss = .ok q' ∧ Reproduces q' ((P :: Ss).getLast (by simp)) ∧ C13.ParserInv W q' ∧
        q'.ws.events = q.ws.events
  | [], q, P, hq, hqi, _ => ⟨q, rfl, by simpa using hq, hqi, rfl⟩
  | S :: rest, q, P, hq, hqi, hl => by
    obtain ⟨hPS, hrest⟩ := hl
    obtain ⟨bytes, q1, eb, ep, hrep, hinv1, hev⟩ := state_diff_mixed (cb := cb) hW hcb P S hq hqi hPS.size
      (srcScreen_of_inv hPS.invS hPS.offS) (srcScreen_of_inv hPS.invP hPS.offP) hPS.lines
    obtain ⟨q', e', hrep', hinv', hev'⟩ := chain_mixed hW hcb rest q1 S hrep hinv1 hrest
    refine ⟨q', ?_, ?_, hinv', hev'.trans hev⟩
    · simp only [feedDiffs, eb, ok_bind, ep]
      exact e'
    · rw [List.getLast_cons (by simp)]
      exact hrep'

/-- a screen without wrapped lines against another: every line is plain -/
theorem lineOk_of_unwrapped {srows prows : List Row} (hs : ∀ r ∈ srows, r.wrapped = false)
    (hp : ∀ r ∈ prows, r.wrapped = false) (i : Nat) : LineOk srows prows i := by
  refine Or.inl ⟨?_, ?_, ?_⟩
  · cases h : srows[i]? with
    | none => rfl
    | some r => simp [hs r (List.mem_of_getElem? h)]
  · cases h : prows[i]? with
    | none => rfl
    | some r => simp [hp r (List.mem_of_getElem? h)]
  · unfold wrapAbove
    split
    · rfl
    · cases h : srows[i - 1]? with
      | none => rfl
      | some r => simp [hs r (List.mem_of_getElem? h)]

/-- the same lines in both screens: every line is frozen -/
theorem lineOk_of_eq {rows : List Row} (i : Nat) (hi : i < rows.length) : LineOk rows rows i :=
  Or.inr ⟨⟨rows[i], rows[i], List.getElem?_eq_getElem hi, List.getElem?_eq_getElem hi, rfl,
    listRel_refl sameView_refl _⟩, rfl⟩

/-- non-vacuity with a wrapped line that stays: "abcdefgh" wraps on a 3x6 screen (line 0 wrapped, frozen together
with line 1); line 2 is rewritten (plain) (kernel-evaluated; a test) -/
theorem link_nonvacuous :
    isOkTrue (do
      let p ← C02.run 3 6 0 [[97, 98, 99, 100, 101, 102, 103, 104, 0x1b, 0x5b, 0x33, 0x3b, 0x31, 0x48, 120]]
      let s ← C02.run 3 6 0 [[97, 98, 99, 100, 101, 102, 103, 104, 0x1b, 0x5b, 0x33, 0x3b, 0x31, 0x48, 120,
        0x0d, 0x1b, 0x5b, 0x33, 0x31, 0x6d, 121, 122, 0xe4, 0xb8, 0x80]]
      let lineOk := fun (i : Nat) =>
        (((s.screen.cur.rows[i]?).map (·.wrapped)).getD false == false && ((p.screen.cur.rows[i]?).map (·.wrapped)).getD false == false &&
          wrapAbove s.screen.cur.rows i == false) ||
        ((match s.screen.cur.rows[i]?, p.screen.cur.rows[i]? with
          | some r, some q => r.wrapped == q.wrapped && r.cells.map view == q.cells.map view
          | _, _ => false) && wrapAbove s.screen.cur.rows i == wrapAbove p.screen.cur.rows i)
      pure (emitInvB W0 p.screen && emitInvB W0 s.screen && p.screen.cur.scrollbackOffset == 0 &&
            s.screen.cur.scrollbackOffset == 0 && s.screen.cur.size == p.screen.cur.size &&
            lineOk 0 && lineOk 1 && lineOk 2 &&
            ((s.screen.cur.rows[0]?).map (·.wrapped)).getD false && s.screen.cur.rows != p.screen.cur.rows)) = true := by
  decide +kernel

end Vt.C02
