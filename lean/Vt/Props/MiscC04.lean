import Vt.Props.C04b
/-
  MiscC04 — C04: chunk independence for every stream cut at CHARACTER BOUNDARIES.

  `C04.process_chunks` needs `carry = []` after every chunk; its only bytes-only corollary was
  `process_chunks_ascii` (7-bit streams).  Here the hypothesis is discharged for UTF-8 text.

  The exact place where `vte::Parser::advance` fills the carry buffer (`partial_utf8`): a Ground
  iteration whose remaining input `t` contains no ESC and has `from_utf8(t) = Err(error_len: None)`
  (unexpected end of input).  So:

  * `EndsComplete c` : no ESC-free suffix `t` of the chunk `c` is a truncated UTF-8 string
    (`(fromUtf8 t).err ≠ some none`) — "the chunk does not end inside a multi-byte character",
    stated so that it does not depend on the automaton state.
  * `advanceLoop_carry_complete` / `advance_carry_complete` : from ANY automaton state (Ground, or in
    the middle of an ESC / CSI / OSC / DCS sequence) with an empty carry, a chunk with `EndsComplete`
    leaves the carry empty.
  * `endsComplete_of_valid` : every VALID UTF-8 chunk (`(fromUtf8 c).err = none`; escape sequences are
    7-bit, so a stream of UTF-8 text and escape sequences is valid UTF-8 as a whole) has `EndsComplete`;
    `endsComplete_append` / `endsComplete_flatten` : closed under concatenation.
  * `process_chunks_complete` : **any chunking in which no chunk ends inside a multi-byte character** gives
    the same result as one call (invalid bytes inside the chunks are allowed).
  * `process_chunks_utf8` : in particular any valid-UTF-8 stream (text + complete or incomplete escape
    sequences) cut at character boundaries — i.e. every chunk valid UTF-8.  Escape sequences may be
    cut anywhere.  `process_chunks_ascii` is the special case of 7-bit chunks.
  * `text_chunk_carry` : the condition is sharp for text: in Ground, an ESC-free chunk that is valid
    leaves the carry empty, one that is truncated (`err = some none`) leaves it NON-empty (and then
    `process_chunks` does not apply: finding F10 lives there).
-/
namespace Vt.MiscC04
open Vt Vt.C04 Vt.Utf8
set_option linter.unusedSimpArgs false
set_option linter.unusedVariables false
set_option maxRecDepth 4096

/-- the chunk does not end inside a multi-byte character: no ESC-free suffix of it is a truncated
UTF-8 string -/
def EndsComplete (c : List Nat) : Prop :=
  ∀ t, t <:+ c → (∀ x ∈ t, x ≠ 0x1B) → (fromUtf8 t).err ≠ some none

theorem EndsComplete.suffix {c t : List Nat} (h : EndsComplete c) (ht : t <:+ c) : EndsComplete t :=
  fun u hu hne => h u (hu.trans ht) hne

theorem endsComplete_nil : EndsComplete [] := by
  intro t ht _
  have : t = [] := List.suffix_nil.mp ht
  subst this
  simp [fromUtf8]

theorem noEsc_of_findIdx {t : List Nat} (h : t.findIdx (· == 0x1B) = t.length) : ∀ x ∈ t, x ≠ 0x1B := by
  intro x hx hx1
  have := List.findIdx_eq_length.mp h x hx
  simp [hx1] at this

theorem findIdx_of_noEsc {t : List Nat} (h : ∀ x ∈ t, x ≠ 0x1B) : t.findIdx (· == 0x1B) = t.length := by
  apply List.findIdx_eq_length.mpr
  intro x hx
  simpa using h x hx

/-! ### the automaton -/

/-- a Ground iteration on input with `EndsComplete` never writes the carry buffer -/
theorem ground_carry_complete (v : Vte) (a : List Nat) (h : EndsComplete a) :
    (v.advanceGround a).1.carry = v.carry := by
  have hle := findIdx_le a
  unfold Vte.advanceGround
  simp only
  split
  · rfl
  · cases he : (fromUtf8 (a.take (a.findIdx (· == 0x1B)))).err with
    | none => simp only; split <;> rfl
    | some e =>
      cases e with
      | some len => rfl
      | none =>
        simp only
        split
        · rfl
        · rename_i hlt
          exfalso
          have hP : a.findIdx (· == 0x1B) = a.length := by omega
          rw [hP, List.take_length] at he
          exact h a (List.suffix_refl a) (noEsc_of_findIdx hP) he

/-- **the carry buffer is not touched by a chunk that does not end inside a multi-byte character**,
whatever the automaton state -/
theorem advanceLoop_carry_complete : ∀ (F : Nat) (v : Vte) (a : List Nat), EndsComplete a →
    (Vte.advanceLoop F v a).1.carry = v.carry
  | 0, v, _, _ => rfl
  | F + 1, v, [], _ => by simp [advanceLoop_nil]
  | F + 1, v, x :: a', h => by
    by_cases hg : v.state = .ground
    · rw [advanceLoop_ground_cons F v x a' hg]
      simp only
      rw [advanceLoop_carry_complete F _ _ (h.suffix (List.drop_suffix _ _)), ground_carry_complete v _ h]
    · rw [advanceLoop_nonground_cons F v x a' hg]
      simp only
      rw [advanceLoop_carry_complete F _ _ (h.suffix (List.suffix_cons x a')), changeState_carry]

/-- `vte::Parser::advance`: empty carry before, `EndsComplete` chunk: empty carry after -/
theorem advance_carry_complete (v : Vte) (a : List Nat) (hc : v.carry = []) (h : EndsComplete a) :
    (v.advance a).1.carry = [] := by
  rw [advance_eq_loop v a _ hc (Nat.lt_succ_self _), advanceLoop_carry_complete _ _ _ h]
  exact hc

/-! ### valid UTF-8 has `EndsComplete` -/

/-- a string starting with a continuation byte is invalid at once (never "truncated") -/
theorem fromUtf8_cont_head (b : Nat) (rest : List Nat) (h1 : 0x80 ≤ b) (h2 : b ≤ 0xBF) :
    (fromUtf8 (b :: rest)).err = some (some 1) := by
  rw [fromUtf8.eq_def]
  have e1 : ¬ b < 0x80 := by omega
  have e2 : (decide (0xC2 ≤ b) && decide (b ≤ 0xDF)) = false := by
    rw [Bool.and_eq_false_iff]; left; simp; omega
  have e3 : (decide (0xE0 ≤ b) && decide (b ≤ 0xEF)) = false := by
    rw [Bool.and_eq_false_iff]; left; simp; omega
  have e4 : (decide (0xF0 ≤ b) && decide (b ≤ 0xF4)) = false := by
    rw [Bool.and_eq_false_iff]; left; simp; omega
  simp only [e1, e2, e3, e4, ↓reduceIte, Bool.false_eq_true, Res.stop]

theorem cont_ne_of_isCont {b : Nat} (h : isCont b = true) (rest : List Nat) :
    (fromUtf8 (b :: rest)).err ≠ some none := by
  simp only [isCont, Bool.and_eq_true, decide_eq_true_eq] at h
  rw [fromUtf8_cont_head b rest h.1 h.2]; simp

theorem cont_ne_of_ok3 {b0 b : Nat} (h : ok3 b0 b = true) (rest : List Nat) :
    (fromUtf8 (b :: rest)).err ≠ some none := by
  have : 0x80 ≤ b ∧ b ≤ 0xBF := by
    simp only [ok3, Bool.or_eq_true, Bool.and_eq_true, decide_eq_true_eq, beq_iff_eq] at h
    omega
  rw [fromUtf8_cont_head b rest this.1 this.2]; simp

theorem cont_ne_of_ok4 {b0 b : Nat} (h : ok4 b0 b = true) (rest : List Nat) :
    (fromUtf8 (b :: rest)).err ≠ some none := by
  have : 0x80 ≤ b ∧ b ≤ 0xBF := by
    simp only [ok4, Bool.or_eq_true, Bool.and_eq_true, decide_eq_true_eq, beq_iff_eq] at h
    omega
  rw [fromUtf8_cont_head b rest this.1 this.2]; simp

/-- suffixes of `b :: l`: the whole, or a suffix of `l` -/
theorem suffix_chain {P : List Nat → Prop} {b : Nat} {l : List Nat} (hw : P (b :: l))
    (hl : ∀ t, t <:+ l → P t) : ∀ t, t <:+ b :: l → P t := by
  intro t ht
  rcases List.suffix_cons_iff.mp ht with rfl | h
  · exact hw
  · exact hl t h

/-- **no suffix of a valid UTF-8 string is a truncated string**: a suffix either starts at a character
boundary (and is valid) or starts with a continuation byte (and is invalid at once) -/
theorem suffix_of_valid (a : List Nat) (h : (fromUtf8 a).err = none) :
    ∀ t, t <:+ a → (fromUtf8 t).err ≠ some none := by
  fun_induction fromUtf8 a
  all_goals first
    | (simp [Res.stop] at h; done)
    | skip
  · intro t ht
    have : t = [] := List.suffix_nil.mp ht
    subst this
    simp [fromUtf8]
  all_goals
    rename_i ih
    have h' : (fromUtf8 ‹List Nat›).err = none := by simpa [Res.cons] using h
    have hw : ∀ {l : List Nat}, (fromUtf8 l).err = none → (fromUtf8 l).err ≠ some none := by
      intro l hl; rw [hl]; simp
  · -- 1 byte
    refine suffix_chain ?_ (ih h')
    apply hw
    rw [fromUtf8.eq_def]; simp [*, Res.cons]
  · -- 2 bytes
    refine suffix_chain ?_ (suffix_chain (cont_ne_of_isCont (by assumption) _) (ih h'))
    apply hw
    rw [fromUtf8.eq_def]; simp [*, Res.cons]
  · -- 3 bytes
    refine suffix_chain ?_ (suffix_chain (cont_ne_of_ok3 (by assumption) _)
      (suffix_chain (cont_ne_of_isCont (by assumption) _) (ih h')))
    apply hw
    rw [fromUtf8.eq_def]; simp [*, Res.cons]
  · -- 4 bytes
    refine suffix_chain ?_ (suffix_chain (cont_ne_of_ok4 (by assumption) _)
      (suffix_chain (cont_ne_of_isCont (by assumption) _)
        (suffix_chain (cont_ne_of_isCont (by assumption) _) (ih h'))))
    apply hw
    rw [fromUtf8.eq_def]; simp [*, Res.cons]

/-- every valid UTF-8 chunk ends at a character boundary -/
theorem endsComplete_of_valid (c : List Nat) (h : (fromUtf8 c).err = none) : EndsComplete c :=
  fun t ht _ => suffix_of_valid c h t ht

/-- 7-bit chunks are the special case -/
theorem endsComplete_of_ascii (c : List Nat) (h : ∀ x ∈ c, x < 0x80) : EndsComplete c :=
  endsComplete_of_valid c (fromUtf8_ascii c h)

/-- closed under concatenation -/
theorem endsComplete_append {a b : List Nat} (ha : EndsComplete a) (hb : EndsComplete b) :
    EndsComplete (a ++ b) := by
  intro t ht hne
  obtain ⟨s, hs⟩ := ht
  rcases List.append_eq_append_iff.mp hs with ⟨a', h1, h2⟩ | ⟨c', h1, h2⟩
  · -- `t = a' ++ b` with `a'` a suffix of `a`
    subst h2
    have hsa : a' <:+ a := ⟨s, h1.symm⟩
    have hnea : ∀ x ∈ a', x ≠ 0x1B := fun x hx => hne x (List.mem_append_left _ hx)
    have hneb : ∀ x ∈ b, x ≠ 0x1B := fun x hx => hne x (List.mem_append_right _ hx)
    cases he : (fromUtf8 a').err with
    | none =>
      rw [fromUtf8_append_ok a' b he]
      exact hb b (List.suffix_refl b) hneb
    | some e =>
      cases e with
      | none => exact absurd he (ha a' hsa hnea)
      | some len => rw [err_stable a' b len he, he]; simp
  · -- `t` is a suffix of `b`
    exact hb t ⟨c', h2.symm⟩ hne

theorem endsComplete_flatten : ∀ (cs : List (List Nat)), (∀ c ∈ cs, EndsComplete c) → EndsComplete cs.flatten
  | [], _ => by simpa using endsComplete_nil
  | c :: cs, h => by
    rw [List.flatten_cons]
    exact endsComplete_append (h c (List.mem_cons_self ..))
      (endsComplete_flatten cs (fun d hd => h d (List.mem_cons_of_mem _ hd)))

/-! ### chunk independence -/

/-- **C04, cuts at character boundaries (general form).**  The parser is between calls with an empty
carry buffer (true of a new parser and after every chunk of this kind), in ANY automaton state.  If no
chunk ends inside a multi-byte character (`EndsComplete`; the chunks may contain invalid bytes, escape
sequences cut anywhere, OSC / DCS strings cut anywhere), feeding the chunks one by one is the same as
feeding their concatenation: same screen, same callback events in the same order, same automaton,
failing identically if anything fails. -/
theorem process_chunks_complete (W : Nat → Option Nat) (cb : CbPolicy) (chunks : List (List Nat)) (p : Parser)
    (hc : p.vte.carry = []) (h : ∀ c ∈ chunks, EndsComplete c) :
    chunks.foldlM (fun p c => p.process W cb c) p = p.process W cb chunks.flatten := by
  apply process_chunks W cb chunks p hc
  intro k _
  exact advance_carry_complete _ _ hc
    (endsComplete_flatten _ (fun c hc' => h c (List.mem_of_mem_take hc')))

/-- **C04 for UTF-8 streams cut at character boundaries**: every chunk is valid UTF-8 (that is: the
stream is valid UTF-8 — text in any script, C0 controls, ESC / CSI / OSC / DCS sequences — and no cut
falls inside a multi-byte character; escape sequences may be cut anywhere).  Then any such chunking
equals one call. -/
theorem process_chunks_utf8 (W : Nat → Option Nat) (cb : CbPolicy) (chunks : List (List Nat)) (p : Parser)
    (hc : p.vte.carry = []) (h : ∀ c ∈ chunks, (fromUtf8 c).err = none) :
    chunks.foldlM (fun p c => p.process W cb c) p = p.process W cb chunks.flatten :=
  process_chunks_complete W cb chunks p hc (fun c hc' => endsComplete_of_valid c (h c hc'))

/-- the hypothesis is kept from call to call: after a chunk with `EndsComplete` the carry is empty again
(so a long-running `Parser` fed such chunks always satisfies `hc`) -/
theorem process_keeps_carry (W : Nat → Option Nat) (cb : CbPolicy) (p p' : Parser) (c : List Nat)
    (hc : p.vte.carry = []) (h : EndsComplete c) (e : p.process W cb c = .ok p') : p'.vte.carry = [] := by
  simp only [Parser.process] at e
  cases hh : (p.vte.advance c).2.foldlM (perform W cb) p.ws with
  | error e' => rw [hh] at e; simp at e
  | ok ws =>
    rw [hh] at e
    simp only [ok_bind, pure_eq_ok, Except.ok.injEq] at e
    rw [← e]
    exact advance_carry_complete _ _ hc h

/-! ### sharpness for text -/

/-- **the condition is sharp for text in Ground**: an ESC-free, non-empty chunk `a` fed to a parser in
Ground with an empty carry leaves the carry empty if `a` is valid UTF-8, and NON-empty if `a` is truncated
(`from_utf8(a)` = unexpected end of input) -/
theorem text_chunk_carry (v : Vte) (hg : v.state = .ground) (hc : v.carry = []) (a : List Nat) (hne : a ≠ [])
    (hP : ∀ x ∈ a, x ≠ 0x1B) :
    ((fromUtf8 a).err = none → (v.advance a).1.carry = []) ∧
    ((fromUtf8 a).err = some none → (v.advance a).1.carry ≠ []) := by
  refine ⟨fun he => advance_carry_complete v a hc (endsComplete_of_valid a he), fun he => ?_⟩
  obtain ⟨h1, h2⟩ := ground_incomplete v a hne (findIdx_of_noEsc hP) he
  rw [advance_eq_loop v a _ hc (Nat.lt_succ_self _)]
  cases a with
  | nil => exact absurd rfl hne
  | cons x a' =>
    rw [advanceLoop_ground_cons _ v x a' hg]
    simp only
    rw [h1, List.drop_length, advanceLoop_nil]
    exact h2

/-! ### tests -/

/-- test: "aé一😀" + `ESC[3` + `1m` + "é" cut after every character and inside the CSI sequence: every
chunk is valid UTF-8, so `process_chunks_utf8` applies; cutting "é" (C3 | A9) in the middle gives a
chunk that is NOT `EndsComplete` — and indeed leaves a non-empty carry -/
theorem utf8_chunks_nonvacuous :
    (∀ c ∈ [[0x61], [0xC3, 0xA9], [0xE4, 0xB8, 0x80], [0xF0, 0x9F, 0x98, 0x80], [0x1B, 0x5B, 0x33],
            [0x31, 0x6D, 0xC3, 0xA9]], (fromUtf8 c).err = none) ∧
    (fromUtf8 [0x61, 0xC3]).err = some none ∧ (Vte.new.advance [0x61, 0xC3]).1.carry ≠ [] := by
  decide +kernel

end Vt.MiscC04

/-
#print axioms Vt.MiscC04.advance_carry_complete
#print axioms Vt.MiscC04.endsComplete_of_valid
#print axioms Vt.MiscC04.endsComplete_append
#print axioms Vt.MiscC04.process_chunks_complete
#print axioms Vt.MiscC04.process_chunks_utf8
#print axioms Vt.MiscC04.process_keeps_carry
#print axioms Vt.MiscC04.text_chunk_carry
-/
