/-
  Vt.Props.PenWf — the pen the formatted emitters thread (`prev_attrs`) only ever takes values that are the
  initial pen, the default pen, or the attributes of a cell: if those have byte-sized colour components, so
  has every returned `prev_attrs`.  (Needed because `write_cursor_position_formatted` restores that pen
  after re-typing a cell.)
-/
import Vt.Props.RowDraw
namespace Vt.RowDraw
open Vt Vt.Recv Vt.C19 Vt.C09 Vt.C03
set_option linter.unusedSimpArgs false

/-- the invariant: the threaded pen and the attributes of a pending erase run are well formed -/
def PenOk (st : Row.FmtSt) : Prop :=
  Attrs.wf st.prevAttrs ∧ ∀ e a, st.erase = some (e, a) → Attrs.wf a

theorem eraseMove_penOk (n i : Nat) (w : Bool) (st : Row.FmtSt) (e : Nat) (a : Attrs) (h : PenOk st) (ha : Attrs.wf a) :
    PenOk (Row.eraseMove n i w st e a) := by
  unfold Row.eraseMove
  simp only
  constructor
  · split <;> (try split) <;> first | exact ha | exact h.1
  · intro e' a' h'
    exact h.2 e' a' (by
      revert h'
      split <;> (try split) <;> exact id)

theorem fmtCellStep_penOk (n i : Nat) (w : Bool) (st : Row.FmtSt) (col : Nat) (c : Cell) (d : Bool) (h : PenOk st)
    (hc : Attrs.wf c.attrs) {st' : Row.FmtSt} (e : Row.fmtCellStep n i w st col c d = .ok st') : PenOk st' := by
  rw [C03.fmtCellStep_eq] at e
  -- flush
  have hfl : ∀ st1, C03.flush n i w st col c = .ok st1 → PenOk st1 := by
    intro st1 e1
    unfold C03.flush at e1
    cases he : st.erase with
    | none => rw [he] at e1; simp only [pure_eq_ok, Except.ok.injEq] at e1; rw [← e1]; exact h
    | some pa =>
      obtain ⟨pc, a⟩ := pa
      rw [he] at e1
      simp only at e1
      split at e1
      · cases hs : subM 331 col pc with
        | error x => rw [hs] at e1; simp at e1
        | ok k =>
          rw [hs] at e1
          simp only [ok_bind, pure_eq_ok, Except.ok.injEq] at e1
          rw [← e1]
          have := eraseMove_penOk n i w st pc a h (h.2 pc a he)
          exact ⟨this.1, fun e' a' h' => by simp at h'⟩
      · simp only [pure_eq_ok, Except.ok.injEq] at e1; rw [← e1]; exact h
  cases hf : C03.flush n i w st col c with
  | error x => rw [hf] at e; simp at e
  | ok st1 =>
    rw [hf] at e
    simp only [ok_bind] at e
    have h1 := hfl st1 hf
    unfold C03.emit at e
    simp only at e
    split at e
    · split at e
      · cases hb : c.contentsBytes with
        | error x => rw [hb] at e; simp at e
        | ok bs =>
          rw [hb] at e
          simp only [ok_bind, pure_eq_ok, Except.ok.injEq] at e
          rw [← e]
          refine ⟨?_, ?_⟩
          · simp only [apply_ite Row.FmtSt.prevAttrs, ite_self]
            split
            · exact hc
            · exact h1.1
          · intro e' a' h'
            refine h1.2 e' a' ?_
            simp only [apply_ite Row.FmtSt.erase, ite_self] at h'
            exact h'
      · split at e
        · simp only [pure_eq_ok, Except.ok.injEq] at e
          rw [← e]
          exact ⟨h1.1, fun e' a' h' => by
            simp only [Option.some.injEq, Prod.mk.injEq] at h'; rw [← h'.2]; exact hc⟩
        · simp only [pure_eq_ok, Except.ok.injEq] at e; rw [← e]; exact h1
    · simp only [pure_eq_ok, Except.ok.injEq] at e; rw [← e]; exact h1

theorem fmtStep_penOk (n i : Nat) (w : Bool) (st : Row.FmtSt) (p : Nat × Cell) (h : PenOk st)
    (hc : Attrs.wf p.2.attrs) {st' : Row.FmtSt} (e : Row.fmtStep n i w st p = .ok st') : PenOk st' := by
  obtain ⟨col, c⟩ := p
  unfold Row.fmtStep at e
  simp only at e
  split at e
  · simp only [pure_eq_ok, Except.ok.injEq] at e; rw [← e]; exact h
  · exact fmtCellStep_penOk n i w _ col c _ (show PenOk { st with prevWasWide := c.isWide } from h) hc e

theorem fold_penOk (n i : Nat) (w : Bool) : ∀ (l : List (Nat × Cell)) (st : Row.FmtSt), PenOk st →
    (∀ p ∈ l, Attrs.wf p.2.attrs) → ∀ st', l.foldlM (Row.fmtStep n i w) st = .ok st' → PenOk st'
  | [], st, h, _, st', e => by simp only [List.foldlM_nil, pure_eq_ok, Except.ok.injEq] at e; rw [← e]; exact h
  | p :: l, st, h, hl, st', e => by
    rw [List.foldlM_cons] at e
    cases h1 : Row.fmtStep n i w st p with
    | error x => rw [h1] at e; simp at e
    | ok st1 =>
      rw [h1] at e
      simp only [ok_bind] at e
      exact fold_penOk n i w l st1 (fmtStep_penOk n i w st p h (hl p (List.mem_cons_self ..)) h1)
        (fun q hq => hl q (List.mem_cons_of_mem _ hq)) st' e

theorem mem_window_cell {l : List Cell} {start width : Nat} {p : Nat × Cell} (h : p ∈ Row.window l start width) :
    p.2 ∈ l := by
  unfold Row.window at h
  have h := List.mem_of_mem_drop (List.mem_of_mem_take h)
  simp only [List.mem_map] at h
  obtain ⟨q, hq, rfl⟩ := h
  exact (List.mem_zipIdx' hq).2 ▸ List.getElem_mem _

/-- **the pen `write_contents_formatted` returns is well formed** -/
theorem wcf_pen_wf (r : Row) (hr : ∀ c ∈ r.cells, Attrs.wf c.attrs) (start width row : Nat) (w : Bool) (pp : Pos)
    (pa : Attrs) (hpa : Attrs.wf pa) {out : List Nat} {np : Pos} {na : Attrs}
    (e : r.writeContentsFormatted start width row w (some pp) (some pa) = .ok (out, np, na)) : Attrs.wf na := by
  unfold Row.writeContentsFormatted at e
  simp only [pure_bind', Option.getD_some] at e
  -- the start state
  generalize hst0 : (if (w && r.firstIsDefault start) = true then _ else _ : Row.FmtSt) = st0 at e
  have h0 : PenOk st0 := by
    rw [← hst0]
    split
    · refine ⟨?_, fun e a h => by simp at h⟩
      simp only
      split
      · exact wf_default
      · exact hpa
    · exact ⟨hpa, fun e a h => by simp at h⟩
  cases hf : (Row.window r.cells start width).foldlM (Row.fmtStep r.cols row w) st0 with
  | error x => rw [hf] at e; simp at e
  | ok st1 =>
    rw [hf] at e
    simp only [ok_bind, pure_eq_ok, Except.ok.injEq, Prod.mk.injEq] at e
    have h1 := fold_penOk r.cols row w _ st0 h0 (fun p hp => hr _ (mem_window_cell hp)) st1 hf
    rw [← e.2.2]
    unfold Row.fmtFinish
    cases he : st1.erase with
    | none => exact h1.1
    | some pa' =>
      obtain ⟨pc, a⟩ := pa'
      simp only
      exact (eraseMove_penOk r.cols row w st1 pc a h1 (h1.2 pc a he)).1

end Vt.RowDraw
