/-
  C04cut — C04 (chunk independence) for a cut INSIDE a multi-byte UTF-8 character, and the exact shape of
  finding F10 (vte 0.14.1 `advance_partial_utf8`).

  `C04b.process_append` / `process_chunks` cover every cut after which the carry buffer (`partial_utf8`) is
  empty.  Here the cut falls inside a character in Ground: the carry is non-empty and the next call goes
  through `advancePartialUtf8`.

  Definitions
  * `Incomplete g`      : `g` is a non-empty strict prefix of one multi-byte character (`from_utf8(g)` =
                          unexpected end, nothing valid before) — what the carry holds.
  * `WindowLoses k b`   : Bool — the F10 situation for carry `k` and next chunk `b`: the window
                          `k ++ take (4-|k|) b` is not valid as a whole and its valid prefix is strictly longer
                          than its first character.  (`false` for `k = []`.)
  * `normC1`            : `print c ↦ execute c` for `0x80 ≤ c < 0xA0` (what vt100's `print` does);
                          `perform_normC1` : `perform` does not see it.
  * `runVte v chunks`   : the automaton after feeding the chunks one by one.

  Positive half (carry empty before the first chunk; bytes are arbitrary `Nat`s; any automaton state)
  * `advance_append_cut`  : `WindowLoses (v.advance a).1.carry b = false` → same final automaton, same actions up
                            to `normC1` ("C2 | 85": `print 0x85` vs `execute 0x85`).
  * `process_append_cut`  : `p.process (a ++ b) = p.process a >>= (·.process b)` — screen, events, automaton,
                            failure.  Contains `C04b.process_append` (`k = []`).
  * `process_chunks_cut`  : ANY chunking in which no cut is a losing one equals one call; chunks too short to
                            complete the pending character are allowed (the bytes stay in the carry).
  * `foldlM_vte`          : the automaton of the chunk-by-chunk parser is `runVte` (ties the hypothesis of
                            `process_chunks_cut` to the actual run).

  Negative half: F10 is exactly the excluded region
  * `windowLoses_iff`     : for a truncated character `k`: `WindowLoses k b` ↔ `k = [l]`, `l` a 2-byte lead,
                            `b = t :: c1 :: x :: _` with `t` a continuation byte, `c1 < 0x80`, `x ≥ 0x80`.
                            (characters of 3 or 4 bytes, and carries of 2 or 3 bytes, never lose.)
  * `cut_loses`           : general description: unsplit = `A`, dispatch `c`, loop on `s'`; split = `A`,
                            `print c`, loop on `s'` minus its first `n ≥ 1` bytes (valid UTF-8, characters
                            `lost ≠ []`, all inside the window).
  * `cut_loses_actions`, `cut_loses_count` : window without ESC: action lists `A ++ dispatch (c :: lost) ++ L`
                            vs `A ++ print c :: L`, same final automaton; strictly fewer `print`/`execute`
                            actions and strictly shorter action list in the split run.
  * `cut_loses_exact`, `cut_loses_esc` : both runs computed in the exact shape; when the lost byte is ESC the
                            unsplit run continues in Escape, the split run in Ground, on the same bytes.

  Architecture: `cut_reduce` (induction over the loop, same case analysis as `C04b.advanceLoop_append`) reduces
  any chunk `a` that leaves a non-empty carry to the core situation — a carry-free Ground automaton `v0` and
  `advanceLoop v0 (k ++ b)`; `first_token` classifies `k ++ b` (still truncated / invalid sequence / complete
  first character); `core_nonlosing`, `core_losing` compare `advancePartialUtf8` with the Ground loop.

  NOT proved here:
  * a parser whose carry is ALREADY non-empty before `a` (for `process_append_cut`); use `process_chunks_cut`
    from the last point where the carry was empty.
  * for a lost ESC (`cut_loses_esc`) the two runs are computed, but that their results differ for EVERY
    continuation `x :: rest` is not proved (for `rest = []`, `x = C3` the action lists coincide and only the
    automaton state differs).
-/
import Vt.Props.MiscC04
namespace Vt.C04cut
open Vt Vt.C04 Vt.MiscC04 Vt.Utf8
set_option linter.unusedSimpArgs false
set_option linter.unusedVariables false
set_option maxRecDepth 4096

/-! ### 1. UTF-8 facts: truncated sequences and the first token of `k ++ b` -/

/-- `g` is a non-empty strict prefix of one multi-byte character: `from_utf8(g)` = "unexpected end of
input" with nothing valid before it.  This is what the carry buffer (`partial_utf8`) holds. -/
def Incomplete (g : List Nat) : Prop := fromUtf8 g = Res.stop none
theorem incomplete_props (g : List Nat) (h : Incomplete g) :
    g ≠ [] ∧ g.length ≤ 3 ∧ (∀ x ∈ g, 0x80 ≤ x) ∧ 0xA0 ≤ g.getD 0 0 := by
  unfold Incomplete at h
  fun_cases fromUtf8 g
  all_goals (rw [fromUtf8.eq_def] at h; simp [*, Res.stop, Res.cons] at h)
  all_goals (simp_all [ok3, ok4, isCont]; omega)

theorem incomplete_step (g : List Nat) (y : Nat) (h : Incomplete g) :
    (∀ rest, fromUtf8 (g ++ y :: rest) = Res.stop (some g.length))
    ∨ Incomplete (g ++ [y])
    ∨ (∃ c, 0x80 ≤ y ∧ 0x80 ≤ c ∧ lenUtf8 c = g.length + 1 ∧
        ∀ rest, fromUtf8 (g ++ y :: rest) = (fromUtf8 rest).cons c (g.length + 1)) := by
  unfold Incomplete at h ⊢
  fun_cases fromUtf8 g
  all_goals (rw [fromUtf8.eq_def] at h; simp [*, Res.stop, Res.cons] at h)
  · -- [lead2]
    rename_i b0 _ hl
    by_cases hy : isCont y = true
    · right; right
      refine ⟨(b0 - 0xC0) * 64 + (y - 0x80), ?_, ?_, ?_, fun rest => by rw [fromUtf8.eq_def]; simp [*]⟩
      · simp [isCont] at hy; omega
      · simp [isCont] at hl hy; omega
      · simp [isCont] at hl hy; unfold lenUtf8; simp only [List.length_cons, List.length_nil]; (repeat' split) <;> omega
    · left; intro rest; rw [fromUtf8.eq_def]; simp [*]
  · -- [lead3]
    rename_i b0 _ _ hl
    by_cases hy : ok3 b0 y = true
    · right; left; rw [fromUtf8.eq_def]; simp [*]
    · left; intro rest; rw [fromUtf8.eq_def]; simp [*]
  · -- [lead3, c]
    rename_i b0 _ _ hl b1 h1
    by_cases hy : isCont y = true
    · right; right
      refine ⟨(b0 - 0xE0) * 4096 + (b1 - 0x80) * 64 + (y - 0x80), ?_, ?_, ?_, fun rest => by rw [fromUtf8.eq_def]; simp [*]⟩
      · simp [isCont] at hy; omega
      · simp [isCont, ok3] at hl hy h1; omega
      · simp [isCont, ok3] at hl hy h1; unfold lenUtf8; simp only [List.length_cons, List.length_nil]; (repeat' split) <;> omega
    · left; intro rest; rw [fromUtf8.eq_def]; simp [*]
  · -- [lead4]
    rename_i b0 _ _ _ hl
    by_cases hy : ok4 b0 y = true
    · right; left; rw [fromUtf8.eq_def]; simp [*]
    · left; intro rest; rw [fromUtf8.eq_def]; simp [*]
  · -- [lead4, c]
    rename_i b0 _ _ _ hl b1 h1
    by_cases hy : isCont y = true
    · right; left; rw [fromUtf8.eq_def]; simp [*]
    · left; intro rest; rw [fromUtf8.eq_def]; simp [*]
  · -- [lead4, c, c]
    rename_i b0 _ _ _ hl b1 h1 b2 h2
    by_cases hy : isCont y = true
    · right; right
      refine ⟨(b0 - 0xF0) * 262144 + (b1 - 0x80) * 4096 + (b2 - 0x80) * 64 + (y - 0x80), ?_, ?_, ?_,
        fun rest => by rw [fromUtf8.eq_def]; simp [*]⟩
      · simp [isCont] at hy; omega
      · simp [isCont, ok4] at hl hy h1 h2; omega
      · simp [isCont, ok4] at hl hy h1 h2; unfold lenUtf8; simp only [List.length_cons, List.length_nil]; (repeat' split) <;> omega
    · left; intro rest; rw [fromUtf8.eq_def]; simp [*]

theorem first_token (b : List Nat) : ∀ k, Incomplete k →
    Incomplete (k ++ b)
    ∨ (∃ g y s'', k ++ b = g ++ y :: s'' ∧ Incomplete g ∧ k.length ≤ g.length ∧
        ∀ rest, fromUtf8 (g ++ y :: rest) = Res.stop (some g.length))
    ∨ (∃ enc c s', k ++ b = enc ++ s' ∧ k.length < enc.length ∧ enc.length ≤ 4 ∧ 0x80 ≤ c ∧
        lenUtf8 c = enc.length ∧ (∀ x ∈ enc, 0x80 ≤ x) ∧
        ∀ rest, fromUtf8 (enc ++ rest) = (fromUtf8 rest).cons c enc.length) := by
  induction b with
  | nil => intro k hk; left; simpa using hk
  | cons y b' ih =>
    intro k hk
    obtain ⟨hne, hl3, hge, _⟩ := incomplete_props k hk
    rcases incomplete_step k y hk with h | h | ⟨c, hy, hc, hlen, h⟩
    · exact Or.inr (Or.inl ⟨k, y, b', rfl, hk, Nat.le_refl _, h⟩)
    · have e : k ++ y :: b' = (k ++ [y]) ++ b' := by simp
      rw [e]
      rcases ih (k ++ [y]) h with h' | ⟨g, y', s'', e', hg, hl, h'⟩ | ⟨enc, c, s', e', hl, h'⟩
      · exact Or.inl h'
      · exact Or.inr (Or.inl ⟨g, y', s'', e', hg, by simp at hl; omega, h'⟩)
      · exact Or.inr (Or.inr ⟨enc, c, s', e', by simp at hl; omega, h'⟩)
    · refine Or.inr (Or.inr ⟨k ++ [y], c, b', by simp, by simp, by simp; omega, hc, by simpa using hlen, ?_, ?_⟩)
      · intro x hx
        rcases List.mem_append.mp hx with hx | hx
        · exact hge x hx
        · simp at hx; omega
      · intro rest; simpa using h rest

/-- the valid prefix reported by `from_utf8` is valid on its own, with the same characters -/
theorem fromUtf8_take_valid (t : List Nat) :
    fromUtf8 (t.take (fromUtf8 t).validUpTo) =
      { chars := (fromUtf8 t).chars, validUpTo := (fromUtf8 t).validUpTo, err := none } := by
  fun_induction fromUtf8 t
  all_goals first
    | (simp [Res.stop, fromUtf8]; done)
    | skip
  all_goals
    rename_i ih
    simp only [Res.cons]
    rw [Nat.add_comm]
    simp only [List.take_succ_cons]
    rw [fromUtf8.eq_def]
    simp [*, Res.cons, Nat.add_comm]

/-- when `from_utf8` reports "unexpected end of input", what follows the valid prefix is a truncated
character -/
theorem incomplete_drop (t : List Nat) (h : (fromUtf8 t).err = some none) :
    Incomplete (t.drop (fromUtf8 t).validUpTo) := by
  unfold Incomplete
  fun_induction fromUtf8 t
  all_goals first
    | (simp [Res.stop] at h; done)
    | (simp only [Res.stop, List.drop_zero]; rw [fromUtf8.eq_def]; simp [*, Res.stop]; done)
    | skip
  all_goals
    rename_i ih
    simp only [Res.cons]
    rw [Nat.add_comm]
    simp only [List.drop_succ_cons]
    exact ih (by simpa [Res.cons] using h)

/-! ### 2. the Ground loop on the three kinds of first token -/

theorem findIdx_esc_cons (s : List Nat) : (0x1B :: s).findIdx (· == 0x1B) = 0 := by
  simp [List.findIdx_cons]

theorem fuel_pos {n F : Nat} (h : n < F) : ∃ F', F = F' + 1 := ⟨F - 1, by omega⟩

/-- an ESC-free run of text ending in a truncated character is one Ground iteration: the characters of
the valid prefix are dispatched, the truncated character goes to the carry buffer -/
theorem loop_truncated (v : Vte) (a : List Nat) (F : Nat) (hg : v.state = .ground) (hc : v.carry = [])
    (hP : ∀ x ∈ a, x ≠ 0x1B) (he : (fromUtf8 a).err = some none) (hF : a.length < F) :
    Vte.advanceLoop F v a =
      ({ v with carry := a.drop (fromUtf8 a).validUpTo }, Vte.groundDispatch (fromUtf8 a).chars) := by
  obtain ⟨F', rfl⟩ := fuel_pos hF
  cases a with
  | nil => simp [fromUtf8] at he
  | cons x a' =>
    have hfi := findIdx_of_noEsc hP
    rw [advanceLoop_ground_cons F' v x a' hg]
    have hG : v.advanceGround (x :: a') =
        ({ v with carry := (x :: a').drop (fromUtf8 (x :: a')).validUpTo },
          Vte.groundDispatch (fromUtf8 (x :: a')).chars, (x :: a').length) := by
      unfold Vte.advanceGround
      simp only [hfi, List.take_length, he, hc, List.nil_append]
      simp
    rw [hG]
    simp only [List.drop_length, advanceLoop_nil, List.append_nil]

/-- a valid ESC-free prefix is dispatched character by character and the loop continues in the same state -/
theorem loop_valid_prefix (v : Vte) (p s' : List Nat) (F : Nat) (hg : v.state = .ground) (hc : v.carry = [])
    (hP : ∀ x ∈ p, x ≠ 0x1B) (he : (fromUtf8 p).err = none) (hF : (p ++ s').length < F) :
    Vte.advanceLoop F v (p ++ s') =
      ((Vte.advanceLoop F v s').1, Vte.groundDispatch (fromUtf8 p).chars ++ (Vte.advanceLoop F v s').2) := by
  cases p with
  | nil => simp [fromUtf8, Vte.groundDispatch]
  | cons x p' =>
    have hl : Vte.advanceLoop F v (x :: p') = (v, Vte.groundDispatch (fromUtf8 (x :: p')).chars) := by
      obtain ⟨F', rfl⟩ := fuel_pos hF
      rw [advanceLoop_ground_cons F' v x p' hg,
        ground_valid_alone v (x :: p') (by simp) (findIdx_of_noEsc hP) he]
      simp only [List.drop_length, advanceLoop_nil, List.append_nil]
    have := advanceLoop_append _ (x :: p') (Nat.le_refl _) v s' F hF hc (by rw [hl]; exact hc)
    rw [this, hl]

/-- a truncated character followed by a byte that cannot continue it: U+FFFD, and the loop goes on AT the
offending byte (also when that byte is ESC) -/
theorem loop_invalid (v : Vte) (g : List Nat) (y : Nat) (s'' : List Nat) (F : Nat) (hg : v.state = .ground)
    (hi : Incomplete g) (hbad : ∀ rest, fromUtf8 (g ++ y :: rest) = Res.stop (some g.length))
    (hF : (g ++ y :: s'').length < F) :
    Vte.advanceLoop F v (g ++ y :: s'') =
      ((Vte.advanceLoop F v (y :: s'')).1, .print Vte.REPLACEMENT :: (Vte.advanceLoop F v (y :: s'')).2) := by
  obtain ⟨hne, hl3, hge, h0⟩ := incomplete_props g hi
  have hPg : ∀ x ∈ g, x ≠ 0x1B := fun x hx => by have := hge x hx; omega
  have hfg := findIdx_of_noEsc hPg
  obtain ⟨F', rfl⟩ := fuel_pos hF
  have hlen : 1 ≤ g.length := by cases g with | nil => exact absurd rfl hne | cons _ _ => simp
  cases hgc : g with
  | nil => exact absurd hgc hne
  | cons x g' =>
  rw [← hgc]
  have e1 : g ++ y :: s'' = x :: (g' ++ y :: s'') := by rw [hgc]; rfl
  have hstep := advanceLoop_ground_cons F' v x (g' ++ y :: s'') hg
  rw [← e1] at hstep
  rw [hstep]
  have hget : (g ++ y :: s'').getD 0 0 = g.getD 0 0 := getD_append_left g _ 0 (by omega)
  by_cases hy : y = 0x1B
  · -- the offending byte is ESC
    have hfi : (g ++ y :: s'').findIdx (· == 0x1B) = g.length := by
      rw [List.findIdx_append]; simp [hfg, hy, findIdx_esc_cons]
    have hG : v.advanceGround (g ++ y :: s'') =
        ({ v.resetParams with state := .escape }, [.print Vte.REPLACEMENT], g.length + 1) := by
      unfold Vte.advanceGround
      have hi' : fromUtf8 g = Res.stop none := hi
      have h0' : (g.length == 0) = false := by rw [beq_eq_false_iff_ne]; omega
      simp only [hfi, List.take_left', hi', Res.stop, h0', Vte.groundDispatch]
      simp
    have hG2 : v.advanceGround (y :: s'') = ({ v.resetParams with state := .escape }, [], 1) := by
      unfold Vte.advanceGround
      simp [hy, findIdx_esc_cons]
    rw [hG, advanceLoop_ground_cons F' v y s'' hg, hG2]
    simp
  · -- any other byte
    have hfi : (g ++ y :: s'').findIdx (· == 0x1B) = g.length + (1 + s''.findIdx (· == 0x1B)) := by
      have hy' : (y == 27) = false := by simpa using hy
      rw [List.findIdx_append]; simp [hfg, hy', List.findIdx_cons, Nat.add_comm]
    have htake : (g ++ y :: s'').take (g.length + (1 + s''.findIdx (· == 0x1B))) =
        g ++ y :: s''.take (s''.findIdx (· == 0x1B)) := by
      rw [List.take_append, List.take_of_length_le (by omega)]
      have : g.length + (1 + s''.findIdx (· == 0x1B)) - g.length = s''.findIdx (· == 0x1B) + 1 := by omega
      rw [this, List.take_succ_cons]
    have hG : v.advanceGround (g ++ y :: s'') = (v, [.print Vte.REPLACEMENT], g.length) := by
      unfold Vte.advanceGround
      have h0' : (g.length + (1 + s''.findIdx (· == 0x1B)) == 0) = false := by rw [beq_eq_false_iff_ne]; omega
      simp only [hfi, htake, hbad, Res.stop, h0', Vte.groundDispatch, hget]
      have h0'' : 160 ≤ g[0]?.getD 0 := by simpa using h0
      simp
      intro _; omega
    rw [hG]
    simp only [List.drop_left', List.singleton_append]
    rw [advanceLoop_fuel F' (F' + 1) v (y :: s'') (by simp at hF ⊢; omega) (by simp at hF ⊢; omega)]

/-! ### 3. where the carry buffer is filled: reduction of any cut to the core situation -/

/-- The run of `a` from `v` ended with a Ground iteration in some carry-free Ground automaton `v0` that put a
truncated character `k` in the carry, and for every continuation `b` the unsplit run on `a ++ b` is: the same
actions `A`, then the carry-free Ground loop of `v0` on `k ++ b`. -/
@[reducible] def CutRed (v : Vte) (F : Nat) (a : List Nat) : Prop :=
  ∃ (v0 : Vte) (A : List Action) (k : List Nat), v0.state = .ground ∧ v0.carry = [] ∧ Incomplete k ∧
    Vte.advanceLoop F v a = ({ v0 with carry := k }, A) ∧
    ∀ (b : List Nat) (G H : Nat), (a ++ b).length < G → (k ++ b).length < H →
      Vte.advanceLoop G v (a ++ b) =
        ((Vte.advanceLoop H v0 (k ++ b)).1, A ++ (Vte.advanceLoop H v0 (k ++ b)).2)

/-- every chunk `a` that (fed to an automaton with an empty carry) leaves a NON-empty carry reduces to the
core situation `CutRed` -/
theorem cut_reduce : ∀ (n : Nat) (a : List Nat), a.length ≤ n → ∀ (v : Vte) (F : Nat), a.length < F →
    v.carry = [] → (Vte.advanceLoop F v a).1.carry ≠ [] → CutRed v F a
  | _, [], _, v, F, _, hc, hfin => by simp [advanceLoop_nil, hc] at hfin
  | 0, _ :: _, h, _, _, _, _, _ => by simp at h
  | n + 1, x :: a', hn, v, F, hF, hc, hfin => by
    obtain ⟨F', rfl⟩ := fuel_pos hF
    have hla : a'.length ≤ n := by simpa using hn
    by_cases hg : v.state = .ground
    · have hane : (x :: a') ≠ [] := by simp
      have hk1 := ground_n_pos v (x :: a') hane
      have hk2 := ground_n_le v (x :: a') hane
      have ea := advanceLoop_ground_cons F' v x a' hg
      -- the recursive cases: the first iteration does not look at `b`
      have key : (∀ b, v.advanceGround (x :: a' ++ b) = v.advanceGround (x :: a')) →
          (v.advanceGround (x :: a')).1.carry = [] → CutRed v (F' + 1) (x :: a') := fun hsame hcar => by
        have hrl : ((x :: a').drop (v.advanceGround (x :: a')).2.2).length ≤ n := by
          simp only [List.length_drop, List.length_cons] at hn ⊢; omega
        have hF' : ((x :: a').drop (v.advanceGround (x :: a')).2.2).length < F' := by
          simp only [List.length_drop, List.length_cons] at hF ⊢; omega
        rw [ea] at hfin
        obtain ⟨v0, A, k, h1, h2, h3, h4, h5⟩ :=
          cut_reduce n _ hrl (v.advanceGround (x :: a')).1 F' hF' hcar hfin
        refine ⟨v0, (v.advanceGround (x :: a')).2.1 ++ A, k, h1, h2, h3, ?_, ?_⟩
        · rw [ea, h4]
        · intro b G H hG hH
          obtain ⟨G', rfl⟩ := fuel_pos hG
          have hjoin := advanceLoop_ground_cons G' v x (a' ++ b) hg
          have hdrop : (x :: a' ++ b).drop (v.advanceGround (x :: a')).2.2 =
              (x :: a').drop (v.advanceGround (x :: a')).2.2 ++ b := List.drop_append_of_le_length hk2
          rw [show x :: (a' ++ b) = x :: a' ++ b from rfl, hsame b, hdrop] at hjoin
          rw [hjoin]
          have hG' : ((x :: a').drop (v.advanceGround (x :: a')).2.2 ++ b).length < G' := by
            simp only [List.length_append, List.length_drop, List.length_cons] at hG ⊢; omega
          rw [h5 b G' H hG' hH]
          simp only [List.append_assoc]
      by_cases hP : (x :: a').findIdx (· == 0x1B) < (x :: a').length
      · exact key (fun b => ground_esc_in_a v (x :: a') b hP) (by rw [ground_carry_esc v _ hP]; exact hc)
      · have hfl := findIdx_le (x :: a')
        have hPe : (x :: a').findIdx (· == 0x1B) = (x :: a').length := by omega
        have hPn := noEsc_of_findIdx hPe
        cases he : (fromUtf8 (x :: a')).err with
        | some e =>
          cases e with
          | some len =>
            exact key (fun b => ground_invalid_in_a v (x :: a') b hane hPe len he)
              (by rw [ground_carry_invalid v _ hPe len he]; exact hc)
          | none =>
            -- the base case: the truncated character at the end of `a`
            have hl := loop_truncated v (x :: a') (F' + 1) hg hc hPn he hF
            have hv := fromUtf8_take_valid (x :: a')
            refine ⟨v, Vte.groundDispatch (fromUtf8 (x :: a')).chars,
              (x :: a').drop (fromUtf8 (x :: a')).validUpTo, hg, hc, incomplete_drop _ he, hl, ?_⟩
            intro b G H hG hH
            have e : x :: a' ++ b = (x :: a').take (fromUtf8 (x :: a')).validUpTo ++
                ((x :: a').drop (fromUtf8 (x :: a')).validUpTo ++ b) := by
              rw [← List.append_assoc, List.take_append_drop]
            have hG2 : ((x :: a').take (fromUtf8 (x :: a')).validUpTo ++
                ((x :: a').drop (fromUtf8 (x :: a')).validUpTo ++ b)).length < G := by rw [← e]; exact hG
            rw [e, loop_valid_prefix v _ _ G hg hc (fun y hy => hPn y (List.mem_of_mem_take hy))
              (by rw [hv]) hG2, hv]
            have hG3 : ((x :: a').drop (fromUtf8 (x :: a')).validUpTo ++ b).length < G := by
              simp only [List.length_append, List.length_drop, List.length_take] at hG2 ⊢; omega
            rw [advanceLoop_fuel G H v _ hG3 hH]
        | none =>
          exfalso
          rw [ea, ground_valid_alone v (x :: a') hane hPe he] at hfin
          simp only [List.drop_length, advanceLoop_nil] at hfin
          exact hfin hc
    · have ea := advanceLoop_nonground_cons F' v x a' hg
      have hF' : a'.length < F' := by simp only [List.length_cons] at hF; omega
      have hc' : (v.changeState x).1.carry = [] := by rw [changeState_carry]; exact hc
      rw [ea] at hfin
      obtain ⟨v0, A, k, h1, h2, h3, h4, h5⟩ := cut_reduce n a' hla (v.changeState x).1 F' hF' hc' hfin
      refine ⟨v0, (v.changeState x).2 ++ A, k, h1, h2, h3, ?_, ?_⟩
      · rw [ea, h4]
      · intro b G H hG hH
        obtain ⟨G', rfl⟩ := fuel_pos hG
        rw [show x :: a' ++ b = x :: (a' ++ b) from rfl, advanceLoop_nonground_cons G' v x (a' ++ b) hg]
        have hG' : (a' ++ b).length < G' := by
          simp only [List.length_append, List.length_cons] at hG ⊢; omega
        rw [h5 b G' H hG' hH]
        simp only [List.append_assoc]

/-! ### 4. `advance_partial_utf8` on the three kinds of first token -/

/-- **the F10 situation**, as a decidable predicate on the carry buffer `k` (= vte's `partial_utf8`) and the next
chunk `b`: the window `k ++ take (4 - |k|) b` that `advance_partial_utf8` hands to `from_utf8` is NOT valid as a
whole (it is invalid somewhere, or ends in a truncated character) and its valid prefix is strictly longer than
its first character.  vte then prints only the first character and skips the rest of the valid prefix.
(`false` when the carry is empty: no window then.) -/
def WindowLoses (k b : List Nat) : Bool :=
  !k.isEmpty &&
    ((fromUtf8 (k ++ b.take (4 - k.length))).err.isSome &&
      decide (lenUtf8 ((fromUtf8 (k ++ b.take (4 - k.length))).chars.headD 0) <
        (fromUtf8 (k ++ b.take (4 - k.length))).validUpTo))

/-- `print c` for a C1 control is what vt100's `print` forwards to `execute`: normal form of an action -/
def normC1 : Action → Action
  | .print c => if 0x80 ≤ c && c < 0xA0 then .execute c else .print c
  | a => a

theorem take_min_length (b : List Nat) (m : Nat) : b.take (min b.length m) = b.take m := by
  rcases Nat.le_total b.length m with h | h
  · rw [Nat.min_eq_left h, List.take_length, List.take_of_length_le h]
  · rw [Nat.min_eq_right h]

theorem window_eq (k b : List Nat) (hk : k.length ≤ 4) : k ++ b.take (4 - k.length) = (k ++ b).take 4 := by
  rw [List.take_append, List.take_of_length_le hk]

theorem advance_carry (v1 : Vte) (b : List Nat) (h : v1.carry ≠ []) :
    v1.advance b =
      ((Vte.advanceLoop (b.length + 1) (v1.advancePartialUtf8 b).1 (b.drop (v1.advancePartialUtf8 b).2.2)).1,
        (v1.advancePartialUtf8 b).2.1 ++
          (Vte.advanceLoop (b.length + 1) (v1.advancePartialUtf8 b).1 (b.drop (v1.advancePartialUtf8 b).2.2)).2) := by
  unfold Vte.advance
  have : v1.carry.isEmpty = false := by cases hh : v1.carry with | nil => exact absurd hh h | cons _ _ => rfl
  simp only [this, Bool.false_eq_true, ↓reduceIte]

theorem set_carry_nil (v : Vte) (k : List Nat) (hc : v.carry = []) :
    ({ ({ v with carry := k } : Vte) with carry := [] } : Vte) = v := by
  cases v; simp at hc; subst hc; rfl

/-- `advance_partial_utf8`, in terms of the 4-byte window of `carry ++ chunk` -/
theorem partial_eq (v1 : Vte) (b : List Nat) (hk : v1.carry.length ≤ 4) :
    v1.advancePartialUtf8 b =
      (match (fromUtf8 ((v1.carry ++ b).take 4)).err with
       | none =>
         ({ v1 with carry := [] }, [.print ((fromUtf8 ((v1.carry ++ b).take 4)).chars.headD 0)],
           lenUtf8 ((fromUtf8 ((v1.carry ++ b).take 4)).chars.headD 0) - v1.carry.length)
       | some e =>
         if (fromUtf8 ((v1.carry ++ b).take 4)).validUpTo > 0 then
           ({ v1 with carry := [] }, [.print ((fromUtf8 ((v1.carry ++ b).take 4)).chars.headD 0)],
             (fromUtf8 ((v1.carry ++ b).take 4)).validUpTo - v1.carry.length)
         else
           match e with
           | some invalidLen => ({ v1 with carry := [] }, [.print Vte.REPLACEMENT], invalidLen - v1.carry.length)
           | none => ({ v1 with carry := (v1.carry ++ b).take 4 }, [], min b.length (4 - v1.carry.length))) := by
  unfold Vte.advancePartialUtf8
  simp only [take_min_length, window_eq _ b hk]
  rfl

theorem windowLoses_eq (k b : List Nat) (hk : k.length ≤ 4) :
    WindowLoses k b = (!k.isEmpty &&
      ((fromUtf8 ((k ++ b).take 4)).err.isSome &&
        decide (lenUtf8 ((fromUtf8 ((k ++ b).take 4)).chars.headD 0) < (fromUtf8 ((k ++ b).take 4)).validUpTo))) := by
  unfold WindowLoses
  rw [window_eq k b hk]

/-- (a) the chunk is too short to complete the character: everything stays in the carry buffer -/
theorem partial_incomplete (v : Vte) (k b : List Nat) (hk : Incomplete k) (hkb : Incomplete (k ++ b)) :
    ({ v with carry := k } : Vte).advancePartialUtf8 b = ({ v with carry := k ++ b }, [], b.length) := by
  have h3 := (incomplete_props k hk).2.1
  have h3' := (incomplete_props _ hkb).2.1
  rw [partial_eq _ b (by simp only; omega)]
  simp only
  rw [List.take_of_length_le (by omega)]
  have : fromUtf8 (k ++ b) = Res.stop none := hkb
  simp only [this, Res.stop, Nat.lt_irrefl, ↓reduceIte, gt_iff_lt]
  simp only [List.length_append] at h3'
  rw [Nat.min_eq_left (by omega)]

/-- (b) the window starts with an invalid sequence: U+FFFD, and the bytes before the offending one are consumed -/
theorem partial_invalid (v : Vte) (k b g : List Nat) (y : Nat) (s'' : List Nat) (hk : Incomplete k)
    (e : k ++ b = g ++ y :: s'') (hg : Incomplete g)
    (hbad : ∀ rest, fromUtf8 (g ++ y :: rest) = Res.stop (some g.length)) :
    ({ v with carry := k } : Vte).advancePartialUtf8 b =
      ({ ({ v with carry := k } : Vte) with carry := [] }, [.print Vte.REPLACEMENT], g.length - k.length) := by
  have h3 := (incomplete_props k hk).2.1
  have h3g := (incomplete_props g hg).2.1
  rw [partial_eq _ b (by simp only; omega)]
  simp only
  have hw : (g ++ y :: s'').take 4 = g ++ y :: s''.take (3 - g.length) := by
    rw [List.take_append, List.take_of_length_le (by omega)]
    have : 4 - g.length = (3 - g.length) + 1 := by omega
    rw [this, List.take_succ_cons]
  rw [e, hw, hbad]
  simp [Res.stop]

/-- (c) the window starts with a complete character `c` (encoded by `enc`): it is printed; the bytes consumed
are those of `c` — or, when the window is not valid as a whole, those of its whole valid prefix -/
theorem partial_complete (v : Vte) (k b enc : List Nat) (c : Nat) (s' : List Nat) (hk : Incomplete k)
    (e : k ++ b = enc ++ s') (hl4 : enc.length ≤ 4) (hlen : lenUtf8 c = enc.length)
    (henc : ∀ rest, fromUtf8 (enc ++ rest) = (fromUtf8 rest).cons c enc.length) :
    ({ v with carry := k } : Vte).advancePartialUtf8 b =
      ({ ({ v with carry := k } : Vte) with carry := [] }, [.print c],
        (if (fromUtf8 (s'.take (4 - enc.length))).err = none then enc.length
         else enc.length + (fromUtf8 (s'.take (4 - enc.length))).validUpTo) - k.length) := by
  have h3 := (incomplete_props k hk).2.1
  rw [partial_eq _ b (by simp only; omega)]
  simp only
  have hw : (enc ++ s').take 4 = enc ++ s'.take (4 - enc.length) := by
    rw [List.take_append, List.take_of_length_le hl4]
  rw [e, hw, henc]
  cases he : (fromUtf8 (s'.take (4 - enc.length))).err with
  | none => simp [Res.cons, he, hlen]
  | some x =>
    have : 0 < enc.length := by unfold lenUtf8 at hlen; (repeat' split at hlen) <;> omega
    simp [Res.cons, he]
    intro h0; rw [h0] at this; simp at this

theorem windowLoses_complete (k b enc : List Nat) (c : Nat) (s' : List Nat) (hk : Incomplete k)
    (e : k ++ b = enc ++ s') (hl4 : enc.length ≤ 4) (hlen : lenUtf8 c = enc.length)
    (henc : ∀ rest, fromUtf8 (enc ++ rest) = (fromUtf8 rest).cons c enc.length) :
    WindowLoses k b = ((fromUtf8 (s'.take (4 - enc.length))).err.isSome &&
      decide (0 < (fromUtf8 (s'.take (4 - enc.length))).validUpTo)) := by
  obtain ⟨hne, h3, _, _⟩ := incomplete_props k hk
  rw [windowLoses_eq k b (by omega)]
  have hw : (enc ++ s').take 4 = enc ++ s'.take (4 - enc.length) := by
    rw [List.take_append, List.take_of_length_le hl4]
  have hke : k.isEmpty = false := by cases k with | nil => exact absurd rfl hne | cons _ _ => rfl
  rw [e, hw, henc, hke]
  simp [Res.cons, hlen]

theorem drop_of_append_eq {k b g t : List Nat} (e : k ++ b = g ++ t) (h : k.length ≤ g.length) :
    b.drop (g.length - k.length) = t := by
  have h1 : (k ++ b).drop g.length = b.drop (g.length - k.length) := by
    rw [List.drop_append, List.drop_of_length_le h, List.nil_append]
  have h2 : (g ++ t).drop g.length = t := by simp
  rw [← h1, e, h2]

theorem normC1_dispatch (c : Nat) (h : 0x80 ≤ c) :
    (Vte.groundDispatch [c]).map normC1 = [normC1 (.print c)] := by
  simp only [Vte.groundDispatch, List.map_cons, List.map_nil, normC1]
  by_cases h2 : c ≤ 0x9f
  · have : ¬ c ≤ 0x1f := by omega
    simp [h, h2, this, normC1]; omega
  · have : ¬ c ≤ 0x1f := by omega
    have h3 : ¬ c < 0xA0 := by omega
    simp [h, h2, this, h3, normC1]

/-! ### 5. the core: a Ground automaton with a truncated character pending -/

/-- **core, positive half.**  A Ground automaton whose carry holds the truncated character `k` and that is fed
`b` behaves — unless `(k, b)` is the F10 situation — exactly like the carry-free automaton fed `k ++ b`: same
final automaton, same actions up to `print(C1) ~ execute(C1)` (which `vt100` identifies). -/
theorem core_nonlosing (v : Vte) (k b : List Nat) (F : Nat) (hg : v.state = .ground) (hc : v.carry = [])
    (hk : Incomplete k) (hw : WindowLoses k b = false) (hF : (k ++ b).length < F) :
    (({ v with carry := k } : Vte).advance b).1 = (Vte.advanceLoop F v (k ++ b)).1 ∧
    (({ v with carry := k } : Vte).advance b).2.map normC1 = (Vte.advanceLoop F v (k ++ b)).2.map normC1 := by
  obtain ⟨hne, h3, hge, _⟩ := incomplete_props k hk
  rw [advance_carry _ b (by simpa using hne)]
  rcases first_token b k hk with hkb | ⟨g, y, s'', e, hgi, hl, hbad⟩ | ⟨enc, c, s', e, hl, hl4, hc80, hlen, hence, henc⟩
  · -- too short: stays in the carry
    rw [partial_incomplete v k b hk hkb]
    simp only [List.drop_length, advanceLoop_nil, List.map_nil, List.append_nil]
    have hP : ∀ x ∈ k ++ b, x ≠ 0x1B := fun x hx => by
      have := (incomplete_props _ hkb).2.2.1 x hx; omega
    have hs : fromUtf8 (k ++ b) = Res.stop none := hkb
    rw [loop_truncated v (k ++ b) F hg hc hP (by rw [hs]; rfl) hF, hs]
    simp [Res.stop, Vte.groundDispatch]
  · -- invalid sequence
    rw [partial_invalid v k b g y s'' hk e hgi hbad, set_carry_nil v k hc, drop_of_append_eq e hl]
    have hF2 : (g ++ y :: s'').length < F := by rw [← e]; exact hF
    have hlen : (y :: s'').length ≤ b.length := by
      have := congrArg List.length e
      simp only [List.length_append, List.length_cons] at this ⊢; omega
    rw [e, loop_invalid v g y s'' F hg hgi hbad hF2,
      advanceLoop_fuel (b.length + 1) F v (y :: s'') (by omega)
        (by simp only [List.length_append, List.length_cons] at hF2 ⊢; omega)]
    simp
  · -- complete first character
    have hwl := windowLoses_complete k b enc c s' hk e hl4 hlen henc
    rw [hw] at hwl
    have hcons : (if (fromUtf8 (s'.take (4 - enc.length))).err = none then enc.length
         else enc.length + (fromUtf8 (s'.take (4 - enc.length))).validUpTo) = enc.length := by
      split
      · rfl
      · rename_i hne'
        cases he : (fromUtf8 (s'.take (4 - enc.length))).err with
        | none => exact absurd he hne'
        | some x => simp [he] at hwl; omega
    rw [partial_complete v k b enc c s' hk e hl4 hlen henc, hcons, set_carry_nil v k hc,
      drop_of_append_eq e (Nat.le_of_lt hl)]
    have hF2 : (enc ++ s').length < F := by rw [← e]; exact hF
    have hlen' : s'.length ≤ b.length := by
      have := congrArg List.length e
      simp only [List.length_append] at this ⊢; omega
    have henc0 := henc []
    simp only [List.append_nil, fromUtf8, Res.cons] at henc0
    rw [e, loop_valid_prefix v enc s' F hg hc (fun x hx => by have := hence x hx; omega)
        (by rw [henc0]) hF2,
      advanceLoop_fuel (b.length + 1) F v s' (by omega)
        (by simp only [List.length_append] at hF2 ⊢; omega), henc0]
    simp only [List.map_append, normC1_dispatch c hc80]
    simp

/-! ### 6. C04 for a cut inside a character -/

/-- **C04, automaton level, cut inside a multi-byte character.**  The carry is empty before `a`; after `a` it may
hold a truncated character `k`.  Unless `(k, b)` is the F10 situation, `advance(a ++ b)` and `advance(a)` then
`advance(b)` end in the same automaton and give the same actions up to `print(C1) ~ execute(C1)`.
(With `k = []` this is `C04b.advance_append`.) -/
theorem advance_append_cut (v : Vte) (a b : List Nat) (hc : v.carry = [])
    (hw : WindowLoses (v.advance a).1.carry b = false) :
    (v.advance (a ++ b)).1 = ((v.advance a).1.advance b).1 ∧
    (v.advance (a ++ b)).2.map normC1 = ((v.advance a).2 ++ ((v.advance a).1.advance b).2).map normC1 := by
  by_cases hfin : (v.advance a).1.carry = []
  · rw [advance_append v a b hc hfin]
    exact ⟨rfl, rfl⟩
  · rw [advance_eq_loop v a _ hc (Nat.lt_succ_self _)] at hfin hw ⊢
    obtain ⟨v0, A, k, hg0, hc0, hk, hl, hjoin⟩ :=
      cut_reduce a.length a (Nat.le_refl _) v _ (Nat.lt_succ_self _) hc hfin
    rw [hl] at hw ⊢
    simp only at hw ⊢
    rw [advance_eq_loop v (a ++ b) _ hc (Nat.lt_succ_self _),
      hjoin b _ ((k ++ b).length + 1) (Nat.lt_succ_self _) (Nat.lt_succ_self _)]
    obtain ⟨h1, h2⟩ := core_nonlosing v0 k b _ hg0 hc0 hk hw (Nat.lt_succ_self _)
    refine ⟨h1.symm, ?_⟩
    simp only [List.map_append, h2]

/-- `vt100`'s `print` forwards C1 controls to `execute`: `perform` does not see `normC1` -/
theorem perform_normC1 (W : Nat → Option Nat) (cb : CbPolicy) (ws : WS) (a : Action) :
    perform W cb ws (normC1 a) = perform W cb ws a := by
  cases a with
  | print c =>
    simp only [normC1]
    split
    · rename_i h; simp only [perform, performPrint, h, ↓reduceIte]
    · rfl
  | _ => rfl

theorem foldlM_normC1 (W : Nat → Option Nat) (cb : CbPolicy) : ∀ (acts : List Action) (ws : WS),
    (acts.map normC1).foldlM (perform W cb) ws = acts.foldlM (perform W cb) ws
  | [], _ => rfl
  | a :: acts, ws => by
    simp only [List.map_cons, List.foldlM_cons, perform_normC1]
    cases perform W cb ws a with
    | error e => rfl
    | ok ws' => simp only [ok_bind]; exact foldlM_normC1 W cb acts ws'

theorem process_eq (W : Nat → Option Nat) (cb : CbPolicy) (p : Parser) (bytes : List Nat) :
    p.process W cb bytes =
      ((p.vte.advance bytes).2.foldlM (perform W cb) p.ws >>= fun ws =>
        pure { vte := (p.vte.advance bytes).1, ws := ws }) := rfl

/-- **C04 (screen and events), cut inside a multi-byte character**: `process(a ++ b)` = `process(a)` then
`process(b)` — same screen, same callback events in the same order, same automaton (including its carry buffer),
failing identically if anything fails — for every cut except the F10 situation `WindowLoses`.  The carry must be
empty before `a` (true of a new parser); after `a` it may hold a truncated character. -/
theorem process_append_cut (W : Nat → Option Nat) (cb : CbPolicy) (p : Parser) (a b : List Nat)
    (hc : p.vte.carry = []) (hw : WindowLoses (p.vte.advance a).1.carry b = false) :
    p.process W cb (a ++ b) = (p.process W cb a >>= fun p1 => p1.process W cb b) := by
  obtain ⟨h1, h2⟩ := advance_append_cut p.vte a b hc hw
  simp only [process_eq]
  rw [← foldlM_normC1 W cb (p.vte.advance (a ++ b)).2, h2, foldlM_normC1, h1, foldlM_append']
  cases (p.vte.advance a).2.foldlM (perform W cb) p.ws with
  | error e => rfl
  | ok ws => rfl

/-- the automaton after feeding the chunks one by one -/
def runVte (v : Vte) (chunks : List (List Nat)) : Vte := chunks.foldl (fun v c => (v.advance c).1) v

theorem process_vte (W : Nat → Option Nat) (cb : CbPolicy) (p p' : Parser) (c : List Nat)
    (e : p.process W cb c = .ok p') : p'.vte = (p.vte.advance c).1 := by
  rw [process_eq] at e
  cases hh : (p.vte.advance c).2.foldlM (perform W cb) p.ws with
  | error e' => rw [hh] at e; simp at e
  | ok ws => rw [hh] at e; simp only [ok_bind, pure_eq_ok, Except.ok.injEq] at e; rw [← e]

theorem chunks_prefix (W : Nat → Option Nat) (cb : CbPolicy) (chunks : List (List Nat)) (p : Parser)
    (hc : p.vte.carry = [])
    (h : ∀ i (hi : i < chunks.length), WindowLoses (runVte p.vte (chunks.take i)).carry chunks[i] = false) :
    ∀ i, i ≤ chunks.length →
      (chunks.take i).foldlM (fun p c => p.process W cb c) p = p.process W cb (chunks.take i).flatten ∧
      runVte p.vte (chunks.take i) = (p.vte.advance (chunks.take i).flatten).1
  | 0, _ => by
    simp only [List.take_zero, List.foldlM_nil, List.flatten_nil, runVte, List.foldl_nil]
    exact ⟨(process_nil W cb p hc).symm, by rw [advance_nil _ hc]⟩
  | i + 1, hi => by
    have hi' : i < chunks.length := hi
    obtain ⟨ih1, ih2⟩ := chunks_prefix W cb chunks p hc h i (Nat.le_of_lt hi')
    have hw := h i hi'
    rw [ih2] at hw
    rw [List.take_succ_eq_append_getElem hi', List.flatten_append, foldlM_append', ih1]
    simp only [List.flatten_cons, List.flatten_nil, List.append_nil, List.foldlM_cons, List.foldlM_nil]
    refine ⟨?_, ?_⟩
    · rw [process_append_cut W cb p _ _ hc hw]
      cases p.process W cb (chunks.take i).flatten with
      | error e => rfl
      | ok p1 =>
        simp only [ok_bind]
        cases p1.process W cb chunks[i] with
        | error e => rfl
        | ok p2 => rfl
    · have := (advance_append_cut p.vte _ _ hc hw).1
      rw [this]
      simp only [runVte, List.foldl_append, List.foldl_cons, List.foldl_nil] at ih2 ⊢
      rw [ih2]

/-- **C04 for ANY chunking none of whose cuts is a losing one.**  The parser starts with an empty carry.  At each
cut, the carry buffer the automaton holds at that moment (empty, or a truncated character) together with the next
chunk must not be the F10 situation `WindowLoses` (chunks too short to complete the character are fine: the bytes
stay in the carry).  Then feeding the chunks one by one equals feeding their concatenation: same screen, same
events, same automaton, same failure. -/
theorem process_chunks_cut (W : Nat → Option Nat) (cb : CbPolicy) (chunks : List (List Nat)) (p : Parser)
    (hc : p.vte.carry = [])
    (h : ∀ i (hi : i < chunks.length), WindowLoses (runVte p.vte (chunks.take i)).carry chunks[i] = false) :
    chunks.foldlM (fun p c => p.process W cb c) p = p.process W cb chunks.flatten := by
  have := (chunks_prefix W cb chunks p hc h chunks.length (Nat.le_refl _)).1
  rwa [List.take_length] at this

/-- the parser obtained by processing the chunks one by one holds the automaton `runVte` -/
theorem foldlM_vte (W : Nat → Option Nat) (cb : CbPolicy) : ∀ (chunks : List (List Nat)) (p p' : Parser),
    chunks.foldlM (fun p c => p.process W cb c) p = .ok p' → p'.vte = runVte p.vte chunks
  | [], p, p', e => by simp only [List.foldlM_nil, pure_eq_ok, Except.ok.injEq] at e; rw [← e]; rfl
  | c :: cs, p, p', e => by
    simp only [List.foldlM_cons] at e
    cases hp : p.process W cb c with
    | error e' => rw [hp] at e; simp at e
    | ok p1 =>
      rw [hp] at e
      simp only [ok_bind] at e
      rw [foldlM_vte W cb cs p1 p' e, process_vte W cb p p1 c hp]
      rfl

/-! ### 7. the converse: in the F10 situation the split run skips characters -/

theorem validUpTo_le (t : List Nat) : (fromUtf8 t).validUpTo ≤ t.length := by
  have h := fromUtf8_validUpTo_ok (t.take (fromUtf8 t).validUpTo) (by rw [fromUtf8_take_valid])
  rw [fromUtf8_take_valid] at h
  simp only [List.length_take] at h
  omega

theorem chars_of_validUpTo_pos (t : List Nat) : (fromUtf8 t).validUpTo = 0 ∨ (fromUtf8 t).chars ≠ [] := by
  fun_cases fromUtf8 t <;> simp [Res.stop, Res.cons]

theorem windowLoses_nil (b : List Nat) : WindowLoses [] b = false := rfl

/-- **core, negative half (exact description of F10).**  In the F10 situation the window starts with a complete
character `c`; the unsplit run dispatches `c` and goes on with the rest `s'` of the input; the split run prints
`c` and goes on with `s'` MINUS its first `n ≥ 1` bytes, which are valid UTF-8 holding the characters `lost`
(at least one): the automaton never sees them. -/
theorem core_losing (v : Vte) (k b : List Nat) (F : Nat) (hg : v.state = .ground) (hc : v.carry = [])
    (hk : Incomplete k) (hw : WindowLoses k b = true) (hF : (k ++ b).length < F) :
    ∃ (c : Nat) (s' : List Nat) (n : Nat) (lost : List Nat), 0x80 ≤ c ∧ 0 < n ∧ n ≤ s'.length ∧ s'.length < F ∧
      lost ≠ [] ∧ fromUtf8 (s'.take n) = { chars := lost, validUpTo := n, err := none } ∧
      (∀ x ∈ s'.take n, x ∈ b.take (4 - k.length)) ∧
      Vte.advanceLoop F v (k ++ b) =
        ((Vte.advanceLoop F v s').1, Vte.groundDispatch [c] ++ (Vte.advanceLoop F v s').2) ∧
      ({ v with carry := k } : Vte).advance b =
        ((Vte.advanceLoop F v (s'.drop n)).1, .print c :: (Vte.advanceLoop F v (s'.drop n)).2) := by
  obtain ⟨hne, h3, hge, _⟩ := incomplete_props k hk
  rcases first_token b k hk with hkb | ⟨g, y, s'', e, hgi, hl, hbad⟩ | ⟨enc, c, s', e, hl, hl4, hc80, hlen, hence, henc⟩
  · exfalso
    have h3' := (incomplete_props _ hkb).2.1
    rw [windowLoses_eq k b (by omega), List.take_of_length_le (by omega)] at hw
    have : fromUtf8 (k ++ b) = Res.stop none := hkb
    simp [this, Res.stop] at hw
  · exfalso
    have h3g := (incomplete_props g hgi).2.1
    have hwin : (g ++ y :: s'').take 4 = g ++ y :: s''.take (3 - g.length) := by
      rw [List.take_append, List.take_of_length_le (by omega)]
      have : 4 - g.length = (3 - g.length) + 1 := by omega
      rw [this, List.take_succ_cons]
    rw [windowLoses_eq k b (by omega), e, hwin, hbad] at hw
    simp [Res.stop] at hw
  · have hwl := windowLoses_complete k b enc c s' hk e hl4 hlen henc
    rw [hw] at hwl
    have hsome : (fromUtf8 (s'.take (4 - enc.length))).err ≠ none := by
      intro h; rw [h] at hwl; simp at hwl
    have hpos : 0 < (fromUtf8 (s'.take (4 - enc.length))).validUpTo := by
      cases he : (fromUtf8 (s'.take (4 - enc.length))).err with
      | none => exact absurd he hsome
      | some x => simp [he] at hwl; exact hwl
    have hle := validUpTo_le (s'.take (4 - enc.length))
    have hv := fromUtf8_take_valid (s'.take (4 - enc.length))
    have htt : (s'.take (4 - enc.length)).take (fromUtf8 (s'.take (4 - enc.length))).validUpTo =
        s'.take (fromUtf8 (s'.take (4 - enc.length))).validUpTo := by
      rw [List.take_take, Nat.min_eq_left (by simp only [List.length_take] at hle; omega)]
    rw [htt] at hv
    have hn_le : (fromUtf8 (s'.take (4 - enc.length))).validUpTo ≤ s'.length := by
      simp only [List.length_take] at hle; omega
    refine ⟨c, s', (fromUtf8 (s'.take (4 - enc.length))).validUpTo,
      (fromUtf8 (s'.take (4 - enc.length))).chars, hc80, hpos, hn_le, ?_, ?_, hv, ?_, ?_, ?_⟩
    · have := congrArg List.length e
      simp only [List.length_append] at this hF ⊢; omega
    · rcases chars_of_validUpTo_pos (s'.take (4 - enc.length)) with h | h
      · omega
      · exact h
    · -- the skipped bytes lie in the window
      intro x hx
      have hx' : x ∈ s'.take (4 - enc.length) := by
        rw [← htt] at hx; exact List.mem_of_mem_take hx
      have hwin : k ++ b.take (4 - k.length) = enc ++ s'.take (4 - enc.length) := by
        rw [window_eq k b (by omega), e, List.take_append, List.take_of_length_le hl4]
      have hd := drop_of_append_eq hwin (Nat.le_of_lt hl)
      rw [← hd] at hx'
      exact List.mem_of_mem_drop hx'
    · have hF2 : (enc ++ s').length < F := by rw [← e]; exact hF
      have henc0 := henc []
      simp only [List.append_nil, fromUtf8, Res.cons] at henc0
      rw [e, loop_valid_prefix v enc s' F hg hc (fun x hx => by have := hence x hx; omega)
        (by rw [henc0]) hF2, henc0]
    · rw [advance_carry _ b (by simpa using hne), partial_complete v k b enc c s' hk e hl4 hlen henc,
        set_carry_nil v k hc]
      simp only [hsome, ↓reduceIte]
      have e' : k ++ b = (enc ++ s'.take (fromUtf8 (s'.take (4 - enc.length))).validUpTo) ++
          s'.drop (fromUtf8 (s'.take (4 - enc.length))).validUpTo := by
        rw [List.append_assoc, List.take_append_drop]; exact e
      have hlen2 : (enc ++ s'.take (fromUtf8 (s'.take (4 - enc.length))).validUpTo).length =
          enc.length + (fromUtf8 (s'.take (4 - enc.length))).validUpTo := by
        simp only [List.length_append, List.length_take]; omega
      have := drop_of_append_eq e' (by rw [hlen2]; omega)
      rw [hlen2] at this
      rw [this]
      have hlb : (s'.drop (fromUtf8 (s'.take (4 - enc.length))).validUpTo).length ≤ b.length := by
        have := congrArg List.length e
        simp only [List.length_append, List.length_drop] at this ⊢; omega
      rw [advanceLoop_fuel (b.length + 1) F v _ (by omega)
        (by simp only [List.length_append] at hF; omega)]
      rfl

/-- **F10 is exactly the excluded region** (general form, any chunk `a` before the cut).  If the carry left by `a`
and the next chunk `b` are in the F10 situation, then there are a carry-free Ground automaton `v0`, common
actions `A`, a character `c`, an input rest `s'` and `n ≥ 1` such that the unsplit run is
`A`, dispatch of `c`, then `v0`'s loop on `s'`, while the split run is `A`, `print c`, then `v0`'s loop on `s'`
WITHOUT its first `n` bytes — valid UTF-8 holding the characters `lost ≠ []`, all of them bytes of the window. -/
theorem cut_loses (v : Vte) (a b : List Nat) (hc : v.carry = [])
    (hw : WindowLoses (v.advance a).1.carry b = true) :
    ∃ (v0 : Vte) (A : List Action) (c : Nat) (s' : List Nat) (n : Nat) (lost : List Nat) (F : Nat),
      v0.state = .ground ∧ v0.carry = [] ∧ 0x80 ≤ c ∧ 0 < n ∧ n ≤ s'.length ∧ s'.length < F ∧ lost ≠ [] ∧
      fromUtf8 (s'.take n) = { chars := lost, validUpTo := n, err := none } ∧
      (∀ x ∈ s'.take n, x ∈ b.take (4 - (v.advance a).1.carry.length)) ∧
      v.advance (a ++ b) =
        ((Vte.advanceLoop F v0 s').1, A ++ Vte.groundDispatch [c] ++ (Vte.advanceLoop F v0 s').2) ∧
      ((v.advance a).1.advance b).1 = (Vte.advanceLoop F v0 (s'.drop n)).1 ∧
      (v.advance a).2 ++ ((v.advance a).1.advance b).2 =
        A ++ .print c :: (Vte.advanceLoop F v0 (s'.drop n)).2 := by
  have hfin : (v.advance a).1.carry ≠ [] := by
    intro h; rw [h, windowLoses_nil] at hw; exact absurd hw (by simp)
  rw [advance_eq_loop v a _ hc (Nat.lt_succ_self _)] at hfin hw ⊢
  obtain ⟨v0, A, k, hg0, hc0, hk, hl, hjoin⟩ :=
    cut_reduce a.length a (Nat.le_refl _) v _ (Nat.lt_succ_self _) hc hfin
  rw [hl] at hw ⊢
  simp only at hw ⊢
  obtain ⟨c, s', n, lost, h1, h2, h3, h4, h5, h6, h7, h8, h9⟩ :=
    core_losing v0 k b ((k ++ b).length + 1) hg0 hc0 hk hw (Nat.lt_succ_self _)
  refine ⟨v0, A, c, s', n, lost, (k ++ b).length + 1, hg0, hc0, h1, h2, h3, h4, h5, h6, h7, ?_, ?_, ?_⟩
  · rw [advance_eq_loop v (a ++ b) _ hc (Nat.lt_succ_self _),
      hjoin b _ ((k ++ b).length + 1) (Nat.lt_succ_self _) (Nat.lt_succ_self _), h8]
    simp only [List.append_assoc]
  · rw [h9]
  · rw [h9]

/-- `print` and `execute`: the actions by which the automaton hands a character to the terminal -/
def isText : Action → Bool
  | .print _ => true
  | .execute _ => true
  | _ => false

theorem countP_dispatch (l : List Nat) : (Vte.groundDispatch l).countP isText = l.length := by
  induction l with
  | nil => rfl
  | cons x l ih =>
    simp only [Vte.groundDispatch, List.map_cons, List.length_cons] at ih ⊢
    rw [List.countP_cons, ih]
    split <;> simp [isText]

/-- **F10, action lists** (window free of ESC): the unsplit run dispatches the characters `c :: lost`, the split
run only prints `c`; before (`A`) and after (`L`) the two action lists are the same, and the automaton ends in
the same state: the characters `lost` (at least one) are dropped. -/
theorem cut_loses_actions (v : Vte) (a b : List Nat) (hc : v.carry = [])
    (hw : WindowLoses (v.advance a).1.carry b = true)
    (hE : ∀ x ∈ b.take (4 - (v.advance a).1.carry.length), x ≠ 0x1B) :
    ∃ (A : List Action) (c : Nat) (lost : List Nat) (L : List Action), 0x80 ≤ c ∧ lost ≠ [] ∧
      (v.advance (a ++ b)).2 = A ++ Vte.groundDispatch (c :: lost) ++ L ∧
      (v.advance a).2 ++ ((v.advance a).1.advance b).2 = A ++ .print c :: L ∧
      (v.advance (a ++ b)).1 = ((v.advance a).1.advance b).1 := by
  obtain ⟨v0, A, c, s', n, lost, F, hg0, hc0, h1, h2, h3, h4, h5, h6, h7, h8, h9, h10⟩ := cut_loses v a b hc hw
  have hsplit : Vte.advanceLoop F v0 s' =
      ((Vte.advanceLoop F v0 (s'.drop n)).1, Vte.groundDispatch lost ++ (Vte.advanceLoop F v0 (s'.drop n)).2) := by
    have := loop_valid_prefix v0 (s'.take n) (s'.drop n) F hg0 hc0 (fun x hx => hE x (h7 x hx))
      (by rw [h6]) (by rw [List.take_append_drop]; exact h4)
    rw [List.take_append_drop, h6] at this
    exact this
  refine ⟨A, c, lost, (Vte.advanceLoop F v0 (s'.drop n)).2, h1, h5, ?_, h10, ?_⟩
  · rw [h8, hsplit]
    simp [Vte.groundDispatch]
  · rw [h8, hsplit, h9]

/-- **F10, counted**: with an ESC-free window, the split run hands strictly fewer characters to the terminal
(`print`/`execute` actions) than the unsplit run -/
theorem cut_loses_count (v : Vte) (a b : List Nat) (hc : v.carry = [])
    (hw : WindowLoses (v.advance a).1.carry b = true)
    (hE : ∀ x ∈ b.take (4 - (v.advance a).1.carry.length), x ≠ 0x1B) :
    ((v.advance a).2 ++ ((v.advance a).1.advance b).2).countP isText < (v.advance (a ++ b)).2.countP isText ∧
    ((v.advance a).2 ++ ((v.advance a).1.advance b).2).length < (v.advance (a ++ b)).2.length := by
  obtain ⟨A, c, lost, L, _, hl, h1, h2, _⟩ := cut_loses_actions v a b hc hw hE
  have hpos : 0 < lost.length := by cases lost with | nil => exact absurd rfl hl | cons _ _ => simp
  rw [h1, h2]
  refine ⟨?_, ?_⟩
  · simp only [List.countP_append, List.countP_cons, countP_dispatch, List.length_cons, isText]
    simp; omega
  · simp only [List.length_append, List.length_cons, Vte.groundDispatch, List.length_map]
    omega

/-! ### 8. the exact shape of the F10 situation -/

theorem validUpTo_lt_of_err (t : List Nat) (h : (fromUtf8 t).err ≠ none) : (fromUtf8 t).validUpTo < t.length := by
  cases he : (fromUtf8 t).err with
  | none => exact absurd he h
  | some e =>
    cases e with
    | none => exact err_incomplete_lt t he
    | some len => have := err_len_bounds t len he; omega

/-- a lone byte `≥ 0x80` is never valid: nothing valid, and an error -/
theorem single_high (x : Nat) (h : 0x80 ≤ x) :
    (fromUtf8 [x]).validUpTo = 0 ∧ (fromUtf8 [x]).err ≠ none := by
  have h1 : ¬ x < 0x80 := by omega
  rw [fromUtf8.eq_def]
  simp only [h1, ↓reduceIte]
  split
  · simp [Res.stop]
  · split
    · simp [Res.stop]
    · split <;> simp [Res.stop]

theorem two_valid (l t : Nat) (h1 : 0x80 ≤ l) (h : (fromUtf8 [l, t]).err = none) :
    0xC2 ≤ l ∧ l ≤ 0xDF ∧ isCont t = true := by
  have h1' : ¬ l < 0x80 := by omega
  rw [fromUtf8.eq_def] at h
  simp only [h1', ↓reduceIte] at h
  split at h
  · rename_i hl
    split at h
    · rename_i ht
      simp only [Bool.and_eq_true, decide_eq_true_eq] at hl
      exact ⟨hl.1, hl.2, ht⟩
    · simp [Res.stop] at h
  · split at h
    · split at h
      · simp [fromUtf8, Res.stop] at h
      · simp [Res.stop] at h
    · split at h
      · split at h
        · simp [fromUtf8, Res.stop] at h
        · simp [Res.stop] at h
      · simp [Res.stop] at h

theorem two_validUpTo (c1 x : Nat) (h : (fromUtf8 [c1, x]).validUpTo = 1) : c1 < 0x80 := by
  apply Classical.byContradiction
  intro h1
  rw [fromUtf8.eq_def] at h
  simp only [h1, ↓reduceIte] at h
  split at h
  · split at h
    · simp [Res.cons, fromUtf8] at h
    · simp [Res.stop] at h
  · split at h
    · split at h
      · simp [fromUtf8, Res.stop] at h
      · simp [Res.stop] at h
    · split at h
      · split at h
        · simp [fromUtf8, Res.stop] at h
        · simp [Res.stop] at h
      · simp [Res.stop] at h

/-- in the F10 situation the window starts with a complete character and goes on with a valid but not
all-valid rest -/
theorem losing_form (k b : List Nat) (hk : Incomplete k) (hw : WindowLoses k b = true) :
    ∃ enc c s', k ++ b = enc ++ s' ∧ k.length < enc.length ∧ enc.length ≤ 4 ∧ 0x80 ≤ c ∧
      lenUtf8 c = enc.length ∧ (∀ x ∈ enc, 0x80 ≤ x) ∧
      (∀ rest, fromUtf8 (enc ++ rest) = (fromUtf8 rest).cons c enc.length) ∧
      (fromUtf8 (s'.take (4 - enc.length))).err ≠ none ∧ 0 < (fromUtf8 (s'.take (4 - enc.length))).validUpTo := by
  obtain ⟨hne, h3, hge, _⟩ := incomplete_props k hk
  rcases first_token b k hk with hkb | ⟨g, y, s'', e, hgi, hl, hbad⟩ | ⟨enc, c, s', e, hl, hl4, hc80, hlen, hence, henc⟩
  · exfalso
    have h3' := (incomplete_props _ hkb).2.1
    rw [windowLoses_eq k b (by omega), List.take_of_length_le (by omega)] at hw
    have : fromUtf8 (k ++ b) = Res.stop none := hkb
    simp [this, Res.stop] at hw
  · exfalso
    have h3g := (incomplete_props g hgi).2.1
    have hwin : (g ++ y :: s'').take 4 = g ++ y :: s''.take (3 - g.length) := by
      rw [List.take_append, List.take_of_length_le (by omega)]
      have : 4 - g.length = (3 - g.length) + 1 := by omega
      rw [this, List.take_succ_cons]
    rw [windowLoses_eq k b (by omega), e, hwin, hbad] at hw
    simp [Res.stop] at hw
  · have hwl := windowLoses_complete k b enc c s' hk e hl4 hlen henc
    rw [hw] at hwl
    have hsome : (fromUtf8 (s'.take (4 - enc.length))).err ≠ none := by
      intro h; rw [h] at hwl; simp at hwl
    have hpos : 0 < (fromUtf8 (s'.take (4 - enc.length))).validUpTo := by
      cases he : (fromUtf8 (s'.take (4 - enc.length))).err with
      | none => exact absurd he hsome
      | some x => simp [he] at hwl; exact hwl
    exact ⟨enc, c, s', e, hl, hl4, hc80, hlen, hence, henc, hsome, hpos⟩

/-- **the exact shape of finding F10.**  With a truncated character `k` in the carry, the pair `(k, b)` is the
losing situation exactly when: `k` is the lead byte of a 2-byte character, `b` starts with its continuation byte
`t`, then ONE 7-bit byte `c1` (the character that is lost — a letter, a control, possibly ESC), then a byte
`x ≥ 0x80` (the start of another multi-byte character, or an invalid byte).  Carries of 3- and 4-byte
characters, and carries of two or three bytes, never lose anything. -/
theorem windowLoses_iff (k b : List Nat) (hk : Incomplete k) :
    WindowLoses k b = true ↔
      ∃ l t c1 x rest, k = [l] ∧ b = t :: c1 :: x :: rest ∧ 0xC2 ≤ l ∧ l ≤ 0xDF ∧ isCont t = true ∧
        c1 < 0x80 ∧ 0x80 ≤ x := by
  constructor
  · intro hw
    obtain ⟨hne, h3, hge, _⟩ := incomplete_props k hk
    obtain ⟨enc, c, s', e, hl, hl4, hc80, hlen, hence, henc, hsome, hpos⟩ := losing_form k b hk hw
    have hlt := validUpTo_lt_of_err _ hsome
    have h2 : 2 ≤ enc.length := by
      rw [← hlen]; unfold lenUtf8; (repeat' split) <;> omega
    have hk1 : 1 ≤ k.length := by cases k with | nil => exact absurd rfl hne | cons _ _ => simp
    simp only [List.length_take] at hlt
    have henc2 : enc.length = 2 := by omega
    have hkl : k.length = 1 := by omega
    rw [henc2] at hlt hpos hsome
    have hv1 : (fromUtf8 (s'.take (4 - 2))).validUpTo = 1 := by omega
    have hs2 : 2 ≤ s'.length := by omega
    match s', hs2, hsome, hv1, e with
    | c1 :: x :: rest, _, hsome, hv1, e =>
      have ht : (c1 :: x :: rest).take (4 - 2) = [c1, x] := by simp
      rw [ht] at hsome hv1
      have hc1 := two_validUpTo c1 x hv1
      have hx : 0x80 ≤ x := by
        apply Classical.byContradiction
        intro hx
        exact hsome (fromUtf8_ascii [c1, x] (by intro y hy; simp at hy; omega))
      match enc, henc2, hence, henc, k, hkl, e with
      | [l, t], _, hence, henc, [l'], _, e =>
        simp only [List.cons_append, List.nil_append, List.cons.injEq] at e
        obtain ⟨rfl, rfl⟩ := e
        have h0 := henc []
        rw [List.append_nil] at h0
        obtain ⟨a1, a2, a3⟩ := two_valid l' t (hence l' (by simp)) (by rw [h0]; simp [Res.cons, fromUtf8])
        exact ⟨l', t, c1, x, rest, rfl, rfl, a1, a2, a3, hc1, hx⟩
  · rintro ⟨l, t, c1, x, rest, rfl, rfl, hl1, hl2, ht, hc1, hx⟩
    obtain ⟨hx0, hxe⟩ := single_high x hx
    have hl0 : ¬ l < 0x80 := by omega
    have e1 : fromUtf8 [l, t, c1, x] =
        ((fromUtf8 [x]).cons c1 1).cons ((l - 0xC0) * 64 + (t - 0x80)) 2 := by
      rw [fromUtf8.eq_def]
      simp only [hl0, ↓reduceIte, hl1, hl2, decide_true, Bool.and_self, ht]
      congr 1
      rw [fromUtf8.eq_def]
      simp only [hc1, ↓reduceIte]
    have hlen : lenUtf8 ((l - 0xC0) * 64 + (t - 0x80)) = 2 := by
      simp only [isCont, Bool.and_eq_true, decide_eq_true_eq] at ht
      unfold lenUtf8; (repeat' split) <;> omega
    unfold WindowLoses
    have hw : [l] ++ (t :: c1 :: x :: rest).take (4 - [l].length) = [l, t, c1, x] := by simp
    rw [hw, e1]
    cases he : (fromUtf8 [x]).err with
    | none => exact absurd he hxe
    | some e' => simp [Res.cons, he, hlen, hx0]

/-- **F10 in its exact shape, both runs computed.**  The carry left by `a` is the lead byte `l` of a 2-byte
character `c`; `b = t :: c1 :: x :: rest` with `t` its continuation byte, `c1 < 0x80`, `x ≥ 0x80`.  Then for a
carry-free Ground automaton `v0` and common actions `A`: the unsplit run is `A`, the dispatch of `c`, then `v0`'s
loop on `c1 :: x :: rest`; the split run is `A`, `print c`, then `v0`'s loop on `x :: rest`: the byte `c1` is
never seen by the automaton. -/
theorem cut_loses_exact (v : Vte) (a : List Nat) (l t c1 x : Nat) (rest : List Nat) (hc : v.carry = [])
    (hk : (v.advance a).1.carry = [l]) (hl1 : 0xC2 ≤ l) (hl2 : l ≤ 0xDF) (ht : isCont t = true)
    (hc1 : c1 < 0x80) (hx : 0x80 ≤ x) :
    ∃ (v0 : Vte) (A : List Action) (F : Nat), v0.state = .ground ∧ v0.carry = [] ∧
      (c1 :: x :: rest).length < F ∧
      v.advance (a ++ t :: c1 :: x :: rest) =
        ((Vte.advanceLoop F v0 (c1 :: x :: rest)).1,
          A ++ Vte.groundDispatch [(l - 0xC0) * 64 + (t - 0x80)] ++ (Vte.advanceLoop F v0 (c1 :: x :: rest)).2) ∧
      ((v.advance a).1.advance (t :: c1 :: x :: rest)).1 = (Vte.advanceLoop F v0 (x :: rest)).1 ∧
      (v.advance a).2 ++ ((v.advance a).1.advance (t :: c1 :: x :: rest)).2 =
        A ++ .print ((l - 0xC0) * 64 + (t - 0x80)) :: (Vte.advanceLoop F v0 (x :: rest)).2 := by
  have hfin : (v.advance a).1.carry ≠ [] := by rw [hk]; simp
  rw [advance_eq_loop v a _ hc (Nat.lt_succ_self _)] at hfin hk ⊢
  obtain ⟨v0, A, k, hg0, hc0, hki, hl, hjoin⟩ :=
    cut_reduce a.length a (Nat.le_refl _) v _ (Nat.lt_succ_self _) hc hfin
  rw [hl] at hk ⊢
  simp only at hk ⊢
  subst hk
  have hl0 : ¬ l < 0x80 := by omega
  have henc : ∀ r, fromUtf8 ([l, t] ++ r) = (fromUtf8 r).cons ((l - 0xC0) * 64 + (t - 0x80)) [l, t].length := by
    intro r
    simp only [List.cons_append, List.nil_append, List.length_cons, List.length_nil]
    rw [fromUtf8.eq_def]
    simp only [hl0, ↓reduceIte, hl1, hl2, decide_true, Bool.and_self, ht]
  have hlen : lenUtf8 ((l - 0xC0) * 64 + (t - 0x80)) = [l, t].length := by
    simp only [isCont, Bool.and_eq_true, decide_eq_true_eq] at ht
    simp only [List.length_cons, List.length_nil]
    unfold lenUtf8; (repeat' split) <;> omega
  have e : [l] ++ t :: c1 :: x :: rest = [l, t] ++ c1 :: x :: rest := rfl
  obtain ⟨hx0, hxe⟩ := single_high x hx
  have htail : fromUtf8 ((c1 :: x :: rest).take (4 - [l, t].length)) = (fromUtf8 [x]).cons c1 1 := by
    have : (c1 :: x :: rest).take (4 - [l, t].length) = [c1, x] := by simp
    rw [this, fromUtf8.eq_def]
    simp only [hc1, ↓reduceIte]
  refine ⟨v0, A, ([l] ++ t :: c1 :: x :: rest).length + 1, hg0, hc0, by simp, ?_, ?_, ?_⟩
  · rw [advance_eq_loop v _ _ hc (Nat.lt_succ_self _),
      hjoin _ _ (([l] ++ t :: c1 :: x :: rest).length + 1) (Nat.lt_succ_self _) (Nat.lt_succ_self _)]
    have h0 : fromUtf8 [l, t] =
        { chars := [(l - 0xC0) * 64 + (t - 0x80)], validUpTo := 2, err := none } := by
      have := henc []
      rw [List.append_nil] at this
      rw [this]; simp [Res.cons, fromUtf8]
    rw [e, loop_valid_prefix v0 [l, t] _ _ hg0 hc0
      (by intro y hy; simp at hy; simp only [isCont, Bool.and_eq_true, decide_eq_true_eq] at ht; omega)
      (by rw [h0]) (Nat.lt_succ_self _), h0]
    simp only [List.append_assoc]
  all_goals
    rw [advance_carry _ _ (by simp), partial_complete v0 [l] _ [l, t] _ _ hki e (by simp) hlen henc,
      set_carry_nil v0 [l] hc0, htail]
    simp only [Res.cons, hxe, ↓reduceIte, hx0]
    have hd : (t :: c1 :: x :: rest).drop ([l, t].length + (1 + 0) - [l].length) = x :: rest := by simp
    rw [hd, advanceLoop_fuel ((t :: c1 :: x :: rest).length + 1) (([l] ++ t :: c1 :: x :: rest).length + 1) v0
      (x :: rest) (by simp) (by simp)]
  · simp

/-- one Ground iteration at an ESC byte: the automaton goes to Escape, nothing is dispatched -/
theorem loop_esc (v0 : Vte) (s : List Nat) (F : Nat) (hg : v0.state = .ground) (hF : (0x1B :: s).length < F) :
    Vte.advanceLoop F v0 (0x1B :: s) = Vte.advanceLoop F ({ v0.resetParams with state := .escape }) s := by
  obtain ⟨F', rfl⟩ := fuel_pos hF
  rw [advanceLoop_ground_cons F' v0 0x1B s hg]
  have hG2 : v0.advanceGround (0x1B :: s) = ({ v0.resetParams with state := .escape }, [], 1) := by
    unfold Vte.advanceGround
    simp [findIdx_esc_cons]
  rw [hG2]
  simp only [List.drop_succ_cons, List.drop_zero, List.nil_append]
  rw [advanceLoop_fuel F' (F' + 1) _ s (by simp at hF; omega) (by simp at hF; omega)]

/-- **F10 when the lost byte is ESC**: the unsplit run enters the Escape state and parses `x :: rest` as the body
of an escape sequence; the split run never sees the ESC and parses the same bytes as Ground text. -/
theorem cut_loses_esc (v : Vte) (a : List Nat) (l t x : Nat) (rest : List Nat) (hc : v.carry = [])
    (hk : (v.advance a).1.carry = [l]) (hl1 : 0xC2 ≤ l) (hl2 : l ≤ 0xDF) (ht : isCont t = true) (hx : 0x80 ≤ x) :
    ∃ (v0 : Vte) (A : List Action) (F : Nat), v0.state = .ground ∧ v0.carry = [] ∧ (x :: rest).length < F ∧
      v.advance (a ++ t :: 0x1B :: x :: rest) =
        ((Vte.advanceLoop F ({ v0.resetParams with state := .escape }) (x :: rest)).1,
          A ++ Vte.groundDispatch [(l - 0xC0) * 64 + (t - 0x80)] ++
            (Vte.advanceLoop F ({ v0.resetParams with state := .escape }) (x :: rest)).2) ∧
      ((v.advance a).1.advance (t :: 0x1B :: x :: rest)).1 = (Vte.advanceLoop F v0 (x :: rest)).1 ∧
      (v.advance a).2 ++ ((v.advance a).1.advance (t :: 0x1B :: x :: rest)).2 =
        A ++ .print ((l - 0xC0) * 64 + (t - 0x80)) :: (Vte.advanceLoop F v0 (x :: rest)).2 := by
  obtain ⟨v0, A, F, h1, h2, h3, h4, h5, h6⟩ := cut_loses_exact v a l t 0x1B x rest hc hk hl1 hl2 ht (by omega) hx
  refine ⟨v0, A, F, h1, h2, by simp at h3 ⊢; omega, ?_, h5, h6⟩
  rw [h4, loop_esc v0 (x :: rest) F h1 h3]

/-! ### 9. non-vacuity (kernel-evaluated) -/

/-- a non-losing cut inside a 3-byte character ("a一A" cut after E4, and after E4 B8): the carry is non-empty
and `WindowLoses` is false, so `process_append_cut` applies -/
example :
    ((Vte.new.advance [0x61, 0xE4]).1.carry = [0xE4] ∧ WindowLoses [0xE4] [0xB8, 0x80, 0x41] = false) ∧
    ((Vte.new.advance [0x61, 0xE4, 0xB8]).1.carry = [0xE4, 0xB8] ∧ WindowLoses [0xE4, 0xB8] [0x80, 0x41] = false) := by
  decide +kernel

/-- non-losing cuts inside a 4-byte character (U+1F600 = F0 9F 98 80), after 1, 2 and 3 bytes; the last with a
following incomplete lead byte in the window (window not valid as a whole, valid prefix = first character) -/
example :
    ((Vte.new.advance [0xF0]).1.carry = [0xF0] ∧ WindowLoses [0xF0] [0x9F, 0x98, 0x80, 0x41] = false) ∧
    ((Vte.new.advance [0xF0, 0x9F]).1.carry = [0xF0, 0x9F] ∧ WindowLoses [0xF0, 0x9F] [0x98, 0x80, 0x41] = false) ∧
    ((Vte.new.advance [0xF0, 0x9F, 0x98]).1.carry = [0xF0, 0x9F, 0x98] ∧
      WindowLoses [0xF0, 0x9F, 0x98] [0x80, 0xC3] = false) := by
  decide +kernel

/-- "C3 | A9 41 41" is FINE: the window `C3 A9 41 41` holds a second and a third complete character but is valid
as a whole (vte then consumes only the first character); likewise a 3-byte character followed by a truncated
one ("E4 | B8 80 C3": valid prefix = the first character) and a too-short chunk ("E4 | B8") -/
example :
    WindowLoses [0xC3] [0xA9, 0x41, 0x41] = false ∧ WindowLoses [0xE4] [0xB8, 0x80, 0xC3] = false ∧
    WindowLoses [0xE4] [0xB8] = false ∧ WindowLoses [0xC3] [0x41] = false := by
  decide +kernel

/-- the F10 witnesses are losing cuts: "C3 | A9 41 C3 A9" (no invalid byte needed) and "C2 | 85 7A 8D" -/
example :
    ((Vte.new.advance [0xC3]).1.carry = [0xC3] ∧ WindowLoses [0xC3] [0xA9, 0x41, 0xC3, 0xA9] = true) ∧
    WindowLoses [0xC2] [0x85, 0x7A, 0x8D] = true ∧
    (∀ x ∈ [0xA9, 0x41, 0xC3, 0xA9].take (4 - 1), x ≠ 0x1B) ∧
    -- also with ESC as the lost byte
    WindowLoses [0xC3] [0xA9, 0x1B, 0xC3] = true := by
  decide +kernel

/-- the hypotheses of `process_chunks_cut` hold for "a一😀A" cut inside both multi-byte characters, one of the
chunks too short to complete the character; three of the four cuts leave a non-empty carry -/
example :
    (∀ i (hi : i < 5), WindowLoses
      (runVte Vte.new ([[0x61, 0xE4], [0xB8], [0x80, 0xF0, 0x9F], [0x98], [0x80, 0x41]].take i)).carry
      ([[0x61, 0xE4], [0xB8], [0x80, 0xF0, 0x9F], [0x98], [0x80, 0x41]][i]'hi) = false) ∧
    (runVte Vte.new [[0x61, 0xE4]]).carry ≠ [] ∧ (runVte Vte.new [[0x61, 0xE4], [0xB8]]).carry ≠ [] ∧
    (runVte Vte.new [[0x61, 0xE4], [0xB8], [0x80, 0xF0, 0x9F]]).carry ≠ [] := by
  decide +kernel

/-- test of the model at the `process` level: "C2 | 85" (action lists differ: `print` vs `execute`) and
"E4 | B8 | 80" give the same screen and events split or not, whereas the F10 witness "C3 | A9 41 C3 A9" does not -/
theorem process_cut_examples : isOkTrue (do
    let p ← Parser.new 2 10 0
    let a1 ← p.process W0 cbNone [0xC2, 0x85]
    let b1 ← p.process W0 cbNone [0xC2]
    let b1 ← b1.process W0 cbNone [0x85]
    let a2 ← p.process W0 cbNone [0xE4, 0xB8, 0x80]
    let b2 ← p.process W0 cbNone [0xE4]
    let b2 ← b2.process W0 cbNone [0xB8]
    let b2 ← b2.process W0 cbNone [0x80]
    let a3 ← p.process W0 cbNone [0xC3, 0xA9, 0x41, 0xC3, 0xA9]
    let b3 ← p.process W0 cbNone [0xC3]
    let b3 ← b3.process W0 cbNone [0xA9, 0x41, 0xC3, 0xA9]
    pure (decide (a1 = b1) && decide (a2 = b2) && !decide (a3.ws = b3.ws))) = true := by
  decide +kernel
end Vt.C04cut

/-
-/
