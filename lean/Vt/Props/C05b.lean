/-
  C05 (continued) — printing a character of width 1 or 2 that fits on the line: the exact result, cell by cell,
  on EVERY well-formed line (wide characters under or next to the cursor included).

  `printedCell` is the positional closed form of the cell writes of `Screen::text` (after `col_wrap`):
    * the cell at the cursor becomes the character with exactly the pen;
    * printing a wide character makes the next cell its (blank, default-attribute) second half;
    * overwriting the second half of a wide character blanks its first half (with the pen);
    * overwriting the first half of a wide character with a narrow one turns its second half into a space
      (with the pen);
    * a wide character printed over the cell before another wide character blanks that one's second half
      (with the pen) — and clears the line's wrap flag when that cell is the last column;
    * NO other cell changes.
  `textWideRow_spec` proves the loop-free model function equals this closed form for every well-formed line,
  `text_fits_spec` lifts it to the grid: nothing but the cursor line and the cursor column changes.
-/
import Vt.Lemmas.TextInv
import Vt.Props.C05
import Vt.Props.C08
import Vt.Props.C12
namespace Vt.C05
open Vt
set_option linter.unusedSimpArgs false

variable (W : Nat → Option Nat)

/-- what `Cell::set(c, a)` stores (the bytes beyond the new character are stale) -/
def setCell (x : Cell) (c : Nat) (a : Attrs) : Cell :=
  { contents := Utf8.encode c ++ x.contents.drop (Utf8.encode c).length,
    len := (Utf8.encode c).length, wide := decide ((W c).getD 1 > 1), cont := false, attrs := a }

/-- the blank second half of a wide character -/
def contOf (x : Cell) : Cell := (x.clear Attrs.default).setWideContinuation true

def flagAt (old : List Cell) (j : Nat) (f : Cell → Bool) : Bool := (old[j]?.map f).getD false

/-- the cell at column `j` after printing `c` (wide iff `wideCh`) at column `col` with pen `a` -/
def printedCell (old : List Cell) (col : Nat) (a : Attrs) (c : Nat) (wideCh : Bool) (j : Nat) (x : Cell) : Cell :=
  if j = col then setCell W x c a
  else if j + 1 = col ∧ flagAt old col (·.cont) = true then x.clear a
  else if j = col + 1 then
    (if wideCh then contOf else id) (if flagAt old col (·.wide) = true then setCell W x 32 a else x)
  else if j = col + 2 ∧ wideCh = true ∧ flagAt old col (·.wide) = false ∧ flagAt old (col + 1) (·.wide) = true then x.clear a
  else x

/-- the line after printing -/
def printedRow (r : Row) (col cols : Nat) (a : Attrs) (c : Nat) (wideCh : Bool) : Row :=
  { cells := r.cells.mapIdx (printedCell W r.cells col a c wideCh)
    wrapped := if wideCh = true ∧ flagAt r.cells col (·.wide) = false ∧ flagAt r.cells (col + 1) (·.wide) = true ∧
                  col + 3 = cols then false else r.wrapped }

theorem set_eq (x : Cell) (c : Nat) (a : Attrs) : x.set W c a = .ok (setCell W x c a) := by
  have := encode_length_le c
  exact cell_set_spec W x c a (by omega)

theorem eq_mapIdx {l l' : List Cell} {f : Nat → Cell → Cell} (hlen : l'.length = l.length)
    (h : ∀ j x, l[j]? = some x → l'[j]? = some (f j x)) : l' = l.mapIdx f := by
  apply List.ext_getElem?
  intro j
  rw [List.getElem?_mapIdx]
  cases hx : l[j]? with
  | none =>
    have : l.length ≤ j := by
      rcases Nat.lt_or_ge j l.length with hlt | hge
      · rw [List.getElem?_eq_getElem hlt] at hx; simp at hx
      · exact hge
    simp only [Option.map_none]
    exact List.getElem?_eq_none (by omega)
  | some x => simp only [Option.map_some]; exact h j x hx

theorem wrap_ite (r : Row) (c : Prop) [Decidable c] :
    (if c then (pure (r.wrap false) : M Row) else pure r) = pure { r with wrapped := if c then false else r.wrapped } := by
  split <;> rfl

variable {W}

/-- **the cell writes of printing, on every well-formed line** -/
theorem textWideRow_spec {row : Row} {col cols : Nat} (hinv : CellsInv W row.cells) (hlen : row.cells.length = cols)
    (hW32 : W 32 = some 1) (a : Attrs) (c w : Nat) (hw12 : w = 1 ∨ 2 ≤ w) (hfit : col + w ≤ cols) :
    Grid.textWideRow W row col cols a c w = .ok (printedRow W row col cols a c (decide (w > 1))) := by
  obtain ⟨cs, wr⟩ := row
  simp only at hinv hlen
  have hcol : col < cs.length := by omega
  have hc0 := List.getElem?_eq_getElem hcol
  generalize cs[col] = c0 at hc0
  have hc0ok := hinv.cells_ok c0 (List.mem_of_getElem? hc0)
  have hsp : decide ((W 32).getD 1 > 1) = false := by rw [hW32]; rfl
  have hfl0c : flagAt cs col (·.cont) = c0.cont := by simp [flagAt, hc0]
  have hfl0w : flagAt cs col (·.wide) = c0.wide := by simp [flagAt, hc0]
  by_cases hcont : c0.cont = true
  · -- the cursor is on the second half of a wide character
    obtain ⟨j0, pv, rfl, hpv, hpvw⟩ := paired_cont_prev hc0 hinv.paired hcont
    obtain ⟨hc0w, _⟩ := cellOk_cont W c0 hc0ok hcont
    have hj0 : j0 < cs.length := by omega
    rcases hw12 with h1 | h2
    · -- narrow character
      subst h1
      simp only [Grid.textWideRow, getM, hc0, pure_bind', ok_bind, Cell.isWideContinuation, hcont, ↓reduceIte,
        subM_ok (show 1 ≤ j0 + 1 by omega), Nat.add_sub_cancel, modifyM, hpv, pure_eq_ok, List.getElem?_set,
        show ¬ j0 = j0 + 1 by omega, Cell.isWide, hc0w, Bool.false_eq_true, set_eq, List.length_set, hcol,
        show ¬ (1 > 1) by omega, Except.ok.injEq]
      simp only [printedRow, decide_false, Bool.false_eq_true, false_and, ↓reduceIte, Row.mk.injEq, and_true]
      refine eq_mapIdx (by simp) ?_
      intro j x hx
      have hjl := getElem?_lt hx
      simp only [List.getElem?_set, List.length_set, printedCell, hfl0c, hfl0w, hcont, hc0w, Bool.false_eq_true]
      by_cases e1 : j = j0 + 1
      · subst e1
        rw [hc0] at hx; cases hx
        simp [hcol]
      · by_cases e2 : j = j0
        · subst e2
          rw [hpv] at hx; cases hx
          simp [hj0, show ¬ (j = j + 1) by omega]
        · simp [e1, e2, hx, show ¬ (j0 + 1 = j) by omega, show ¬ (j0 = j) by omega, show ¬ (j + 1 = j0 + 1) by omega]
    · -- wide character
      have hgt : w > 1 := by omega
      have hc2l : j0 + 1 + 1 < cs.length := by omega
      have hc2 := List.getElem?_eq_getElem hc2l
      generalize cs[j0 + 1 + 1] = c2 at hc2
      have hfl1w : flagAt cs (j0 + 1 + 1) (·.wide) = c2.wide := by simp [flagAt, hc2]
      by_cases hc2w : c2.wide = true
      · obtain ⟨c3, hc3, _⟩ := paired_wide_next hc2 hinv.paired hc2w
        have hc3l := getElem?_lt hc3
        simp only [Grid.textWideRow, getM, hc0, pure_bind', ok_bind, Cell.isWideContinuation, hcont, ↓reduceIte,
          subM_ok (show 1 ≤ j0 + 1 by omega), Nat.add_sub_cancel, modifyM, hpv, pure_eq_ok, List.getElem?_set,
          show ¬ j0 = j0 + 1 by omega, Cell.isWide, hc0w, Bool.false_eq_true, set_eq, List.length_set, hcol,
          hgt, hc2, show ¬ j0 = j0 + 1 + 1 by omega, show ¬ j0 + 1 = j0 + 1 + 1 by omega, hc2w, hc3,
          show ¬ j0 = j0 + 1 + 2 by omega, show ¬ j0 + 1 = j0 + 1 + 2 by omega, hc2l,
          show ¬ j0 + 1 + 2 = j0 + 1 + 1 by omega]
        have key : (((cs.set j0 (pv.clear a)).set (j0 + 1) (setCell W c0 c a)).set (j0 + 1 + 2) (c3.clear a)).set (j0 + 1 + 1)
            ((c2.clear Attrs.default).setWideContinuation true) = List.mapIdx (printedCell W cs (j0 + 1) a c true) cs := by
          refine eq_mapIdx (by simp) ?_
          intro j x hx
          simp only [List.getElem?_set, List.length_set, printedCell, hfl0c, hfl0w, hfl1w, hcont, hc0w, hc2w]
          by_cases e1 : j = j0
          · subst e1; rw [hpv] at hx; cases hx
            simp [hj0, show ¬ (j = j + 1) by omega, show ¬ (j + 1 + 1 = j) by omega, show ¬ (j + 1 + 2 = j) by omega,
              show ¬ (j = j + 1 + 1) by omega, show ¬ (j = j + 1 + 2) by omega]
          · by_cases e2 : j = j0 + 1
            · subst e2; rw [hc0] at hx; cases hx
              simp [hcol]
            · by_cases e3 : j = j0 + 1 + 1
              · subst e3; rw [hc2] at hx; cases hx
                simp [hc2l, contOf, show ¬ (j0 + 1 + 2 = j0 + 1 + 1) by omega, show ¬ (j0 + 1 + 1 = j0) by omega]
              · by_cases e4 : j = j0 + 1 + 2
                · subst e4; rw [hc3] at hx; cases hx
                  simp [hc3l, show ¬ (j0 + 1 + 1 = j0 + 1 + 2) by omega, show ¬ (j0 + 1 + 2 = j0) by omega]
                · simp [e1, e2, e3, e4, hx, show ¬ (j0 + 1 + 1 = j) by omega, show ¬ (j0 + 1 + 2 = j) by omega,
                    show ¬ (j0 + 1 = j) by omega, show ¬ (j0 = j) by omega, show ¬ (j + 1 = j0 + 1) by omega]
        simp only [printedRow, decide_true, hfl0w, hc0w, hfl1w, hc2w, true_and, decide_eq_true_eq, hgt]
        by_cases hl : j0 + 1 + 2 + 1 = cols
        · simp only [hl, beq_self_eq_true, ↓reduceIte, Row.wrap, modifyM, List.getElem?_set,
            show ¬ j0 + 1 + 2 = j0 + 1 + 1 by omega, show ¬ j0 + 1 = j0 + 1 + 1 by omega, show ¬ j0 = j0 + 1 + 1 by omega,
            hc2, ok_bind, pure_eq_ok, pure_bind', key, show j0 + 1 + 3 = cols by omega]
        · have hl' : (j0 + 1 + 2 + 1 == cols) = false := by simpa using hl
          simp only [hl', Bool.false_eq_true, ↓reduceIte, modifyM, List.getElem?_set,
            show ¬ j0 + 1 + 2 = j0 + 1 + 1 by omega, show ¬ j0 + 1 = j0 + 1 + 1 by omega, show ¬ j0 = j0 + 1 + 1 by omega,
            hc2, ok_bind, pure_eq_ok, pure_bind', key, show ¬ j0 + 1 + 3 = cols by omega]
      · -- the next cell is not wide
        have hc2w' : c2.wide = false := by simpa using hc2w
        have key : ((cs.set j0 (pv.clear a)).set (j0 + 1) (setCell W c0 c a)).set (j0 + 1 + 1)
            ((c2.clear Attrs.default).setWideContinuation true) = List.mapIdx (printedCell W cs (j0 + 1) a c true) cs := by
          refine eq_mapIdx (by simp) ?_
          intro j x hx
          simp only [List.getElem?_set, List.length_set, printedCell, hfl0c, hfl0w, hfl1w, hcont, hc0w, hc2w']
          by_cases e1 : j = j0
          · subst e1; rw [hpv] at hx; cases hx
            simp [hj0, show ¬ (j = j + 1) by omega, show ¬ (j + 1 + 1 = j) by omega, show ¬ (j = j + 1 + 1) by omega]
          · by_cases e2 : j = j0 + 1
            · subst e2; rw [hc0] at hx; cases hx
              simp [hcol]
            · by_cases e3 : j = j0 + 1 + 1
              · subst e3; rw [hc2] at hx; cases hx
                simp [hc2l, contOf, show ¬ (j0 + 1 + 1 = j0) by omega]
              · simp [e1, e2, e3, hx, show ¬ (j0 + 1 + 1 = j) by omega,
                  show ¬ (j0 + 1 = j) by omega, show ¬ (j0 = j) by omega, show ¬ (j + 1 = j0 + 1) by omega]
        simp only [Grid.textWideRow, getM, hc0, pure_bind', ok_bind, Cell.isWideContinuation, hcont, ↓reduceIte,
          subM_ok (show 1 ≤ j0 + 1 by omega), Nat.add_sub_cancel, modifyM, hpv, pure_eq_ok, List.getElem?_set,
          show ¬ j0 = j0 + 1 by omega, Cell.isWide, hc0w, Bool.false_eq_true, set_eq, List.length_set, hcol,
          hgt, hc2, show ¬ j0 = j0 + 1 + 1 by omega, show ¬ j0 + 1 = j0 + 1 + 1 by omega, hc2w', key,
          printedRow, decide_true, hfl0w, hfl1w, and_false, false_and]
  · have hcont' : c0.cont = false := by simpa using hcont
    by_cases hwide : c0.wide = true
    · -- the cursor is on the first half of a wide character: its second half becomes a space
      obtain ⟨c1, hc1, hc1c⟩ := paired_wide_next hc0 hinv.paired hwide
      have hc1l := getElem?_lt hc1
      have hspw : (setCell W c1 32 a).wide = false := by simp [setCell, hsp]
      rcases hw12 with h1 | h2
      · subst h1
        have key : (cs.set (col + 1) (setCell W c1 32 a)).set col (setCell W c0 c a) =
            List.mapIdx (printedCell W cs col a c false) cs := by
          refine eq_mapIdx (by simp) ?_
          intro j x hx
          simp only [List.getElem?_set, List.length_set, printedCell, hfl0c, hfl0w, hcont', hwide]
          by_cases e1 : j = col
          · subst e1; rw [hc0] at hx; cases hx
            simp [hcol]
          · by_cases e2 : j = col + 1
            · subst e2; rw [hc1] at hx; cases hx
              simp [hc1l, show ¬ (col = col + 1) by omega]
            · simp [e1, e2, hx, show ¬ (col = j) by omega, show ¬ (col + 1 = j) by omega]
        simp only [Grid.textWideRow, getM, hc0, pure_bind', ok_bind, Cell.isWideContinuation, hcont', Bool.false_eq_true,
          ↓reduceIte, Cell.isWide, hwide, modifyM, hc1, set_eq, pure_eq_ok, List.getElem?_set,
          show ¬ col + 1 = col by omega, show ¬ (1 > 1) by omega, key, printedRow, decide_false, false_and]
      · have hgt : w > 1 := by omega
        have key : ((cs.set (col + 1) (setCell W c1 32 a)).set col (setCell W c0 c a)).set (col + 1)
            (((setCell W c1 32 a).clear Attrs.default).setWideContinuation true) =
            List.mapIdx (printedCell W cs col a c true) cs := by
          refine eq_mapIdx (by simp) ?_
          intro j x hx
          simp only [List.getElem?_set, List.length_set, printedCell, hfl0c, hfl0w, hcont', hwide]
          by_cases e1 : j = col
          · subst e1; rw [hc0] at hx; cases hx
            simp [hcol, show ¬ (j + 1 = j) by omega]
          · by_cases e2 : j = col + 1
            · subst e2; rw [hc1] at hx; cases hx
              simp [hc1l, contOf, show ¬ (col = col + 1) by omega]
            · simp [e1, e2, hx, show ¬ (col = j) by omega, show ¬ (col + 1 = j) by omega]
        simp only [Grid.textWideRow, getM, hc0, pure_bind', ok_bind, Cell.isWideContinuation, hcont', Bool.false_eq_true,
          ↓reduceIte, Cell.isWide, hwide, modifyM, hc1, set_eq, pure_eq_ok, List.getElem?_set, List.length_set,
          show ¬ col + 1 = col by omega, show ¬ col = col + 1 by omega, hgt, hc1l, hspw, key, printedRow, decide_true,
          hfl0w, true_and, and_false, false_and, hcol, hwide, Bool.true_eq_false]
    · -- a plain cell under the cursor
      have hwide' : c0.wide = false := by simpa using hwide
      rcases hw12 with h1 | h2
      · subst h1
        have key : cs.set col (setCell W c0 c a) = List.mapIdx (printedCell W cs col a c false) cs := by
          refine eq_mapIdx (by simp) ?_
          intro j x hx
          simp only [List.getElem?_set, List.length_set, printedCell, hfl0c, hfl0w, hcont', hwide']
          by_cases e1 : j = col
          · subst e1; rw [hc0] at hx; cases hx
            simp [hcol]
          · simp [e1, hx, show ¬ (col = j) by omega]
        simp only [Grid.textWideRow, getM, hc0, pure_bind', ok_bind, Cell.isWideContinuation, hcont', Bool.false_eq_true,
          ↓reduceIte, Cell.isWide, hwide', modifyM, set_eq, pure_eq_ok, show ¬ (1 > 1) by omega, key, printedRow,
          decide_false, false_and]
      · have hgt : w > 1 := by omega
        have hc2l : col + 1 < cs.length := by omega
        have hc2 := List.getElem?_eq_getElem hc2l
        generalize cs[col + 1] = c2 at hc2
        have hfl1w : flagAt cs (col + 1) (·.wide) = c2.wide := by simp [flagAt, hc2]
        by_cases hc2w : c2.wide = true
        · obtain ⟨c3, hc3, _⟩ := paired_wide_next hc2 hinv.paired hc2w
          have hc3l := getElem?_lt hc3
          have key : ((cs.set col (setCell W c0 c a)).set (col + 2) (c3.clear a)).set (col + 1)
              ((c2.clear Attrs.default).setWideContinuation true) = List.mapIdx (printedCell W cs col a c true) cs := by
            refine eq_mapIdx (by simp) ?_
            intro j x hx
            simp only [List.getElem?_set, List.length_set, printedCell, hfl0c, hfl0w, hfl1w, hcont', hwide', hc2w]
            by_cases e1 : j = col
            · subst e1; rw [hc0] at hx; cases hx
              simp [hcol, show ¬ (j + 1 = j) by omega, show ¬ (j + 2 = j) by omega]
            · by_cases e2 : j = col + 1
              · subst e2; rw [hc2] at hx; cases hx
                simp [hc2l, contOf, show ¬ (col + 2 = col + 1) by omega]
              · by_cases e3 : j = col + 2
                · subst e3; rw [hc3] at hx; cases hx
                  simp [hc3l, show ¬ (col + 1 = col + 2) by omega]
                · simp [e1, e2, e3, hx, show ¬ (col = j) by omega, show ¬ (col + 1 = j) by omega, show ¬ (col + 2 = j) by omega]
          simp only [printedRow, decide_true, hfl0w, hwide', hfl1w, hc2w, true_and, decide_eq_true_eq, hgt]
          by_cases hl : col + 2 + 1 = cols
          · simp only [Grid.textWideRow, getM, hc0, pure_bind', ok_bind, Cell.isWideContinuation, hcont', Bool.false_eq_true,
              ↓reduceIte, Cell.isWide, hwide', modifyM, set_eq, pure_eq_ok, hgt, List.getElem?_set, List.length_set, hcol,
              show ¬ col = col + 1 by omega, hc2, hc2w, show ¬ col = col + 2 by omega, hc3, hl, beq_self_eq_true, Row.wrap,
              show ¬ col + 2 = col + 1 by omega, key, show col + 3 = cols by omega]
          · have hl' : (col + 2 + 1 == cols) = false := by simpa using hl
            simp only [Grid.textWideRow, getM, hc0, pure_bind', ok_bind, Cell.isWideContinuation, hcont', Bool.false_eq_true,
              ↓reduceIte, Cell.isWide, hwide', modifyM, set_eq, pure_eq_ok, hgt, List.getElem?_set, List.length_set, hcol,
              show ¬ col = col + 1 by omega, hc2, hc2w, show ¬ col = col + 2 by omega, hc3, hl',
              show ¬ col + 2 = col + 1 by omega, key, show ¬ col + 3 = cols by omega]
        · have hc2w' : c2.wide = false := by simpa using hc2w
          have key : (cs.set col (setCell W c0 c a)).set (col + 1)
              ((c2.clear Attrs.default).setWideContinuation true) = List.mapIdx (printedCell W cs col a c true) cs := by
            refine eq_mapIdx (by simp) ?_
            intro j x hx
            simp only [List.getElem?_set, List.length_set, printedCell, hfl0c, hfl0w, hfl1w, hcont', hwide', hc2w']
            by_cases e1 : j = col
            · subst e1; rw [hc0] at hx; cases hx
              simp [hcol, show ¬ (j + 1 = j) by omega]
            · by_cases e2 : j = col + 1
              · subst e2; rw [hc2] at hx; cases hx
                simp [hc2l, contOf]
              · simp [e1, e2, hx, show ¬ (col = j) by omega, show ¬ (col + 1 = j) by omega]
          simp only [Grid.textWideRow, getM, hc0, pure_bind', ok_bind, Cell.isWideContinuation, hcont', Bool.false_eq_true,
            ↓reduceIte, Cell.isWide, hwide', modifyM, set_eq, pure_eq_ok, hgt, List.getElem?_set, List.length_set, hcol,
            show ¬ col = col + 1 by omega, hc2, hc2w', key, printedRow, decide_true, hfl0w, hfl1w, and_false, false_and]

/-- the effective width `Screen::text` works with: 0, 1 or 2 -/
def effWidth (W : Nat → Option Nat) (c : Nat) : Nat := min ((W c).getD 1) 2

/-- **C05, a character that fits**: on every grid satisfying the invariant, printing a character of non-zero
width with `col + w ≤ cols` rewrites the cursor line exactly as `printedRow` says, advances the cursor by `w`,
and changes nothing else (whole-record equality) -/
theorem text_fits_spec {g : Grid} (hinv : GridInv W g true) (hl : g.rows.length = g.size.rows) (hW32 : W 32 = some 1)
    (a : Attrs) (c : Nat) (hnc : ¬ (W c = none ∧ c < 256)) (hw1 : 1 ≤ effWidth W c)
    (hfit : g.pos.col + effWidth W c ≤ g.size.cols) :
    ∃ r, g.rows[g.pos.row]? = some r ∧
      g.text W a c = .ok { g with
        rows := g.rows.set g.pos.row (printedRow W r g.pos.col g.size.cols a c (decide (effWidth W c > 1)))
        pos := ⟨g.pos.row, g.pos.col + effWidth W c⟩ } := by
  have hrl : g.pos.row < g.rows.length := by rw [hl]; exact hinv.pos_row
  have hrow := List.getElem?_eq_getElem hrl
  generalize g.rows[g.pos.row] = r at hrow
  have hgood := hinv.row_ok r (List.mem_of_getElem? hrow)
  have hci := rowGood_cells W hgood
  refine ⟨r, hrow, ?_⟩
  have h1' : ((W c).isNone && decide (c < 256)) = false := by
    cases hn : (W c).isNone <;> simp_all
  unfold effWidth at hw1 hfit ⊢
  generalize hwv : min ((W c).getD 1) 2 = w at hw1 hfit ⊢
  have hw2 : w ≤ 2 := by rw [← hwv]; exact Nat.min_le_right _ _
  have hcw : w ≤ g.size.cols := by omega
  have hlim : ¬ g.pos.col > g.size.cols - w := by omega
  have hw0 : (w == 0) = false := by rw [beq_eq_false_iff_ne]; omega
  have hspec := textWideRow_spec hci hgood.1 hW32 a c w (by omega) hfit
  have hu := hinv.cols_u16
  simp only [Grid.text, h1', Bool.false_eq_true, ↓reduceIte, hwv, show ¬ (w > g.size.cols) by omega,
    Grid.wrapDecision, subM_ok hcw, ok_bind, hlim, pure_bind', pure_eq_ok, Grid.colWrap, hw0, Grid.textWide,
    Grid.modifyCurrentRow, modifyM, hrow, hspec]
  have hw12 : w = 1 ∨ w = 2 := by omega
  rcases hw12 with rfl | rfl
  · simp only [show ¬ (1 > 1) by omega, ↓reduceIte, Grid.colInc, satAddU16, U16_MAX]
    rw [show min (g.pos.col + 1) 65535 = g.pos.col + 1 by omega]
  · simp only [show (2 > 1) by omega, ↓reduceIte, Grid.colInc, satAddU16, U16_MAX]
    rw [show min (min (g.pos.col + 1) 65535 + 1) 65535 = g.pos.col + 2 by omega]

/-! ### a character that does not fit: the wrap -/

/-- is the last column of line `r` occupied (text, or the second half of a wide character) -/
def lastOccB (r : Row) : Bool := ((r.cells[r.cells.length - 1]?).map (fun c => c.hasContents || c.cont)).getD false

/-- the wrap decision: `true` exactly when the character does not fit and the last column is occupied -/
theorem wrapDecision_spec {g : Grid} (hinv : GridInv W g true) (hl : g.rows.length = g.size.rows) (w : Nat)
    (hw : w ≤ g.size.cols) :
    ∃ r, g.rows[g.pos.row]? = some r ∧
      g.wrapDecision w = .ok (decide (g.pos.col + w > g.size.cols) && lastOccB r) := by
  have hrl : g.pos.row < g.rows.length := by rw [hl]; exact hinv.pos_row
  have hrow := List.getElem?_eq_getElem hrl
  generalize g.rows[g.pos.row] = r at hrow
  have hlen := (hinv.row_ok r (List.mem_of_getElem? hrow)).1
  have hcp := hinv.cols_pos
  refine ⟨r, hrow, ?_⟩
  simp only [Grid.wrapDecision, subM_ok hw, ok_bind]
  by_cases hgt : g.pos.col > g.size.cols - w
  · have hcl : g.size.cols - 1 < r.cells.length := by omega
    simp only [hgt, ↓reduceIte, subM_ok hcp, ok_bind, Grid.drawingCellM, Grid.drawingCell, Grid.drawingRow, hrow,
      Option.bind_some, Row.get, List.getElem?_eq_getElem hcl, pure_bind', pure_eq_ok, Cell.isWideContinuation,
      Except.ok.injEq, lastOccB, hlen, Option.map_some, Option.getD_some]
    have : g.pos.col + w > g.size.cols := by omega
    simp [this]
  · have : ¬ g.pos.col + w > g.size.cols := by omega
    simp [hgt, this]

/-- **wrap with room below** (inside the scroll region above its bottom line, or outside it above the last line):
the cursor goes to column 0 of the next line, the line it left is flagged exactly as the decision says -/
theorem colWrap_room {g : Grid} (hinv : GridInv W g true) (hl : g.rows.length = g.size.rows) (w : Nat) (wrap : Bool)
    (hw : w ≤ g.size.cols) (hno : g.pos.col + w > g.size.cols)
    (hroom : g.pos.row + 1 ≤ (if g.inScrollRegion then g.scrollBottom else g.size.rows - 1)) :
    ∃ r, g.rows[g.pos.row]? = some r ∧
      g.colWrap w wrap = .ok { g with pos := ⟨g.pos.row + 1, 0⟩, rows := g.rows.set g.pos.row (r.wrap wrap) } := by
  have hrl : g.pos.row < g.rows.length := by rw [hl]; exact hinv.pos_row
  have hrow := List.getElem?_eq_getElem hrl
  generalize g.rows[g.pos.row] = r at hrow
  refine ⟨r, hrow, ?_⟩
  have hgt : g.pos.col > g.size.cols - w := by omega
  have hlf := C08.lf_inside ({ g with pos := { g.pos with col := 0 } } : Grid) hinv.rows_pos
    (by simpa [Grid.inScrollRegion] using hroom) (by have := hinv.rows_u16; have := hinv.pos_row; simp only; omega)
    (by have := hinv.region_le; have := hinv.region_lt; simp only; omega)
  simp only [Grid.colWrap, subM_ok hw, ok_bind, hgt, ↓reduceIte, hlf, Nat.lt_irrefl, decide_false, Bool.false_and,
    Bool.false_eq_true, Nat.sub_zero, subM_ok (Nat.zero_le _), modifyM, hrow, pure_bind', pure_eq_ok, beq_self_eq_true,
    Bool.and_true]

/-- **wrap on the last line when it lies outside the scroll region**: the cursor stays on the line, at column 0;
the line is not flagged -/
theorem colWrap_stay {g : Grid} (hinv : GridInv W g true) (hl : g.rows.length = g.size.rows) (w : Nat) (wrap : Bool)
    (hw : w ≤ g.size.cols) (hno : g.pos.col + w > g.size.cols) (hin : g.inScrollRegion = false)
    (hlast : g.pos.row = g.size.rows - 1) :
    ∃ r, g.rows[g.pos.row]? = some r ∧
      g.colWrap w wrap = .ok { g with pos := ⟨g.pos.row, 0⟩, rows := g.rows.set g.pos.row (r.wrap false) } := by
  have hrl : g.pos.row < g.rows.length := by rw [hl]; exact hinv.pos_row
  have hrow := List.getElem?_eq_getElem hrl
  generalize g.rows[g.pos.row] = r at hrow
  refine ⟨r, hrow, ?_⟩
  have hgt : g.pos.col > g.size.cols - w := by omega
  have hlf := C08.lf_last_line_outside ({ g with pos := { g.pos with col := 0 } } : Grid) hinv.rows_pos
    (by simpa [Grid.inScrollRegion] using hin) hlast hinv.rows_u16
  simp only [Grid.colWrap, subM_ok hw, ok_bind, hgt, ↓reduceIte, hlf, Nat.lt_irrefl, decide_false, Bool.false_and,
    Bool.false_eq_true, Nat.sub_zero, subM_ok (Nat.zero_le _), modifyM, hrow, pure_bind', pure_eq_ok,
    show (g.pos.row + 1 == g.pos.row) = false by rw [beq_eq_false_iff_ne]; omega, Bool.and_false]

/-- **after the wrap the character is printed as one that fits**: `text` on the grid equals `text` on the grid
`col_wrap` produces (whose cursor is in column 0) -/
theorem text_after_wrap {g g1 : Grid} (a : Attrs) (c : Nat) (hnc : ¬ (W c = none ∧ c < 256))
    (hwc : effWidth W c ≤ g.size.cols) {wrap : Bool} (hd : g.wrapDecision (effWidth W c) = .ok wrap)
    (hcw : g.colWrap (effWidth W c) wrap = .ok g1) (hsz : g1.size = g.size) (hcol : g1.pos.col + effWidth W c ≤ g1.size.cols) :
    g.text W a c = g1.text W a c := by
  have h1' : ((W c).isNone && decide (c < 256)) = false := by
    cases hn : (W c).isNone <;> simp_all
  unfold effWidth at hwc hd hcw hcol
  have hlim1 : ¬ g1.pos.col > g1.size.cols - min ((W c).getD 1) 2 := by omega
  have hnw : ¬ min ((W c).getD 1) 2 > g.size.cols := by omega
  have hnw1 : ¬ min ((W c).getD 1) 2 > g1.size.cols := by rw [hsz]; exact hnw
  have hwc1 : min ((W c).getD 1) 2 ≤ g1.size.cols := by omega
  have hd1 : g1.wrapDecision (min ((W c).getD 1) 2) = .ok false := by
    simp only [Grid.wrapDecision, subM_ok hwc1, ok_bind, hlim1, ↓reduceIte, pure_eq_ok]
  have hc1 : g1.colWrap (min ((W c).getD 1) 2) false = .ok g1 := by
    simp only [Grid.colWrap, subM_ok hwc1, ok_bind, hlim1, ↓reduceIte, pure_eq_ok]
  simp only [Grid.text, h1', Bool.false_eq_true, ↓reduceIte, hnw, hnw1, hd, ok_bind, hcw, hd1, hc1]


/-- one scroll step: the line above the bottom of the region is the old bottom line -/
theorem scrollUp_one_prev' {g g' : Grid} (hb : g.scrollBottom < g.rows.length) (ht : g.scrollTop < g.scrollBottom)
    (e : C12.scrollUpStep g = .ok g') : g'.rows[g.scrollBottom - 1]? = g.rows[g.scrollBottom]? := by
  simp only [C12.scrollUpStep] at e
  obtain ⟨rows1, h1, e⟩ := bind_eq_ok.mp e
  obtain ⟨⟨removed, rows2⟩, h2, e⟩ := bind_eq_ok.mp e
  have hr1 : rows1 = g.rows.take (g.scrollBottom + 1) ++ g.newRow :: g.rows.drop (g.scrollBottom + 1) := by
    unfold insertM at h1
    split at h1
    · simp only [pure_eq_ok, Except.ok.injEq] at h1; exact h1.symm
    · simp [panic] at h1
  have hr2 : rows2 = rows1.eraseIdx g.scrollTop := by
    unfold removeM at h2
    cases hc : rows1[g.scrollTop]? with
    | none => rw [hc] at h2; simp [panic] at h2
    | some z =>
      rw [hc] at h2
      simp only [pure_eq_ok, Except.ok.injEq, Prod.mk.injEq] at h2
      exact h2.2.symm
  have hrows : rows2[g.scrollBottom - 1]? = g.rows[g.scrollBottom]? := by
    rw [hr2, List.getElem?_eraseIdx_of_ge (by omega), show g.scrollBottom - 1 + 1 = g.scrollBottom by omega, hr1]
    rw [List.getElem?_append_left (by simp [List.length_take]; omega)]
    rw [List.getElem?_take_of_lt (by omega)]
  simp only at e
  split at e
  · obtain ⟨active, _, e⟩ := bind_eq_ok.mp e
    split at e <;> (simp only [pure_eq_ok, Except.ok.injEq] at e; rw [← e]; exact hrows)
  · simp only [pure_eq_ok, Except.ok.injEq] at e
    rw [← e]; exact hrows

set_option maxRecDepth 8192 in
/-- **wrap on the bottom line of the scroll region**: the region scrolls by one line (`scrollUpStep`: the top line
of the region goes — into the scrollback when the region is the whole screen), the cursor stays on the bottom
line at column 0, and the line the cursor left — now one line up — is flagged as the decision says; with a
one-line region the line has scrolled away and nothing is flagged (fix 25f9fd6) -/
theorem colWrap_scroll {g : Grid} (hinv : GridInv W g true) (hl : g.rows.length = g.size.rows) (w : Nat) (wrap : Bool)
    (hw : w ≤ g.size.cols) (hno : g.pos.col + w > g.size.cols) (hin : g.inScrollRegion = true)
    (hbot : g.pos.row = g.scrollBottom) :
    ∃ g1, C12.scrollUpStep ({ g with pos := ⟨g.pos.row, 0⟩ } : Grid) = .ok g1 ∧
      (g.scrollTop = g.scrollBottom → g.colWrap w wrap = .ok g1) ∧
      (g.scrollTop < g.scrollBottom → ∃ r, g1.rows[g.scrollBottom - 1]? = some r ∧ g.rows[g.pos.row]? = some r ∧
        g.colWrap w wrap = .ok { g1 with rows := g1.rows.set (g.scrollBottom - 1) (r.wrap wrap) }) := by
  have hpr := hinv.pos_row; have hrl := hinv.region_lt; have hrle := hinv.region_le; have hrp := hinv.rows_pos
  have hu := hinv.rows_u16
  have hgt : g.pos.col > g.size.cols - w := by omega
  -- row_inc_scroll(1) at the bottom of the region is one scroll step
  have hinc : ∀ g1, C12.scrollUpStep ({ g with pos := ⟨g.pos.row, 0⟩ } : Grid) = .ok g1 →
      ({ g with pos := ⟨g.pos.row, 0⟩ } : Grid).rowIncScroll 1 = .ok (g1, 1) := by
    intro g1 h1
    simp only [Grid.rowIncScroll]
    rw [rowClampBottom_spec _ _ (by simpa using hrp)]
    have hin' : ({ g with pos := ⟨g.pos.row, 0⟩ } : Grid).inScrollRegion = true := hin
    simp only [ok_bind, satAddU16, U16_MAX, hin', ↓reduceIte]
    have a1 : min (g.pos.row + 1) 65535 = g.pos.row + 1 := Nat.min_eq_left (Nat.le_trans (Nat.succ_le_of_lt hpr) hu)
    have e1 : min (min (g.pos.row + 1) 65535) g.scrollBottom = g.pos.row := by
      rw [a1, hbot]; exact Nat.min_eq_right (Nat.le_succ _)
    have e2 : min (g.pos.row + 1) 65535 - g.scrollBottom = 1 := by
      rw [a1, hbot]; exact Nat.add_sub_cancel_left ..
    simp only [e1, e2]
    rw [C12.scrollUp_eq_iterate]
    simp only [subM_ok (show g.scrollTop ≤ g.size.rows by clear hu a1; omega), ok_bind,
      show min 1 (g.size.rows - g.scrollTop) = 1 by clear hu a1; omega, iterateM, h1, pure_eq_ok]
  -- the step itself never fails
  have hstep : ∃ g1, C12.scrollUpStep ({ g with pos := ⟨g.pos.row, 0⟩ } : Grid) = .ok g1 := by
    have hinv0 : GridInv W ({ g with pos := { g.pos with col := 0 } } : Grid) true :=
      (stepOk_pos W hinv hl ⟨g.pos.row, 0⟩ hinv.pos_row (Nat.zero_le _)).inv
    obtain ⟨g', n, e, _⟩ := rowIncScroll_ok hinv0 hl
    simp only [Grid.rowIncScroll] at e
    rw [rowClampBottom_spec _ _ (by simpa using hrp)] at e
    have hin' : ({ g with pos := { g.pos with col := 0 } } : Grid).inScrollRegion = true := hin
    simp only [ok_bind, satAddU16, U16_MAX, hin', ↓reduceIte] at e
    have a1 : min (g.pos.row + 1) 65535 = g.pos.row + 1 := Nat.min_eq_left (Nat.le_trans (Nat.succ_le_of_lt hpr) hu)
    have e1 : min (min (g.pos.row + 1) 65535) g.scrollBottom = g.pos.row := by
      rw [a1, hbot]; exact Nat.min_eq_right (Nat.le_succ _)
    have e2 : min (g.pos.row + 1) 65535 - g.scrollBottom = 1 := by
      rw [a1, hbot]; exact Nat.add_sub_cancel_left ..
    simp only [e1, e2] at e
    rw [C12.scrollUp_eq_iterate] at e
    simp only [subM_ok (show g.scrollTop ≤ g.size.rows by clear hu a1; omega), ok_bind,
      show min 1 (g.size.rows - g.scrollTop) = 1 by clear hu a1; omega, iterateM] at e
    obtain ⟨g2, h2, _⟩ := bind_eq_ok.mp e
    obtain ⟨g3, h3, _⟩ := bind_eq_ok.mp h2
    exact ⟨g3, h3⟩
  obtain ⟨g1, h1⟩ := hstep
  have hi := hinc g1 h1
  -- the step keeps the margins and the cursor
  have hframe : g1.scrollTop = g.scrollTop ∧ g1.scrollBottom = g.scrollBottom ∧ g1.pos = ⟨g.pos.row, 0⟩ := by
    simp only [C12.scrollUpStep] at h1
    obtain ⟨rows1, _, h1⟩ := bind_eq_ok.mp h1
    obtain ⟨⟨removed, rows2⟩, _, h1⟩ := bind_eq_ok.mp h1
    simp only at h1
    split at h1
    · obtain ⟨active, _, h1⟩ := bind_eq_ok.mp h1
      split at h1 <;> (simp only [pure_eq_ok, Except.ok.injEq] at h1; rw [← h1]; exact ⟨rfl, rfl, rfl⟩)
    · simp only [pure_eq_ok, Except.ok.injEq] at h1
      rw [← h1]; exact ⟨rfl, rfl, rfl⟩
  refine ⟨g1, h1, ?_, ?_⟩
  · intro htb
    simp only [Grid.colWrap, subM_ok hw, ok_bind, hgt, ↓reduceIte]
    rw [hi]
    simp only [ok_bind, hframe.1, hframe.2.1, htb, beq_self_eq_true,
      show (1 : Nat) > 0 by omega, decide_true, Bool.and_self, ↓reduceIte, pure_eq_ok]
  · intro htb
    have hprev := scrollUp_one_prev' (g := { g with pos := ⟨g.pos.row, 0⟩ }) (by simp only; omega) htb h1
    simp only at hprev
    have hrl' : g.pos.row < g.rows.length := by rw [hl]; exact hpr
    refine ⟨g.rows[g.pos.row], by rw [hprev, ← hbot]; exact List.getElem?_eq_getElem hrl', List.getElem?_eq_getElem hrl', ?_⟩
    have hne : (g1.scrollTop == g1.scrollBottom) = false := by
      rw [hframe.1, hframe.2.1, beq_eq_false_iff_ne]; omega
    have hg1row : g1.rows[g.scrollBottom - 1]? = some g.rows[g.pos.row] := by
      rw [hprev, ← hbot]; exact List.getElem?_eq_getElem hrl'
    simp only [Grid.colWrap, subM_ok hw, ok_bind, hgt, ↓reduceIte]
    rw [hi]
    have hbl : g.scrollBottom < g.rows.length := by rw [← hbot]; exact hrl'
    simp only [ok_bind, hne, Bool.and_false, Bool.false_eq_true, ↓reduceIte,
      subM_ok (show 1 ≤ g.scrollBottom by clear hu; omega), hbot, modifyM, hprev, List.getElem?_eq_getElem hbl,
      pure_bind', pure_eq_ok, hframe.2.2,
      show g.scrollBottom - 1 + 1 = g.scrollBottom by clear hu; omega, beq_self_eq_true, Bool.and_true]

/-! ### zero-width characters -/

/-- `Cell::append(z)` as a total function: a full cell (18 bytes or more) is left alone; an empty cell gets a
space placeholder first -/
def appendCell (cell : Cell) (z : Nat) : Cell :=
  if cell.len ≥ 18 then cell
  else if cell.len = 0 then appendEmptyResult cell z
  else appendResult cell z

theorem append_eq {cell : Cell} (hl : cell.contents.length = 22) (z : Nat) : cell.append z = .ok (appendCell cell z) := by
  have hn := encode_length_le z
  unfold Cell.append appendCell
  by_cases hfull : cell.len ≥ CONTENT_BYTES - 4
  · simp only [hfull, ↓reduceIte, pure_eq_ok]
    simp only [CONTENT_BYTES] at hfull
    rw [if_pos hfull]
  · simp only [hfull, ↓reduceIte]
    simp only [CONTENT_BYTES] at hfull
    rw [if_neg hfull]
    by_cases hz0 : cell.len = 0
    · have h1 : List.take 1 (cell.contents.set 0 32) = [32] := by
        cases hc : cell.contents with
        | nil => simp [hc] at hl
        | cons x xs => simp
      simp [hz0, Cell.appendChar, CONTENT_BYTES, show 1 + (Utf8.encode z).length ≤ 22 by omega, h1, appendEmptyResult]
    · have hz0' : (cell.len == 0) = false := by simpa using hz0
      simp [hz0, hz0', Cell.appendChar, CONTENT_BYTES, show cell.len ≤ 22 by omega,
        show cell.len + (Utf8.encode z).length ≤ 22 by omega, appendResult]

/-- the cell a zero-width character is appended to: the cell before the cursor (its first half when that is
the second half of a wide character); with the cursor in column 0, the last cell of the line above if that
line is wrapped; otherwise none — the character is dropped -/
def zeroTarget (g : Grid) : Option Pos :=
  let back (row col : Nat) : Pos :=
    if (((g.rows[row]?).bind (fun r => r.cells[col]?)).map (·.cont)).getD false then ⟨row, col - 1⟩ else ⟨row, col⟩
  if g.pos.col > 0 then some (back g.pos.row (g.pos.col - 1))
  else if g.pos.row > 0 ∧ (((g.rows[g.pos.row - 1]?).map (·.wrapped)).getD false) = true then
    some (back (g.pos.row - 1) (g.size.cols - 1))
  else none

/-- the grid with `z` appended to the cell at `p` -/
def appendedAt (g : Grid) (p : Pos) (z : Nat) : Grid :=
  match g.rows[p.row]? with
  | some r =>
    match r.cells[p.col]? with
    | some tc => { g with rows := g.rows.set p.row { r with cells := r.cells.set p.col (appendCell tc z) } }
    | none => g
  | none => g

theorem appendToPrev_spec {g : Grid} (hinv : GridInv W g true) (hl : g.rows.length = g.size.rows) {r c z : Nat}
    (hr : r < g.size.rows) (hc : c < g.size.cols) :
    g.appendToPrev r c z = .ok (appendedAt g
      (if (((g.rows[r]?).bind (fun row => row.cells[c]?)).map (·.cont)).getD false then ⟨r, c - 1⟩ else ⟨r, c⟩) z) := by
  have hrl : r < g.rows.length := by omega
  have hrow := List.getElem?_eq_getElem hrl
  generalize g.rows[r] = row at hrow
  have hgood := hinv.row_ok row (List.mem_of_getElem? hrow)
  have hcl : c < row.cells.length := by rw [hgood.1]; exact hc
  have hcell := List.getElem?_eq_getElem hcl
  generalize row.cells[c] = cell at hcell
  have hci := rowGood_cells W hgood
  simp only [Grid.appendToPrev, Grid.drawingCellM, Grid.drawingCell, Grid.drawingRow, hrow, Option.bind_some,
    Row.get, hcell, ok_bind, pure_bind', Option.map_some, Option.getD_some]
  by_cases hcc : cell.cont = true
  · obtain ⟨j, pv, rfl, hpv, hpvw⟩ := paired_cont_prev hcell hci.paired hcc
    have hic : cell.isWideContinuation = true := hcc
    have h22 := (cellOk_fields W (hci.cells_ok pv (List.mem_of_getElem? hpv))).1
    simp only [hic, hcc, ↓reduceIte, subM_ok (show 1 ≤ j + 1 by omega), ok_bind, Nat.add_sub_cancel, Grid.modifyCellM,
      modifyM, hrow, hpv, append_eq h22, pure_bind', pure_eq_ok, appendedAt]
  · have hcc' : cell.cont = false := by simpa using hcc
    have hic : cell.isWideContinuation = false := hcc'
    have h22 := (cellOk_fields W (hci.cells_ok cell (List.mem_of_getElem? hcell))).1
    simp only [hic, hcc', Bool.false_eq_true, ↓reduceIte, Grid.modifyCellM, modifyM, hrow, hcell, append_eq h22, ok_bind,
      pure_bind', pure_eq_ok, appendedAt]

/-- **C05, zero-width characters**: appended to the target cell (`appendCell`: dropped when the cell is full),
dropped when there is no target; the cursor never moves and nothing else changes -/
theorem text_zero_spec {g : Grid} (hinv : GridInv W g true) (hl : g.rows.length = g.size.rows) (a : Attrs) {z : Nat}
    (hz : W z = some 0) :
    g.text W a z = .ok (match zeroTarget g with
      | some p => appendedAt g p z
      | none => g) := by
  have h1' : ((W z).isNone && decide (z < 256)) = false := by simp [hz]
  have hlim : ¬ g.pos.col > g.size.cols := by have := hinv.pos_col; omega
  simp only [Grid.text, h1', Bool.false_eq_true, ↓reduceIte, hz, Option.isNone_some, Bool.false_and, Option.getD_some,
    show min 0 2 = 0 by rfl, Nat.not_lt_zero,
    gt_iff_lt, Grid.wrapDecision, subM_ok (Nat.zero_le _), Nat.sub_zero, ok_bind, hlim, pure_bind', pure_eq_ok,
    Grid.colWrap, beq_self_eq_true, Grid.textZero, zeroTarget]
  by_cases h0 : 0 < g.pos.col
  · simp only [h0, ↓reduceIte]
    exact appendToPrev_spec hinv hl hinv.pos_row (by have := hinv.pos_col; omega)
  · simp only [h0, ↓reduceIte]
    by_cases hr0 : 0 < g.pos.row
    · have hpr := hinv.pos_row
      have hrl : g.pos.row - 1 < g.rows.length := by omega
      simp only [hr0, ↓reduceIte, Grid.drawingRow, List.getElem?_eq_getElem hrl, ok_bind, pure_eq_ok, Option.map_some,
        Option.getD_some, true_and]
      by_cases hw : g.rows[g.pos.row - 1].wrapped = true
      · simp only [hw, ↓reduceIte, subM_ok hinv.cols_pos, ok_bind]
        have := appendToPrev_spec hinv hl (r := g.pos.row - 1) (c := g.size.cols - 1) (z := z) (by omega)
          (by have := hinv.cols_pos; omega)
        rw [List.getElem?_eq_getElem hrl] at this
        exact this
      · simp only [hw, Bool.false_eq_true, ↓reduceIte, pure_eq_ok]
    · simp only [hr0, ↓reduceIte, false_and, pure_eq_ok]

end Vt.C05
