/-
  Vt.Props.C01grid — the grid part of a full redraw (`Grid::write_contents_formatted`): the prefix
  `ESC[m ESC[H ESC[J`, what the loop over the lines needs, the two ways the emitter moves the receiver's cursor
  (`Moves`), and re-typing the last character of a line (`retype_last`).  The cursor fix-up itself is in C01cursor.
-/
import Vt.Props.GridDraw
import Vt.Props.C10b
import Vt.Props.C13
import Vt.Props.C02
namespace Vt.C01
open Vt Vt.Recv Vt.C19 Vt.C09 Vt.RowDraw Vt.GridDraw Vt.Tok Vt.C03
set_option linter.unusedSimpArgs false

variable {W : Nat → Option Nat} {cb : CbPolicy}

/-- `ESC [ m` -/
theorem step_clearAttrs : Step W cb Term.clearAttrs (fun r => pure { r with pen := Attrs.default }) := by
  intro p hr r' hf
  simp only [pure_eq_ok, Except.ok.injEq] at hf
  subst hf
  obtain ⟨p', e, w, r⟩ := process_clearAttrs W cb p hr
  refine ⟨p', e, ?_, r⟩
  rw [w]
  simp only [WS.modAttrs, withRS, rsOf, setCur_self]

/-- the grid after `ESC [ H ESC [ J` with the default pen: every line blank, cursor home -/
def clearedAll (g : Grid) : Grid :=
  { g with rows := g.rows.map (fun r => r.clear Attrs.default), pos := ⟨0, 0⟩ }

theorem view_rangeCell_in (lo hi : Nat) (a : Attrs) (j : Nat) (c : Cell) (h : lo ≤ j ∧ j < hi) :
    C07.rangeCell lo hi a j c = c.clear a := by
  simp [C07.rangeCell, h]

theorem set0_take1 {α} (l : List α) (h : 0 < l.length) (f : α → α) (X : α) :
    (l.take 1 ++ (l.drop 1).map f).set 0 X = X :: (l.drop 1).map f := by
  cases l with
  | nil => simp at h
  | cons x xs => simp

/-- ED 0 from home blanks everything: in terms of views and wrap flags the result is `clearedAll` -/
theorem clear_from_home {g : Grid} (hc : Canvas g) (hinv : ∀ r ∈ g.rows, rowOk W r = true) :
    ∃ g', (g.setPos ⟨0, 0⟩ >>= fun g1 => g1.eraseAllForward Attrs.default) = .ok g' ∧
      g'.size = g.size ∧ g'.pos = ⟨0, 0⟩ ∧ g'.scrollTop = g.scrollTop ∧ g'.scrollBottom = g.scrollBottom ∧
      g'.originMode = g.originMode ∧ g'.rows.length = g.rows.length ∧
      (∀ r ∈ g'.rows, BlankRow g.size.cols r) ∧ g'.scrollback = g.scrollback ∧
      g'.scrollbackOffset = g.scrollbackOffset := by
  rw [setPos_eq hc ⟨0, 0⟩ hc.rows_pos hc.cols_pos]
  simp only [ok_bind]
  have hlen : 0 < g.rows.length := by rw [hc.alloc]; exact hc.rows_pos
  have hr0 : (withPos g ⟨0, 0⟩).rows[(withPos g ⟨0, 0⟩).pos.row]? = some g.rows[0] := by
    simp [withPos, List.getElem?_eq_getElem hlen]
  have hok0 := hinv _ (List.getElem_mem hlen)
  have hcl : C07.CurLine W (withPos g ⟨0, 0⟩) g.rows[0] :=
    ⟨hr0, ((rowOk_iff W _).mp hok0).2, hc.width _ (List.getElem_mem hlen), Nat.zero_le _, hc.cols_pos, hc.cols_u16⟩
  rw [C07.ed0_eq hcl Attrs.default]
  have hrows : (C07.erasedGrid (C07.belowCleared (withPos g ⟨0, 0⟩) Attrs.default) g.rows[0]
        (withPos g ⟨0, 0⟩).pos.col (withPos g ⟨0, 0⟩).size.cols Attrs.default).rows =
      C07.erasedRow g.rows[0].cells g.rows[0].wrapped 0 g.size.cols Attrs.default ::
        (g.rows.drop 1).map (fun r => r.clear Attrs.default) := by
    simp only [C07.erasedGrid, C07.belowCleared, withPos, Nat.zero_add]
    exact set0_take1 g.rows hlen _ _
  refine ⟨_, rfl, rfl, rfl, rfl, rfl, rfl, ?_, ?_, rfl, rfl⟩
  · rw [hrows]; simp; omega
  · intro r hr
    rw [hrows] at hr
    rcases List.mem_cons.mp hr with rfl | hr
    · -- line 0: every cell in the erased range [0, cols)
      have hw0 := hc.width _ (List.getElem_mem hlen)
      refine ⟨?_, ?_, ?_⟩
      · simp only [C07.erasedRow, C07.flagCleared, hw0, beq_self_eq_true, Bool.true_or, Bool.and_true,
          decide_eq_true_eq]
        have := hc.cols_pos
        simp [this]
        intro h; omega
      · simp only [C07.erasedRow, C07.eraseRange]
        rw [← hw0]
        apply List.ext_getElem?
        intro k
        simp only [List.getElem?_map, List.getElem?_mapIdx, List.getElem?_replicate]
        by_cases hk : k < g.rows[0].cells.length
        · simp only [List.getElem?_eq_getElem hk, Option.map_some, hk, ↓reduceIte, Option.some.injEq]
          rw [view_rangeCell_in 0 _ _ k _ ⟨Nat.zero_le _, hk⟩, view_clear]; rfl
        · simp [List.getElem?_eq_none (Nat.le_of_not_lt hk), hk]
      · intro c hc'
        simp only [C07.erasedRow, C07.eraseRange, List.mem_mapIdx] at hc'
        obtain ⟨k, hk, rfl⟩ := hc'
        have h22 := (cellOk_fields W (((rowOk_iff W _).mp hok0).2.cells_ok _ (List.getElem_mem hk))).1
        unfold C07.rangeCell
        split
        · exact h22
        · split
          · exact h22
          · split
            · exact h22
            · exact h22
    · obtain ⟨r0, hr0', rfl⟩ := List.mem_map.mp hr
      have hr0m : r0 ∈ g.rows := List.mem_of_mem_drop hr0'
      refine ⟨rfl, ?_, ?_⟩
      · simp only [Row.clear, List.map_map]
        rw [← hc.width r0 hr0m]
        apply List.ext_getElem?
        intro k
        simp only [List.getElem?_map, List.getElem?_replicate]
        by_cases hk : k < r0.cells.length
        · simp [List.getElem?_eq_getElem hk, hk, view_clear, blankV]
        · simp [List.getElem?_eq_none (Nat.le_of_not_lt hk), hk]
      · intro c hc'
        simp only [Row.clear, List.mem_map] at hc'
        obtain ⟨c0, hc0, rfl⟩ := hc'
        have := ((rowOk_iff W r0).mp (hinv r0 hr0m)).2.cells_ok c0 hc0
        exact (cellOk_fields W this).1

/-- what is assumed of the receiving parser: ready for a new sequence, its active grid a canvas of
well-formed rows (a new parser; or any parser that has only been fed full redraws) -/
structure RecvOk (W : Nat → Option Nat) (q : Parser) : Prop where
  ready : Ready q
  canvas : Canvas (rsOf q.ws).g
  rows_ok : ∀ r ∈ (rsOf q.ws).g.rows, rowOk W r = true

/-- `ESC [ m  ESC [ H  ESC [ J`: pen reset, every line blank, cursor home — the state the loop starts from -/
theorem prefix_drawn {q : Parser} (hq : RecvOk W q) (srows : List Row) (hn : srows.length = (rsOf q.ws).g.size.rows) :
    ∃ R1, Emitted W cb q (Term.clearAttrs ++ Term.clearScreen) R1 ∧ R1.pen = Attrs.default ∧
      RowsInv srows (rsOf q.ws).g.size.cols 0 false ⟨0, 0⟩ R1 ∧ R1.g.scrollbackOffset = (rsOf q.ws).g.scrollbackOffset ∧
      R1.g.scrollback = (rsOf q.ws).g.scrollback := by
  obtain ⟨g', e, hsz, hpos, htop, hbot, horg, hlen, hblank, hsb, hoff⟩ := clear_from_home hq.canvas hq.rows_ok
  have h0 := emitted_nil W cb q hq.ready
  have h1 := emitted_step W cb hq.ready h0 (step_clearAttrs (W := W) (cb := cb))
    (r' := { rsOf q.ws with pen := Attrs.default }) rfl
  have h2 := emitted_step W cb hq.ready h1 (step_clearScreen W cb)
    (r' := { g := g', pen := Attrs.default, saved := (rsOf q.ws).saved }) (by
      simp only [e, ok_bind]; rfl)
  have hc := hq.canvas
  refine ⟨_, by simpa using h2, rfl, ⟨?_, by rw [hsz], by rw [hsz]; exact hn.symm, hpos, ?_, fun h => by simp at h⟩, hoff, hsb⟩
  · refine ⟨by rw [hsz]; exact hc.rows_pos, by rw [hsz]; exact hc.cols_pos, by rw [hsz]; exact hc.rows_u16,
      by rw [hsz]; exact hc.cols_u16, by rw [htop]; exact hc.top, by rw [hbot, hsz]; exact hc.bottom,
      by rw [horg]; exact hc.origin, by rw [hlen, hsz]; exact hc.alloc, ?_⟩
    intro r hr
    have := (hblank r hr).2.1
    have hl := congrArg List.length this
    simp only [List.length_map, List.length_replicate] at hl
    rw [hl, hsz]
  · intro k hk
    have hkl : k < g'.rows.length := by rw [hlen, hc.alloc, ← hn]; exact hk
    exact ⟨g'.rows[k], List.getElem?_eq_getElem hkl, fun h => by omega, fun _ => hblank _ (List.getElem_mem hkl)⟩

theorem rowsInv_withPos {srows : List Row} {cols i : Nat} {pp : Pos} {R : RS}
    (h : RowsInv srows cols i false pp R) (to : Pos) :
    RowsInv srows cols i false to { R with g := withPos R.g to } :=
  ⟨canvas_withPos h.canvas to, h.hcols, h.nrows, rfl, h.row, fun hh => by simp at hh⟩

/-- line `k` replaced, cursor moved -/
def replaced (R : RS) (k : Nat) (Rk' : Row) (to : Pos) : RS :=
  { R with g := { R.g with rows := R.g.rows.set k Rk', pos := to } }

/-- replacing a drawn line by one that looks the same, and moving the cursor -/
theorem rowsInv_replace {srows : List Row} {cols : Nat} {pp : Pos} {R : RS}
    (h : RowsInv srows cols srows.length false pp R) (k : Nat) (Rk Rk' : Row) (hk : R.g.rows[k]? = some Rk)
    (hv : Rk'.cells.map view = Rk.cells.map view) (hw : Rk'.wrapped = Rk.wrapped)
    (h22 : ∀ c ∈ Rk'.cells, c.contents.length = 22) (to : Pos) :
    RowsInv srows cols srows.length false to (replaced R k Rk' to) := by
  unfold replaced
  have hkl := getElem?_lt hk
  have hc := h.canvas
  refine ⟨⟨hc.rows_pos, hc.cols_pos, hc.rows_u16, hc.cols_u16, hc.top, hc.bottom, hc.origin,
    by simp [hc.alloc], ?_⟩, h.hcols, h.nrows, rfl, ?_, fun hh => by simp at hh⟩
  · intro r hr
    simp only at hr ⊢
    rcases List.mem_or_eq_of_mem_set hr with hr | rfl
    · exact hc.width r hr
    · have := congrArg List.length hv
      simp only [List.length_map] at this
      rw [this]; exact hc.width Rk (List.mem_of_getElem? hk)
  · intro j hj
    simp only [List.getElem?_set]
    by_cases hjk : k = j
    · subst hjk
      obtain ⟨Rj, hRj, hd, hb⟩ := h.row k hj
      rw [hk] at hRj
      have : Rk = Rj := Option.some.inj hRj
      subst this
      simp only [hkl, ↓reduceIte]
      refine ⟨Rk', rfl, fun hlt => ?_, fun hge => by omega⟩
      obtain ⟨d1, _, d3⟩ := hd hlt
      exact ⟨hv.trans d1, h22, hw.trans d3⟩
    · rw [if_neg hjk]
      exact h.row j hj

/-- the receiver's cell looks like the source's: it is plain / wide exactly as the source cell is -/
theorem flags_of_view {a b : Cell} (h : view a = view b) : a.wide = b.wide ∧ a.cont = b.cont := by
  simp only [view, View.mk.injEq] at h
  exact ⟨h.2.1, h.2.2.1⟩

theorem views_get {l1 l2 : List Cell} (h : l1.map view = l2.map view) (k : Nat) (hk : k < l2.length) :
    ∃ hk1 : k < l1.length, view l1[k] = view l2[k] := by
  have hl : l1.length = l2.length := by simpa using congrArg List.length h
  refine ⟨by omega, ?_⟩
  have := congrArg (fun l => l[k]?) h
  simp only [List.getElem?_map, List.getElem?_eq_getElem hk, List.getElem?_eq_getElem (show k < l1.length by omega),
    Option.map_some, Option.some.injEq] at this
  exact this

theorem map_view_set_same {l : List Cell} {k : Nat} (hk : k < l.length) {c' : Cell} (h : view c' = view l[k]) :
    (l.set k c').map view = l.map view := by
  rw [List.map_set]
  apply List.ext_getElem?
  intro j
  by_cases hj : k = j
  · subst hj; simp [hk, h]
  · simp [hj]

/-- `mv to` are bytes that put the receiver's cursor at `to` (any position inside the screen) and change nothing
else: `move_from_to(prev, to)` when the emitter knows where the cursor is, `move_to(to)` when it does not -/
def Moves (q : Parser) (out : List Nat) (R : RS) (rows cols : Nat) (mv : Pos → List Nat) : Prop :=
  ∀ to : Pos, to.row < rows → to.col < cols → Emitted W cb q (out ++ mv to) { R with g := withPos R.g to }

theorem moves_rel {q : Parser} (hr : Ready q) {srows : List Row} {cols : Nat} {pp : Pos} {out : List Nat} {R : RS}
    (hem : Emitted W cb q out R) (hinv : RowsInv srows cols srows.length false pp R) :
    Moves (W := W) (cb := cb) q out R srows.length cols (Term.moveFromTo pp) := by
  intro to h1 h2
  have hcv := hinv.canvas
  have hu := hcv.cols_u16
  have hru := hcv.rows_u16
  have hgo := goto_eq hcv pp to hinv.pos (by rw [hinv.nrows]; exact h1) (by rw [hinv.hcols]; exact h2)
  exact emitted_step W cb hr hem (step_moveFromTo W cb pp to
    (by rw [hinv.nrows] at hru; omega) (by rw [hinv.hcols] at hu; omega)) hgo

theorem moves_abs {q : Parser} (hr : Ready q) {srows : List Row} {cols : Nat} {pp : Pos} {out : List Nat} {R : RS}
    (hem : Emitted W cb q out R) (hinv : RowsInv srows cols srows.length false pp R) :
    Moves (W := W) (cb := cb) q out R srows.length cols Term.moveTo := by
  intro to h1 h2
  have hcv := hinv.canvas
  have hu := hcv.cols_u16
  have hru := hcv.rows_u16
  have hsp := setPos_eq hcv to (by rw [hinv.nrows]; exact h1) (by rw [hinv.hcols]; exact h2)
  exact emitted_step W cb hr hem (step_moveTo W cb to
    (by rw [hinv.nrows] at hru; omega) (by rw [hinv.hcols] at hu; omega)) (by simp only [hsp, ok_bind]; rfl)

/-- **re-typing the last character of a line**: from any cursor position, `move ++ pen ++ character ++ pen back`
leaves the receiver's cursor in the pending-wrap column of line `k`, and the line looks as before -/
theorem retype_last (hW : WOk W) {q : Parser} (hr : Ready q) (Sg : Grid)
    (hS : SrcRows W Sg.size.cols Sg.rows)
    {out : List Nat} {pp : Pos} {pa : Attrs} {R : RS}
    (hem : Emitted W cb q out R) (hpen : R.pen = pa) (hpawf : Attrs.wf pa)
    (hinv : RowsInv Sg.rows Sg.size.cols Sg.rows.length false pp R)
    (mv : Pos → List Nat) (hmv : Moves (W := W) (cb := cb) q out R Sg.rows.length Sg.size.cols mv)
    (k : Nat) (hk : k < Sg.rows.length) (hocc : lastOcc Sg.rows[k].cells) :
    ∃ c cell, Sg.endOfRowPos k = .ok ⟨k, c⟩ ∧ (∀ site, Sg.drawingCellM site ⟨k, c⟩ = .ok cell) ∧
      cell.hasContents = true ∧ cell.contentsBytes = .ok (cell.contents.take cell.len) ∧
      ∃ Rf, Emitted W cb q (out ++ (mv ⟨k, c⟩ ++ cell.attrs.writeEscapeCodeDiff pa ++
              cell.contents.take cell.len ++ pa.writeEscapeCodeDiff cell.attrs)) Rf ∧ Rf.pen = pa ∧
        RowsInv Sg.rows Sg.size.cols Sg.rows.length false ⟨k, Sg.size.cols⟩ Rf ∧
        Rf.g.scrollbackOffset = R.g.scrollbackOffset := by
  have hcv := hinv.canvas
  have hcols1 := hcv.cols_pos
  have hu := hcv.cols_u16
  have hru := hcv.rows_u16
  have hsc1 : 1 ≤ Sg.size.cols := by rw [← hinv.hcols]; exact hcols1
  have hsok := hS.ok _ (List.getElem_mem hk)
  have hswd := hS.width _ (List.getElem_mem hk)
  obtain ⟨hlen1, hoc⟩ := hocc
  obtain ⟨Rk, hRk, hdone, _⟩ := hinv.row k hk
  obtain ⟨hvk, h22k, hwk⟩ := hdone hk
  have hRkl : Rk.cells.length = Sg.size.cols := by
    have := congrArg List.length hvk; simp only [List.length_map] at this; rw [this, hswd]
  have hc1 : Sg.size.cols - 1 < Sg.rows[k].cells.length := by rw [hswd]; omega
  have hlastidx : Sg.rows[k].cells.length - 1 = Sg.size.cols - 1 := by rw [hswd]
  simp only [hlastidx] at hoc
  have hdraw : ∀ site j (hj : j < Sg.rows[k].cells.length),
      Sg.drawingCellM site ⟨k, j⟩ = .ok Sg.rows[k].cells[j] := by
    intro site j hj
    simp [Grid.drawingCellM, Grid.drawingCell, Grid.drawingRow, Row.get, List.getElem?_eq_getElem hk,
      List.getElem?_eq_getElem hj]
  have hrr : k < R.g.size.rows := by rw [hinv.nrows]; exact hk
  by_cases hlc : Sg.rows[k].cells[Sg.size.cols - 1].cont = true
  · -- a wide character in the last two columns
    obtain ⟨j0, pv, hj0, hpv, hpvw⟩ := paired_cont_prev (List.getElem?_eq_getElem hc1) hsok.paired hlc
    have hc2 : Sg.size.cols - 2 < Sg.rows[k].cells.length := by omega
    have hcols2 : 2 ≤ Sg.size.cols := by omega
    have hj0' : j0 = Sg.size.cols - 2 := by omega
    subst hj0'
    have hpv' : Sg.rows[k].cells[Sg.size.cols - 2] = pv := by
      rw [List.getElem?_eq_getElem hc2] at hpv; exact Option.some.inj hpv
    have hwide : Sg.rows[k].cells[Sg.size.cols - 2].wide = true := by rw [hpv']; exact hpvw
    have hh : Sg.rows[k].cells[Sg.size.cols - 2].hasContents = true :=
      wide_has_contents (hsok.cells_ok _ (List.getElem_mem hc2)) hwide
    have hncont : Sg.rows[k].cells[Sg.size.cols - 2].cont = false :=
      wide_not_cont (hsok.cells_ok _ (List.getElem_mem hc2)) hwide
    obtain ⟨f, zs, ht⟩ := textCell_of hW (hsok.cells_ok _ (List.getElem_mem hc2)) (hsok.emit_ok _ hc2) hh
    have hfine : CellFine Sg.rows[k].cells[Sg.size.cols - 2] := cellFine_of_ok (hsok.cells_ok _ (List.getElem_mem hc2))
    have hw2 : 2 ≤ (W f).getD 1 := by
      have := ht.wide; rw [hwide] at this
      have h' : 1 < (W f).getD 1 := by simpa using this.symm
      omega
    have hend : Sg.endOfRowPos k = .ok ⟨k, Sg.size.cols - 2⟩ := by
      simp only [Grid.endOfRowPos, subM_ok hsc1, ok_bind, hdraw 412 _ hc1, Cell.isWideContinuation, hlc, ↓reduceIte,
        subM_ok hcols2, pure_bind', pure_eq_ok]
    obtain ⟨hk2, hvc2⟩ := views_get hvk (Sg.size.cols - 2) hc2
    obtain ⟨hk1, hvc1⟩ := views_get hvk (Sg.size.cols - 1) hc1
    obtain ⟨hfw, hfc⟩ := flags_of_view hvc2
    have hemA := hmv ⟨k, Sg.size.cols - 2⟩ hk (by simp only; omega)
    have hemB := emitted_step W cb hr hemA
      (step_pen W cb Sg.rows[k].cells[Sg.size.cols - 2].attrs pa (hsok.wf _ hc2))
      (r' := { R with g := withPos R.g ⟨k, Sg.size.cols - 2⟩,
                       pen := Sg.rows[k].cells[Sg.size.cols - 2].attrs }) (by simp [hpen])
    have hstep := step_text W cb _ ht.valid (by rw [ht.chars]; exact ht.plain) ht.noesc
    rw [ht.chars] at hstep
    have hidx : Sg.size.cols - 2 + 1 = Sg.size.cols - 1 := by omega
    obtain ⟨cellF, cc, etype, vF, kF, vcc, kcc⟩ := type_cell_wide_over W (g := withPos R.g ⟨k, Sg.size.cols - 2⟩)
      (by simp only [withPos]; exact hu) Sg.rows[k].cells[Sg.size.cols - 2].attrs f _ zs Rk
      Rk.cells[Sg.size.cols - 2] Rk.cells[Sg.size.cols - 1] rfl (by omega) ht.first ht.zero
      (by simp only [withPos]; rw [hinv.hcols]; have := ht.fits; rw [hswd] at this; exact this)
      (by simpa [withPos] using hRk) (by simp [withPos, List.getElem?_eq_getElem hk2]) (by rw [hfw, hwide])
      (by rw [hfc, hncont]) (h22k _ (List.getElem_mem hk2))
      (by simp only [withPos, hidx]; exact List.getElem?_eq_getElem hk1) (h22k _ (List.getElem_mem hk1)) hW.space ht.pre
    simp only [withPos, hidx] at etype
    have hemC := emitted_step W cb hr hemB hstep
      (r' := { R with g := typed (withPos R.g ⟨k, Sg.size.cols - 2⟩) Rk
                            ((Rk.cells.set (Sg.size.cols - 2) cellF).set (Sg.size.cols - 1) cc) (Sg.size.cols - 2 + 2),
                       pen := Sg.rows[k].cells[Sg.size.cols - 2].attrs }) (by
        simp only [withPos, etype, ok_bind, pure_eq_ok])
    have hemD := emitted_step W cb hr hemC
      (step_pen W cb pa Sg.rows[k].cells[Sg.size.cols - 2].attrs hpawf)
      (r' := { R with g := typed (withPos R.g ⟨k, Sg.size.cols - 2⟩) Rk
                            ((Rk.cells.set (Sg.size.cols - 2) cellF).set (Sg.size.cols - 1) cc) (Sg.size.cols - 2 + 2),
                       pen := pa }) (by simp)
    have hposeq : (⟨k, Sg.size.cols - 2 + 2⟩ : Pos) = ⟨k, Sg.size.cols⟩ := by
      rw [show Sg.size.cols - 2 + 2 = Sg.size.cols by omega]
    have hv1 : ((Rk.cells.set (Sg.size.cols - 2) cellF).set (Sg.size.cols - 1) cc).map view = Rk.cells.map view := by
      have h1 := map_view_set_same hk2 (c' := cellF) (by rw [vF, ← ht.view, hvc2])
      have hk1' : Sg.size.cols - 1 < (Rk.cells.set (Sg.size.cols - 2) cellF).length := by simpa using hk1
      have h2 := map_view_set_same hk1' (c' := cc) (by
        rw [vcc, List.getElem_set_ne (by omega), hvc1, hsok.cont_view _ hc1 hlc]; rfl)
      rw [h2, h1]
    have hrepl := rowsInv_replace hinv k Rk
      { Rk with cells := (Rk.cells.set (Sg.size.cols - 2) cellF).set (Sg.size.cols - 1) cc } hRk hv1 rfl (by
        intro c hc
        rcases List.mem_or_eq_of_mem_set hc with hc | rfl
        · rcases List.mem_or_eq_of_mem_set hc with hc | rfl
          · exact h22k c hc
          · exact kF
        · exact kcc) ⟨k, Sg.size.cols⟩
    refine ⟨Sg.size.cols - 2, _, hend, fun site => hdraw site _ hc2, hh, contentsBytes_ok hfine, _, ?_, ?_, hrepl, rfl⟩
    · have : replaced R k { Rk with cells := (Rk.cells.set (Sg.size.cols - 2) cellF).set (Sg.size.cols - 1) cc } ⟨k, Sg.size.cols⟩ =
          { R with g := typed (withPos R.g ⟨k, Sg.size.cols - 2⟩) Rk
                            ((Rk.cells.set (Sg.size.cols - 2) cellF).set (Sg.size.cols - 1) cc) (Sg.size.cols - 2 + 2), pen := pa } := by
        simp only [replaced, typed, withPos, hposeq, hpen]
      rw [this]
      simpa [List.append_assoc] using hemD
    · exact hpen
  · -- a narrow character in the last column
    have hlc' : Sg.rows[k].cells[Sg.size.cols - 1].cont = false := by simpa using hlc
    have hh : Sg.rows[k].cells[Sg.size.cols - 1].hasContents = true := by
      rcases hoc with h | h
      · exact h
      · rw [hlc'] at h; simp at h
    obtain ⟨f, zs, ht⟩ := textCell_of hW (hsok.cells_ok _ (List.getElem_mem hc1)) (hsok.emit_ok _ hc1) hh
    have hfine : CellFine Sg.rows[k].cells[Sg.size.cols - 1] := cellFine_of_ok (hsok.cells_ok _ (List.getElem_mem hc1))
    -- the last column cannot hold a wide character
    have hnw : Sg.rows[k].cells[Sg.size.cols - 1].wide = false := by
      by_cases hw : Sg.rows[k].cells[Sg.size.cols - 1].wide = true
      · obtain ⟨hj', _⟩ := hsok.wide_next _ hc1 hw
        rw [hswd] at hj'; omega
      · simpa using hw
    have hw1 : (W f).getD 1 = 1 := by
      have := ht.wide; rw [hnw] at this
      have h' : ¬ 1 < (W f).getD 1 := by simpa using this.symm
      have := ht.width; omega
    -- the emitter's output
    have hend : Sg.endOfRowPos k = .ok ⟨k, Sg.size.cols - 1⟩ := by
      simp only [Grid.endOfRowPos, subM_ok hsc1, ok_bind, hdraw 412 _ hc1, Cell.isWideContinuation, hlc', Bool.false_eq_true,
        ↓reduceIte, pure_eq_ok]
    -- the receiver
    obtain ⟨hk1, hvc⟩ := views_get hvk (Sg.size.cols - 1) hc1
    obtain ⟨hfw, hfc⟩ := flags_of_view hvc
    have hemA := hmv ⟨k, Sg.size.cols - 1⟩ hk (by simp only; omega)
    have hemB := emitted_step W cb hr hemA
      (step_pen W cb Sg.rows[k].cells[Sg.size.cols - 1].attrs pa (hsok.wf _ hc1))
      (r' := { R with g := withPos R.g ⟨k, Sg.size.cols - 1⟩,
                       pen := Sg.rows[k].cells[Sg.size.cols - 1].attrs }) (by simp [hpen])
    have hstep := step_text W cb _ ht.valid (by rw [ht.chars]; exact ht.plain) ht.noesc
    rw [ht.chars] at hstep
    obtain ⟨cellF, etype, vF, kF⟩ := type_cell_narrow W (g := withPos R.g ⟨k, Sg.size.cols - 1⟩)
      (by simp only [withPos]; exact hu) Sg.rows[k].cells[Sg.size.cols - 1].attrs f zs Rk Rk.cells[Sg.size.cols - 1]
      hw1 ht.first ht.zero (by simp only [withPos]; rw [hinv.hcols]; omega) (by simpa [withPos] using hRk)
      (by simp [withPos, List.getElem?_eq_getElem hk1]) (by rw [hfw, hnw]) (by rw [hfc, hlc'])
      (h22k _ (List.getElem_mem hk1)) ht.pre
    have hemC := emitted_step W cb hr hemB hstep
      (r' := { R with g := typed (withPos R.g ⟨k, Sg.size.cols - 1⟩) Rk
                            (Rk.cells.set (Sg.size.cols - 1) cellF) (Sg.size.cols - 1 + 1),
                       pen := Sg.rows[k].cells[Sg.size.cols - 1].attrs }) (by
        simp only [etype, ok_bind, pure_eq_ok]
        rfl)
    have hemD := emitted_step W cb hr hemC
      (step_pen W cb pa Sg.rows[k].cells[Sg.size.cols - 1].attrs hpawf)
      (r' := { R with g := typed (withPos R.g ⟨k, Sg.size.cols - 1⟩) Rk
                            (Rk.cells.set (Sg.size.cols - 1) cellF) (Sg.size.cols - 1 + 1),
                       pen := pa }) (by simp)
    have hposeq : (⟨k, Sg.size.cols - 1 + 1⟩ : Pos) = ⟨k, Sg.size.cols⟩ := by
      rw [show Sg.size.cols - 1 + 1 = Sg.size.cols by omega]
    have hrepl := rowsInv_replace hinv k Rk { Rk with cells := Rk.cells.set (Sg.size.cols - 1) cellF } hRk
      (map_view_set_same hk1 (by rw [vF, ← ht.view, hvc])) rfl (by
        intro c hc
        rcases List.mem_or_eq_of_mem_set hc with hc | rfl
        · exact h22k c hc
        · exact kF) ⟨k, Sg.size.cols⟩
    refine ⟨Sg.size.cols - 1, _, hend, fun site => hdraw site _ hc1, hh, contentsBytes_ok hfine, _, ?_, ?_, hrepl, rfl⟩
    · have : replaced R k { Rk with cells := Rk.cells.set (Sg.size.cols - 1) cellF } ⟨k, Sg.size.cols⟩ =
          { R with g := typed (withPos R.g ⟨k, Sg.size.cols - 1⟩) Rk
                            (Rk.cells.set (Sg.size.cols - 1) cellF) (Sg.size.cols - 1 + 1), pen := pa } := by
        simp only [replaced, typed, withPos, hposeq, hpen]
      rw [this]
      simpa [List.append_assoc] using hemD
    · exact hpen

end Vt.C01
