/-
  Scratch.C15wrap — C15, the `rows_diff` clause, for lines with ARBITRARY wrap flags.

  `Vt.Props.DiffRow.row_diff_draws` proves that one line of a diff, processed by a receiver whose line shows the
  previous line, makes it show the current line — when neither line (nor the receiver's) is soft-wrapped.  Here the
  three wrap flags are unconstrained; the conclusion speaks of the CELLS (`Ri.cells.map view = sr.cells.map view`) and
  says nothing about the receiving line's wrap flag.

  Part 1 re-runs DiffRow's simulation with the receiver invariant `Mid'` = `Mid` without its `unwrapped` field
  (ECH / EL / typing may clear the receiving line's wrap flag, never set it; nothing about the CELLS depends on it).
  The copy differs from the original in three places: `Mid'` has no `unwrapped` field; `Mid'.typed1/2` and
  `draw_textP` ask of the line the receiver shows only `WideNext` (so that they can be used on a line the receiver
  holds in the middle of `diffEnd`); the loop invariant `JW` has one more clause, `last` (a changed blank cell leaves
  an erase run pending), from which `finish_pen` computes the pen the loop ends with.
  Part 2 is `diffEnd`, the tail of `write_contents_diff` that runs when the two lines' wrap flags differ
  (`diffEnd_drawn`), and the theorems for one full-width line: `row_diff_draws_any` (hypothesis `EraseEnd` on the pen
  the loop ends with), `row_diff_draws_wrap` (hypothesis: a wrapped previous line has its last column occupied),
  `rows_diff_line_draws_wrap` (API level, no hypothesis on the wrap flags).
  Part 3 does the same for column windows: `row_window_diff_draws_wrap`, `rows_diff_window_line_draws_wrap`.
-/
import Vt.Props.DiffRow
import Vt.Props.C15diff
namespace Vt.C15wrap
open Vt Vt.Recv Vt.C19 Vt.C09 Vt.RowDraw Vt.C03 Vt.Bytes Vt.DiffRow
set_option linter.unusedSimpArgs false
set_option linter.unusedVariables false

variable {W : Nat → Option Nat} {cb : CbPolicy}

/-! ### the receiving line in the middle of a diff -/

/-- the receiving line `Ri` shows the current line `S` on columns `< e` and the previous line `P` on columns
`> e`; column `e` shows `P` too, unless `P` has the second half of a wide character there whose first half has
been overwritten — then it is some plain cell (and `S` has no second half there) -/
structure Mid' (S P : List Cell) (e : Nat) (Ri : Row) : Prop where
  len : Ri.cells.length = S.length
  plen : P.length = S.length
  lo : ∀ k (hk : k < S.length), k < e → view (Ri.cells[k]'(by rw [len]; exact hk)) = view S[k]
  hi : ∀ k (hk : k < S.length), e < k → view (Ri.cells[k]'(by rw [len]; exact hk)) = view (P[k]'(by rw [plen]; exact hk))
  mid : ∀ (hk : e < S.length),
    view (Ri.cells[e]'(by rw [len]; exact hk)) = view (P[e]'(by rw [plen]; exact hk)) ∨
    ((P[e]'(by rw [plen]; exact hk)).cont = true ∧ S[e].cont = false ∧
      (Ri.cells[e]'(by rw [len]; exact hk)).wide = false ∧ (Ri.cells[e]'(by rw [len]; exact hk)).cont = false)


/-- all that the typing lemmas need of the line the receiver shows: a wide cell is followed by its second half -/
def WideNext (P : List Cell) : Prop :=
  ∀ j (hj : j < P.length), P[j].wide = true → ∃ hj' : j + 1 < P.length, P[j + 1].cont = true

theorem wideNext_of_src {P : List Cell} (h : SrcOk W P) : WideNext P := fun j hj hw => h.wide_next j hj hw

theorem wideNext_of_inv {P : List Cell} (h : CellsInv W P) : WideNext P := by
  intro j hj hw
  obtain ⟨d, hd, hdc⟩ := paired_wide_next (List.getElem?_eq_getElem hj) h.paired hw
  have hl := getElem?_lt hd
  refine ⟨hl, ?_⟩
  rw [List.getElem?_eq_getElem hl] at hd
  rw [Option.some.inj hd]; exact hdc

/-- the line shows the previous line: the start of a diff -/
theorem mid_zero' {S P : List Cell} {Ri : Row} (hpl : P.length = S.length)
    (hv : Ri.cells.map view = P.map view) : Mid' S P 0 Ri := by
  have hl : Ri.cells.length = S.length := by
    have := congrArg List.length hv
    simp only [List.length_map] at this
    omega
  have hget : ∀ k (hk : k < S.length), view (Ri.cells[k]'(by rw [hl]; exact hk)) = view (P[k]'(by rw [hpl]; exact hk)) := by
    intro k hk
    have := congrArg (fun l => l[k]?) hv
    simp only [List.getElem?_map, List.getElem?_eq_getElem (show k < Ri.cells.length by rw [hl]; exact hk),
      List.getElem?_eq_getElem (show k < P.length by rw [hpl]; exact hk), Option.map_some, Option.some.injEq] at this
    exact this
  exact ⟨hl, hpl, fun k hk h => absurd h (Nat.not_lt_zero _), fun k hk _ => hget k hk, fun hk => Or.inl (hget 0 hk)⟩

/-- the whole line is done -/
theorem Mid'.full {S P : List Cell} {Ri : Row} (h : Mid' S P S.length Ri) :
    Ri.cells.map view = S.map view := by
  apply List.ext_getElem?
  intro k
  simp only [List.getElem?_map]
  by_cases hk : k < S.length
  · rw [List.getElem?_eq_getElem (show k < Ri.cells.length by rw [h.len]; exact hk), List.getElem?_eq_getElem hk]
    simp only [Option.map_some, Option.some.injEq]
    exact h.lo k hk hk
  · rw [List.getElem?_eq_none (by rw [h.len]; omega), List.getElem?_eq_none (by omega)]

/-- an unchanged cell that is not the first half of a wide character: nothing to do -/
theorem Mid'.skip1 {S P : List Cell} {j : Nat} {Ri : Row} (h : Mid' S P j Ri) (hj : j < S.length)
    (hv : view S[j] = view (P[j]'(by rw [h.plen]; exact hj))) : Mid' S P (j + 1) Ri := by
  refine ⟨h.len, h.plen, ?_, ?_, ?_⟩
  · intro k hk hkj
    by_cases hkj' : k < j
    · exact h.lo k hk hkj'
    · have : k = j := by omega
      subst this
      rcases h.mid hj with h1 | ⟨hpc, hsc, _, _⟩
      · rw [h1, hv]
      · have := view_cont hv
        rw [hsc, hpc] at this
        exact absurd this (by simp)
  · intro k hk hkj
    exact h.hi k hk (by omega)
  · intro hk
    exact Or.inl (h.hi (j + 1) hk (by omega))

/-- an unchanged wide character: both halves are as they should be -/
theorem Mid'.skip2 {S P : List Cell} (hS : SrcOk W S) (hP : SrcOk W P) {j : Nat} {Ri : Row} (h : Mid' S P j Ri)
    (hj : j < S.length) (hv : view S[j] = view (P[j]'(by rw [h.plen]; exact hj))) (hw : S[j].wide = true) :
    Mid' S P (j + 2) Ri := by
  have h1 := h.skip1 hj hv
  obtain ⟨hj1, hc1⟩ := hS.wide_next j hj hw
  have hpw : (P[j]'(by rw [h.plen]; exact hj)).wide = true := by rw [← view_wide hv]; exact hw
  obtain ⟨hj1', hc1'⟩ := hP.wide_next j (by rw [h.plen]; exact hj) hpw
  have := h1.skip1 hj1 (by rw [hS.cont_view (j + 1) hj1 hc1, hP.cont_view (j + 1) hj1' hc1'])
  exact this
/-! ### erasing on the receiving line -/


/-- erasing `[e, j)` where the current line has blanks with the pen's attributes -/
theorem Mid'.erase {S P : List Cell} (hS : SrcOk W S) (hP : SrcOk W P) {e j : Nat} {Ri : Row} (h : Mid' S P e Ri)
    (hej : e < j) (hjl : j ≤ S.length) (a : Attrs)
    (hrun : ∀ k (hk : k < S.length), e ≤ k → k < j → view S[k] = blankA a) :
    Mid' S P j (C07.erasedRow Ri.cells Ri.wrapped e j a) := by
  have hlen : (C07.erasedRow Ri.cells Ri.wrapped e j a).cells.length = S.length := by
    simp [C07.erasedRow, C07.eraseRange_length, h.len]
  have hse : S[e].cont = false := by
    have := hrun e (by omega) (Nat.le_refl _) hej
    simp only [view, blankA, View.mk.injEq] at this
    exact this.2.2.1
  refine ⟨hlen, h.plen, ?_, ?_, ?_⟩
  · intro k hk hkj
    have hkR : k < Ri.cells.length := by rw [h.len]; exact hk
    rw [erasedRow_get _ _ _ _ _ k hkR]
    by_cases hin : e ≤ k
    · have : C07.rangeCell e j a k Ri.cells[k] = Ri.cells[k].clear a := by
        unfold C07.rangeCell; rw [if_pos ⟨hin, hkj⟩]
      rw [this, view_clear, hrun k hk hin hkj]
    · have hke : k < e := by omega
      have hun : C07.rangeCell e j a k Ri.cells[k] = Ri.cells[k] := by
        unfold C07.rangeCell
        rw [if_neg (by omega)]
        by_cases hk1 : k + 1 = e
        · have hnw : Ri.cells[k].wide = false := by
            cases hw : Ri.cells[k].wide
            · rfl
            · exfalso
              have hsw : S[k].wide = true := by rw [← view_wide (h.lo k hk hke)]; exact hw
              obtain ⟨hk1', hc⟩ := hS.wide_next k hk hsw
              have : S[e].cont = true := by
                have he : k + 1 = e := hk1
                subst he; exact hc
              rw [hse] at this; exact absurd this (by simp)
          rw [if_neg (by rw [hnw]; simp), if_neg (by omega)]
        · rw [if_neg (by omega), if_neg (by omega)]
      rw [hun]; exact h.lo k hk hke
  · intro k hk hkj
    have hkR : k < Ri.cells.length := by rw [h.len]; exact hk
    rw [erasedRow_get _ _ _ _ _ k hkR, C07.rangeCell_outside e j a k _ (Or.inr hkj)]
    exact h.hi k hk (by omega)
  · intro hk
    have hkR : j < Ri.cells.length := by rw [h.len]; exact hk
    rw [erasedRow_get _ _ _ _ _ j hkR]
    have hv := h.hi j hk hej
    by_cases hc : Ri.cells[j].cont = true
    · have : C07.rangeCell e j a j Ri.cells[j] = Ri.cells[j].clear Ri.cells[j].attrs := by
        unfold C07.rangeCell
        rw [if_neg (by omega), if_neg (by omega), if_pos ⟨rfl, hej, hc⟩]
      rw [this]
      refine Or.inr ⟨by rw [← view_cont hv]; exact hc, ?_, by simp [Cell.clear], by simp [Cell.clear]⟩
      rw [hS.cont_iff j hk, if_neg (by omega)]
      have := hrun (j - 1) (by omega) (by omega) (by omega)
      simp only [view, blankA, View.mk.injEq] at this
      exact this.2.1
    · have : C07.rangeCell e j a j Ri.cells[j] = Ri.cells[j] := by
        unfold C07.rangeCell
        rw [if_neg (by omega), if_neg (by omega), if_neg (fun h' => hc h'.2.2)]
      rw [this]; exact Or.inl hv


/-- the cell under the drawing position is never the second half of a wide character -/
theorem Mid'.not_cont {S P : List Cell} (hS : SrcOk W S) {j : Nat} {Ri : Row} (h : Mid' S P j Ri) (hci : CellsInv W Ri.cells)
    (hj : j < S.length) (hsc : S[j].cont = false) : (Ri.cells[j]'(by rw [h.len]; exact hj)).cont = false := by
  have hjR : j < Ri.cells.length := by rw [h.len]; exact hj
  cases hc : Ri.cells[j].cont
  · rfl
  · exfalso
    by_cases hj0 : j = 0
    · subst hj0
      obtain ⟨p, e1, e2, _⟩ := pairThrough_split (List.getElem?_eq_getElem hjR) hci.paired
      simp [pairThrough] at e1
      rw [e1, hc] at e2
      exact absurd e2 (by simp)
    · have hj1 : j - 1 < Ri.cells.length := by omega
      have := C07.paired_adjacent hci.paired (List.getElem?_eq_getElem hj1)
        (by rw [show j - 1 + 1 = j by omega]; exact List.getElem?_eq_getElem hjR)
      rw [hc] at this
      have hsw : (S[j - 1]'(by omega)).wide = true := by
        rw [← view_wide (h.lo (j - 1) (by omega) (by omega))]; exact this.symm
      have := hS.cont_iff j hj
      rw [if_neg hj0, hsw, hsc] at this
      exact absurd this (by simp)

/-- a narrow cell of the current line typed at column `j` -/
theorem Mid'.typed1 {S P : List Cell} (hW32 : W 32 = some 1) (hS : SrcOk W S) (hP : WideNext P) {j : Nat} {Ri : Row}
    (h : Mid' S P j Ri) (hci : CellsInv W Ri.cells) (hj : j < S.length) (hsc : S[j].cont = false) (hsw : S[j].wide = false)
    (cols : Nat) (a : Attrs) (f : Nat) (hw : C05.effWidth W f = 1) (cellF : Cell) (hvF : view cellF = view S[j]) :
    Mid' S P (j + 1) (typedRow W Ri j cols a f cellF) := by
  have hjR : j < Ri.cells.length := by rw [h.len]; exact hj
  have hnc := h.not_cont hS hci hj hsc
  have hwd : decide (C05.effWidth W f > 1) = false := by rw [hw]; rfl
  have hfc : C05.flagAt Ri.cells j (·.cont) = false := by rw [flagAt_get _ _ hjR]; exact hnc
  have hlen : (typedRow W Ri j cols a f cellF).cells.length = S.length := by
    simp [typedRow, C05.printedRow, h.len]
  refine ⟨hlen, h.plen, ?_, ?_, ?_⟩
  · intro k hk hkj
    have hkR : k < Ri.cells.length := by rw [h.len]; exact hk
    rw [typedRow_get _ _ _ _ _ _ k hkR]
    by_cases hkj' : j = k
    · subst hkj'; rw [if_pos rfl]; exact hvF
    · rw [if_neg hkj']
      have : C05.printedCell W Ri.cells j a f (decide (C05.effWidth W f > 1)) k Ri.cells[k] = Ri.cells[k] := by
        unfold C05.printedCell
        rw [if_neg (by omega), if_neg (by rw [hfc]; simp), if_neg (by omega), if_neg (by omega)]
      rw [this]; exact h.lo k hk (by omega)
  · intro k hk hkj
    have hkR : k < Ri.cells.length := by rw [h.len]; exact hk
    rw [typedRow_get _ _ _ _ _ _ k hkR, if_neg (by omega)]
    have : C05.printedCell W Ri.cells j a f (decide (C05.effWidth W f > 1)) k Ri.cells[k] = Ri.cells[k] := by
      unfold C05.printedCell
      rw [if_neg (by omega), if_neg (by omega), if_neg (by omega), if_neg (by rw [hwd]; simp)]
    rw [this]; exact h.hi k hk (by omega)
  · intro hk
    have hkR : j + 1 < Ri.cells.length := by rw [h.len]; exact hk
    rw [typedRow_get _ _ _ _ _ _ (j + 1) hkR, if_neg (by omega)]
    have hpc : C05.printedCell W Ri.cells j a f (decide (C05.effWidth W f > 1)) (j + 1) Ri.cells[j + 1] =
        if Ri.cells[j].wide = true then C05.setCell W Ri.cells[j + 1] 32 a else Ri.cells[j + 1] := by
      unfold C05.printedCell
      rw [if_neg (by omega), if_neg (by omega), if_pos rfl, hwd, flagAt_get _ _ hjR]
      simp only [Bool.false_eq_true, ↓reduceIte, id]
    rw [hpc]
    by_cases hrw : Ri.cells[j].wide = true
    · rw [if_pos hrw]
      refine Or.inr ⟨?_, ?_, ?_, ?_⟩
      · rcases h.mid hj with h1 | ⟨_, _, h3, _⟩
        · have hpw : (P[j]'(by rw [h.plen]; exact hj)).wide = true := by rw [← view_wide h1]; exact hrw
          obtain ⟨_, hc⟩ := hP j (by rw [h.plen]; exact hj) hpw
          exact hc
        · rw [hrw] at h3; exact absurd h3 (by simp)
      · rw [hS.cont_iff (j + 1) hk, if_neg (by omega)]
        simpa using hsw
      · simp [C05.setCell, hW32]
      · simp [C05.setCell]
    · rw [if_neg hrw]
      exact Or.inl (h.hi (j + 1) hk (by omega))

/-- a wide cell of the current line typed at columns `j`, `j + 1` -/
theorem Mid'.typed2 {S P : List Cell} (hW32 : W 32 = some 1) (hS : SrcOk W S) (hP : WideNext P) {j : Nat} {Ri : Row}
    (h : Mid' S P j Ri) (hci : CellsInv W Ri.cells) (hj : j < S.length) (hsc : S[j].cont = false) (hsw : S[j].wide = true)
    (cols : Nat) (a : Attrs) (f : Nat) (hw : C05.effWidth W f = 2) (cellF : Cell) (hvF : view cellF = view S[j]) :
    Mid' S P (j + 2) (typedRow W Ri j cols a f cellF) := by
  have hjR : j < Ri.cells.length := by rw [h.len]; exact hj
  obtain ⟨hj1, hc1⟩ := hS.wide_next j hj hsw
  have hj1R : j + 1 < Ri.cells.length := by rw [h.len]; exact hj1
  have hnc := h.not_cont hS hci hj hsc
  have hwd : decide (C05.effWidth W f > 1) = true := by rw [hw]; rfl
  have hfc : C05.flagAt Ri.cells j (·.cont) = false := by rw [flagAt_get _ _ hjR]; exact hnc
  have hlen : (typedRow W Ri j cols a f cellF).cells.length = S.length := by
    simp [typedRow, C05.printedRow, h.len]
  refine ⟨hlen, h.plen, ?_, ?_, ?_⟩
  · intro k hk hkj
    have hkR : k < Ri.cells.length := by rw [h.len]; exact hk
    rw [typedRow_get _ _ _ _ _ _ k hkR]
    by_cases hkj' : j = k
    · subst hkj'; rw [if_pos rfl]; exact hvF
    · rw [if_neg hkj']
      by_cases hk1 : k = j + 1
      · subst hk1
        have : C05.printedCell W Ri.cells j a f (decide (C05.effWidth W f > 1)) (j + 1) Ri.cells[j + 1] =
            C05.contOf (if C05.flagAt Ri.cells j (·.wide) = true then C05.setCell W Ri.cells[j + 1] 32 a else Ri.cells[j + 1]) := by
          unfold C05.printedCell
          rw [if_neg (by omega), if_neg (by omega), if_pos rfl, hwd]
          simp only [↓reduceIte]
        rw [this, view_contOf, hS.cont_view (j + 1) hj1 hc1]
      · have : C05.printedCell W Ri.cells j a f (decide (C05.effWidth W f > 1)) k Ri.cells[k] = Ri.cells[k] := by
          unfold C05.printedCell
          rw [if_neg (by omega), if_neg (by rw [hfc]; simp), if_neg (by omega), if_neg (by omega)]
        rw [this]; exact h.lo k hk (by omega)
  · intro k hk hkj
    have hkR : k < Ri.cells.length := by rw [h.len]; exact hk
    rw [typedRow_get _ _ _ _ _ _ k hkR, if_neg (by omega)]
    have : C05.printedCell W Ri.cells j a f (decide (C05.effWidth W f > 1)) k Ri.cells[k] = Ri.cells[k] := by
      unfold C05.printedCell
      rw [if_neg (by omega), if_neg (by omega), if_neg (by omega), if_neg (by omega)]
    rw [this]; exact h.hi k hk (by omega)
  · intro hk
    have hkR : j + 2 < Ri.cells.length := by rw [h.len]; exact hk
    rw [typedRow_get _ _ _ _ _ _ (j + 2) hkR, if_neg (by omega)]
    have hpc : C05.printedCell W Ri.cells j a f (decide (C05.effWidth W f > 1)) (j + 2) Ri.cells[j + 2] =
        if Ri.cells[j].wide = false ∧ Ri.cells[j + 1].wide = true then Ri.cells[j + 2].clear a else Ri.cells[j + 2] := by
      unfold C05.printedCell
      rw [if_neg (by omega), if_neg (by omega), if_neg (by omega), hwd, flagAt_get _ _ hjR, flagAt_get _ _ hj1R]
      simp only [true_and]
    rw [hpc]
    by_cases hc : Ri.cells[j].wide = false ∧ Ri.cells[j + 1].wide = true
    · rw [if_pos hc]
      refine Or.inr ⟨?_, ?_, by simp [Cell.clear], by simp [Cell.clear]⟩
      · have h1 := h.hi (j + 1) hj1 (by omega)
        have hpw : (P[j + 1]'(by rw [h.plen]; exact hj1)).wide = true := by rw [← view_wide h1]; exact hc.2
        obtain ⟨_, hcc⟩ := hP (j + 1) (by rw [h.plen]; exact hj1) hpw
        exact hcc
      · rw [hS.cont_iff (j + 2) hk, if_neg (by omega)]
        exact (cellOk_cont W _ (hS.cells_ok _ (List.getElem_mem hj1)) hc1).1
    · rw [if_neg hc]
      exact Or.inl (h.hi (j + 2) hk (by omega))


/-- the bytes emitted so far have been processed; the receiver's line `i` is `x` columns into the diff -/
def DrawnP (K : Ctx W cb) (prv : List Cell) (x : Nat) (st : Row.FmtSt) : Prop :=
  ∃ Ri, Emitted W cb K.p0 st.out (shape K.r0 K.i Ri st.prevPos st.prevAttrs) ∧ Mid' K.src prv x Ri ∧ Bytes st.out ∧
    (st.prevPos.col ≤ K.src.length ∧ (Attrs.wf K.r0.pen → Attrs.wf st.prevAttrs))

def DrawnW (K : Ctx W cb) (D : DCtx K) (x : Nat) (st : Row.FmtSt) : Prop := DrawnP K D.prv x st

theorem cells_of_emitted' (hW32 : W 32 = some 1) (K : Ctx W cb) (hcb : C13.CbInv W cb) (pinv : C13.ParserInv W K.p0)
    {out : List Nat} {Ri : Row} {pos : Pos} {pen : Attrs} (hb : Bytes out)
    (hem : Emitted W cb K.p0 out (shape K.r0 K.i Ri pos pen)) : CellsInv W Ri.cells := by
  have hg := (emitted_inv hW32 hcb pinv hb hem).1
  have := hg.row_ok Ri (List.mem_of_getElem? (shape_row K.canvas K.hi Ri pos pen))
  exact ((rowOk_iff W Ri).mp this.2).2


theorem drawnW_congr (K : Ctx W cb) (D : DCtx K) {x : Nat} {st st' : Row.FmtSt} (h : DrawnW K D x st) (ho : st'.out = st.out)
    (hp : st'.prevPos = st.prevPos) (ha : st'.prevAttrs = st.prevAttrs) : DrawnW K D x st' := by
  obtain ⟨Ri, hem, hl, hb, hc⟩ := h
  exact ⟨Ri, by rw [ho, hp, ha]; exact hem, hl, by rw [ho]; exact hb, by rw [hp, ha]; exact hc⟩

/-- the emitter's cursor move and pen change before an erase run is flushed -/
theorem eraseMove_drawnW (K : Ctx W cb) (D : DCtx K) {x : Nat} {st : Row.FmtSt} (h : DrawnW K D x st)
    (e : Nat) (a : Attrs) (he : e < K.src.length) (hwf : Attrs.wf a) :
    DrawnW K D x (Row.eraseMove K.src.length K.i false st e a) ∧
      (Row.eraseMove K.src.length K.i false st e a).prevPos = ⟨K.i, e⟩ ∧
      (Row.eraseMove K.src.length K.i false st e a).prevAttrs = a ∧
      (Row.eraseMove K.src.length K.i false st e a).erase = st.erase ∧
      (Row.eraseMove K.src.length K.i false st e a).prevWasWide = st.prevWasWide := by
  obtain ⟨Ri, hem, hmid, hb, hc⟩ := h
  have hl : Ri.cells.length = K.r0.g.size.cols := by rw [hmid.len, K.hsrc]
  have hu := K.canvas.cols_u16
  have hru := K.canvas.rows_u16
  have hi := K.hi
  have hb' := eraseMove_bytes K.src.length K.i false st e a hb
  have h1 := emitted_step W cb K.ready hem
    (step_moveFromTo W cb st.prevPos ⟨K.i, e⟩ (by simp only; omega) (by simp only; rw [← K.hsrc] at hu; omega))
    (shape_goto K.canvas hl st.prevPos ⟨K.i, e⟩ st.prevAttrs K.hi (by rw [← K.hsrc]; exact he))
  by_cases hp : (st.prevAttrs != a) = true
  · have h2 := emitted_step W cb K.ready h1 (step_pen W cb a st.prevAttrs hwf)
      (r' := shape K.r0 K.i Ri ⟨K.i, e⟩ a) (by simp [shape])
    have hout : (Row.eraseMove K.src.length K.i false st e a).out =
        st.out ++ Term.moveFromTo st.prevPos ⟨K.i, e⟩ ++ a.writeEscapeCodeDiff st.prevAttrs := by
      simp [Row.eraseMove, hp]
    have hpa : (Row.eraseMove K.src.length K.i false st e a).prevAttrs = a := by simp [Row.eraseMove, hp]
    have hpp : (Row.eraseMove K.src.length K.i false st e a).prevPos = ⟨K.i, e⟩ := rfl
    refine ⟨⟨Ri, ?_, hmid, hb', ?_⟩, hpp, hpa, rfl, rfl⟩
    · rw [hout, hpp, hpa]; exact h2
    · rw [hpp, hpa]; exact ⟨Nat.le_of_lt he, fun _ => hwf⟩
  · have hpa' : st.prevAttrs = a := by simpa using hp
    have hout : (Row.eraseMove K.src.length K.i false st e a).out = st.out ++ Term.moveFromTo st.prevPos ⟨K.i, e⟩ := by
      simp [Row.eraseMove, hp]
    have hpa : (Row.eraseMove K.src.length K.i false st e a).prevAttrs = a := by simp [Row.eraseMove, hp, hpa']
    have hpp : (Row.eraseMove K.src.length K.i false st e a).prevPos = ⟨K.i, e⟩ := rfl
    refine ⟨⟨Ri, ?_, hmid, hb', ?_⟩, hpp, hpa, rfl, rfl⟩
    · rw [hout, hpp, hpa, ← hpa']; exact h1
    · rw [hpp, hpa]; exact ⟨Nat.le_of_lt he, fun _ => hwf⟩

/-- the simulation invariant between cells (not in the middle of a wide character) -/
structure Inv1W (K : Ctx W cb) (D : DCtx K) (j : Nat) (st : Row.FmtSt) : Prop where
  drawn : DrawnW K D (esK j st) st
  er : ∀ e a, st.erase = some (e, a) → e ≤ j ∧ e < K.src.length ∧ Attrs.wf a ∧
    ∀ k (hk : k < K.src.length), e ≤ k → k < j → view K.src[k] = blankA a

theorem inv1W_congr (K : Ctx W cb) (D : DCtx K) {j : Nat} {st st' : Row.FmtSt} (h : Inv1W K D j st) (ho : st'.out = st.out)
    (hp : st'.prevPos = st.prevPos) (ha : st'.prevAttrs = st.prevAttrs) (he : st'.erase = st.erase) : Inv1W K D j st' := by
  refine ⟨?_, ?_⟩
  · have := h.drawn
    have e : esK j st' = esK j st := by simp [esK, he]
    rw [e]; exact drawnW_congr K D this ho hp ha
  · intro e a h'; rw [he] at h'; exact h.er e a h'

/-- the first half of the per-cell body: a pending erase run is flushed exactly when cell `j` ends it -/
theorem flush_invW (hW32 : W 32 = some 1) (K : Ctx W cb) (D : DCtx K) (hS : SrcOk W K.src) {j : Nat} (hj : j < K.src.length)
    {st : Row.FmtSt} (h : Inv1W K D j st) :
    ∃ st2, C03.flush K.src.length K.i false st j K.src[j] = .ok st2 ∧ Inv1W K D j st2 ∧
      st2.prevWasWide = st.prevWasWide ∧
      (st2.erase = none ∨ ∃ e a, st2.erase = some (e, a) ∧ K.src[j].hasContents = false ∧ K.src[j].attrs = a) := by
  unfold C03.flush
  cases he : st.erase with
  | none => exact ⟨st, rfl, h, rfl, Or.inl he⟩
  | some pa =>
    obtain ⟨e, a⟩ := pa
    obtain ⟨hej, hel, hwf, hvs⟩ := h.er e a he
    simp only
    by_cases hcond : (K.src[j].hasContents || K.src[j].attrs != a) = true
    · simp only [hcond, ↓reduceIte, subM_ok hej, pure_bind', ok_bind]
      have hd : DrawnW K D e st := by have := h.drawn; simpa [esK, he] using this
      obtain ⟨hd', hp', ha', he', hw'⟩ := eraseMove_drawnW K D hd e a hel hwf
      refine ⟨_, rfl, ⟨?_, ?_⟩, hw', Or.inl rfl⟩
      · show DrawnW K D j _
        obtain ⟨Ri, hem, hmid, hb, hc⟩ := hd'
        rw [hp', ha'] at hem
        have hl : Ri.cells.length = K.r0.g.size.cols := by rw [hmid.len, K.hsrc]
        have hu := K.canvas.cols_u16
        by_cases hn : j - e = 0
        · have hje : e = j := by omega
          refine ⟨Ri, ?_, hje ▸ hmid, Bytes.append hb (eraseChar_bytes _), hc⟩
          simp only [hp', ha']
          have := emitted_step W cb K.ready hem (step_eraseChar W cb (j - e) (by rw [← K.hsrc] at hu; omega))
            (r' := shape K.r0 K.i Ri ⟨K.i, e⟩ a) (by simp [hn])
          exact this
        · have hci := cells_of_emitted hW32 K D hb hem
          have e1 := shape_echD K hl hci e (j - e) (by rw [← K.hsrc]; omega) a
          have := emitted_step W cb K.ready hem (step_eraseChar W cb (j - e) (by rw [← K.hsrc] at hu; omega))
            (r' := shape K.r0 K.i (C07.erasedRow Ri.cells Ri.wrapped e (e + (j - e)) a) ⟨K.i, e⟩ a) (by
              simp only [hn, ↓reduceIte]
              have : (shape K.r0 K.i Ri ⟨K.i, e⟩ a).pen = a := rfl
              rw [this, e1]
              rfl)
          refine ⟨C07.erasedRow Ri.cells Ri.wrapped e (e + (j - e)) a, ?_, ?_, Bytes.append hb (eraseChar_bytes _), hc⟩
          · simp only [hp', ha']; exact this
          · rw [show e + (j - e) = j by omega]
            exact hmid.erase hS D.hP (by omega) (Nat.le_of_lt hj) a (fun k hk h1 h2 => hvs k hk h1 h2)
      · intro e' a' h'; simp at h'
    · simp only [hcond, Bool.false_eq_true, ↓reduceIte]
      simp only [Bool.or_eq_true, bne_iff_ne, ne_eq, not_or, Bool.not_eq_true, Decidable.not_not] at hcond
      exact ⟨st, rfl, h, rfl, Or.inr ⟨e, a, he, hcond.1, hcond.2⟩⟩

/-- a cell with text: move there if need be, set the pen if need be, type it — on whatever the line holds there -/
theorem draw_textP (K : Ctx W cb) (prv : List Cell) (hPw : WideNext prv) (hcb : C13.CbInv W cb)
    (pinv : C13.ParserInv W K.p0) (hW : WOk W) (hS : SrcOk W K.src) {j : Nat} (hj : j < K.src.length)
    {st : Row.FmtSt} (hd : DrawnP K prv j st) (hh : K.src[j].hasContents = true) (hnc : K.src[j].cont = false) :
    C03.emit K.src.length K.i false st j K.src[j] true = .ok (afterText K.i j st K.src[j]) ∧
      DrawnP K prv (j + (if K.src[j].wide then 2 else 1)) (afterText K.i j st K.src[j]) := by
  have hok := hS.cells_ok _ (List.getElem_mem hj)
  obtain ⟨f, zs, ht⟩ := textCell_of hW hok (hS.emit_ok j hj) hh
  have hu := K.canvas.cols_u16
  have hru := K.canvas.rows_u16
  have hi := K.hi
  have hfine : CellFine K.src[j] := cellFine_of_ok hok
  have e3 := emit_text_eq K.src.length K.i j st K.src[j] hh hfine false (fun h => by simp at h)
  refine ⟨e3, ?_⟩
  obtain ⟨Ri, hem, hmid, hb, hc⟩ := hd
  have hb3 : Bytes (afterText K.i j st K.src[j]).out := emit_bytes _ _ _ _ _ _ _ hb e3
  have hl : Ri.cells.length = K.r0.g.size.cols := by rw [hmid.len, K.hsrc]
  -- the move
  have h1 : Emitted W cb K.p0 (if (({ row := K.i, col := j } : Pos) != st.prevPos) = true then
        st.out ++ Term.moveFromTo st.prevPos ⟨K.i, j⟩ else st.out) (shape K.r0 K.i Ri ⟨K.i, j⟩ st.prevAttrs) := by
    by_cases hne : (({ row := K.i, col := j } : Pos) != st.prevPos) = true
    · simp only [hne, ↓reduceIte]
      exact emitted_step W cb K.ready hem
        (step_moveFromTo W cb st.prevPos ⟨K.i, j⟩ (by simp only; omega) (by simp only; rw [← K.hsrc] at hu; omega))
        (shape_goto K.canvas hl st.prevPos ⟨K.i, j⟩ st.prevAttrs K.hi (by rw [← K.hsrc]; exact hj))
    · simp only [hne, Bool.false_eq_true, ↓reduceIte]
      have : st.prevPos = ⟨K.i, j⟩ := by
        have := hne; simp only [bne_iff_ne, ne_eq, Decidable.not_not] at this; exact this.symm
      rw [← this]; exact hem
  -- the pen
  have h2 : Emitted W cb K.p0 ((if (({ row := K.i, col := j } : Pos) != st.prevPos) = true then
        st.out ++ Term.moveFromTo st.prevPos ⟨K.i, j⟩ else st.out) ++
        (if (st.prevAttrs != K.src[j].attrs) = true then K.src[j].attrs.writeEscapeCodeDiff st.prevAttrs else []))
      (shape K.r0 K.i Ri ⟨K.i, j⟩ K.src[j].attrs) := by
    by_cases hp : (st.prevAttrs != K.src[j].attrs) = true
    · simp only [hp, ↓reduceIte]
      exact emitted_step W cb K.ready h1 (step_pen W cb K.src[j].attrs st.prevAttrs (hS.wf j hj))
        (r' := shape K.r0 K.i Ri ⟨K.i, j⟩ K.src[j].attrs) (by simp [shape])
    · have hpa : st.prevAttrs = K.src[j].attrs := by simpa using hp
      simp only [hp, Bool.false_eq_true, ↓reduceIte, List.append_nil]
      rw [← hpa]; exact h1
  have hb2 : Bytes ((if (({ row := K.i, col := j } : Pos) != st.prevPos) = true then
        st.out ++ Term.moveFromTo st.prevPos ⟨K.i, j⟩ else st.out) ++
        (if (st.prevAttrs != K.src[j].attrs) = true then K.src[j].attrs.writeEscapeCodeDiff st.prevAttrs else [])) := by
    have : (afterText K.i j st K.src[j]).out = ((if (({ row := K.i, col := j } : Pos) != st.prevPos) = true then
        st.out ++ Term.moveFromTo st.prevPos ⟨K.i, j⟩ else st.out) ++
        (if (st.prevAttrs != K.src[j].attrs) = true then K.src[j].attrs.writeEscapeCodeDiff st.prevAttrs else [])) ++
        K.src[j].contents.take K.src[j].len := rfl
    rw [this] at hb3
    exact (bytes_append.mp hb3).1
  -- the receiver is well formed here
  have hginv := emitted_inv hW.space hcb pinv hb2 h2
  have hci := cells_of_emitted' hW.space K hcb pinv hb2 h2
  -- the text
  have hstep := step_text W cb (K.src[j].contents.take K.src[j].len) ht.valid
    (by rw [ht.chars]; exact ht.plain) ht.noesc
  rw [ht.chars] at hstep
  have hfit : (shape K.r0 K.i Ri ⟨K.i, j⟩ K.src[j].attrs).g.pos.col + C05.effWidth W f ≤
      (shape K.r0 K.i Ri ⟨K.i, j⟩ K.src[j].attrs).g.size.cols := by
    have := ht.fits
    show j + C05.effWidth W f ≤ K.r0.g.size.cols
    rw [← K.hsrc]; exact this
  obtain ⟨r, cellF, hr, et, hvF, _⟩ := type_cell_any hginv.1 hginv.2 hW.space K.src[j].attrs f zs ht.first ht.width
    ht.zero hfit ht.pre
  have hrRi : r = Ri := by
    have := shape_row K.canvas K.hi Ri ⟨K.i, j⟩ K.src[j].attrs
    have h' : (shape K.r0 K.i Ri ⟨K.i, j⟩ K.src[j].attrs).g.rows[(shape K.r0 K.i Ri ⟨K.i, j⟩ K.src[j].attrs).g.pos.row]? = some Ri := this
    rw [hr] at h'; exact Option.some.inj h'
  subst hrRi
  have hvF' : view cellF = view K.src[j] := by rw [hvF, ht.view]
  have hgrid : typedGrid W (shape K.r0 K.i r ⟨K.i, j⟩ K.src[j].attrs).g r K.src[j].attrs f cellF =
      (shape K.r0 K.i (typedRow W r j K.r0.g.size.cols K.src[j].attrs f cellF) ⟨K.i, j + C05.effWidth W f⟩ K.src[j].attrs).g := by
    simp [typedGrid, shape, List.set_set]
  have h3 := emitted_step W cb K.ready h2 hstep
    (r' := shape K.r0 K.i (typedRow W r j K.r0.g.size.cols K.src[j].attrs f cellF) ⟨K.i, j + C05.effWidth W f⟩ K.src[j].attrs) (by
      have : (shape K.r0 K.i r ⟨K.i, j⟩ K.src[j].attrs).pen = K.src[j].attrs := rfl
      rw [this, et, hgrid]; rfl)
  have hgetD1 := ht.width
  by_cases hwide : K.src[j].wide = true
  · have hw2 : C05.effWidth W f = 2 := by
      have := ht.wide; rw [hwide] at this
      have h' : 1 < (W f).getD 1 := by simpa using this.symm
      unfold C05.effWidth; omega
    simp only [hwide, ↓reduceIte]
    refine ⟨_, ?_, hmid.typed2 hW.space hS hPw hci hj hnc hwide K.r0.g.size.cols K.src[j].attrs f hw2 cellF hvF', hb3, ?_⟩
    · rw [hw2] at h3
      simpa [afterText, Cell.isWide, hwide] using h3
    · have := ht.fits
      refine ⟨?_, fun _ => hS.wf j hj⟩
      simp only [afterText, Cell.isWide, hwide, ↓reduceIte]
      unfold C05.effWidth at hw2; omega
  · have hwide' : K.src[j].wide = false := by simpa using hwide
    have hw1 : C05.effWidth W f = 1 := by
      have := ht.wide; rw [hwide'] at this
      have h' : ¬ 1 < (W f).getD 1 := by simpa using this.symm
      unfold C05.effWidth; omega
    simp only [hwide', Bool.false_eq_true, ↓reduceIte]
    refine ⟨_, ?_, hmid.typed1 hW.space hS hPw hci hj hnc hwide' K.r0.g.size.cols K.src[j].attrs f hw1 cellF hvF', hb3, ?_⟩
    · rw [hw1] at h3
      simpa [afterText, Cell.isWide, hwide'] using h3
    · refine ⟨?_, fun _ => hS.wf j hj⟩
      simp only [afterText, Cell.isWide, hwide', Bool.false_eq_true, ↓reduceIte]
      omega

theorem draw_textW (K : Ctx W cb) (D : DCtx K) (hW : WOk W) (hS : SrcOk W K.src) {j : Nat} (hj : j < K.src.length)
    {st : Row.FmtSt} (hd : DrawnW K D j st) (hh : K.src[j].hasContents = true) (hnc : K.src[j].cont = false) :
    C03.emit K.src.length K.i false st j K.src[j] true = .ok (afterText K.i j st K.src[j]) ∧
      DrawnW K D (j + (if K.src[j].wide then 2 else 1)) (afterText K.i j st K.src[j]) :=
  draw_textP K D.prv (wideNext_of_src D.hP) D.hcb D.pinv hW hS hj hd hh hnc

/-- the invariant of the cell loop -/
structure JW (K : Ctx W cb) (D : DCtx K) (j : Nat) (st : Row.FmtSt) : Prop where
  /-- (new with respect to `DiffRow.JD`) a changed blank cell always leaves an erase run pending -/
  last : ∀ k (hk : k < K.src.length), k + 1 = j → st.prevWasWide = false → K.src[k].cont = false →
    K.src[k].hasContents = false → view K.src[k] ≠ view (D.prv[k]'(by rw [D.hprv]; exact hk)) → st.erase ≠ none
  ww : ∀ (_ : 0 < j) (hl : j ≤ K.src.length), st.prevWasWide = (K.src[j - 1]'(by omega)).wide
  w0 : j = 0 → st.prevWasWide = false
  A : st.prevWasWide = true → st.erase = none ∧ DrawnW K D (j + 1) st
  B : st.prevWasWide = false → Inv1W K D j st

/-- the second half of the per-cell body, from a state in which any finished erase run has been flushed -/
theorem emit_invW (K : Ctx W cb) (D : DCtx K) (hW : WOk W) (hS : SrcOk W K.src) {j : Nat} (hj : j < K.src.length)
    (hnc : K.src[j].cont = false) {st2 : Row.FmtSt} (hI2 : Inv1W K D j st2) (hw2' : st2.prevWasWide = K.src[j].wide)
    (hdisj : st2.erase = none ∨ ∃ e a, st2.erase = some (e, a) ∧ K.src[j].hasContents = false ∧ K.src[j].attrs = a) :
    ∃ st', C03.emit K.src.length K.i false st2 j K.src[j] (!(K.src[j].eq (D.prv[j]'(by rw [D.hprv]; exact hj)))) = .ok st' ∧
      JW K D (j + 1) st' := by
  have hok := hS.cells_ok _ (List.getElem_mem hj)
  by_cases hd : K.src[j].eq (D.prv[j]'(by rw [D.hprv]; exact hj)) = true
  · -- an unchanged cell: nothing is written
    have hv : view K.src[j] = view (D.prv[j]'(by rw [D.hprv]; exact hj)) := (eq_iff_view _ _).mp hd
    simp only [hd, Bool.not_true, C03.emit, Bool.false_eq_true, ↓reduceIte, pure_eq_ok]
    refine ⟨st2, rfl, ⟨?_, ?_, ?_, ?_, ?_⟩⟩
    · intro k hk hkj _ _ _ hne
      have : k = j := by omega
      subst this
      exact absurd hv hne
    · intro _ _; simp [hw2']
    · intro h0; omega
    · intro h'
      have hwide : K.src[j].wide = true := by rw [← hw2']; exact h'
      have hnone : st2.erase = none := by
        rcases hdisj with h1 | ⟨_, _, _, h2, _⟩
        · exact h1
        · rw [wide_has_contents hok hwide] at h2; simp at h2
      refine ⟨hnone, ?_⟩
      obtain ⟨Ri, hem, hmid, hb, hc⟩ : DrawnW K D j st2 := by have := hI2.drawn; simpa [esK, hnone] using this
      exact ⟨Ri, hem, hmid.skip2 hS D.hP hj hv hwide, hb, hc⟩
    · intro h'
      have hnw : K.src[j].wide = false := by rw [← hw2']; exact h'
      rcases hdisj with hnone | ⟨e, a, hea, hh', haa⟩
      · refine ⟨?_, fun e a h'' => by rw [hnone] at h''; simp at h''⟩
        obtain ⟨Ri, hem, hmid, hb, hc⟩ : DrawnW K D j st2 := by have := hI2.drawn; simpa [esK, hnone] using this
        simp only [esK, hnone]
        exact ⟨Ri, hem, hmid.skip1 hj hv, hb, hc⟩
      · obtain ⟨h1, h2, h3, h4⟩ := hI2.er e a hea
        refine ⟨?_, ?_⟩
        · have := hI2.drawn; simp only [esK, hea] at this ⊢; exact this
        · intro e' a' h''
          rw [hea] at h''
          simp only [Option.some.injEq, Prod.mk.injEq] at h''
          obtain ⟨rfl, rfl⟩ := h''
          refine ⟨by omega, h2, h3, ?_⟩
          intro k hk hk1 hk2
          by_cases hkj : k = j
          · subst hkj
            have hbv := hS.blank_view k hk hh'
            rw [hnc, haa] at hbv
            rw [hbv]; rfl
          · exact h4 k hk hk1 (by omega)
  · have hd' : (!(K.src[j].eq (D.prv[j]'(by rw [D.hprv]; exact hj)))) = true := by simpa using hd
    rw [hd']
    by_cases hh : K.src[j].hasContents = true
    · -- text
      have hnone : st2.erase = none := by
        rcases hdisj with h1 | ⟨_, _, _, h2, _⟩
        · exact h1
        · rw [hh] at h2; simp at h2
      have hdj : DrawnW K D j st2 := by have := hI2.drawn; simpa [esK, hnone] using this
      obtain ⟨e3, hd3⟩ := draw_textW K D hW hS hj hdj hh hnc
      refine ⟨_, e3, ⟨?_, ?_, ?_, ?_, ?_⟩⟩
      · intro k hk hkj _ _ hnh _
        have : k = j := by omega
        subst this
        rw [hh] at hnh; exact absurd hnh (by simp)
      · intro _ _; simp [afterText, hw2']
      · intro h0; omega
      · intro h'
        have hwide : K.src[j].wide = true := by simpa [afterText, hw2'] using h'
        refine ⟨by simpa [afterText] using hnone, ?_⟩
        simpa [hwide] using hd3
      · intro h'
        have hwide : K.src[j].wide = false := by simpa [afterText, hw2'] using h'
        refine ⟨?_, fun e a h'' => by simp [afterText, hnone] at h''⟩
        have : esK (j + 1) (afterText K.i j st2 K.src[j]) = j + 1 := by simp [esK, afterText, hnone]
        rw [this]
        simpa [hwide] using hd3
    · -- a blank cell: an erase run starts or goes on
      have hh' : K.src[j].hasContents = false := by simpa using hh
      have hbv := hS.blank_view j hj hh'
      rw [hnc] at hbv
      have hnw : K.src[j].wide = false := by
        simp only [view, View.mk.injEq] at hbv; exact hbv.2.1
      simp only [C03.emit, ↓reduceIte, hh', Bool.false_eq_true]
      rcases hdisj with hnone | ⟨e, a, hea, _, haa⟩
      · simp only [hnone, Option.isNone_none, ↓reduceIte, pure_eq_ok]
        have hdj : DrawnW K D j st2 := by have := hI2.drawn; simpa [esK, hnone] using this
        refine ⟨_, rfl, ⟨?_, ?_, ?_, ?_, ?_⟩⟩
        · intro _ _ _ _ _ _ _; simp
        · intro _ _; simp [hw2', hnw]
        · intro h0; omega
        · intro h'; simp only at h'; rw [hw2', hnw] at h'; simp at h'
        · intro _
          refine ⟨?_, ?_⟩
          · simp only [esK]; exact drawnW_congr K D hdj rfl rfl rfl
          · intro e' a' h'
            simp only [Option.some.injEq, Prod.mk.injEq] at h'
            obtain ⟨rfl, rfl⟩ := h'
            refine ⟨by omega, hj, hS.wf j hj, ?_⟩
            intro k hk hk1 hk2
            have : k = j := by omega
            subst this
            rw [hbv]; rfl
      · simp only [hea, Option.isNone_some, Bool.false_eq_true, ↓reduceIte, pure_eq_ok]
        obtain ⟨h1, h2, h3, h4⟩ := hI2.er e a hea
        refine ⟨st2, rfl, ⟨?_, ?_, ?_, ?_, ?_⟩⟩
        · intro _ _ _ _ _ _ _; rw [hea]; simp
        · intro _ _; simp [hw2', hnw]
        · intro h0; omega
        · intro h'; rw [hw2', hnw] at h'; simp at h'
        · intro _
          refine ⟨?_, ?_⟩
          · have := hI2.drawn; simp only [esK, hea] at this ⊢; exact this
          · intro e' a' h'
            rw [hea] at h'
            simp only [Option.some.injEq, Prod.mk.injEq] at h'
            obtain ⟨rfl, rfl⟩ := h'
            refine ⟨by omega, h2, h3, ?_⟩
            intro k hk hk1 hk2
            by_cases hkj : k = j
            · subst hkj; rw [hbv, haa]; rfl
            · exact h4 k hk hk1 (by omega)

/-- **one cell of the diff loop** -/
theorem diffStep_invW (K : Ctx W cb) (D : DCtx K) (hW : WOk W) (hS : SrcOk W K.src) {j : Nat} (hj : j < K.src.length)
    {st : Row.FmtSt} (h : JW K D j st) :
    ∃ st', Row.diffStep K.src.length K.i false st (j, (K.src[j], D.prv[j]'(by rw [D.hprv]; exact hj))) = .ok st' ∧
      JW K D (j + 1) st' := by
  have hok := hS.cells_ok _ (List.getElem_mem hj)
  unfold Row.diffStep
  simp only
  by_cases hpw : st.prevWasWide = true
  · -- the second half of a wide character: skipped
    simp only [hpw, ↓reduceIte]
    obtain ⟨he, hd⟩ := h.A hpw
    have hj0 : 0 < j := by
      rcases Nat.eq_zero_or_pos j with h0 | h0
      · have := h.w0 h0; rw [hpw] at this; simp at this
      · exact h0
    have hprev := h.ww hj0 (Nat.le_of_lt hj)
    have hcont : K.src[j].cont = true := by
      rw [hS.cont_iff j hj, if_neg (by omega), ← hprev, hpw]
    have hnw : K.src[j].wide = false := (cellOk_cont W _ hok hcont).1
    refine ⟨_, rfl, ⟨?_, ?_, ?_, ?_, ?_⟩⟩
    · intro k hk hkj _ hnc _ _
      have : k = j := by omega
      subst this
      rw [hcont] at hnc; exact absurd hnc (by simp)
    · intro _ _; simp [hnw]
    · intro h0; omega
    · intro h'; simp at h'
    · intro _
      refine ⟨?_, ?_⟩
      · simp only [esK, he]; exact drawnW_congr K D hd rfl rfl rfl
      · intro e a h'; simp only at h'; rw [he] at h'; simp at h'
  · have hpw' : st.prevWasWide = false := by simpa using hpw
    simp only [hpw', Bool.false_eq_true, ↓reduceIte]
    have hnc : K.src[j].cont = false := by
      rw [hS.cont_iff j hj]
      by_cases h0 : j = 0
      · simp [h0]
      · rw [if_neg h0, ← h.ww (by omega) (Nat.le_of_lt hj)]; exact hpw'
    have hB := h.B hpw'
    rw [C03.fmtCellStep_eq]
    have hB1 : Inv1W K D j { st with prevWasWide := K.src[j].isWide } := inv1W_congr K D hB rfl rfl rfl rfl
    obtain ⟨st2, e2, hI2, hw2, hdisj⟩ := flush_invW hW.space K D hS hj hB1
    rw [e2]
    simp only [ok_bind]
    have hw2' : st2.prevWasWide = K.src[j].wide := hw2
    exact emit_invW K D hW hS hj hnc hI2 hw2' hdisj

/-- the loop over the cells `j, j+1, …` of the two lines -/
theorem fold_invW (K : Ctx W cb) (D : DCtx K) (hW : WOk W) (hS : SrcOk W K.src) :
    ∀ (cs : List (Cell × Cell)) (j : Nat) (st : Row.FmtSt),
    (K.src.zip D.prv).drop j = cs → j ≤ K.src.length → JW K D j st →
    ∃ st', (C14.enumFrom j cs).foldlM (Row.diffStep K.src.length K.i false) st = .ok st' ∧ JW K D K.src.length st'
  | [], j, st, hcs, hjl, h => by
    have : j = K.src.length := by
      have := congrArg List.length hcs
      simp only [List.length_drop, List.length_nil, List.length_zip, D.hprv, Nat.min_self] at this
      omega
    subst this
    exact ⟨st, rfl, h⟩
  | c :: cs, j, st, hcs, hjl, h => by
    have hj : j < K.src.length := by
      have := congrArg List.length hcs
      simp only [List.length_drop, List.length_cons, List.length_zip, D.hprv, Nat.min_self] at this
      omega
    have hjz : j < (K.src.zip D.prv).length := by simp [List.length_zip, D.hprv]; exact hj
    have hc : (K.src[j], D.prv[j]'(by rw [D.hprv]; exact hj)) = c := by
      have := congrArg (fun l => l[0]?) hcs
      simp only [List.getElem?_drop, Nat.add_zero, List.getElem?_eq_getElem hjz, List.getElem?_cons_zero,
        Option.some.injEq, List.getElem_zip] at this
      exact this
    have hcs' : (K.src.zip D.prv).drop (j + 1) = cs := by
      have := congrArg List.tail hcs
      simpa [List.tail_drop] using this
    obtain ⟨st1, e1, h1⟩ := diffStep_invW K D hW hS hj h
    obtain ⟨st', e2, h2⟩ := fold_invW K D hW hS cs (j + 1) st1 hcs' (by omega) h1
    refine ⟨st', ?_, h2⟩
    have : C14.enumFrom j (c :: cs) = (j, c) :: C14.enumFrom (j + 1) cs := by
      simp [C14.enumFrom, List.zipIdx_cons]
    rw [this, List.foldlM_cons, ← hc, e1]
    exact e2

/-- the end of the line: a pending erase run becomes an EL -/
theorem finish_drawnW (K : Ctx W cb) (D : DCtx K) (hW : WOk W) (hS : SrcOk W K.src) (hne : 0 < K.src.length) {st : Row.FmtSt}
    (h : JW K D K.src.length st) : DrawnW K D K.src.length (Row.fmtFinish K.src.length K.i false st) := by
  have hpw : st.prevWasWide = false := by
    by_cases hp : st.prevWasWide = true
    · have := h.ww hne (Nat.le_refl _)
      rw [hp] at this
      obtain ⟨hj', _⟩ := hS.wide_next (K.src.length - 1) (by omega) this.symm
      omega
    · simpa using hp
  have hB := h.B hpw
  unfold Row.fmtFinish
  cases he : st.erase with
  | none =>
    have := hB.drawn
    simpa [esK, he] using this
  | some pa =>
    obtain ⟨e, a⟩ := pa
    obtain ⟨hej, hel, hwf, hvs⟩ := hB.er e a he
    have hd : DrawnW K D e st := by have := hB.drawn; simpa [esK, he] using this
    obtain ⟨hd', hp', ha', _, _⟩ := eraseMove_drawnW K D hd e a hel hwf
    obtain ⟨Ri, hem, hmid, hb, hc⟩ := hd'
    rw [hp', ha'] at hem
    have hl : Ri.cells.length = K.r0.g.size.cols := by rw [hmid.len, K.hsrc]
    have hci := cells_of_emitted hW.space K D hb hem
    have e1 := shape_elD K hl hci e (by rw [← K.hsrc]; omega) a
    have := emitted_step W cb K.ready hem (step_clearRowForward W cb)
      (r' := shape K.r0 K.i (C07.erasedRow Ri.cells Ri.wrapped e K.r0.g.size.cols a) ⟨K.i, e⟩ a) (by
        have : (shape K.r0 K.i Ri ⟨K.i, e⟩ a).pen = a := rfl
        rw [this, e1]; rfl)
    refine ⟨C07.erasedRow Ri.cells Ri.wrapped e K.r0.g.size.cols a, ?_, ?_, Bytes.append hb clearRowForward_bytes, hc⟩
    · simp only [hp', ha']
      exact this
    · rw [← K.hsrc]
      exact hmid.erase hS D.hP hel (Nat.le_refl _) a (fun k hk h1 _ => hvs k hk h1 hk)


/-! ## Part 2: `diffEnd` — the last character of the line is re-typed when the wrap flag changed -/

/-- the receiving line shows the current line (whatever its wrap flag) -/
theorem full_get {S : List Cell} {Ri : Row} (h : Ri.cells.map view = S.map view) :
    ∃ hl : Ri.cells.length = S.length, ∀ k (hk : k < S.length), view (Ri.cells[k]'(by rw [hl]; exact hk)) = view S[k] := by
  have hl : Ri.cells.length = S.length := by
    have := congrArg List.length h
    simpa only [List.length_map] using this
  refine ⟨hl, fun k hk => ?_⟩
  have := congrArg (fun l => l[k]?) h
  simp only [List.getElem?_map, List.getElem?_eq_getElem (show k < Ri.cells.length by rw [hl]; exact hk),
    List.getElem?_eq_getElem hk, Option.map_some, Option.some.injEq] at this
  exact this

/-- a line that shows the current line on the columns before `c`, seen as the middle of a diff against ITSELF -/
theorem mid_self {S : List Cell} {c : Nat} {R : Row} (hl : R.cells.length = S.length)
    (hlo : ∀ k (hk : k < S.length), k < c → view (R.cells[k]'(by rw [hl]; exact hk)) = view S[k]) : Mid' S R.cells c R :=
  ⟨hl, hl, hlo, fun _ _ _ => rfl, fun _ => Or.inl rfl⟩

/-- the column of the last character of a line: the last column, or the one before it when the last column is the
second half of a wide character -/
theorem endCol_facts {S : List Cell} (hS : SrcOk W S) (hne : 0 < S.length) :
    ∃ c, ∃ hc : c < S.length, c = (if (S[S.length - 1]'(by omega)).cont = true then S.length - 2 else S.length - 1) ∧
      S[c].cont = false ∧ c + (if S[c].wide = true then 2 else 1) = S.length ∧
      ((S[S.length - 1]'(by omega)).cont = true → 2 ≤ S.length) := by
  have hl : S.length - 1 < S.length := by omega
  by_cases hc : (S[S.length - 1]'hl).cont = true
  · have h1 := hS.cont_iff (S.length - 1) hl
    rw [hc] at h1
    by_cases h0 : S.length - 1 = 0
    · rw [if_pos h0] at h1; exact absurd h1 (by simp)
    · rw [if_neg h0] at h1
      have e : S.length - 1 - 1 = S.length - 2 := by omega
      have hw : (S[S.length - 2]'(by omega)).wide = true := by
        have : (S[S.length - 1 - 1]'(by omega)).wide = true := h1.symm
        simpa only [e] using this
      refine ⟨S.length - 2, by omega, by rw [if_pos hc], ?_, ?_⟩
      · cases hcc : (S[S.length - 2]'(by omega)).cont
        · rfl
        · have := (cellOk_cont W _ (hS.cells_ok _ (List.getElem_mem (by omega))) hcc).1
          rw [hw] at this; exact absurd this (by simp)
      · rw [if_pos hw]; omega
  · refine ⟨S.length - 1, hl, by rw [if_neg hc], by simpa using hc, ?_, fun h => absurd h hc⟩
    cases hw : (S[S.length - 1]'hl).wide
    · simp; omega
    · obtain ⟨h', _⟩ := hS.wide_next _ hl hw
      omega

/-- re-typing the last character `S[c]` of the line at its place, on a receiving line that shows `S` on the columns
before `c` (whatever it shows from `c` on): the line shows `S` everywhere, the cursor ends in the pending-wrap column -/
theorem retype (K : Ctx W cb) (hcb : C13.CbInv W cb) (pinv : C13.ParserInv W K.p0) (hW : WOk W) (hS : SrcOk W K.src)
    {c : Nat} (hc : c < K.src.length) (hcc : K.src[c].cont = false)
    (hcw : c + (if K.src[c].wide = true then 2 else 1) = K.src.length) (hh : K.src[c].hasContents = true)
    {out : List Nat} {R : Row} {pen : Attrs} (hem : Emitted W cb K.p0 out (shape K.r0 K.i R ⟨K.i, c⟩ pen)) (hb : Bytes out)
    (hl : R.cells.length = K.src.length)
    (hlo : ∀ k (hk : k < K.src.length), k < c → view (R.cells[k]'(by rw [hl]; exact hk)) = view K.src[k])
    (hwf : Attrs.wf K.r0.pen → Attrs.wf pen) :
    ∃ R', Emitted W cb K.p0
        ((out ++ (if (pen != K.src[c].attrs) = true then K.src[c].attrs.writeEscapeCodeDiff pen else [])) ++
          K.src[c].contents.take K.src[c].len)
        (shape K.r0 K.i R' ⟨K.i, K.src.length⟩ K.src[c].attrs) ∧ R'.cells.map view = K.src.map view ∧
      Bytes ((out ++ (if (pen != K.src[c].attrs) = true then K.src[c].attrs.writeEscapeCodeDiff pen else [])) ++
          K.src[c].contents.take K.src[c].len) := by
  have hci := cells_of_emitted' hW.space K hcb pinv hb hem
  have hd : DrawnP K R.cells c ⟨false, ⟨K.i, c⟩, pen, none, out⟩ :=
    ⟨R, hem, mid_self hl hlo, hb, Nat.le_of_lt hc, hwf⟩
  obtain ⟨_, R', hem', hmid', hb', _⟩ := draw_textP K R.cells (wideNext_of_inv hci) hcb pinv hW hS hc hd hh hcc
  rw [hcw] at hmid'
  have e1 : (afterText K.i c ⟨false, ⟨K.i, c⟩, pen, none, out⟩ K.src[c]).out =
      (out ++ (if (pen != K.src[c].attrs) = true then K.src[c].attrs.writeEscapeCodeDiff pen else [])) ++
          K.src[c].contents.take K.src[c].len := by
    simp [afterText]
  have e2 : (afterText K.i c ⟨false, ⟨K.i, c⟩, pen, none, out⟩ K.src[c]).prevPos = ⟨K.i, K.src.length⟩ := by
    simp only [afterText, Cell.isWide]
    exact congrArg (fun x => (⟨K.i, x⟩ : Pos)) hcw
  have e3 : (afterText K.i c ⟨false, ⟨K.i, c⟩, pen, none, out⟩ K.src[c]).prevAttrs = K.src[c].attrs := rfl
  rw [e1, e2, e3] at hem'
  rw [e1] at hb'
  exact ⟨R', hem', hmid'.full, hb'⟩

/-- ECH 1 on the last character leaves the columns before it as they are -/
theorem erase_lo {S : List Cell} (hS : SrcOk W S) {Ri : Row} (hl : Ri.cells.length = S.length)
    (hv : ∀ k (hk : k < S.length), view (Ri.cells[k]'(by rw [hl]; exact hk)) = view S[k]) {c : Nat} (hc : c < S.length)
    (hcc : S[c].cont = false) (w : Bool) (a : Attrs) :
    ∃ hl' : (C07.erasedRow Ri.cells w c (c + 1) a).cells.length = S.length,
      (∀ k (hk : k < S.length), k < c →
        view ((C07.erasedRow Ri.cells w c (c + 1) a).cells[k]'(by rw [hl']; exact hk)) = view S[k]) ∧
      view ((C07.erasedRow Ri.cells w c (c + 1) a).cells[c]'(by rw [hl']; exact hc)) = blankA a := by
  have hlen : (C07.erasedRow Ri.cells w c (c + 1) a).cells.length = S.length := by
    simp [C07.erasedRow, C07.eraseRange_length, hl]
  refine ⟨hlen, ?_, ?_⟩
  · intro k hk hkc
    have hkR : k < Ri.cells.length := by rw [hl]; exact hk
    rw [erasedRow_get _ _ _ _ _ k hkR]
    have hun : C07.rangeCell c (c + 1) a k Ri.cells[k] = Ri.cells[k] := by
      unfold C07.rangeCell
      rw [if_neg (by omega)]
      by_cases hk1 : k + 1 = c
      · have hnw : Ri.cells[k].wide = false := by
          cases hw : Ri.cells[k].wide
          · rfl
          · exfalso
            have hsw : S[k].wide = true := by rw [← view_wide (hv k hk)]; exact hw
            obtain ⟨hk1', hc'⟩ := hS.wide_next k hk hsw
            have : S[c].cont = true := by
              subst hk1; exact hc'
            rw [hcc] at this; exact absurd this (by simp)
        rw [if_neg (by rw [hnw]; simp), if_neg (by omega)]
      · rw [if_neg (by omega), if_neg (by omega)]
    rw [hun]; exact hv k hk
  · have hkR : c < Ri.cells.length := by rw [hl]; exact hc
    rw [erasedRow_get _ _ _ _ _ c hkR]
    have : C07.rangeCell c (c + 1) a c Ri.cells[c] = Ri.cells[c].clear a := by
      unfold C07.rangeCell; rw [if_pos ⟨Nat.le_refl _, by omega⟩]
    rw [this, view_clear]

/-- `diffEnd` when the wrap flag changed, as one expression -/
theorem diffEnd_eq (sr pr : Row) (i : Nat) (st : Row.FmtSt)
    (hcond : ((!sr.wrapped && pr.wrapped) || (!pr.wrapped && sr.wrapped)) = true) (hne : 0 < sr.cells.length)
    (c : Nat) (hc : c < sr.cells.length)
    (hce : c = (if (sr.cells[sr.cells.length - 1]'(by omega)).cont = true then sr.cells.length - 2 else sr.cells.length - 1))
    (h2 : (sr.cells[sr.cells.length - 1]'(by omega)).cont = true → 2 ≤ sr.cells.length) (hf : CellFine sr.cells[c]) :
    Row.diffEnd sr pr i st = .ok (
      if sr.cells[c].hasContents = true then
        ((((st.out ++ Term.moveFromTo st.prevPos ⟨i, c⟩) ++ (if sr.wrapped = false then Term.eraseChar 1 else [])) ++
            (if (st.prevAttrs != sr.cells[c].attrs) = true then sr.cells[c].attrs.writeEscapeCodeDiff st.prevAttrs else [])) ++
            sr.cells[c].contents.take sr.cells[c].len,
          ⟨i, c + (if sr.cells[c].wide = true then 2 else 1)⟩, sr.cells[c].attrs)
      else
        ((st.out ++ Term.moveFromTo st.prevPos ⟨i, c⟩) ++ (if sr.wrapped = false then Term.eraseChar 1 else []),
          ⟨i, c⟩, st.prevAttrs)) := by
  unfold Row.diffEnd
  rw [if_pos hcond]
  have hl1 : sr.cells.length - 1 < sr.cells.length := by omega
  simp only [Row.cols, subM_ok (show 1 ≤ sr.cells.length by omega), getM_ok hl1, ok_bind, pure_bind']
  by_cases hcont : (sr.cells[sr.cells.length - 1]'hl1).cont = true
  · rw [if_pos hcont] at hce
    have h2' := h2 hcont
    subst hce
    simp only [Cell.isWideContinuation, hcont, ↓reduceIte, subM_ok h2', ok_bind, pure_bind', getM_ok hc]
    by_cases hh : sr.cells[sr.cells.length - 2].hasContents = true
    · simp only [hh, ↓reduceIte, contentsBytes_ok hf, ok_bind, pure_bind', pure_eq_ok, Cell.isWide]
      cases sr.wrapped <;> by_cases hp : (st.prevAttrs != sr.cells[sr.cells.length - 2].attrs) = true <;> simp [hp]
      all_goals first | rfl | exact ⟨rfl, by simpa using hp⟩ | (simpa using hp)
    · simp only [hh, Bool.false_eq_true, ↓reduceIte, pure_eq_ok]
      cases sr.wrapped <;> simp
  · rw [if_neg hcont] at hce
    subst hce
    simp only [Cell.isWideContinuation, hcont, Bool.false_eq_true, ↓reduceIte, ok_bind, pure_bind', pure_eq_ok, getM_ok hc]
    by_cases hh : sr.cells[sr.cells.length - 1].hasContents = true
    · simp only [hh, ↓reduceIte, contentsBytes_ok hf, ok_bind, pure_bind', pure_eq_ok, Cell.isWide]
      cases sr.wrapped <;> by_cases hp : (st.prevAttrs != sr.cells[sr.cells.length - 1].attrs) = true <;> simp [hp]
      all_goals first | rfl | exact ⟨rfl, by simpa using hp⟩ | (simpa using hp)
    · simp only [hh, Bool.false_eq_true, ↓reduceIte, pure_eq_ok]
      cases sr.wrapped <;> simp

/-- the line shows `S` on the columns before `c`, a blank with the attributes of `S[c]` at the last column `c` -/
theorem full_of_lo {S : List Cell} {R : Row} (hl : R.cells.length = S.length) {c : Nat} (hc : c < S.length)
    (hcl : c + 1 = S.length)
    (hlo : ∀ k (hk : k < S.length), k < c → view (R.cells[k]'(by rw [hl]; exact hk)) = view S[k])
    (hcv : view (R.cells[c]'(by rw [hl]; exact hc)) = view S[c]) : R.cells.map view = S.map view := by
  apply List.ext_getElem?
  intro k
  simp only [List.getElem?_map]
  by_cases hk : k < S.length
  · rw [List.getElem?_eq_getElem (show k < R.cells.length by rw [hl]; exact hk), List.getElem?_eq_getElem hk]
    simp only [Option.map_some, Option.some.injEq]
    by_cases hkc : k < c
    · exact hlo k hk hkc
    · have : k = c := by omega
      subst this; exact hcv
  · rw [List.getElem?_eq_none (by rw [hl]; omega), List.getElem?_eq_none (by omega)]

/-- **the tail of one line of a diff**: after the cell loop the receiving line shows the current line; `diffEnd` keeps
it so.  The one case that needs a hypothesis: the line has just become UNwrapped (`ESC[X` is written on the last
column with the pen the cell loop ended with) and its last cell has no text — then that cell's attributes must be the
pen's (`hE`). -/
theorem diffEnd_drawn (K : Ctx W cb) (prv : List Cell) (hcb : C13.CbInv W cb) (pinv : C13.ParserInv W K.p0) (hW : WOk W)
    (hS : SrcOk W K.src) (hne : 0 < K.src.length) (sw : Bool) (pr : Row) {st : Row.FmtSt}
    (hd : DrawnP K prv K.src.length st)
    (hE : sw = false → pr.wrapped = true → ∀ c (hc : c < K.src.length), c + 1 = K.src.length →
      K.src[c].cont = false → K.src[c].hasContents = false → K.src[c].attrs = st.prevAttrs) :
    ∃ out np na, Row.diffEnd ⟨K.src, sw⟩ pr K.i st = .ok (out, np, na) ∧
      (∃ Ri, Emitted W cb K.p0 out (shape K.r0 K.i Ri np na) ∧ Ri.cells.map view = K.src.map view) ∧ Bytes out ∧
      np.col ≤ K.src.length ∧ (Attrs.wf K.r0.pen → Attrs.wf na) := by
  obtain ⟨Ri, hem, hmid, hb, hcp, hwf⟩ := hd
  have hfull := hmid.full
  by_cases hcond : ((!sw && pr.wrapped) || (!pr.wrapped && sw)) = true
  · obtain ⟨c, hc, hce, hcc, hcw, h2⟩ := endCol_facts hS hne
    have hok := hS.cells_ok _ (List.getElem_mem hc)
    rw [diffEnd_eq ⟨K.src, sw⟩ pr K.i st hcond hne c hc hce h2 (cellFine_of_ok hok)]
    obtain ⟨hl, hv⟩ := full_get hfull
    have hlc : Ri.cells.length = K.r0.g.size.cols := by rw [hl, K.hsrc]
    have hu := K.canvas.cols_u16
    have hru := K.canvas.rows_u16
    have hi := K.hi
    have h1 := emitted_step W cb K.ready hem
      (step_moveFromTo W cb st.prevPos ⟨K.i, c⟩ (by simp only; omega) (by simp only; rw [← K.hsrc] at hu; omega))
      (shape_goto K.canvas hlc st.prevPos ⟨K.i, c⟩ st.prevAttrs K.hi (by rw [← K.hsrc]; exact hc))
    have hb1 := Bytes.append hb (moveFromTo_bytes st.prevPos ⟨K.i, c⟩)
    cases sw
    · -- the line became unwrapped: ECH 1 on the last character first
      simp only [↓reduceIte]
      have hpw : pr.wrapped = true := by simpa using hcond
      have hci := cells_of_emitted' hW.space K hcb pinv hb1 h1
      have e1 := shape_echD K hlc hci c 1 (by rw [← K.hsrc]; omega) st.prevAttrs
      have h2e := emitted_step W cb K.ready h1 (step_eraseChar W cb 1 (by omega))
        (r' := shape K.r0 K.i (C07.erasedRow Ri.cells Ri.wrapped c (c + 1) st.prevAttrs) ⟨K.i, c⟩ st.prevAttrs) (by
          simp only [Nat.succ_ne_zero, ↓reduceIte]
          have : (shape K.r0 K.i Ri ⟨K.i, c⟩ st.prevAttrs).pen = st.prevAttrs := rfl
          rw [this, e1]
          rfl)
      have hb2 := Bytes.append hb1 (eraseChar_bytes 1)
      obtain ⟨hl', hlo, hcv⟩ := erase_lo hS hl hv hc hcc Ri.wrapped st.prevAttrs
      by_cases hh : K.src[c].hasContents = true
      · rw [if_pos hh]
        obtain ⟨R', hem', hfull', hb'⟩ := retype K hcb pinv hW hS hc hcc hcw hh h2e hb2 hl' hlo hwf
        exact ⟨_, _, _, rfl, ⟨R', by rw [hcw]; exact hem', hfull'⟩, hb', by simp only; omega, fun _ => hS.wf c hc⟩
      · rw [if_neg hh]
        have hh' : K.src[c].hasContents = false := by simpa using hh
        have hnw : K.src[c].wide = false := by
          cases hw : K.src[c].wide
          · rfl
          · rw [wide_has_contents hok hw] at hh'; exact absurd hh' (by simp)
        have hcl : c + 1 = K.src.length := by simpa [hnw] using hcw
        have hat := hE rfl hpw c hc hcl hcc hh'
        refine ⟨_, _, _, rfl, ⟨_, h2e, full_of_lo hl' hc hcl hlo ?_⟩, hb2, Nat.le_of_lt hc, hwf⟩
        rw [hcv, hS.blank_view c hc hh', hcc, hat]; rfl
    · -- the line became wrapped: only the last character is re-typed
      simp only [Bool.true_eq_false, ↓reduceIte, List.append_nil]
      by_cases hh : K.src[c].hasContents = true
      · rw [if_pos hh]
        obtain ⟨R', hem', hfull', hb'⟩ := retype K hcb pinv hW hS hc hcc hcw hh h1 hb1 hl (fun k hk _ => hv k hk) hwf
        exact ⟨_, _, _, rfl, ⟨R', by rw [hcw]; exact hem', hfull'⟩, hb', by simp only; omega, fun _ => hS.wf c hc⟩
      · rw [if_neg hh]
        exact ⟨_, _, _, rfl, ⟨Ri, h1, hfull⟩, hb1, Nat.le_of_lt hc, hwf⟩
  · unfold Row.diffEnd
    rw [if_neg hcond]
    exact ⟨_, _, _, rfl, ⟨Ri, hem, hfull⟩, hb, hcp, hwf⟩

/-! ## one line of a diff, any wrap flags -/

/-- the pen with which the emitter leaves the cell loop (and its final erase-run flush) of
`sr.write_contents_diff(pr, 0, cols, i, false, …)` entered with cursor `pos` and pen `pen` -/
def loopPen (sr pr : Row) (i : Nat) (pos : Pos) (pen : Attrs) : Attrs :=
  match (Row.window (sr.cells.zip pr.cells) 0 sr.cells.length).foldlM (Row.diffStep sr.cells.length i false)
      (start pos pen) with
  | .ok st => (Row.fmtFinish sr.cells.length i false st).prevAttrs
  | .error _ => pen

/-- the one situation in which `diffEnd` writes something that is not a re-typing: the line has just become
unwrapped and its last cell has no text (and is not the second half of a wide character) -/
def EraseEnd (sr pr : Row) (a : Attrs) : Prop :=
  sr.wrapped = false → pr.wrapped = true → ∀ c (hc : c < sr.cells.length), c + 1 = sr.cells.length →
    sr.cells[c].cont = false → sr.cells[c].hasContents = false → sr.cells[c].attrs = a

/-- the fixed data of the simulation for one line -/
def mkK (p0 : Parser) (hr : Ready p0) (hcv : Canvas (rsOf p0.ws).g) (i : Nat) (hi : i < (rsOf p0.ws).g.size.rows)
    (sr : Row) (hlen : sr.cells.length = (rsOf p0.ws).g.size.cols) : Ctx W cb :=
  ⟨p0, hr, rsOf p0.ws, hcv, i, hi, sr.cells, hlen⟩

def mkD (hcb : C13.CbInv W cb) (p0 : Parser) (hr : Ready p0) (hpi : C13.ParserInv W p0) (hcv : Canvas (rsOf p0.ws).g)
    (i : Nat) (hi : i < (rsOf p0.ws).g.size.rows) (sr pr : Row) (hlen : sr.cells.length = (rsOf p0.ws).g.size.cols)
    (hplen : pr.cells.length = (rsOf p0.ws).g.size.cols) (hP : SrcOk W pr.cells) :
    DCtx (mkK (W := W) (cb := cb) p0 hr hcv i hi sr hlen) :=
  ⟨pr.cells, by show pr.cells.length = sr.cells.length; rw [hplen, hlen], hP, hpi, hcb⟩

/-- the cell loop of one line of a diff runs, and ends in the loop invariant at the end of the line -/
theorem row_diff_loop (hW : WOk W) (hcb : C13.CbInv W cb) (p0 : Parser) (hr : Ready p0) (hpi : C13.ParserInv W p0)
    (hcv : Canvas (rsOf p0.ws).g) (i : Nat) (hi : i < (rsOf p0.ws).g.size.rows) (sr pr : Row)
    (hlen : sr.cells.length = (rsOf p0.ws).g.size.cols) (hplen : pr.cells.length = (rsOf p0.ws).g.size.cols)
    (hS : SrcOk W sr.cells) (hP : SrcOk W pr.cells)
    (Ri0 : Row) (hrow : (rsOf p0.ws).g.rows[i]? = some Ri0) (hshow : Ri0.cells.map view = pr.cells.map view)
    (hpc : (rsOf p0.ws).g.pos.col ≤ (rsOf p0.ws).g.size.cols) :
    ∃ st', (Row.window (sr.cells.zip pr.cells) 0 sr.cells.length).foldlM (Row.diffStep sr.cells.length i false)
        (start (rsOf p0.ws).g.pos (rsOf p0.ws).pen) = .ok st' ∧
      JW (mkK p0 hr hcv i hi sr hlen) (mkD hcb p0 hr hpi hcv i hi sr pr hlen hplen hP) sr.cells.length st' := by
  have hJ0 : JW (mkK p0 hr hcv i hi sr hlen) (mkD hcb p0 hr hpi hcv i hi sr pr hlen hplen hP) 0
      (start (rsOf p0.ws).g.pos (rsOf p0.ws).pen) := by
    refine ⟨fun k _ h => absurd h (Nat.succ_ne_zero k), fun h => absurd h (Nat.lt_irrefl 0), fun _ => rfl,
      fun h => by simp [start] at h, fun _ => ⟨?_, ?_⟩⟩
    · refine ⟨Ri0, ?_, mid_zero' (by show pr.cells.length = sr.cells.length; rw [hplen, hlen]) hshow, Bytes.nil, ?_⟩
      · show Emitted W cb p0 [] (shape (rsOf p0.ws) i Ri0 (rsOf p0.ws).g.pos (rsOf p0.ws).pen)
        rw [shape_self _ _ _ hrow]
        exact emitted_nil W cb p0 hr
      · refine ⟨?_, fun h => h⟩
        show (rsOf p0.ws).g.pos.col ≤ sr.cells.length
        rw [hlen]; exact hpc
    · intro e a h; simp [start] at h
  obtain ⟨st', e, hJ⟩ := fold_invW (mkK p0 hr hcv i hi sr hlen) (mkD hcb p0 hr hpi hcv i hi sr pr hlen hplen hP) hW hS
    (sr.cells.zip pr.cells) 0 _ (by rfl) (Nat.zero_le _) hJ0
  have hwin : Row.window (sr.cells.zip pr.cells) 0 sr.cells.length = C14.enumFrom 0 (sr.cells.zip pr.cells) := by
    rw [C03.window_eq, C14.windowFrom_eq]
    simp only [Nat.zero_add, List.drop_zero]
    rw [List.take_of_length_le (by simp [List.length_zip, hplen, hlen])]
  rw [hwin]
  exact ⟨st', e, hJ⟩

/-- **one line of a diff, any wrap flags** (`wrapping = false`, full width): on a receiver (a parser satisfying the
invariant) whose line `i` shows the CELLS of the previous line `pr` — its wrap flag, and those of `sr` and `pr`, are
arbitrary — processing the bytes of `sr.write_contents_diff(pr, …)` makes line `i` show the cells of the current line
`sr`; cursor and pen end at the `prev_pos` / `prev_attrs` the emitter returns; every other line, the region, the
scrollback, the saved cursor are as before (`shape`).  Hypothesis `hE`: if the line has just become unwrapped and
its last cell is a blank, that blank has the attributes of the pen the cell loop ends with (otherwise the `ESC[X` of
`diffEnd` repaints it with the wrong attributes: see the counterexample at the end of this file). -/
theorem row_diff_draws_any (hW : WOk W) (hcb : C13.CbInv W cb) (p0 : Parser) (hr : Ready p0) (hpi : C13.ParserInv W p0)
    (hcv : Canvas (rsOf p0.ws).g) (i : Nat) (hi : i < (rsOf p0.ws).g.size.rows) (sr pr : Row)
    (hlen : sr.cells.length = (rsOf p0.ws).g.size.cols) (hplen : pr.cells.length = (rsOf p0.ws).g.size.cols)
    (hS : SrcOk W sr.cells) (hP : SrcOk W pr.cells)
    (Ri0 : Row) (hrow : (rsOf p0.ws).g.rows[i]? = some Ri0) (hshow : Ri0.cells.map view = pr.cells.map view)
    (hpc : (rsOf p0.ws).g.pos.col ≤ (rsOf p0.ws).g.size.cols) (pw : Bool)
    (hE : EraseEnd sr pr (loopPen sr pr i (rsOf p0.ws).g.pos (rsOf p0.ws).pen)) :
    ∃ out np na, sr.writeContentsDiff pr 0 sr.cells.length i false pw (rsOf p0.ws).g.pos (rsOf p0.ws).pen = .ok (out, np, na) ∧
      (∃ Ri, Emitted W cb p0 out (shape (rsOf p0.ws) i Ri np na) ∧ Ri.cells.map view = sr.cells.map view) ∧
      Bytes out ∧ np.col ≤ (rsOf p0.ws).g.size.cols ∧ (Attrs.wf (rsOf p0.ws).pen → Attrs.wf na) := by
  have hne : 0 < sr.cells.length := by rw [hlen]; exact hcv.cols_pos
  obtain ⟨st', e', hJ⟩ := row_diff_loop hW hcb p0 hr hpi hcv i hi sr pr hlen hplen hS hP Ri0 hrow hshow hpc
  have hd := finish_drawnW (mkK p0 hr hcv i hi sr hlen) (mkD hcb p0 hr hpi hcv i hi sr pr hlen hplen hP) hW hS hne hJ
  unfold Row.writeContentsDiff
  have hst : Row.diffStart sr pr 0 i false pw (rsOf p0.ws).g.pos (rsOf p0.ws).pen =
      .ok (start (rsOf p0.ws).g.pos (rsOf p0.ws).pen) := by
    unfold Row.diffStart
    cases sr.cells[0]? <;> cases pr.cells[0]? <;> simp [start]
  have hpen : loopPen sr pr i (rsOf p0.ws).g.pos (rsOf p0.ws).pen =
      (Row.fmtFinish sr.cells.length i false st').prevAttrs := by
    unfold loopPen
    rw [e']
  rw [hpen] at hE
  obtain ⟨out, np, na, eend, hres, hb, hnp, hwf⟩ :=
    diffEnd_drawn (mkK p0 hr hcv i hi sr hlen) pr.cells hcb hpi hW hS hne sr.wrapped pr hd
      (fun h1 h2 c hc h3 h4 h5 => hE h1 h2 c hc h3 h4 h5)
  have eend' : Row.diffEnd sr pr i (Row.fmtFinish sr.cells.length i false st') = .ok (out, np, na) := eend
  rw [hst]
  simp only [ok_bind, Row.cols, e', eend']
  refine ⟨_, _, _, rfl, hres, hb, ?_, hwf⟩
  have : np.col ≤ sr.cells.length := hnp
  rw [hlen] at this; exact this

/-- when the last cell of the line is a blank that differs from the previous line's last cell, the cell loop ends
with an erase run pending over it, whose flush (`fmtFinish`) leaves the pen at that cell's attributes -/
theorem finish_pen (K : Ctx W cb) (D : DCtx K) (hS : SrcOk W K.src) (hne : 0 < K.src.length) {st : Row.FmtSt}
    (h : JW K D K.src.length st) {c : Nat} (hc : c < K.src.length) (hcl : c + 1 = K.src.length)
    (hcc : K.src[c].cont = false) (hh : K.src[c].hasContents = false)
    (hdf : view K.src[c] ≠ view (D.prv[c]'(by rw [D.hprv]; exact hc))) :
    (Row.fmtFinish K.src.length K.i false st).prevAttrs = K.src[c].attrs := by
  have hpw : st.prevWasWide = false := by
    by_cases hp : st.prevWasWide = true
    · have := h.ww hne (Nat.le_refl _)
      rw [hp] at this
      obtain ⟨hj', _⟩ := hS.wide_next (K.src.length - 1) (by omega) this.symm
      omega
    · simpa using hp
  have hsome := h.last c hc hcl hpw hcc hh hdf
  have hB := h.B hpw
  cases he : st.erase with
  | none => exact absurd he hsome
  | some pa =>
    obtain ⟨e, a⟩ := pa
    obtain ⟨hej, hel, hwf, hvs⟩ := hB.er e a he
    have hv := hvs c hc (by omega) (by omega)
    have hat : K.src[c].attrs = a := by
      simp only [view, blankA, View.mk.injEq] at hv
      exact hv.2.2.2.1
    rw [hat]
    unfold Row.fmtFinish
    simp only [he, Row.eraseMove]
    by_cases hp : (st.prevAttrs != a) = true
    · simp [hp]
    · have : st.prevAttrs = a := by simpa using hp
      simp [hp, this]

/-- **one line of a diff, any wrap flags** — the hypothesis of `row_diff_draws_any` discharged from an invariant of
the previous line: a soft-wrapped line has its last column occupied (`Inv⁺`, `SrcRows.wrapOcc`; in the crate the wrap
flag is only set then, and erasing the last column clears it).  The last blank cell of a line that has just become
unwrapped then differs from the previous line's last cell, so it belongs to the erase run that the cell loop
flushes last — and `diffEnd`'s `ESC[X` is written with exactly that cell's attributes as the pen. -/
theorem row_diff_draws_wrap (hW : WOk W) (hcb : C13.CbInv W cb) (p0 : Parser) (hr : Ready p0) (hpi : C13.ParserInv W p0)
    (hcv : Canvas (rsOf p0.ws).g) (i : Nat) (hi : i < (rsOf p0.ws).g.size.rows) (sr pr : Row)
    (hlen : sr.cells.length = (rsOf p0.ws).g.size.cols) (hplen : pr.cells.length = (rsOf p0.ws).g.size.cols)
    (hS : SrcOk W sr.cells) (hP : SrcOk W pr.cells)
    (Ri0 : Row) (hrow : (rsOf p0.ws).g.rows[i]? = some Ri0) (hshow : Ri0.cells.map view = pr.cells.map view)
    (hpc : (rsOf p0.ws).g.pos.col ≤ (rsOf p0.ws).g.size.cols) (pw : Bool)
    (hocc : sr.wrapped = false → pr.wrapped = true → lastOcc pr.cells) :
    ∃ out np na, sr.writeContentsDiff pr 0 sr.cells.length i false pw (rsOf p0.ws).g.pos (rsOf p0.ws).pen = .ok (out, np, na) ∧
      (∃ Ri, Emitted W cb p0 out (shape (rsOf p0.ws) i Ri np na) ∧ Ri.cells.map view = sr.cells.map view) ∧
      Bytes out ∧ np.col ≤ (rsOf p0.ws).g.size.cols ∧ (Attrs.wf (rsOf p0.ws).pen → Attrs.wf na) := by
  refine row_diff_draws_any hW hcb p0 hr hpi hcv i hi sr pr hlen hplen hS hP Ri0 hrow hshow hpc pw ?_
  intro hsu hpwr c hc hcl hcc hh
  have hne : 0 < sr.cells.length := by rw [hlen]; exact hcv.cols_pos
  obtain ⟨st', e', hJ⟩ := row_diff_loop hW hcb p0 hr hpi hcv i hi sr pr hlen hplen hS hP Ri0 hrow hshow hpc
  have hpen : loopPen sr pr i (rsOf p0.ws).g.pos (rsOf p0.ws).pen =
      (Row.fmtFinish sr.cells.length i false st').prevAttrs := by
    unfold loopPen
    rw [e']
  rw [hpen]
  have hcp : c < pr.cells.length := by rw [hplen, ← hlen]; exact hc
  have hdf : view sr.cells[c] ≠ view pr.cells[c] := by
    obtain ⟨hp0, hocc'⟩ := hocc hsu hpwr
    have hidx : pr.cells.length - 1 = c := by rw [hplen, ← hlen]; omega
    have hocc'' : pr.cells[c].hasContents = true ∨ pr.cells[c].cont = true := by
      simpa only [hidx] using hocc'
    intro hv
    simp only [view, View.mk.injEq] at hv
    rcases hocc'' with h1 | h1
    · simp only [Cell.hasContents, decide_eq_true_eq, decide_eq_false_iff_not] at h1 hh
      omega
    · rw [← hv.2.2.1, hcc] at h1; exact absurd h1 (by simp)
  exact (finish_pen (mkK p0 hr hcv i hi sr hlen) (mkD hcb p0 hr hpi hcv i hi sr pr hlen hplen hP) hS hne hJ hc hcl hcc hh
    hdf).symm

/-- lines whose wrap flags are equal (both may be set): `diffEnd` does nothing -/
theorem row_diff_draws_same_flag (hW : WOk W) (hcb : C13.CbInv W cb) (p0 : Parser) (hr : Ready p0)
    (hpi : C13.ParserInv W p0) (hcv : Canvas (rsOf p0.ws).g) (i : Nat) (hi : i < (rsOf p0.ws).g.size.rows) (sr pr : Row)
    (hlen : sr.cells.length = (rsOf p0.ws).g.size.cols) (hplen : pr.cells.length = (rsOf p0.ws).g.size.cols)
    (hS : SrcOk W sr.cells) (hP : SrcOk W pr.cells)
    (Ri0 : Row) (hrow : (rsOf p0.ws).g.rows[i]? = some Ri0) (hshow : Ri0.cells.map view = pr.cells.map view)
    (hpc : (rsOf p0.ws).g.pos.col ≤ (rsOf p0.ws).g.size.cols) (pw : Bool) (hfl : sr.wrapped = pr.wrapped) :
    ∃ out np na, sr.writeContentsDiff pr 0 sr.cells.length i false pw (rsOf p0.ws).g.pos (rsOf p0.ws).pen = .ok (out, np, na) ∧
      (∃ Ri, Emitted W cb p0 out (shape (rsOf p0.ws) i Ri np na) ∧ Ri.cells.map view = sr.cells.map view) ∧
      Bytes out ∧ np.col ≤ (rsOf p0.ws).g.size.cols ∧ (Attrs.wf (rsOf p0.ws).pen → Attrs.wf na) :=
  row_diff_draws_wrap hW hcb p0 hr hpi hcv i hi sr pr hlen hplen hS hP Ri0 hrow hshow hpc pw
    (fun h1 h2 => by rw [hfl, h2] at h1; exact absurd h1 (by simp))

/-- a line that has just BECOME wrapped: its last character is re-typed, nothing is erased -/
theorem row_diff_draws_now_wrapped (hW : WOk W) (hcb : C13.CbInv W cb) (p0 : Parser) (hr : Ready p0)
    (hpi : C13.ParserInv W p0) (hcv : Canvas (rsOf p0.ws).g) (i : Nat) (hi : i < (rsOf p0.ws).g.size.rows) (sr pr : Row)
    (hlen : sr.cells.length = (rsOf p0.ws).g.size.cols) (hplen : pr.cells.length = (rsOf p0.ws).g.size.cols)
    (hS : SrcOk W sr.cells) (hP : SrcOk W pr.cells)
    (Ri0 : Row) (hrow : (rsOf p0.ws).g.rows[i]? = some Ri0) (hshow : Ri0.cells.map view = pr.cells.map view)
    (hpc : (rsOf p0.ws).g.pos.col ≤ (rsOf p0.ws).g.size.cols) (pw : Bool) (hsw : sr.wrapped = true) :
    ∃ out np na, sr.writeContentsDiff pr 0 sr.cells.length i false pw (rsOf p0.ws).g.pos (rsOf p0.ws).pen = .ok (out, np, na) ∧
      (∃ Ri, Emitted W cb p0 out (shape (rsOf p0.ws) i Ri np na) ∧ Ri.cells.map view = sr.cells.map view) ∧
      Bytes out ∧ np.col ≤ (rsOf p0.ws).g.size.cols ∧ (Attrs.wf (rsOf p0.ws).pen → Attrs.wf na) :=
  row_diff_draws_wrap hW hcb p0 hr hpi hcv i hi sr pr hlen hplen hS hP Ri0 hrow hshow hpc pw
    (fun h1 _ => by rw [hsw] at h1; exact absurd h1 (by simp))

/-! ## the API-level statement -/

open Vt.GridDraw Vt.C01 Vt.C15 in
/-- **C15, `rows_diff`, one line, full width, EVERY line — soft-wrapped or not**: for two screens of the same size,
not scrolled back, the `i`-th element of `S.rows_diff(P, 0, cols)` processed by a receiver whose line `i` shows the
cells of `P`'s line `i` (cursor at `(i, 0)`, default pen — what the drawing protocol sets up; the receiving line's wrap
flag is arbitrary) makes line `i` show the cells of `S`'s line `i`, and leaves every other line, the region and the
scrollback as they were.  Nothing is claimed about the receiving line's wrap flag. -/
theorem rows_diff_line_draws_wrap (hW : WOk W) (hcb : C13.CbInv W cb) (S P : Screen) (hS : SrcScreen W S)
    (hP : SrcScreen W P) (hIS : Inv W S) (hIP : Inv W P) (hsz : S.cur.size = P.cur.size) (i : Nat)
    (hi : i < S.cur.size.rows)
    (p0 : Parser) (hr : Ready p0) (hpi : C13.ParserInv W p0) (hcv : Canvas (rsOf p0.ws).g)
    (hqsz : (rsOf p0.ws).g.size = S.cur.size) (hpos : (rsOf p0.ws).g.pos = ⟨i, 0⟩) (hpen : (rsOf p0.ws).pen = Attrs.default)
    (Ri0 : Row) (hrow : (rsOf p0.ws).g.rows[i]? = some Ri0)
    (hshow : Ri0.cells.map view = (P.cur.rows[i]'(by rw [hP.alloc, ← hsz]; exact hi)).cells.map view) :
    ∃ res bs, S.rowsDiff P 0 S.cur.size.cols = .ok res ∧ res[i]? = some bs ∧
      ∃ Ri np na, Emitted W cb p0 bs (shape (rsOf p0.ws) i Ri np na) ∧
        Ri.cells.map view = (S.cur.rows[i]'(by rw [hS.alloc]; exact hi)).cells.map view := by
  have hiS : i < S.cur.rows.length := by rw [hS.alloc]; exact hi
  have hiP : i < P.cur.rows.length := by rw [hP.alloc, ← hsz]; exact hi
  obtain ⟨res, eres⟩ := C03.rows_diff_total hIS hIP 0 S.cur.size.cols
  have hvS := C19.visibleRows_offset0 S.cur hS.off
  have hvP := C19.visibleRows_offset0 P.cur hP.off
  have eloop : Screen.rowsDiffLoop 0 S.cur.size.cols (S.cur.rows.zip P.cur.rows) 0 = .ok res := by
    have := eres
    simp only [Screen.rowsDiff, hvS, hvP, ok_bind] at this
    exact this
  have hiz : i < (S.cur.rows.zip P.cur.rows).length := by
    simp only [List.length_zip]; omega
  obtain ⟨bs, np, na, ebs, hget⟩ := rowsDiffLoop_get 0 S.cur.size.cols _ 0 res eloop i hiz
  simp only [List.getElem_zip, Nat.zero_add] at ebs
  have hwS := hS.rows.width _ (List.getElem_mem hiS)
  have hwP := hP.rows.width _ (List.getElem_mem hiP)
  have hrd := row_diff_draws_wrap (cb := cb) hW hcb p0 hr hpi hcv i (by rw [hqsz]; exact hi) S.cur.rows[i] P.cur.rows[i]
    (by rw [hqsz]; exact hwS) (by rw [hqsz, hsz]; exact hwP) (hS.rows.ok _ (List.getElem_mem hiS))
    (hP.rows.ok _ (List.getElem_mem hiP)) Ri0 hrow hshow (by rw [hpos]; exact Nat.zero_le _) false
    (fun _ hw => hP.rows.wrapOcc _ (List.getElem_mem hiP) hw)
  rw [hpos, hpen, hwS] at hrd
  obtain ⟨out, np', na', e', ⟨Ri, hem, hv⟩, _, _, _⟩ := hrd
  rw [ebs] at e'
  simp only [Except.ok.injEq, Prod.mk.injEq] at e'
  obtain ⟨rfl, rfl, rfl⟩ := e'
  exact ⟨res, bs, eres, hget, Ri, np, na, hem, hv⟩

/-! ## Part 3: column windows (`rows_diff(prev, start, width)`), any wrap flags

As in `Vt.Props.C15win`, the loop runs on the source line masked with the PREVIOUS line on `[0, start)` (the
definitions about `maskP` are copied from there).  `diffEnd` is not confined to the window: it re-types the last
character of the LINE.  When the window reaches the right margin that is Part 2 on the masked line; otherwise the last
character lies right of the window and all that has to be shown is that erasing and typing there leaves the columns of
the window alone. -/

def maskP (pre src : List Cell) (s : Nat) : List Cell := pre.take s ++ src.drop s

theorem maskP_length (pre src : List Cell) (s : Nat) (hp : s ≤ pre.length) (hs : s ≤ src.length) :
    (maskP pre src s).length = src.length := by
  simp [maskP, List.length_take]; omega

theorem maskP_get_lt (pre src : List Cell) (s k : Nat) (hp : s ≤ pre.length) (hk : k < s) :
    (maskP pre src s)[k]? = pre[k]? := by
  unfold maskP
  rw [List.getElem?_append_left (by simp [List.length_take]; omega)]
  simp [List.getElem?_take, hk]

theorem maskP_get_ge (pre src : List Cell) (s k : Nat) (hp : s ≤ pre.length) (hk : s ≤ k) :
    (maskP pre src s)[k]? = src[k]? := by
  unfold maskP
  have hl : (pre.take s).length = s := by simp [List.length_take]; omega
  rw [List.getElem?_append_right (by rw [hl]; exact hk), hl]
  simp only [List.getElem?_drop]
  rw [show s + (k - s) = k by omega]

theorem maskP_drop (pre src : List Cell) (s : Nat) (hp : s ≤ pre.length) : (maskP pre src s).drop s = src.drop s := by
  unfold maskP
  have hl : (pre.take s).length = s := by simp [List.length_take]; omega
  rw [List.drop_append_of_le_length (by omega)]
  rw [List.drop_of_length_le (by omega)]
  simp

theorem maskP_getElem_ge (pre src : List Cell) (s k : Nat) (hp : s ≤ pre.length) (hk : s ≤ k)
    (h1 : k < (maskP pre src s).length) (h2 : k < src.length) : (maskP pre src s)[k] = src[k] := by
  have := maskP_get_ge pre src s k hp hk
  rw [List.getElem?_eq_getElem h1, List.getElem?_eq_getElem h2] at this
  exact Option.some.inj this

theorem maskP_getElem_lt (pre src : List Cell) (s k : Nat) (hp : s ≤ pre.length) (hk : k < s)
    (h1 : k < (maskP pre src s).length) (h2 : k < pre.length) : (maskP pre src s)[k] = pre[k] := by
  have := maskP_get_lt pre src s k hp hk
  rw [List.getElem?_eq_getElem h1, List.getElem?_eq_getElem h2] at this
  exact Option.some.inj this

theorem mem_maskP {pre src : List Cell} {s : Nat} {c : Cell} (h : c ∈ maskP pre src s) : c ∈ pre ∨ c ∈ src := by
  simp only [maskP, List.mem_append] at h
  rcases h with h | h
  · exact Or.inl (List.mem_of_mem_take h)
  · exact Or.inr (List.mem_of_mem_drop h)

/-- the line that shows `pre` left of column `s` and `src` from `s` on is well formed, when column `s` does
not split a wide character of either -/
theorem srcOk_maskP {pre src : List Cell} (hP : SrcOk W pre) (hS : SrcOk W src) (hpl : pre.length = src.length)
    (s : Nat) (hs : s < src.length) (hLp : (pre[s]'(by omega)).cont = false) (hL : src[s].cont = false) :
    SrcOk W (maskP pre src s) := by
  have hml := maskP_length pre src s (by omega) (Nat.le_of_lt hs)
  refine ⟨?_, ?_, ?_, ?_⟩
  · intro c hc
    rcases mem_maskP hc with hc | hc
    · exact hP.cells_ok c hc
    · exact hS.cells_ok c hc
  · unfold maskP
    rw [pairThrough_append]
    obtain ⟨p, e1, e2, _⟩ := pairThrough_split (List.getElem?_eq_getElem (show s < pre.length by omega)) hP.paired
    rw [e1, ← e2, hLp]
    simp only [Option.bind_some]
    obtain ⟨_, _, _, e3⟩ := pairThrough_split (List.getElem?_eq_getElem hs) hS.paired
    rw [List.drop_eq_getElem_cons hs, pairThrough, hL]
    simp only [beq_self_eq_true, ↓reduceIte]
    exact e3
  · intro j hj
    rw [hml]
    by_cases hjs : j < s
    · rw [maskP_getElem_lt pre src s j (by omega) hjs hj (by omega), ← hpl]
      exact hP.emit_ok j (by omega)
    · rw [maskP_getElem_ge pre src s j (by omega) (by omega) hj (by omega)]
      exact hS.emit_ok j (by omega)
  · intro c hc hcc
    rcases mem_maskP hc with hc | hc
    · exact hP.cont_default c hc hcc
    · exact hS.cont_default c hc hcc


/-- the loop over the cells `j, …, j + n - 1` of the two lines -/
theorem fold_winW (K : Ctx W cb) (D : DCtx K) (hW : WOk W) (hS : SrcOk W K.src) : ∀ (n j : Nat) (st : Row.FmtSt),
    j + n ≤ K.src.length → JW K D j st →
    ∃ st', (C14.enumFrom j (((K.src.zip D.prv).drop j).take n)).foldlM (Row.diffStep K.src.length K.i false) st = .ok st' ∧
      JW K D (j + n) st'
  | 0, j, st, _, h => ⟨st, by simp [C14.enumFrom, pure, Except.pure], h⟩
  | n + 1, j, st, hjl, h => by
    have hj : j < K.src.length := by omega
    have hjz : j < (K.src.zip D.prv).length := by simp [List.length_zip, D.hprv]; exact hj
    obtain ⟨st1, e1, h1⟩ := diffStep_invW K D hW hS hj h
    obtain ⟨st', e2, h2⟩ := fold_winW K D hW hS n (j + 1) st1 (by omega) h1
    refine ⟨st', ?_, by rw [show j + (n + 1) = j + 1 + n by omega]; exact h2⟩
    have : C14.enumFrom j (((K.src.zip D.prv).drop j).take (n + 1)) =
        (j, (K.src[j], D.prv[j]'(by rw [D.hprv]; exact hj))) ::
          C14.enumFrom (j + 1) (((K.src.zip D.prv).drop (j + 1)).take n) := by
      rw [List.drop_eq_getElem_cons hjz, List.take_succ_cons]
      simp [C14.enumFrom, List.zipIdx_cons, List.getElem_zip]
    rw [this, List.foldlM_cons, e1]
    exact e2

/-- the columns before `e` of the receiving line show `S` -/
structure Lo (S : List Cell) (e : Nat) (R : Row) : Prop where
  len : R.cells.length = S.length
  lo : ∀ k (hk : k < S.length), k < e → view (R.cells[k]'(by rw [len]; exact hk)) = view S[k]

/-- typing the cell `K.src[c]` (pen change included) at column `c` of ANY line the receiver may hold there -/
theorem type_at (K : Ctx W cb) (hcb : C13.CbInv W cb) (pinv : C13.ParserInv W K.p0) (hW : WOk W) (hS : SrcOk W K.src)
    {c : Nat} (hc : c < K.src.length) (hh : K.src[c].hasContents = true)
    {out : List Nat} {R : Row} {pen : Attrs} (hem : Emitted W cb K.p0 out (shape K.r0 K.i R ⟨K.i, c⟩ pen)) (hb : Bytes out)
    (hl : R.cells.length = K.r0.g.size.cols) :
    ∃ f cellF, Emitted W cb K.p0
        ((out ++ (if (pen != K.src[c].attrs) = true then K.src[c].attrs.writeEscapeCodeDiff pen else [])) ++
          K.src[c].contents.take K.src[c].len)
        (shape K.r0 K.i (typedRow W R c K.r0.g.size.cols K.src[c].attrs f cellF)
          ⟨K.i, c + (if K.src[c].wide = true then 2 else 1)⟩ K.src[c].attrs) ∧
      Bytes ((out ++ (if (pen != K.src[c].attrs) = true then K.src[c].attrs.writeEscapeCodeDiff pen else [])) ++
          K.src[c].contents.take K.src[c].len) := by
  have hok := hS.cells_ok _ (List.getElem_mem hc)
  obtain ⟨f, zs, ht⟩ := textCell_of hW hok (hS.emit_ok c hc) hh
  -- the pen
  have h2 : Emitted W cb K.p0 (out ++ (if (pen != K.src[c].attrs) = true then K.src[c].attrs.writeEscapeCodeDiff pen else []))
      (shape K.r0 K.i R ⟨K.i, c⟩ K.src[c].attrs) := by
    by_cases hp : (pen != K.src[c].attrs) = true
    · simp only [hp, ↓reduceIte]
      exact emitted_step W cb K.ready hem (step_pen W cb K.src[c].attrs pen (hS.wf c hc))
        (r' := shape K.r0 K.i R ⟨K.i, c⟩ K.src[c].attrs) (by simp [shape])
    · have hpa : pen = K.src[c].attrs := by simpa using hp
      simp only [hp, Bool.false_eq_true, ↓reduceIte, List.append_nil]
      rw [← hpa]; exact hem
  have hb2 : Bytes (out ++ (if (pen != K.src[c].attrs) = true then K.src[c].attrs.writeEscapeCodeDiff pen else [])) :=
    Bytes.append hb (ite_bytes (writeEscapeCodeDiff_bytes _ _) Bytes.nil)
  have hbt : Bytes (K.src[c].contents.take K.src[c].len) :=
    contentsBytes_bytes (contentsBytes_ok (cellFine_of_ok hok))
  have hginv := emitted_inv hW.space hcb pinv hb2 h2
  -- the text
  have hstep := step_text W cb (K.src[c].contents.take K.src[c].len) ht.valid
    (by rw [ht.chars]; exact ht.plain) ht.noesc
  rw [ht.chars] at hstep
  have hfit : (shape K.r0 K.i R ⟨K.i, c⟩ K.src[c].attrs).g.pos.col + C05.effWidth W f ≤
      (shape K.r0 K.i R ⟨K.i, c⟩ K.src[c].attrs).g.size.cols := by
    have := ht.fits
    show c + C05.effWidth W f ≤ K.r0.g.size.cols
    rw [← K.hsrc]; exact this
  obtain ⟨r, cellF, hr, et, hvF, _⟩ := type_cell_any hginv.1 hginv.2 hW.space K.src[c].attrs f zs ht.first ht.width
    ht.zero hfit ht.pre
  have hrRi : r = R := by
    have := shape_row K.canvas K.hi R ⟨K.i, c⟩ K.src[c].attrs
    have h' : (shape K.r0 K.i R ⟨K.i, c⟩ K.src[c].attrs).g.rows[(shape K.r0 K.i R ⟨K.i, c⟩ K.src[c].attrs).g.pos.row]? = some R := this
    rw [hr] at h'; exact Option.some.inj h'
  subst hrRi
  have hgrid : typedGrid W (shape K.r0 K.i r ⟨K.i, c⟩ K.src[c].attrs).g r K.src[c].attrs f cellF =
      (shape K.r0 K.i (typedRow W r c K.r0.g.size.cols K.src[c].attrs f cellF) ⟨K.i, c + C05.effWidth W f⟩ K.src[c].attrs).g := by
    simp [typedGrid, shape, List.set_set]
  have h3 := emitted_step W cb K.ready h2 hstep
    (r' := shape K.r0 K.i (typedRow W r c K.r0.g.size.cols K.src[c].attrs f cellF) ⟨K.i, c + C05.effWidth W f⟩ K.src[c].attrs) (by
      have : (shape K.r0 K.i r ⟨K.i, c⟩ K.src[c].attrs).pen = K.src[c].attrs := rfl
      rw [this, et, hgrid]; rfl)
  have hwe : C05.effWidth W f = (if K.src[c].wide = true then 2 else 1) := by
    have hgetD1 := ht.width
    by_cases hwide : K.src[c].wide = true
    · have := ht.wide; rw [hwide] at this
      have h' : 1 < (W f).getD 1 := by simpa using this.symm
      rw [if_pos hwide]
      unfold C05.effWidth; omega
    · have hwide' : K.src[c].wide = false := by simpa using hwide
      have := ht.wide; rw [hwide'] at this
      have h' : ¬ 1 < (W f).getD 1 := by simpa using this.symm
      rw [if_neg hwide]
      unfold C05.effWidth; omega
  rw [hwe] at h3
  exact ⟨f, cellF, h3, Bytes.append hb2 hbt⟩

/-- typing at a column `c ≥ e` leaves the columns before `e` alone (at `c = e`: when the cell there is not the second
half of a wide character) -/
theorem Lo.typed {S : List Cell} {e c : Nat} {R : Row} (h : Lo S e R) (hec : e ≤ c) (hc : c < S.length)
    (hnc : e = c → (R.cells[c]'(by rw [h.len]; exact hc)).cont = false) (cols : Nat) (a : Attrs) (f : Nat) (cellF : Cell) :
    Lo S e (typedRow W R c cols a f cellF) := by
  have hlen : (typedRow W R c cols a f cellF).cells.length = S.length := by
    simp [typedRow, C05.printedRow, h.len]
  refine ⟨hlen, ?_⟩
  intro k hk hke
  have hkR : k < R.cells.length := by rw [h.len]; exact hk
  have hcR : c < R.cells.length := by rw [h.len]; exact hc
  rw [typedRow_get _ _ _ _ _ _ k hkR, if_neg (by omega)]
  have : C05.printedCell W R.cells c a f (decide (C05.effWidth W f > 1)) k R.cells[k] = R.cells[k] := by
    unfold C05.printedCell
    rw [if_neg (by omega)]
    by_cases hk1 : k + 1 = c
    · have hfc : C05.flagAt R.cells c (·.cont) = false := by
        rw [flagAt_get _ _ hcR]; exact hnc (by omega)
      rw [if_neg (by rw [hfc]; simp), if_neg (by omega), if_neg (by omega)]
    · rw [if_neg (by omega), if_neg (by omega), if_neg (by omega)]
  rw [this]; exact h.lo k hk hke

/-- ECH 1 at a column `c ≥ e` leaves the columns before `e` alone, and leaves a plain cell at `c` -/
theorem Lo.erased1 {S : List Cell} {e c : Nat} {R : Row} (h : Lo S e R) (hci : CellsInv W R.cells) (hec : e ≤ c)
    (hc : c < S.length) (hnc : e = c → (R.cells[c]'(by rw [h.len]; exact hc)).cont = false) (w : Bool) (a : Attrs) :
    Lo S e (C07.erasedRow R.cells w c (c + 1) a) ∧
      ((C07.erasedRow R.cells w c (c + 1) a).cells[c]'(by
        simp [C07.erasedRow, C07.eraseRange_length, h.len]; exact hc)).cont = false := by
  have hlen : (C07.erasedRow R.cells w c (c + 1) a).cells.length = S.length := by
    simp [C07.erasedRow, C07.eraseRange_length, h.len]
  have hcR : c < R.cells.length := by rw [h.len]; exact hc
  refine ⟨⟨hlen, ?_⟩, ?_⟩
  · intro k hk hke
    have hkR : k < R.cells.length := by rw [h.len]; exact hk
    rw [erasedRow_get _ _ _ _ _ k hkR]
    have hun : C07.rangeCell c (c + 1) a k R.cells[k] = R.cells[k] := by
      unfold C07.rangeCell
      rw [if_neg (by omega)]
      by_cases hk1 : k + 1 = c
      · have hnw : R.cells[k].wide = false := by
          have := C07.paired_adjacent hci.paired (List.getElem?_eq_getElem hkR)
            (by rw [hk1]; exact List.getElem?_eq_getElem hcR)
          rw [← this]; exact hnc (by omega)
        rw [if_neg (by rw [hnw]; simp), if_neg (by omega)]
      · rw [if_neg (by omega), if_neg (by omega)]
    rw [hun]; exact h.lo k hk hke
  · rw [erasedRow_get _ _ _ _ _ c hcR]
    have : C07.rangeCell c (c + 1) a c R.cells[c] = R.cells[c].clear a := by
      unfold C07.rangeCell; rw [if_pos ⟨Nat.le_refl _, by omega⟩]
    rw [this]; simp [Cell.clear]

/-- `EL` from column `e0` of a line that is `e0` columns into a diff whose window ends at `e ≥ e0`, the source being
blank (attributes `a`) on `[e0, e)`: the columns `< e` show the source, the columns from `e0` on are blank -/
theorem erase_tail_lo {S P : List Cell} (hS : SrcOk W S) {e0 e : Nat} {Ri : Row} (h : Mid' S P e0 Ri)
    (h0e : e0 ≤ e) (hel : e ≤ S.length) (he0l : e0 < S.length) (a : Attrs)
    (hrun : ∀ k (hk : k < S.length), e0 ≤ k → k < e → view S[k] = blankA a) (hse : S[e0].cont = false) (w : Bool) :
    Lo S e (C07.erasedRow Ri.cells w e0 S.length a) ∧
      (∀ c, (C07.erasedRow Ri.cells w e0 S.length a).cells[e]? = some c → c.cont = false) := by
  have hlen : (C07.erasedRow Ri.cells w e0 S.length a).cells.length = S.length := by
    simp [C07.erasedRow, C07.eraseRange_length, h.len]
  refine ⟨⟨hlen, ?_⟩, ?_⟩
  · intro k hk hke
    have hkR : k < Ri.cells.length := by rw [h.len]; exact hk
    rw [erasedRow_get _ _ _ _ _ k hkR]
    by_cases hin : e0 ≤ k
    · have : C07.rangeCell e0 S.length a k Ri.cells[k] = Ri.cells[k].clear a := by
        unfold C07.rangeCell; rw [if_pos ⟨hin, hk⟩]
      rw [this, view_clear, hrun k hk hin hke]
    · have hke0 : k < e0 := by omega
      have hun : C07.rangeCell e0 S.length a k Ri.cells[k] = Ri.cells[k] := by
        unfold C07.rangeCell
        rw [if_neg (by omega)]
        by_cases hk1 : k + 1 = e0
        · have hnw : Ri.cells[k].wide = false := by
            cases hw : Ri.cells[k].wide
            · rfl
            · exfalso
              have hsw : S[k].wide = true := by rw [← view_wide (h.lo k hk hke0)]; exact hw
              obtain ⟨hk1', hc⟩ := hS.wide_next k hk hsw
              have : S[e0].cont = true := by
                subst hk1; exact hc
              rw [hse] at this; exact absurd this (by simp)
          rw [if_neg (by rw [hnw]; simp), if_neg (by omega)]
        · rw [if_neg (by omega), if_neg (by omega)]
      rw [hun]; exact h.lo k hk hke0
  · intro c hc
    have hel' : e < S.length := by
      have := getElem?_lt hc
      rw [hlen] at this; exact this
    have hkR : e < Ri.cells.length := by rw [h.len]; exact hel'
    rw [List.getElem?_eq_getElem (by rw [hlen]; exact hel'), erasedRow_get _ _ _ _ _ e hkR] at hc
    have : C07.rangeCell e0 S.length a e Ri.cells[e] = Ri.cells[e].clear a := by
      unfold C07.rangeCell; rw [if_pos ⟨h0e, hel'⟩]
    rw [this] at hc
    rw [← Option.some.inj hc]; simp [Cell.clear]

/-- the end of the window `[·, e)`: a pending erase run becomes an `EL`; the columns before `e` of the receiving line
show the (masked) source, and the cell at `e` is not the second half of a wide character -/
theorem finish_winW (K : Ctx W cb) (D : DCtx K) (hW : WOk W) (hS : SrcOk W K.src) {e : Nat} (he0 : 0 < e)
    (hel : e ≤ K.src.length) (hR : (K.src[e - 1]'(by omega)).wide = false) {st : Row.FmtSt} (h : JW K D e st) :
    ∃ Ri, Emitted W cb K.p0 (Row.fmtFinish K.src.length K.i false st).out
        (shape K.r0 K.i Ri (Row.fmtFinish K.src.length K.i false st).prevPos
          (Row.fmtFinish K.src.length K.i false st).prevAttrs) ∧ Lo K.src e Ri ∧
      (∀ c, Ri.cells[e]? = some c → c.cont = false) ∧
      Bytes (Row.fmtFinish K.src.length K.i false st).out ∧
      (Row.fmtFinish K.src.length K.i false st).prevPos.col ≤ K.src.length ∧
      (Attrs.wf K.r0.pen → Attrs.wf (Row.fmtFinish K.src.length K.i false st).prevAttrs) := by
  have hpw : st.prevWasWide = false := by rw [h.ww he0 hel]; exact hR
  have hsc : ∀ (he : e < K.src.length), K.src[e].cont = false := by
    intro he
    rw [hS.cont_iff e he, if_neg (by omega)]; exact hR
  have hB := h.B hpw
  unfold Row.fmtFinish
  cases he : st.erase with
  | none =>
    have hd := hB.drawn
    simp only [esK, he] at hd
    obtain ⟨Ri, hem, hmid, hb, hc⟩ := hd
    have hci := cells_of_emitted hW.space K D hb hem
    refine ⟨Ri, hem, ⟨hmid.len, hmid.lo⟩, ?_, hb, hc.1, hc.2⟩
    intro c hc'
    have hel' : e < K.src.length := by
      have := getElem?_lt hc'
      rw [hmid.len] at this; exact this
    rw [List.getElem?_eq_getElem (by rw [hmid.len]; exact hel')] at hc'
    rw [← Option.some.inj hc']
    exact hmid.not_cont hS hci hel' (hsc hel')
  | some pa =>
    obtain ⟨e0, a⟩ := pa
    obtain ⟨hej, hel0, hwf, hvs⟩ := hB.er e0 a he
    have hd : DrawnW K D e0 st := by have := hB.drawn; simpa [esK, he] using this
    obtain ⟨hd', hp', ha', _, _⟩ := eraseMove_drawnW K D hd e0 a hel0 hwf
    obtain ⟨Ri, hem, hmid, hb, hc⟩ := hd'
    rw [hp', ha'] at hem
    have hl : Ri.cells.length = K.r0.g.size.cols := by rw [hmid.len, K.hsrc]
    have hci := cells_of_emitted hW.space K D hb hem
    have e1 := shape_elD K hl hci e0 (by rw [← K.hsrc]; omega) a
    have hem' := emitted_step W cb K.ready hem (step_clearRowForward W cb)
      (r' := shape K.r0 K.i (C07.erasedRow Ri.cells Ri.wrapped e0 K.r0.g.size.cols a) ⟨K.i, e0⟩ a) (by
        have : (shape K.r0 K.i Ri ⟨K.i, e0⟩ a).pen = a := rfl
        rw [this, e1]; rfl)
    have hse : K.src[e0].cont = false := by
      by_cases hlt : e0 < e
      · have := hvs e0 hel0 (Nat.le_refl _) hlt
        simp only [view, blankA, View.mk.injEq] at this
        exact this.2.2.1
      · have hee : e0 = e := by omega
        subst hee
        exact hsc hel0
    obtain ⟨t1, t2⟩ := erase_tail_lo hS hmid hej hel hel0 a hvs hse Ri.wrapped
    rw [← K.hsrc] at hem'
    refine ⟨C07.erasedRow Ri.cells Ri.wrapped e0 K.src.length a, ?_, t1, t2,
      Bytes.append hb clearRowForward_bytes, hc.1, hc.2⟩
    simp only [hp', ha']; exact hem'

/-- **`diffEnd` after a window that stops short of the right margin**: the last character of the line lies at a column
`≥ e`; erasing and re-typing it leaves the columns before `e` as they are -/
theorem diffEnd_win (K : Ctx W cb) (hcb : C13.CbInv W cb) (pinv : C13.ParserInv W K.p0) (hW : WOk W)
    (hS : SrcOk W K.src) (hne : 0 < K.src.length) (sw : Bool) (pr : Row) {e : Nat} (he : e < K.src.length)
    (hse : K.src[e].cont = false) {st : Row.FmtSt} {Ri : Row}
    (hem : Emitted W cb K.p0 st.out (shape K.r0 K.i Ri st.prevPos st.prevAttrs)) (hlo : Lo K.src e Ri)
    (hnc : ∀ c, Ri.cells[e]? = some c → c.cont = false) (hb : Bytes st.out) (hcp : st.prevPos.col ≤ K.src.length)
    (hwf : Attrs.wf K.r0.pen → Attrs.wf st.prevAttrs) :
    ∃ out np na, Row.diffEnd ⟨K.src, sw⟩ pr K.i st = .ok (out, np, na) ∧
      (∃ Ri', Emitted W cb K.p0 out (shape K.r0 K.i Ri' np na) ∧ Lo K.src e Ri') ∧ Bytes out ∧
      np.col ≤ K.src.length ∧ (Attrs.wf K.r0.pen → Attrs.wf na) := by
  by_cases hcond : ((!sw && pr.wrapped) || (!pr.wrapped && sw)) = true
  · obtain ⟨c, hc, hce, hcc, hcw, h2⟩ := endCol_facts hS hne
    have hec : e ≤ c := by
      by_cases hcont : (K.src[K.src.length - 1]'(by omega)).cont = true
      · rw [if_pos hcont] at hce
        have : e ≠ K.src.length - 1 := by
          intro hee
          subst hee
          rw [hse] at hcont; exact absurd hcont (by simp)
        omega
      · rw [if_neg hcont] at hce
        omega
    have hok := hS.cells_ok _ (List.getElem_mem hc)
    rw [diffEnd_eq ⟨K.src, sw⟩ pr K.i st hcond hne c hc hce h2 (cellFine_of_ok hok)]
    have hlc : Ri.cells.length = K.r0.g.size.cols := by rw [hlo.len, K.hsrc]
    have hcR : c < Ri.cells.length := by rw [hlo.len]; exact hc
    have hnc' : e = c → (Ri.cells[c]'hcR).cont = false := by
      intro hee
      subst hee
      exact hnc _ (List.getElem?_eq_getElem hcR)
    have hu := K.canvas.cols_u16
    have hru := K.canvas.rows_u16
    have hi := K.hi
    have h1 := emitted_step W cb K.ready hem
      (step_moveFromTo W cb st.prevPos ⟨K.i, c⟩ (by simp only; omega) (by simp only; rw [← K.hsrc] at hu; omega))
      (shape_goto K.canvas hlc st.prevPos ⟨K.i, c⟩ st.prevAttrs K.hi (by rw [← K.hsrc]; exact hc))
    have hb1 := Bytes.append hb (moveFromTo_bytes st.prevPos ⟨K.i, c⟩)
    cases sw
    · simp only [↓reduceIte]
      have hci := cells_of_emitted' hW.space K hcb pinv hb1 h1
      have e1 := shape_echD K hlc hci c 1 (by rw [← K.hsrc]; omega) st.prevAttrs
      have h2e := emitted_step W cb K.ready h1 (step_eraseChar W cb 1 (by omega))
        (r' := shape K.r0 K.i (C07.erasedRow Ri.cells Ri.wrapped c (c + 1) st.prevAttrs) ⟨K.i, c⟩ st.prevAttrs) (by
          simp only [Nat.succ_ne_zero, ↓reduceIte]
          have : (shape K.r0 K.i Ri ⟨K.i, c⟩ st.prevAttrs).pen = st.prevAttrs := rfl
          rw [this, e1]
          rfl)
      have hb2 := Bytes.append hb1 (eraseChar_bytes 1)
      obtain ⟨hlo1, hnc1⟩ := hlo.erased1 hci hec hc hnc' Ri.wrapped st.prevAttrs
      by_cases hh : K.src[c].hasContents = true
      · rw [if_pos hh]
        obtain ⟨f, cellF, hem', hb'⟩ := type_at K hcb pinv hW hS hc hh h2e hb2 (by rw [hlo1.len, K.hsrc])
        exact ⟨_, _, _, rfl, ⟨_, hem', hlo1.typed hec hc (fun _ => hnc1) _ _ _ _⟩, hb', by simp only; omega,
          fun _ => hS.wf c hc⟩
      · rw [if_neg hh]
        exact ⟨_, _, _, rfl, ⟨_, h2e, hlo1⟩, hb2, Nat.le_of_lt hc, hwf⟩
    · simp only [Bool.true_eq_false, ↓reduceIte, List.append_nil]
      by_cases hh : K.src[c].hasContents = true
      · rw [if_pos hh]
        obtain ⟨f, cellF, hem', hb'⟩ := type_at K hcb pinv hW hS hc hh h1 hb1 hlc
        exact ⟨_, _, _, rfl, ⟨_, hem', hlo.typed hec hc hnc' _ _ _ _⟩, hb', by simp only; omega, fun _ => hS.wf c hc⟩
      · rw [if_neg hh]
        exact ⟨_, _, _, rfl, ⟨Ri, h1, hlo⟩, hb1, Nat.le_of_lt hc, hwf⟩
  · unfold Row.diffEnd
    rw [if_neg hcond]
    exact ⟨_, _, _, rfl, ⟨Ri, hem, hlo⟩, hb, hcp, hwf⟩

/-- `diffEnd` reads the line's length, its wrap flag, its last cell and its last character only -/
theorem diffEnd_congr (r r' pr : Row) (i : Nat) (st : Row.FmtSt) (hw : r.wrapped = r'.wrapped)
    (hlen : r.cells.length = r'.cells.length) (hne : 0 < r.cells.length) (c : Nat) (hc : c < r.cells.length)
    (hce : c = (if (r.cells[r.cells.length - 1]'(by omega)).cont = true then r.cells.length - 2 else r.cells.length - 1))
    (h2 : (r.cells[r.cells.length - 1]'(by omega)).cont = true → 2 ≤ r.cells.length) (hf : CellFine r.cells[c])
    (hlast : r.cells[r.cells.length - 1]'(by omega) = r'.cells[r'.cells.length - 1]'(by omega))
    (hcc : r.cells[c] = r'.cells[c]'(by omega)) :
    Row.diffEnd r pr i st = Row.diffEnd r' pr i st := by
  by_cases hcond : ((!r.wrapped && pr.wrapped) || (!pr.wrapped && r.wrapped)) = true
  · rw [diffEnd_eq r pr i st hcond hne c hc hce h2 hf,
      diffEnd_eq r' pr i st (by rw [← hw]; exact hcond) (by omega) c (by omega) (by rw [← hlast, ← hlen]; exact hce)
        (by rw [← hlast, ← hlen]; exact h2) (by rw [← hcc]; exact hf)]
    simp only [hcc, hw]
  · unfold Row.diffEnd
    rw [if_neg hcond, if_neg (by rw [← hw]; exact hcond)]

theorem getElem_idx_congr {α} {l : List α} {a b : Nat} (h : a = b) (ha : a < l.length) (hb : b < l.length) :
    l[a] = l[b] := by subst h; rfl

/-- **one line of `rows_diff(prev, start, width)`, any wrap flags**: for a window `[start, start + width)` whose left
edge splits a wide character of neither line and whose right edge does not split one of the current line, on a receiver
(a parser satisfying the invariant) whose line `i` shows the cells of the previous line `pr`, processing the bytes of
`sr.write_contents_diff(pr, start, width, …)` makes the window of line `i` show the cells of the current line `sr` and
leaves the columns left of the window as they were.  The wrap flags of `sr`, `pr` and of the receiving line are
arbitrary (`hocc`: a wrapped previous line has its last column occupied — an invariant of the crate's screens; it is
used only when the window reaches the right margin).  Nothing is claimed about the columns right of the window
(`EL` and the re-typed last character land there) nor about the receiving line's wrap flag. -/
theorem row_window_diff_draws_wrap (hW : WOk W) (hcb : C13.CbInv W cb) (p0 : Parser) (hr : Ready p0)
    (hpi : C13.ParserInv W p0) (hcv : Canvas (rsOf p0.ws).g) (i : Nat) (hi : i < (rsOf p0.ws).g.size.rows) (sr pr : Row)
    (hlen : sr.cells.length = (rsOf p0.ws).g.size.cols) (hplen : pr.cells.length = (rsOf p0.ws).g.size.cols)
    (hS : SrcOk W sr.cells) (hP : SrcOk W pr.cells)
    (start width : Nat) (hwd : 0 < width) (hfit : start + width ≤ sr.cells.length)
    (hL : start = 0 ∨ ∀ c, sr.cells[start]? = some c → c.cont = false)
    (hLp : start = 0 ∨ ∀ c, pr.cells[start]? = some c → c.cont = false)
    (hR : start + width = sr.cells.length ∨ ∀ c, sr.cells[start + width]? = some c → c.cont = false)
    (Ri0 : Row) (hrow : (rsOf p0.ws).g.rows[i]? = some Ri0) (hshow : Ri0.cells.map view = pr.cells.map view)
    (hpc : (rsOf p0.ws).g.pos.col ≤ (rsOf p0.ws).g.size.cols) (pw : Bool)
    (hocc : sr.wrapped = false → pr.wrapped = true → lastOcc pr.cells) :
    ∃ out np na, sr.writeContentsDiff pr start width i false pw (rsOf p0.ws).g.pos (rsOf p0.ws).pen = .ok (out, np, na) ∧
      (∃ Ri, Emitted W cb p0 out (shape (rsOf p0.ws) i Ri np na) ∧
        (∀ k, start ≤ k → k < start + width → (Ri.cells[k]?).map view = (sr.cells[k]?).map view) ∧
        (∀ k, k < start → (Ri.cells[k]?).map view = (pr.cells[k]?).map view) ∧
        Ri.cells.length = sr.cells.length) ∧
      Bytes out ∧ np.col ≤ (rsOf p0.ws).g.size.cols ∧ (Attrs.wf (rsOf p0.ws).pen → Attrs.wf na) := by
  have hs : start < sr.cells.length := by omega
  have hpl : pr.cells.length = sr.cells.length := by rw [hplen, hlen]
  have hsp : start < pr.cells.length := by omega
  have hL' : sr.cells[start].cont = false := by
    rcases hL with h0 | h
    · rw [hS.cont_iff start hs, if_pos h0]
    · exact h _ (List.getElem?_eq_getElem hs)
  have hLp' : pr.cells[start].cont = false := by
    rcases hLp with h0 | h
    · rw [hP.cont_iff start hsp, if_pos h0]
    · exact h _ (List.getElem?_eq_getElem hsp)
  have hR' : (sr.cells[start + width - 1]'(by omega)).wide = false := by
    by_cases hlt : start + width < sr.cells.length
    · rcases hR with h | h
      · omega
      · have := h _ (List.getElem?_eq_getElem hlt)
        rw [hS.cont_iff (start + width) hlt, if_neg (by omega)] at this
        exact this
    · by_cases hw : (sr.cells[start + width - 1]'(by omega)).wide = true
      · obtain ⟨hj', _⟩ := hS.wide_next (start + width - 1) (by omega) hw
        omega
      · simpa using hw
  have hml := maskP_length pr.cells sr.cells start (Nat.le_of_lt hsp) (Nat.le_of_lt hs)
  have hSm := srcOk_maskP hP hS hpl start hs hLp' hL'
  let K : Ctx W cb := ⟨p0, hr, rsOf p0.ws, hcv, i, hi, maskP pr.cells sr.cells start, hml.trans hlen⟩
  let D : DCtx K := ⟨pr.cells, hpl.trans hml.symm, hP, hpi, hcb⟩
  have hKl : K.src.length = sr.cells.length := hml
  have hne : 0 < K.src.length := by rw [hKl]; omega
  have hget : ∀ k (hk : k < K.src.length), K.src[k] =
      if k < start then pr.cells[k]'(by rw [hpl, ← hKl]; exact hk) else sr.cells[k]'(by rw [← hKl]; exact hk) := by
    intro k hk
    by_cases hks : k < start
    · rw [if_pos hks]; exact maskP_getElem_lt pr.cells sr.cells start k (Nat.le_of_lt hsp) hks _ _
    · rw [if_neg hks]; exact maskP_getElem_ge pr.cells sr.cells start k (Nat.le_of_lt hsp) (by omega) _ _
  -- the receiving line is `start` columns into the diff of the masked line
  have hmid0 : Mid' K.src D.prv start Ri0 := by
    have hz := mid_zero' (S := K.src) D.hprv hshow
    have hall : ∀ k (hk : k < K.src.length), view (Ri0.cells[k]'(by rw [hz.len]; exact hk)) =
        view (D.prv[k]'(by rw [D.hprv]; exact hk)) := by
      intro k hk
      have := congrArg (fun l => l[k]?) hshow
      simp only [List.getElem?_map, List.getElem?_eq_getElem (show k < Ri0.cells.length by rw [hz.len]; exact hk),
        List.getElem?_eq_getElem (show k < pr.cells.length by rw [hpl, ← hKl]; exact hk), Option.map_some,
        Option.some.injEq] at this
      exact this
    refine ⟨hz.len, hz.plen, ?_, fun k hk _ => hall k hk, fun hk => Or.inl (hall start hk)⟩
    intro k hk hks
    rw [hall k hk, hget k hk, if_pos hks]
  have hJ0 : JW K D start (RowDraw.start (rsOf p0.ws).g.pos (rsOf p0.ws).pen) := by
    refine ⟨?_, ?_, fun _ => rfl, fun h => by simp [RowDraw.start] at h, fun _ => ⟨?_, ?_⟩⟩
    · intro k hk hks _ _ _ hne'
      exfalso; apply hne'
      rw [hget k hk, if_pos (by omega)]
    · intro h0 hl
      show false = (K.src[start - 1]'(by omega)).wide
      rw [hget (start - 1) (by omega), if_pos (by omega)]
      have := hP.cont_iff start hsp
      rw [if_neg (by omega), hLp'] at this
      exact this
    · refine ⟨Ri0, ?_, hmid0, Bytes.nil, ?_⟩
      · show Emitted W cb p0 [] (shape (rsOf p0.ws) i Ri0 (rsOf p0.ws).g.pos (rsOf p0.ws).pen)
        rw [shape_self _ _ _ hrow]
        exact emitted_nil W cb p0 hr
      · refine ⟨?_, fun h => h⟩
        show (rsOf p0.ws).g.pos.col ≤ K.src.length
        rw [hKl, hlen]; exact hpc
    · intro e a h; simp [RowDraw.start] at h
  obtain ⟨st', e, hJ⟩ := fold_winW K D hW hSm width start _ (by rw [hKl]; exact hfit) hJ0
  have hRK : (K.src[start + width - 1]'(by omega)).wide = false := by
    rw [hget (start + width - 1) (by omega), if_neg (by omega)]; exact hR'
  -- the emitter
  have hst : Row.diffStart sr pr start i false pw (rsOf p0.ws).g.pos (rsOf p0.ws).pen =
      .ok (RowDraw.start (rsOf p0.ws).g.pos (rsOf p0.ws).pen) := by
    unfold Row.diffStart
    cases sr.cells[start]? <;> cases pr.cells[start]? <;> simp [RowDraw.start]
  have hwin : Row.window (sr.cells.zip pr.cells) start width =
      C14.enumFrom start (((sr.cells.zip pr.cells).drop start).take width) := by
    rw [C03.window_eq, C14.windowFrom_eq]; simp
  have hzip : ((maskP pr.cells sr.cells start).zip pr.cells).drop start = (sr.cells.zip pr.cells).drop start := by
    simp only [List.zip, List.drop_zipWith]
    rw [maskP_drop _ _ _ (Nat.le_of_lt hsp)]
  have e' : (C14.enumFrom start ((((maskP pr.cells sr.cells start).zip pr.cells).drop start).take width)).foldlM
      (Row.diffStep (maskP pr.cells sr.cells start).length i false)
      (RowDraw.start (rsOf p0.ws).g.pos (rsOf p0.ws).pen) = .ok st' := e
  rw [hzip, hml] at e'
  -- `diffEnd` of the line = `diffEnd` of the masked line
  obtain ⟨c, hc, hce, hcc, hcw, h2⟩ := endCol_facts hSm hne
  have hlastK : (K.src[K.src.length - 1]'(by omega)) = sr.cells[sr.cells.length - 1]'(by omega) := by
    rw [hget (K.src.length - 1) (by omega), if_neg (by omega)]
    exact getElem_idx_congr (by rw [hKl]) _ _
  have hsc : start ≤ c := by
    by_cases hcont : (K.src[K.src.length - 1]'(by omega)).cont = true
    · rw [if_pos hcont] at hce
      have : start ≠ sr.cells.length - 1 := by
        intro hee
        rw [hlastK] at hcont
        have : sr.cells[start] = sr.cells[sr.cells.length - 1]'(by omega) := getElem_idx_congr hee _ _
        rw [this, hcont] at hL'; exact absurd hL' (by simp)
      omega
    · rw [if_neg hcont] at hce
      omega
  have hcK : K.src[c] = sr.cells[c]'(by rw [← hKl]; exact hc) := by rw [hget c hc, if_neg (by omega)]
  have hdE : ∀ st, Row.diffEnd sr pr i st = Row.diffEnd ⟨K.src, sr.wrapped⟩ pr i st := fun st =>
    (diffEnd_congr ⟨K.src, sr.wrapped⟩ sr pr i st rfl hKl hne c hc hce h2
      (cellFine_of_ok (hSm.cells_ok _ (List.getElem_mem hc))) hlastK hcK).symm
  -- the window reaches the right margin, or it does not
  have hmain : ∃ out np na, Row.diffEnd ⟨K.src, sr.wrapped⟩ pr i (Row.fmtFinish K.src.length i false st') = .ok (out, np, na) ∧
      (∃ Ri, Emitted W cb p0 out (shape (rsOf p0.ws) i Ri np na) ∧ Lo K.src (start + width) Ri) ∧ Bytes out ∧
      np.col ≤ K.src.length ∧ (Attrs.wf (rsOf p0.ws).pen → Attrs.wf na) := by
    by_cases hfull : start + width = K.src.length
    · rw [hfull] at hJ
      have hd := finish_drawnW K D hW hSm hne hJ
      obtain ⟨out, np, na, eend, ⟨Ri, hem, hv⟩, hb, hnp, hwf⟩ :=
        diffEnd_drawn K D.prv hcb hpi hW hSm hne sr.wrapped pr hd (by
          intro hsu hpwr c' hc' hcl' hcc' hh'
          have hc's : start ≤ c' := by omega
          have hcp : c' < pr.cells.length := by rw [hpl, ← hKl]; exact hc'
          have hK' : K.src[c'] = sr.cells[c']'(by rw [← hKl]; exact hc') := by rw [hget c' hc', if_neg (by omega)]
          have hdf : view K.src[c'] ≠ view (D.prv[c']'(by rw [D.hprv]; exact hc')) := by
            obtain ⟨hp0, hocc'⟩ := hocc hsu hpwr
            have hidx : pr.cells.length - 1 = c' := by rw [hpl, ← hKl]; omega
            have hocc'' : pr.cells[c'].hasContents = true ∨ pr.cells[c'].cont = true := by
              simpa only [hidx] using hocc'
            intro hv
            simp only [view, View.mk.injEq] at hv
            rcases hocc'' with h1 | h1
            · have h1' : (D.prv[c']'(by rw [D.hprv]; exact hc')).hasContents = true := h1
              simp only [Cell.hasContents, decide_eq_true_eq, decide_eq_false_iff_not] at h1' hh'
              omega
            · have h1' : (D.prv[c']'(by rw [D.hprv]; exact hc')).cont = true := h1
              rw [← hv.2.2.1, hcc'] at h1'; exact absurd h1' (by simp)
          exact (finish_pen K D hSm hne hJ hc' hcl' hcc' hh' hdf).symm)
      obtain ⟨hl, hvv⟩ := full_get hv
      exact ⟨out, np, na, eend, ⟨Ri, hem, ⟨hl, fun k hk _ => hvv k hk⟩⟩, hb, hnp, hwf⟩
    · have hlt : start + width < K.src.length := by rw [hKl]; rw [hKl] at hfull; omega
      obtain ⟨Ri, hem, hlo, hnc, hb, hc1, hc2⟩ := finish_winW K D hW hSm (e := start + width) (by omega)
        (Nat.le_of_lt hlt) hRK hJ
      have hse : K.src[start + width].cont = false := by
        rw [hSm.cont_iff (start + width) hlt, if_neg (by omega)]; exact hRK
      exact diffEnd_win K hcb hpi hW hSm hne sr.wrapped pr hlt hse hem hlo hnc hb hc1 hc2
  obtain ⟨out, np, na, eend, ⟨Ri, hem, hlo⟩, hb, hnp, hwf⟩ := hmain
  rw [hKl] at eend
  unfold Row.writeContentsDiff
  rw [hst]
  simp only [ok_bind, hwin, Row.cols, e', hdE, eend]
  refine ⟨_, _, _, rfl, ⟨Ri, hem, ?_, ?_, hlo.len.trans hKl⟩, hb, by rw [← hlen, ← hKl]; exact hnp, hwf⟩
  · intro k hk1 hk2
    have hkl : k < K.src.length := by rw [hKl]; omega
    have := hlo.lo k hkl hk2
    rw [List.getElem?_eq_getElem (show k < Ri.cells.length by rw [hlo.len]; exact hkl),
      List.getElem?_eq_getElem (show k < sr.cells.length by omega)]
    simp only [Option.map_some, Option.some.injEq]
    rw [this, hget k hkl, if_neg (by omega)]
  · intro k hk
    have hkl : k < K.src.length := by rw [hKl]; omega
    have := hlo.lo k hkl (by omega)
    rw [List.getElem?_eq_getElem (show k < Ri.cells.length by rw [hlo.len]; exact hkl),
      List.getElem?_eq_getElem (show k < pr.cells.length by omega)]
    simp only [Option.map_some, Option.some.injEq]
    rw [this, hget k hkl, if_pos hk]

open Vt.GridDraw Vt.C01 Vt.C15 in
/-- **C15, `rows_diff(prev, start, width)`, one line, EVERY line — soft-wrapped or not**: for two screens of the same
size, not scrolled back, and a window `[start, start + width)` whose left edge splits a wide character of neither
screen's line `i` and whose right edge does not split one of `S`'s line `i`: the `i`-th element of
`S.rows_diff(P, start, width)` processed by a receiver whose line `i` shows the cells of `P`'s line `i` (cursor at
`(i, start)`, default pen — what the drawing protocol sets up) makes the cells of line `i` INSIDE THE WINDOW those of
`S`'s line `i`, leaves the cells left of the window, every other line, the region and the scrollback as they were. -/
theorem rows_diff_window_line_draws_wrap (hW : WOk W) (hcb : C13.CbInv W cb) (S P : Screen) (hS : SrcScreen W S)
    (hP : SrcScreen W P) (hIS : Inv W S) (hIP : Inv W P) (hsz : S.cur.size = P.cur.size) (i : Nat)
    (hi : i < S.cur.size.rows) (start width : Nat) (hwd : 0 < width) (hfit : start + width ≤ S.cur.size.cols)
    (hL : start = 0 ∨ ∀ c, (S.cur.rows[i]'(by rw [hS.alloc]; exact hi)).cells[start]? = some c → c.cont = false)
    (hLp : start = 0 ∨ ∀ c, (P.cur.rows[i]'(by rw [hP.alloc, ← hsz]; exact hi)).cells[start]? = some c → c.cont = false)
    (hR : start + width = S.cur.size.cols ∨
      ∀ c, (S.cur.rows[i]'(by rw [hS.alloc]; exact hi)).cells[start + width]? = some c → c.cont = false)
    (p0 : Parser) (hr : Ready p0) (hpi : C13.ParserInv W p0) (hcv : Canvas (rsOf p0.ws).g)
    (hqsz : (rsOf p0.ws).g.size = S.cur.size) (hpos : (rsOf p0.ws).g.pos = ⟨i, start⟩)
    (hpen : (rsOf p0.ws).pen = Attrs.default)
    (Ri0 : Row) (hrow : (rsOf p0.ws).g.rows[i]? = some Ri0)
    (hshow : Ri0.cells.map view = (P.cur.rows[i]'(by rw [hP.alloc, ← hsz]; exact hi)).cells.map view) :
    ∃ res bs, S.rowsDiff P start width = .ok res ∧ res[i]? = some bs ∧
      ∃ Ri np na, Emitted W cb p0 bs (shape (rsOf p0.ws) i Ri np na) ∧
        (∀ k, start ≤ k → k < start + width →
          (Ri.cells[k]?).map view = ((S.cur.rows[i]'(by rw [hS.alloc]; exact hi)).cells[k]?).map view) ∧
        (∀ k, k < start →
          (Ri.cells[k]?).map view = ((P.cur.rows[i]'(by rw [hP.alloc, ← hsz]; exact hi)).cells[k]?).map view) ∧
        Ri.cells.length = S.cur.size.cols := by
  have hiS : i < S.cur.rows.length := by rw [hS.alloc]; exact hi
  have hiP : i < P.cur.rows.length := by rw [hP.alloc, ← hsz]; exact hi
  obtain ⟨res, eres⟩ := C03.rows_diff_total hIS hIP start width
  have hvS := C19.visibleRows_offset0 S.cur hS.off
  have hvP := C19.visibleRows_offset0 P.cur hP.off
  have eloop : Screen.rowsDiffLoop start width (S.cur.rows.zip P.cur.rows) 0 = .ok res := by
    have := eres
    simp only [Screen.rowsDiff, hvS, hvP, ok_bind] at this
    exact this
  have hiz : i < (S.cur.rows.zip P.cur.rows).length := by
    simp only [List.length_zip]; omega
  obtain ⟨bs, np, na, ebs, hget⟩ := rowsDiffLoop_get start width _ 0 res eloop i hiz
  simp only [List.getElem_zip, Nat.zero_add] at ebs
  have hwS := hS.rows.width _ (List.getElem_mem hiS)
  have hwP := hP.rows.width _ (List.getElem_mem hiP)
  have hrd := row_window_diff_draws_wrap (cb := cb) hW hcb p0 hr hpi hcv i (by rw [hqsz]; exact hi) S.cur.rows[i]
    P.cur.rows[i] (by rw [hqsz]; exact hwS) (by rw [hqsz, hsz]; exact hwP) (hS.rows.ok _ (List.getElem_mem hiS))
    (hP.rows.ok _ (List.getElem_mem hiP)) start width hwd (by rw [hwS]; exact hfit) hL hLp (by rw [hwS]; exact hR)
    Ri0 hrow hshow (by rw [hpos, hqsz]; show start ≤ S.cur.size.cols; omega) false
    (fun _ hw => hP.rows.wrapOcc _ (List.getElem_mem hiP) hw)
  rw [hpos, hpen] at hrd
  obtain ⟨out, np', na', e', ⟨Ri, hem, h1, h2, h3⟩, _, _, _⟩ := hrd
  rw [ebs] at e'
  simp only [Except.ok.injEq, Prod.mk.injEq] at e'
  obtain ⟨rfl, rfl, rfl⟩ := e'
  exact ⟨res, bs, eres, hget, Ri, np, na, hem, h1, h2, h3.trans hwS⟩


/-! ### the hypotheses are satisfiable, and the interesting branches of `diffEnd` are exercised (tests) -/

/-- `P` = "abcdef" on a 3 x 5 screen (line 0 soft-wrapped); `S` = `P`, then the last cell of line 0 erased with a red
background (line 0 no longer wrapped, its last cell a red blank: the `ESC[X` branch of `diffEnd` with a non-default
pen), then "ghijkl" typed from line 1 (line 1 becomes wrapped: the re-typing branch).  Both satisfy the Boolean
invariants from which `SrcScreen` and `Inv` follow (`C01.srcScreen_of_inv`); and — as the theorem says — a receiver that
shows `P`, put at `(i, 0)` with the default pen and fed element `i` of `S.rows_diff(P, 0, 5)`, shows the cells of `S`'s
line `i`, for `i = 0, 1`.  Kernel-evaluated; a test. -/
theorem rows_diff_line_draws_wrap_nonvacuous :
    isOkTrue (do
      let p ← C02.run 3 5 0 [[97, 98, 99, 100, 101, 102]]
      let s ← C02.run 3 5 0 [[97, 98, 99, 100, 101, 102], [0x1b, 0x5b, 0x31, 0x3b, 0x35, 0x48, 0x1b, 0x5b, 0x34, 0x31, 0x6d,
        0x1b, 0x5b, 0x58, 0x1b, 0x5b, 0x6d, 0x1b, 0x5b, 0x32, 0x3b, 0x31, 0x48, 103, 104, 105, 106, 107, 108]]
      let d ← s.screen.rowsDiff p.screen 0 5
      let r0 ← p.process W0 cbNone ([0x1b, 0x5b, 0x6d, 0x1b, 0x5b, 0x31, 0x3b, 0x31, 0x48] ++ d.getD 0 [])
      let r1 ← p.process W0 cbNone ([0x1b, 0x5b, 0x6d, 0x1b, 0x5b, 0x32, 0x3b, 0x31, 0x48] ++ d.getD 1 [])
      let cells (q : Screen) (i : Nat) := (q.cur.rows.getD i (Row.new 0)).cells.map view
      let wr (q : Screen) (i : Nat) := (q.cur.rows.getD i (Row.new 0)).wrapped
      pure (emitInvB W0 p.screen && emitInvB W0 s.screen && p.screen.cur.scrollbackOffset == 0 &&
            s.screen.cur.scrollbackOffset == 0 && s.screen.cur.size == p.screen.cur.size &&
            wr p.screen 0 && !wr s.screen 0 && !wr p.screen 1 && wr s.screen 1 &&
            decide (cells r0.screen 0 = cells s.screen 0) && decide (cells r1.screen 1 = cells s.screen 1) &&
            decide (cells r0.screen 0 ≠ cells p.screen 0))) = true := by
  decide +kernel

/-- the window `[1, 4)` of the same `P` against `S` = `P` with `X` typed at column 1 of line 0 and the last cell of
line 0 erased on red (line 0 no longer wrapped).  The receiver's window shows `S`, the column left of it `P`; the last
column — right of the window, where `diffEnd` wrote `ESC[X` with the pen `X` was typed with — shows NEITHER line
(which is why the window theorems claim nothing there).  Kernel-evaluated; a test. -/
theorem rows_diff_window_line_draws_wrap_nonvacuous :
    isOkTrue (do
      let p ← C02.run 3 5 0 [[97, 98, 99, 100, 101, 102]]
      let s ← C02.run 3 5 0 [[97, 98, 99, 100, 101, 102], [0x1b, 0x5b, 0x31, 0x3b, 0x32, 0x48, 88,
        0x1b, 0x5b, 0x31, 0x3b, 0x35, 0x48, 0x1b, 0x5b, 0x34, 0x31, 0x6d, 0x1b, 0x5b, 0x58]]
      let d ← s.screen.rowsDiff p.screen 1 3
      let r0 ← p.process W0 cbNone ([0x1b, 0x5b, 0x6d, 0x1b, 0x5b, 0x31, 0x3b, 0x32, 0x48] ++ d.getD 0 [])
      let cells (q : Screen) (i : Nat) := (q.cur.rows.getD i (Row.new 0)).cells.map view
      let wr (q : Screen) (i : Nat) := (q.cur.rows.getD i (Row.new 0)).wrapped
      pure (emitInvB W0 p.screen && emitInvB W0 s.screen && s.screen.cur.size == p.screen.cur.size &&
            wr p.screen 0 && !wr s.screen 0 &&
            decide (((cells r0.screen 0).drop 1).take 3 = ((cells s.screen 0).drop 1).take 3) &&
            decide ((cells r0.screen 0).take 1 = (cells p.screen 0).take 1) &&
            decide (((cells s.screen 0).drop 1).take 3 ≠ ((cells p.screen 0).drop 1).take 3) &&
            decide ((cells r0.screen 0)[4]? ≠ (cells s.screen 0)[4]?) &&
            decide ((cells r0.screen 0)[4]? ≠ (cells p.screen 0)[4]?))) = true := by
  decide +kernel

end Vt.C15wrap

/-
#print axioms Vt.C15wrap.row_diff_draws_any
#print axioms Vt.C15wrap.row_diff_draws_wrap
#print axioms Vt.C15wrap.row_diff_draws_same_flag
#print axioms Vt.C15wrap.row_diff_draws_now_wrapped
#print axioms Vt.C15wrap.rows_diff_line_draws_wrap
#print axioms Vt.C15wrap.row_window_diff_draws_wrap
#print axioms Vt.C15wrap.rows_diff_window_line_draws_wrap
-- all: [propext, Classical.choice, Quot.sound]

The counterexample behind `EraseEnd` / `hocc` (evaluated in Scratch/C15wrapCE.lean, on a 3 x 5 receiver):
  pr = five blank cells on a red background, wrap flag SET;  sr = the same cells, wrap flag clear.
  No cell differs, so the cell loop writes nothing and the pen is still the default one when `diffEnd` runs:
    sr.writeContentsDiff pr 0 5 0 false false ⟨0, 0⟩ Attrs.default = ESC[4C ESC[X
  and the receiver's last cell becomes a blank on the DEFAULT background instead of the red one:
  `Ri.cells.map view ≠ sr.cells.map view`.  All other hypotheses of `row_diff_draws_wrap` hold for these lines
  (`rowOk`, `rowEmitOk`); what fails is `rowPlusOk pr` ("a soft-wrapped line has its last column occupied"), which
  every screen the crate can reach satisfies (`SrcRows.wrapOcc`, from `Vt.Reach`/`InvF`) — so this is a property the
  correctness of `write_contents_diff` silently depends on, not a reachable defect.
-/
