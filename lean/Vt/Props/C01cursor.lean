/-
  Vt.Props.C01cursor — the cursor fix-up of `write_cursor_position_formatted` when the source cursor is in
  the pending-wrap column of a line whose last column is EMPTY:

    (b) some line above has an occupied last column: its last character is typed again (unless the
        emitter's cursor is already pending there) and LF brings the cursor down, keeping the column;
    (c) no such line: `SP`, `ESC 7`, `BS`, `ESC [ X`, `ESC 8` on the cursor line itself.
-/
import Vt.Props.C01grid
import Vt.Lemmas.Recv2
import Vt.Props.PosBound
namespace Vt.C01
open Vt Vt.Recv Vt.C19 Vt.C09 Vt.RowDraw Vt.GridDraw Vt.Tok Vt.C03
set_option linter.unusedSimpArgs false
set_option linter.unusedVariables false

variable {W : Nat → Option Nat} {cb : CbPolicy}

/-- a receiver that differs from a drawn one only in the cursor, the saved cursor and the pens -/
theorem rowsInv_frame {srows : List Row} {cols i : Nat} {pp : Pos} {R : RS}
    (h : RowsInv srows cols i false pp R) (R' : RS) (hs : R'.g.size = R.g.size)
    (ht : R'.g.scrollTop = R.g.scrollTop) (hb : R'.g.scrollBottom = R.g.scrollBottom)
    (ho : R'.g.originMode = R.g.originMode) (hr : R'.g.rows = R.g.rows) :
    RowsInv srows cols i false R'.g.pos R' := by
  have hc := h.canvas
  refine ⟨⟨by rw [hs]; exact hc.rows_pos, by rw [hs]; exact hc.cols_pos, by rw [hs]; exact hc.rows_u16,
    by rw [hs]; exact hc.cols_u16, by rw [ht]; exact hc.top, by rw [hb, hs]; exact hc.bottom, by rw [ho]; exact hc.origin,
    by rw [hr, hs]; exact hc.alloc, by rw [hr, hs]; exact hc.width⟩,
    by rw [hs]; exact h.hcols, by rw [hs]; exact h.nrows, rfl, by rw [hr]; exact h.row, fun hh => by simp at hh⟩

/-- `n` line feeds with room below: the cursor goes down `n` lines and keeps its column -/
theorem emitted_lfs {q : Parser} (hr : Ready q) {srows : List Row} {cols : Nat} :
    ∀ (n : Nat) {out : List Nat} {pp : Pos} {R : RS}, Emitted W cb q out R →
      RowsInv srows cols srows.length false pp R → pp.row + n < srows.length →
      ∃ R', Emitted W cb q (out ++ List.replicate n 10) R' ∧
        RowsInv srows cols srows.length false ⟨pp.row + n, pp.col⟩ R' ∧ R'.pen = R.pen ∧
        R'.g.scrollbackOffset = R.g.scrollbackOffset
  | 0, out, pp, R, hem, hinv, _ => ⟨R, by simpa using hem, by simpa using hinv, rfl, rfl⟩
  | n + 1, out, pp, R, hem, hinv, hn => by
    obtain ⟨R1, h1, i1, p1, o1⟩ := emitted_lfs hr n hem hinv (by omega)
    have hpos1 : R1.g.pos = ⟨pp.row + n, pp.col⟩ := i1.pos
    have hlf := lf_eq i1.canvas (by rw [hpos1, i1.nrows]; show pp.row + n + 1 < _; omega)
    have h2 := emitted_step W cb hr h1 (step_lf W cb)
      (r' := { R1 with g := withPos R1.g ⟨R1.g.pos.row + 1, R1.g.pos.col⟩ }) (by
        simp only [pure_eq_ok] at hlf ⊢
        rw [hlf]; rfl)
    refine ⟨{ R1 with g := withPos R1.g ⟨R1.g.pos.row + 1, R1.g.pos.col⟩ }, ?_, ?_, p1, o1⟩
    · rw [List.replicate_succ', ← List.append_assoc]; exact h2
    · have := rowsInv_withPos i1 ⟨R1.g.pos.row + 1, R1.g.pos.col⟩
      rw [hpos1] at this ⊢
      exact this

/-- the cell `write_cursor_position_formatted` looks at to decide whether the end of line `k` is occupied -/
theorem end_cell (Sg : Grid) (hS : SrcRows W Sg.size.cols Sg.rows) (hc1 : 1 ≤ Sg.size.cols) (k : Nat)
    (hk : k < Sg.rows.length) :
    ∃ c cell, Sg.endOfRowPos k = .ok ⟨k, c⟩ ∧ (∀ site, Sg.drawingCellM site ⟨k, c⟩ = .ok cell) ∧
      (cell.hasContents = true ↔ lastOcc Sg.rows[k].cells) ∧
      (cell.hasContents = false → c = Sg.size.cols - 1 ∧ Sg.rows[k].cells[Sg.size.cols - 1]? = some cell ∧
        cell.cont = false ∧ cell.wide = false) := by
  have hsok := hS.ok _ (List.getElem_mem hk)
  have hswd := hS.width _ (List.getElem_mem hk)
  have hl1 : Sg.size.cols - 1 < Sg.rows[k].cells.length := by rw [hswd]; omega
  have hdraw : ∀ site j (hj : j < Sg.rows[k].cells.length),
      Sg.drawingCellM site ⟨k, j⟩ = .ok Sg.rows[k].cells[j] := by
    intro site j hj
    simp [Grid.drawingCellM, Grid.drawingCell, Grid.drawingRow, Row.get, List.getElem?_eq_getElem hk,
      List.getElem?_eq_getElem hj]
  have hlast : ∀ (h : 0 < Sg.rows[k].cells.length),
      (Sg.rows[k].cells[Sg.rows[k].cells.length - 1]'(by omega)) = Sg.rows[k].cells[Sg.size.cols - 1] := by
    intro h; simp only [hswd]
  by_cases hlc : Sg.rows[k].cells[Sg.size.cols - 1].cont = true
  · obtain ⟨j0, pv, hj0, hpv, hpvw⟩ := paired_cont_prev (List.getElem?_eq_getElem hl1) hsok.paired hlc
    have hl2 : Sg.size.cols - 2 < Sg.rows[k].cells.length := by omega
    have hcols2 : 2 ≤ Sg.size.cols := by omega
    have hj0' : j0 = Sg.size.cols - 2 := by omega
    subst hj0'
    have hpv' : Sg.rows[k].cells[Sg.size.cols - 2] = pv := by
      rw [List.getElem?_eq_getElem hl2] at hpv; exact Option.some.inj hpv
    have hwide : Sg.rows[k].cells[Sg.size.cols - 2].wide = true := by rw [hpv']; exact hpvw
    have hh : Sg.rows[k].cells[Sg.size.cols - 2].hasContents = true :=
      wide_has_contents (hsok.cells_ok _ (List.getElem_mem hl2)) hwide
    have hend : Sg.endOfRowPos k = .ok ⟨k, Sg.size.cols - 2⟩ := by
      simp only [Grid.endOfRowPos, subM_ok hc1, ok_bind, hdraw 412 _ hl1, Cell.isWideContinuation, hlc, ↓reduceIte,
        subM_ok hcols2, pure_bind', pure_eq_ok]
    refine ⟨_, _, hend, fun site => hdraw site _ hl2, ⟨fun _ => ⟨by omega, Or.inr (by rw [hlast (by omega)]; exact hlc)⟩, fun _ => hh⟩,
      fun h => by rw [hh] at h; simp at h⟩
  · have hlc' : Sg.rows[k].cells[Sg.size.cols - 1].cont = false := by simpa using hlc
    have hend : Sg.endOfRowPos k = .ok ⟨k, Sg.size.cols - 1⟩ := by
      simp only [Grid.endOfRowPos, subM_ok hc1, ok_bind, hdraw 412 _ hl1, Cell.isWideContinuation, hlc', Bool.false_eq_true,
        ↓reduceIte, pure_eq_ok]
    have hnw : Sg.rows[k].cells[Sg.size.cols - 1].wide = false := by
      by_cases hw : Sg.rows[k].cells[Sg.size.cols - 1].wide = true
      · obtain ⟨hj', _⟩ := hsok.wide_next _ hl1 hw
        rw [hswd] at hj'; omega
      · simpa using hw
    refine ⟨_, _, hend, fun site => hdraw site _ hl1, ⟨fun h => ⟨by omega, Or.inl (by rw [hlast (by omega)]; exact h)⟩, ?_⟩,
      fun _ => ⟨rfl, List.getElem?_eq_getElem hl1, hlc', hnw⟩⟩
    rintro ⟨h0, h | h⟩
    · rw [hlast h0] at h; exact h
    · rw [hlast h0, hlc'] at h; simp at h

/-- the bytes that re-type a cell and put the pen back -/
def retypeBytes (prev : Option Pos) (pa : Attrs) (pos : Pos) (cell : Cell) : List Nat :=
  Grid.moveOpt prev pos ++ (cell.attrs.writeEscapeCodeDiff pa ++ cell.contents.take cell.len ++
    pa.writeEscapeCodeDiff cell.attrs)

/-- the found line is re-typed unless the emitter knows its cursor is already pending there -/
def needRetype (cols : Nat) (prev : Option Pos) (i : Nat) : Bool :=
  match prev with
  | some pp => pp.row != i || pp.col < cols
  | none => true

/-- **the upward search**: either no candidate line has an occupied end, or the first one that has is
re-typed (unless the emitter is already pending there) and line feeds follow -/
theorem search_spec (Sg : Grid) (hS : SrcRows W Sg.size.cols Sg.rows) (hc1 : 1 ≤ Sg.size.cols) (prev : Option Pos) (pa : Attrs) :
    ∀ (is : List Nat) (his : ∀ i ∈ is, i < Sg.rows.length),
      ((∀ i (hi : i ∈ is), ¬ lastOcc (Sg.rows[i]'(his i hi)).cells) ∧ Sg.cursorSearch prev pa is = .ok none) ∨
      (∃ i, ∃ hi : i ∈ is, lastOcc (Sg.rows[i]'(his i hi)).cells ∧ ∃ c cell, Sg.endOfRowPos i = .ok ⟨i, c⟩ ∧
        (∀ site, Sg.drawingCellM site ⟨i, c⟩ = .ok cell) ∧ cell.hasContents = true ∧
        Sg.cursorSearch prev pa is = .ok (some ((if needRetype Sg.size.cols prev i
          then retypeBytes prev pa ⟨i, c⟩ cell else []) ++ List.replicate (Sg.pos.row - i) 10)))
  | [], _ => Or.inl ⟨fun i hi => by simp at hi, rfl⟩
  | i :: is, his => by
    have hi : i < Sg.rows.length := his i (List.mem_cons_self ..)
    obtain ⟨c, cell, hend, hdraw, hiff, hemp⟩ := end_cell Sg hS hc1 i hi
    by_cases hh : cell.hasContents = true
    · refine Or.inr ⟨i, List.mem_cons_self .., hiff.mp hh, c, cell, hend, hdraw, hh, ?_⟩
      have hfine : CellFine cell := by
        have hsok := hS.ok _ (List.getElem_mem hi)
        have := hdraw 0
        simp only [Grid.drawingCellM, Grid.drawingCell, Grid.drawingRow, Row.get, List.getElem?_eq_getElem hi,
          Option.bind_some] at this
        cases hcc : Sg.rows[i].cells[c]? with
        | none => rw [hcc] at this; simp [getM] at this
        | some c' =>
          rw [hcc] at this
          have hc' : c' = cell := by simpa [getM] using this
          subst hc'
          exact cellFine_of_ok (hsok.cells_ok _ (List.mem_of_getElem? hcc))
      unfold Grid.cursorSearch
      cases prev with
      | none =>
        simp only [hend, ok_bind, hdraw 414, hh, ↓reduceIte, contentsBytes_ok hfine, pure_eq_ok, retypeBytes, needRetype,
          Grid.moveOpt]
      | some pp =>
        simp only [hend, ok_bind, hdraw 414, hh, ↓reduceIte, contentsBytes_ok hfine, pure_eq_ok, retypeBytes, needRetype,
          Grid.moveOpt]
        by_cases hc : (pp.row != i || decide (pp.col < Sg.size.cols)) = true
        · simp only [hc, ↓reduceIte, ok_bind]
        · simp only [hc, Bool.false_eq_true, ↓reduceIte, ok_bind, List.nil_append]
    · have hh' : cell.hasContents = false := by simpa using hh
      have hno : ¬ lastOcc (Sg.rows[i]'hi).cells := fun h => hh (hiff.mpr h)
      have e : Sg.cursorSearch prev pa (i :: is) = Sg.cursorSearch prev pa is := by
        conv => lhs; unfold Grid.cursorSearch
        simp only [hend, ok_bind, hdraw 414, hh', Bool.false_eq_true, ↓reduceIte]
      rcases search_spec Sg hS hc1 prev pa is (fun j hj => his j (List.mem_cons_of_mem _ hj)) with ⟨hall, e2⟩ | ⟨j, hj, hocc, c', cell', h1, h2, h3, e2⟩
      · refine Or.inl ⟨fun j hj => ?_, by rw [e, e2]⟩
        rcases List.mem_cons.mp hj with rfl | hj'
        · exact hno
        · exact hall j hj'
      · exact Or.inr ⟨j, List.mem_cons_of_mem _ hj, hocc, c', cell', h1, h2, h3, by rw [e, e2]⟩

/-- the receiver after the space typed into the last column -/
def afterSpace (g : Grid) (k c1 : Nat) (Rk : Row) (cellF : Cell) : Grid :=
  typed (withPos g ⟨k, c1⟩) Rk (Rk.cells.set c1 cellF) (c1 + 1)

/-- ... and after `ESC 7`, `BS`, `ESC [ X` -/
def erasedEnd (g : Grid) (k c1 : Nat) (Rk : Row) (cellF : Cell) (ea : Attrs) : Grid :=
  { ((afterSpace g k c1 Rk cellF).saveCursor).colDec 1 with
    rows := g.rows.set k { cells := Rk.cells.set c1 (cellF.clear ea), wrapped := false } }

/-- (c) the receiver side of `SP`, pen, `ESC 7`, `BS`, `ESC [ X`, `ESC 8`, pen back at the end of a line whose
last cell is empty: the cursor ends in the pending-wrap column, the line looks as before -/
theorem park_at_end (hW : WOk W) {q : Parser} (hr : Ready q) (Sg : Grid)
    (hS : SrcRows W Sg.size.cols Sg.rows)
    {out : List Nat} {pp : Pos} {pa : Attrs} {R : RS}
    (hem : Emitted W cb q out R) (hpen : R.pen = pa) (hpawf : Attrs.wf pa)
    (hinv : RowsInv Sg.rows Sg.size.cols Sg.rows.length false pp R)
    (mv : Pos → List Nat) (hmv : Moves (W := W) (cb := cb) q out R Sg.rows.length Sg.size.cols mv)
    (k : Nat) (hk : k < Sg.rows.length) (cell : Cell)
    (hcell : Sg.rows[k].cells[Sg.size.cols - 1]? = some cell) (hh : cell.hasContents = false)
    (hnc : cell.cont = false) (hno : ¬ lastOcc Sg.rows[k].cells) :
    ∃ Rf, Emitted W cb q (out ++ (mv ⟨k, Sg.size.cols - 1⟩ ++ [32] ++ cell.attrs.writeEscapeCodeDiff pa ++
            Term.saveCursor ++ Term.backspace ++ Term.eraseChar 1 ++ Term.restoreCursor ++
            pa.writeEscapeCodeDiff cell.attrs)) Rf ∧ Rf.pen = pa ∧
      RowsInv Sg.rows Sg.size.cols Sg.rows.length false ⟨k, Sg.size.cols⟩ Rf ∧
      Rf.g.scrollbackOffset = R.g.scrollbackOffset := by
  have hcv := hinv.canvas
  have hcols1 := hcv.cols_pos
  have hu := hcv.cols_u16
  have hru := hcv.rows_u16
  have hsc1 : 1 ≤ Sg.size.cols := by rw [← hinv.hcols]; exact hcols1
  have hsok := hS.ok _ (List.getElem_mem hk)
  have hswd := hS.width _ (List.getElem_mem hk)
  have hl1 : Sg.size.cols - 1 < Sg.rows[k].cells.length := by rw [hswd]; omega
  have hcell' : Sg.rows[k].cells[Sg.size.cols - 1] = cell := by
    rw [List.getElem?_eq_getElem hl1] at hcell; exact Option.some.inj hcell
  obtain ⟨Rk, hRk, hdone, _⟩ := hinv.row k hk
  obtain ⟨hvk, h22k, hwk⟩ := hdone hk
  have hRkw : Rk.wrapped = false := by
    rw [hwk]
    simp only [Bool.false_eq_true, and_false, ↓reduceIte]
    cases hw : Sg.rows[k].wrapped with
    | false => rfl
    | true => exact absurd (hS.wrapOcc _ (List.getElem_mem hk) hw) hno
  obtain ⟨hk1, hvc⟩ := views_get hvk (Sg.size.cols - 1) hl1
  obtain ⟨hfw, hfc⟩ := flags_of_view hvc
  have hvcell : view cell = blankA cell.attrs := by
    have := hsok.blank_view _ hl1 (by rw [hcell']; exact hh)
    rw [hcell'] at this
    rw [this, hnc]; rfl
  have hcw : cell.wide = false := by
    have := congrArg View.wide hvcell
    simpa [view, blankA] using this
  have hrr : k < R.g.size.rows := by rw [hinv.nrows]; exact hk
  have hw32 : (W 32).getD 1 = 1 := by rw [hW.space]; rfl
  have hnc32 : ¬ (W 32 = none ∧ 32 < 256) := by rw [hW.space]; simp
  have heawf : Attrs.wf cell.attrs := by rw [← hcell']; exact hsok.wf _ hl1
  -- move
  have hemA := hmv ⟨k, Sg.size.cols - 1⟩ hk (by simp only; omega)
  -- the space
  have hstep := step_text W cb [32] (by decide) (by
    intro c hc
    have : c = 32 := by simpa [Utf8.fromUtf8, Utf8.Res.cons] using hc
    subst this
    exact ⟨by omega, by omega, by omega⟩) (by decide)
  have hchars : (Utf8.fromUtf8 [32]).chars = [32] := by decide
  rw [hchars] at hstep
  obtain ⟨cellF, etype, vF, kF⟩ := type_cell_narrow W (g := withPos R.g ⟨k, Sg.size.cols - 1⟩)
    (by simp only [withPos]; exact hu) pa 32 [] Rk Rk.cells[Sg.size.cols - 1]
    hw32 hnc32 (by simp) (by simp only [withPos]; rw [hinv.hcols]; omega) (by simpa [withPos] using hRk)
    (by simp [withPos, List.getElem?_eq_getElem hk1]) (by rw [hfw, hcell', hcw]) (by rw [hfc, hcell', hnc])
    (h22k _ (List.getElem_mem hk1)) trivial
  have hFpl : cellF.wide = false ∧ cellF.cont = false := by
    simp only [view, typedView, View.mk.injEq] at vF
    exact ⟨by rw [vF.2.1, hw32]; rfl, vF.2.2.1⟩
  have hemB := emitted_step W cb hr hemA hstep
    (r' := { R with g := afterSpace R.g k (Sg.size.cols - 1) Rk cellF }) (by
      simp only [hpen, etype, ok_bind, pure_eq_ok]
      rfl)
  -- the pen of the empty cell
  have hemC := emitted_step W cb hr hemB (step_pen W cb cell.attrs pa heawf)
    (r' := { R with g := afterSpace R.g k (Sg.size.cols - 1) Rk cellF, pen := cell.attrs }) (by simp [hpen])
  -- ESC 7
  have hemD := emitted_step W cb hr hemC (step_saveCursor W cb)
    (r' := { g := (afterSpace R.g k (Sg.size.cols - 1) Rk cellF).saveCursor, pen := cell.attrs, saved := cell.attrs }) rfl
  -- BS
  have hemE := emitted_step W cb hr hemD (step_backspace W cb)
    (r' := { g := ((afterSpace R.g k (Sg.size.cols - 1) Rk cellF).saveCursor).colDec 1, pen := cell.attrs, saved := cell.attrs }) rfl
  -- ECH 1
  have hkset : Sg.size.cols - 1 < (Rk.cells.set (Sg.size.cols - 1) cellF).length := by simpa using hk1
  have hrl : k < R.g.rows.length := by rw [hcv.alloc]; exact hrr
  have hech : (((afterSpace R.g k (Sg.size.cols - 1) Rk cellF).saveCursor).colDec 1).eraseCells 1 cell.attrs =
      .ok (erasedEnd R.g k (Sg.size.cols - 1) Rk cellF cell.attrs) := by
    unfold Grid.eraseCells
    have hposc : (((afterSpace R.g k (Sg.size.cols - 1) Rk cellF).saveCursor).colDec 1).pos = ⟨k, Sg.size.cols - 1⟩ := by
      simp [erasedEnd, afterSpace, typed, withPos, Grid.saveCursor, Grid.colDec]
    have hszc : (((afterSpace R.g k (Sg.size.cols - 1) Rk cellF).saveCursor).colDec 1).size = R.g.size := rfl
    have hmin : min (satAddU16 (Sg.size.cols - 1) 1) R.g.size.cols = Sg.size.cols - 1 + 1 := by
      have hu' : Sg.size.cols ≤ 65535 := by rw [← hinv.hcols]; exact hu
      rw [hinv.hcols]
      have e1 : satAddU16 (Sg.size.cols - 1) 1 = Sg.size.cols - 1 + 1 := by
        unfold satAddU16
        exact Nat.min_eq_left (by unfold U16_MAX; omega)
      rw [e1]
      exact Nat.min_eq_left (by omega)
    simp only [hposc, hszc, hmin]
    have hrow5 : (((afterSpace R.g k (Sg.size.cols - 1) Rk cellF).saveCursor).colDec 1).rows[k]? =
        some { Rk with cells := Rk.cells.set (Sg.size.cols - 1) cellF } := by
      simp [erasedEnd, afterSpace, typed, withPos, Grid.saveCursor, Grid.colDec, hrl]
    have hone : forRange (Sg.size.cols - 1) (Sg.size.cols - 1 + 1) (fun col (r : Row) => r.erase col cell.attrs)
        { Rk with cells := Rk.cells.set (Sg.size.cols - 1) cellF } =
        .ok { cells := Rk.cells.set (Sg.size.cols - 1) (cellF.clear cell.attrs), wrapped := false } := by
      simp only [forRange, Nat.add_sub_cancel_left, List.range', List.foldlM_cons, List.foldlM_nil]
      rw [C07.row_erase_plain _ (Sg.size.cols - 1) cell.attrs cellF (by simp [hk1]) hFpl.1 hFpl.2]
      simp [hRkw, List.set_set]
    rw [C07.modifyCurrentRow_eq _ _ (by rw [hposc]; exact hrow5) hone]
    simp [erasedEnd, afterSpace, typed, withPos, Grid.saveCursor, Grid.colDec, List.set_set]
  have hemF := emitted_step W cb hr hemE (step_eraseChar W cb 1 (by omega))
    (r' := { g := erasedEnd R.g k (Sg.size.cols - 1) Rk cellF cell.attrs, pen := cell.attrs, saved := cell.attrs }) (by
      simp only [Nat.one_ne_zero, ↓reduceIte, hech, ok_bind, pure_eq_ok])
  -- ESC 8
  have hemG := emitted_step W cb hr hemF (step_restoreCursor W cb)
    (r' := { g := (erasedEnd R.g k (Sg.size.cols - 1) Rk cellF cell.attrs).restoreCursor, pen := cell.attrs, saved := cell.attrs }) rfl
  -- pen back
  have hemH := emitted_step W cb hr hemG (step_pen W cb pa cell.attrs hpawf)
    (r' := { g := (erasedEnd R.g k (Sg.size.cols - 1) Rk cellF cell.attrs).restoreCursor, pen := pa, saved := cell.attrs }) (by simp)
  -- the invariant
  have hv : ({ cells := Rk.cells.set (Sg.size.cols - 1) (cellF.clear cell.attrs), wrapped := false } : Row).cells.map view =
      Rk.cells.map view := by
    apply map_view_set_same hk1
    rw [view_clear, hvc, hcell', hvcell]
  have hrepl := rowsInv_replace hinv k Rk
    { cells := Rk.cells.set (Sg.size.cols - 1) (cellF.clear cell.attrs), wrapped := false } hRk hv hRkw.symm (by
      intro c hc
      rcases List.mem_or_eq_of_mem_set hc with hc | rfl
      · exact h22k c hc
      · simpa [Cell.clear] using kF) ⟨k, Sg.size.cols⟩
  have hfr := rowsInv_frame hrepl
    { g := (erasedEnd R.g k (Sg.size.cols - 1) Rk cellF cell.attrs).restoreCursor, pen := pa, saved := cell.attrs } rfl rfl rfl (by
      simp [erasedEnd, afterSpace, typed, withPos, Grid.saveCursor, Grid.colDec, Grid.restoreCursor, replaced]) rfl
  have hposF : ((erasedEnd R.g k (Sg.size.cols - 1) Rk cellF cell.attrs).restoreCursor).pos =
      ⟨k, Sg.size.cols⟩ := by
    simp [erasedEnd, afterSpace, typed, withPos, Grid.saveCursor, Grid.colDec, Grid.restoreCursor]
    omega
  rw [hposF] at hfr
  refine ⟨_, ?_, rfl, hfr, rfl⟩
  simpa [List.append_assoc] using hemH

/-- **the cursor fix-up, every case**: whatever the source cursor and whatever the emitter knows of the
receiver's cursor (`prev = some pp`: it is at `pp`; `prev = none`: nothing), the bytes of
`write_cursor_position_formatted` bring the receiver's cursor to the source's — the pending-wrap column
included — and leave the drawn lines looking as they did -/
theorem cursor_fixup (hW : WOk W) {q : Parser} (hr : Ready q) (Sg : Grid)
    (hS : SrcRows W Sg.size.cols Sg.rows) (hn : Sg.rows.length = Sg.size.rows)
    (hrow : Sg.pos.row < Sg.size.rows) (hcol : Sg.pos.col ≤ Sg.size.cols)
    {out : List Nat} {pp : Pos} {pa : Attrs} {R : RS}
    (hem : Emitted W cb q out R) (hpen : R.pen = pa) (hpawf : Attrs.wf pa)
    (hinv : RowsInv Sg.rows Sg.size.cols Sg.rows.length false pp R)
    (prev : Option Pos) (hprev : ∀ p, prev = some p → p = pp ∧ p.col ≤ Sg.size.cols) :
    ∃ bytes, Sg.writeCursorPositionFormatted prev (some pa) = .ok bytes ∧
      ∃ Rf, Emitted W cb q (out ++ bytes) Rf ∧ Rf.pen = pa ∧
        RowsInv Sg.rows Sg.size.cols Sg.rows.length false Sg.pos Rf ∧
        Rf.g.scrollbackOffset = R.g.scrollbackOffset := by
  have hrl : Sg.pos.row < Sg.rows.length := by omega
  have hsc1 : 1 ≤ Sg.size.cols := by rw [← hinv.hcols]; exact hinv.canvas.cols_pos
  have hmv : Moves (W := W) (cb := cb) q out R Sg.rows.length Sg.size.cols (Grid.moveOpt prev) := by
    cases prev with
    | none => exact moves_abs hr hem hinv
    | some p =>
      have := (hprev p rfl).1
      subst this
      exact moves_rel hr hem hinv
  by_cases hin : Sg.pos.col < Sg.size.cols
  · -- inside the line: a plain move
    have hcond : (prev != some Sg.pos && decide (Sg.pos.col ≥ Sg.size.cols)) = false := by
      have : ¬ Sg.pos.col ≥ Sg.size.cols := by omega
      simp [this]
    refine ⟨Grid.moveOpt prev Sg.pos, ?_, _, hmv Sg.pos hrl hin, hpen, rowsInv_withPos hinv Sg.pos, rfl⟩
    simp only [Grid.writeCursorPositionFormatted, hcond, Bool.false_eq_true, ↓reduceIte, pure_eq_ok]
  · have hpw : Sg.pos.col = Sg.size.cols := by omega
    have hposeq : Sg.pos = ⟨Sg.pos.row, Sg.size.cols⟩ := by rw [← hpw]
    by_cases hpp : prev = some Sg.pos
    · -- the emitter already left the cursor there
      have hppeq : Sg.pos = pp := (hprev Sg.pos hpp).1
      refine ⟨[], ?_, R, by simpa using hem, hpen, by rw [hppeq]; exact hinv, rfl⟩
      simp [Grid.writeCursorPositionFormatted, hpp, Grid.moveOpt, C19.moveFromTo_self]
    · have hcond : (prev != some Sg.pos && decide (Sg.pos.col ≥ Sg.size.cols)) = true := by
        simp [hpp, hpw]
      by_cases hocc : lastOcc (Sg.rows[Sg.pos.row]'hrl).cells
      · -- (b) re-type the last character of the cursor line
        obtain ⟨c, cell, hend, hdraw, hh, hbs, Rf, hemf, hpenf, hinvf, hofff⟩ := retype_last (cb := cb) hW hr Sg hS hem hpen hpawf
          hinv (Grid.moveOpt prev) hmv Sg.pos.row hrl hocc
        refine ⟨_, ?_, Rf, hemf, hpenf, by rw [hposeq]; exact hinvf, hofff⟩
        simp only [Grid.writeCursorPositionFormatted, hcond, ↓reduceIte, Option.getD_some, hend, ok_bind, hdraw 415, hh, hbs,
          pure_eq_ok]
      · obtain ⟨c0, cell0, hend0, hdraw0, hiff0, hemp0⟩ := end_cell Sg hS hsc1 Sg.pos.row hrl
        have hh0 : cell0.hasContents = false := by
          cases h : cell0.hasContents with
          | false => rfl
          | true => exact absurd (hiff0.mp h) hocc
        obtain ⟨hc0, hcell0, hcont0, _⟩ := hemp0 hh0
        subst hc0
        have his : ∀ i ∈ (List.range Sg.pos.row).reverse, i < Sg.rows.length := by
          intro i hi
          simp only [List.mem_reverse, List.mem_range] at hi
          omega
        rcases search_spec Sg hS hsc1 prev pa (List.range Sg.pos.row).reverse his with ⟨_, enone⟩ | ⟨i, hi, hocci, c, cell, hend, hdraw, hh, esome⟩
        · -- (d) no line above ends occupied
          obtain ⟨Rf, hemf, hpenf, hinvf, hofff⟩ := park_at_end (cb := cb) hW hr Sg hS hem hpen hpawf hinv
            (Grid.moveOpt prev) hmv Sg.pos.row hrl cell0 hcell0 hh0 hcont0 hocc
          refine ⟨_, ?_, Rf, hemf, hpenf, by rw [hposeq]; exact hinvf, hofff⟩
          simp only [Grid.writeCursorPositionFormatted, hcond, ↓reduceIte, Option.getD_some, hend0, ok_bind, hdraw0 415, hh0,
            Bool.false_eq_true, enone, subM_ok hsc1, hdraw0 417, pure_eq_ok]
        · -- (c) line `i` above ends occupied
          have hilt : i < Sg.pos.row := by
            simp only [List.mem_reverse, List.mem_range] at hi
            exact hi
          have hcur : Sg.writeCursorPositionFormatted prev (some pa) =
              .ok ((if needRetype Sg.size.cols prev i then retypeBytes prev pa ⟨i, c⟩ cell else []) ++
                List.replicate (Sg.pos.row - i) 10) := by
            simp only [Grid.writeCursorPositionFormatted, hcond, ↓reduceIte, Option.getD_some, hend0, ok_bind, hdraw0 415, hh0,
              Bool.false_eq_true, esome, pure_eq_ok]
          have hfin : (⟨i + (Sg.pos.row - i), Sg.size.cols⟩ : Pos) = Sg.pos := by
            rw [hposeq]; simp only [Pos.mk.injEq, and_true]; omega
          refine ⟨_, hcur, ?_⟩
          by_cases hre : needRetype Sg.size.cols prev i = true
          · obtain ⟨c2, cell2, hend2, hdraw2, _, _, Rm, hemm, hpenm, hinvm, hoffm⟩ := retype_last (cb := cb) hW hr Sg hS
              hem hpen hpawf hinv (Grid.moveOpt prev) hmv i (his i hi) hocci
            have hcc : c = c2 := by
              rw [hend] at hend2
              simpa using Except.ok.inj hend2
            subst hcc
            have hcell : cell = cell2 := by
              have := hdraw2 0
              rw [hdraw 0] at this
              exact Except.ok.inj this
            subst hcell
            obtain ⟨Rf, hemf, hinvf, hpenf, hofff⟩ := emitted_lfs (cb := cb) hr (Sg.pos.row - i) hemm hinvm
              (by simp only; omega)
            simp only [hfin] at hinvf
            refine ⟨Rf, ?_, hpenf.trans hpenm, hinvf, hofff.trans hoffm⟩
            simp only [hre, ↓reduceIte, retypeBytes]
            simpa [List.append_assoc] using hemf
          · -- the emitter's cursor is already pending at the end of line `i`
            have hppi : pp = ⟨i, Sg.size.cols⟩ := by
              cases prev with
              | none => simp [needRetype] at hre
              | some p =>
                obtain ⟨h1, h2⟩ := hprev p rfl
                subst h1
                simp only [needRetype, Bool.or_eq_true, bne_iff_ne, ne_eq, decide_eq_true_eq, not_or, Decidable.not_not,
                  Nat.not_lt] at hre
                obtain ⟨r, cc⟩ := p
                simp only at hre h2
                simp only [Pos.mk.injEq]
                omega
            rw [hppi] at hinv
            obtain ⟨Rf, hemf, hinvf, hpenf, hofff⟩ := emitted_lfs (cb := cb) hr (Sg.pos.row - i) hem hinv
              (by simp only; omega)
            simp only [hfin] at hinvf
            refine ⟨Rf, ?_, hpenf.trans hpen, hinvf, hofff⟩
            simp only [hre, Bool.false_eq_true, ↓reduceIte, List.nil_append]
            exact hemf

/-- **the grid part of a full redraw, every cursor**: inside the line or in the pending-wrap column -/
theorem grid_formatted_reproduces_any (hW : WOk W) {q : Parser} (hq : RecvOk W q) (Sg : Grid)
    (hoff : Sg.scrollbackOffset = 0) (hsz : Sg.size = (rsOf q.ws).g.size)
    (hS : SrcRows W Sg.size.cols Sg.rows) (hn : Sg.rows.length = Sg.size.rows)
    (hrow : Sg.pos.row < Sg.size.rows) (hcol : Sg.pos.col ≤ Sg.size.cols) :
    ∃ bytes pa, Sg.writeContentsFormatted = .ok (bytes, pa) ∧
      ∃ Rf, Emitted W cb q bytes Rf ∧ Rf.pen = pa ∧
        RowsInv Sg.rows Sg.size.cols Sg.rows.length false Sg.pos Rf ∧
        Rf.g.scrollbackOffset = (rsOf q.ws).g.scrollbackOffset := by
  obtain ⟨R1, hem1, hpen1, hinv1, hoff1, _⟩ := prefix_drawn (cb := cb) hq Sg.rows (by rw [hn, hsz])
  rw [← hsz] at hinv1
  obtain ⟨out', pp', pa', R', eloop, hem', hpen', hinv', hoff', hwf'⟩ := rows_loop hW q hq.ready hS Sg.rows 0 false ⟨0, 0⟩
    (Term.clearAttrs ++ Term.clearScreen) R1 rfl (Nat.zero_le _) (fun h => absurd h (Nat.lt_irrefl 0)) (fun _ => rfl)
    hinv1 hem1
  rw [hpen1] at eloop
  have hpawf : Attrs.wf pa' := hwf' (by rw [hpen1]; exact wf_default)
  have hvis := C19.visibleRows_offset0 Sg hoff
  have hppb : pp'.col ≤ Sg.size.cols :=
    PosBound.fmtRowsLoop_pos_le (W := W) Sg.rows 0 false ⟨0, 0⟩ Attrs.default _
      (fun r hr => ⟨hS.ok r hr, hS.width r hr⟩) (Nat.zero_le _) eloop
  obtain ⟨bytes, hcur, Rf, hemf, hpenf, hinvf, hofff⟩ := cursor_fixup (cb := cb) hW hq.ready Sg hS hn hrow hcol hem' hpen' hpawf hinv'
    (some pp') (fun p hp => by
      have : pp' = p := Option.some.inj hp
      subst this
      exact ⟨rfl, hppb⟩)
  refine ⟨out' ++ bytes, pa', ?_, Rf, hemf, hpenf, hinvf, hofff.trans (hoff'.trans hoff1)⟩
  simp only [Grid.writeContentsFormatted, hvis, ok_bind, eloop, hcur, pure_eq_ok]

end Vt.C01
