/-
  C19 — emitted bytes depend only on observable state; equal screens diff to nothing.

  * `Cell.View` is everything `row.rs` / `grid.rs` can observe of a cell through `cell.rs`'s
    crate-visible API (`==`, `has_contents`, `contents`, `is_wide`, `is_wide_continuation`,
    `attrs`): length, flags, attributes and the *live* prefix of the content bytes.
    `eq_iff_view` : the hand-written `PartialEq` is exactly equality of views, so stale bytes
    beyond `len` never influence a comparison; `accessors_view` : every accessor factors through
    the view.
  * `state_formatted_concat`, `state_diff_concat` : exactly the concatenation of the parts.
  * `attrs_diff_self`, `input_mode_diff_self` : nothing is written for equal pens / equal modes.
-/
import Vt.Lemmas.Screen
namespace Vt.C19
open Vt

/-- what the rest of the crate can observe of a cell -/
structure View where
  len : Nat
  wide : Bool
  cont : Bool
  attrs : Attrs
  live : List Nat
  deriving DecidableEq, Repr

def view (c : Cell) : View := ⟨c.len, c.wide, c.cont, c.attrs, c.contents.take c.len⟩

/-- `impl PartialEq for Cell` is equality of views: stale bytes do not matter -/
theorem eq_iff_view (a b : Cell) : a.eq b = true ↔ view a = view b := by
  simp only [Cell.eq, view, Bool.and_eq_true, beq_iff_eq, View.mk.injEq]
  constructor
  · rintro ⟨⟨⟨⟨h1, h2⟩, h3⟩, h4⟩, h5⟩
    exact ⟨h1, h2, h3, h4, by rw [h5, h1]⟩
  · rintro ⟨h1, h2, h3, h4, h5⟩
    exact ⟨⟨⟨⟨h1, h2⟩, h3⟩, h4⟩, by rw [h5, h1]⟩

/-- every read accessor of `Cell` is a function of the view -/
theorem accessors_view (a b : Cell) (h : view a = view b) :
    a.hasContents = b.hasContents ∧ a.isWide = b.isWide ∧ a.isWideContinuation = b.isWideContinuation ∧
    a.attrs = b.attrs ∧ a.contentsBytes = b.contentsBytes ∧ (∀ c, a.eq c = b.eq c) := by
  simp only [view, View.mk.injEq] at h
  obtain ⟨h1, h2, h3, h4, h5⟩ := h
  refine ⟨by simp [Cell.hasContents, h1], by simp [Cell.isWide, h2], by simp [Cell.isWideContinuation, h3],
    h4, by simp [Cell.contentsBytes, h5], ?_⟩
  intro c
  simp only [Cell.eq, h1, h2, h3, h4]
  rw [h1] at h5
  rw [h5]

/-- two cells that differ only in stale bytes compare equal -/
theorem stale_bytes_invisible (c : Cell) (junk : List Nat) (hl : c.len ≤ c.contents.length) :
    c.eq { c with contents := c.contents.take c.len ++ junk } = true := by
  rw [eq_iff_view]
  simp only [view, View.mk.injEq, true_and]
  rw [List.take_append_of_le_length (by simp [List.length_take]; omega)]
  simp [List.take_take]

theorem attrs_diff_self (a : Attrs) : a.writeEscapeCodeDiff a = [] := by
  simp [Attrs.writeEscapeCodeDiff, Attrs.diffBuilder, Term.SgrAttrs.write, Term.SgrAttrs.isEmpty]

/-- equal input modes: nothing is written -/
theorem input_mode_diff_self (s t : Screen)
    (h : s.appKeypad = t.appKeypad ∧ s.appCursor = t.appCursor ∧ s.bracketedPaste = t.bracketedPaste ∧
         s.mouseMode = t.mouseMode ∧ s.mouseEnc = t.mouseEnc) :
    s.inputModeDiff t = [] := by
  obtain ⟨h1, h2, h3, h4, h5⟩ := h
  simp [Screen.inputModeDiff, Screen.writeInputModeDiff, h1, h2, h3, h4, h5, Term.mouseProtocolMode,
    Term.mouseProtocolEncoding]

/-- the input-mode bytes are a function of the five observable modes only -/
theorem input_mode_formatted_obs (s t : Screen)
    (h : s.appKeypad = t.appKeypad ∧ s.appCursor = t.appCursor ∧ s.bracketedPaste = t.bracketedPaste ∧
         s.mouseMode = t.mouseMode ∧ s.mouseEnc = t.mouseEnc) :
    s.inputModeFormatted = t.inputModeFormatted := by
  obtain ⟨h1, h2, h3, h4, h5⟩ := h
  simp [Screen.inputModeFormatted, Screen.writeInputModeFormatted, h1, h2, h3, h4, h5]

/-- `attributes_formatted` is a function of the pen only -/
theorem attributes_formatted_obs (s t : Screen) (h : s.attrs = t.attrs) :
    s.attributesFormatted = t.attributesFormatted := by
  simp [Screen.attributesFormatted, h]

theorem state_formatted_concat (s : Screen) :
    s.stateFormatted = (s.contentsFormatted >>= fun c => pure (c ++ s.inputModeFormatted)) := rfl

theorem state_diff_concat (s prev : Screen) :
    s.stateDiff prev = (s.contentsDiff prev >>= fun c => pure (c ++ s.inputModeDiff prev)) := rfl

end Vt.C19
