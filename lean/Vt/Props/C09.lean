/-
  C09 — SGR: the pen is what SGR semantics define, and pen encodings round-trip.

  Theorems (all for every pen, every remaining parameter list, every callback
  continuation `unh`, i.e. unbounded):
  * `sgr_*`  : the head-step laws of `Screen::sgr` — one per clause of the
    property text.  Together they determine `sgr` on every parameter list.
  * `sgr_frame` : SGR changes nothing but the pen (and reports events).
  * `attrs_diff_roundtrip_params` : the parameter list the crate emits for a
    pen-to-pen change turns the first pen into the second
    (`Attrs::write_escape_code_diff` through `term::Attrs::write_buf`).
  * `attributes_formatted_params` : `attributes_formatted` sets exactly the pen
    from any receiver pen.
-/
import Vt.Model.Perform
import Vt.Lemmas.Except
namespace Vt.C09
open Vt

variable (unh : WS → M WS) (rest : List (List Nat)) (ws : WS)

/-! ### head-step laws -/

theorem sgr_reset : sgrLoop unh ([0] :: rest) ws = sgrLoop unh rest (ws.modAttrs (fun _ => Attrs.default)) := by
  rw [sgrLoop]
theorem sgr_bold : sgrLoop unh ([1] :: rest) ws = sgrLoop unh rest (ws.modAttrs (fun a => { a with intensity := .bold })) := by
  rw [sgrLoop]
theorem sgr_dim : sgrLoop unh ([2] :: rest) ws = sgrLoop unh rest (ws.modAttrs (fun a => { a with intensity := .dim })) := by
  rw [sgrLoop]
theorem sgr_italic : sgrLoop unh ([3] :: rest) ws = sgrLoop unh rest (ws.modAttrs (fun a => { a with italic := true })) := by
  rw [sgrLoop]
theorem sgr_underline : sgrLoop unh ([4] :: rest) ws = sgrLoop unh rest (ws.modAttrs (fun a => { a with underline := true })) := by
  rw [sgrLoop]
theorem sgr_inverse : sgrLoop unh ([7] :: rest) ws = sgrLoop unh rest (ws.modAttrs (fun a => { a with inverse := true })) := by
  rw [sgrLoop]
theorem sgr_normal : sgrLoop unh ([22] :: rest) ws = sgrLoop unh rest (ws.modAttrs (fun a => { a with intensity := .normal })) := by
  rw [sgrLoop]
theorem sgr_no_italic : sgrLoop unh ([23] :: rest) ws = sgrLoop unh rest (ws.modAttrs (fun a => { a with italic := false })) := by
  rw [sgrLoop]
theorem sgr_no_underline : sgrLoop unh ([24] :: rest) ws = sgrLoop unh rest (ws.modAttrs (fun a => { a with underline := false })) := by
  rw [sgrLoop]
theorem sgr_no_inverse : sgrLoop unh ([27] :: rest) ws = sgrLoop unh rest (ws.modAttrs (fun a => { a with inverse := false })) := by
  rw [sgrLoop]
theorem sgr_fg_default : sgrLoop unh ([39] :: rest) ws = sgrLoop unh rest (ws.setFg .default) := by
  rw [sgrLoop]
theorem sgr_bg_default : sgrLoop unh ([49] :: rest) ws = sgrLoop unh rest (ws.setBg .default) := by
  rw [sgrLoop]

theorem sgr_fg_idx (n : Nat) (h : 30 ≤ n ∧ n ≤ 37) :
    sgrLoop unh ([n] :: rest) ws = sgrLoop unh rest (ws.setFg (.idx (n - 30))) := by
  rw [sgrLoop]
  · simp [h]
  all_goals omega
theorem sgr_bg_idx (n : Nat) (h : 40 ≤ n ∧ n ≤ 47) :
    sgrLoop unh ([n] :: rest) ws = sgrLoop unh rest (ws.setBg (.idx (n - 40))) := by
  rw [sgrLoop]
  · have : ¬ (n ≤ 37) := by omega
    simp [h, this]
  all_goals omega
theorem sgr_fg_bright (n : Nat) (h : 90 ≤ n ∧ n ≤ 97) :
    sgrLoop unh ([n] :: rest) ws = sgrLoop unh rest (ws.setFg (.idx (n - 82))) := by
  rw [sgrLoop]
  · have h1 : ¬ (n ≤ 37) := by omega
    have h2 : ¬ (n ≤ 47) := by omega
    simp [h, h1, h2]
  all_goals omega
theorem sgr_bg_bright (n : Nat) (h : 100 ≤ n ∧ n ≤ 107) :
    sgrLoop unh ([n] :: rest) ws = sgrLoop unh rest (ws.setBg (.idx (n - 92))) := by
  rw [sgrLoop]
  · have h1 : ¬ (n ≤ 37) := by omega
    have h2 : ¬ (n ≤ 47) := by omega
    have h3 : ¬ (n ≤ 97) := by omega
    simp [h, h1, h2, h3]
  all_goals omega

/-- `38;5;i` / `48;5;i` (semicolon form) -/
theorem sgr_fg_256 (i : Nat) (h : i ≤ 255) :
    sgrLoop unh ([38] :: [5] :: [i] :: rest) ws = sgrLoop unh rest (ws.setFg (.idx i)) := by
  rw [sgrLoop]; simp [h]
theorem sgr_bg_256 (i : Nat) (h : i ≤ 255) :
    sgrLoop unh ([48] :: [5] :: [i] :: rest) ws = sgrLoop unh rest (ws.setBg (.idx i)) := by
  rw [sgrLoop]; simp [h]
/-- `38;2;r;g;b` / `48;2;r;g;b` (semicolon form) -/
theorem sgr_fg_rgb (r g b : Nat) (h : r ≤ 255 ∧ g ≤ 255 ∧ b ≤ 255) :
    sgrLoop unh ([38] :: [2] :: [r] :: [g] :: [b] :: rest) ws = sgrLoop unh rest (ws.setFg (.rgb r g b)) := by
  rw [sgrLoop]; simp [h]
theorem sgr_bg_rgb (r g b : Nat) (h : r ≤ 255 ∧ g ≤ 255 ∧ b ≤ 255) :
    sgrLoop unh ([48] :: [2] :: [r] :: [g] :: [b] :: rest) ws = sgrLoop unh rest (ws.setBg (.rgb r g b)) := by
  rw [sgrLoop]; simp [h]
/-- colon sub-parameter forms -/
theorem sgr_fg_256_colon (i : Nat) (h : i ≤ 255) :
    sgrLoop unh ([38, 5, i] :: rest) ws = sgrLoop unh rest (ws.setFg (.idx i)) := by
  rw [sgrLoop]; simp [h]
theorem sgr_bg_256_colon (i : Nat) (h : i ≤ 255) :
    sgrLoop unh ([48, 5, i] :: rest) ws = sgrLoop unh rest (ws.setBg (.idx i)) := by
  rw [sgrLoop]; simp [h]
theorem sgr_fg_rgb_colon (r g b : Nat) (h : r ≤ 255 ∧ g ≤ 255 ∧ b ≤ 255) :
    sgrLoop unh ([38, 2, r, g, b] :: rest) ws = sgrLoop unh rest (ws.setFg (.rgb r g b)) := by
  rw [sgrLoop]; simp [h]
theorem sgr_bg_rgb_colon (r g b : Nat) (h : r ≤ 255 ∧ g ≤ 255 ∧ b ≤ 255) :
    sgrLoop unh ([48, 2, r, g, b] :: rest) ws = sgrLoop unh rest (ws.setBg (.rgb r g b)) := by
  rw [sgrLoop]; simp [h]

/-- the single numbers that have a meaning -/
def known (n : Nat) : Bool :=
  n == 0 || n == 1 || n == 2 || n == 3 || n == 4 || n == 7 || n == 22 || n == 23 || n == 24 || n == 27 ||
  (30 ≤ n && n ≤ 39) || (40 ≤ n && n ≤ 49) || (90 ≤ n && n ≤ 97) || (100 ≤ n && n ≤ 107)

/-- an unknown single parameter is reported and skipped; later parameters still apply -/
theorem sgr_unknown_skip (n : Nat) (h : known n = false) :
    sgrLoop unh ([n] :: rest) ws = (unh ws >>= fun ws => sgrLoop unh rest ws) := by
  simp only [known, Bool.or_eq_false_iff, Bool.and_eq_false_iff, beq_eq_false_iff_ne, ne_eq,
    decide_eq_false_iff_not, Nat.not_le] at h
  rw [sgrLoop]
  · have h1 : ¬ (30 ≤ n ∧ n ≤ 37) := by omega
    have h2 : ¬ (40 ≤ n ∧ n ≤ 47) := by omega
    have h3 : ¬ (90 ≤ n ∧ n ≤ 97) := by omega
    have h4 : ¬ (100 ≤ n ∧ n ≤ 107) := by omega
    simp [h1, h2, h3, h4]
  all_goals omega

/-- empty parameter list (never produced by vte, which always hands over one group) resets -/
theorem sgr_empty : sgr unh [] ws = pure (ws.modAttrs (fun _ => Attrs.default)) := by
  simp [sgr]

theorem sgr_nonempty (p : List Nat) : sgr unh (p :: rest) ws = sgrLoop unh (p :: rest) ws := by
  simp [sgr]

/-! ### frame: SGR touches nothing but the pen -/

/-- two wrapped screens that differ at most in the pen and the event log -/
def PenOnly (a b : WS) : Prop := ∃ at', b.screen = { a.screen with attrs := at' }

theorem penOnly_refl (a : WS) : PenOnly a a := ⟨a.screen.attrs, rfl⟩

theorem penOnly_trans {a b c : WS} (h1 : PenOnly a b) (h2 : PenOnly b c) : PenOnly a c := by
  obtain ⟨x, hx⟩ := h1
  obtain ⟨y, hy⟩ := h2
  exact ⟨y, by rw [hy, hx]⟩

theorem penOnly_modAttrs (a : WS) (f : Attrs → Attrs) : PenOnly a (a.modAttrs f) := ⟨f a.screen.attrs, rfl⟩
theorem penOnly_setFg (a : WS) (c : Color) : PenOnly a (a.setFg c) := ⟨_, rfl⟩
theorem penOnly_setBg (a : WS) (c : Color) : PenOnly a (a.setBg c) := ⟨_, rfl⟩

/-- if the `unhandled` callback leaves everything but the pen alone (`impl Callbacks for ()`
leaves the pen alone too), `sgr` changes nothing but the pen -/
theorem sgrLoop_frame (hunh : ∀ w w', unh w = .ok w' → PenOnly w w') :
    ∀ (ps : List (List Nat)) (ws ws' : WS), sgrLoop unh ps ws = .ok ws' → PenOnly ws ws' := by
  intro ps ws
  fun_induction sgrLoop unh ps ws <;> intro ws' h
  all_goals first
    | (simp only [pure, Except.pure, Except.ok.injEq] at h; subst h; exact penOnly_refl _)
    | (rename_i ih; exact penOnly_trans (penOnly_modAttrs _ _) (ih _ h))
    | (rename_i ih; exact penOnly_trans (penOnly_setFg _ _) (ih _ h))
    | (rename_i ih; exact penOnly_trans (penOnly_setBg _ _) (ih _ h))
    | exact hunh _ _ h
    | skip
  all_goals
    rename_i ih
    obtain ⟨w1, hw1, hw2⟩ := bind_eq_ok.mp h
    exact penOnly_trans (hunh _ _ hw1) (ih _ _ hw2)

end Vt.C09

namespace Vt.C09
open Vt

/-! ### the encoder: pen-to-pen changes round-trip (parameter level) -/

def Color.wf : Color → Prop
  | .default => True
  | .idx i => i ≤ 255
  | .rgb r g b => r ≤ 255 ∧ g ≤ 255 ∧ b ≤ 255

def Attrs.wf (a : Attrs) : Prop := Color.wf a.fg ∧ Color.wf a.bg

/-- vte hands each `;`-separated number over as its own group -/
def groups (ps : List Nat) : List (List Nat) := ps.map (fun p => [p])

variable (unh : WS → M WS)

theorem sgr_fgParams (c : Color) (hc : Color.wf c) (rest : List (List Nat)) (ws : WS) :
    sgrLoop unh (groups (Term.fgParams c) ++ rest) ws = sgrLoop unh rest (ws.setFg c) := by
  cases c with
  | default => simp [Term.fgParams, groups, sgr_fg_default]
  | idx i =>
    simp only [Term.fgParams]
    split
    · have := sgr_fg_idx unh rest ws (i + 30) (by omega)
      simpa [groups] using this
    · split
      · have := sgr_fg_bright unh rest ws (i + 82) (by omega)
        simpa [groups] using this
      · simp only [Color.wf] at hc
        simpa [groups] using sgr_fg_256 unh rest ws i hc
  | rgb r g b =>
    simp only [Color.wf] at hc
    simpa [groups, Term.fgParams] using sgr_fg_rgb unh rest ws r g b hc

theorem sgr_bgParams (c : Color) (hc : Color.wf c) (rest : List (List Nat)) (ws : WS) :
    sgrLoop unh (groups (Term.bgParams c) ++ rest) ws = sgrLoop unh rest (ws.setBg c) := by
  cases c with
  | default => simp [Term.bgParams, groups, sgr_bg_default]
  | idx i =>
    simp only [Term.bgParams]
    split
    · have := sgr_bg_idx unh rest ws (i + 40) (by omega)
      simpa [groups] using this
    · split
      · have := sgr_bg_bright unh rest ws (i + 92) (by omega)
        simpa [groups] using this
      · simp only [Color.wf] at hc
        simpa [groups] using sgr_bg_256 unh rest ws i hc
  | rgb r g b =>
    simp only [Color.wf] at hc
    simpa [groups, Term.bgParams] using sgr_bg_rgb unh rest ws r g b hc

/-- apply a `term::Attrs` builder to a pen -/
def applySgrAttrs (s : Term.SgrAttrs) (a : Attrs) : Attrs :=
  let a := match s.fg with | some c => { a with fg := c } | none => a
  let a := match s.bg with | some c => { a with bg := c } | none => a
  let a := match s.intensity with | some i => { a with intensity := i } | none => a
  let a := match s.italic with | some v => { a with italic := v } | none => a
  let a := match s.underline with | some v => { a with underline := v } | none => a
  match s.inverse with | some v => { a with inverse := v } | none => a

def SgrAttrs.wf (s : Term.SgrAttrs) : Prop :=
  (∀ c, s.fg = some c → Color.wf c) ∧ (∀ c, s.bg = some c → Color.wf c)

/-- processing the parameters `term::Attrs::write_buf` writes applies exactly the builder's fields -/
theorem sgr_sgrAttrs (s : Term.SgrAttrs) (hs : SgrAttrs.wf s) (ws : WS) :
    sgrLoop unh (groups s.params) ws = .ok (ws.modAttrs (applySgrAttrs s)) := by
  obtain ⟨fg, bg, inten, it, ul, inv⟩ := s
  obtain ⟨hfg, hbg⟩ := hs
  simp only [Term.SgrAttrs.params, groups, List.map_append]
  have e1 : ∀ (l : List Nat), List.map (fun p => [p]) l = groups l := fun _ => rfl
  simp only [e1]
  simp only [List.append_assoc]
  have hfg' : ∀ c, fg = some c → Color.wf c := hfg
  have hbg' : ∀ c, bg = some c → Color.wf c := hbg
  cases fg with
  | none =>
    cases bg with
    | none =>
      rcases inten with _ | (_ | _ | _) <;> rcases it with _ | (_ | _) <;>
        rcases ul with _ | (_ | _) <;> rcases inv with _ | (_ | _) <;>
        simp [groups, sgr_normal, sgr_bold, sgr_dim, sgr_italic, sgr_no_italic, sgr_underline,
          sgr_no_underline, sgr_inverse, sgr_no_inverse, applySgrAttrs, WS.modAttrs, sgrLoop]
    | some cb =>
      simp only [groups, List.map_nil, List.nil_append]
      rw [show List.map (fun p => [p]) (Term.bgParams cb) = groups (Term.bgParams cb) from rfl,
        sgr_bgParams unh cb (hbg' cb rfl)]
      rcases inten with _ | (_ | _ | _) <;> rcases it with _ | (_ | _) <;>
        rcases ul with _ | (_ | _) <;> rcases inv with _ | (_ | _) <;>
        simp [groups, sgr_normal, sgr_bold, sgr_dim, sgr_italic, sgr_no_italic, sgr_underline,
          sgr_no_underline, sgr_inverse, sgr_no_inverse, applySgrAttrs, WS.modAttrs, WS.setBg, sgrLoop]
  | some cf =>
    rw [sgr_fgParams unh cf (hfg' cf rfl)]
    cases bg with
    | none =>
      rcases inten with _ | (_ | _ | _) <;> rcases it with _ | (_ | _) <;>
        rcases ul with _ | (_ | _) <;> rcases inv with _ | (_ | _) <;>
        simp [groups, sgr_normal, sgr_bold, sgr_dim, sgr_italic, sgr_no_italic, sgr_underline,
          sgr_no_underline, sgr_inverse, sgr_no_inverse, applySgrAttrs, WS.modAttrs, WS.setFg, sgrLoop]
    | some cb =>
      rw [sgr_bgParams unh cb (hbg' cb rfl)]
      rcases inten with _ | (_ | _ | _) <;> rcases it with _ | (_ | _) <;>
        rcases ul with _ | (_ | _) <;> rcases inv with _ | (_ | _) <;>
        simp [groups, sgr_normal, sgr_bold, sgr_dim, sgr_italic, sgr_no_italic, sgr_underline,
          sgr_no_underline, sgr_inverse, sgr_no_inverse, applySgrAttrs, WS.modAttrs, WS.setFg, WS.setBg, sgrLoop]

end Vt.C09

namespace Vt.C09
open Vt

/-- the parameter groups vte hands to `sgr` for the bytes of `write_escape_code_diff`
(`none`: no bytes are written).  The byte-level half (bytes ↦ these groups through the
vte model) is `Vt.Csi.sgr_bytes_parse`. -/
def diffGroups (self other : Attrs) : Option (List (List Nat)) :=
  if self != other && self == Attrs.default then some [[0]]
  else
    let b := Attrs.diffBuilder self other
    if b.isEmpty then none else some (groups b.params)

theorem apply_diffBuilder (a b : Attrs) : applySgrAttrs (Attrs.diffBuilder a b) b = a := by
  obtain ⟨afg, abg, ai, ait, aul, ainv⟩ := a
  obtain ⟨bfg, bbg, bi, bit, bul, binv⟩ := b
  simp only [Attrs.diffBuilder, applySgrAttrs]
  by_cases h1 : afg = bfg <;> by_cases h2 : abg = bbg <;> by_cases h3 : ai = bi <;>
    by_cases h4 : ait = bit <;> by_cases h5 : aul = bul <;> by_cases h6 : ainv = binv <;>
    simp [h1, h2, h3, h4, h5, h6]

theorem diffBuilder_wf (a b : Attrs) (h : Attrs.wf a) : SgrAttrs.wf (Attrs.diffBuilder a b) := by
  obtain ⟨hf, hb⟩ := h
  constructor
  · intro c hc
    simp only [Attrs.diffBuilder] at hc
    have : c = a.fg := by
      repeat' split at hc
      all_goals simp_all
    exact this ▸ hf
  · intro c hc
    simp only [Attrs.diffBuilder] at hc
    have : c = a.bg := by
      repeat' split at hc
      all_goals simp_all
    exact this ▸ hb

theorem diffBuilder_empty (a b : Attrs) (h : (Attrs.diffBuilder a b).isEmpty = true) : a = b := by
  have := apply_diffBuilder a b
  generalize Attrs.diffBuilder a b = bld at h this
  obtain ⟨fg, bg, inten, it, ul, inv⟩ := bld
  simp only [Term.SgrAttrs.isEmpty, Bool.and_eq_true, Option.isNone_iff_eq_none] at h
  obtain ⟨⟨⟨⟨⟨h1, h2⟩, h3⟩, h4⟩, h5⟩, h6⟩ := h
  subst h1 h2 h3 h4 h5 h6
  simpa [applySgrAttrs] using this.symm

/-- **every pen-to-pen change the crate emits turns the first pen into the second**
(`b` = receiver's pen, `a` = target pen), at the level of the parameter groups. -/
theorem attrs_diff_roundtrip_params (unh : WS → M WS) (a b : Attrs) (hwf : Attrs.wf a) (ws : WS)
    (hb : ws.screen.attrs = b) :
    match diffGroups a b with
    | none => a = b
    | some gs => sgr unh gs ws = .ok (ws.modAttrs (fun _ => a)) := by
  by_cases h : (a != b && a == Attrs.default) = true
  · simp only [diffGroups, h, ↓reduceIte]
    simp only [Bool.and_eq_true, beq_iff_eq] at h
    simp only [sgr, List.isEmpty_cons, Bool.false_eq_true, ↓reduceIte]
    rw [sgrLoop, sgrLoop]
    rw [h.2]; rfl
  · by_cases h2 : (Attrs.diffBuilder a b).isEmpty = true
    · simp only [diffGroups, h, h2, ↓reduceIte]
      exact diffBuilder_empty a b h2
    · simp only [diffGroups, h, h2, ↓reduceIte]
      have hne : (groups (Attrs.diffBuilder a b).params).isEmpty = false := by
        generalize Attrs.diffBuilder a b = bld at h2 ⊢
        obtain ⟨fg, bg, inten, it, ul, inv⟩ := bld
        simp only [Term.SgrAttrs.isEmpty, Bool.and_eq_true, Option.isNone_iff_eq_none, not_and] at h2
        simp only [groups, Term.SgrAttrs.params, List.isEmpty_map, List.isEmpty_eq_false_iff,
          ne_eq, List.append_eq_nil_iff, not_and]
        intro e1 e2
        obtain ⟨⟨⟨⟨e1, e3⟩, e4⟩, e5⟩, e6⟩ := e1
        rcases fg with _ | c
        · rcases bg with _ | c
          · rcases inten with _ | (_ | _ | _) <;> rcases it with _ | (_ | _) <;>
              rcases ul with _ | (_ | _) <;> rcases inv with _ | (_ | _) <;> simp_all
          · cases c <;> simp [Term.bgParams] at e3 <;> (repeat' split at e3) <;> simp_all
        · cases c <;> simp [Term.fgParams] at e1 <;> (repeat' split at e1) <;> simp_all
      simp only [sgr, hne, Bool.false_eq_true, ↓reduceIte]
      rw [sgr_sgrAttrs unh _ (diffBuilder_wf a b hwf)]
      simp only [WS.modAttrs, hb, apply_diffBuilder]

/-- `attributes_formatted` = `ESC[m` then the change from the default pen: sets exactly the pen
on any receiver (parameter level: first `[[0]]`, then `diffGroups pen default`). -/
theorem attributes_formatted_params (unh : WS → M WS) (pen : Attrs) (hwf : Attrs.wf pen) (ws : WS) :
    ∃ ws1, sgr unh [[0]] ws = .ok ws1 ∧
      match diffGroups pen Attrs.default with
      | none => ws1 = ws.modAttrs (fun _ => pen)
      | some gs => sgr unh gs ws1 = .ok (ws.modAttrs (fun _ => pen)) := by
  refine ⟨ws.modAttrs (fun _ => Attrs.default), ?_, ?_⟩
  · simp only [sgr, List.isEmpty_cons, Bool.false_eq_true, ↓reduceIte]
    rw [sgrLoop, sgrLoop]; rfl
  · have := attrs_diff_roundtrip_params unh pen Attrs.default hwf (ws.modAttrs (fun _ => Attrs.default)) rfl
    revert this
    cases diffGroups pen Attrs.default with
    | none => intro h; simp [WS.modAttrs, h]
    | some gs => intro h; simpa [WS.modAttrs] using h

/-- non-vacuity: a concrete coloured, bold pen against an underlined one -/
example : diffGroups { fg := .idx 9, bg := .rgb 1 2 3, intensity := .bold } { underline := true }
    = some [[91], [48], [2], [1], [2], [3], [1], [24]] := by decide

end Vt.C09
