/-
  Vt.Props.DiffRow — one line of a DIFF (`Row::write_contents_diff`, no wrap-through): the receiver's line shows
  the previous line `P`; processing the emitted bytes makes it show the current line `S`, cell for cell.

  Unlike the redraw (RowDraw), the receiving line is not blank: what is typed and erased lands on arbitrary
  well-formed cells (wide characters under and next to the cursor included), so the receiver side uses the closed
  forms `C05.printedRow` (typing, via `type_cell_any`) and `C07.erasedRow` (ECH / EL) on every well-formed line.
  The receiver's well-formedness at each point comes from `process_total` (the parser invariant is kept by every
  byte string) and `Vt.Bytes` (what the emitter has written so far are bytes).
-/
import Vt.Props.DiffType
import Vt.Props.RowDraw
import Vt.Props.Bytes
namespace Vt.DiffRow
open Vt Vt.Recv Vt.C19 Vt.C09 Vt.RowDraw Vt.C03 Vt.Bytes
set_option linter.unusedSimpArgs false
set_option linter.unusedVariables false

variable {W : Nat → Option Nat} {cb : CbPolicy}

/-! ### the receiver is well formed after any emitted prefix -/

theorem emitted_inv (hW32 : W 32 = some 1) (hcb : C13.CbInv W cb) {p0 : Parser} (hp : C13.ParserInv W p0) {out : List Nat}
    {R : RS} (hb : Bytes out) (h : Emitted W cb p0 out R) :
    GridInv W R.g true ∧ R.g.rows.length = R.g.size.rows := by
  obtain ⟨p', e, w, _⟩ := h
  obtain ⟨p'', e', hinv⟩ := C13.process_total hW32 hcb p0 hp out hb
  have : p'' = p' := by rw [e] at e'; exact (Except.ok.inj e').symm
  subst this
  have hc := hinv.screen.cur
  rw [w] at hc
  have : (withRS p0.ws R).screen.cur = R.g := by
    simp only [withRS]
    exact setCur_cur _ _
  rw [this] at hc
  exact hc

/-! ### the receiving line in the middle of a diff -/

/-- the receiving line `Ri` shows the current line `S` on columns `< e` and the previous line `P` on columns
`> e`; column `e` shows `P` too, unless `P` has the second half of a wide character there whose first half has
been overwritten — then it is some plain cell (and `S` has no second half there) -/
structure Mid (S P : List Cell) (e : Nat) (Ri : Row) : Prop where
  unwrapped : Ri.wrapped = false
  len : Ri.cells.length = S.length
  plen : P.length = S.length
  lo : ∀ k (hk : k < S.length), k < e → view (Ri.cells[k]'(by rw [len]; exact hk)) = view S[k]
  hi : ∀ k (hk : k < S.length), e < k → view (Ri.cells[k]'(by rw [len]; exact hk)) = view (P[k]'(by rw [plen]; exact hk))
  mid : ∀ (hk : e < S.length),
    view (Ri.cells[e]'(by rw [len]; exact hk)) = view (P[e]'(by rw [plen]; exact hk)) ∨
    ((P[e]'(by rw [plen]; exact hk)).cont = true ∧ S[e].cont = false ∧
      (Ri.cells[e]'(by rw [len]; exact hk)).wide = false ∧ (Ri.cells[e]'(by rw [len]; exact hk)).cont = false)

theorem view_wide {a b : Cell} (h : view a = view b) : a.wide = b.wide := by
  simp only [view, View.mk.injEq] at h; exact h.2.1

theorem view_cont {a b : Cell} (h : view a = view b) : a.cont = b.cont := by
  simp only [view, View.mk.injEq] at h; exact h.2.2.1

/-- the line shows the previous line: the start of a diff -/
theorem mid_zero {S P : List Cell} {Ri : Row} (hu : Ri.wrapped = false) (hpl : P.length = S.length)
    (hv : Ri.cells.map view = P.map view) : Mid S P 0 Ri := by
  have hl : Ri.cells.length = S.length := by
    have := congrArg List.length hv
    simp only [List.length_map] at this
    omega
  have hget : ∀ k (hk : k < S.length), view (Ri.cells[k]'(by rw [hl]; exact hk)) = view (P[k]'(by rw [hpl]; exact hk)) := by
    intro k hk
    have := congrArg (fun l => l[k]?) hv
    simp only [List.getElem?_map, List.getElem?_eq_getElem (show k < Ri.cells.length by rw [hl]; exact hk),
      List.getElem?_eq_getElem (show k < P.length by rw [hpl]; exact hk), Option.map_some, Option.some.injEq] at this
    exact this
  exact ⟨hu, hl, hpl, fun k hk h => absurd h (Nat.not_lt_zero _), fun k hk _ => hget k hk, fun hk => Or.inl (hget 0 hk)⟩

/-- the whole line is done -/
theorem Mid.full {S P : List Cell} {Ri : Row} (h : Mid S P S.length Ri) :
    Ri.cells.map view = S.map view ∧ Ri.wrapped = false := by
  refine ⟨?_, h.unwrapped⟩
  apply List.ext_getElem?
  intro k
  simp only [List.getElem?_map]
  by_cases hk : k < S.length
  · rw [List.getElem?_eq_getElem (show k < Ri.cells.length by rw [h.len]; exact hk), List.getElem?_eq_getElem hk]
    simp only [Option.map_some, Option.some.injEq]
    exact h.lo k hk hk
  · rw [List.getElem?_eq_none (by rw [h.len]; omega), List.getElem?_eq_none (by omega)]

/-- an unchanged cell that is not the first half of a wide character: nothing to do -/
theorem Mid.skip1 {S P : List Cell} {j : Nat} {Ri : Row} (h : Mid S P j Ri) (hj : j < S.length)
    (hv : view S[j] = view (P[j]'(by rw [h.plen]; exact hj))) : Mid S P (j + 1) Ri := by
  refine ⟨h.unwrapped, h.len, h.plen, ?_, ?_, ?_⟩
  · intro k hk hkj
    by_cases hkj' : k < j
    · exact h.lo k hk hkj'
    · have : k = j := by omega
      subst this
      rcases h.mid hj with h1 | ⟨hpc, hsc, _, _⟩
      · rw [h1, hv]
      · have := view_cont hv
        rw [hsc, hpc] at this
        exact absurd this (by simp)
  · intro k hk hkj
    exact h.hi k hk (by omega)
  · intro hk
    exact Or.inl (h.hi (j + 1) hk (by omega))

/-- an unchanged wide character: both halves are as they should be -/
theorem Mid.skip2 {S P : List Cell} (hS : SrcOk W S) (hP : SrcOk W P) {j : Nat} {Ri : Row} (h : Mid S P j Ri)
    (hj : j < S.length) (hv : view S[j] = view (P[j]'(by rw [h.plen]; exact hj))) (hw : S[j].wide = true) :
    Mid S P (j + 2) Ri := by
  have h1 := h.skip1 hj hv
  obtain ⟨hj1, hc1⟩ := hS.wide_next j hj hw
  have hpw : (P[j]'(by rw [h.plen]; exact hj)).wide = true := by rw [← view_wide hv]; exact hw
  obtain ⟨hj1', hc1'⟩ := hP.wide_next j (by rw [h.plen]; exact hj) hpw
  have := h1.skip1 hj1 (by rw [hS.cont_view (j + 1) hj1 hc1, hP.cont_view (j + 1) hj1' hc1'])
  exact this

/-! ### erasing on the receiving line -/

theorem erasedRow_get (cs : List Cell) (w : Bool) (lo hi : Nat) (a : Attrs) (k : Nat) (hk : k < cs.length) :
    (C07.erasedRow cs w lo hi a).cells[k]'(by simp [C07.erasedRow, C07.eraseRange]; exact hk) =
      C07.rangeCell lo hi a k cs[k] := by
  simp [C07.erasedRow, C07.eraseRange]

/-- erasing `[e, j)` where the current line has blanks with the pen's attributes -/
theorem Mid.erase {S P : List Cell} (hS : SrcOk W S) (hP : SrcOk W P) {e j : Nat} {Ri : Row} (h : Mid S P e Ri)
    (hej : e < j) (hjl : j ≤ S.length) (a : Attrs)
    (hrun : ∀ k (hk : k < S.length), e ≤ k → k < j → view S[k] = blankA a) :
    Mid S P j (C07.erasedRow Ri.cells Ri.wrapped e j a) := by
  have hlen : (C07.erasedRow Ri.cells Ri.wrapped e j a).cells.length = S.length := by
    simp [C07.erasedRow, C07.eraseRange_length, h.len]
  have hse : S[e].cont = false := by
    have := hrun e (by omega) (Nat.le_refl _) hej
    simp only [view, blankA, View.mk.injEq] at this
    exact this.2.2.1
  refine ⟨?_, hlen, h.plen, ?_, ?_, ?_⟩
  · simp only [C07.erasedRow]
    split
    · rfl
    · exact h.unwrapped
  · intro k hk hkj
    have hkR : k < Ri.cells.length := by rw [h.len]; exact hk
    rw [erasedRow_get _ _ _ _ _ k hkR]
    by_cases hin : e ≤ k
    · have : C07.rangeCell e j a k Ri.cells[k] = Ri.cells[k].clear a := by
        unfold C07.rangeCell; rw [if_pos ⟨hin, hkj⟩]
      rw [this, view_clear, hrun k hk hin hkj]
    · have hke : k < e := by omega
      have hun : C07.rangeCell e j a k Ri.cells[k] = Ri.cells[k] := by
        unfold C07.rangeCell
        rw [if_neg (by omega)]
        by_cases hk1 : k + 1 = e
        · have hnw : Ri.cells[k].wide = false := by
            cases hw : Ri.cells[k].wide
            · rfl
            · exfalso
              have hsw : S[k].wide = true := by rw [← view_wide (h.lo k hk hke)]; exact hw
              obtain ⟨hk1', hc⟩ := hS.wide_next k hk hsw
              have : S[e].cont = true := by
                have he : k + 1 = e := hk1
                subst he; exact hc
              rw [hse] at this; exact absurd this (by simp)
          rw [if_neg (by rw [hnw]; simp), if_neg (by omega)]
        · rw [if_neg (by omega), if_neg (by omega)]
      rw [hun]; exact h.lo k hk hke
  · intro k hk hkj
    have hkR : k < Ri.cells.length := by rw [h.len]; exact hk
    rw [erasedRow_get _ _ _ _ _ k hkR, C07.rangeCell_outside e j a k _ (Or.inr hkj)]
    exact h.hi k hk (by omega)
  · intro hk
    have hkR : j < Ri.cells.length := by rw [h.len]; exact hk
    rw [erasedRow_get _ _ _ _ _ j hkR]
    have hv := h.hi j hk hej
    by_cases hc : Ri.cells[j].cont = true
    · have : C07.rangeCell e j a j Ri.cells[j] = Ri.cells[j].clear Ri.cells[j].attrs := by
        unfold C07.rangeCell
        rw [if_neg (by omega), if_neg (by omega), if_pos ⟨rfl, hej, hc⟩]
      rw [this]
      refine Or.inr ⟨by rw [← view_cont hv]; exact hc, ?_, by simp [Cell.clear], by simp [Cell.clear]⟩
      rw [hS.cont_iff j hk, if_neg (by omega)]
      have := hrun (j - 1) (by omega) (by omega) (by omega)
      simp only [view, blankA, View.mk.injEq] at this
      exact this.2.1
    · have : C07.rangeCell e j a j Ri.cells[j] = Ri.cells[j] := by
        unfold C07.rangeCell
        rw [if_neg (by omega), if_neg (by omega), if_neg (fun h' => hc h'.2.2)]
      rw [this]; exact Or.inl hv

/-- the cursor line of the receiver while line `i` is being diffed -/
theorem curLine_shape (K : Ctx W cb) {Ri : Row} (hl : Ri.cells.length = K.r0.g.size.cols) (hci : CellsInv W Ri.cells)
    (e : Nat) (he : e ≤ K.r0.g.size.cols) (a : Attrs) : C07.CurLine W (shape K.r0 K.i Ri ⟨K.i, e⟩ a).g Ri :=
  ⟨shape_row K.canvas K.hi Ri ⟨K.i, e⟩ a, hci, hl, he, K.canvas.cols_pos, K.canvas.cols_u16⟩

/-- ECH `n` at column `e` of the receiving line -/
theorem shape_echD (K : Ctx W cb) {Ri : Row} (hl : Ri.cells.length = K.r0.g.size.cols) (hci : CellsInv W Ri.cells)
    (e n : Nat) (hen : e + n ≤ K.r0.g.size.cols) (a : Attrs) :
    (shape K.r0 K.i Ri ⟨K.i, e⟩ a).g.eraseCells n a =
      .ok (shape K.r0 K.i (C07.erasedRow Ri.cells Ri.wrapped e (e + n) a) ⟨K.i, e⟩ a).g := by
  rw [C07.ech_eq (curLine_shape K hl hci e (by omega) a) n a]
  have hu := K.canvas.cols_u16
  have hmin : min (satAddU16 e n) K.r0.g.size.cols = e + n := by
    simp only [satAddU16, U16_MAX]; omega
  show Except.ok (C07.erasedGrid _ Ri e (min (satAddU16 e n) K.r0.g.size.cols) a) = _
  rw [hmin]
  simp [C07.erasedGrid, shape, List.set_set]

/-- EL 0 at column `e` of the receiving line -/
theorem shape_elD (K : Ctx W cb) {Ri : Row} (hl : Ri.cells.length = K.r0.g.size.cols) (hci : CellsInv W Ri.cells)
    (e : Nat) (he : e ≤ K.r0.g.size.cols) (a : Attrs) :
    (shape K.r0 K.i Ri ⟨K.i, e⟩ a).g.eraseRowForward a =
      .ok (shape K.r0 K.i (C07.erasedRow Ri.cells Ri.wrapped e K.r0.g.size.cols a) ⟨K.i, e⟩ a).g := by
  rw [C07.el0_eq (curLine_shape K hl hci e he a) a]
  simp [C07.erasedGrid, shape, List.set_set]

/-! ### typing on the receiving line -/

theorem typedRow_get (r : Row) (col cols : Nat) (a : Attrs) (f : Nat) (cellF : Cell) (k : Nat) (hk : k < r.cells.length) :
    (typedRow W r col cols a f cellF).cells[k]'(by simp [typedRow, C05.printedRow]; exact hk) =
      if col = k then cellF else C05.printedCell W r.cells col a f (decide (C05.effWidth W f > 1)) k r.cells[k] := by
  simp [typedRow, C05.printedRow, List.getElem_set]

theorem flagAt_get (cs : List Cell) (k : Nat) (hk : k < cs.length) (f : Cell → Bool) : C05.flagAt cs k f = f cs[k] := by
  simp [C05.flagAt, List.getElem?_eq_getElem hk]

theorem flagAt_none (cs : List Cell) (k : Nat) (hk : cs.length ≤ k) (f : Cell → Bool) : C05.flagAt cs k f = false := by
  simp [C05.flagAt, List.getElem?_eq_none hk]

theorem view_contOf (y : Cell) : view (C05.contOf y) = contV := by
  simp [view, C05.contOf, Cell.clear, Cell.setWideContinuation, contV]

/-- the cell under the drawing position is never the second half of a wide character -/
theorem Mid.not_cont {S P : List Cell} (hS : SrcOk W S) {j : Nat} {Ri : Row} (h : Mid S P j Ri) (hci : CellsInv W Ri.cells)
    (hj : j < S.length) (hsc : S[j].cont = false) : (Ri.cells[j]'(by rw [h.len]; exact hj)).cont = false := by
  have hjR : j < Ri.cells.length := by rw [h.len]; exact hj
  cases hc : Ri.cells[j].cont
  · rfl
  · exfalso
    by_cases hj0 : j = 0
    · subst hj0
      obtain ⟨p, e1, e2, _⟩ := pairThrough_split (List.getElem?_eq_getElem hjR) hci.paired
      simp [pairThrough] at e1
      rw [e1, hc] at e2
      exact absurd e2 (by simp)
    · have hj1 : j - 1 < Ri.cells.length := by omega
      have := C07.paired_adjacent hci.paired (List.getElem?_eq_getElem hj1)
        (by rw [show j - 1 + 1 = j by omega]; exact List.getElem?_eq_getElem hjR)
      rw [hc] at this
      have hsw : (S[j - 1]'(by omega)).wide = true := by
        rw [← view_wide (h.lo (j - 1) (by omega) (by omega))]; exact this.symm
      have := hS.cont_iff j hj
      rw [if_neg hj0, hsw, hsc] at this
      exact absurd this (by simp)

/-- a narrow cell of the current line typed at column `j` -/
theorem Mid.typed1 {S P : List Cell} (hW32 : W 32 = some 1) (hS : SrcOk W S) (hP : SrcOk W P) {j : Nat} {Ri : Row}
    (h : Mid S P j Ri) (hci : CellsInv W Ri.cells) (hj : j < S.length) (hsc : S[j].cont = false) (hsw : S[j].wide = false)
    (cols : Nat) (a : Attrs) (f : Nat) (hw : C05.effWidth W f = 1) (cellF : Cell) (hvF : view cellF = view S[j]) :
    Mid S P (j + 1) (typedRow W Ri j cols a f cellF) := by
  have hjR : j < Ri.cells.length := by rw [h.len]; exact hj
  have hnc := h.not_cont hS hci hj hsc
  have hwd : decide (C05.effWidth W f > 1) = false := by rw [hw]; rfl
  have hfc : C05.flagAt Ri.cells j (·.cont) = false := by rw [flagAt_get _ _ hjR]; exact hnc
  have hlen : (typedRow W Ri j cols a f cellF).cells.length = S.length := by
    simp [typedRow, C05.printedRow, h.len]
  refine ⟨?_, hlen, h.plen, ?_, ?_, ?_⟩
  · simp only [typedRow, C05.printedRow]
    split
    · rfl
    · exact h.unwrapped
  · intro k hk hkj
    have hkR : k < Ri.cells.length := by rw [h.len]; exact hk
    rw [typedRow_get _ _ _ _ _ _ k hkR]
    by_cases hkj' : j = k
    · subst hkj'; rw [if_pos rfl]; exact hvF
    · rw [if_neg hkj']
      have : C05.printedCell W Ri.cells j a f (decide (C05.effWidth W f > 1)) k Ri.cells[k] = Ri.cells[k] := by
        unfold C05.printedCell
        rw [if_neg (by omega), if_neg (by rw [hfc]; simp), if_neg (by omega), if_neg (by omega)]
      rw [this]; exact h.lo k hk (by omega)
  · intro k hk hkj
    have hkR : k < Ri.cells.length := by rw [h.len]; exact hk
    rw [typedRow_get _ _ _ _ _ _ k hkR, if_neg (by omega)]
    have : C05.printedCell W Ri.cells j a f (decide (C05.effWidth W f > 1)) k Ri.cells[k] = Ri.cells[k] := by
      unfold C05.printedCell
      rw [if_neg (by omega), if_neg (by omega), if_neg (by omega), if_neg (by rw [hwd]; simp)]
    rw [this]; exact h.hi k hk (by omega)
  · intro hk
    have hkR : j + 1 < Ri.cells.length := by rw [h.len]; exact hk
    rw [typedRow_get _ _ _ _ _ _ (j + 1) hkR, if_neg (by omega)]
    have hpc : C05.printedCell W Ri.cells j a f (decide (C05.effWidth W f > 1)) (j + 1) Ri.cells[j + 1] =
        if Ri.cells[j].wide = true then C05.setCell W Ri.cells[j + 1] 32 a else Ri.cells[j + 1] := by
      unfold C05.printedCell
      rw [if_neg (by omega), if_neg (by omega), if_pos rfl, hwd, flagAt_get _ _ hjR]
      simp only [Bool.false_eq_true, ↓reduceIte, id]
    rw [hpc]
    by_cases hrw : Ri.cells[j].wide = true
    · rw [if_pos hrw]
      refine Or.inr ⟨?_, ?_, ?_, ?_⟩
      · rcases h.mid hj with h1 | ⟨_, _, h3, _⟩
        · have hpw : (P[j]'(by rw [h.plen]; exact hj)).wide = true := by rw [← view_wide h1]; exact hrw
          obtain ⟨_, hc⟩ := hP.wide_next j (by rw [h.plen]; exact hj) hpw
          exact hc
        · rw [hrw] at h3; exact absurd h3 (by simp)
      · rw [hS.cont_iff (j + 1) hk, if_neg (by omega)]
        simpa using hsw
      · simp [C05.setCell, hW32]
      · simp [C05.setCell]
    · rw [if_neg hrw]
      exact Or.inl (h.hi (j + 1) hk (by omega))

/-- a wide cell of the current line typed at columns `j`, `j + 1` -/
theorem Mid.typed2 {S P : List Cell} (hW32 : W 32 = some 1) (hS : SrcOk W S) (hP : SrcOk W P) {j : Nat} {Ri : Row}
    (h : Mid S P j Ri) (hci : CellsInv W Ri.cells) (hj : j < S.length) (hsc : S[j].cont = false) (hsw : S[j].wide = true)
    (cols : Nat) (a : Attrs) (f : Nat) (hw : C05.effWidth W f = 2) (cellF : Cell) (hvF : view cellF = view S[j]) :
    Mid S P (j + 2) (typedRow W Ri j cols a f cellF) := by
  have hjR : j < Ri.cells.length := by rw [h.len]; exact hj
  obtain ⟨hj1, hc1⟩ := hS.wide_next j hj hsw
  have hj1R : j + 1 < Ri.cells.length := by rw [h.len]; exact hj1
  have hnc := h.not_cont hS hci hj hsc
  have hwd : decide (C05.effWidth W f > 1) = true := by rw [hw]; rfl
  have hfc : C05.flagAt Ri.cells j (·.cont) = false := by rw [flagAt_get _ _ hjR]; exact hnc
  have hlen : (typedRow W Ri j cols a f cellF).cells.length = S.length := by
    simp [typedRow, C05.printedRow, h.len]
  refine ⟨?_, hlen, h.plen, ?_, ?_, ?_⟩
  · simp only [typedRow, C05.printedRow]
    split
    · rfl
    · exact h.unwrapped
  · intro k hk hkj
    have hkR : k < Ri.cells.length := by rw [h.len]; exact hk
    rw [typedRow_get _ _ _ _ _ _ k hkR]
    by_cases hkj' : j = k
    · subst hkj'; rw [if_pos rfl]; exact hvF
    · rw [if_neg hkj']
      by_cases hk1 : k = j + 1
      · subst hk1
        have : C05.printedCell W Ri.cells j a f (decide (C05.effWidth W f > 1)) (j + 1) Ri.cells[j + 1] =
            C05.contOf (if C05.flagAt Ri.cells j (·.wide) = true then C05.setCell W Ri.cells[j + 1] 32 a else Ri.cells[j + 1]) := by
          unfold C05.printedCell
          rw [if_neg (by omega), if_neg (by omega), if_pos rfl, hwd]
          simp only [↓reduceIte]
        rw [this, view_contOf, hS.cont_view (j + 1) hj1 hc1]
      · have : C05.printedCell W Ri.cells j a f (decide (C05.effWidth W f > 1)) k Ri.cells[k] = Ri.cells[k] := by
          unfold C05.printedCell
          rw [if_neg (by omega), if_neg (by rw [hfc]; simp), if_neg (by omega), if_neg (by omega)]
        rw [this]; exact h.lo k hk (by omega)
  · intro k hk hkj
    have hkR : k < Ri.cells.length := by rw [h.len]; exact hk
    rw [typedRow_get _ _ _ _ _ _ k hkR, if_neg (by omega)]
    have : C05.printedCell W Ri.cells j a f (decide (C05.effWidth W f > 1)) k Ri.cells[k] = Ri.cells[k] := by
      unfold C05.printedCell
      rw [if_neg (by omega), if_neg (by omega), if_neg (by omega), if_neg (by omega)]
    rw [this]; exact h.hi k hk (by omega)
  · intro hk
    have hkR : j + 2 < Ri.cells.length := by rw [h.len]; exact hk
    rw [typedRow_get _ _ _ _ _ _ (j + 2) hkR, if_neg (by omega)]
    have hpc : C05.printedCell W Ri.cells j a f (decide (C05.effWidth W f > 1)) (j + 2) Ri.cells[j + 2] =
        if Ri.cells[j].wide = false ∧ Ri.cells[j + 1].wide = true then Ri.cells[j + 2].clear a else Ri.cells[j + 2] := by
      unfold C05.printedCell
      rw [if_neg (by omega), if_neg (by omega), if_neg (by omega), hwd, flagAt_get _ _ hjR, flagAt_get _ _ hj1R]
      simp only [true_and]
    rw [hpc]
    by_cases hc : Ri.cells[j].wide = false ∧ Ri.cells[j + 1].wide = true
    · rw [if_pos hc]
      refine Or.inr ⟨?_, ?_, by simp [Cell.clear], by simp [Cell.clear]⟩
      · have h1 := h.hi (j + 1) hj1 (by omega)
        have hpw : (P[j + 1]'(by rw [h.plen]; exact hj1)).wide = true := by rw [← view_wide h1]; exact hc.2
        obtain ⟨_, hcc⟩ := hP.wide_next (j + 1) (by rw [h.plen]; exact hj1) hpw
        exact hcc
      · rw [hS.cont_iff (j + 2) hk, if_neg (by omega)]
        exact (cellOk_cont W _ (hS.cells_ok _ (List.getElem_mem hj1)) hc1).1
    · rw [if_neg hc]
      exact Or.inl (h.hi (j + 2) hk (by omega))

/-! ### the simulation: emitter state vs receiver state -/

/-- the extra fixed data of one line of a diff: the previous line, and that the receiver is a parser satisfying the
invariant -/
structure DCtx (K : Ctx W cb) where
  prv : List Cell
  hprv : prv.length = K.src.length
  hP : SrcOk W prv
  pinv : C13.ParserInv W K.p0
  hcb : C13.CbInv W cb

/-- the bytes emitted so far have been processed; the receiver's line `i` is `x` columns into the diff -/
def DrawnD (K : Ctx W cb) (D : DCtx K) (x : Nat) (st : Row.FmtSt) : Prop :=
  ∃ Ri, Emitted W cb K.p0 st.out (shape K.r0 K.i Ri st.prevPos st.prevAttrs) ∧ Mid K.src D.prv x Ri ∧ Bytes st.out ∧
    (st.prevPos.col ≤ K.src.length ∧ (Attrs.wf K.r0.pen → Attrs.wf st.prevAttrs))

theorem cells_of_emitted (hW32 : W 32 = some 1) (K : Ctx W cb) (D : DCtx K) {out : List Nat} {Ri : Row} {pos : Pos}
    {pen : Attrs} (hb : Bytes out) (hem : Emitted W cb K.p0 out (shape K.r0 K.i Ri pos pen)) : CellsInv W Ri.cells := by
  have hg := (emitted_inv hW32 D.hcb D.pinv hb hem).1
  have := hg.row_ok Ri (List.mem_of_getElem? (shape_row K.canvas K.hi Ri pos pen))
  exact ((rowOk_iff W Ri).mp this.2).2

theorem drawnD_congr (K : Ctx W cb) (D : DCtx K) {x : Nat} {st st' : Row.FmtSt} (h : DrawnD K D x st) (ho : st'.out = st.out)
    (hp : st'.prevPos = st.prevPos) (ha : st'.prevAttrs = st.prevAttrs) : DrawnD K D x st' := by
  obtain ⟨Ri, hem, hl, hb, hc⟩ := h
  exact ⟨Ri, by rw [ho, hp, ha]; exact hem, hl, by rw [ho]; exact hb, by rw [hp, ha]; exact hc⟩

/-- the emitter's cursor move and pen change before an erase run is flushed -/
theorem eraseMove_drawnD (K : Ctx W cb) (D : DCtx K) {x : Nat} {st : Row.FmtSt} (h : DrawnD K D x st)
    (e : Nat) (a : Attrs) (he : e < K.src.length) (hwf : Attrs.wf a) :
    DrawnD K D x (Row.eraseMove K.src.length K.i false st e a) ∧
      (Row.eraseMove K.src.length K.i false st e a).prevPos = ⟨K.i, e⟩ ∧
      (Row.eraseMove K.src.length K.i false st e a).prevAttrs = a ∧
      (Row.eraseMove K.src.length K.i false st e a).erase = st.erase ∧
      (Row.eraseMove K.src.length K.i false st e a).prevWasWide = st.prevWasWide := by
  obtain ⟨Ri, hem, hmid, hb, hc⟩ := h
  have hl : Ri.cells.length = K.r0.g.size.cols := by rw [hmid.len, K.hsrc]
  have hu := K.canvas.cols_u16
  have hru := K.canvas.rows_u16
  have hi := K.hi
  have hb' := eraseMove_bytes K.src.length K.i false st e a hb
  have h1 := emitted_step W cb K.ready hem
    (step_moveFromTo W cb st.prevPos ⟨K.i, e⟩ (by simp only; omega) (by simp only; rw [← K.hsrc] at hu; omega))
    (shape_goto K.canvas hl st.prevPos ⟨K.i, e⟩ st.prevAttrs K.hi (by rw [← K.hsrc]; exact he))
  by_cases hp : (st.prevAttrs != a) = true
  · have h2 := emitted_step W cb K.ready h1 (step_pen W cb a st.prevAttrs hwf)
      (r' := shape K.r0 K.i Ri ⟨K.i, e⟩ a) (by simp [shape])
    have hout : (Row.eraseMove K.src.length K.i false st e a).out =
        st.out ++ Term.moveFromTo st.prevPos ⟨K.i, e⟩ ++ a.writeEscapeCodeDiff st.prevAttrs := by
      simp [Row.eraseMove, hp]
    have hpa : (Row.eraseMove K.src.length K.i false st e a).prevAttrs = a := by simp [Row.eraseMove, hp]
    have hpp : (Row.eraseMove K.src.length K.i false st e a).prevPos = ⟨K.i, e⟩ := rfl
    refine ⟨⟨Ri, ?_, hmid, hb', ?_⟩, hpp, hpa, rfl, rfl⟩
    · rw [hout, hpp, hpa]; exact h2
    · rw [hpp, hpa]; exact ⟨Nat.le_of_lt he, fun _ => hwf⟩
  · have hpa' : st.prevAttrs = a := by simpa using hp
    have hout : (Row.eraseMove K.src.length K.i false st e a).out = st.out ++ Term.moveFromTo st.prevPos ⟨K.i, e⟩ := by
      simp [Row.eraseMove, hp]
    have hpa : (Row.eraseMove K.src.length K.i false st e a).prevAttrs = a := by simp [Row.eraseMove, hp, hpa']
    have hpp : (Row.eraseMove K.src.length K.i false st e a).prevPos = ⟨K.i, e⟩ := rfl
    refine ⟨⟨Ri, ?_, hmid, hb', ?_⟩, hpp, hpa, rfl, rfl⟩
    · rw [hout, hpp, hpa, ← hpa']; exact h1
    · rw [hpp, hpa]; exact ⟨Nat.le_of_lt he, fun _ => hwf⟩

/-- the simulation invariant between cells (not in the middle of a wide character) -/
structure Inv1D (K : Ctx W cb) (D : DCtx K) (j : Nat) (st : Row.FmtSt) : Prop where
  drawn : DrawnD K D (esK j st) st
  er : ∀ e a, st.erase = some (e, a) → e ≤ j ∧ e < K.src.length ∧ Attrs.wf a ∧
    ∀ k (hk : k < K.src.length), e ≤ k → k < j → view K.src[k] = blankA a

theorem inv1D_congr (K : Ctx W cb) (D : DCtx K) {j : Nat} {st st' : Row.FmtSt} (h : Inv1D K D j st) (ho : st'.out = st.out)
    (hp : st'.prevPos = st.prevPos) (ha : st'.prevAttrs = st.prevAttrs) (he : st'.erase = st.erase) : Inv1D K D j st' := by
  refine ⟨?_, ?_⟩
  · have := h.drawn
    have e : esK j st' = esK j st := by simp [esK, he]
    rw [e]; exact drawnD_congr K D this ho hp ha
  · intro e a h'; rw [he] at h'; exact h.er e a h'

/-- the first half of the per-cell body: a pending erase run is flushed exactly when cell `j` ends it -/
theorem flush_invD (hW32 : W 32 = some 1) (K : Ctx W cb) (D : DCtx K) (hS : SrcOk W K.src) {j : Nat} (hj : j < K.src.length)
    {st : Row.FmtSt} (h : Inv1D K D j st) :
    ∃ st2, C03.flush K.src.length K.i false st j K.src[j] = .ok st2 ∧ Inv1D K D j st2 ∧
      st2.prevWasWide = st.prevWasWide ∧
      (st2.erase = none ∨ ∃ e a, st2.erase = some (e, a) ∧ K.src[j].hasContents = false ∧ K.src[j].attrs = a) := by
  unfold C03.flush
  cases he : st.erase with
  | none => exact ⟨st, rfl, h, rfl, Or.inl he⟩
  | some pa =>
    obtain ⟨e, a⟩ := pa
    obtain ⟨hej, hel, hwf, hvs⟩ := h.er e a he
    simp only
    by_cases hcond : (K.src[j].hasContents || K.src[j].attrs != a) = true
    · simp only [hcond, ↓reduceIte, subM_ok hej, pure_bind', ok_bind]
      have hd : DrawnD K D e st := by have := h.drawn; simpa [esK, he] using this
      obtain ⟨hd', hp', ha', he', hw'⟩ := eraseMove_drawnD K D hd e a hel hwf
      refine ⟨_, rfl, ⟨?_, ?_⟩, hw', Or.inl rfl⟩
      · show DrawnD K D j _
        obtain ⟨Ri, hem, hmid, hb, hc⟩ := hd'
        rw [hp', ha'] at hem
        have hl : Ri.cells.length = K.r0.g.size.cols := by rw [hmid.len, K.hsrc]
        have hu := K.canvas.cols_u16
        by_cases hn : j - e = 0
        · have hje : e = j := by omega
          refine ⟨Ri, ?_, hje ▸ hmid, Bytes.append hb (eraseChar_bytes _), hc⟩
          simp only [hp', ha']
          have := emitted_step W cb K.ready hem (step_eraseChar W cb (j - e) (by rw [← K.hsrc] at hu; omega))
            (r' := shape K.r0 K.i Ri ⟨K.i, e⟩ a) (by simp [hn])
          exact this
        · have hci := cells_of_emitted hW32 K D hb hem
          have e1 := shape_echD K hl hci e (j - e) (by rw [← K.hsrc]; omega) a
          have := emitted_step W cb K.ready hem (step_eraseChar W cb (j - e) (by rw [← K.hsrc] at hu; omega))
            (r' := shape K.r0 K.i (C07.erasedRow Ri.cells Ri.wrapped e (e + (j - e)) a) ⟨K.i, e⟩ a) (by
              simp only [hn, ↓reduceIte]
              have : (shape K.r0 K.i Ri ⟨K.i, e⟩ a).pen = a := rfl
              rw [this, e1]
              rfl)
          refine ⟨C07.erasedRow Ri.cells Ri.wrapped e (e + (j - e)) a, ?_, ?_, Bytes.append hb (eraseChar_bytes _), hc⟩
          · simp only [hp', ha']; exact this
          · rw [show e + (j - e) = j by omega]
            exact hmid.erase hS D.hP (by omega) (Nat.le_of_lt hj) a (fun k hk h1 h2 => hvs k hk h1 h2)
      · intro e' a' h'; simp at h'
    · simp only [hcond, Bool.false_eq_true, ↓reduceIte]
      simp only [Bool.or_eq_true, bne_iff_ne, ne_eq, not_or, Bool.not_eq_true, Decidable.not_not] at hcond
      exact ⟨st, rfl, h, rfl, Or.inr ⟨e, a, he, hcond.1, hcond.2⟩⟩

/-- a cell with text: move there if need be, set the pen if need be, type it — on whatever the line holds there -/
theorem draw_textD (K : Ctx W cb) (D : DCtx K) (hW : WOk W) (hS : SrcOk W K.src) {j : Nat} (hj : j < K.src.length)
    {st : Row.FmtSt} (hd : DrawnD K D j st) (hh : K.src[j].hasContents = true) (hnc : K.src[j].cont = false) :
    C03.emit K.src.length K.i false st j K.src[j] true = .ok (afterText K.i j st K.src[j]) ∧
      DrawnD K D (j + (if K.src[j].wide then 2 else 1)) (afterText K.i j st K.src[j]) := by
  have hok := hS.cells_ok _ (List.getElem_mem hj)
  obtain ⟨f, zs, ht⟩ := textCell_of hW hok (hS.emit_ok j hj) hh
  have hu := K.canvas.cols_u16
  have hru := K.canvas.rows_u16
  have hi := K.hi
  have hfine : CellFine K.src[j] := cellFine_of_ok hok
  have e3 := emit_text_eq K.src.length K.i j st K.src[j] hh hfine false (fun h => by simp at h)
  refine ⟨e3, ?_⟩
  obtain ⟨Ri, hem, hmid, hb, hc⟩ := hd
  have hb3 : Bytes (afterText K.i j st K.src[j]).out := emit_bytes _ _ _ _ _ _ _ hb e3
  have hl : Ri.cells.length = K.r0.g.size.cols := by rw [hmid.len, K.hsrc]
  -- the move
  have h1 : Emitted W cb K.p0 (if (({ row := K.i, col := j } : Pos) != st.prevPos) = true then
        st.out ++ Term.moveFromTo st.prevPos ⟨K.i, j⟩ else st.out) (shape K.r0 K.i Ri ⟨K.i, j⟩ st.prevAttrs) := by
    by_cases hne : (({ row := K.i, col := j } : Pos) != st.prevPos) = true
    · simp only [hne, ↓reduceIte]
      exact emitted_step W cb K.ready hem
        (step_moveFromTo W cb st.prevPos ⟨K.i, j⟩ (by simp only; omega) (by simp only; rw [← K.hsrc] at hu; omega))
        (shape_goto K.canvas hl st.prevPos ⟨K.i, j⟩ st.prevAttrs K.hi (by rw [← K.hsrc]; exact hj))
    · simp only [hne, Bool.false_eq_true, ↓reduceIte]
      have : st.prevPos = ⟨K.i, j⟩ := by
        have := hne; simp only [bne_iff_ne, ne_eq, Decidable.not_not] at this; exact this.symm
      rw [← this]; exact hem
  -- the pen
  have h2 : Emitted W cb K.p0 ((if (({ row := K.i, col := j } : Pos) != st.prevPos) = true then
        st.out ++ Term.moveFromTo st.prevPos ⟨K.i, j⟩ else st.out) ++
        (if (st.prevAttrs != K.src[j].attrs) = true then K.src[j].attrs.writeEscapeCodeDiff st.prevAttrs else []))
      (shape K.r0 K.i Ri ⟨K.i, j⟩ K.src[j].attrs) := by
    by_cases hp : (st.prevAttrs != K.src[j].attrs) = true
    · simp only [hp, ↓reduceIte]
      exact emitted_step W cb K.ready h1 (step_pen W cb K.src[j].attrs st.prevAttrs (hS.wf j hj))
        (r' := shape K.r0 K.i Ri ⟨K.i, j⟩ K.src[j].attrs) (by simp [shape])
    · have hpa : st.prevAttrs = K.src[j].attrs := by simpa using hp
      simp only [hp, Bool.false_eq_true, ↓reduceIte, List.append_nil]
      rw [← hpa]; exact h1
  have hb2 : Bytes ((if (({ row := K.i, col := j } : Pos) != st.prevPos) = true then
        st.out ++ Term.moveFromTo st.prevPos ⟨K.i, j⟩ else st.out) ++
        (if (st.prevAttrs != K.src[j].attrs) = true then K.src[j].attrs.writeEscapeCodeDiff st.prevAttrs else [])) := by
    have : (afterText K.i j st K.src[j]).out = ((if (({ row := K.i, col := j } : Pos) != st.prevPos) = true then
        st.out ++ Term.moveFromTo st.prevPos ⟨K.i, j⟩ else st.out) ++
        (if (st.prevAttrs != K.src[j].attrs) = true then K.src[j].attrs.writeEscapeCodeDiff st.prevAttrs else [])) ++
        K.src[j].contents.take K.src[j].len := rfl
    rw [this] at hb3
    exact (bytes_append.mp hb3).1
  -- the receiver is well formed here
  have hginv := emitted_inv hW.space D.hcb D.pinv hb2 h2
  have hci := cells_of_emitted hW.space K D hb2 h2
  -- the text
  have hstep := step_text W cb (K.src[j].contents.take K.src[j].len) ht.valid
    (by rw [ht.chars]; exact ht.plain) ht.noesc
  rw [ht.chars] at hstep
  have hfit : (shape K.r0 K.i Ri ⟨K.i, j⟩ K.src[j].attrs).g.pos.col + C05.effWidth W f ≤
      (shape K.r0 K.i Ri ⟨K.i, j⟩ K.src[j].attrs).g.size.cols := by
    have := ht.fits
    show j + C05.effWidth W f ≤ K.r0.g.size.cols
    rw [← K.hsrc]; exact this
  obtain ⟨r, cellF, hr, et, hvF, _⟩ := type_cell_any hginv.1 hginv.2 hW.space K.src[j].attrs f zs ht.first ht.width
    ht.zero hfit ht.pre
  have hrRi : r = Ri := by
    have := shape_row K.canvas K.hi Ri ⟨K.i, j⟩ K.src[j].attrs
    have h' : (shape K.r0 K.i Ri ⟨K.i, j⟩ K.src[j].attrs).g.rows[(shape K.r0 K.i Ri ⟨K.i, j⟩ K.src[j].attrs).g.pos.row]? = some Ri := this
    rw [hr] at h'; exact Option.some.inj h'
  subst hrRi
  have hvF' : view cellF = view K.src[j] := by rw [hvF, ht.view]
  have hgrid : typedGrid W (shape K.r0 K.i r ⟨K.i, j⟩ K.src[j].attrs).g r K.src[j].attrs f cellF =
      (shape K.r0 K.i (typedRow W r j K.r0.g.size.cols K.src[j].attrs f cellF) ⟨K.i, j + C05.effWidth W f⟩ K.src[j].attrs).g := by
    simp [typedGrid, shape, List.set_set]
  have h3 := emitted_step W cb K.ready h2 hstep
    (r' := shape K.r0 K.i (typedRow W r j K.r0.g.size.cols K.src[j].attrs f cellF) ⟨K.i, j + C05.effWidth W f⟩ K.src[j].attrs) (by
      have : (shape K.r0 K.i r ⟨K.i, j⟩ K.src[j].attrs).pen = K.src[j].attrs := rfl
      rw [this, et, hgrid]; rfl)
  have hgetD1 := ht.width
  by_cases hwide : K.src[j].wide = true
  · have hw2 : C05.effWidth W f = 2 := by
      have := ht.wide; rw [hwide] at this
      have h' : 1 < (W f).getD 1 := by simpa using this.symm
      unfold C05.effWidth; omega
    simp only [hwide, ↓reduceIte]
    refine ⟨_, ?_, hmid.typed2 hW.space hS D.hP hci hj hnc hwide K.r0.g.size.cols K.src[j].attrs f hw2 cellF hvF', hb3, ?_⟩
    · rw [hw2] at h3
      simpa [afterText, Cell.isWide, hwide] using h3
    · have := ht.fits
      refine ⟨?_, fun _ => hS.wf j hj⟩
      simp only [afterText, Cell.isWide, hwide, ↓reduceIte]
      unfold C05.effWidth at hw2; omega
  · have hwide' : K.src[j].wide = false := by simpa using hwide
    have hw1 : C05.effWidth W f = 1 := by
      have := ht.wide; rw [hwide'] at this
      have h' : ¬ 1 < (W f).getD 1 := by simpa using this.symm
      unfold C05.effWidth; omega
    simp only [hwide', Bool.false_eq_true, ↓reduceIte]
    refine ⟨_, ?_, hmid.typed1 hW.space hS D.hP hci hj hnc hwide' K.r0.g.size.cols K.src[j].attrs f hw1 cellF hvF', hb3, ?_⟩
    · rw [hw1] at h3
      simpa [afterText, Cell.isWide, hwide'] using h3
    · refine ⟨?_, fun _ => hS.wf j hj⟩
      simp only [afterText, Cell.isWide, hwide', Bool.false_eq_true, ↓reduceIte]
      omega

/-- the invariant of the cell loop -/
structure JD (K : Ctx W cb) (D : DCtx K) (j : Nat) (st : Row.FmtSt) : Prop where
  ww : ∀ (_ : 0 < j) (hl : j ≤ K.src.length), st.prevWasWide = (K.src[j - 1]'(by omega)).wide
  w0 : j = 0 → st.prevWasWide = false
  A : st.prevWasWide = true → st.erase = none ∧ DrawnD K D (j + 1) st
  B : st.prevWasWide = false → Inv1D K D j st

/-- the second half of the per-cell body, from a state in which any finished erase run has been flushed -/
theorem emit_invD (K : Ctx W cb) (D : DCtx K) (hW : WOk W) (hS : SrcOk W K.src) {j : Nat} (hj : j < K.src.length)
    (hnc : K.src[j].cont = false) {st2 : Row.FmtSt} (hI2 : Inv1D K D j st2) (hw2' : st2.prevWasWide = K.src[j].wide)
    (hdisj : st2.erase = none ∨ ∃ e a, st2.erase = some (e, a) ∧ K.src[j].hasContents = false ∧ K.src[j].attrs = a) :
    ∃ st', C03.emit K.src.length K.i false st2 j K.src[j] (!(K.src[j].eq (D.prv[j]'(by rw [D.hprv]; exact hj)))) = .ok st' ∧
      JD K D (j + 1) st' := by
  have hok := hS.cells_ok _ (List.getElem_mem hj)
  by_cases hd : K.src[j].eq (D.prv[j]'(by rw [D.hprv]; exact hj)) = true
  · -- an unchanged cell: nothing is written
    have hv : view K.src[j] = view (D.prv[j]'(by rw [D.hprv]; exact hj)) := (eq_iff_view _ _).mp hd
    simp only [hd, Bool.not_true, C03.emit, Bool.false_eq_true, ↓reduceIte, pure_eq_ok]
    refine ⟨st2, rfl, ⟨?_, ?_, ?_, ?_⟩⟩
    · intro _ _; simp [hw2']
    · intro h0; omega
    · intro h'
      have hwide : K.src[j].wide = true := by rw [← hw2']; exact h'
      have hnone : st2.erase = none := by
        rcases hdisj with h1 | ⟨_, _, _, h2, _⟩
        · exact h1
        · rw [wide_has_contents hok hwide] at h2; simp at h2
      refine ⟨hnone, ?_⟩
      obtain ⟨Ri, hem, hmid, hb, hc⟩ : DrawnD K D j st2 := by have := hI2.drawn; simpa [esK, hnone] using this
      exact ⟨Ri, hem, hmid.skip2 hS D.hP hj hv hwide, hb, hc⟩
    · intro h'
      have hnw : K.src[j].wide = false := by rw [← hw2']; exact h'
      rcases hdisj with hnone | ⟨e, a, hea, hh', haa⟩
      · refine ⟨?_, fun e a h'' => by rw [hnone] at h''; simp at h''⟩
        obtain ⟨Ri, hem, hmid, hb, hc⟩ : DrawnD K D j st2 := by have := hI2.drawn; simpa [esK, hnone] using this
        simp only [esK, hnone]
        exact ⟨Ri, hem, hmid.skip1 hj hv, hb, hc⟩
      · obtain ⟨h1, h2, h3, h4⟩ := hI2.er e a hea
        refine ⟨?_, ?_⟩
        · have := hI2.drawn; simp only [esK, hea] at this ⊢; exact this
        · intro e' a' h''
          rw [hea] at h''
          simp only [Option.some.injEq, Prod.mk.injEq] at h''
          obtain ⟨rfl, rfl⟩ := h''
          refine ⟨by omega, h2, h3, ?_⟩
          intro k hk hk1 hk2
          by_cases hkj : k = j
          · subst hkj
            have hbv := hS.blank_view k hk hh'
            rw [hnc, haa] at hbv
            rw [hbv]; rfl
          · exact h4 k hk hk1 (by omega)
  · have hd' : (!(K.src[j].eq (D.prv[j]'(by rw [D.hprv]; exact hj)))) = true := by simpa using hd
    rw [hd']
    by_cases hh : K.src[j].hasContents = true
    · -- text
      have hnone : st2.erase = none := by
        rcases hdisj with h1 | ⟨_, _, _, h2, _⟩
        · exact h1
        · rw [hh] at h2; simp at h2
      have hdj : DrawnD K D j st2 := by have := hI2.drawn; simpa [esK, hnone] using this
      obtain ⟨e3, hd3⟩ := draw_textD K D hW hS hj hdj hh hnc
      refine ⟨_, e3, ⟨?_, ?_, ?_, ?_⟩⟩
      · intro _ _; simp [afterText, hw2']
      · intro h0; omega
      · intro h'
        have hwide : K.src[j].wide = true := by simpa [afterText, hw2'] using h'
        refine ⟨by simpa [afterText] using hnone, ?_⟩
        simpa [hwide] using hd3
      · intro h'
        have hwide : K.src[j].wide = false := by simpa [afterText, hw2'] using h'
        refine ⟨?_, fun e a h'' => by simp [afterText, hnone] at h''⟩
        have : esK (j + 1) (afterText K.i j st2 K.src[j]) = j + 1 := by simp [esK, afterText, hnone]
        rw [this]
        simpa [hwide] using hd3
    · -- a blank cell: an erase run starts or goes on
      have hh' : K.src[j].hasContents = false := by simpa using hh
      have hbv := hS.blank_view j hj hh'
      rw [hnc] at hbv
      have hnw : K.src[j].wide = false := by
        simp only [view, View.mk.injEq] at hbv; exact hbv.2.1
      simp only [C03.emit, ↓reduceIte, hh', Bool.false_eq_true]
      rcases hdisj with hnone | ⟨e, a, hea, _, haa⟩
      · simp only [hnone, Option.isNone_none, ↓reduceIte, pure_eq_ok]
        have hdj : DrawnD K D j st2 := by have := hI2.drawn; simpa [esK, hnone] using this
        refine ⟨_, rfl, ⟨?_, ?_, ?_, ?_⟩⟩
        · intro _ _; simp [hw2', hnw]
        · intro h0; omega
        · intro h'; simp only at h'; rw [hw2', hnw] at h'; simp at h'
        · intro _
          refine ⟨?_, ?_⟩
          · simp only [esK]; exact drawnD_congr K D hdj rfl rfl rfl
          · intro e' a' h'
            simp only [Option.some.injEq, Prod.mk.injEq] at h'
            obtain ⟨rfl, rfl⟩ := h'
            refine ⟨by omega, hj, hS.wf j hj, ?_⟩
            intro k hk hk1 hk2
            have : k = j := by omega
            subst this
            rw [hbv]; rfl
      · simp only [hea, Option.isNone_some, Bool.false_eq_true, ↓reduceIte, pure_eq_ok]
        obtain ⟨h1, h2, h3, h4⟩ := hI2.er e a hea
        refine ⟨st2, rfl, ⟨?_, ?_, ?_, ?_⟩⟩
        · intro _ _; simp [hw2', hnw]
        · intro h0; omega
        · intro h'; rw [hw2', hnw] at h'; simp at h'
        · intro _
          refine ⟨?_, ?_⟩
          · have := hI2.drawn; simp only [esK, hea] at this ⊢; exact this
          · intro e' a' h'
            rw [hea] at h'
            simp only [Option.some.injEq, Prod.mk.injEq] at h'
            obtain ⟨rfl, rfl⟩ := h'
            refine ⟨by omega, h2, h3, ?_⟩
            intro k hk hk1 hk2
            by_cases hkj : k = j
            · subst hkj; rw [hbv, haa]; rfl
            · exact h4 k hk hk1 (by omega)

/-- **one cell of the diff loop** -/
theorem diffStep_inv (K : Ctx W cb) (D : DCtx K) (hW : WOk W) (hS : SrcOk W K.src) {j : Nat} (hj : j < K.src.length)
    {st : Row.FmtSt} (h : JD K D j st) :
    ∃ st', Row.diffStep K.src.length K.i false st (j, (K.src[j], D.prv[j]'(by rw [D.hprv]; exact hj))) = .ok st' ∧
      JD K D (j + 1) st' := by
  have hok := hS.cells_ok _ (List.getElem_mem hj)
  unfold Row.diffStep
  simp only
  by_cases hpw : st.prevWasWide = true
  · -- the second half of a wide character: skipped
    simp only [hpw, ↓reduceIte]
    obtain ⟨he, hd⟩ := h.A hpw
    have hj0 : 0 < j := by
      rcases Nat.eq_zero_or_pos j with h0 | h0
      · have := h.w0 h0; rw [hpw] at this; simp at this
      · exact h0
    have hprev := h.ww hj0 (Nat.le_of_lt hj)
    have hcont : K.src[j].cont = true := by
      rw [hS.cont_iff j hj, if_neg (by omega), ← hprev, hpw]
    have hnw : K.src[j].wide = false := (cellOk_cont W _ hok hcont).1
    refine ⟨_, rfl, ⟨?_, ?_, ?_, ?_⟩⟩
    · intro _ _; simp [hnw]
    · intro h0; omega
    · intro h'; simp at h'
    · intro _
      refine ⟨?_, ?_⟩
      · simp only [esK, he]; exact drawnD_congr K D hd rfl rfl rfl
      · intro e a h'; simp only at h'; rw [he] at h'; simp at h'
  · have hpw' : st.prevWasWide = false := by simpa using hpw
    simp only [hpw', Bool.false_eq_true, ↓reduceIte]
    have hnc : K.src[j].cont = false := by
      rw [hS.cont_iff j hj]
      by_cases h0 : j = 0
      · simp [h0]
      · rw [if_neg h0, ← h.ww (by omega) (Nat.le_of_lt hj)]; exact hpw'
    have hB := h.B hpw'
    rw [C03.fmtCellStep_eq]
    have hB1 : Inv1D K D j { st with prevWasWide := K.src[j].isWide } := inv1D_congr K D hB rfl rfl rfl rfl
    obtain ⟨st2, e2, hI2, hw2, hdisj⟩ := flush_invD hW.space K D hS hj hB1
    rw [e2]
    simp only [ok_bind]
    have hw2' : st2.prevWasWide = K.src[j].wide := hw2
    exact emit_invD K D hW hS hj hnc hI2 hw2' hdisj

/-- the loop over the cells `j, j+1, …` of the two lines -/
theorem fold_invD (K : Ctx W cb) (D : DCtx K) (hW : WOk W) (hS : SrcOk W K.src) :
    ∀ (cs : List (Cell × Cell)) (j : Nat) (st : Row.FmtSt),
    (K.src.zip D.prv).drop j = cs → j ≤ K.src.length → JD K D j st →
    ∃ st', (C14.enumFrom j cs).foldlM (Row.diffStep K.src.length K.i false) st = .ok st' ∧ JD K D K.src.length st'
  | [], j, st, hcs, hjl, h => by
    have : j = K.src.length := by
      have := congrArg List.length hcs
      simp only [List.length_drop, List.length_nil, List.length_zip, D.hprv, Nat.min_self] at this
      omega
    subst this
    exact ⟨st, rfl, h⟩
  | c :: cs, j, st, hcs, hjl, h => by
    have hj : j < K.src.length := by
      have := congrArg List.length hcs
      simp only [List.length_drop, List.length_cons, List.length_zip, D.hprv, Nat.min_self] at this
      omega
    have hjz : j < (K.src.zip D.prv).length := by simp [List.length_zip, D.hprv]; exact hj
    have hc : (K.src[j], D.prv[j]'(by rw [D.hprv]; exact hj)) = c := by
      have := congrArg (fun l => l[0]?) hcs
      simp only [List.getElem?_drop, Nat.add_zero, List.getElem?_eq_getElem hjz, List.getElem?_cons_zero,
        Option.some.injEq, List.getElem_zip] at this
      exact this
    have hcs' : (K.src.zip D.prv).drop (j + 1) = cs := by
      have := congrArg List.tail hcs
      simpa [List.tail_drop] using this
    obtain ⟨st1, e1, h1⟩ := diffStep_inv K D hW hS hj h
    obtain ⟨st', e2, h2⟩ := fold_invD K D hW hS cs (j + 1) st1 hcs' (by omega) h1
    refine ⟨st', ?_, h2⟩
    have : C14.enumFrom j (c :: cs) = (j, c) :: C14.enumFrom (j + 1) cs := by
      simp [C14.enumFrom, List.zipIdx_cons]
    rw [this, List.foldlM_cons, ← hc, e1]
    exact e2

/-- the end of the line: a pending erase run becomes an EL -/
theorem finish_drawnD (K : Ctx W cb) (D : DCtx K) (hW : WOk W) (hS : SrcOk W K.src) (hne : 0 < K.src.length) {st : Row.FmtSt}
    (h : JD K D K.src.length st) : DrawnD K D K.src.length (Row.fmtFinish K.src.length K.i false st) := by
  have hpw : st.prevWasWide = false := by
    by_cases hp : st.prevWasWide = true
    · have := h.ww hne (Nat.le_refl _)
      rw [hp] at this
      obtain ⟨hj', _⟩ := hS.wide_next (K.src.length - 1) (by omega) this.symm
      omega
    · simpa using hp
  have hB := h.B hpw
  unfold Row.fmtFinish
  cases he : st.erase with
  | none =>
    have := hB.drawn
    simpa [esK, he] using this
  | some pa =>
    obtain ⟨e, a⟩ := pa
    obtain ⟨hej, hel, hwf, hvs⟩ := hB.er e a he
    have hd : DrawnD K D e st := by have := hB.drawn; simpa [esK, he] using this
    obtain ⟨hd', hp', ha', _, _⟩ := eraseMove_drawnD K D hd e a hel hwf
    obtain ⟨Ri, hem, hmid, hb, hc⟩ := hd'
    rw [hp', ha'] at hem
    have hl : Ri.cells.length = K.r0.g.size.cols := by rw [hmid.len, K.hsrc]
    have hci := cells_of_emitted hW.space K D hb hem
    have e1 := shape_elD K hl hci e (by rw [← K.hsrc]; omega) a
    have := emitted_step W cb K.ready hem (step_clearRowForward W cb)
      (r' := shape K.r0 K.i (C07.erasedRow Ri.cells Ri.wrapped e K.r0.g.size.cols a) ⟨K.i, e⟩ a) (by
        have : (shape K.r0 K.i Ri ⟨K.i, e⟩ a).pen = a := rfl
        rw [this, e1]; rfl)
    refine ⟨C07.erasedRow Ri.cells Ri.wrapped e K.r0.g.size.cols a, ?_, ?_, Bytes.append hb clearRowForward_bytes, hc⟩
    · simp only [hp', ha']
      exact this
    · rw [← K.hsrc]
      exact hmid.erase hS D.hP hel (Nat.le_refl _) a (fun k hk h1 _ => hvs k hk h1 hk)

/-- **one line of a diff** (`wrapping = false`, neither line wrapped, full width): on a receiver (a parser satisfying
the invariant) whose line `i` shows the previous line `pr`, processing the bytes of
`sr.write_contents_diff(pr, …)` makes line `i` show the current line `sr` cell for cell; cursor and pen end at the
`prev_pos` / `prev_attrs` the emitter returns; every other line, the region, the scrollback, the saved cursor —
everything else — is as before -/
theorem row_diff_draws (hW : WOk W) (hcb : C13.CbInv W cb) (p0 : Parser) (hr : Ready p0) (hpi : C13.ParserInv W p0)
    (hcv : Canvas (rsOf p0.ws).g) (i : Nat) (hi : i < (rsOf p0.ws).g.size.rows) (sr pr : Row)
    (hlen : sr.cells.length = (rsOf p0.ws).g.size.cols) (hplen : pr.cells.length = (rsOf p0.ws).g.size.cols)
    (hS : SrcOk W sr.cells) (hP : SrcOk W pr.cells) (hsu : sr.wrapped = false) (hpu : pr.wrapped = false)
    (Ri0 : Row) (hrow : (rsOf p0.ws).g.rows[i]? = some Ri0) (hshow : Ri0.cells.map view = pr.cells.map view)
    (hRu : Ri0.wrapped = false) (hpc : (rsOf p0.ws).g.pos.col ≤ (rsOf p0.ws).g.size.cols) (pw : Bool) :
    ∃ out np na, sr.writeContentsDiff pr 0 sr.cells.length i false pw (rsOf p0.ws).g.pos (rsOf p0.ws).pen = .ok (out, np, na) ∧
      (∃ Ri, Emitted W cb p0 out (shape (rsOf p0.ws) i Ri np na) ∧ Ri.cells.map view = sr.cells.map view ∧
        Ri.wrapped = false) ∧ Bytes out ∧ np.col ≤ (rsOf p0.ws).g.size.cols ∧
      (Attrs.wf (rsOf p0.ws).pen → Attrs.wf na) := by
  let K : Ctx W cb := ⟨p0, hr, rsOf p0.ws, hcv, i, hi, sr.cells, hlen⟩
  let D : DCtx K := ⟨pr.cells, by show pr.cells.length = sr.cells.length; rw [hplen, hlen], hP, hpi, hcb⟩
  have hne : 0 < sr.cells.length := by rw [hlen]; exact hcv.cols_pos
  have hJ0 : JD K D 0 (start (rsOf p0.ws).g.pos (rsOf p0.ws).pen) := by
    refine ⟨fun h => absurd h (Nat.lt_irrefl 0), fun _ => rfl, fun h => by simp [start] at h, fun _ => ⟨?_, ?_⟩⟩
    · refine ⟨Ri0, ?_, mid_zero hRu (by show pr.cells.length = sr.cells.length; rw [hplen, hlen]) hshow, Bytes.nil, ?_⟩
      · show Emitted W cb p0 [] (shape (rsOf p0.ws) i Ri0 (rsOf p0.ws).g.pos (rsOf p0.ws).pen)
        rw [shape_self _ _ _ hrow]
        exact emitted_nil W cb p0 hr
      · refine ⟨?_, fun h => h⟩
        show (rsOf p0.ws).g.pos.col ≤ sr.cells.length
        rw [hlen]; exact hpc
    · intro e a h; simp [start] at h
  obtain ⟨st', e, hJ⟩ := fold_invD K D hW hS (sr.cells.zip pr.cells) 0 _ (by rfl) (Nat.zero_le _) hJ0
  obtain ⟨Ri, hem, hmid, hb, hc⟩ := finish_drawnD K D hW hS hne hJ
  unfold Row.writeContentsDiff
  have hst : Row.diffStart sr pr 0 i false pw (rsOf p0.ws).g.pos (rsOf p0.ws).pen =
      .ok (start (rsOf p0.ws).g.pos (rsOf p0.ws).pen) := by
    unfold Row.diffStart
    cases sr.cells[0]? <;> cases pr.cells[0]? <;> simp [start]
  have hwin : Row.window (sr.cells.zip pr.cells) 0 sr.cells.length = C14.enumFrom 0 (sr.cells.zip pr.cells) := by
    rw [C03.window_eq, C14.windowFrom_eq]
    simp only [Nat.zero_add, List.drop_zero]
    rw [List.take_of_length_le (by simp [List.length_zip, hplen, hlen])]
  have e' : (C14.enumFrom 0 (sr.cells.zip pr.cells)).foldlM (Row.diffStep sr.cells.length i false)
      (start (rsOf p0.ws).g.pos (rsOf p0.ws).pen) = .ok st' := e
  have hend : Row.diffEnd sr pr i (Row.fmtFinish sr.cells.length i false st') =
      .ok ((Row.fmtFinish sr.cells.length i false st').out, (Row.fmtFinish sr.cells.length i false st').prevPos,
        (Row.fmtFinish sr.cells.length i false st').prevAttrs) := by
    unfold Row.diffEnd
    simp [hsu, hpu]
  rw [hst]
  simp only [ok_bind, hwin, Row.cols, e', hend]
  refine ⟨_, _, _, rfl, ⟨Ri, hem, ?_⟩, hb, ?_, hc.2⟩
  · exact hmid.full
  · have : (Row.fmtFinish sr.cells.length i false st').prevPos.col ≤ sr.cells.length := hc.1
    rw [hlen] at this; exact this

end Vt.DiffRow
