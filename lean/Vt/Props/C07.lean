/-
  C07 — erase (ED, EL, ECH) blanks exactly the addressed range with the current pen.

  * `ed2_spec` : ED 2 — every cell of every line becomes blank with the pen, every wrap flag is
    cleared; cursor, region, scrollback untouched (whole-record equality).
  * `el2_spec` : EL 2 — exactly the cursor line is blanked with the pen and unwrapped.
  * `ed0_rows_below`, `ed1_rows_above` : ED 0 / ED 1 blank every line strictly below / above the
    cursor line completely (and then EL 0 / EL 1 the cursor line).
  * `row_erase_plain` : `Row::erase(i)` on a narrow cell — cell `i` blank with the pen; the wrap
    flag cleared iff `i` is the last column; no other cell changes.
  * `selective_same` : DECSED / DECSEL are treated identically to ED / EL.
  * unknown modes change nothing: `Vt.C18.ed_unknown_inert`, `el_unknown_inert`.
  The positional range theorems for ECH / EL 0 / EL 1 / ED 0 / ED 1 on every well-formed line are in C07b
  (`erase_range_eq`, `ech_eq`, `el0_eq`, `el1_eq`, `ed0_eq`, `ed1_eq`).
-/
import Vt.Lemmas.Inv
namespace Vt.C07
open Vt
set_option linter.unusedSimpArgs false

theorem ed2_spec (g : Grid) (a : Attrs) :
    g.eraseAll a = { g with rows := g.rows.map (fun r => ⟨r.cells.map (fun c => c.clear a), false⟩) } := rfl

theorem el2_spec (g : Grid) (a : Attrs) (row : Row) (h : g.rows[g.pos.row]? = some row) :
    g.eraseRow a = .ok { g with rows := g.rows.set g.pos.row ⟨row.cells.map (fun c => c.clear a), false⟩ } := by
  simp [Grid.eraseRow, Grid.modifyCurrentRow, modifyM, h, Row.clear]

/-- a cleared cell is blank (no contents, no flags) and carries exactly the pen -/
theorem clear_blank (c : Cell) (a : Attrs) :
    (c.clear a).hasContents = false ∧ (c.clear a).isWide = false ∧
    (c.clear a).isWideContinuation = false ∧ (c.clear a).attrs = a := by
  simp [Cell.clear, Cell.hasContents, Cell.isWide, Cell.isWideContinuation]

/-- DECSED / DECSEL (`CSI ? J`, `CSI ? K`) run exactly the code of ED / EL -/
theorem selective_same (W : Nat → Option Nat) (cb : CbPolicy) (ws : WS) (params : List (List Nat))
    (ig : Bool) :
    perform W cb ws (.csiDispatch params [63] ig 74) =
      ed (emit cb (.unhandledCsi (some 63) none params 74)) (canon1 params 0) ws ∧
    perform W cb ws (.csiDispatch params [63] ig 75) =
      el (emit cb (.unhandledCsi (some 63) none params 75)) (canon1 params 0) ws := by
  constructor <;> rfl

/-- ED 0 / ED 1 first blank the lines strictly below / above the cursor line completely -/
theorem ed0_rows_below (g : Grid) (a : Attrs) :
    g.eraseAllForward a =
      ({ g with rows := g.rows.take (g.pos.row + 1) ++
          (g.rows.drop (g.pos.row + 1)).map (fun (r : Row) => r.clear a) } : Grid).eraseRowForward a := rfl

theorem ed1_rows_above (g : Grid) (a : Attrs) :
    g.eraseAllBackward a =
      ({ g with rows := (g.rows.take g.pos.row).map (fun (r : Row) => r.clear a) ++
          g.rows.drop g.pos.row } : Grid).eraseRowBackward a := rfl

/-- `Row::erase(i)` on a cell that is neither wide nor a continuation: only cell `i` changes -/
theorem row_erase_plain (r : Row) (i : Nat) (a : Attrs) (c : Cell) (hc : r.cells[i]? = some c)
    (hw : c.wide = false) (hcont : c.cont = false) :
    r.erase i a = .ok { cells := r.cells.set i (c.clear a),
                        wrapped := if i = r.cells.length - 1 then false else r.wrapped } := by
  have hi : i < r.cells.length := by
    rcases Nat.lt_or_ge i r.cells.length with h | h
    · exact h
    · simp [List.getElem?_eq_none h] at hc
  have hlen : 1 ≤ r.cells.length := by omega
  simp only [Row.erase, getM, hc, pure_bind', ok_bind, Row.clearWide, Cell.isWide, hw,
    Cell.isWideContinuation, hcont, Bool.false_eq_true, ↓reduceIte, modifyM, pure_eq_ok,
    List.length_set, subM_ok hlen]
  simp

end Vt.C07
