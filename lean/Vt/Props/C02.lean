/-
  C02 — contents_diff / state_diff turns a reproduction of prev into the current screen.

  The property is FALSE of the pinned tree (known findings F8a, F8b; DESIGN §7).  What is
  proved here, by kernel evaluation of the model on concrete runs (`decide +kernel`, no
  `native_decide`), is that the model — which the correspondence check ties to the code —
  exhibits exactly these failures:
  * `F8a_witness` : 2x2, P = "jwme", S = P then "m": the receiver that reproduces P and is fed
    `S.state_diff(P)` does NOT end in S's observable state (an unchanged cell after a wrapped
    row is overwritten by a space).
  * `F8b_witness` : 3x4, P = "ab一c", S = "ab", CUF, "x", "c": both rows wrapped in P and S, the
    receiver ends with row 0 unwrapped.
  * `diff_ok_example` : a pair on which the diff does work (non-vacuity of the positive side).
  * `diff_self_input_modes` (C19) and the pen/mode parts of the diff are exact (C09, C10).
  The positive statement `C02_partial` (pairs whose emission avoids the padding branch and the
  wrap-flag-clearing erase) is not proved yet; see the registry.
-/
import Vt.Spec.Obs
import Vt.Lemmas.Except
namespace Vt.C02
open Vt

/-- run a byte string on a fresh parser of the given size -/
def run (rows cols sb : Nat) (chunks : List (List Nat)) : M Parser := do
  let p ← Parser.new rows cols sb
  chunks.foldlM (fun p bs => p.process W0 cbNone bs) p

/-- does the receiver that reproduces `P` and is fed `S.state_diff(P)` end observably equal to `S`? -/
def diffReproduces (P S : Screen) : M Bool := do
  let q ← Parser.new P.cur.size.rows P.cur.size.cols 0
  let f ← P.stateFormatted
  let q ← q.process W0 cbNone f
  let d ← S.stateDiff P
  let q ← q.process W0 cbNone d
  let a ← obs S
  let b ← obs q.screen
  pure (obsEq (S.cur.scrollbackOffset != 0) a b)

def isOkFalse : M Bool → Bool
  | .ok b => !b
  | .error _ => false

/-- F8a: 2x2, "jwme" then "m" -/
theorem F8a_witness : isOkFalse (do
    let p ← run 2 2 0 [[106, 119, 109, 101]]
    let s ← p.process W0 cbNone [109]
    diffReproduces p.screen s.screen) = true := by decide +kernel

/-- F8b: 3x4, P = "ab一c", S = "ab" CUF "x" "c" -/
theorem F8b_witness : isOkFalse (do
    let p ← run 3 4 0 [[97, 98, 0xE4, 0xB8, 0x80, 99]]
    let s ← run 3 4 0 [[97, 98, 0x1b, 0x5b, 0x43, 120, 99]]
    diffReproduces p.screen s.screen) = true := by decide +kernel

/-- a pair on which the diff works: colours, a wide character, a wrapped row -/
theorem diff_ok_example : isOkTrue (do
    let p ← run 3 4 0 [[0x1b, 0x5b, 0x33, 0x31, 0x6d, 97, 98, 99, 100, 101]]
    let s ← p.process W0 cbNone [0x1b, 0x5b, 0x34, 0x6d, 0xE4, 0xB8, 0x80, 13, 10, 120]
    diffReproduces p.screen s.screen) = true := by decide +kernel

end Vt.C02
